// C11 harness, part 3: sparse matrices (see coq/C11/ModelMat.v).
//
//	--extra mat:<corpus path>   random histories on the real sparse matrices, written
//	                            as Coq case files mat_<k>.v (mism_mat of coq/C11/CorrMat.v)
//	--extra mat --replay f.json re-executes {"case": ...} and writes replay_mat_0.v
//	--extra mathunt             property-level oracle (dense [][]int64 shadow), shrinks,
//	                            writes mathunt.json {found, failure, at, case, tried}
//
// Only WHOLE matrices are created (constructors, Clone, T(), Tip()); Slice views are
// C10's subject.  Every observation records the header (hook VerifC10Header) so that a
// window would be visible.  The private `values` vector is read through the add-only
// hook VerifC11MatValues (/repo/verif_c11_mat.go) + VerifC11Dump.
package main

import (
	"encoding/json"
	"fmt"
	"os"
	"strings"

	. "adharness/common"

	ad "github.com/pbenner/autodiff"
)

// MOp is one operation of a matrix history.  U: operand handle of Set, -1 = dense
// operand R x C with row-major values XS.
type MOp struct {
	Op string  `json:"op"`
	T  int     `json:"t"`
	U  int     `json:"u,omitempty"`
	I  int64   `json:"i,omitempty"`
	J  int64   `json:"j,omitempty"`
	I2 int64   `json:"i2,omitempty"`
	J2 int64   `json:"j2,omitempty"`
	X  int64   `json:"x,omitempty"`
	R  int64   `json:"r,omitempty"`
	C  int64   `json:"c,omitempty"`
	RI []int64 `json:"ri,omitempty"`
	CI []int64 `json:"ci,omitempty"`
	XS []int64 `json:"xs,omitempty"`
	// IterFrom / IterFromPart: V = 1 uses the non-const IteratorFrom(i,j) + Get() instead of
	// ConstIteratorFrom(i,j) + GetConst() (the same ITERATOR_FROM at HEAD, the same model operation)
	V   int  `json:"v,omitempty"`
	Bad bool `json:"bad,omitempty"`
	// PermuteRows / PermuteColumns / SymPerm: the argument pi
	PI []int64 `json:"pi,omitempty"`
}
type MCase struct {
	Type string `json:"type"`
	Mat  bool   `json:"mat"`
	Ops  []MOp  `json:"ops"`
	Outs []Out  `json:"outs,omitempty"`
}

func newSparseMat(name string, ri, ci, xs []int64, r, c int) ad.Matrix {
	a, b := ints(ri), ints(ci)
	switch name {
	case "float64":
		v := make([]float64, len(xs))
		for i, x := range xs {
			v[i] = float64(x)
		}
		return ad.NewSparseFloat64Matrix(a, b, v, r, c)
	case "float32":
		v := make([]float32, len(xs))
		for i, x := range xs {
			v[i] = float32(x)
		}
		return ad.NewSparseFloat32Matrix(a, b, v, r, c)
	case "int":
		v := make([]int, len(xs))
		for i, x := range xs {
			v[i] = int(x)
		}
		return ad.NewSparseIntMatrix(a, b, v, r, c)
	case "int8":
		v := make([]int8, len(xs))
		for i, x := range xs {
			v[i] = int8(x)
		}
		return ad.NewSparseInt8Matrix(a, b, v, r, c)
	case "int16":
		v := make([]int16, len(xs))
		for i, x := range xs {
			v[i] = int16(x)
		}
		return ad.NewSparseInt16Matrix(a, b, v, r, c)
	case "int32":
		v := make([]int32, len(xs))
		for i, x := range xs {
			v[i] = int32(x)
		}
		return ad.NewSparseInt32Matrix(a, b, v, r, c)
	case "int64":
		v := make([]int64, len(xs))
		for i, x := range xs {
			v[i] = int64(x)
		}
		return ad.NewSparseInt64Matrix(a, b, v, r, c)
	case "real32":
		v := make([]float32, len(xs))
		for i, x := range xs {
			v[i] = float32(x)
		}
		return ad.NewSparseReal32Matrix(a, b, v, r, c)
	case "real64":
		v := make([]float64, len(xs))
		for i, x := range xs {
			v[i] = float64(x)
		}
		return ad.NewSparseReal64Matrix(a, b, v, r, c)
	}
	Die("unknown element type %s", name)
	return nil
}

func denseMat(xs []int64, r, c int) ad.Matrix {
	v := make([]float64, len(xs))
	for i, x := range xs {
		v[i] = float64(x)
	}
	return ad.NewDenseFloat64Matrix(v, r, c)
}

type MWorld struct {
	Type string
	M    []ad.Matrix
}

func (w *MWorld) execOne(o MOp) (kind int64, payload []int64) {
	payload = []int64{}
	defer func() {
		if r := recover(); r != nil {
			kind = K_PANIC
			payload = []int64{}
		}
	}()
	st := scalarType(w.Type)
	var m ad.Matrix
	if o.Op != "New" {
		m = w.M[o.T]
	}
	switch o.Op {
	case "New":
		nm := newSparseMat(w.Type, o.RI, o.CI, o.XS, int(o.R), int(o.C))
		w.M = append(w.M, nm)
	case "At":
		payload = append(payload, int64(m.At(int(o.I), int(o.J)).GetFloat64()))
	case "SetAt":
		m.At(int(o.I), int(o.J)).SetFloat64(float64(o.X))
	case "ConstAt":
		payload = append(payload, int64(m.ConstAt(int(o.I), int(o.J)).GetFloat64()))
	case "Set":
		if o.U < 0 {
			m.Set(denseMat(o.XS, int(o.R), int(o.C)))
		} else {
			m.Set(w.M[o.U])
		}
	case "Reset":
		m.Reset()
	case "SetIdentity":
		m.SetIdentity()
	case "Swap":
		m.Swap(int(o.I), int(o.J), int(o.I2), int(o.J2))
	case "SwapRows":
		if err := m.SwapRows(int(o.I), int(o.J)); err != nil {
			kind = K_ERR
		}
	case "SwapColumns":
		if err := m.SwapColumns(int(o.I), int(o.J)); err != nil {
			kind = K_ERR
		}
	case "PermuteRows":
		if err := m.PermuteRows(ints(o.PI)); err != nil {
			kind = K_ERR
		}
	case "PermuteColumns":
		if err := m.PermuteColumns(ints(o.PI)); err != nil {
			kind = K_ERR
		}
	case "SymPerm":
		if err := m.SymmetricPermutation(ints(o.PI)); err != nil {
			kind = K_ERR
		}
	case "T":
		w.M = append(w.M, m.T())
	case "Tip":
		m.Tip()
	case "Clone":
		w.M = append(w.M, m.CloneMatrix())
	case "Iterate":
		g := 0
		for it := m.ConstIterator(); it.Ok(); it.Next() {
			i, j := it.Index()
			payload = append(payload, int64(i), int64(j), int64(it.GetConst().GetFloat64()))
			if g++; g > 10000 {
				payload = append(payload, C_LOOP)
				break
			}
		}
	case "IterPart":
		it := m.ConstIterator()
		for c := int64(0); c < o.I && it.Ok(); c++ {
			i, j := it.Index()
			payload = append(payload, int64(i), int64(j), int64(it.GetConst().GetFloat64()))
			it.Next()
		}
	case "IterFrom", "IterFromPart":
		// iteration started in the middle; IterFromPart: abandoned after o.X visits (0 = constructor only)
		limit := int64(1 << 40)
		if o.Op == "IterFromPart" {
			limit = o.X
		}
		g := 0
		if o.V == 1 {
			it := m.IteratorFrom(int(o.I), int(o.J))
			for c := int64(0); c < limit && it.Ok(); c++ {
				i, j := it.Index()
				payload = append(payload, int64(i), int64(j), int64(it.Get().GetFloat64()))
				it.Next()
				if g++; g > 10000 {
					payload = append(payload, C_LOOP)
					break
				}
			}
		} else {
			it := m.ConstIteratorFrom(int(o.I), int(o.J))
			for c := int64(0); c < limit && it.Ok(); c++ {
				i, j := it.Index()
				payload = append(payload, int64(i), int64(j), int64(it.GetConst().GetFloat64()))
				it.Next()
				if g++; g > 10000 {
					payload = append(payload, C_LOOP)
					break
				}
			}
		}
	case "MapMul":
		c := float64(o.X)
		m.Map(func(s ad.Scalar) { s.SetFloat64(s.GetFloat64() * c) })
	case "MapSetMul":
		c := float64(o.X)
		m.MapSet(func(s ad.ConstScalar) ad.Scalar { return ad.NewScalar(st, s.GetFloat64()*c) })
	case "ReduceSum":
		r := m.Reduce(func(r ad.Scalar, s ad.ConstScalar) ad.Scalar {
			r.SetFloat64(r.GetFloat64() + s.GetFloat64())
			return r
		}, ad.NewScalar(ad.Float64Type, 0))
		payload = append(payload, int64(r.GetFloat64()))
	case "Dims":
		r, c := m.Dims()
		payload = append(payload, int64(r), int64(c))
	case "Row":
		v := m.Row(int(o.I))
		payload = observeVec(v).Flat
		writeThrough(v)
	case "Col":
		v := m.Col(int(o.I))
		payload = observeVec(v).Flat
		writeThrough(v)
	case "Diag":
		v := m.Diag()
		payload = observeVec(v).Flat
		writeThrough(v)
	default:
		Die("unknown matrix op %s", o.Op)
	}
	return
}

// writeThrough overwrites every stored element of a vector returned by Row / Col / Diag.  The vector
// is FRESH (PropsMatRow.v: every scalar it holds was allocated by the call), so this must not be
// visible in any matrix: the world observation taken after the operation is compared with the
// model's, whose world is untouched by Row / Col / Diag.
func writeThrough(v ad.Vector) {
	defer func() { recover() }()
	for j := 0; j < v.Dim(); j++ {
		if v.ConstAt(j).GetFloat64() != 0 {
			v.At(j).SetFloat64(77)
		}
	}
}

// ---------------------------------------------------------------- observation

type MatObs struct {
	Rows, Cols int
	Whole      bool
	Reads      []int64 // row-major; C_PANIC where the read panicked
	ReadOK     bool
	Keys       []int64
	Vals       []int64
	Nil        []bool
	Cells      []uintptr
	Index      []int64
	Len        int
	Iter       []int64 // (i, j, value) triples of the clone's ConstIterator
	IterOK     bool
	Flat       []int64
}

func mreadAt(m ad.Matrix, i, j int) (x int64, ok bool) {
	defer func() {
		if r := recover(); r != nil {
			x, ok = C_PANIC, false
		}
	}()
	return int64(m.ConstAt(i, j).GetFloat64()), true
}
func mcloneIter(m ad.Matrix) (seq []int64, ok bool) {
	seq = []int64{}
	defer func() {
		if r := recover(); r != nil {
			seq, ok = []int64{C_CLONE}, false
		}
	}()
	c := m.CloneMatrix()
	g := 0
	for it := c.ConstIterator(); it.Ok(); it.Next() {
		i, j := it.Index()
		seq = append(seq, int64(i), int64(j), int64(it.GetConst().GetFloat64()))
		if g++; g > 10000 {
			return []int64{C_LOOP}, false
		}
	}
	return seq, true
}

func observeMat(m ad.Matrix) MatObs {
	var o MatObs
	o.Rows, o.Cols = m.Dims()
	hd, _ := ad.VerifC10Header(m)
	o.Len = hd.Len
	o.Whole = hd.Sparse && hd.RowOffset == 0 && hd.ColOffset == 0 && hd.RowMax == o.Rows && hd.ColMax == o.Cols && hd.Len == o.Rows*o.Cols
	f := []int64{int64(o.Rows), int64(o.Cols), int64(hd.RowOffset), int64(hd.RowMax), int64(hd.ColOffset), int64(hd.ColMax), int64(hd.Len), SEP}
	o.ReadOK = true
	for i := 0; i < o.Rows; i++ {
		for j := 0; j < o.Cols; j++ {
			x, ok := mreadAt(m, i, j)
			if !ok {
				o.ReadOK = false
			}
			o.Reads = append(o.Reads, x)
			f = append(f, x)
		}
	}
	f = append(f, SEP)
	vv, _ := ad.VerifC11MatValues(m)
	st := ad.VerifC11Dump(vv)
	for _, e := range st.Entries {
		o.Keys = append(o.Keys, int64(e.Key))
		o.Nil = append(o.Nil, e.Nil)
		o.Cells = append(o.Cells, e.Cell)
		x := int64(e.Value)
		if e.Nil {
			x = C_NIL
		}
		o.Vals = append(o.Vals, x)
		f = append(f, int64(e.Key), x)
	}
	f = append(f, SEP)
	for _, k := range st.Index {
		o.Index = append(o.Index, int64(k))
		f = append(f, int64(k))
	}
	f = append(f, SEP)
	o.Iter, o.IterOK = mcloneIter(m)
	f = append(f, o.Iter...)
	f = append(f, SEP)
	o.Flat = f
	return o
}

func (w *MWorld) observe() ([]MatObs, int64) {
	obs := make([]MatObs, len(w.M))
	h := int64(17)
	for i, m := range w.M {
		obs[i] = observeMat(m)
		h = hashList(h, obs[i].Flat)
	}
	return obs, h
}

func mexecute(c MCase) []Out {
	w := &MWorld{Type: c.Type}
	outs := make([]Out, 0, len(c.Ops))
	for _, o := range c.Ops {
		k, p := w.execOne(o)
		_, h := w.observe()
		outs = append(outs, Out{k, p, h})
	}
	return outs
}

// ---------------------------------------------------------------- Coq printing

func coqMOp(o MOp) string {
	switch o.Op {
	case "PermuteRows":
		return fmt.Sprintf("MPermRows %d %s", o.T, ZList(o.PI))
	case "PermuteColumns":
		return fmt.Sprintf("MPermCols %d %s", o.T, ZList(o.PI))
	case "SymPerm":
		return fmt.Sprintf("MSymPerm %d %s", o.T, ZList(o.PI))
	case "IterFrom":
		return fmt.Sprintf("M2 (MIterFrom %d %s %s)", o.T, Z(o.I), Z(o.J))
	case "IterFromPart":
		return fmt.Sprintf("M2 (MIterFromPart %d %s %s %d)", o.T, Z(o.I), Z(o.J), o.X)
	}
	return "M2 (MB (" + coqMOpBase(o) + "))"
}
func coqMOpBase(o MOp) string {
	switch o.Op {
	case "New":
		return fmt.Sprintf("NewMat %s %s %s %s %s", ZList(o.RI), ZList(o.CI), ZList(o.XS), Z(o.R), Z(o.C))
	case "At":
		return fmt.Sprintf("MAt %d %s %s", o.T, Z(o.I), Z(o.J))
	case "ConstAt":
		return fmt.Sprintf("MConstAt %d %s %s", o.T, Z(o.I), Z(o.J))
	case "SetAt":
		return fmt.Sprintf("MSetAt %d %s %s %s", o.T, Z(o.I), Z(o.J), Z(o.X))
	case "Set":
		if o.U < 0 {
			return fmt.Sprintf("MSet %d (OMD %s %s %s)", o.T, Z(o.R), Z(o.C), ZList(o.XS))
		}
		return fmt.Sprintf("MSet %d (OM %d)", o.T, o.U)
	case "Reset", "SetIdentity", "T", "Tip", "Clone", "Iterate", "ReduceSum", "Dims", "Diag":
		return fmt.Sprintf("M%s %d", o.Op, o.T)
	case "Swap":
		return fmt.Sprintf("MSwap %d %s %s %s %s", o.T, Z(o.I), Z(o.J), Z(o.I2), Z(o.J2))
	case "SwapRows", "SwapColumns":
		return fmt.Sprintf("M%s %d %s %s", o.Op, o.T, Z(o.I), Z(o.J))
	case "IterPart":
		return fmt.Sprintf("MIterPart %d %d", o.T, o.I)
	case "MapMul", "MapSetMul":
		return fmt.Sprintf("M%s %d %s", o.Op, o.T, Z(o.X))
	case "Row", "Col":
		return fmt.Sprintf("M%s %d %s", o.Op, o.T, Z(o.I))
	}
	Die("coqMOp: unknown op %s", o.Op)
	return ""
}
func coqMCase(c MCase) string {
	ops := make([]string, len(c.Ops))
	for i, o := range c.Ops {
		ops[i] = coqMOp(o)
	}
	outs := make([]string, len(c.Outs))
	for i, o := range c.Outs {
		outs[i] = fmt.Sprintf("(%s, %s, %s)", Z(o.K), ZList(o.P), Z(o.H))
	}
	return "(" + List(ops) + ",\n   " + List(outs) + ")"
}

const hdrMat = "From Coq Require Import ZArith List Bool. Import ListNotations.\nFrom ADV Require Import C11.Model C11.ModelMat C11.CorrMat C11.DenseMat C11.ModelMatFrom C11.DenseMatFrom C11.ModelMatPerm C11.DenseMatPerm C11.CorrMat4.\nOpen Scope Z_scope.\n"

const ruleMat = "random histories (<= 30 ops, <= 4 whole sparse matrices of dims 0..5 x 0..5 incl. 0xn, nx0, 1xn, nx1, non-square; values in -8..8 kept below 100 in absolute value; element type drawn from all nine sparse matrix types, float64/int/real64 get half) over NewSparseMatrix(incl. duplicate and zero-valued positions)/At/SetAt(incl. zeros)/ConstAt/Set(sparse incl. itself and its own T()|dense)/Reset/SetIdentity/Swap/SwapRows/SwapColumns/PermuteRows/PermuteColumns/SymmetricPermutation (pi a random permutation | in-range non-permutation | longer than n; on non-square matrices: error)/T/Tip/Clone/ConstIterator(full|partial)/ConstIteratorFrom(i,j) and IteratorFrom(i,j) (full loop | abandoned after 0..3 visits; two of three aimed at a pending zero: start key q <= p, p a stored zero or value-less index key and the first index key at/after q; compound PendFrom = create a pending zero by SetAt(0) | At() | Reset | Map x*0 | Set(dense with zeros) | SetIdentity, then start there)/Map/MapSet/Reduce/Dims/Row/Col/Diag (each followed by a write of 77 to every stored element of the returned vector: it must be invisible in the world); 1 in 5 histories also draws malformed ops (out-of-range indices, dimension mismatch in Set, SwapRows/SwapColumns/Diag on non-square, permutations with pi[i] = n (passes the guard, panics in mid-loop) | pi[i] = n+1 | pi[i] = -1 (error in mid-loop) | pi too short (panic after n-1 iterations), constructor with out-of-range position or unequal slice lengths); a case is non-trivial iff it contains >= 6 mutating ops, >= 1 Set, >= 1 re-keying op (Swap/SwapRows/SwapColumns/Permute*/T/Tip) and some matrix held a stored zero at some step, or it starts >= 1 iteration in the middle ON a pending zero and has >= 4 mutating ops, or its in-range permutations perform >= 2 row/column exchanges and it has >= 4 mutating ops; distinct = distinct (type, op list)"

// ---------------------------------------------------------------- generator

type mstats struct {
	mut, set, rekey int
	permSwaps       int // row / column exchanges performed by in-range PermuteRows / PermuteColumns / SymmetricPermutation
	pendFrom        int // iterations started (IteratorFrom) with a pending zero as the first index key at/after the start
	quirk           bool
	bad             int
}

func (s mstats) nontrivial() bool {
	return s.mut >= 6 && s.set >= 1 && s.rekey >= 1 && s.quirk || s.pendFrom >= 1 && s.mut >= 4 || s.permSwaps >= 2 && s.mut >= 4
}

const maxMats = 4

func mdims(r *Rng) (int, int) {
	switch r.Intn(8) {
	case 0:
		return 0, r.Range(0, 5)
	case 1:
		return r.Range(1, 5), 0
	case 2:
		return 1, r.Range(1, 5)
	case 3:
		return r.Range(1, 5), 1
	case 4, 5:
		n := r.Range(1, 5)
		return n, n
	}
	return r.Range(1, 5), r.Range(1, 5)
}

func genNewMat(r *Rng, obs []MatObs, bad bool) MOp {
	rows, cols := mdims(r)
	if len(obs) > 0 && r.Intn(2) == 0 {
		u := r.Intn(len(obs))
		rows, cols = obs[u].Rows, obs[u].Cols
		if r.Intn(3) == 0 {
			rows, cols = cols, rows
		}
	}
	o := MOp{Op: "New", R: int64(rows), C: int64(cols)}
	n := rows * cols
	cnt := 0
	switch r.Intn(4) {
	case 0:
		cnt = 0
	case 1:
		cnt = (n + 3) / 4
	case 2:
		cnt = (n + 1) / 2
	case 3:
		cnt = n + 2 // duplicates certain
	}
	if n == 0 {
		cnt = 0
	}
	for k := 0; k < cnt; k++ {
		o.RI = append(o.RI, int64(r.Intn(rows)))
		o.CI = append(o.CI, int64(r.Intn(cols)))
		o.XS = append(o.XS, val(r))
	}
	if bad {
		o.Bad = true
		switch r.Intn(4) {
		case 0: // out-of-range position with a non-zero value: panics
			o.RI = append(o.RI, int64(rows))
			o.CI = append(o.CI, 0)
			o.XS = append(o.XS, 3)
		case 1: // out-of-range position with a ZERO value: skipped, no panic
			o.RI = append(o.RI, 0)
			o.CI = append(o.CI, int64(cols))
			o.XS = append(o.XS, 0)
		case 2:
			o.RI = append(o.RI, -1)
			o.CI = append(o.CI, 0)
			o.XS = append(o.XS, 4)
		case 3:
			o.XS = append(o.XS, 1)
		}
	}
	return o
}

// pendingKeys: the index keys of the private `values` vector that read zero (a stored zero or a
// value-less key): what skip() has to delete before delivering a position
func pendingKeys(ob MatObs) []int64 {
	val := map[int64]int64{}
	has := map[int64]bool{}
	for i, k := range ob.Keys {
		has[k] = true
		val[k] = ob.Vals[i]
	}
	var r []int64
	for _, k := range ob.Index {
		if (!has[k] || val[k] == 0) && k >= 0 && k < int64(ob.Rows*ob.Cols) {
			r = append(r, k)
		}
	}
	return r
}

// startsOnPending: the first index key at or after q reads zero
func startsOnPending(ob MatObs, q int64) bool {
	pk := map[int64]bool{}
	for _, k := range pendingKeys(ob) {
		pk[k] = true
	}
	for _, k := range ob.Index {
		if k >= q {
			return pk[k]
		}
	}
	return false
}

// aimFrom: a start key q <= p such that the pending key p is the first index key at or after q
func aimFrom(r *Rng, ob MatObs) (int64, bool) {
	pk := pendingKeys(ob)
	if len(pk) == 0 {
		return 0, false
	}
	p := pk[r.Intn(len(pk))]
	lo := int64(0)
	for _, k := range ob.Index {
		if k < p && k+1 > lo {
			lo = k + 1
		}
	}
	switch r.Intn(3) {
	case 0:
		return p, true
	case 1:
		return lo, true
	}
	return lo + int64(r.Intn(int(p-lo)+1)), true
}

func mmaxAbs(o MatObs) int64 {
	m := int64(0)
	for _, x := range append(append([]int64{}, o.Vals...), o.Reads...) {
		if x < 0 {
			x = -x
		}
		if x > m {
			m = x
		}
	}
	return m
}

// genMatCase draws a history while running it on the implementation.
func genMatCase(r *Rng, tn string, withBad bool, cw *CaseWriter) (MCase, mstats) {
	var st mstats
	c := MCase{Type: tn, Mat: true}
	w := &MWorld{Type: tn}
	nops := r.Range(8, 30)
	forceFrom := -1 // matrix on which the next operation must start an iteration at a pending zero
	count := func(k string) {
		if cw != nil {
			cw.Count(k)
		}
	}
	for len(c.Ops) < nops {
		obs, _ := w.observe()
		for _, ob := range obs {
			for _, x := range ob.Vals {
				if x == 0 {
					st.quirk = true
				}
			}
		}
		bad := withBad && r.Intn(6) == 0
		var o MOp
		genOne := func() (MOp, bool) {
			var o MOp
			if forceFrom >= 0 && forceFrom < len(obs) {
				t := forceFrom
				forceFrom = -1
				ob := obs[t]
				if ob.Rows > 0 && ob.Cols > 0 {
					q, ok := aimFrom(r, ob)
					if !ok {
						q = int64(r.Intn(ob.Rows * ob.Cols))
					}
					o = MOp{Op: "IterFrom", T: t, I: q / int64(ob.Cols), J: q % int64(ob.Cols), V: r.Intn(2)}
					if r.Intn(3) == 0 {
						o.Op = "IterFromPart"
						o.X = int64(r.Range(0, 3))
					}
					return o, true
				}
			}
			if len(obs) == 0 {
				o = genNewMat(r, obs, false)
			} else {
				t := r.Intn(len(obs))
				ob := obs[t]
				rows, cols := ob.Rows, ob.Cols
				nonempty := rows > 0 && cols > 0
				pos := func() (int64, int64) { return int64(r.Intn(rows)), int64(r.Intn(cols)) }
				badPos := func() (int64, int64) {
					switch r.Intn(4) {
					case 0:
						return -1, 0
					case 1:
						return int64(rows), 0
					case 2:
						return 0, int64(cols)
					}
					return int64(rows) + 1, int64(cols) + 2
				}
				kinds := []string{"New", "At", "SetAt", "ConstAt", "Set", "Reset", "SetIdentity", "Swap", "SwapRows", "SwapColumns",
					"T", "Tip", "Clone", "Iterate", "IterPart", "MapMul", "MapSetMul", "ReduceSum", "Dims", "Row", "Col", "Diag",
					"IterFrom", "IterFromPart", "PendFrom", "PermuteRows", "PermuteColumns", "SymPerm"}
				weights := []int{5, 4, 16, 4, 10, 2, 4, 8, 3, 3, 4, 3, 3, 6, 3, 3, 2, 2, 1, 2, 2, 1, 5, 3, 6, 3, 3, 3}
				k := kinds[r.Pick(weights)]
				o = MOp{Op: k, T: t}
				switch k {
				case "New":
					if len(obs) >= maxMats {
						return o, false
					}
					o = genNewMat(r, obs, bad)
				case "T", "Clone":
					if len(obs) >= maxMats {
						return o, false
					}
				case "At", "ConstAt", "SetAt":
					if bad {
						o.I, o.J = badPos()
						o.Bad = true
					} else if nonempty {
						o.I, o.J = pos()
					} else {
						return o, false
					}
					if k == "SetAt" {
						o.X = val(r)
					}
				case "Set":
					// operands: a matrix of the world with the same dims (incl. itself), else dense
					var cand []int
					for u := range obs {
						if obs[u].Rows == rows && obs[u].Cols == cols {
							cand = append(cand, u)
						}
					}
					if bad {
						o.Bad = true
						o.U = -1
						o.R, o.C = int64(rows)+1, int64(cols)
						if r.Bool() {
							o.R, o.C = int64(cols)+1, int64(rows)
						}
						o.XS = vals(r, int(o.R*o.C))
						for u := range obs {
							if (obs[u].Rows != rows || obs[u].Cols != cols) && r.Bool() {
								o.U, o.R, o.C, o.XS = u, 0, 0, nil
							}
						}
					} else if len(cand) > 1 && r.Intn(3) != 0 || r.Intn(8) == 0 {
						o.U = cand[r.Intn(len(cand))]
					} else {
						o.U = -1
						o.R, o.C = int64(rows), int64(cols)
						o.XS = vals(r, rows*cols)
					}
				case "Swap":
					if bad {
						o.Bad = true
						o.I, o.J = badPos()
						if nonempty {
							o.I2, o.J2 = pos()
							if r.Bool() {
								o.I, o.J, o.I2, o.J2 = o.I2, o.J2, o.I, o.J
							}
						}
					} else if nonempty {
						o.I, o.J = pos()
						o.I2, o.J2 = pos()
					} else {
						return o, false
					}
				case "SwapRows", "SwapColumns":
					switch {
					case bad && rows == cols && rows > 0:
						o.Bad = true
						o.I, o.J = int64(r.Intn(rows)), int64(rows)
						if r.Bool() {
							o.I, o.J = -1, int64(r.Intn(rows))
						}
					case rows != cols:
						// returns an error, changes nothing: part of the valid stream too (rarely)
						if !bad && r.Intn(3) != 0 {
							return o, false
						}
						o.I, o.J = 0, 0
						if rows > 1 {
							o.J = 1
						}
					case rows == 0:
						o.I, o.J = 0, 0 // 0 x 0: no loop iteration, returns nil
					default:
						o.I, o.J = int64(r.Intn(rows)), int64(r.Intn(rows))
					}
				case "PermuteRows", "PermuteColumns", "SymPerm":
					if (rows != cols || rows < 2) && r.Intn(4) != 0 {
						// prefer a square matrix on which exchanges can happen
						var sq []int
						for u := range obs {
							if obs[u].Rows == obs[u].Cols && obs[u].Rows >= 2 {
								sq = append(sq, u)
							}
						}
						if len(sq) > 0 {
							t2 := sq[r.Intn(len(sq))]
							o.T = t2
							rows, cols = obs[t2].Rows, obs[t2].Cols
						}
					}
					n := rows
					switch {
					case rows != cols:
						// answered by an error, nothing changes: part of the valid stream too (rarely)
						if !bad && r.Intn(3) != 0 {
							return o, false
						}
						o.PI = perm(r, rows)
					case bad && n > 0:
						o.Bad = true
						o.PI = perm(r, n)
						switch r.Intn(4) {
						case 0: // pi[i] = n passes the guard `pi[i] > n` and panics in index() in mid-loop
							o.PI[r.Intn(n)] = int64(n)
						case 1: // "invalid permutation" returned in mid-loop: the swaps done so far stay
							o.PI[r.Intn(n)] = int64(n) + 1
						case 2:
							o.PI[r.Intn(n)] = -1
						case 3: // too short: pi[i] panics (index out of range) after n-1 iterations
							o.PI = o.PI[:n-1]
						}
					default:
						o.PI = perm(r, n)
						switch r.Intn(5) {
						case 0: // not a permutation: any in-range entries are accepted and swapped
							for i := range o.PI {
								o.PI[i] = int64(r.Intn(n))
							}
						case 1: // longer than n: the extra entries are never read
							o.PI = append(o.PI, int64(n)+3, -5)
						}
					}
				case "IterPart":
					o.I = int64(r.Range(0, 4))
				case "IterFrom", "IterFromPart":
					// iteration started in the middle: two times out of three aimed at a pending zero (a
					// stored zero or a value-less index key p, start key q <= p with p the first index key
					// at or after q), else anywhere
					if bad {
						o.I, o.J = badPos()
						o.Bad = true
					} else if nonempty {
						o.I, o.J = pos()
						if q, ok := aimFrom(r, ob); ok && r.Intn(3) != 0 {
							o.I, o.J = q/int64(cols), q%int64(cols)
						}
					} else {
						return o, false
					}
					o.V = r.Intn(2)
					if k == "IterFromPart" {
						o.X = int64(r.Range(0, 3))
					}
				case "PendFrom":
					// compound: create a pending zero on matrix t (one of the origins below), then (next
					// operation, forced) start an iteration at or before it
					if !nonempty {
						return o, false
					}
					var stored, empty []int64
					inIdx := map[int64]bool{}
					for _, key := range ob.Index {
						inIdx[key] = true
					}
					for i, key := range ob.Keys {
						if ob.Vals[i] != 0 && key >= 0 && key < int64(rows*cols) {
							stored = append(stored, key)
						}
					}
					for q := int64(0); q < int64(rows*cols); q++ {
						if !inIdx[q] {
							empty = append(empty, q)
						}
					}
					switch origin := r.Intn(6); {
					case origin == 0 && len(stored) > 0: // zero written through At().SetFloat64(0)
						q := stored[r.Intn(len(stored))]
						o = MOp{Op: "SetAt", T: t, I: q / int64(cols), J: q % int64(cols), X: 0}
						count("pending:setzero")
					case origin <= 1 && len(empty) > 0: // an entry merely created by At()
						q := empty[r.Intn(len(empty))]
						o = MOp{Op: "At", T: t, I: q / int64(cols), J: q % int64(cols)}
						count("pending:at")
					case origin == 2 && len(stored) > 0: // Reset
						o = MOp{Op: "Reset", T: t}
						count("pending:reset")
					case origin == 3: // arithmetic: x -> x*0 (Map creates every entry)
						o = MOp{Op: "MapMul", T: t, X: 0}
						if r.Bool() {
							o.Op = "MapSetMul"
						}
						count("pending:arith")
					case origin == 4 && len(stored) > 0: // Set(dense) writing zeros into stored entries
						o = MOp{Op: "Set", T: t, U: -1, R: int64(rows), C: int64(cols), XS: vals(r, rows*cols)}
						for _, q := range stored {
							if r.Bool() {
								o.XS[q] = 0
							}
						}
						count("pending:setdense")
					case len(stored) > 0: // SetIdentity: the off-diagonal stored entries become zeros
						o = MOp{Op: "SetIdentity", T: t}
						count("pending:identity")
					default:
						q := int64(r.Intn(rows * cols))
						o = MOp{Op: "At", T: t, I: q / int64(cols), J: q % int64(cols)}
						count("pending:at")
					}
					forceFrom = t
				case "MapMul", "MapSetMul":
					cs := []int64{-2, -1, 0, 2, 3, 1}
					o.X = cs[r.Intn(len(cs))]
					ax := o.X
					if ax < 0 {
						ax = -ax
					}
					if mmaxAbs(ob)*ax > 100 {
						o.X = -1
					}
				case "Row":
					if bad {
						o.Bad = true
						o.I = int64(rows)
					} else if rows > 0 {
						o.I = int64(r.Intn(rows))
					} else {
						return o, false
					}
				case "Col":
					if bad {
						o.Bad = true
						o.I = int64(cols)
					} else if cols > 0 {
						o.I = int64(r.Intn(cols))
					} else {
						return o, false
					}
				case "Diag":
					if rows != cols && !bad {
						return o, false
					}
				}
			}
			return o, true
		}
		var okGen bool
		if o, okGen = genOne(); !okGen {
			continue
		}
		if (o.Op == "IterFrom" || o.Op == "IterFromPart") && !o.Bad && o.T < len(obs) {
			if startsOnPending(obs[o.T], o.I*int64(obs[o.T].Cols)+o.J) {
				st.pendFrom++
				count("from:starts-on-pending-zero")
			} else {
				count("from:other")
			}
		}
		c.Ops = append(c.Ops, o)
		w.execOne(o)
		count("op:" + o.Op)
		if o.Bad {
			st.bad++
			count("malformed")
		}
		switch o.Op {
		case "SetAt", "Set", "Reset", "SetIdentity", "Swap", "SwapRows", "SwapColumns", "Tip", "MapMul", "MapSetMul", "At", "T",
			"PermuteRows", "PermuteColumns", "SymPerm":
			st.mut++
		}
		if (o.Op == "PermuteRows" || o.Op == "PermuteColumns" || o.Op == "SymPerm") && o.T < len(obs) && obs[o.T].Rows == obs[o.T].Cols {
			ex := 0
			for i := 0; i < obs[o.T].Rows && i < len(o.PI); i++ {
				if o.PI[i] > int64(i) {
					ex++
				}
			}
			if ex > 0 && !o.Bad {
				st.permSwaps += ex
				count("perm:exchanging")
			} else if !o.Bad {
				count("perm:identity-loop")
			}
			isPerm := len(o.PI) == obs[o.T].Rows
			seen := map[int64]bool{}
			for _, p := range o.PI {
				if seen[p] || p < 0 || p >= int64(obs[o.T].Rows) {
					isPerm = false
				}
				seen[p] = true
			}
			if !isPerm && !o.Bad {
				count("perm:in-range-non-permutation-or-longer")
			}
		}
		switch o.Op {
		case "Set":
			st.set++
			if o.U < 0 {
				count("set:dense")
			} else if o.U == o.T {
				count("set:self")
			} else {
				count("set:sparse")
			}
		case "Swap", "SwapRows", "SwapColumns", "T", "Tip", "PermuteRows", "PermuteColumns", "SymPerm":
			st.rekey++
		}
	}
	if cw != nil {
		for _, m := range w.M {
			r, cc := m.Dims()
			switch {
			case r == 0 || cc == 0:
				count("shape:empty")
			case r == cc:
				count("shape:square")
			case r == 1 || cc == 1:
				count("shape:line")
			default:
				count("shape:rect")
			}
		}
	}
	return c, st
}

// ---------------------------------------------------------------- property oracle

func mnonzero(reads []int64, cols int) []int64 {
	r := []int64{}
	for k, x := range reads {
		if x != 0 {
			r = append(r, int64(k/cols), int64(k%cols), x)
		}
	}
	return r
}

func mnonzeroFrom(reads []int64, cols int, from int) []int64 {
	r := []int64{}
	for k, x := range reads {
		if x != 0 && k >= from {
			r = append(r, int64(k/cols), int64(k%cols), x)
		}
	}
	return r
}

// invariant on the hook dump + self consistency of one matrix
func checkMat(i int, o MatObs, rows, cols int) string {
	if o.Rows != rows || o.Cols != cols {
		return fmt.Sprintf("matrix %d: Dims()=%dx%d but the history gives it %dx%d (no operation changes dimensions except T/Tip swapping them)", i, o.Rows, o.Cols, rows, cols)
	}
	if !o.Whole {
		return fmt.Sprintf("matrix %d: header is not that of a whole %dx%d matrix (window or storage length %d)", i, rows, cols, o.Len)
	}
	inIdx := map[int64]bool{}
	for k, x := range o.Index {
		if x < 0 || x >= int64(rows*cols) {
			return fmt.Sprintf("matrix %d: index key %d outside [0,%d)", i, x, rows*cols)
		}
		if k > 0 && o.Index[k-1] >= x {
			return fmt.Sprintf("matrix %d: index keys not strictly ascending", i)
		}
		inIdx[x] = true
	}
	for k, key := range o.Keys {
		if o.Nil[k] {
			return fmt.Sprintf("matrix %d: nil placeholder stored at key %d", i, key)
		}
		if !inIdx[key] {
			return fmt.Sprintf("matrix %d: value stored at key %d without an index key", i, key)
		}
	}
	if !o.ReadOK {
		return fmt.Sprintf("matrix %d: an in-range read panicked", i)
	}
	if !o.IterOK {
		return fmt.Sprintf("matrix %d: Clone or iteration of the clone panicked / did not stop", i)
	}
	if !eqList(o.Iter, mnonzero(o.Reads, cols)) {
		return fmt.Sprintf("matrix %d: iteration %v is not the row-major list of non-zero elements of %v (%dx%d)", i, o.Iter, o.Reads, rows, cols)
	}
	return ""
}

type shadow struct {
	r, c int
	v    []int64 // row-major
}

func (s shadow) at(i, j int64) int64 { return s.v[int(i)*s.c+int(j)] }
func (s shadow) in(i, j int64) bool  { return i >= 0 && j >= 0 && i < int64(s.r) && j < int64(s.c) }
func (s shadow) clone() shadow       { return shadow{s.r, s.c, cp(s.v)} }
func (s shadow) transpose() shadow {
	t := shadow{s.c, s.r, make([]int64, len(s.v))}
	for i := 0; i < s.r; i++ {
		for j := 0; j < s.c; j++ {
			t.v[j*s.r+i] = s.v[i*s.c+j]
		}
	}
	return t
}

func minRange(o MOp, sh []shadow) bool {
	if o.Op == "New" {
		if o.R < 0 || o.C < 0 || len(o.RI) != len(o.CI) || len(o.CI) != len(o.XS) {
			return false
		}
		for k := range o.RI {
			if o.RI[k] < 0 || o.CI[k] < 0 || o.RI[k] >= o.R || o.CI[k] >= o.C {
				return false
			}
		}
		return true
	}
	if o.T < 0 || o.T >= len(sh) {
		return false
	}
	s := sh[o.T]
	switch o.Op {
	case "At", "ConstAt", "SetAt", "IterFrom", "IterFromPart":
		return s.in(o.I, o.J)
	case "Set":
		if o.U >= 0 {
			return o.U < len(sh) && sh[o.U].r == s.r && sh[o.U].c == s.c
		}
		return int(o.R) == s.r && int(o.C) == s.c && len(o.XS) == s.r*s.c
	case "Swap":
		return s.in(o.I, o.J) && s.in(o.I2, o.J2)
	case "SwapRows", "SwapColumns":
		if s.r != s.c {
			return true // answered by an error, nothing changes
		}
		return s.r == 0 || (o.I >= 0 && o.J >= 0 && o.I < int64(s.r) && o.J < int64(s.r))
	case "Row":
		return o.I >= 0 && o.I < int64(s.r)
	case "Col":
		return o.I >= 0 && o.I < int64(s.c)
	case "Diag":
		return s.r == s.c
	case "MapMul", "MapSetMul":
		return true
	case "PermuteRows", "PermuteColumns", "SymPerm":
		if s.r != s.c {
			return true // answered by an error, nothing changes
		}
		if len(o.PI) < s.r {
			return false
		}
		for i := 0; i < s.r; i++ {
			if o.PI[i] < 0 || o.PI[i] >= int64(s.r) {
				return false
			}
		}
		return true
	}
	return true
}

func mcellSet(o MatObs) map[uintptr]bool {
	m := map[uintptr]bool{}
	for _, c := range o.Cells {
		if c != 0 {
			m[c] = true
		}
	}
	return m
}
func msharing(obs []MatObs, t int) []int {
	mine := mcellSet(obs[t])
	var r []int
	for u := range obs {
		if u == t {
			continue
		}
		for _, c := range obs[u].Cells {
			if mine[c] {
				r = append(r, u)
				break
			}
		}
	}
	return r
}

// mpropCheck: the property itself on the implementation, independent of the Coq
// model.  Dense shadow per matrix.  T() shares the EXISTING cells with its parent
// (known finding F-SPT-REF of C10): a write of cell VALUES through a matrix that shares
// cells with others (SetAt, Set, Reset, SetIdentity, Map, MapSet) makes the others'
// values unpredictable for a dense model; they are "tainted" for that step: their
// shadow is re-read from the implementation (invariant, reads succeeding, iteration
// and Dims are still judged).  Set(b) with b sharing cells with the receiver taints
// the receiver too.  Re-keying ops (Swap*, Tip) never write cell values: no taint.
func mpropCheck(c MCase) (fail string, at int) {
	defer func() {
		if r := recover(); r != nil {
			fail, at = fmt.Sprintf("harness-level panic: %v", r), -1
		}
	}()
	w := &MWorld{Type: c.Type}
	var sh []shadow
	for k, o := range c.Ops {
		if !minRange(o, sh) {
			return "", -1 // outside the quantifier: the rest of the history is not judged
		}
		pre, _ := w.observe()
		taint := map[int]bool{}
		writes := func(t int) {
			for _, u := range msharing(pre, t) {
				taint[u] = true
			}
		}
		var expP []int64
		checkP := false
		expK := int64(K_OK)
		var vecExp []int64
		vecCheck := false
		switch o.Op {
		case "New":
			s := shadow{int(o.R), int(o.C), make([]int64, o.R*o.C)}
			for i := range o.RI {
				if o.XS[i] != 0 {
					s.v[int(o.RI[i])*s.c+int(o.CI[i])] = o.XS[i]
				}
			}
			sh = append(sh, s)
		case "At", "ConstAt":
			expP, checkP = []int64{sh[o.T].at(o.I, o.J)}, true
		case "SetAt":
			sh[o.T].v[int(o.I)*sh[o.T].c+int(o.J)] = o.X
			writes(o.T)
		case "Set":
			writes(o.T)
			if o.U >= 0 {
				if o.U != o.T {
					for _, u := range msharing(pre, o.T) {
						if u == o.U {
							taint[o.T] = true
						}
					}
					sh[o.T].v = cp(sh[o.U].v)
				}
			} else {
				sh[o.T].v = cp(o.XS)
			}
		case "Reset":
			for i := range sh[o.T].v {
				sh[o.T].v[i] = 0
			}
			writes(o.T)
		case "SetIdentity":
			s := sh[o.T]
			for i := 0; i < s.r; i++ {
				for j := 0; j < s.c; j++ {
					if i == j {
						s.v[i*s.c+j] = 1
					} else {
						s.v[i*s.c+j] = 0
					}
				}
			}
			writes(o.T)
		case "Swap":
			s := sh[o.T]
			a, b := int(o.I)*s.c+int(o.J), int(o.I2)*s.c+int(o.J2)
			s.v[a], s.v[b] = s.v[b], s.v[a]
		case "SwapRows":
			s := sh[o.T]
			if s.r != s.c {
				expK = K_ERR
			} else {
				for q := 0; q < s.c; q++ {
					a, b := int(o.I)*s.c+q, int(o.J)*s.c+q
					s.v[a], s.v[b] = s.v[b], s.v[a]
				}
			}
		case "SwapColumns":
			s := sh[o.T]
			if s.r != s.c {
				expK = K_ERR
			} else {
				for q := 0; q < s.r; q++ {
					a, b := q*s.c+int(o.I), q*s.c+int(o.J)
					s.v[a], s.v[b] = s.v[b], s.v[a]
				}
			}
		case "PermuteRows", "PermuteColumns", "SymPerm":
			// plain dense reading: for i = 0..n-1, exchange rows (columns; rows then columns) i and
			// pi[i] whenever pi[i] > i
			s := sh[o.T]
			if s.r != s.c {
				expK = K_ERR
			} else {
				for i := 0; i < s.r; i++ {
					p := int(o.PI[i])
					if p <= i {
						continue
					}
					if o.Op != "PermuteColumns" {
						for q := 0; q < s.c; q++ {
							a, b := i*s.c+q, p*s.c+q
							s.v[a], s.v[b] = s.v[b], s.v[a]
						}
					}
					if o.Op != "PermuteRows" {
						for q := 0; q < s.r; q++ {
							a, b := q*s.c+i, q*s.c+p
							s.v[a], s.v[b] = s.v[b], s.v[a]
						}
					}
				}
			}
		case "T":
			sh = append(sh, sh[o.T].transpose())
		case "Tip":
			sh[o.T] = sh[o.T].transpose()
		case "Clone":
			sh = append(sh, sh[o.T].clone())
		case "Iterate":
			expP, checkP = mnonzero(sh[o.T].v, sh[o.T].c), true
		case "IterPart":
			e := mnonzero(sh[o.T].v, sh[o.T].c)
			if int64(len(e)) > 3*o.I {
				e = e[:3*o.I]
			}
			expP, checkP = e, true
		case "IterFrom", "IterFromPart":
			// exactly the non-zero elements at the positions >= (i,j), row-major, the first one included
			e := mnonzeroFrom(sh[o.T].v, sh[o.T].c, int(o.I)*sh[o.T].c+int(o.J))
			if o.Op == "IterFromPart" && int64(len(e)) > 3*o.X {
				e = e[:3*o.X]
			}
			expP, checkP = e, true
		case "MapMul", "MapSetMul":
			for i := range sh[o.T].v {
				sh[o.T].v[i] *= o.X
			}
			writes(o.T)
		case "ReduceSum":
			s := int64(0)
			for _, x := range sh[o.T].v {
				s += x
			}
			expP, checkP = []int64{s}, true
		case "Dims":
			expP, checkP = []int64{int64(sh[o.T].r), int64(sh[o.T].c)}, true
		case "Row":
			s := sh[o.T]
			vecExp, vecCheck = cp(s.v[int(o.I)*s.c:(int(o.I)+1)*s.c]), true
		case "Col":
			s := sh[o.T]
			vecExp = []int64{}
			for i := 0; i < s.r; i++ {
				vecExp = append(vecExp, s.v[i*s.c+int(o.I)])
			}
			vecCheck = true
		case "Diag":
			s := sh[o.T]
			vecExp = []int64{}
			for i := 0; i < s.r; i++ {
				vecExp = append(vecExp, s.v[i*s.c+i])
			}
			vecCheck = true
		}
		var vecGot ad.Vector
		var kind int64
		var p []int64
		if vecCheck {
			// run the op by hand to keep the vector
			func() {
				defer func() {
					if r := recover(); r != nil {
						kind = K_PANIC
					}
				}()
				switch o.Op {
				case "Row":
					vecGot = w.M[o.T].Row(int(o.I))
				case "Col":
					vecGot = w.M[o.T].Col(int(o.I))
				case "Diag":
					vecGot = w.M[o.T].Diag()
				}
			}()
		} else {
			kind, p = w.execOne(o)
		}
		if kind != expK {
			return fmt.Sprintf("op %d %s: outcome kind %d, expected %d (every in-range operation must succeed)", k, o.Op, kind, expK), k
		}
		if checkP && !eqList(p, expP) {
			return fmt.Sprintf("op %d %s: returned %v, the dense model gives %v", k, o.Op, p, expP), k
		}
		if vecCheck {
			vo := observeVec(vecGot)
			if f := checkVec(-1, vo, len(vecExp)); f != "" {
				return fmt.Sprintf("op %d %s: result vector incoherent: %s", k, o.Op, f), k
			}
			if !eqList(vo.Reads, vecExp) {
				return fmt.Sprintf("op %d %s: result vector reads %v, the dense model gives %v", k, o.Op, vo.Reads, vecExp), k
			}
			// the caller now writes to the vector it was given: a plain dense Row/Col/Diag is a copy,
			// no matrix may change (checked by the comparison of all matrices with their shadows below)
			writeThrough(vecGot)
		}
		obs, _ := w.observe()
		if len(obs) != len(sh) {
			return fmt.Sprintf("op %d %s: %d matrices exist, the history gives %d", k, o.Op, len(obs), len(sh)), k
		}
		for i := range obs {
			if f := checkMat(i, obs[i], sh[i].r, sh[i].c); f != "" {
				return fmt.Sprintf("after op %d %s: %s", k, o.Op, f), k
			}
			if taint[i] {
				sh[i].v = cp(obs[i].Reads)
				continue
			}
			if !eqList(obs[i].Reads, sh[i].v) {
				return fmt.Sprintf("after op %d %s: matrix %d reads %v, the dense model of the same history gives %v (%dx%d)", k, o.Op, i, obs[i].Reads, sh[i].v, sh[i].r, sh[i].c), k
			}
		}
	}
	return "", -1
}

// ---------------------------------------------------------------- shrinking

func mremoveOp(ops []MOp, k int) []MOp {
	creates := func(o MOp) bool { return o.Op == "New" || o.Op == "T" || o.Op == "Clone" }
	h := -1
	if creates(ops[k]) {
		h = 0
		for _, o := range ops[:k] {
			if creates(o) {
				h++
			}
		}
	}
	var r []MOp
	for i, o := range ops {
		if i == k {
			continue
		}
		if h >= 0 && i > k {
			uses := o.Op != "New" && o.T == h
			if o.Op == "Set" && o.U == h {
				uses = true
			}
			if uses {
				return nil
			}
			if o.Op != "New" && o.T > h {
				o.T--
			}
			if o.Op == "Set" && o.U > h {
				o.U--
			}
		}
		r = append(r, o)
	}
	return r
}

func mshrink(c MCase) MCase {
	fails := func(ops []MOp) bool {
		if ops == nil {
			return false
		}
		f, _ := mpropCheck(MCase{Type: c.Type, Mat: true, Ops: ops})
		return f != ""
	}
	ops := c.Ops
	if _, at := mpropCheck(c); at >= 0 && at+1 < len(ops) {
		if fails(ops[:at+1]) {
			ops = ops[:at+1]
		}
	}
	for changed := true; changed; {
		changed = false
		for k := len(ops) - 1; k >= 0; k-- {
			if k >= len(ops) {
				continue
			}
			cand := mremoveOp(ops, k)
			if fails(cand) {
				ops = cand
				changed = true
			}
		}
	}
	for k := range ops {
		try := func(n MOp) {
			cand := append(append([]MOp{}, ops[:k]...), n)
			cand = append(cand, ops[k+1:]...)
			if fails(cand) {
				ops = cand
			}
		}
		o := ops[k]
		if o.Op == "SetAt" && o.X != 1 && o.X != 0 {
			n := o
			n.X = 1
			try(n)
		}
		if o.Op == "New" {
			for i := len(o.RI) - 1; i >= 0; i-- {
				cur := ops[k]
				if i >= len(cur.RI) {
					continue
				}
				n := cur
				n.RI = append(cp(cur.RI[:i]), cur.RI[i+1:]...)
				n.CI = append(cp(cur.CI[:i]), cur.CI[i+1:]...)
				n.XS = append(cp(cur.XS[:i]), cur.XS[i+1:]...)
				try(n)
			}
		}
		if o.Op == "PermuteRows" || o.Op == "PermuteColumns" || o.Op == "SymPerm" {
			for i := range o.PI {
				cur := ops[k]
				if cur.PI[i] == int64(i) {
					continue
				}
				n := cur
				n.PI = cp(cur.PI)
				n.PI[i] = int64(i)
				try(n)
			}
		}
		if o.Op == "Set" && o.U < 0 {
			for i := range o.XS {
				cur := ops[k]
				if cur.XS[i] == 0 {
					continue
				}
				n := cur
				n.XS = cp(cur.XS)
				n.XS[i] = 0
				try(n)
			}
		}
	}
	return MCase{Type: c.Type, Mat: true, Ops: ops}
}

func mathunt(o Opts) {
	type res struct {
		Found   bool   `json:"found"`
		Failure string `json:"failure"`
		At      int    `json:"at"`
		Case    MCase  `json:"case"`
		Tried   int    `json:"tried"`
	}
	var r res
	// a failing input must REPLAY (see hunt in oracle.go)
	report := func(c0 MCase) bool {
		c0.Outs = nil
		c := mshrink(c0)
		f, at := mpropCheck(c)
		if f == "" {
			c = c0
			if f, at = mpropCheck(c); f == "" {
				return false
			}
		}
		r.Found, r.Failure, r.At = true, f, at
		c.Outs = nil
		r.Case = c
		return true
	}
	done := false
	if o.Replay != "" {
		if b, err := os.ReadFile(o.Replay); err == nil {
			var rp struct {
				Cases []MCase `json:"cases"`
				Case  *MCase  `json:"case"`
			}
			json.Unmarshal(b, &rp)
			if rp.Case != nil {
				rp.Cases = append(rp.Cases, *rp.Case)
			}
			for _, c := range rp.Cases {
				r.Tried++
				if f, _ := mpropCheck(c); f != "" {
					if done = report(c); done {
						break
					}
				}
			}
		}
	}
	if !done {
		rng := NewRng(o.Seed + 104729)
		for k := 0; k < o.N && !done; k++ {
			tn := typeNames[k%len(typeNames)]
			if k%2 == 0 {
				tn = typeNames[(k/2)%3]
			}
			c, _ := genMatCase(rng.Split(), tn, false, nil)
			r.Tried++
			if f, _ := mpropCheck(c); f != "" {
				done = report(c)
			}
		}
	}
	b, _ := json.MarshalIndent(r, "", " ")
	os.MkdirAll(o.Out, 0755)
	os.WriteFile(o.Out+"/mathunt.json", b, 0644)
}

func readMatCorpus(path string) []MCase {
	var cs []MCase
	b, err := os.ReadFile(path)
	if err != nil {
		return cs
	}
	for _, line := range strings.Split(string(b), "\n") {
		line = strings.TrimSpace(line)
		if line == "" || strings.HasPrefix(line, "#") {
			continue
		}
		var c MCase
		if err := json.Unmarshal([]byte(line), &c); err != nil {
			Die("mat corpus: %v", err)
		}
		cs = append(cs, c)
	}
	return cs
}

func matMain(o Opts) {
	if o.Extra == "mathunt" {
		mathunt(o)
		return
	}
	if o.Replay != "" {
		b, err := os.ReadFile(o.Replay)
		if err != nil {
			Die("%v", err)
		}
		var rp struct {
			Case MCase `json:"case"`
		}
		if err := json.Unmarshal(b, &rp); err != nil {
			Die("%v", err)
		}
		c := rp.Case
		c.Outs = mexecute(c)
		w := NewCaseWriter(o.Out, "replay_mat", hdrMat, "mism_mat4", 1000)
		w.Type = "mcase4"
		w.Add(coqMCase(c), c, "replay", true)
		w.Flush()
		return
	}
	corpus := ""
	if strings.HasPrefix(o.Extra, "mat:") {
		corpus = o.Extra[4:]
	}
	per := 24
	w := NewCaseWriter(o.Out, "mat", hdrMat, "mism_mat4", per)
	w.Type = "mcase4"
	w.Rule = ruleMat
	for _, c := range readMatCorpus(corpus) {
		c.Mat = true
		c.Outs = mexecute(c)
		w.Add(coqMCase(c), c, "corpus:"+fmt.Sprint(c.Ops), true)
		w.Count("corpus")
	}
	rng := NewRng(o.Seed + 15485863)
	for k := 0; k < o.N; k++ {
		tn := typeNames[k%len(typeNames)]
		if k%2 == 0 {
			tn = typeNames[(k/2)%3] // float64 / int / real64 get half of the cases
		}
		c, st := genMatCase(rng.Split(), tn, k%5 == 4, w)
		c.Outs = mexecute(c)
		w.Add(coqMCase(c), c, tn+fmt.Sprint(c.Ops), st.nontrivial())
		w.Count("type:" + tn)
		if st.nontrivial() {
			w.Count("nontrivial")
		}
	}
	if err := w.Flush(); err != nil {
		Die("%v", err)
	}
}
