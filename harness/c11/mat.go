// C11 harness, part 3: sparse matrices (see coq/C11/ModelMat.v).
package main

import (
	. "adharness/common"
)

func matMain(o Opts) {
	Die("mat mode not built yet")
}
