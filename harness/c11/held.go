// C11 harness, part 2: iterators held across mutations (see coq/C11/ModelIt.v).
//
//	--extra held[:corpus.jsonl]  histories with held ConstIterator objects, written as Coq
//	                             case files held_<k>.v for CorrIt.mism_it (+ held.jsonl, held.meta.json);
//	                             with --replay <{"case":...}> : heldreplay_0.v for that one history
//	--extra heldhunt             property-level oracle on the implementation (no Coq model) + shrinking,
//	                             writes heldhunt.json; --replay <{"cases":[...]}> tries those first
//	--extra heldknown            replays the witness of C11-STALEIT, writes heldknown.json
//
// Iterator operations reuse the Op struct: ItBegin{T vec}, ItFrom{T vec, I from},
// ItNext{W iterator, T its vector (redundant)}, ItGet{W iterator, T its vector}.
package main

import (
	"encoding/json"
	"fmt"
	"os"
	"strings"

	. "adharness/common"

	ad "github.com/pbenner/autodiff"
)

const (
	mAttached = 0
	mDetached = 1
	mUnknown  = 2
)

// heldIt: a held iterator object plus the harness' mirror of the model's status
// (ModelIt.v: imd / ifresh) used by the generator, and the oracle's bookkeeping.
type heldIt struct {
	it       ad.VectorConstIterator
	vec      int
	mode     int
	fresh    bool
	byConstr bool // attached by construction: no index-replacing op on vec since creation
	edits    int  // steps that changed the index key list of vec since the iterator's last own move
}

type HWorld struct {
	World
	Its []*heldIt
}

func isItOp(o Op) bool {
	return o.Op == "ItBegin" || o.Op == "ItFrom" || o.Op == "ItNext" || o.Op == "ItGet"
}

// itObs: Ok / Index / GetConst of an iterator: [0] or [1, key, present, value]
func itObs(it ad.VectorConstIterator) []int64 {
	if !it.Ok() {
		return []int64{0}
	}
	k := int64(it.Index())
	g := it.GetConst()
	if g == nil {
		return []int64{1, k, 0, 0}
	}
	return []int64{1, k, 1, int64(g.GetFloat64())}
}

func (w *HWorld) exec(o Op) (kind int64, payload []int64) {
	if !isItOp(o) {
		return w.World.execOne(o)
	}
	payload = []int64{}
	defer func() {
		if r := recover(); r != nil {
			kind = K_PANIC
			payload = []int64{}
		}
	}()
	switch o.Op {
	case "ItBegin":
		it := w.V[o.T].ConstIterator()
		w.Its = append(w.Its, &heldIt{it: it, vec: o.T, fresh: true, byConstr: true})
		payload = itObs(it)
	case "ItFrom":
		it := w.V[o.T].ConstIteratorFrom(int(o.I))
		w.Its = append(w.Its, &heldIt{it: it, vec: o.T, fresh: true, byConstr: true})
		payload = itObs(it)
	case "ItNext":
		h := w.Its[o.W]
		h.it.Next()
		payload = itObs(h.it)
	case "ItGet":
		payload = itObs(w.Its[o.W].it)
	}
	return
}

// touches mirrors ModelIt.touches
func touches(o Op) []int {
	switch o.Op {
	case "At", "SetAt", "Swap", "Iterate", "IterPart", "IterFrom", "ReverseOrder", "Sort", "Permute":
		return []int{o.T}
	case "SetV", "Joint":
		if o.U >= 0 {
			return []int{o.T, o.U}
		}
		return []int{o.T}
	case "SETV":
		return []int{o.T, o.U}
	case "AppendV":
		return []int{o.U}
	case "Joint3":
		r := []int{o.T}
		if o.U >= 0 {
			r = append(r, o.U)
		}
		if o.W >= 0 {
			r = append(r, o.W)
		}
		return r
	}
	return nil
}

func sameKeys(a, b []int64) bool { return eqList(a, b) }

// noNull: every index key of the vector has a non-zero value (an iteration deletes nothing)
func noNull(o VecObs) bool {
	val := map[int64]int64{}
	for i, k := range o.Keys {
		val[k] = o.Vals[i]
	}
	for _, k := range o.Index {
		if x, ok := val[k]; !ok || x == 0 {
			return false
		}
	}
	return true
}

// mirror updates the status mirror after operation o ran (pre/post: observations
// around it, kind: its outcome); mirrors ModelIt.step_it.
func (w *HWorld) mirror(o Op, kind int64, pre, post []VecObs) {
	clear := func(ts []int, except *heldIt) {
		for _, h := range w.Its {
			if h == except {
				continue
			}
			for _, t := range ts {
				if h.vec == t {
					h.fresh = false
				}
			}
		}
	}
	detach := func(t int, clean bool) {
		for _, h := range w.Its {
			if h.vec != t {
				continue
			}
			h.byConstr = false
			if h.mode == mAttached && h.it.Ok() {
				if h.fresh && clean {
					h.mode = mDetached
				} else {
					h.mode = mUnknown
				}
				h.fresh = false
			}
		}
	}
	moved := func(t int) []int {
		if t < len(pre) && len(pre[t].Index) == len(post[t].Index) {
			return nil
		}
		return []int{t}
	}
	switch o.Op {
	case "ItBegin", "ItFrom":
		if kind == K_OK {
			h := w.Its[len(w.Its)-1]
			clear(moved(o.T), h)
			h.fresh = len(moved(o.T)) == 0
		}
	case "ItNext":
		h := w.Its[o.W]
		clear(moved(h.vec), h)
		// skip() deletes key i AFTER stepping past it: the deletion may rotate / value-swap
		// the node the iterator now sits on
		h.fresh = h.mode == mAttached && len(moved(h.vec)) == 0
	case "ItGet":
	case "ReverseOrder":
		detach(o.T, true)
	case "Sort":
		detach(o.T, noNull(pre[o.T]))
	case "Permute":
		if kind == K_OK {
			detach(o.T, true)
		} else {
			clear([]int{o.T}, nil)
		}
	default:
		clear(touches(o), nil)
	}
}

// ---------------------------------------------------------------- Coq printing

func coqOpIt(o Op) string {
	switch o.Op {
	case "ItBegin":
		return fmt.Sprintf("ItBegin %d", o.T)
	case "ItFrom":
		return fmt.Sprintf("ItFrom %d %s", o.T, Z(o.I))
	case "ItNext":
		return fmt.Sprintf("ItNext %d", o.W)
	case "ItGet":
		return fmt.Sprintf("ItGet %d", o.W)
	}
	return "Base (" + coqOp(o) + ")"
}
func coqCaseIt(c Case) string {
	ops := make([]string, len(c.Ops))
	for i, o := range c.Ops {
		ops[i] = coqOpIt(o)
	}
	outs := make([]string, len(c.Outs))
	for i, o := range c.Outs {
		outs[i] = fmt.Sprintf("(%s, %s, %s)", Z(o.K), ZList(o.P), Z(o.H))
	}
	return "(" + List(ops) + ",\n   " + List(outs) + ")"
}

const hdrIt = "From Coq Require Import ZArith List Bool. Import ListNotations.\nFrom ADV Require Import C11.Model C11.ModelIt C11.CorrIt.\nOpen Scope Z_scope.\n"

const ruleIt = "random histories (<= ~60 steps, 1-4 sparse vectors of dim 3..12 (+Append), values -8..8, element type drawn from all nine sparse types) in which up to 6 ConstIterator()/ConstIteratorFrom(i) objects are HELD and moved (ItNext) / observed (ItGet: Ok, Index, GetConst) between mutations of their vector: SetAt (zero half of the time) and At at / before / after the cursor, Swap, Set(dense|sparse), full / partial / from iterations by somebody else (skip deletions under the held iterator), AppendVector iterating the vector as argument, JointIterator, Reset, Map, moves of other iterators on the same vector, moves of exhausted iterators, and the index-replacing ReverseOrder / Sort / Permute (Detached predictions: the iterator walks the snapshot of the old keys); every history ends by draining every iterator and iterating every vector. The generator mirrors the model's freshness flag and never MOVES an iterator the model calls Unknown (index replaced after an in-place index edit since the iterator's last move: outcome depends on AVL internals); such iterators are still observed with ItGet. A case is non-trivial iff >= 1 attached live iterator was moved after >= 2 steps that changed the key list of its vector since its previous move, and >= 1 skip() deletion happened under a live held iterator (by the held iterator itself on ItNext, or by somebody else's iteration while an attached live iterator sat on that vector); distinct = distinct (type, op list)"

// ---------------------------------------------------------------- generator

type heldStats struct {
	movedAfterEdits, skipOwn, skipUnder, detachedMoves int
}

func (s heldStats) nontrivial() bool {
	return s.movedAfterEdits >= 1 && (s.skipOwn >= 1 || s.skipUnder >= 1)
}

func genNewHeld(r *Rng) Op {
	n := r.Range(3, 12)
	var ks, xs []int64
	p := r.Range(2, 4) // density p/5
	for i := 0; i < n; i++ {
		if r.Intn(5) < p {
			ks = append(ks, int64(i))
			x := int64(r.Range(-8, 8))
			if x == 0 {
				x = 3
			}
			xs = append(xs, x)
		}
	}
	for i := len(ks) - 1; i > 0; i-- {
		j := r.Intn(i + 1)
		ks[i], ks[j] = ks[j], ks[i]
		xs[i], xs[j] = xs[j], xs[i]
	}
	return Op{Op: "New", L: ks, L2: xs, I: int64(n)}
}

func lostKey(pre, post []int64) bool {
	have := map[int64]bool{}
	for _, k := range post {
		have[k] = true
	}
	for _, k := range pre {
		if !have[k] {
			return true
		}
	}
	return false
}

func iterationOp(o Op) bool {
	switch o.Op {
	case "ItNext", "ItBegin", "ItFrom", "Iterate", "IterPart", "IterFrom", "SetV", "SETV", "Joint", "Joint3", "AppendV", "Sort":
		return true
	}
	return false
}

func genHeld(r *Rng, tn string, cw *CaseWriter) (Case, heldStats) {
	var st heldStats
	w := &HWorld{World: World{Type: tn}}
	c := Case{Type: tn}
	emit := func(o Op) {
		pre, _ := w.observe()
		var mover *heldIt
		wasOk := false
		if o.Op == "ItNext" {
			mover = w.Its[o.W]
			wasOk = mover.it.Ok()
			if cw != nil {
				switch {
				case !wasOk:
					cw.Count("it:move-exhausted")
				case mover.mode == mAttached:
					cw.Count("it:move-attached")
				case mover.mode == mDetached:
					cw.Count("it:move-detached")
					st.detachedMoves++
				default:
					cw.Count("it:move-UNKNOWN(generator bug)")
				}
			}
			if wasOk && mover.mode == mAttached && mover.edits >= 2 {
				st.movedAfterEdits++
				if cw != nil {
					cw.Count("it:moved-after>=2-index-edits")
				}
			}
		}
		if o.Op == "ItGet" && cw != nil {
			h := w.Its[o.W]
			if h.mode == mUnknown {
				cw.Count("it:get-unknown")
			}
		}
		k, p := w.exec(o)
		post, hsh := w.observe()
		c.Ops = append(c.Ops, o)
		c.Outs = append(c.Outs, Out{k, p, hsh})
		w.mirror(o, k, pre, post)
		// index edits / skip deletions per vector
		for t := range pre {
			if t >= len(post) {
				break
			}
			changed := !sameKeys(pre[t].Index, post[t].Index)
			if changed {
				for _, h := range w.Its {
					if h.vec == t && h != mover {
						h.edits++
					}
				}
			}
			if iterationOp(o) && lostKey(pre[t].Index, post[t].Index) {
				if mover != nil && mover.vec == t && wasOk {
					st.skipOwn++
					if cw != nil {
						cw.Count("it:skip-deletion-by-held-iterator")
					}
				}
				for _, h := range w.Its {
					if h.vec == t && h != mover && h.mode == mAttached && h.it.Ok() {
						st.skipUnder++
						if cw != nil {
							cw.Count("it:skip-deletion-under-live-iterator")
						}
						break
					}
				}
			}
		}
		if mover != nil {
			mover.edits = 0
		}
		if cw != nil {
			cw.Count("op:" + o.Op)
			if int(k) < 3 {
				cw.Count([]string{"outcome:ok", "outcome:panic", "outcome:error"}[k])
			}
		}
	}
	nv := r.Range(1, 2)
	for i := 0; i < nv; i++ {
		emit(genNewHeld(r))
	}
	emit(Op{Op: "ItBegin", T: 0})
	liveOn := func(t int) []*heldIt {
		var l []*heldIt
		for _, h := range w.Its {
			if h.vec == t && h.it.Ok() && h.mode != mUnknown {
				l = append(l, h)
			}
		}
		return l
	}
	n := r.Range(14, 40)
	for step := 0; step < n; step++ {
		obs, _ := w.observe()
		// prefer vectors that carry a live iterator
		t := r.Intn(len(w.V))
		if len(liveOn(t)) == 0 && r.Intn(3) != 0 {
			for _, h := range w.Its {
				if h.it.Ok() && h.mode != mUnknown {
					t = h.vec
					break
				}
			}
		}
		d := w.V[t].Dim()
		live := liveOn(t)
		pos := func() int64 {
			if d <= 0 {
				return 0
			}
			x := int64(r.Intn(d))
			if len(live) > 0 {
				cur := int64(live[r.Intn(len(live))].it.Index())
				switch r.Intn(6) {
				case 0:
					x = cur
				case 1:
					x = cur + 1
				case 2:
					if cur > 0 {
						x = int64(r.Intn(int(cur)))
					}
				case 3:
					if int(cur)+1 < d {
						x = cur + 1 + int64(r.Intn(d-int(cur)-1))
					}
				case 4:
					x = cur + 2
				}
			}
			if x < 0 {
				x = 0
			}
			if x >= int64(d) {
				x = int64(d) - 1
			}
			return x
		}
		//           0  1   2  3   4  5  6  7  8  9 10 11 12 13
		wts := []int{3, 3, 16, 4, 12, 4, 4, 2, 4, 3, 2, 1, 2, 1}
		if len(w.Its) >= 6 {
			wts[0], wts[1] = 0, 0
		}
		if len(w.V) >= 4 {
			wts[10] = 0
		}
		if d <= 0 {
			wts[4], wts[5], wts[6], wts[13] = 0, 0, 0, 0
		}
		switch r.Pick(wts) {
		case 0:
			emit(Op{Op: "ItBegin", T: t})
		case 1:
			// half of the time the held iterator is STARTED on a pending zero (round 5)
			if q, ok := vecAimFrom(r, obs[t]); ok && r.Bool() {
				emit(Op{Op: "ItFrom", T: t, I: q})
			} else {
				emit(Op{Op: "ItFrom", T: t, I: int64(r.Range(-1, d+1))})
			}
		case 2:
			var cand []int
			for k, h := range w.Its {
				if h.mode == mUnknown && h.it.Ok() {
					continue // the model makes no prediction for this move
				}
				if h.it.Ok() {
					cand = append(cand, k, k, k, k, k, k)
				} else {
					cand = append(cand, k)
				}
			}
			if len(cand) > 0 {
				k := cand[r.Intn(len(cand))]
				emit(Op{Op: "ItNext", W: k, T: w.Its[k].vec})
			}
		case 3:
			k := r.Intn(len(w.Its))
			emit(Op{Op: "ItGet", W: k, T: w.Its[k].vec})
		case 4:
			x := int64(0)
			if r.Bool() {
				x = int64(r.Range(-8, 8))
			}
			emit(Op{Op: "SetAt", T: t, I: pos(), X: x})
		case 5:
			emit(Op{Op: "At", T: t, I: pos()})
		case 6:
			emit(Op{Op: "Swap", T: t, I: pos(), J: pos()})
		case 7:
			u, l := genOperand(r, &w.World, t, d)
			emit(Op{Op: "SetV", T: t, U: u, L: l})
		case 8:
			switch r.Intn(3) {
			case 0:
				emit(Op{Op: "Iterate", T: t})
			case 1:
				emit(Op{Op: "IterPart", T: t, I: int64(r.Range(0, 3))})
			case 2:
				emit(Op{Op: "IterFrom", T: t, I: int64(r.Range(-1, d+1))})
			}
		case 9:
			// index-replacing op; usually move a live attached iterator first so that it is fresh
			if len(live) > 0 && r.Intn(4) != 0 {
				pick := live[r.Intn(len(live))]
				for k, h := range w.Its {
					if h == pick {
						emit(Op{Op: "ItNext", W: k, T: h.vec})
						break
					}
				}
				obs, _ = w.observe()
			}
			switch r.Intn(3) {
			case 0:
				emit(Op{Op: "ReverseOrder", T: t})
			case 1:
				if hasDupNonzero(obs[t]) && sharesCells(obs, t) {
					emit(Op{Op: "ReverseOrder", T: t}) // unstable sort.Sort on shared equal cells: outside the model
				} else {
					emit(Op{Op: "Sort", T: t, B: r.Bool()})
				}
			case 2:
				if d >= 0 {
					emit(Op{Op: "Permute", T: t, L: perm(r, d)})
				}
			}
		case 10:
			u := r.Intn(len(w.V))
			if r.Bool() {
				u, t = t, u // the vector carrying the iterator is the ARGUMENT (iterated by APPEND)
			}
			if w.V[t].Dim()+w.V[u].Dim() <= maxDim {
				emit(Op{Op: "AppendV", T: t, U: u})
			}
		case 11:
			u, l := genOperand(r, &w.World, t, d)
			emit(Op{Op: "Joint", T: t, U: u, L: l})
		case 12:
			if r.Intn(3) == 0 {
				emit(Op{Op: "Reset", T: t})
			} else if maxAbsOf(obs[t])*2 <= maxAbs {
				emit(Op{Op: "MapMul", T: t, X: int64(r.Range(-1, 2))})
			}
		case 13:
			emit(Op{Op: "ConstAt", T: t, I: pos()})
		}
	}
	// drain every iterator the model predicts, then iterate every vector
	for k, h := range w.Its {
		if h.mode == mUnknown && h.it.Ok() {
			emit(Op{Op: "ItGet", W: k, T: h.vec})
			if cw != nil {
				cw.Count("it:final-unknown")
			}
			continue
		}
		if h.mode == mDetached && cw != nil {
			cw.Count("it:final-detached")
		}
		for g := 0; g < 64 && h.it.Ok(); g++ {
			emit(Op{Op: "ItNext", W: k, T: h.vec})
		}
		emit(Op{Op: "ItNext", W: k, T: h.vec}) // Next on the exhausted iterator
	}
	for t := range w.V {
		emit(Op{Op: "Iterate", T: t})
	}
	return c, st
}

func executeIt(c Case) []Out {
	w := &HWorld{World: World{Type: c.Type}}
	outs := make([]Out, 0, len(c.Ops))
	for i, o := range c.Ops {
		k, p := w.exec(o)
		obs, h := w.observe()
		outs = append(outs, Out{k, p, h})
		if os.Getenv("HELD_DEBUG") != "" { // diagnosis: the full observation after every step
			for t := range obs {
				fmt.Fprintf(os.Stderr, "step %d %s vec %d: %v\n", i, o.Op, t, obs[t].Flat)
			}
			for q, h := range w.Its {
				fmt.Fprintf(os.Stderr, "   it %d: %v\n", q, itObs(h.it))
			}
		}
	}
	return outs
}

// ---------------------------------------------------------------- oracle (heldhunt)

func wellFormedIt(ops []Op) bool {
	if !wellFormed(ops) {
		return false
	}
	m := 0
	for _, o := range ops {
		switch o.Op {
		case "ItBegin", "ItFrom":
			m++
		case "ItNext", "ItGet":
			if o.W < 0 || o.W >= m {
				return false
			}
		}
	}
	return true
}

func firstNonzeroFrom(reads []int64, from int64) (int64, int64, bool) {
	for i, x := range reads {
		if int64(i) >= from && x != 0 {
			return int64(i), x, true
		}
	}
	return 0, 0, false
}

// heldCheck runs the history on the implementation and checks, independent of
// the Coq model: (1) no iterator operation changes an element or a dimension;
// (2) ItBegin / ItFrom(i) position the iterator on the first non-zero position
// (>= i) of the dense reads (ConstAt of every index) taken just before; (3) every
// Next of an iterator that is attached by construction (no successful
// ReverseOrder / Sort / Permute on its vector since it was created) moves it to
// the first non-zero position beyond its cursor of the dense reads at that time
// and reports that value, an exhausted iterator stays exhausted; (4) after the
// history, draining every such iterator yields exactly the ascending non-zero
// positions beyond its cursor; (5) the coherence invariant of every vector (hook
// dump) after every step.
func heldCheck(c Case) (fail string, at int) {
	if !wellFormedIt(c.Ops) {
		return "", -1
	}
	defer func() {
		if r := recover(); r != nil {
			fail, at = fmt.Sprintf("harness-level panic: %v", r), -1
		}
	}()
	w := &HWorld{World: World{Type: c.Type}}
	for k, o := range c.Ops {
		pre, _ := w.observe()
		sh := make([][]int64, len(pre))
		for i := range pre {
			sh[i] = pre[i].Reads
		}
		if !isItOp(o) && !inRange(o, sh) {
			return "", -1
		}
		if (o.Op == "ItNext" || o.Op == "ItGet") && w.Its[o.W].vec != o.T {
			o.T = w.Its[o.W].vec
		}
		var h *heldIt
		wasOk, cur := false, int64(0)
		if o.Op == "ItNext" {
			h = w.Its[o.W]
			wasOk = h.it.Ok()
			if wasOk {
				cur = int64(h.it.Index())
			}
		}
		kind, p := w.exec(o)
		if kind != K_OK {
			return fmt.Sprintf("op %d %s with in-range arguments ended with outcome kind %d (1=panic, 2=error)", k, o.Op, kind), k
		}
		post, _ := w.observe()
		for i := range post {
			if f := checkVec(i, post[i], post[i].N); f != "" {
				return fmt.Sprintf("after op %d %s: %s", k, o.Op, f), k
			}
		}
		if isItOp(o) {
			for i := range pre {
				if pre[i].N != post[i].N || !eqList(pre[i].Reads, post[i].Reads) {
					return fmt.Sprintf("op %d %s (an iterator operation) changed vector %d from %v to %v", k, o.Op, i, pre[i].Reads, post[i].Reads), k
				}
			}
		}
		expect := func(from int64) []int64 {
			if j, x, ok := firstNonzeroFrom(pre[o.T].Reads, from); ok {
				return []int64{1, j, 1, x}
			}
			return []int64{0}
		}
		switch o.Op {
		case "ItBegin":
			if e := expect(0); !eqList(p, e) {
				return fmt.Sprintf("op %d ConstIterator() of %v starts at %v, expected %v ([ok,index,present,value])", k, pre[o.T].Reads, p, e), k
			}
		case "ItFrom":
			if e := expect(o.I); !eqList(p, e) {
				return fmt.Sprintf("op %d ConstIteratorFrom(%d) of %v starts at %v, expected %v", k, o.I, pre[o.T].Reads, p, e), k
			}
		case "ItNext":
			if !wasOk {
				if !eqList(p, []int64{0}) {
					return fmt.Sprintf("op %d Next() revived an exhausted iterator: %v", k, p), k
				}
			} else if h.byConstr {
				if e := expect(cur + 1); !eqList(p, e) {
					return fmt.Sprintf("op %d Next() of a held iterator at cursor %d on %v moved to %v; the remaining non-zero positions of the current state give %v ([ok,index,present,value])", k, cur, pre[o.T].Reads, p, e), k
				}
			}
		case "ReverseOrder", "Sort", "Permute":
			for _, x := range w.Its {
				if x.vec == o.T {
					x.byConstr = false
				}
			}
		}
	}
	// final drains
	obs, _ := w.observe()
	for k, h := range w.Its {
		if !h.byConstr || !h.it.Ok() {
			continue
		}
		cur := int64(h.it.Index())
		exp := nonzero(obs[h.vec].Reads, cur+1)
		got := []int64{}
		for g := 0; g < 10000; g++ {
			h.it.Next()
			if !h.it.Ok() {
				break
			}
			x := int64(C_NIL)
			if s := h.it.GetConst(); s != nil {
				x = int64(s.GetFloat64())
			}
			got = append(got, int64(h.it.Index()), x)
		}
		if !eqList(got, exp) {
			return fmt.Sprintf("draining held iterator %d (cursor %d) after the history visits %v; the non-zero positions beyond the cursor of %v are %v", k, cur, got, obs[h.vec].Reads, exp), len(c.Ops)
		}
	}
	return "", -1
}

// removeOpIt removes op k (creating ops: later uses of a removed iterator are
// dropped with it and higher iterator handles renumbered; a vector-creating op
// that is still used is not removable).
func removeOpIt(ops []Op, k int) []Op {
	o := ops[k]
	if o.Op != "ItBegin" && o.Op != "ItFrom" {
		return removeOp(ops, k)
	}
	h := 0
	for _, x := range ops[:k] {
		if x.Op == "ItBegin" || x.Op == "ItFrom" {
			h++
		}
	}
	var r []Op
	for i, x := range ops {
		if i == k {
			continue
		}
		if i > k && (x.Op == "ItNext" || x.Op == "ItGet") {
			if x.W == h {
				continue
			}
			if x.W > h {
				x.W--
			}
		}
		r = append(r, x)
	}
	return r
}

func shrinkIt(c Case) Case {
	fails := func(ops []Op) bool {
		if ops == nil {
			return false
		}
		f, _ := heldCheck(Case{Type: c.Type, Ops: ops})
		return f != ""
	}
	ops := c.Ops
	if _, at := heldCheck(c); at >= 0 && at+1 < len(ops) {
		if fails(ops[:at+1]) {
			ops = ops[:at+1]
		}
	}
	for changed := true; changed; {
		changed = false
		for k := len(ops) - 1; k >= 0; k-- {
			if k >= len(ops) {
				continue
			}
			cand := removeOpIt(ops, k)
			if fails(cand) {
				ops = cand
				changed = true
			}
		}
	}
	for k := range ops {
		o := ops[k]
		try := func(n Op) {
			cand := append(append([]Op{}, ops[:k]...), n)
			cand = append(cand, ops[k+1:]...)
			if fails(cand) {
				ops = cand
			}
		}
		if o.Op == "SetAt" && o.X != 1 && o.X != 0 {
			n := o
			n.X = 1
			try(n)
		}
		if o.Op == "New" {
			for i := len(o.L) - 1; i >= 0; i-- {
				cur := ops[k]
				if i >= len(cur.L) {
					continue
				}
				n := cur
				n.L = append(cp(cur.L[:i]), cur.L[i+1:]...)
				n.L2 = append(cp(cur.L2[:i]), cur.L2[i+1:]...)
				try(n)
			}
		}
	}
	return Case{Type: c.Type, Ops: ops}
}

func heldHunt(o Opts) {
	type res struct {
		Found   bool   `json:"found"`
		Failure string `json:"failure"`
		At      int    `json:"at"`
		Case    Case   `json:"case"`
		Tried   int    `json:"tried"`
	}
	var r res
	// a failing input must REPLAY: the shrunk history is re-judged; if it no longer fails the
	// unshrunk one is; if that does not fail either the observation was not reproducible (it is
	// not reported and the search goes on)
	report := func(c0 Case) bool {
		c0.Outs = nil
		c := shrinkIt(c0)
		f, at := heldCheck(c)
		if f == "" {
			c = c0
			if f, at = heldCheck(c); f == "" {
				return false
			}
		}
		r.Found, r.Failure, r.At = true, f, at
		c.Outs = nil
		r.Case = c
		return true
	}
	done := false
	if o.Replay != "" {
		if b, err := os.ReadFile(o.Replay); err == nil {
			var rp struct {
				Cases []Case `json:"cases"`
				Case  *Case  `json:"case"`
			}
			json.Unmarshal(b, &rp)
			if rp.Case != nil {
				rp.Cases = append(rp.Cases, *rp.Case)
			}
			for _, c := range rp.Cases {
				r.Tried++
				if f, _ := heldCheck(c); f != "" {
					if done = report(c); done {
						break
					}
				}
			}
		}
	}
	if !done {
		rng := NewRng(o.Seed + 104729)
		for k := 0; k < o.N && !done; k++ {
			tn := typeNames[k%len(typeNames)]
			c, _ := genHeld(rng.Split(), tn, nil)
			r.Tried++
			if f, _ := heldCheck(c); f != "" {
				done = report(c)
			}
		}
	}
	b, _ := json.MarshalIndent(r, "", " ")
	os.MkdirAll(o.Out, 0755)
	os.WriteFile(o.Out+"/heldhunt.json", b, 0644)
}

// ---------------------------------------------------------------- known finding

// heldKnown replays the witness of C11-STALEIT on the implementation (all nine types).
func heldKnown(o Opts) {
	type kf struct {
		Id        string `json:"id"`
		Confirmed bool   `json:"confirmed"`
		Detail    string `json:"detail"`
	}
	conf := true
	detail := ""
	for _, tn := range typeNames {
		w := &HWorld{World: World{Type: tn}}
		w.exec(Op{Op: "New", L: []int64{0}, L2: []int64{5}, I: 3})
		_, p0 := w.exec(Op{Op: "ItBegin", T: 0})
		w.exec(Op{Op: "ReverseOrder", T: 0})
		_, p1 := w.exec(Op{Op: "ItNext", W: 0, T: 0})
		obs, _ := w.observe()
		rd := obs[0].Reads
		ok := eqList(p0, []int64{1, 0, 1, 5}) && eqList(p1, []int64{0}) && eqList(rd, []int64{0, 0, 5})
		conf = conf && ok
		if tn == "float64" || !ok {
			detail += fmt.Sprintf("[%s] v=[5,0,0]; it:=v.ConstIterator() at %v; v.ReverseOrder() -> v reads %v; it.Next() -> %v ([0] = exhausted although position 2 > 0 holds 5; [ok,index,present,value]) ", tn, p0, rd, p1)
		}
	}
	out := []kf{{"C11-STALEIT", conf, strings.TrimSpace(detail)}}
	b, _ := json.MarshalIndent(out, "", " ")
	os.MkdirAll(o.Out, 0755)
	os.WriteFile(o.Out+"/heldknown.json", b, 0644)
}

// ---------------------------------------------------------------- main

func heldMain(o Opts) {
	mode, arg := o.Extra, ""
	if i := strings.Index(o.Extra, ":"); i >= 0 {
		mode, arg = o.Extra[:i], o.Extra[i+1:]
	}
	switch mode {
	case "heldhunt":
		heldHunt(o)
		return
	case "heldknown":
		heldKnown(o)
		return
	case "held":
	default:
		Die("unknown --extra %s", o.Extra)
	}
	if o.Replay != "" {
		b, err := os.ReadFile(o.Replay)
		if err != nil {
			Die("%v", err)
		}
		var rp struct {
			Case Case `json:"case"`
		}
		if err := json.Unmarshal(b, &rp); err != nil {
			Die("%v", err)
		}
		c := rp.Case
		if !wellFormedIt(c.Ops) {
			Die("replay: history names a vector / iterator that does not exist")
		}
		c.Outs = executeIt(c)
		w := NewCaseWriter(o.Out, "heldreplay", hdrIt, "mism_it", 1000)
		w.Type = "case_it"
		w.Add(coqCaseIt(c), c, "replay", true)
		w.Flush()
		return
	}
	w := NewCaseWriter(o.Out, "held", hdrIt, "mism_it", 10)
	w.Type = "case_it"
	w.Rule = ruleIt
	if arg != "" {
		for _, c := range readCorpus(arg) {
			if !wellFormedIt(c.Ops) {
				Die("corpus: history names a vector / iterator that does not exist: %v", c.Ops)
			}
			c.Outs = executeIt(c)
			w.Add(coqCaseIt(c), c, "corpus:"+fmt.Sprint(c.Ops), true)
			w.Count("corpus")
		}
	}
	rng := NewRng(o.Seed + 15485863)
	for k := 0; k < o.N; k++ {
		tn := typeNames[k%len(typeNames)]
		if k%2 == 0 {
			tn = typeNames[(k/2)%3]
		}
		c, st := genHeld(rng.Split(), tn, w)
		w.Add(coqCaseIt(c), c, tn+fmt.Sprint(c.Ops), st.nontrivial())
		w.Count("type:" + tn)
		if st.detachedMoves > 0 {
			w.Count("case:with-detached-moves")
		}
	}
	if err := w.Flush(); err != nil {
		Die("%v", err)
	}
}
