// C11 harness, part 2: iterators held across mutations (see coq/C11/ModelIt.v).
package main

import (
	. "adharness/common"
)

func heldMain(o Opts) {
	Die("held mode not built yet")
}
