// History generator for C11.  Generation is state aware: the history is run on
// the implementation while it is drawn, so that dims, stored values (bounded so
// that every element type is exact) and cell sharing are known.
package main

import (
	. "adharness/common"
)

type genStats struct {
	mut, rebuild, share int
	quirk               bool // some vector held a stored zero or a value-less index key
	bad                 int
	vars, setEmpty      int // SetVar ops / SET-on-an-empty-receiver compounds (directed stream of round 7)
	pendFrom            int // IteratorFrom started with a pending zero as the first index key at/after the start
}

func (s genStats) nontrivial() bool {
	return s.mut >= 8 && s.rebuild >= 1 && s.share >= 1 && s.quirk
}

const maxVecs = 6
const maxDim = 30
const maxAbs = 100

func val(r *Rng) int64 {
	if r.Intn(6) == 0 {
		return 0
	}
	return int64(r.Range(-8, 8))
}
func vals(r *Rng, n int) []int64 {
	l := make([]int64, n)
	for i := range l {
		if r.Intn(3) == 0 {
			l[i] = 0
		} else {
			l[i] = int64(r.Range(-8, 8))
		}
	}
	return l
}
func perm(r *Rng, n int) []int64 {
	p := make([]int64, n)
	for i := range p {
		p[i] = int64(i)
	}
	for i := n - 1; i > 0; i-- {
		j := r.Intn(i + 1)
		p[i], p[j] = p[j], p[i]
	}
	return p
}
// smallMode: directed stream "small" (main.go): vectors of length 2..5 holding 1..3 entries, so
// that the AVL index is a tree of one to three nodes (root deletion with one child, a root that
// is the smaller of two entries), zero writes to stored positions followed by an iteration (skip()
// deletes the key), copies (Clone / Append* / Slice) that are iterated / sorted / reset afterwards
// (Reset through shared cells), Sort after At() created a stored zero
var smallMode = false

// dirMode: directed stream of round 7 (main.go): short histories with the compound "SET on an empty receiver,
// At() at a fresh position of one of the two vectors, iteration of the other" (case 27);
// varMode (Real element types only): additionally SetVar (case 26: an element becomes a variable, two times out
// of three at the point 0) and no operation that computes with values (Sort / Map / MapSet / Reduce), so that
// every operation only moves, copies (SET / Set / Clone copy the gradient) or clears whole scalars and the
// reading pv() of main.go commutes with the model's Z cells
var dirMode = false
var varMode = false

func genNewSmall(r *Rng) Op {
	n := r.Range(2, 5)
	m := r.Range(1, 3)
	if m > n {
		m = n
	}
	p := perm(r, n)
	var ks, xs []int64
	for i := 0; i < m; i++ {
		ks = append(ks, p[i])
		x := int64(r.Range(1, 8))
		if r.Intn(4) == 0 {
			x = -x
		}
		xs = append(xs, x)
	}
	return Op{Op: "New", L: ks, L2: xs, I: int64(n)}
}

func genNew(r *Rng, bad bool) Op {
	if smallMode && !bad {
		return genNewSmall(r)
	}
	n := r.Range(0, 12)
	if r.Intn(8) == 0 {
		n = r.Range(0, 2)
	}
	var ks, xs []int64
	// zero patterns: empty, sparse, dense, leading / trailing block
	mode := r.Intn(5)
	for i := 0; i < n; i++ {
		take := false
		switch mode {
		case 0:
			take = false
		case 1:
			take = r.Intn(4) == 0
		case 2:
			take = r.Intn(4) != 0
		case 3:
			take = i < n/2
		case 4:
			take = i >= n/2
		}
		if take {
			ks = append(ks, int64(i))
			xs = append(xs, val(r))
		}
	}
	// the constructor takes the indices in any order
	for i := len(ks) - 1; i > 0; i-- {
		j := r.Intn(i + 1)
		ks[i], ks[j] = ks[j], ks[i]
		xs[i], xs[j] = xs[j], xs[i]
	}
	o := Op{Op: "New", L: ks, L2: xs, I: int64(n)}
	if bad {
		o.Bad = true
		switch r.Intn(4) {
		case 0:
			o.L = append(o.L, int64(n)+int64(r.Intn(2)))
			o.L2 = append(o.L2, 3)
		case 1:
			if len(ks) > 0 {
				o.L = append(o.L, ks[0])
				o.L2 = append(o.L2, 2)
			} else {
				o.L = append(o.L, 0)
			}
		case 2:
			o.L = append(o.L, -1)
			o.L2 = append(o.L2, 4)
		case 3:
			o.L2 = append(o.L2, 1)
		}
	}
	return o
}

func maxAbsOf(o VecObs) int64 {
	m := int64(0)
	for _, x := range o.Vals {
		if x < 0 {
			x = -x
		}
		if x > m {
			m = x
		}
	}
	return m
}
func sumAbsOf(o VecObs) int64 {
	m := int64(0)
	for _, x := range o.Vals {
		if x < 0 {
			x = -x
		}
		m += x
	}
	return m
}

// sharesCells: vector t holds a cell that another vector holds too
func sharesCells(obs []VecObs, t int) bool {
	mine := map[uintptr]bool{}
	for _, c := range obs[t].Cells {
		mine[c] = true
	}
	for u := range obs {
		if u == t {
			continue
		}
		for _, c := range obs[u].Cells {
			if c != 0 && mine[c] {
				return true
			}
		}
	}
	return false
}
func hasDupNonzero(o VecObs) bool {
	seen := map[int64]bool{}
	for _, x := range o.Vals {
		if x != 0 && seen[x] {
			return true
		}
		seen[x] = true
	}
	return false
}

// vecPendingKeys: the index keys of a sparse vector that read zero (a stored zero or a value-less
// key): what skip() has to delete before delivering a position
func vecPendingKeys(ob VecObs) []int64 {
	val := map[int64]int64{}
	has := map[int64]bool{}
	for i, k := range ob.Keys {
		has[k] = true
		val[k] = ob.Vals[i]
	}
	var r []int64
	for _, k := range ob.Index {
		// (after a malformed operation a key can lie outside [0,n): not aimed at)
		if (!has[k] || val[k] == 0) && k >= 0 && k < int64(ob.N) {
			r = append(r, k)
		}
	}
	return r
}

// vecStartsOnPending: the first index key at or after q reads zero
func vecStartsOnPending(ob VecObs, q int64) bool {
	pk := map[int64]bool{}
	for _, k := range vecPendingKeys(ob) {
		pk[k] = true
	}
	for _, k := range ob.Index {
		if k >= q {
			return pk[k]
		}
	}
	return false
}

// vecAimFrom: a start q <= p such that the pending key p is the first index key at or after q
func vecAimFrom(r *Rng, ob VecObs) (int64, bool) {
	pk := vecPendingKeys(ob)
	if len(pk) == 0 {
		return 0, false
	}
	p := pk[r.Intn(len(pk))]
	lo := int64(0)
	for _, k := range ob.Index {
		if k < p && k+1 > lo {
			lo = k + 1
		}
	}
	switch r.Intn(3) {
	case 0:
		return p, true
	case 1:
		return lo, true
	}
	return lo + int64(r.Intn(int(p-lo)+1)), true
}

func genOperand(r *Rng, w *World, t int, n int) (int, []int64) {
	// a sparse vector of the same dimension if there is one, else dense
	var cand []int
	for u, v := range w.V {
		if u != t && v.Dim() == n {
			cand = append(cand, u)
		}
	}
	if len(cand) > 0 && r.Intn(3) != 0 {
		return cand[r.Intn(len(cand))], nil
	}
	if n < 0 {
		n = 0
	}
	l := vals(r, n)
	if r.Intn(5) == 0 {
		for i := range l {
			l[i] = 0
		}
	}
	return -1, l
}

func genCase(r *Rng, tn string, malformed bool, cw *CaseWriter) (Case, genStats) {
	var st genStats
	w := &World{Type: tn}
	c := Case{Type: tn}
	emit := func(o Op) {
		if o.Op == "IterFrom" && !o.Bad && o.T < len(w.V) && !w.Hung {
			pre, _ := w.observe()
			if vecStartsOnPending(pre[o.T], o.I) {
				st.pendFrom++
				if cw != nil {
					cw.Count("from:starts-on-pending-zero")
				}
			} else if cw != nil {
				cw.Count("from:other")
			}
		}
		k, p := w.execOne(o)
		obs, h := w.observe()
		c.Ops = append(c.Ops, o)
		c.Outs = append(c.Outs, Out{k, p, h})
		if cw != nil {
			cw.Count("op:" + o.Op)
			if o.Bad {
				cw.Count("malformed")
			}
			if k == K_HANG {
				cw.Count("outcome:hang")
			} else {
				cw.Count([]string{"outcome:ok", "outcome:panic", "outcome:error"}[k])
			}
		}
		if o.Bad {
			st.bad++
		}
		for _, vo := range obs {
			have := map[int64]bool{}
			for i, k := range vo.Keys {
				have[k] = true
				if vo.Vals[i] == 0 {
					st.quirk = true
				}
			}
			for _, k := range vo.Index {
				if !have[k] {
					st.quirk = true
				}
			}
		}
	}
	nv := r.Range(1, 3)
	for i := 0; i < nv; i++ {
		emit(genNew(r, false))
	}
	if varMode {
		// every history of the Real stream holds a variable at the point 0 from the start
		for t, v := range w.V {
			if v.Dim() > 0 {
				emit(Op{Op: "SetVar", T: t, I: int64(r.Intn(v.Dim()))})
				st.mut++
				st.vars++
				break
			}
		}
	}
	n := r.Range(10, 40)
	if dirMode {
		n = r.Range(6, 16)
	}
	for k := 0; k < n && !w.Hung; k++ {
		if len(w.V) == 0 {
			emit(genNew(r, false))
			continue
		}
		obs, _ := w.observe()
		t := r.Intn(len(w.V))
		d := w.V[t].Dim()
		dd := d
		if dd < 0 {
			dd = 0
		}
		bad := malformed && r.Intn(6) == 0
		idx := func() int64 {
			if d <= 0 {
				return 0
			}
			// favour stored positions half of the time
			if len(obs[t].Keys) > 0 && r.Bool() {
				return obs[t].Keys[r.Intn(len(obs[t].Keys))]
			}
			return int64(r.Intn(d))
		}
		badIdx := func() int64 {
			return []int64{-1, int64(d), int64(d) + 2, -3}[r.Intn(4)]
		}
		//            0  1   2  3  4  5  6  7  8  9 10 11 12 13 14 15 16 17 18 19 20 21 22 23
		wts := []int{1, 3, 14, 3, 5, 2, 3, 5, 7, 6, 5, 5, 3, 2, 2, 3, 0, 2, 2, 5, 3, 3, 2, 3, 2, 4}
		if smallMode {
			//             0  1   2  3  4  5  6  7  8  9 10 11 12 13 14 15 16 17 18 19 20 21 22 23 24 25
			wts = []int{1, 3, 12, 1, 2, 1, 4, 3, 2, 1, 5, 5, 4, 3, 2, 1, 0, 1, 1, 9, 3, 3, 7, 2, 1, 6}
		}
		wts = append(wts, 0, 0) // 26 SetVar (directed stream, Real types only), 27 SET on an empty receiver
		wts[27] = 2
		if smallMode {
			wts[27] = 4
		}
		if dirMode {
			wts[27] = 20
			if varMode {
				wts[26] = 45
				wts[10], wts[15], wts[16], wts[17], wts[18] = 0, 0, 0, 0, 0
			}
		}
		if d <= 0 {
			wts[25], wts[26], wts[27] = 0, 0, 0
		}
		if len(w.V) >= maxVecs {
			wts[0], wts[11], wts[12], wts[13], wts[14], wts[22] = 0, 0, 0, 0, 0, 0
		}
		if bad {
			wts[16] = 4
		}
		switch r.Pick(wts) {
		case 0:
			emit(genNew(r, bad))
		case 1:
			if bad || d <= 0 {
				emit(Op{Op: "At", T: t, I: badIdx(), Bad: true})
			} else {
				emit(Op{Op: "At", T: t, I: idx()})
				st.mut++
			}
		case 2:
			if bad || d <= 0 {
				emit(Op{Op: "SetAt", T: t, I: badIdx(), X: val(r), Bad: true})
			} else if smallMode && len(obs[t].Keys) > 0 && r.Bool() {
				// zero write to a stored position: the next iteration deletes the key from the index
				emit(Op{Op: "SetAt", T: t, I: obs[t].Keys[r.Intn(len(obs[t].Keys))], X: 0})
				st.mut++
			} else {
				emit(Op{Op: "SetAt", T: t, I: idx(), X: val(r)})
				st.mut++
			}
		case 3:
			if bad || d <= 0 {
				emit(Op{Op: "ConstAt", T: t, I: badIdx(), Bad: true})
			} else {
				emit(Op{Op: "ConstAt", T: t, I: idx()})
			}
		case 4:
			if bad {
				emit(Op{Op: "SetV", T: t, U: -1, L: vals(r, dd+1+r.Intn(2)), Bad: true})
			} else {
				u, l := genOperand(r, w, t, d)
				emit(Op{Op: "SetV", T: t, U: u, L: l})
				st.mut++
			}
		case 5:
			var cand []int
			for u, v := range w.V {
				if bad != (v.Dim() == d) {
					cand = append(cand, u)
				}
			}
			if len(cand) > 0 {
				emit(Op{Op: "SETV", T: t, U: cand[r.Intn(len(cand))], Bad: bad})
				st.mut++
			}
		case 6:
			emit(Op{Op: "Reset", T: t})
			st.mut++
		case 7:
			emit(Op{Op: "ReverseOrder", T: t})
			st.mut++
			st.rebuild++
		case 8:
			if bad {
				emit(Op{Op: "Swap", T: t, I: idx(), J: badIdx(), Bad: true})
			} else if d > 0 {
				emit(Op{Op: "Swap", T: t, I: idx(), J: idx()})
				st.mut++
			}
		case 9:
			if bad {
				var p []int64
				switch r.Intn(3) {
				case 0: // wrong length
					p = perm(r, dd+1)
				case 1: // an entry out of range somewhere (the loop has already swapped before it)
					p = perm(r, dd)
					if d > 0 {
						p[r.Intn(d)] = badIdx()
					} else {
						p = []int64{0}
					}
				case 2: // in range but not a permutation
					p = make([]int64, dd)
					for i := range p {
						p[i] = int64(r.Intn(d))
					}
				}
				emit(Op{Op: "Permute", T: t, L: p, Bad: true})
			} else if d >= 0 {
				p := perm(r, d)
				if r.Intn(4) == 0 { // a single transposition / identity
					p = make([]int64, d)
					for i := range p {
						p[i] = int64(i)
					}
					if d >= 2 {
						a, b := r.Intn(d), r.Intn(d)
						p[a], p[b] = p[b], p[a]
					}
				}
				emit(Op{Op: "Permute", T: t, L: p})
				st.mut++
				st.rebuild++
			}
		case 10:
			if hasDupNonzero(obs[t]) && sharesCells(obs, t) {
				// sort.Sort is unstable: which of two equal-valued shared cells lands where is
				// outside the model (see Model.v); not generated
				emit(Op{Op: "Iterate", T: t})
			} else {
				emit(Op{Op: "Sort", T: t, B: r.Bool()})
				st.mut++
				st.rebuild++
			}
		case 11:
			if bad {
				i, j := int64(r.Range(-2, d+2)), int64(r.Range(-2, d+3))
				emit(Op{Op: "Slice", T: t, I: i, J: j, Bad: true})
			} else if d >= 0 {
				i := r.Intn(d + 1)
				j := i + r.Intn(d-i+1)
				if r.Intn(4) == 0 {
					i, j = 0, d
				}
				emit(Op{Op: "Slice", T: t, I: int64(i), J: int64(j)})
				st.share++
			}
		case 12:
			u := r.Intn(len(w.V))
			if d >= 0 && w.V[u].Dim() >= 0 && d+w.V[u].Dim() <= maxDim {
				emit(Op{Op: "AppendV", T: t, U: u})
				st.share++
			}
		case 13:
			m := r.Range(0, 3)
			if d >= 0 && d+m <= maxDim {
				emit(Op{Op: "AppendS", T: t, L: vals(r, m)})
			}
		case 14:
			m := r.Range(0, 4)
			if d >= 0 && d+m <= maxDim {
				emit(Op{Op: "AppendD", T: t, L: vals(r, m)})
			}
		case 15:
			cm := int64(r.Range(-1, 2))
			if maxAbsOf(obs[t])*2 <= maxAbs {
				emit(Op{Op: "MapMul", T: t, X: cm})
				st.mut++
			}
		case 16:
			if maxAbsOf(obs[t])+3 <= maxAbs {
				emit(Op{Op: "MapAdd", T: t, X: int64(r.Range(1, 3)), Bad: true})
			}
		case 17:
			cm := int64(r.Range(-1, 2))
			if maxAbsOf(obs[t])*2 <= maxAbs {
				emit(Op{Op: "MapSetMul", T: t, X: cm})
				st.mut++
			}
		case 18:
			if sumAbsOf(obs[t]) <= 120 {
				emit(Op{Op: "ReduceSum", T: t})
			}
		case 19:
			emit(Op{Op: "Iterate", T: t})
		case 20:
			emit(Op{Op: "IterPart", T: t, I: int64(r.Range(0, 4))})
		case 21:
			// iteration started in the middle: two times out of three aimed at a pending zero (start q <= p,
			// p a stored zero or value-less index key and the first index key at or after q)
			if q, ok := vecAimFrom(r, obs[t]); ok && r.Intn(3) != 0 {
				emit(Op{Op: "IterFrom", T: t, I: q, B: r.Bool()})
			} else {
				emit(Op{Op: "IterFrom", T: t, I: int64(r.Range(-1, d+1)), B: r.Bool()})
			}
		case 22:
			emit(Op{Op: "Clone", T: t})
		case 23:
			u, l := genOperand(r, w, t, d)
			if bad {
				u, l = -1, vals(r, dd+2)
			}
			emit(Op{Op: "Joint", T: t, U: u, L: l, Bad: bad})
		case 24:
			u, l := genOperand(r, w, t, d)
			x, l2 := genOperand(r, w, t, d)
			emit(Op{Op: "Joint3", T: t, U: u, L: l, W: x, L2: l2})
		case 25:
			// compound: create a pending zero on vector t (one of the origins below), then start an
			// iteration at or before it (no full iteration in between)
			var stored, empty []int64
			inIdx := map[int64]bool{}
			for _, key := range obs[t].Index {
				inIdx[key] = true
			}
			for i, key := range obs[t].Keys {
				// (after a malformed operation a key can lie outside [0,d): not used)
				if obs[t].Vals[i] != 0 && key >= 0 && key < int64(d) {
					stored = append(stored, key)
				}
			}
			for q := int64(0); q < int64(d); q++ {
				if !inIdx[q] {
					empty = append(empty, q)
				}
			}
			cnt := func(k string) {
				if cw != nil {
					cw.Count(k)
				}
			}
			origin := r.Intn(5)
			if varMode && origin == 3 {
				origin = 0
			}
			switch {
			case origin == 0 && len(stored) > 0: // zero written through At().SetFloat64(0)
				emit(Op{Op: "SetAt", T: t, I: stored[r.Intn(len(stored))], X: 0})
				cnt("pending:setzero")
			case origin <= 1 && len(empty) > 0: // an entry merely created by At()
				emit(Op{Op: "At", T: t, I: empty[r.Intn(len(empty))]})
				cnt("pending:at")
			case origin == 2 && len(stored) > 0: // Reset
				emit(Op{Op: "Reset", T: t})
				cnt("pending:reset")
			case origin == 3 && len(stored) > 0: // arithmetic: x -> x*0
				if r.Bool() {
					emit(Op{Op: "MapMul", T: t, X: 0})
				} else {
					emit(Op{Op: "MapSetMul", T: t, X: 0})
				}
				cnt("pending:arith")
			case len(stored) > 0: // Set(dense) writing zeros into stored entries
				l := vals(r, d)
				for _, q := range stored {
					if r.Bool() {
						l[q] = 0
					}
				}
				emit(Op{Op: "SetV", T: t, U: -1, L: l})
				cnt("pending:setdense")
			default:
				emit(Op{Op: "At", T: t, I: int64(r.Intn(d))})
				cnt("pending:at")
			}
			st.mut++
			if !w.Hung {
				post, _ := w.observe()
				q, ok := vecAimFrom(r, post[t])
				if !ok {
					q = int64(r.Intn(d))
				}
				emit(Op{Op: "IterFrom", T: t, I: q, B: r.Bool()})
			}
		case 26:
			x := int64(0)
			if r.Intn(3) == 0 {
				x = val(r)
			}
			emit(Op{Op: "SetVar", T: t, I: idx(), X: x})
			st.mut++
			st.vars++
			// two times out of three the vector (or a copy) is iterated right away: skip() meets the variable
			switch r.Intn(3) {
			case 0:
				emit(Op{Op: "Iterate", T: t})
			case 1:
				emit(Op{Op: "IterFrom", T: t, I: int64(r.Intn(d)), B: r.Bool()})
			}
		case 27:
			// SET on an EMPTY receiver u (a new vector without entries, or an existing one of the same dimension
			// emptied by Reset + iteration) from t, then At() at a fresh position of one of the two, then the
			// OTHER is iterated (and read); then the roles are exchanged
			u := -1
			for c, v := range w.V {
				if c != t && v.Dim() == d && r.Bool() {
					u = c
					break
				}
			}
			if u >= 0 {
				emit(Op{Op: "Reset", T: u})
				emit(Op{Op: "Iterate", T: u})
			} else if len(w.V) < maxVecs {
				emit(Op{Op: "New", I: int64(d)})
				u = len(w.V) - 1
			} else {
				break
			}
			if w.Hung {
				break
			}
			emit(Op{Op: "SETV", T: u, U: t})
			st.mut++
			st.setEmpty++
			a, b := t, u
			if r.Bool() {
				a, b = u, t
			}
			for round := 0; round < 2 && !w.Hung; round++ {
				post, _ := w.observe()
				inIdx := map[int64]bool{}
				for _, key := range post[a].Index {
					inIdx[key] = true
				}
				for _, key := range post[b].Index {
					inIdx[key] = true
				}
				var fresh []int64
				for q := int64(0); q < int64(d); q++ {
					if !inIdx[q] {
						fresh = append(fresh, q)
					}
				}
				if len(fresh) == 0 {
					break
				}
				q := fresh[r.Intn(len(fresh))]
				if r.Bool() {
					emit(Op{Op: "At", T: a, I: q})
				} else {
					emit(Op{Op: "SetAt", T: a, I: q, X: int64(r.Range(1, 8))})
				}
				emit(Op{Op: "Iterate", T: b})
				a, b = b, a
			}
			k += 5 // the compound counts as six operations of the history
		}
	}
	// final full iteration of every vector (mutating: skip() runs on the vector itself)
	for t := 0; t < len(w.V) && !w.Hung; t++ {
		emit(Op{Op: "Iterate", T: t})
	}
	return c, st
}
