// C11 harness, part 2b: STALE held iterators moved with the observed validity bit
// (see coq/C11/ModelIt2.v, coq/C11/CorrIt2.v).
//
//	--extra held2[:corpus.jsonl]  histories with held ConstIterator objects in which EVERY ItNext carries the
//	                              bit vb = "the iterator's AVL node is valid" read off the implementation
//	                              immediately before the move (hook VerifC11ItValid in /repo/verif_c11_it.go:
//	                              node != nil && !node.Deleted && node.Value == value; exhausted: true), and
//	                              iterators the older model calls Unknown ARE moved; written as Coq case files
//	                              held2_<k>.v for CorrIt2.mism_it2 (+ held2.jsonl, held2.meta.json);
//	                              with --replay <{"case":...}> : held2replay_0.v for that one history
//
// Histories use the same Op encoding as held.go (ItBegin / ItFrom / ItNext / ItGet); in the recorded
// JSON an ItNext carries the observed bit in field "b" (informational: a replay observes it afresh).
package main

import (
	"encoding/json"
	"fmt"
	"os"
	"strings"

	. "adharness/common"

	ad "github.com/pbenner/autodiff"
)

// h2It: a held iterator plus the harness' mirror of the model's status (ModelIt2.v: imd2 / ifresh2)
type h2It struct {
	it    ad.VectorConstIterator
	vec   int
	stale bool // imd2 = Stale _ _
	known bool // imd2 = Stale _ true
	fresh bool // ifresh2
	repl  int  // index replacements of its vector seen while it was stale
	// ReverseOrder builds the new AVL tree by ranging over a Go map: the SHAPE of that tree differs from
	// run to run, and with it which node a later rotation value-swaps.  inRand: the iterator's node lives
	// in such a tree; tainted: it was there while the model did not know its validity (non-fresh attached
	// / stale with unknown validity): its bit is not a function of the history, the generator never moves
	// it again (same seed => same cases)
	inRand  bool
	tainted bool
}

type H2World struct {
	World
	Its      []*h2It
	randTree map[int]bool // vector -> its current index tree was built by ReverseOrder from >= 2 keys
}

// taint updates randTree / inRand / tainted after operation o (cls: class returned by mirror2)
func (w *H2World) taint(o Op, kind int64, post []VecObs, cls string) {
	if w.randTree == nil {
		w.randTree = map[int]bool{}
	}
	switch o.Op {
	case "ReverseOrder":
		w.randTree[o.T] = len(post[o.T].Index) >= 2
	case "Sort":
		w.randTree[o.T] = false
	case "Permute":
		if kind == K_OK {
			w.randTree[o.T] = false
		}
	case "ItBegin", "ItFrom":
		if kind == K_OK {
			w.Its[len(w.Its)-1].inRand = w.randTree[o.T]
		}
	case "ItNext":
		if cls == "stale_move_invalid" { // re-found in the current tree
			h := w.Its[o.W]
			h.inRand = w.randTree[h.vec]
		}
	}
	for _, h := range w.Its {
		uncertain := !h.stale && !h.fresh || h.stale && !h.known
		if h.inRand && uncertain && h.it.Ok() {
			h.tainted = true
		}
	}
}

func itValid(it ad.VectorConstIterator) bool {
	v, ok := ad.VerifC11ItValid(it)
	if !ok {
		Die("VerifC11ItValid: not a sparse vector iterator: %T", it)
	}
	return v
}

// exec2 runs one operation; for ItNext vb = validity observed immediately before the move
func (w *H2World) exec2(o Op) (kind int64, payload []int64, vb bool) {
	if !isItOp(o) {
		kind, payload = w.World.execOne(o)
		return
	}
	payload = []int64{}
	defer func() {
		if r := recover(); r != nil {
			kind = K_PANIC
			payload = []int64{}
		}
	}()
	switch o.Op {
	case "ItBegin":
		it := w.V[o.T].ConstIterator()
		w.Its = append(w.Its, &h2It{it: it, vec: o.T})
		payload = itObs(it)
	case "ItFrom":
		it := w.V[o.T].ConstIteratorFrom(int(o.I))
		w.Its = append(w.Its, &h2It{it: it, vec: o.T})
		payload = itObs(it)
	case "ItNext":
		h := w.Its[o.W]
		vb = itValid(h.it)
		h.it.Next()
		payload = itObs(h.it)
	case "ItGet":
		payload = itObs(w.Its[o.W].it)
	}
	return
}

// mirror2 mirrors ModelIt2.step_it2 on the status flags; returns the class of an ItNext
// ("" for other operations): exhausted | att_fresh | att_valid | att_invalid | stale_known |
// stale_move_valid | stale_move_invalid | badoracle
func (w *H2World) mirror2(o Op, kind int64, pre, post []VecObs, wasOk, vb bool) string {
	clear := func(ts []int, except *h2It) {
		for _, h := range w.Its {
			if h == except {
				continue
			}
			for _, t := range ts {
				if h.vec == t {
					h.fresh = false
				}
			}
		}
	}
	detach := func(t int, clean bool) {
		for _, h := range w.Its {
			if h.vec != t {
				continue
			}
			if h.stale {
				h.repl++
			}
			if !h.stale && h.it.Ok() {
				h.stale = true
				h.known = h.fresh && clean
				h.fresh = false
				h.repl = 1
			}
		}
	}
	moved := func(t int) []int {
		if t < len(pre) && len(pre[t].Index) == len(post[t].Index) {
			return nil
		}
		return []int{t}
	}
	switch o.Op {
	case "ItBegin", "ItFrom":
		if kind == K_OK {
			h := w.Its[len(w.Its)-1]
			clear(moved(o.T), h)
			h.fresh = len(moved(o.T)) == 0
		}
	case "ItNext":
		h := w.Its[o.W]
		if !wasOk {
			return "exhausted"
		}
		cls := ""
		att := true
		switch {
		case !h.stale && h.fresh && !vb, h.stale && h.known && !vb:
			return "badoracle" // the model leaves the world unchanged
		case !h.stale && h.fresh:
			cls = "att_fresh"
		case !h.stale && vb:
			cls = "att_valid"
		case !h.stale:
			cls = "att_invalid"
		case h.known:
			cls, att = "stale_known", false
		case vb:
			cls, att = "stale_move_valid", false
			h.known = true
		default:
			cls = "stale_move_invalid"
			h.stale, h.known = false, false
		}
		clear(moved(h.vec), h)
		h.fresh = att && len(moved(h.vec)) == 0
		return cls
	case "ItGet":
	case "ReverseOrder":
		detach(o.T, true)
	case "Sort":
		detach(o.T, noNull(pre[o.T]))
	case "Permute":
		if kind == K_OK {
			detach(o.T, true)
		} else {
			clear([]int{o.T}, nil)
		}
	default:
		clear(touches(o), nil)
	}
	return ""
}

// ---------------------------------------------------------------- Coq printing

func coqOpIt2(o Op, vb bool) string {
	switch o.Op {
	case "ItBegin":
		return fmt.Sprintf("ItBegin2 %d", o.T)
	case "ItFrom":
		return fmt.Sprintf("ItFrom2 %d %s", o.T, Z(o.I))
	case "ItNext":
		return fmt.Sprintf("ItNext2 %d %s", o.W, B(vb))
	case "ItGet":
		return fmt.Sprintf("ItGet2 %d", o.W)
	}
	return "Base2 (" + coqOp(o) + ")"
}

// coqCaseIt2: the validity bit of an ItNext is its field B
func coqCaseIt2(c Case) string {
	ops := make([]string, len(c.Ops))
	for i, o := range c.Ops {
		ops[i] = coqOpIt2(o, o.B)
	}
	outs := make([]string, len(c.Outs))
	for i, o := range c.Outs {
		outs[i] = fmt.Sprintf("(%s, %s, %s)", Z(o.K), ZList(o.P), Z(o.H))
	}
	return "(" + List(ops) + ",\n   " + List(outs) + ")"
}

const hdrIt2 = "From Coq Require Import ZArith List Bool. Import ListNotations.\nFrom ADV Require Import C11.Model C11.ModelIt C11.CorrIt C11.ModelIt2 C11.CorrIt2.\nOpen Scope Z_scope.\n"

const ruleIt2 = "histories (<= ~70 steps, 1-2 sparse vectors of dim 4..14 (+Append), values -8..8, element type drawn from all nine sparse types) with up to 6 HELD ConstIterator()/ConstIteratorFrom(i) objects; EVERY ItNext carries the bit vb = (node != nil && !node.Deleted && node.Value == value, true when exhausted) read off the implementation's private AvlIterator immediately before the move (hook VerifC11ItValid). Built in rounds aimed at the stale-iterator finding C11-STALEIT: position iterators; make them NON-fresh by in-place index edits of their vector (write zero on the cursor key and let somebody else's iteration skip()-delete it = tombstone; write zero on other keys + iterate = deletions with rebalancing / two-child deletions; inserts (SetAt / At on absent positions) around the cursor = rotations, which keep node objects and swap values; Swap) or leave them fresh; replace the index object (ReverseOrder / Sort clean or with stored zeros / Permute; one in four twice in a row); then MOVE the stale iterators several times interleaved with writes at / after their cursor, other iterators' moves, full / partial iterations, Set, JointIterator, Map, Reset, AppendVector; several rounds per history (a re-found iterator becomes stale again, a stale one sees further replacements); every history ends by draining every iterator and iterating every vector. ReverseOrder builds the new AVL tree in Go-map iteration order, so the SHAPE of that tree (and with it which node a later rotation value-swaps) differs from run to run: an iterator whose node lives in such a tree while the model does not know its validity (non-fresh attached / stale-unknown) is never moved again (only observed with ItGet), which keeps the cases a function of the seed. A case is non-trivial iff >= 1 live iterator whose index object had been replaced under it was moved; distinct = distinct (type, op list incl. observed bits)"

// ---------------------------------------------------------------- generator

type held2Stats struct {
	staleValid, staleInvalid, staleKnown, badOracle int
}

func (s held2Stats) nontrivial() bool { return s.staleValid+s.staleInvalid+s.staleKnown >= 1 }

func genNewHeld2(r *Rng) Op {
	n := r.Range(4, 14)
	var ks, xs []int64
	p := r.Range(2, 4) // density p/5
	for i := 0; i < n; i++ {
		if r.Intn(5) < p {
			ks = append(ks, int64(i))
			x := int64(r.Range(-8, 8))
			if x == 0 {
				x = 3
			}
			xs = append(xs, x)
		}
	}
	for i := len(ks) - 1; i > 0; i-- {
		j := r.Intn(i + 1)
		ks[i], ks[j] = ks[j], ks[i]
		xs[i], xs[j] = xs[j], xs[i]
	}
	return Op{Op: "New", L: ks, L2: xs, I: int64(n)}
}

func genHeld2(r *Rng, tn string, cw *CaseWriter) (Case, held2Stats) {
	var st held2Stats
	w := &H2World{World: World{Type: tn}}
	c := Case{Type: tn}
	count := func(k string) {
		if cw != nil {
			cw.Count(k)
		}
	}
	emit := func(o Op) {
		pre, _ := w.observe()
		wasOk := false
		var mover *h2It
		if o.Op == "ItNext" {
			mover = w.Its[o.W]
			wasOk = mover.it.Ok()
		}
		k, p, vb := w.exec2(o)
		post, hsh := w.observe()
		if o.Op == "ItNext" {
			o.B = vb
		}
		c.Ops = append(c.Ops, o)
		c.Outs = append(c.Outs, Out{k, p, hsh})
		repl := 0
		if mover != nil {
			repl = mover.repl
		}
		if mover != nil && wasOk && mover.tainted {
			count("generator-bug:moved-tainted")
		}
		cls := w.mirror2(o, k, pre, post, wasOk, vb)
		w.taint(o, k, post, cls)
		switch cls {
		case "":
		case "stale_move_valid":
			st.staleValid++
			count(cls)
		case "stale_move_invalid":
			st.staleInvalid++
			count(cls)
		case "stale_known":
			st.staleKnown++
			count("move:" + cls)
		case "badoracle":
			st.badOracle++
			count(cls)
		default:
			count("move:" + cls)
		}
		if strings.HasPrefix(cls, "stale") && repl >= 2 {
			count("stale-move-after>=2-replacements")
		}
		if mover != nil && wasOk && len(pre[mover.vec].Index) != len(post[mover.vec].Index) {
			count("move-with-skip-deletion:" + cls)
		}
		if cw != nil {
			cw.Count("op:" + o.Op)
			if int(k) < 3 {
				cw.Count([]string{"outcome:ok", "outcome:panic", "outcome:error"}[k])
			}
		}
	}
	// may iterator k be moved?  (exhausted: yes, a no-op)
	canMove := func(k int) bool { return !w.Its[k].it.Ok() || !w.Its[k].tainted }
	liveOn := func(t int) []int {
		var l []int
		for k, h := range w.Its {
			if h.vec == t && h.it.Ok() {
				l = append(l, k)
			}
		}
		return l
	}
	clampPos := func(x int64, d int) int64 {
		if x >= int64(d) {
			x = int64(d) - 1
		}
		if x < 0 {
			x = 0
		}
		return x
	}
	// a position of vector t, biased to the neighbourhood of a live iterator's cursor
	pos := func(t int) int64 {
		d := w.V[t].Dim()
		if d <= 0 {
			return 0
		}
		x := int64(r.Intn(d))
		if live := liveOn(t); len(live) > 0 {
			cur := int64(w.Its[live[r.Intn(len(live))]].it.Index())
			switch r.Intn(7) {
			case 0:
				x = cur
			case 1:
				x = cur + 1
			case 2:
				x = cur - 1
			case 3:
				x = cur + 2
			case 4:
				if int(cur)+1 < d {
					x = cur + 1 + int64(r.Intn(d-int(cur)-1))
				}
			}
		}
		return clampPos(x, d)
	}
	absent := func(t int) (int64, bool) {
		obs := observeVec(w.V[t])
		have := map[int64]bool{}
		for _, k := range obs.Index {
			have[k] = true
		}
		for g := 0; g < 8; g++ {
			if p := pos(t); !have[p] {
				return p, true
			}
		}
		return 0, false
	}
	nz := func() int64 {
		x := int64(r.Range(-8, 8))
		if x == 0 {
			x = 2
		}
		return x
	}
	someoneIterates := func(t int) {
		d := w.V[t].Dim()
		switch r.Intn(4) {
		case 0, 1:
			emit(Op{Op: "Iterate", T: t})
		case 2:
			emit(Op{Op: "IterFrom", T: t, I: int64(r.Range(0, d/2))})
		case 3:
			emit(Op{Op: "IterPart", T: t, I: int64(r.Range(2, 6))})
		}
	}
	newIt := func(t int) {
		if len(w.Its) >= 6 {
			return
		}
		d := w.V[t].Dim()
		if r.Intn(3) == 0 {
			emit(Op{Op: "ItBegin", T: t})
		} else if q, ok := vecAimFrom(r, func() VecObs { o, _ := w.observe(); return o[t] }()); ok && r.Bool() {
			emit(Op{Op: "ItFrom", T: t, I: q}) // started ON a pending zero (round 5)
		} else {
			emit(Op{Op: "ItFrom", T: t, I: int64(r.Range(0, d-1))})
		}
		// walk it into the vector
		k := len(w.Its) - 1
		for g := r.Intn(4); g > 0 && w.Its[k].it.Ok() && canMove(k); g-- {
			emit(Op{Op: "ItNext", W: k, T: t})
		}
	}
	// one in-place edit of the index of t aimed at the node of a live iterator
	dirty := func(t int) {
		live := liveOn(t)
		d := w.V[t].Dim()
		switch r.Pick([]int{5, 6, 3, 4, 2}) {
		case 0: // tombstone the node under a cursor
			if len(live) > 0 {
				cur := int64(w.Its[live[r.Intn(len(live))]].it.Index())
				emit(Op{Op: "SetAt", T: t, I: cur, X: 0})
				if r.Intn(5) != 0 {
					someoneIterates(t)
				}
				if r.Intn(3) == 0 { // the key comes back on a new node
					emit(Op{Op: "SetAt", T: t, I: cur, X: nz()})
				}
			}
		case 1: // inserts: rotations
			for g := r.Range(1, 3); g > 0; g-- {
				if p, ok := absent(t); ok {
					emit(Op{Op: "SetAt", T: t, I: p, X: nz()})
				}
			}
		case 2: // zero-valued key via At on an absent position (insert), deleted again by the next iteration
			if p, ok := absent(t); ok {
				emit(Op{Op: "At", T: t, I: p})
			}
			if r.Bool() {
				someoneIterates(t)
			}
		case 3: // delete other keys: rebalancing / two-child deletion
			for g := r.Range(1, 2); g > 0; g-- {
				emit(Op{Op: "SetAt", T: t, I: pos(t), X: 0})
			}
			if r.Intn(4) != 0 {
				someoneIterates(t)
			}
		case 4:
			if d > 0 {
				emit(Op{Op: "Swap", T: t, I: pos(t), J: pos(t)})
			}
		}
	}
	replace := func(t int) {
		obs, _ := w.observe()
		d := w.V[t].Dim()
		switch r.Pick([]int{4, 2, 2, 2}) {
		case 0:
			emit(Op{Op: "ReverseOrder", T: t})
			count("replace:ReverseOrder")
		case 1, 2:
			if hasDupNonzero(obs[t]) && sharesCells(obs, t) {
				emit(Op{Op: "ReverseOrder", T: t}) // unstable sort.Sort on shared equal cells: outside the model
				count("replace:ReverseOrder")
				return
			}
			unclean := false
			if r.Bool() { // stored zeros: Sort's own iteration edits the old tree before dropping it
				for g := r.Range(1, 2); g > 0; g-- {
					emit(Op{Op: "SetAt", T: t, I: pos(t), X: 0})
				}
			}
			o1 := observeVec(w.V[t])
			unclean = !noNull(o1)
			emit(Op{Op: "Sort", T: t, B: r.Bool()})
			if unclean {
				count("replace:Sort-unclean")
			} else {
				count("replace:Sort-clean")
			}
		case 3:
			if d >= 0 {
				emit(Op{Op: "Permute", T: t, L: perm(r, d)})
				count("replace:Permute")
			}
		}
	}
	moveSome := func(t int, preferStale bool) {
		var cand []int
		for k, h := range w.Its {
			if !h.it.Ok() {
				if r.Intn(6) == 0 {
					cand = append(cand, k) // Next on an exhausted iterator: no-op
				}
				continue
			}
			if h.tainted {
				continue
			}
			n := 4
			if h.vec == t {
				n += 4
			}
			if preferStale && h.stale {
				n += 12
			}
			for ; n > 0; n-- {
				cand = append(cand, k)
			}
		}
		if len(cand) > 0 {
			k := cand[r.Intn(len(cand))]
			emit(Op{Op: "ItNext", W: k, T: w.Its[k].vec})
		}
	}
	randomOp := func(t int) {
		obs, _ := w.observe()
		d := w.V[t].Dim()
		//           0   1  2  3  4  5  6  7  8  9 10 11
		wts := []int{30, 6, 18, 4, 4, 6, 3, 2, 2, 2, 2, 3}
		if d <= 0 {
			wts[2], wts[3], wts[4], wts[11] = 0, 0, 0, 0
		}
		if len(w.V) >= 4 {
			wts[10] = 0
		}
		switch r.Pick(wts) {
		case 0:
			moveSome(t, true)
		case 1:
			k := r.Intn(len(w.Its))
			emit(Op{Op: "ItGet", W: k, T: w.Its[k].vec})
		case 2:
			x := int64(0)
			if r.Bool() {
				x = int64(r.Range(-8, 8))
			}
			emit(Op{Op: "SetAt", T: t, I: pos(t), X: x})
		case 3:
			emit(Op{Op: "At", T: t, I: pos(t)})
		case 4:
			emit(Op{Op: "Swap", T: t, I: pos(t), J: pos(t)})
		case 5:
			someoneIterates(t)
		case 6:
			newIt(t)
		case 7:
			u, l := genOperand(r, &w.World, t, d)
			emit(Op{Op: "SetV", T: t, U: u, L: l})
		case 8:
			u, l := genOperand(r, &w.World, t, d)
			emit(Op{Op: "Joint", T: t, U: u, L: l})
		case 9:
			if r.Intn(3) == 0 {
				emit(Op{Op: "Reset", T: t})
			} else if maxAbsOf(obs[t])*2 <= maxAbs {
				emit(Op{Op: "MapMul", T: t, X: int64(r.Range(-1, 2))})
			}
		case 10:
			u := r.Intn(len(w.V))
			if r.Bool() {
				u, t = t, u
			}
			if w.V[t].Dim()+w.V[u].Dim() <= maxDim {
				emit(Op{Op: "AppendV", T: t, U: u})
			}
		case 11:
			emit(Op{Op: "ConstAt", T: t, I: pos(t)})
		}
	}

	nv := 1
	if r.Intn(4) == 0 {
		nv = 2
	}
	for i := 0; i < nv; i++ {
		emit(genNewHeld2(r))
	}
	rounds := r.Range(1, 3)
	budget := 64
	for round := 0; round < rounds && len(c.Ops) < budget; round++ {
		t := r.Intn(nv)
		// (B) position iterators
		for g := r.Range(1, 2); g > 0; g-- {
			newIt(t)
		}
		if len(liveOn(t)) >= 2 {
			count("round:>=2-live-iterators-on-the-vector")
		}
		// (C) make them non-fresh (one in four rounds: leave them fresh = known valid)
		nd := 0
		if r.Intn(4) != 0 {
			nd = r.Range(1, 3)
		}
		for ; nd > 0; nd-- {
			dirty(t)
		}
		if r.Intn(4) == 0 { // re-freshen one of them: its own move
			moveSome(t, false)
		}
		// (D) replace the index object
		replace(t)
		if r.Intn(4) == 0 {
			if r.Bool() {
				emit(Op{Op: "SetAt", T: t, I: pos(t), X: nz()})
			}
			replace(t)
			count("round:double-replacement")
		}
		// (E) move the stale iterators, interleaved with writes
		for g := r.Range(4, 12); g > 0 && len(c.Ops) < budget; g-- {
			if r.Intn(3) == 0 {
				moveSome(t, true)
			} else {
				randomOp(t)
			}
		}
	}
	// drain every iterator, then iterate every vector
	for k, h := range w.Its {
		for g := 0; g < 64 && h.it.Ok() && canMove(k); g++ {
			emit(Op{Op: "ItNext", W: k, T: h.vec})
		}
		if canMove(k) {
			emit(Op{Op: "ItNext", W: k, T: h.vec}) // Next on the exhausted iterator
		} else {
			emit(Op{Op: "ItGet", W: k, T: h.vec})
			count("final-tainted(not moved: validity depends on the map order in ReverseOrder)")
		}
	}
	for t := range w.V {
		emit(Op{Op: "Iterate", T: t})
	}
	return c, st
}

// executeIt2 replays a history; the bits of the ItNext operations are observed afresh
func executeIt2(c Case) (Case, held2Stats) {
	var st held2Stats
	w := &H2World{World: World{Type: c.Type}}
	ops := make([]Op, len(c.Ops))
	outs := make([]Out, 0, len(c.Ops))
	for i, o := range c.Ops {
		pre, _ := w.observe()
		wasOk := false
		if o.Op == "ItNext" {
			wasOk = w.Its[o.W].it.Ok()
		}
		k, p, vb := w.exec2(o)
		post, h := w.observe()
		if o.Op == "ItNext" {
			o.B = vb
		}
		ops[i] = o
		outs = append(outs, Out{k, p, h})
		cls := w.mirror2(o, k, pre, post, wasOk, vb)
		w.taint(o, k, post, cls)
		switch cls {
		case "stale_move_valid":
			st.staleValid++
		case "stale_move_invalid":
			st.staleInvalid++
		case "stale_known":
			st.staleKnown++
		case "badoracle":
			st.badOracle++
		}
		if os.Getenv("HELD_DEBUG") != "" {
			fmt.Fprintf(os.Stderr, "step %d %s vb=%v\n", i, o.Op, vb)
			for t := range post {
				fmt.Fprintf(os.Stderr, "   vec %d: %v\n", t, post[t].Flat)
			}
			for q, h := range w.Its {
				info, _ := ad.VerifC11ItState(h.it)
				fmt.Fprintf(os.Stderr, "   it %d: %v stale=%v known=%v fresh=%v tainted=%v node=%+v\n", q, itObs(h.it), h.stale, h.known, h.fresh, h.tainted, info)
			}
		}
	}
	return Case{Type: c.Type, Ops: ops, Outs: outs}, st
}

// ---------------------------------------------------------------- main

func held2Main(o Opts) {
	arg := ""
	if i := strings.Index(o.Extra, ":"); i >= 0 {
		arg = o.Extra[i+1:]
	}
	if o.Replay != "" {
		b, err := os.ReadFile(o.Replay)
		if err != nil {
			Die("%v", err)
		}
		var rp struct {
			Case Case `json:"case"`
		}
		if err := json.Unmarshal(b, &rp); err != nil {
			Die("%v", err)
		}
		if !wellFormedIt(rp.Case.Ops) {
			Die("replay: history names a vector / iterator that does not exist")
		}
		c, _ := executeIt2(rp.Case)
		w := NewCaseWriter(o.Out, "held2replay", hdrIt2, "mism_it2", 1000)
		w.Type = "case_it2"
		w.Add(coqCaseIt2(c), c, "replay", true)
		w.Flush()
		return
	}
	w := NewCaseWriter(o.Out, "held2", hdrIt2, "mism_it2", 10)
	w.Type = "case_it2"
	w.Rule = ruleIt2
	for _, k := range []string{"stale_move_valid", "stale_move_invalid", "badoracle"} {
		w.CountN(k, 0)
	}
	if arg != "" {
		for _, c0 := range readCorpus(arg) {
			if !wellFormedIt(c0.Ops) {
				Die("corpus: history names a vector / iterator that does not exist: %v", c0.Ops)
			}
			c, st := executeIt2(c0)
			w.Add(coqCaseIt2(c), c, "corpus:"+fmt.Sprint(c.Ops), true)
			w.Count("corpus")
			w.CountN("corpus:stale_move_valid", st.staleValid)
			w.CountN("corpus:stale_move_invalid", st.staleInvalid)
			w.CountN("badoracle", st.badOracle)
		}
	}
	// NewRng(s) and NewRng(s+1) are the same SplitMix sequence shifted by one draw: mix the seed once,
	// otherwise seed s+1 replays the histories of seed s (shifted by one case)
	rng := NewRng(NewRng(o.Seed + 32452843).U64())
	for k := 0; k < o.N; k++ {
		tn := typeNames[k%len(typeNames)]
		if k%2 == 0 {
			tn = typeNames[(k/2)%3]
		}
		c, st := genHeld2(rng.Split(), tn, w)
		w.Add(coqCaseIt2(c), c, tn+fmt.Sprint(c.Ops), st.nontrivial())
		w.Count("type:" + tn)
		if st.staleValid > 0 && st.staleInvalid > 0 {
			w.Count("case:both-bits-on-stale-iterators")
		}
		if st.staleValid > 0 {
			w.Count("case:with-stale_move_valid")
		}
		if st.staleInvalid > 0 {
			w.Count("case:with-stale_move_invalid")
		}
	}
	if err := w.Flush(); err != nil {
		Die("%v", err)
	}
}
