// (round 7) Two hunt streams on the implementation, all nine dense element types:
//
//  "vprod": dense matrix-vector products r.MdotV(a, b) / r.VdotM(b, a) and the concrete twins
//     MDOTV / VDOTM whose receiver r and vector operand b are slices of ONE vector: same start with
//     equal lengths, r a PREFIX of b, b a PREFIX of r (non-square matrix), disjoint, or separate
//     vectors.  Same first cell: the API must reject the call with its EXPLICIT panic (a string,
//     not a runtime error) whatever the two lengths are — coq/C08/Props.v: mdotv_prefix_slice_rejected,
//     vdotm_prefix_slice_rejected; without the rejection the result is wrong (mdotv_guard_needed_on_prefix_slice).
//     Disjoint / separate: the result equals the call on a fresh receiver and cloned operands.
//
//  "tip": matrix products whose receiver is a factor AFTER the in-place transpose Tip() of a
//     NON-SQUARE matrix (r.Tip(); r.MdotM(a, r) | r.MdotM(r, b), generic and concrete twin).  The
//     Real matrices carry per-matrix buffers tmp1 / tmp2 whose lengths follow the shape; the aliased
//     call must give what a fresh receiver gives on clones of the operands — in particular it must
//     not die with a runtime error (slice bounds) which is not an API rejection.
package main

import (
	"fmt"
	"runtime"

	. "adharness/common"

	ad "github.com/pbenner/autodiff"
)

type VPCase struct {
	Kind string    `json:"kind"` // vprod | tip
	Typ  string    `json:"typ"`
	Call string    `json:"call"` // MdotV VdotM MDOTV VDOTM | MdotM MDOTM
	Pat  string    `json:"pat"`
	N, M int       // shape of the matrix operand (vprod) / of the receiver BEFORE Tip (tip)
	Off  int       `json:"off"`
	Mat  []float64 `json:"mat"` // n*m entries (vprod: the matrix; tip: the receiver before Tip)
	Vec  []float64 `json:"vec"` // vprod: the shared vector; tip: the other (square) factor
}

// outcome of a guarded call: 0 returned, 1 explicit panic (the API's own panic(string)), 2 runtime error
func guarded(f func()) (kind int, msg string) {
	defer func() {
		if r := recover(); r != nil {
			if _, ok := r.(runtime.Error); ok {
				kind, msg = 2, fmt.Sprint(r)
			} else {
				kind, msg = 1, fmt.Sprint(r)
			}
		}
	}()
	f()
	return 0, ""
}

var outcomeName = []string{"returns", "explicit panic", "RUNTIME ERROR"}

func vpVector(typ string, v []float64) ad.Vector {
	x := ad.NullDenseVector(spScalarType(typ), len(v))
	for i := range v {
		x.At(i).SetFloat64(v[i])
	}
	return x
}
func vpMatrix(typ string, v []float64, n, m int) ad.Matrix {
	x := ad.NullDenseMatrix(spScalarType(typ), n, m)
	for i := 0; i < n; i++ {
		for j := 0; j < m; j++ {
			x.At(i, j).SetFloat64(v[i*m+j])
		}
	}
	return x
}
func vpReadV(v ad.ConstVector) []float64 {
	out := make([]float64, v.Dim())
	for i := range out {
		out[i] = v.ConstAt(i).GetFloat64()
	}
	return out
}
func vpReadM(a ad.ConstMatrix) []float64 {
	n, m := a.Dims()
	var out []float64
	for i := 0; i < n; i++ {
		for j := 0; j < m; j++ {
			out = append(out, a.ConstAt(i, j).GetFloat64())
		}
	}
	return out
}

func mdotvConcrete(r ad.Vector, a ad.Matrix, b ad.Vector) {
	switch rr := r.(type) {
	case ad.DenseFloat64Vector:
		rr.MDOTV(a.(*ad.DenseFloat64Matrix), b.(ad.DenseFloat64Vector))
	case ad.DenseFloat32Vector:
		rr.MDOTV(a.(*ad.DenseFloat32Matrix), b.(ad.DenseFloat32Vector))
	case ad.DenseReal64Vector:
		rr.MDOTV(a.(*ad.DenseReal64Matrix), b.(ad.DenseReal64Vector))
	case ad.DenseReal32Vector:
		rr.MDOTV(a.(*ad.DenseReal32Matrix), b.(ad.DenseReal32Vector))
	case ad.DenseIntVector:
		rr.MDOTV(a.(*ad.DenseIntMatrix), b.(ad.DenseIntVector))
	case ad.DenseInt64Vector:
		rr.MDOTV(a.(*ad.DenseInt64Matrix), b.(ad.DenseInt64Vector))
	case ad.DenseInt32Vector:
		rr.MDOTV(a.(*ad.DenseInt32Matrix), b.(ad.DenseInt32Vector))
	case ad.DenseInt16Vector:
		rr.MDOTV(a.(*ad.DenseInt16Matrix), b.(ad.DenseInt16Vector))
	case ad.DenseInt8Vector:
		rr.MDOTV(a.(*ad.DenseInt8Matrix), b.(ad.DenseInt8Vector))
	default:
		panic(fmt.Errorf("no MDOTV for %T", r))
	}
}
func vdotmConcrete(r ad.Vector, a ad.Vector, b ad.Matrix) {
	switch rr := r.(type) {
	case ad.DenseFloat64Vector:
		rr.VDOTM(a.(ad.DenseFloat64Vector), b.(*ad.DenseFloat64Matrix))
	case ad.DenseFloat32Vector:
		rr.VDOTM(a.(ad.DenseFloat32Vector), b.(*ad.DenseFloat32Matrix))
	case ad.DenseReal64Vector:
		rr.VDOTM(a.(ad.DenseReal64Vector), b.(*ad.DenseReal64Matrix))
	case ad.DenseReal32Vector:
		rr.VDOTM(a.(ad.DenseReal32Vector), b.(*ad.DenseReal32Matrix))
	case ad.DenseIntVector:
		rr.VDOTM(a.(ad.DenseIntVector), b.(*ad.DenseIntMatrix))
	case ad.DenseInt64Vector:
		rr.VDOTM(a.(ad.DenseInt64Vector), b.(*ad.DenseInt64Matrix))
	case ad.DenseInt32Vector:
		rr.VDOTM(a.(ad.DenseInt32Vector), b.(*ad.DenseInt32Matrix))
	case ad.DenseInt16Vector:
		rr.VDOTM(a.(ad.DenseInt16Vector), b.(*ad.DenseInt16Matrix))
	case ad.DenseInt8Vector:
		rr.VDOTM(a.(ad.DenseInt8Vector), b.(*ad.DenseInt8Matrix))
	default:
		panic(fmt.Errorf("no VDOTM for %T", r))
	}
}
func mdotmConcreteAll(r, a, b ad.Matrix) {
	switch rr := r.(type) {
	case *ad.DenseInt64Matrix:
		rr.MDOTM(a.(*ad.DenseInt64Matrix), b.(*ad.DenseInt64Matrix))
	case *ad.DenseInt16Matrix:
		rr.MDOTM(a.(*ad.DenseInt16Matrix), b.(*ad.DenseInt16Matrix))
	case *ad.DenseInt8Matrix:
		rr.MDOTM(a.(*ad.DenseInt8Matrix), b.(*ad.DenseInt8Matrix))
	default:
		mdotmConcrete(r, a, b)
	}
}

// lengths of receiver and vector operand, and where they start in the shared vector
func (c *VPCase) layout() (rl, bl, ro, bo, total int, shared bool) {
	rl, bl = c.N, c.M // MdotV: r has n entries, b has m
	if c.Call == "VdotM" || c.Call == "VDOTM" {
		rl, bl = c.M, c.N
	}
	switch c.Pat {
	case "same-start":
		return rl, bl, c.Off, c.Off, c.Off + imax(rl, bl) + 1, true
	case "disjoint":
		return rl, bl, c.Off, c.Off + rl, c.Off + rl + bl, true
	}
	return rl, bl, 0, 0, 0, false
}

func (c *VPCase) vprodCall(r ad.Vector, a ad.Matrix, b ad.Vector) {
	switch c.Call {
	case "MdotV":
		r.MdotV(a, b)
	case "VdotM":
		r.VdotM(b, a)
	case "MDOTV":
		mdotvConcrete(r, a, b)
	default:
		vdotmConcrete(r, b, a)
	}
}

func vpOracle(c *VPCase) *HuntHit {
	if c.Kind == "tip" {
		return tipOracle(c)
	}
	rl, bl, ro, bo, total, shared := c.layout()
	a := vpMatrix(c.Typ, c.Mat, c.N, c.M)
	var r, b ad.Vector
	if shared {
		v := vpVector(c.Typ, c.Vec[:total])
		r, b = v.Slice(ro, ro+rl), v.Slice(bo, bo+bl)
	} else {
		r, b = vpVector(c.Typ, c.Vec[:rl]), vpVector(c.Typ, c.Vec[rl:rl+bl])
	}
	// fresh receiver, cloned operands
	fr := ad.NullDenseVector(spScalarType(c.Typ), rl)
	fa, fb := a.CloneMatrix(), b.CloneVector()
	kf, mf := guarded(func() { c.vprodCall(fr, fa, fb) })
	ka, ma := guarded(func() { c.vprodCall(r, a, b) })
	site := "vprod:" + c.Pat
	fail := ""
	if c.Pat == "same-start" {
		if ka != 1 {
			fail = fmt.Sprintf("receiver and vector operand start at the same cell (lengths %d and %d): the call must be rejected with the API's explicit panic, but it %s %s; receiver afterwards %v, fresh receiver on clones %v",
				rl, bl, outcomeName[ka], ma, vpReadV(r), vpReadV(fr))
		}
	} else if ka != kf {
		fail = fmt.Sprintf("aliased call %s %s, fresh receiver %s %s", outcomeName[ka], ma, outcomeName[kf], mf)
	} else if ka == 0 {
		x, y := vpReadV(r), vpReadV(fr)
		for i := range x {
			if !feq(x[i], y[i]) {
				fail = fmt.Sprintf("aliased call leaves %v, fresh receiver on clones holds %v", x, y)
				break
			}
		}
	}
	if fail == "" {
		return nil
	}
	cc := *c
	return &HuntHit{Site: site, VP: &cc, Failure: fmt.Sprintf("%s.%s, element type %s, matrix %dx%d, pattern %s (offset %d): %s", "r", c.Call, c.Typ, c.N, c.M, c.Pat, c.Off, fail)}
}

// r (n x m) is transposed in place, then used as receiver AND factor of a product
func tipOracle(c *VPCase) *HuntHit {
	n, m := c.N, c.M
	r := vpMatrix(c.Typ, c.Mat, n, m)
	if c.Pat == "T-then-Tip" { // a transposed view: Tip only clears the flag
		r = r.T()
		n, m = m, n
	}
	k1, m1 := guarded(func() { r.Tip() })
	if k1 != 0 {
		cc := *c
		return &HuntHit{Site: "tip:Tip", VP: &cc, Failure: "Tip() " + outcomeName[k1] + " " + m1}
	}
	n, m = m, n // r is now n x m
	var a, b ad.Matrix
	var fa, fb ad.Matrix
	if c.Call == "MdotM:r=b" || c.Call == "MDOTM:r=b" {
		a = vpMatrix(c.Typ, c.Vec[:n*n], n, n) // (n x n) . (n x m)
		b = r
		fa, fb = a.CloneMatrix(), r.CloneMatrix()
	} else {
		b = vpMatrix(c.Typ, c.Vec[:m*m], m, m) // (n x m) . (m x m)
		a = r
		fa, fb = r.CloneMatrix(), b.CloneMatrix()
	}
	fr := ad.NullDenseMatrix(spScalarType(c.Typ), n, m)
	call := func(r, a, b ad.Matrix) func() {
		return func() {
			if c.Call[:5] == "MDOTM" {
				mdotmConcreteAll(r, a, b)
			} else {
				r.MdotM(a, b)
			}
		}
	}
	kf, mf := guarded(call(fr, fa, fb))
	ka, ma := guarded(call(r, a, b))
	fail := ""
	if ka != kf {
		fail = fmt.Sprintf("aliased call %s %s, fresh receiver %s %s", outcomeName[ka], ma, outcomeName[kf], mf)
	} else if ka == 0 {
		x, y := vpReadM(r), vpReadM(fr)
		for i := range x {
			if !feq(x[i], y[i]) {
				fail = fmt.Sprintf("aliased call leaves %v, fresh receiver on clones holds %v", x, y)
				break
			}
		}
	} else if ka == 2 {
		fail = "both calls die with a runtime error: " + ma
	}
	if fail == "" {
		return nil
	}
	cc := *c
	return &HuntHit{Site: "tip:" + c.Call[6:], VP: &cc, Failure: fmt.Sprintf("%dx%d matrix r of element type %s, %s, then r.%s: %s", c.N, c.M, c.Typ, c.Pat, c.Call, fail)}
}

// deterministic enumeration (shapes x patterns x calls x types); values from the seed
func vpCases(seed uint64) []*VPCase {
	r := NewRng(seed*31 + 4711)
	vals := func(k int) []float64 {
		v := make([]float64, k)
		for i := range v {
			v[i] = float64(r.Range(1, 3))
			if r.Intn(4) == 0 {
				v[i] = -v[i]
			}
		}
		return v
	}
	var out []*VPCase
	for _, typ := range spTypes {
		for _, call := range []string{"MdotV", "VdotM", "MDOTV", "VDOTM"} {
			for n := 1; n <= 3; n++ {
				for m := 1; m <= 3; m++ {
					for _, pat := range []string{"same-start", "disjoint", "separate"} {
						out = append(out, &VPCase{Kind: "vprod", Typ: typ, Call: call, Pat: pat, N: n, M: m, Off: r.Intn(2), Mat: vals(n * m), Vec: vals(n + m + 3)})
					}
				}
			}
		}
		for _, call := range []string{"MdotM:r=b", "MdotM:r=a", "MDOTM:r=b", "MDOTM:r=a"} {
			for n := 1; n <= 3; n++ {
				for m := 1; m <= 3; m++ {
					for _, pat := range []string{"Tip", "T-then-Tip"} {
						out = append(out, &VPCase{Kind: "tip", Typ: typ, Call: call, Pat: pat, N: n, M: m, Mat: vals(n * m), Vec: vals(9)})
					}
				}
			}
		}
	}
	return out
}

func vpHunt(seed uint64, out *huntOut, add func(HuntHit)) {
	for _, c := range vpCases(seed) {
		site := c.Kind + ":" + c.Pat
		if c.Kind == "tip" {
			site = "tip:" + c.Call[6:]
		}
		st := out.BySite[site]
		st[0]++
		out.Points++
		if c.Pat != "separate" {
			out.Aliased++
		}
		if h := vpOracle(c); h != nil {
			if h.Site == site {
				st[1]++
			}
			add(*h)
		}
		out.BySite[site] = st
	}
}
