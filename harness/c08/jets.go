// (4) Real64 / Real32 matrix products whose entries CARRY DERIVATIVES (order 1 or 2 over two
// variables): the generic path computes every entry with fresh scratch scalars
// (t2.Reset(); t1.Mul(a_ik, b_kj); t2.Add(t2, t1); t3[i].Set(t2); r.At(i, j).Set(t3[i])), so
// when the buffered schedule is right the alias-safety of the scalar steps lifts to the whole
// jet of every entry.  Hunt only: aliased call (r == a | r == b | r a disjoint view of an operand's
// backing array) against a fresh receiver on cloned operands; value, gradient and Hessian of
// every entry are compared.
package main

import (
	"fmt"

	. "adharness/common"

	ad "github.com/pbenner/autodiff"
)

type JetCase struct {
	Pat   string      `json:"pat"`
	Kind  int         `json:"kind"`
	Conc  bool        `json:"conc"`
	N     int         `json:"n"` // square matrices n x n
	A, B  []RegSnap   `json:"-"`
	AJ    [][]float64 `json:"a"` // value, order, then gradient / Hessian flattened (for the report only)
	Seed  uint64      `json:"seed"`
	Index int         `json:"index"`
}

func jetMatrix(kind int, es []RegSnap, n int) ad.Matrix {
	var m ad.Matrix
	if kind == K32 {
		m = ad.NullDenseReal32Matrix(n, n)
	} else {
		m = ad.NullDenseReal64Matrix(n, n)
	}
	for i := 0; i < n; i++ {
		for j := 0; j < n; j++ {
			m.At(i, j).Set(restore(es[i*n+j]))
		}
	}
	return m
}
func jetRead(m ad.ConstMatrix) []RegSnap {
	n, k := m.Dims()
	var out []RegSnap
	for i := 0; i < n; i++ {
		for j := 0; j < k; j++ {
			out = append(out, normOf(snap(m.ConstAt(i, j))))
		}
	}
	return out
}

// getterEq: every getter (value, GetDerivative, GetHessian over the variables) returns the same; Order may differ
func getterEq(x, y RegSnap) bool {
	if !feq(x.Val, y.Val) {
		return false
	}
	n := imax(x.N, y.N)
	d := func(g RegSnap, i int) float64 {
		if g.Order >= 1 && i < len(g.D) {
			return g.D[i]
		}
		return 0
	}
	h := func(g RegSnap, i, j int) float64 {
		if g.Order >= 2 && i < len(g.H) && j < len(g.H[i]) {
			return g.H[i][j]
		}
		return 0
	}
	for i := 0; i < n; i++ {
		if d(x, i) != d(y, i) {
			return false
		}
		for j := 0; j < n; j++ {
			if h(x, i, j) != h(y, i, j) {
				return false
			}
		}
	}
	return true
}

// runs one jet case; returns (equal, description); orderOnly: the entries differ in Order / N only
func jetRun(kind int, pat string, conc bool, n int, A, B []RegSnap) (ok bool, why string, orderOnly bool) {
	ok, why, orderOnly = jetRun0(kind, pat, conc, n, A, B)
	return
}
func jetRun0(kind int, pat string, conc bool, n int, A, B []RegSnap) (bool, string, bool) {
	call := func(r, a, b ad.Matrix) (p bool) {
		defer func() {
			if recover() != nil {
				p = true
			}
		}()
		if conc {
			mdotmConcrete(r, a, b)
		} else {
			r.MdotM(a, b)
		}
		return false
	}
	a, b := jetMatrix(kind, A, n), jetMatrix(kind, B, n)
	fa, fb := jetMatrix(kind, A, n), jetMatrix(kind, B, n)
	var fr ad.Matrix
	if kind == K32 {
		fr = ad.NullDenseReal32Matrix(n, n)
	} else {
		fr = ad.NullDenseReal64Matrix(n, n)
	}
	pf := call(fr, fa, fb)
	var r ad.Matrix
	switch pat {
	case "r=a":
		r = a
	case "r=b":
		r = b
	default: // "r,b-disjoint-same-storage": r and b are the two row blocks of one 2n x n parent
		var p ad.Matrix
		if kind == K32 {
			p = ad.NullDenseReal32Matrix(2*n, n)
		} else {
			p = ad.NullDenseReal64Matrix(2*n, n)
		}
		r = p.Slice(0, n, 0, n)
		b = p.Slice(n, 2*n, 0, n)
		for i := 0; i < n; i++ {
			for j := 0; j < n; j++ {
				b.At(i, j).Set(restore(B[i*n+j]))
				r.At(i, j).Set(restore(A[(i*n+j+1)%(n*n)])) // stale content
			}
		}
	}
	pa := call(r, a, b)
	if pa != pf {
		return false, fmt.Sprintf("aliased call panics: %v, fresh receiver panics: %v", pa, pf), false
	}
	if pa {
		return true, "", false
	}
	x, y := jetRead(r), jetRead(fr)
	bad, badStrict := "", ""
	for k := range x {
		if !getterEq(x[k], y[k]) && bad == "" {
			bad = fmt.Sprintf("entry %d: aliased %s, fresh %s", k, regStr(x[k], 0), regStr(y[k], 0))
		}
		if !snapEq(x[k], y[k]) && badStrict == "" {
			badStrict = fmt.Sprintf("entry %d: aliased %s, fresh %s", k, regStr(x[k], 0), regStr(y[k], 0))
		}
	}
	if bad != "" {
		return false, bad, false
	}
	if badStrict != "" {
		return false, badStrict, true
	}
	return true, "", false
}

func jetCase(seed uint64, index int) (kind int, pat string, conc bool, n int, A, B []RegSnap, uniform bool) {
	r := NewRng(seed*7919 + uint64(index))
	kind = []int{K64, K64, K32}[r.Intn(3)]
	pat = []string{"r=a", "r=b", "r,b-disjoint-same-storage"}[index%3]
	conc = r.Intn(3) == 0
	n = r.Range(1, 3)
	uniform = r.Intn(4) != 0
	o := r.Range(1, 2)
	for k := 0; k < 2*n*n; k++ {
		s := shp{o, 2}
		if !uniform {
			s = []shp{{0, 0}, {1, 2}, {2, 2}}[r.Intn(3)]
		}
		e := mkReg(r, kind, float64(r.Range(-4, 4))/2, s)
		if k < n*n {
			A = append(A, e)
		} else {
			B = append(B, e)
		}
	}
	return
}

func jetHunt(seed uint64, count int, out *huntOut, add func(HuntHit)) {
	for k := 0; k < count; k++ {
		kind, pat, conc, n, A, B, uniform := jetCase(seed, k)
		ok, why, orderOnly := jetRun(kind, pat, conc, n, A, B)
		site := "MdotM-jets:" + pat
		if !ok && !orderOnly && !uniform {
			// entries of mixed Order: t2.Add(t2, t1) with the accumulator t2 of LOWER Order than the product t1
			// reallocates t2 and drops the partial sum's derivatives (F-ALLOC inside the product) — unless t2 still
			// has the higher Order from the PREVIOUS entry; so the gradients depend on the visiting sequence, which
			// differs between the column-buffered (aliased) and the row-buffered (fresh) schedule
			site = "MdotM-jets:mixed-order-entries"
		}
		if orderOnly {
			// t2.Reset() keeps the scratch scalar's Order, so the Order of an entry depends on which entry was
			// computed before it, i.e. on the schedule (column- vs row-buffered): all getters agree
			site = "MdotM-jets:entry-order-depends-on-schedule"
		}
		st := out.BySite[site]
		st[0]++
		out.Points++
		out.Aliased++
		if !ok {
			st[1]++
			add(HuntHit{Site: site, Jet: &JetRef{Seed: seed, Index: k}, Failure: fmt.Sprintf("MdotM on %dx%d matrices of derivative-carrying scalars (kind %d, concrete %v), %s: %s", n, n, kind, conc, pat, why)})
		}
		out.BySite[site] = st
	}
}

type JetRef struct {
	Seed  uint64 `json:"seed"`
	Index int    `json:"index"`
}
