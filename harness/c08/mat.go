// Matrix / vector calls on shared storage: parents are full dense matrices
// (DenseFloat64Matrix / DenseReal64Matrix) or dense float vectors with small
// integer entries (products are exact, so the Z model of coq/C10/Model.v and
// coq/C08/Model.v replays them exactly); receiver and operands are views
// (Slice / T chains, sub-slices) of the parents chosen by alias pattern.
package main

import (
	"fmt"

	. "adharness/common"

	ad "github.com/pbenner/autodiff"
)

type ViewOp struct {
	T          bool `json:"t,omitempty"`
	R0, R1, C0, C1 int
}
type MView struct {
	Parent int      `json:"p"`
	Ops    []ViewOp `json:"ops"`
}
type VView struct {
	Parent   int `json:"p"`
	Off, Len int
}
type Parent struct {
	IsVec      bool      `json:"vec,omitempty"`
	Rows, Cols int
	Vals       []float64 `json:"vals"`
}
type MatCase struct {
	Call    string   `json:"call"` // MdotM | MDOTM | Ew | VEw | MdotV | VdotM
	Real    bool     `json:"real"`
	Typ     string   `json:"typ,omitempty"` // element type of the matrices: "" (Float64 / Real64 by Real) | int | int32 | float32 | real32
	F       int      `json:"f"` // element-wise: 0 add 1 sub 2 mul
	Pat     string   `json:"pat"`
	Conc    bool     `json:"conc,omitempty"` // MdotV / VdotM: call the concrete-typed twin MDOTV / VDOTM (round 7)
	Parents []Parent `json:"parents"`
	MR, MA, MB MView
	VR, VA, VB VView
	// outcome
	Panic bool        `json:"panic"`
	Post  [][]float64 `json:"post"`
	Hdr   [3][]int    `json:"hdr"` // headers of the matrix views as the library built them
}

type world struct {
	mats []ad.Matrix
	vecs []ad.DenseFloat64Vector
}

func buildWorld(c *MatCase) *world {
	w := &world{mats: make([]ad.Matrix, len(c.Parents)), vecs: make([]ad.DenseFloat64Vector, len(c.Parents))}
	for i, p := range c.Parents {
		v := append([]float64{}, p.Vals...)
		if p.IsVec {
			w.vecs[i] = ad.NewDenseFloat64Vector(v)
		} else {
			w.mats[i] = newMatOf(c, v, p.Rows, p.Cols)
		}
	}
	return w
}

// newMatOf: a dense matrix of the case's element type (the storageLocation() test and both buffered
// schedules are generated per instantiation: every one is tied to the same Coq model)
func newMatOf(c *MatCase, v []float64, rows, cols int) ad.Matrix {
	switch c.Typ {
	case "int":
		x := make([]int, len(v))
		for i := range v {
			x[i] = int(v[i])
		}
		return ad.NewDenseIntMatrix(x, rows, cols)
	case "int32":
		x := make([]int32, len(v))
		for i := range v {
			x[i] = int32(v[i])
		}
		return ad.NewDenseInt32Matrix(x, rows, cols)
	case "float32":
		x := make([]float32, len(v))
		for i := range v {
			x[i] = float32(v[i])
		}
		return ad.NewDenseFloat32Matrix(x, rows, cols)
	case "real32":
		x := make([]float32, len(v))
		for i := range v {
			x[i] = float32(v[i])
		}
		return ad.NewDenseReal32Matrix(x, rows, cols)
	}
	if c.Real {
		return ad.NewDenseReal64Matrix(v, rows, cols)
	}
	return ad.NewDenseFloat64Matrix(v, rows, cols)
}
func nullMatOf(c *MatCase, n, m int) ad.Matrix { return newMatOf(c, make([]float64, n*m), n, m) }

// mdotmConcrete calls the concrete-typed twin MDOTM of the receiver's type.
func mdotmConcrete(r, a, b ad.Matrix) {
	switch rr := r.(type) {
	case *ad.DenseReal64Matrix:
		rr.MDOTM(a.(*ad.DenseReal64Matrix), b.(*ad.DenseReal64Matrix))
	case *ad.DenseReal32Matrix:
		rr.MDOTM(a.(*ad.DenseReal32Matrix), b.(*ad.DenseReal32Matrix))
	case *ad.DenseFloat64Matrix:
		rr.MDOTM(a.(*ad.DenseFloat64Matrix), b.(*ad.DenseFloat64Matrix))
	case *ad.DenseFloat32Matrix:
		rr.MDOTM(a.(*ad.DenseFloat32Matrix), b.(*ad.DenseFloat32Matrix))
	case *ad.DenseIntMatrix:
		rr.MDOTM(a.(*ad.DenseIntMatrix), b.(*ad.DenseIntMatrix))
	case *ad.DenseInt32Matrix:
		rr.MDOTM(a.(*ad.DenseInt32Matrix), b.(*ad.DenseInt32Matrix))
	default:
		panic("no MDOTM")
	}
}
func (w *world) mview(v MView) ad.Matrix {
	m := w.mats[v.Parent]
	for _, o := range v.Ops {
		if o.T {
			m = m.T()
		} else {
			m = m.Slice(o.R0, o.R1, o.C0, o.C1)
		}
	}
	return m
}
func (w *world) vview(v VView) ad.DenseFloat64Vector { return w.vecs[v.Parent][v.Off : v.Off+v.Len] }
func (w *world) heap(c *MatCase) [][]float64 {
	h := make([][]float64, len(c.Parents))
	for i, p := range c.Parents {
		if p.IsVec {
			h[i] = append([]float64{}, w.vecs[i]...)
		} else {
			h[i] = []float64{}
			for a := 0; a < p.Rows; a++ {
				for b := 0; b < p.Cols; b++ {
					h[i] = append(h[i], w.mats[i].ConstAt(a, b).GetFloat64())
				}
			}
		}
	}
	return h
}

func hdrOf(m ad.ConstMatrix) []int {
	h, _ := ad.VerifC10Header(m)
	t := 0
	if h.Transposed {
		t = 1
	}
	return []int{h.Rows, h.Cols, h.RowOffset, h.RowMax, h.ColOffset, h.ColMax, t}
}

// call executes the case on the library (panics recovered).
func (c *MatCase) exec() {
	w := buildWorld(c)
	func() {
		defer func() {
			if r := recover(); r != nil {
				c.Panic = true
			}
		}()
		switch c.Call {
		case "MdotM", "MDOTM", "Ew":
			r, a, b := w.mview(c.MR), w.mview(c.MA), w.mview(c.MB)
			if sameView(c.MR, c.MA) {
				a = r
			}
			if sameView(c.MR, c.MB) {
				b = r
			} else if sameView(c.MA, c.MB) {
				b = a
			}
			c.Hdr = [3][]int{hdrOf(r), hdrOf(a), hdrOf(b)}
			switch c.Call {
			case "MdotM":
				r.MdotM(a, b)
			case "MDOTM":
				mdotmConcrete(r, a, b)
			default:
				switch c.F {
				case 0:
					r.MaddM(a, b)
				case 1:
					r.MsubM(a, b)
				default:
					r.MmulM(a, b)
				}
			}
		case "VEw":
			r, a, b := w.vview(c.VR), w.vview(c.VA), w.vview(c.VB)
			switch c.F {
			case 0:
				r.VaddV(a, b)
			case 1:
				r.VsubV(a, b)
			default:
				r.VmulV(a, b)
			}
		case "MdotV":
			a := w.mview(c.MA)
			c.Hdr[1] = hdrOf(a)
			c.mdotv(w.vview(c.VR), a, w.vview(c.VB))
		case "VdotM":
			b := w.mview(c.MB)
			c.Hdr[2] = hdrOf(b)
			c.vdotm(w.vview(c.VR), w.vview(c.VA), b)
		}
	}()
	if !c.Panic {
		c.Post = w.heap(c)
	}
}

// the generic call or (Conc) the concrete-typed twin
func (c *MatCase) mdotv(r ad.DenseFloat64Vector, a ad.Matrix, b ad.DenseFloat64Vector) {
	if c.Conc {
		r.MDOTV(a.(*ad.DenseFloat64Matrix), b)
	} else {
		r.MdotV(a, b)
	}
}
func (c *MatCase) vdotm(r ad.DenseFloat64Vector, a ad.DenseFloat64Vector, b ad.Matrix) {
	if c.Conc {
		r.VDOTM(a, b.(*ad.DenseFloat64Matrix))
	} else {
		r.VdotM(a, b)
	}
}

func sameView(a, b MView) bool {
	if a.Parent != b.Parent || len(a.Ops) != len(b.Ops) {
		return false
	}
	for i := range a.Ops {
		if a.Ops[i] != b.Ops[i] {
			return false
		}
	}
	return true
}

// ---------------------------------------------------------------- header arithmetic (mirror of SLICE / T, used to print the model's headers
// when the library panics before the harness could read them)
type hdr struct{ rows, cols, ro, rm, co, cm int; t bool }

func (c *MatCase) hdrCalc(v MView) hdr {
	p := c.Parents[v.Parent]
	h := hdr{p.Rows, p.Cols, 0, p.Rows, 0, p.Cols, false}
	for _, o := range v.Ops {
		if o.T {
			h = hdr{h.cols, h.rows, h.co, h.cm, h.ro, h.rm, !h.t}
		} else {
			h.ro += o.R0
			h.rows = o.R1 - o.R0
			h.co += o.C0
			h.cols = o.C1 - o.C0
		}
	}
	return h
}
func (h hdr) list() []int {
	t := 0
	if h.t {
		t = 1
	}
	return []int{h.rows, h.cols, h.ro, h.rm, h.co, h.cm, t}
}

// storage cells a matrix view touches (indices into its parent's storage)
func (h hdr) cells() map[int]bool {
	s := map[int]bool{}
	for i := 0; i < h.rows; i++ {
		for j := 0; j < h.cols; j++ {
			if h.t {
				s[(h.co+j)*h.rm+(h.ro+i)] = true
			} else {
				s[(h.ro+i)*h.cm+(h.co+j)] = true
			}
		}
	}
	return s
}
func overlap(a, b map[int]bool) bool {
	for k := range a {
		if b[k] {
			return true
		}
	}
	return false
}

func coqMat(loc int, h []int) string {
	t := "false"
	if h[6] == 1 {
		t = "true"
	}
	return fmt.Sprintf("(mkDense %d%%nat %s %s %s %s %s %s %s)", loc, ZI(h[0]), ZI(h[1]), ZI(h[2]), ZI(h[3]), ZI(h[4]), ZI(h[5]), t)
}
func coqVec(v VView) string { return fmt.Sprintf("(mkVec %d%%nat %s %s)", v.Parent, ZI(v.Off), ZI(v.Len)) }
func coqHeap(h [][]float64) string {
	rows := make([]string, len(h))
	for i, s := range h {
		z := make([]int64, len(s))
		for j, x := range s {
			z[j] = int64(x)
		}
		rows[i] = ZList(z)
	}
	return List(rows)
}
func (c *MatCase) Coq() string {
	pre := make([][]float64, len(c.Parents))
	for i, p := range c.Parents {
		pre[i] = p.Vals
	}
	real := "false"
	if c.Real || c.Typ == "real32" {
		real = "true"
	}
	hs := [3][]int{c.hdrCalc(c.MR).list(), c.hdrCalc(c.MA).list(), c.hdrCalc(c.MB).list()}
	for i := range hs { // prefer what the library built
		if c.Hdr[i] != nil {
			hs[i] = c.Hdr[i]
		}
	}
	var call string
	switch c.Call {
	case "MdotM", "MDOTM":
		call = fmt.Sprintf("(CMdotM %s %s %s %s)", real, coqMat(c.MR.Parent, hs[0]), coqMat(c.MA.Parent, hs[1]), coqMat(c.MB.Parent, hs[2]))
	case "Ew":
		call = fmt.Sprintf("(CEw %s %d %s %s %s)", real, c.F, coqMat(c.MR.Parent, hs[0]), coqMat(c.MA.Parent, hs[1]), coqMat(c.MB.Parent, hs[2]))
	case "VEw":
		call = fmt.Sprintf("(CVEw %d %s %s %s)", c.F, coqVec(c.VR), coqVec(c.VA), coqVec(c.VB))
	case "MdotV":
		call = fmt.Sprintf("(CMdotV %s %s %s)", coqVec(c.VR), coqMat(c.MA.Parent, hs[1]), coqVec(c.VB))
	case "VdotM":
		call = fmt.Sprintf("(CVdotM %s %s %s)", coqVec(c.VR), coqVec(c.VA), coqMat(c.MB.Parent, hs[2]))
	}
	out := "None"
	if !c.Panic {
		out = "(Some " + coqHeap(c.Post) + ")"
	}
	return fmt.Sprintf("(mkM %s %s %s)", coqHeap(pre), call, out)
}

// ---------------------------------------------------------------- generator
func intVals(r *Rng, n int) []float64 {
	v := make([]float64, n)
	for i := range v {
		v[i] = float64(r.Range(-4, 5))
	}
	return v
}

// a random view of an R x C parent with the wanted dimensions (rows x cols), possibly transposed
func randView(r *Rng, parent int, R, C, rows, cols int, allowT bool) (MView, bool) {
	t := allowT && r.Intn(3) == 0
	pr, pc := rows, cols
	if t {
		pr, pc = cols, rows
	}
	if pr > R || pc > C {
		if t {
			t = false
			pr, pc = rows, cols
		}
		if pr > R || pc > C {
			return MView{}, false
		}
	}
	r0, c0 := r.Range(0, R-pr), r.Range(0, C-pc)
	v := MView{Parent: parent}
	if !(r0 == 0 && c0 == 0 && pr == R && pc == C) || r.Intn(2) == 0 {
		v.Ops = append(v.Ops, ViewOp{R0: r0, R1: r0 + pr, C0: c0, C1: c0 + pc})
	}
	if t {
		v.Ops = append(v.Ops, ViewOp{T: true})
	}
	return v, true
}

var matPatterns = []string{"none", "r=a", "r=b", "r=a=b", "a=b", "r=bT", "r=aT", "r=a,b-same-storage", "r=b,a-same-storage",
	"r,a-disjoint-same-storage", "r,b-disjoint-same-storage", "r-overlaps-a", "r-overlaps-b", "r=a,b=aT"}

func genMdotM(r *Rng, pat string, real, conc bool) (*MatCase, bool) {
	c := &MatCase{Call: "MdotM", Real: real, Pat: pat}
	if conc {
		c.Call = "MDOTM"
	}
	n, k, m := r.Range(1, 3), r.Range(1, 3), r.Range(1, 3)
	sq := r.Range(1, 3)
	newParent := func(R, C int) int {
		c.Parents = append(c.Parents, Parent{Rows: R, Cols: C, Vals: intVals(r, R*C)})
		return len(c.Parents) - 1
	}
	big := func(x int) int { return x + r.Range(0, 2) }
	ok := true
	get := func(p, rows, cols int, allowT bool) MView {
		v, o := randView(r, p, c.Parents[p].Rows, c.Parents[p].Cols, rows, cols, allowT)
		if !o {
			ok = false
		}
		return v
	}
	switch pat {
	case "none":
		c.MR = get(newParent(big(n), big(m)), n, m, true)
		c.MA = get(newParent(big(n), big(k)), n, k, true)
		c.MB = get(newParent(big(k), big(m)), k, m, true)
	case "r=a": // k = m
		c.MR = get(newParent(big(n), big(m)), n, m, true)
		c.MA = c.MR
		c.MB = get(newParent(big(m), big(m)), m, m, true)
	case "r=b": // n = k
		c.MR = get(newParent(big(n), big(m)), n, m, true)
		c.MB = c.MR
		c.MA = get(newParent(big(n), big(n)), n, n, true)
	case "r=a=b":
		c.MR = get(newParent(big(sq), big(sq)), sq, sq, true)
		c.MA, c.MB = c.MR, c.MR
	case "a=b":
		c.MR = get(newParent(big(sq), big(sq)), sq, sq, true)
		c.MA = get(newParent(big(sq), big(sq)), sq, sq, true)
		c.MB = c.MA
	case "r=bT", "r=aT":
		p := newParent(big(sq), big(sq))
		c.MR = get(p, sq, sq, true)
		tv := MView{Parent: p, Ops: append(append([]ViewOp{}, c.MR.Ops...), ViewOp{T: true})}
		o := get(newParent(big(sq), big(sq)), sq, sq, true)
		if pat == "r=bT" {
			c.MB, c.MA = tv, o
		} else {
			c.MA, c.MB = tv, o
		}
	case "r=a,b=aT":
		c.MR = get(newParent(big(sq), big(sq)), sq, sq, true)
		c.MA = c.MR
		c.MB = MView{Parent: c.MR.Parent, Ops: append(append([]ViewOp{}, c.MR.Ops...), ViewOp{T: true})}
	case "r=a,b-same-storage", "r=b,a-same-storage", "r,a-disjoint-same-storage", "r,b-disjoint-same-storage":
		// two disjoint row blocks of one parent
		p := newParent(2*sq+r.Range(0, 1), big(sq))
		C := c.Parents[p].Cols
		c0 := r.Range(0, C-sq)
		top := MView{Parent: p, Ops: []ViewOp{{R0: 0, R1: sq, C0: c0, C1: c0 + sq}}}
		bot := MView{Parent: p, Ops: []ViewOp{{R0: sq, R1: 2 * sq, C0: c0, C1: c0 + sq}}}
		if r.Intn(2) == 0 {
			top, bot = bot, top
		}
		o := get(newParent(big(sq), big(sq)), sq, sq, true)
		switch pat {
		case "r=a,b-same-storage":
			c.MR, c.MA, c.MB = top, top, bot
		case "r=b,a-same-storage":
			c.MR, c.MB, c.MA = top, top, bot
		case "r,a-disjoint-same-storage":
			c.MR, c.MA, c.MB = top, bot, o
		default:
			c.MR, c.MB, c.MA = top, bot, o
		}
	case "r-overlaps-a", "r-overlaps-b":
		sq = r.Range(2, 3)
		p := newParent(sq+1, sq+1)
		v1 := MView{Parent: p, Ops: []ViewOp{{R0: 0, R1: sq, C0: 0, C1: sq}}}
		dr, dc := r.Range(0, 1), r.Range(0, 1)
		if dr == 0 && dc == 0 {
			dr = 1
		}
		v2 := MView{Parent: p, Ops: []ViewOp{{R0: dr, R1: dr + sq, C0: dc, C1: dc + sq}}}
		if r.Intn(2) == 0 {
			v1, v2 = v2, v1
		}
		o := get(newParent(big(sq), big(sq)), sq, sq, true)
		if pat == "r-overlaps-a" {
			c.MR, c.MA, c.MB = v1, v2, o
		} else {
			c.MR, c.MB, c.MA = v1, v2, o
		}
	}
	if !ok {
		return nil, false
	}
	if r.Intn(25) == 0 { // dimension mismatch stream
		c.Pat = "dims"
		c.MB = MView{Parent: c.MB.Parent, Ops: append(append([]ViewOp{}, c.MB.Ops...), ViewOp{T: true})}
	}
	return c, true
}

func genEw(r *Rng, real bool) *MatCase {
	c := &MatCase{Call: "Ew", Real: real, F: r.Intn(3)}
	n, m := r.Range(1, 3), r.Range(1, 3)
	p := func(R, C int) int {
		c.Parents = append(c.Parents, Parent{Rows: R, Cols: C, Vals: intVals(r, R*C)})
		return len(c.Parents) - 1
	}
	v := func(pi int, t bool) MView {
		x, _ := randView(r, pi, c.Parents[pi].Rows, c.Parents[pi].Cols, n, m, t)
		return x
	}
	pats := []string{"none", "r=a", "r=b", "r=a=b", "r-shift-a", "r=aT", "r,a-disjoint-same-storage", "r,a,b-disjoint-same-storage"}
	c.Pat = pats[r.Intn(len(pats))]
	switch c.Pat {
	case "none":
		c.MR, c.MA, c.MB = v(p(n+1, m+1), true), v(p(n+1, m), true), v(p(n, m+1), true)
	case "r=a":
		c.MR = v(p(n+1, m+1), true)
		c.MA, c.MB = c.MR, v(p(n, m), true)
	case "r=b":
		c.MR = v(p(n+1, m+1), true)
		c.MB, c.MA = c.MR, v(p(n, m), true)
	case "r=a=b":
		c.MR = v(p(n+1, m+1), true)
		c.MA, c.MB = c.MR, c.MR
	case "r-shift-a":
		pi := p(n+1, m+1)
		d := [][2]int{{0, 1}, {1, 0}, {1, 1}}[r.Intn(3)]
		v1 := MView{Parent: pi, Ops: []ViewOp{{R0: 0, R1: n, C0: 0, C1: m}}}
		v2 := MView{Parent: pi, Ops: []ViewOp{{R0: d[0], R1: d[0] + n, C0: d[1], C1: d[1] + m}}}
		if r.Intn(2) == 0 {
			v1, v2 = v2, v1
		}
		c.MR, c.MA, c.MB = v1, v2, v(p(n, m), true)
	case "r,a-disjoint-same-storage", "r,a,b-disjoint-same-storage":
		// row blocks of one parent: r, a (and b) are pairwise disjoint views of the same backing array
		pi := p(3*n, m+1)
		c0 := r.Range(0, 1)
		blk := func(k int) MView { return MView{Parent: pi, Ops: []ViewOp{{R0: k * n, R1: (k + 1) * n, C0: c0, C1: c0 + m}}} }
		ord := [][3]int{{0, 1, 2}, {1, 0, 2}, {2, 1, 0}, {1, 2, 0}}[r.Intn(4)]
		c.MR, c.MA = blk(ord[0]), blk(ord[1])
		if c.Pat == "r,a,b-disjoint-same-storage" {
			c.MB = blk(ord[2])
		} else {
			c.MB = v(p(n, m), true)
		}
	case "r=aT":
		n = m
		pi := p(n+1, n+1)
		c.MR, _ = randView(r, pi, n+1, n+1, n, n, false)
		c.MA = MView{Parent: pi, Ops: append(append([]ViewOp{}, c.MR.Ops...), ViewOp{T: true})}
		c.MB, _ = randView(r, p(n, n), n, n, n, n, true)
	}
	return c
}

func genVec(r *Rng) *MatCase {
	c := &MatCase{}
	vp := func(n int) int {
		c.Parents = append(c.Parents, Parent{IsVec: true, Rows: n, Vals: intVals(r, n)})
		return len(c.Parents) - 1
	}
	switch r.Intn(4) {
	case 0, 1:
		c.Call, c.F = "VEw", r.Intn(3)
		n := r.Range(1, 4)
		pats := []string{"none", "r=a", "r=b", "r=a=b", "r-left-of-a", "r-right-of-a", "r-right-of-b"}
		c.Pat = pats[r.Intn(len(pats))]
		p := vp(n + 3)
		q := vp(n + 1)
		q2 := vp(n)
		o := r.Range(0, 1)
		d := r.Range(1, 2)
		switch c.Pat {
		case "none":
			c.VR, c.VA, c.VB = VView{p, o, n}, VView{q, 1, n}, VView{q2, 0, n}
		case "r=a":
			c.VR, c.VA, c.VB = VView{p, o, n}, VView{p, o, n}, VView{q2, 0, n}
		case "r=b":
			c.VR, c.VB, c.VA = VView{p, o, n}, VView{p, o, n}, VView{q2, 0, n}
		case "r=a=b":
			c.VR, c.VA, c.VB = VView{p, o, n}, VView{p, o, n}, VView{p, o, n}
		case "r-left-of-a":
			c.VR, c.VA, c.VB = VView{p, o, n}, VView{p, o + d, n}, VView{q2, 0, n}
		case "r-right-of-a":
			c.VR, c.VA, c.VB = VView{p, o + d, n}, VView{p, o, n}, VView{q2, 0, n}
		default:
			c.VR, c.VB, c.VA = VView{p, o + d, n}, VView{p, o, n}, VView{q2, 0, n}
		}
		if r.Intn(20) == 0 {
			c.Pat = "dims"
			c.VB.Len--
		}
	default:
		pats := []string{"none", "r=b", "r-shift-b", "r,b-disjoint", "r-prefix-of-b", "b-prefix-of-r"}
		c.Pat = pats[r.Intn(len(pats))]
		rl, bl := r.Range(1, 3), r.Range(1, 3)
		switch c.Pat { // round 7: same first cell, DIFFERENT lengths (non-square matrix): the rejection must not depend on the lengths
		case "r-prefix-of-b":
			rl = r.Range(1, 2)
			bl = r.Range(rl+1, 3)
		case "b-prefix-of-r":
			bl = r.Range(1, 2)
			rl = r.Range(bl+1, 3)
		}
		c.Conc = r.Intn(3) == 0
		isV := r.Intn(2) == 0
		n, m := rl, bl
		if isV {
			n, m = bl, rl
		}
		c.Parents = append(c.Parents, Parent{Rows: n + 1, Cols: m + 1, Vals: intVals(r, (n+1)*(m+1))})
		mv, _ := randView(r, 0, n+1, m+1, n, m, true)
		c.Call, c.MA = "MdotV", mv
		if isV {
			c.Call, c.MB = "VdotM", mv
		}
		var vr, vb VView
		switch c.Pat {
		case "none":
			vr, vb = VView{vp(rl + 1), 1, rl}, VView{vp(bl + 1), 0, bl}
		case "r=b", "r-prefix-of-b", "b-prefix-of-r":
			o := r.Range(0, 1)
			p := vp(rl + bl + 1)
			vr, vb = VView{p, o, rl}, VView{p, o, bl}
		case "r-shift-b":
			p := vp(rl + bl + 2)
			vr, vb = VView{p, 1, rl}, VView{p, 0, bl}
			if r.Intn(2) == 0 {
				vr, vb = VView{p, 0, rl}, VView{p, 1, bl}
			}
		default:
			p := vp(rl + bl)
			vr, vb = VView{p, 0, rl}, VView{p, rl, bl}
		}
		c.VR = vr
		if c.Call == "MdotV" {
			c.VB = vb
		} else {
			c.VA = vb
		}
	}
	return c
}

// ---------------------------------------------------------------- the property's own observable
// aliased call vs. the same call on a fresh receiver and cloned operands (all in separate storage)
func (c *MatCase) freshReference() (post []float64, panicked bool) {
	w := buildWorld(c)
	defer func() {
		if r := recover(); r != nil {
			panicked = true
		}
	}()
	switch c.Call {
	case "MdotM", "MDOTM", "Ew":
		a, b := w.mview(c.MA).CloneMatrix(), w.mview(c.MB).CloneMatrix()
		rv := w.mview(c.MR)
		n, m := rv.Dims()
		r := nullMatOf(c, n, m)
		switch c.Call {
		case "MdotM", "MDOTM":
			r.MdotM(a, b)
		default:
			switch c.F {
			case 0:
				r.MaddM(a, b)
			case 1:
				r.MsubM(a, b)
			default:
				r.MmulM(a, b)
			}
		}
		for i := 0; i < n; i++ {
			for j := 0; j < m; j++ {
				post = append(post, r.ConstAt(i, j).GetFloat64())
			}
		}
	case "VEw":
		a, b := w.vview(c.VA).Clone(), w.vview(c.VB).Clone()
		r := ad.NullDenseFloat64Vector(c.VR.Len)
		switch c.F {
		case 0:
			r.VaddV(a, b)
		case 1:
			r.VsubV(a, b)
		default:
			r.VmulV(a, b)
		}
		post = append(post, r...)
	case "MdotV":
		r := ad.NullDenseFloat64Vector(c.VR.Len)
		r.MdotV(w.mview(c.MA).CloneMatrix(), w.vview(c.VB).Clone())
		post = append(post, r...)
	case "VdotM":
		r := ad.NullDenseFloat64Vector(c.VR.Len)
		r.VdotM(w.vview(c.VA).Clone(), w.mview(c.MB).CloneMatrix())
		post = append(post, r...)
	}
	return post, false
}

// aliasedResult reads the receiver after the aliased call.
func (c *MatCase) aliasedResult() (post []float64, panicked bool) {
	w := buildWorld(c)
	defer func() {
		if r := recover(); r != nil {
			panicked = true
		}
	}()
	switch c.Call {
	case "MdotM", "MDOTM", "Ew":
		r, a, b := w.mview(c.MR), w.mview(c.MA), w.mview(c.MB)
		if sameView(c.MR, c.MA) {
			a = r
		}
		if sameView(c.MR, c.MB) {
			b = r
		} else if sameView(c.MA, c.MB) {
			b = a
		}
		switch c.Call {
		case "MdotM":
			r.MdotM(a, b)
		case "MDOTM":
			mdotmConcrete(r, a, b)
		default:
			switch c.F {
			case 0:
				r.MaddM(a, b)
			case 1:
				r.MsubM(a, b)
			default:
				r.MmulM(a, b)
			}
		}
		n, m := r.Dims()
		for i := 0; i < n; i++ {
			for j := 0; j < m; j++ {
				post = append(post, r.ConstAt(i, j).GetFloat64())
			}
		}
	case "VEw":
		r := w.vview(c.VR)
		a, b := w.vview(c.VA), w.vview(c.VB)
		switch c.F {
		case 0:
			r.VaddV(a, b)
		case 1:
			r.VsubV(a, b)
		default:
			r.VmulV(a, b)
		}
		post = append(post, r...)
	case "MdotV":
		r := w.vview(c.VR)
		c.mdotv(r, w.mview(c.MA), w.vview(c.VB))
		post = append(post, r...)
	case "VdotM":
		r := w.vview(c.VR)
		c.vdotm(r, w.vview(c.VA), w.mview(c.MB))
		post = append(post, r...)
	}
	return post, false
}

// safe: the alias patterns the theorems of coq/C08/Props.v cover (result must equal the fresh call);
// everything else is characterised by the model only.
func (c *MatCase) site() (site string, safe bool) {
	switch c.Call {
	case "MdotM", "MDOTM":
		hr, ha, hb := c.hdrCalc(c.MR), c.hdrCalc(c.MA), c.hdrCalc(c.MB)
		ra := c.MR.Parent == c.MA.Parent && overlap(hr.cells(), ha.cells())
		rb := c.MR.Parent == c.MB.Parent && overlap(hr.cells(), hb.cells())
		ea, eb := hr == ha && c.MR.Parent == c.MA.Parent, hr == hb && c.MR.Parent == c.MB.Parent
		switch {
		case !ra && !rb:
			return "MdotM:no-overlap", true
		case ea && eb:
			return "MdotM:r=a=b", false
		case ea && !rb && c.MR.Parent != c.MB.Parent:
			return "MdotM:r=a", true
		case eb && !ra:
			return "MdotM:r=b", true
		}
		return "MdotM:shared-storage-view", false
	case "Ew":
		hr, ha, hb := c.hdrCalc(c.MR), c.hdrCalc(c.MA), c.hdrCalc(c.MB)
		okA := !(c.MR.Parent == c.MA.Parent && overlap(hr.cells(), ha.cells())) || hr == ha
		okB := !(c.MR.Parent == c.MB.Parent && overlap(hr.cells(), hb.cells())) || hr == hb
		if okA && okB {
			return "Ew:identical-or-disjoint", true
		}
		return "Ew:overlapping-view", false
	case "VEw":
		ok := func(x VView) bool {
			return x.Parent != c.VR.Parent || x.Off >= c.VR.Off || x.Off+x.Len <= c.VR.Off
		}
		if ok(c.VA) && ok(c.VB) {
			return "VEw:r-not-right-of-operand", true
		}
		return "VEw:r-right-of-operand", false
	default:
		x := c.VB
		if c.Call == "VdotM" {
			x = c.VA
		}
		if x.Parent != c.VR.Parent || x.Off+x.Len <= c.VR.Off || c.VR.Off+c.VR.Len <= x.Off {
			return c.Call + ":disjoint", true
		}
		if x.Off == c.VR.Off {
			return c.Call + ":rejected", true // both must panic... the fresh call does not: handled by the caller
		}
		return c.Call + ":shifted-overlap", false
	}
}
