// Alias scenarios for the scalar operations: every operation x every alias
// pattern of receiver / operands / temporaries x operand orders {0,1,2}^2 x N.
// The same enumeration feeds
//   - the correspondence (single-step bit-exact replay by the Coq model, C01.Corr.check), and
//   - the hunt: the property's own observable on the implementation — the aliased
//     call against the same call issued on a FRESH receiver with CLONED operands.
package main

import (
	"fmt"
	"math"

	. "adharness/common"

	ad "github.com/pbenner/autodiff"
)

type adScalar = ad.ConstScalar

// register ids of a scenario
const (
	rX = 0 // first operand
	rY = 1 // second operand
	rR = 2 // a separate receiver
	rT = 3 // temporary
	rB = 4 // plain (non-magic) operand
	rF = 9 // the fresh receiver of the reference call
)

type Scen struct {
	Op    string          `json:"op"`
	Pat   string          `json:"pat"` // e.g. "c=x,a=x,b=y"
	Kind  int             `json:"kind"`
	Shape string          `json:"shape"` // "ox,nx|oy,ny|recv"
	Regs  map[int]RegSnap `json:"regs"`
	Ins   Instr           `json:"ins"`
}

func (s *Scen) key() string { return s.Op + "|" + s.Pat + "|" + s.Shape + fmt.Sprintf("|k%d", s.Kind) }

type pattern struct {
	name       string
	c, a, b, t int
}

var monPatterns = []pattern{{"c=r,a=x", rR, rX, 0, rT}, {"c=x,a=x", rX, rX, 0, rT}}
var dyPatterns = []pattern{
	{"c=r,a=x,b=y", rR, rX, rY, rT}, {"c=x,a=x,b=y", rX, rX, rY, rT}, {"c=y,a=x,b=y", rY, rX, rY, rT},
	{"c=x,a=x,b=x", rX, rX, rX, rT}, {"c=r,a=x,b=x", rR, rX, rX, rT},
	{"c=x,a=x,b=const", rX, rX, rB, rT}, {"c=x,a=const,b=x", rX, rB, rX, rT}}

// temporaries aliased with operands (the scratch argument of LogAdd / LogSub / Sigmoid)
var tmpPatternsDy = []pattern{{"c=r,a=x,b=y,t=x", rR, rX, rY, rX}, {"c=r,a=x,b=y,t=y", rR, rX, rY, rY}, {"c=x,a=x,b=y,t=y", rX, rX, rY, rY}}
var tmpPatternsMon = []pattern{{"c=r,a=x,t=x", rR, rX, 0, rX}}

type opSpec struct {
	name string
	ar   int       // 1 or 2 operands
	tmp  bool      // takes a temporary
	vals []float64 // representative first-operand values (one per branch)
	par  float64
	k    int
}

var scalarOps = []opSpec{
	{"Neg", 1, false, []float64{1.25}, 0, 0}, {"Sin", 1, false, []float64{0.75}, 0, 0}, {"Sinh", 1, false, []float64{0.75}, 0, 0},
	{"Cos", 1, false, []float64{0.75}, 0, 0}, {"Cosh", 1, false, []float64{0.75}, 0, 0}, {"Tan", 1, false, []float64{0.75}, 0, 0},
	{"Tanh", 1, false, []float64{0.75}, 0, 0}, {"Exp", 1, false, []float64{0.75}, 0, 0}, {"Log", 1, false, []float64{1.75}, 0, 0},
	{"Log1p", 1, false, []float64{0.75}, 0, 0}, {"Erf", 1, false, []float64{0.75}, 0, 0}, {"Erfc", 1, false, []float64{0.75}, 0, 0},
	{"LogErfc", 1, false, []float64{0.75}, 0, 0}, {"Gamma", 1, false, []float64{2.75}, 0, 0}, {"Lgamma", 1, false, []float64{2.75}, 0, 0},
	{"Mlgamma", 1, false, []float64{2.75}, 0, 2}, {"GammaP", 1, false, []float64{1.75}, 1.5, 0}, {"BesselI", 1, false, []float64{1.75}, 1, 0},
	{"LogBesselI", 1, false, []float64{1.75}, 1, 0}, {"Sqrt", 1, false, []float64{1.75}, 0, 0},
	{"Log1pExp", 1, false, []float64{-40, 3, 20, 33.3, 40}, 0, 0}, {"Logistic", 1, false, []float64{0.75}, 0, 0},
	{"Sigmoid", 1, true, []float64{-1.5, 0, 2}, 0, 0}, {"Abs", 1, false, []float64{-2, 0, 3}, 0, 0}, {"Set", 1, false, []float64{1.25}, 0, 0},
	{"Add", 2, false, []float64{1.25}, 0, 0}, {"Sub", 2, false, []float64{1.25}, 0, 0}, {"Mul", 2, false, []float64{1.25}, 0, 0},
	{"Div", 2, false, []float64{1.25}, 0, 0}, {"Pow", 2, false, []float64{1.25}, 0, 0},
	{"Min", 2, false, []float64{1.25, 4.5}, 0, 0}, {"Max", 2, false, []float64{1.25, 4.5}, 0, 0},
	{"LogAdd", 2, true, []float64{1.25, 4.5, math.Inf(-1)}, 0, 0}, {"LogSub", 2, true, []float64{4.5}, 0, 0},
}

// operand shapes: (Order, N)
type shp struct{ o, n int }

func shapesFor(o int, ns []int) []shp {
	if o == 0 {
		return []shp{{0, 0}}
	}
	r := []shp{}
	for _, n := range ns {
		r = append(r, shp{o, n})
	}
	return r
}

// mkReg builds a magic register of the given shape with non-trivial derivative content.
func mkReg(r *Rng, kind int, v float64, s shp) RegSnap {
	q := func() float64 { // small dyadic rationals: exact in binary32 as well
		x := float64(r.Range(-6, 6)) / 4
		if x == 0 {
			x = 0.5
		}
		return x
	}
	g := RegSnap{Kind: kind, Val: r32(kind, v), Order: s.o, N: s.n, D: []float64{}, H: [][]float64{}}
	if s.o >= 1 {
		for i := 0; i < s.n; i++ {
			g.D = append(g.D, q())
		}
	}
	if s.o >= 2 {
		for i := 0; i < s.n; i++ {
			g.H = append(g.H, make([]float64, s.n))
		}
		for i := 0; i < s.n; i++ {
			for j := i; j < s.n; j++ {
				g.H[i][j] = q()
				g.H[j][i] = g.H[i][j]
			}
		}
	}
	return g
}

// enumerate all scenarios (deterministic for a seed: only the derivative contents are random)
func scenarios(seed uint64, full bool) []Scen {
	r := NewRng(seed ^ 0xC08)
	var out []Scen
	for _, op := range scalarOps {
		pats := monPatterns
		if op.ar == 2 {
			pats = dyPatterns
		}
		if op.tmp {
			if op.ar == 2 {
				pats = append(append([]pattern{}, pats...), tmpPatternsDy...)
			} else {
				pats = append(append([]pattern{}, pats...), tmpPatternsMon...)
			}
		}
		for _, kind := range []int{K64, K32} {
			for _, pat := range pats {
				for ox := 0; ox <= 2; ox++ {
					for oy := 0; oy <= 2; oy++ {
						if op.ar == 1 && oy != 0 {
							continue
						}
						for _, sx := range shapesFor(ox, []int{1, 2}) {
							for _, sy := range shapesFor(oy, []int{1, 2}) {
								if op.ar == 1 {
									sy = shp{0, 0}
								}
								for vi, v := range op.vals {
									// receiver prior states for a separate receiver: fresh | stale storage of the result's shape | other shape
									recvs := []string{"fresh"}
									if pat.c == rR {
										recvs = []string{"fresh", "stale", "other"}
									}
									for _, rv := range recvs {
										if !full && rv != "fresh" && (vi != 0 || kind == K32) {
											continue
										}
										sc := Scen{Op: op.name, Pat: pat.name, Kind: kind, Regs: map[int]RegSnap{}}
										sc.Shape = fmt.Sprintf("%d,%d|%d,%d|%s|v%d", sx.o, sx.n, sy.o, sy.n, rv, vi)
										yv := 2.5
										if op.name == "Min" || op.name == "Max" || op.name == "LogAdd" {
											yv = 3.0
										}
										if op.name == "LogSub" {
											yv = 1.5
										}
										sc.Regs[rX] = mkReg(r, kind, v, sx)
										sc.Regs[rY] = mkReg(r, kind, yv, sy)
										mo, mn := sx.o, sx.n
										if op.ar == 2 {
											if sy.o > mo {
												mo = sy.o
											}
											if sy.n > mn {
												mn = sy.n
											}
										}
										switch rv {
										case "fresh":
											sc.Regs[rR] = RegSnap{Kind: kind, D: []float64{}, H: [][]float64{}}
										case "stale":
											sc.Regs[rR] = mkReg(r, kind, 7, shp{mo, mn})
										default:
											sc.Regs[rR] = mkReg(r, kind, 7, shp{(mo + 1) % 3, mn + 1})
										}
										sc.Regs[rT] = RegSnap{Kind: kind, D: []float64{}, H: [][]float64{}}
										sc.Regs[rB] = RegSnap{Kind: KBare, Val: 2.5, D: []float64{}, H: [][]float64{}}
										sc.Ins = Instr{Op: op.name, C: pat.c, A: pat.a, B: pat.b, Par: op.par, K: op.k}
										if op.tmp {
											sc.Ins.T = []int{pat.t}
										}
										out = append(out, sc)
										// the concrete-typed twin (NEG, ADD, ..., LOGADD) where all arguments are magic
										if concTwin[op.name] && pat.a != rB && (op.ar == 1 || pat.b != rB) && rv == "fresh" {
											cc := sc
											cc.Pat = sc.Pat + ",concrete"
											cc.Ins.Conc = true
											out = append(out, cc)
										}
									}
								}
							}
						}
					}
				}
			}
		}
	}
	// exotic shapes: a constant (Order 0) that still has N > 0, and N = 0 at Order >= 1
	for _, op := range []string{"Add", "Mul", "Exp", "Set"} {
		for _, pat := range dyPatterns[:5] {
			for _, sx := range []shp{{0, 2}, {1, 0}, {2, 0}} {
				for _, sy := range []shp{{1, 1}, {1, 2}, {2, 2}, {0, 0}} {
					sc := Scen{Op: op, Pat: pat.name, Kind: K64, Regs: map[int]RegSnap{}}
					sc.Shape = fmt.Sprintf("%d,%d|%d,%d|exotic", sx.o, sx.n, sy.o, sy.n)
					sc.Regs[rX] = mkReg(r, K64, 1.25, sx)
					sc.Regs[rY] = mkReg(r, K64, 2.5, sy)
					sc.Regs[rR] = RegSnap{Kind: K64, D: []float64{}, H: [][]float64{}}
					sc.Regs[rT] = RegSnap{Kind: K64, D: []float64{}, H: [][]float64{}}
					sc.Regs[rB] = RegSnap{Kind: KBare, Val: 2.5, D: []float64{}, H: [][]float64{}}
					sc.Ins = Instr{Op: op, C: pat.c, A: pat.a, B: pat.b}
					if op == "Exp" || op == "Set" {
						if pat.b != rY {
							continue
						}
					}
					out = append(out, sc)
				}
			}
		}
	}
	return out
}

func (s *Scen) restoreAll() map[int]adScalar {
	regs := map[int]adScalar{}
	for id, g := range s.Regs {
		if g.Kind == KBare {
			regs[id] = ad.ConstFloat64(g.Val)
		} else {
			regs[id] = restore(g)
		}
	}
	return regs
}

// caseOf executes the scenario on the library and records the single-step case.
func caseOf(s *Scen) Case {
	p := &prog{regs: s.restoreAll(), kinds: map[int]int{}}
	for id, g := range s.Regs {
		p.kinds[id] = g.Kind
	}
	return stepCaseV(p, s.Ins)
}

// stepCaseV is stepCase with the alias-aware value-level shadow (vshadow) for the oracle.
func stepCaseV(p *prog, in Instr) Case {
	in.ParJ = JF(in.Par)
	ids := in.regsUsed()
	sortInts(ids[1:])
	mat := prepRed(p.regs, &in) // Mtrace / Mnorm: the element registers become the matrix's own elements
	pre := make([]RegSnap, len(ids))
	prem := map[int]RegSnap{}
	for i, id := range ids {
		pre[i] = snap(p.regs[id])
		prem[id] = pre[i]
	}
	o := &Orc{}
	func() {
		defer func() { recover() }()
		vshadow(o, &in, prem)
	}()
	kind := execRed(p.regs, &in, mat)
	post := make([]RegSnap, len(ids))
	for i, id := range ids {
		post[i] = snap(p.regs[id])
	}
	return Case{Ids: ids, Pre: pre, Ins: in, Orc: o.ents, Kind: kind, Post: post, Frame: true}
}

func sortInts(a []int) {
	for i := 1; i < len(a); i++ {
		for j := i; j > 0 && a[j-1] > a[j]; j-- {
			a[j-1], a[j] = a[j], a[j-1]
		}
	}
}

// ---------------------------------------------------------------- alias-aware oracle logging
// vshadow replays the instruction at the VALUE level on a register file of
// values (ids, so aliasing is what it is in Go), as the sequence of elementary
// method calls of the Go body, and logs every libm / special call on the way.
type vopd struct {
	id  int
	imm float64
	isI bool
}

func vr(id int) vopd       { return vopd{id: id} }
func vi(v float64) vopd    { return vopd{imm: v, isI: true} }

type vfile struct {
	o    *Orc
	val  map[int]float64
	kind map[int]int
	ord  map[int]int
	par  float64
	k    int
}

func (f *vfile) get(x vopd) float64 {
	if x.isI {
		return x.imm
	}
	return f.val[x.id]
}
func (f *vfile) order(x vopd) int {
	if x.isI {
		return 0
	}
	return f.ord[x.id]
}
func (f *vfile) put(c int, v float64, ord int) {
	f.val[c] = r32(f.kind[c], v)
	f.ord[c] = ord
}
func imax(a, b int) int {
	if a > b {
		return a
	}
	return b
}
func (f *vfile) mon(op string, c int, a vopd) {
	v, _, _ := monRef(f.o, op, f.par, f.k, f.get(a))
	f.put(c, v, f.order(a))
}
func (f *vfile) dy(op string, c int, a, b vopd) {
	v, _, _, _, _, _ := dyRef(f.o, op, f.get(a), f.get(b))
	f.put(c, v, imax(f.order(a), f.order(b)))
}
func (f *vfile) pow(c int, a, k vopd) {
	if f.order(k) >= 1 {
		f.dy("PowV", c, a, k)
	} else {
		v, _, _ := monRef(f.o, "PowC", f.get(k), 0, f.get(a))
		f.put(c, v, f.order(a))
	}
}
func (f *vfile) set(c int, a vopd) { f.put(c, f.get(a), f.order(a)) }
func (f *vfile) cmpv(k int, v float64) float64 { return r32(k, v) }

func vshadow(o *Orc, in *Instr, pre map[int]RegSnap) {
	f := &vfile{o: o, val: map[int]float64{}, kind: map[int]int{}, ord: map[int]int{}, par: in.Par, k: in.K}
	for id, g := range pre {
		f.val[id], f.kind[id], f.ord[id] = g.Val, g.Kind, g.Order
	}
	c := in.C
	a, b := vr(in.A), vr(in.B)
	kindOf := func(x vopd) int {
		if x.isI {
			return KBare
		}
		return f.kind[x.id]
	}
	switch in.Op {
	case "Add", "Sub", "Mul", "Div":
		f.dy(in.Op, c, a, b)
	case "Pow":
		f.pow(c, a, b)
	case "Sqrt":
		f.pow(c, a, vi(0.5))
	case "Set":
		f.set(c, a)
	case "Reset", "SetFloat64", "SetVariable":
	case "Min":
		kc := f.kind[c]
		if f.cmpv(kc, f.get(a)) < f.cmpv(kc, f.get(b)) {
			f.set(c, a)
		} else {
			f.set(c, b)
		}
	case "Max":
		kc := f.kind[c]
		if f.cmpv(kc, f.get(b)) < f.cmpv(kc, f.get(a)) {
			f.set(c, a)
		} else {
			f.set(c, b)
		}
	case "Abs": // the concrete twin ABS has the same body (HEAD 2fc8894)
		if f.get(a) < 0 {
			f.mon("Neg", c, a)
		} else if f.get(a) > 0 {
			f.set(c, a)
		}
	case "LogAdd":
		t := in.T[0]
		ka := kindOf(a)
		if r32(ka, f.get(b)) < r32(ka, f.get(a)) {
			a, b = b, a
		}
		if math.IsInf(f.get(a), 0) {
			f.set(c, b)
		} else {
			f.dy("Sub", t, a, b)
			f.mon("Exp", t, vr(t))
			f.mon("Log1p", t, vr(t))
			f.dy("Add", c, vr(t), b)
		}
	case "LogSub":
		t := in.T[0]
		if math.IsInf(f.get(b), -1) {
			f.set(c, a)
		} else {
			f.dy("Sub", t, b, a)
			f.mon("Exp", t, vr(t))
			f.mon("Neg", t, vr(t))
			f.mon("Log1p", t, vr(t))
			f.dy("Add", c, vr(t), a)
		}
	case "Log1pExp":
		v := f.get(a)
		if v <= -37.0 {
			f.mon("Exp", c, a)
		} else if v <= 18.0 {
			f.mon("Exp", c, a)
			f.mon("Log1p", c, vr(c))
		} else if v <= 33.3 { // HEAD 7035970: t := NewScalar(c.Type(), 0.0); t.Neg(a); t.Exp(t); c.Add(a, t)
			const tmp = 1 << 20
			f.kind[tmp] = f.kind[c]
			f.mon("Neg", tmp, a)
			f.mon("Exp", tmp, vr(tmp))
			f.dy("Add", c, a, vr(tmp))
		} else {
			f.set(c, a)
		}
	case "Sigmoid":
		t := in.T[0]
		if f.get(a) >= 0 {
			f.mon("Neg", c, a)
			f.mon("Exp", c, vr(c))
			f.dy("Add", c, vr(c), vi(1))
			f.dy("Div", c, vi(1), vr(c))
		} else {
			f.mon("Exp", t, a)
			f.set(c, vr(t))
			f.dy("Add", t, vr(t), vi(1))
			f.dy("Div", c, vr(c), vr(t))
		}
	case "Logistic":
		f.mon("Neg", c, a)
		f.mon("Exp", c, vr(c))
		f.dy("Add", c, vi(1), vr(c))
		f.dy("Div", c, vi(1), vr(c))
	default:
		if _, ok := monNames[in.Op]; ok || in.Op == "Mlgamma" || in.Op == "GammaP" || in.Op == "BesselI" || in.Op == "LogBesselI" {
			f.mon(in.Op, c, a)
			return
		}
		if isRed(in.Op) {
			f.reduction(in) // the element list may name the receiver or a scratch argument
			return
		}
		shadow(o, in, pre)
	}
}

// ---------------------------------------------------------------- the property's own observable
type normSnap struct {
	Kind, Order, N int
	Val            float64
	D              []float64
	H              [][]float64
}

func normOf(g RegSnap) RegSnap {
	r := RegSnap{Kind: g.Kind, Val: g.Val, Order: g.Order, N: g.N, D: []float64{}, H: [][]float64{}}
	if g.Order >= 1 {
		r.D = g.D
	}
	if g.Order >= 2 {
		r.H = g.H
	}
	return r
}

type HuntHit struct {
	Site    string  `json:"site"`
	Scen    *Scen   `json:"scen,omitempty"`
	Mat     *MatCase `json:"mat,omitempty"`
	Jet     *JetRef `json:"jet,omitempty"`
	Sp      *SpCase `json:"sp,omitempty"`
	Sc      *ScCase `json:"sc,omitempty"`
	Hist    *HistCase `json:"hist,omitempty"`
	VP      *VPCase `json:"vp,omitempty"`
	Failure string  `json:"failure"`
	Aliased string  `json:"aliased"`
	Fresh   string  `json:"fresh"`
}

// aliasedVsFresh: the aliased call against a fresh receiver with cloned operands.
func aliasedVsFresh(s *Scen) (same bool, al, fr RegSnap, ka, kf int) {
	regs := s.restoreAll()
	in := s.Ins
	ka = execGo(regs, &in)
	al = normOf(snap(regs[in.C]))
	regs2 := s.restoreAll()
	regs2[rF] = newMagic(s.Regs[s.Ins.C].Kind, 0)
	in2 := s.Ins
	in2.C = rF
	if len(in2.T) > 0 {
		in2.T = append([]int{}, in2.T...)
	}
	kf = execGo(regs2, &in2)
	fr = normOf(snap(regs2[rF]))
	if ka != 0 && kf != 0 {
		return true, al, fr, ka, kf // both calls are rejected with a panic
	}
	if ka != kf {
		return false, al, fr, ka, kf
	}
	return snapEq(al, fr), al, fr, ka, kf
}

// site classifies a disagreement; the names are matched (narrowly) against the known findings.
func (s *Scen) site() string {
	x, y, c := s.Regs[rX], s.Regs[rY], s.Regs[s.Ins.C]
	isOpd := s.Ins.C == s.Ins.A || (arity(s.Op) == 2 && s.Ins.C == s.Ins.B)
	usesTmpAlias := len(s.Ins.T) > 0 && (s.Ins.T[0] == s.Ins.A || (arity(s.Op) == 2 && s.Ins.T[0] == s.Ins.B))
	if usesTmpAlias {
		return "tmp-alias:" + s.Op + ":" + s.Pat
	}
	if s.Op == "Abs" && x.Val == 0 {
		return "Abs:v=0" // c.Reset() keeps the receiver's Order and N, with or without aliasing
	}
	if !isOpd {
		return "no-alias:" + s.Op
	}
	if arity(s.Op) == 2 && s.Op != "Min" && s.Op != "Max" {
		opA, opB := s.Regs[s.Ins.A], s.Regs[s.Ins.B]
		mn, mo := imax(opA.N, opB.N), imax(opA.Order, opB.Order)
		if s.Op == "Pow" && opB.Order == 0 {
			return "alias:" + s.Op
		}
		if c.N != mn || c.Order != mo {
			if c.Order == 0 {
				return "alloc-const:" + s.Op // theorem 2 says this is fine
			}
			if x.Order >= 1 && y.Order >= 1 && x.N != y.N {
				return "alloc-diffN"
			}
			return "alloc-mixed-order"
		}
	}
	return "alias:" + s.Op
}

// tmpExpect: the exact characterisation of "a scratch argument that is also an operand" (receiver result
// equal to the call with a separate scratch scalar?):
//   Sigmoid(a, t), t = a         safe (t.Exp(a) is the last read of a); the ARGUMENT is destroyed
//   LogAdd(a, b, t)              after the swap lo <= hi: t.Sub(lo, hi); ...; c.Add(t, hi):
//                                t = lo safe, t = hi unsafe (hi is read after t was written); lo infinite: t unused
//   LogSub(a, b, t)              t.Sub(b, a); ...; c.Add(t, a): t = b safe, t = a unsafe; b = -Inf: t unused
//   and the first step t.Sub(.,.) has t as an operand: safe only under the side condition [keeps] of
//   AllocForTwo (coq/C08/Spec.v) — otherwise F-ALLOC strikes inside the body.
func (s *Scen) tmpExpect() bool {
	in := s.Ins
	if len(in.T) == 0 {
		return true
	}
	t := in.T[0]
	keeps := func(c, o RegSnap) bool {
		n, ord := imax(c.N, o.N), imax(c.Order, o.Order)
		return (c.N == n && c.Order == ord) || (c.Order == 0 && c.N <= o.N)
	}
	switch s.Op {
	case "Sigmoid":
		return true
	case "LogAdd":
		a, b := in.A, in.B
		ka := s.Regs[a].Kind
		if r32(ka, s.Regs[b].Val) < r32(ka, s.Regs[a].Val) {
			a, b = b, a
		}
		if math.IsInf(s.Regs[a].Val, 0) {
			return true
		}
		if t == b {
			return false
		}
		return keeps(s.Regs[a], s.Regs[b])
	case "LogSub":
		if math.IsInf(s.Regs[in.B].Val, -1) {
			return true
		}
		if t == in.A {
			return false
		}
		return keeps(s.Regs[in.B], s.Regs[in.A])
	}
	return false // reductions: a scratch argument among the elements is overwritten while the loop still reads it
}

func arity(op string) int {
	for _, o := range scalarOps {
		if o.name == op {
			return o.ar
		}
	}
	return 1
}

func regStr(g RegSnap, k int) string {
	if k != 0 {
		return fmt.Sprintf("panic(kind %d)", k)
	}
	return fmt.Sprintf("{v=%v order=%d N=%d D=%v H=%v}", g.Val, g.Order, g.N, g.D, g.H)
}
