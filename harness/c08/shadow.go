// Independent closed-form reference for every scalar operation (value and the
// coefficient formulas), written against package math / special directly. It
// serves two purposes:
//   * while it evaluates, it LOGS every libm / special call (function id,
//     arguments, result): the oracle table handed to the Coq model so that the
//     model's coefficient table is replayed bit-exactly for every operation;
//   * the hunt compares Go's derivative slots with it.
package main

import (
	"math"

	. "adharness/common"

	"github.com/pbenner/autodiff/special"
)

type OEnt struct {
	F    int       `json:"f"`
	Args []float64 `json:"a"`
	R    float64   `json:"r"`
}
type Orc struct{ ents []OEnt }

func (o *Orc) add(f int, r float64, args ...float64) float64 {
	if o == nil {
		return r
	}
	for _, e := range o.ents {
		if e.F == f && len(e.Args) == len(args) {
			same := true
			for i := range args {
				if !feq(args[i], e.Args[i]) {
					same = false
				}
			}
			if same {
				return r
			}
		}
	}
	o.ents = append(o.ents, OEnt{f, append([]float64{}, args...), r})
	return r
}
func (o *Orc) Coq() string {
	if o == nil {
		return "[]"
	}
	s := make([]string, len(o.ents))
	for i, e := range o.ents {
		s[i] = "(" + itoa(e.F) + ", " + FList(e.Args) + ", " + F(e.R) + ")"
	}
	return List(s)
}
func itoa(i int) string { return ZI(i) }

// function ids as in coq/C01/Corr.v
func (o *Orc) Exp(x float64) float64   { return o.add(0, math.Exp(x), x) }
func (o *Orc) Log(x float64) float64   { return o.add(1, math.Log(x), x) }
func (o *Orc) Log1p(x float64) float64 { return o.add(2, math.Log1p(x), x) }
func (o *Orc) Sin(x float64) float64   { return o.add(3, math.Sin(x), x) }
func (o *Orc) Cos(x float64) float64   { return o.add(4, math.Cos(x), x) }
func (o *Orc) Tan(x float64) float64   { return o.add(5, math.Tan(x), x) }
func (o *Orc) Sinh(x float64) float64  { return o.add(6, math.Sinh(x), x) }
func (o *Orc) Cosh(x float64) float64  { return o.add(7, math.Cosh(x), x) }
func (o *Orc) Tanh(x float64) float64  { return o.add(8, math.Tanh(x), x) }
func (o *Orc) Erf(x float64) float64   { return o.add(9, math.Erf(x), x) }
func (o *Orc) Erfc(x float64) float64  { return o.add(10, math.Erfc(x), x) }
func (o *Orc) Gamma(x float64) float64 { return o.add(11, math.Gamma(x), x) }
func (o *Orc) Lgamma(x float64) (float64, int) {
	v, s := math.Lgamma(x)
	o.add(12, v, x)
	o.add(13, float64(s), x)
	return v, s
}
func (o *Orc) Pow(x, y float64) float64         { return o.add(14, math.Pow(x, y), x, y) }
func (o *Orc) PowZ(x float64, k int) float64    { return o.add(15, math.Pow(x, float64(k)), x, float64(k)) }
func (o *Orc) Digamma(x float64) float64        { return o.add(16, special.Digamma(x), x) }
func (o *Orc) Trigamma(x float64) float64       { return o.add(17, special.Trigamma(x), x) }
func (o *Orc) LogErfc(x float64) float64        { return o.add(18, special.LogErfc(x), x) }
func (o *Orc) Mlgamma(x float64, k int) float64 { return o.add(19, special.Mlgamma(x, k), x, float64(k)) }
func (o *Orc) GammaP(a, x float64) float64      { return o.add(20, special.GammaP(a, x), a, x) }
func (o *Orc) GammaPd1(a, x float64) float64 {
	return o.add(21, special.GammaPfirstDerivative(a, x), a, x)
}
func (o *Orc) GammaPd2(a, x float64) float64 {
	return o.add(22, special.GammaPsecondDerivative(a, x), a, x)
}
func (o *Orc) BesselI(v, x float64) float64    { return o.add(23, special.BesselI(v, x), v, x) }
func (o *Orc) LogBesselI(v, x float64) float64 { return o.add(24, special.LogBesselI(v, x), v, x) }

const sqrtPi = 1.77245385090551602729816748334

// monRef: value, first and second derivative of the named one-argument function at x.
// (the mathematical definitions; NOT copied from the library's closures where a
// different but equivalent closed form exists)
func monRef(o *Orc, op string, par float64, k int, x float64) (v0, f1, f2 float64) {
	switch op {
	case "Neg":
		return -x, -1, 0
	case "Sin":
		return o.Sin(x), o.Cos(x), -o.Sin(x)
	case "Sinh":
		return o.Sinh(x), o.Cosh(x), o.Sinh(x)
	case "Cos":
		return o.Cos(x), -o.Sin(x), -o.Cos(x)
	case "Cosh":
		return o.Cosh(x), o.Sinh(x), o.Cosh(x)
	case "Tan":
		t := o.Tan(x)
		s := 1 + o.PowZ(t, 2) // sec^2
		return t, s, 2 * t * s
	case "Tanh":
		t := o.Tanh(x)
		s := 1 - o.PowZ(t, 2) // sech^2
		return t, s, -2 * t * s
	case "Exp":
		e := o.Exp(x)
		return e, e, e
	case "Log":
		return o.Log(x), 1 / x, -1 / (x * x)
	case "Log1p":
		return o.Log1p(x), 1 / (1 + x), -1 / ((1 + x) * (1 + x))
	case "Erf":
		g := 2 / (o.Exp(x*x) * sqrtPi)
		return o.Erf(x), g, -2 * x * g
	case "Erfc":
		g := 2 / (o.Exp(x*x) * sqrtPi)
		return o.Erfc(x), -g, 2 * x * g
	case "LogErfc":
		// d/dx log erfc = -g/erfc ; d2 = (2 x g erfc - g^2)/erfc^2
		t := o.Erfc(x)
		o.Exp(2 * x * x)
		g := 2 / (o.Exp(x*x) * sqrtPi)
		return o.LogErfc(x), -g / t, (2*x*g*t - g*g) / (t * t)
	case "Gamma":
		g, p, q := o.Gamma(x), o.Digamma(x), o.Trigamma(x)
		return g, g * p, g * (p*p + q)
	case "Lgamma":
		v, s := o.Lgamma(x)
		if s == -1 {
			v = math.NaN()
		}
		return v, o.Digamma(x), o.Trigamma(x)
	case "Mlgamma":
		s1, s2 := 0.0, 0.0
		for j := 1; j <= k; j++ {
			s1 += o.Digamma(x + float64(1-j)/2.0)
			s2 += o.Trigamma(x + float64(1-j)/2.0)
		}
		return o.Mlgamma(x, k), s1, s2
	case "GammaP":
		return o.GammaP(par, x), o.GammaPd1(par, x), o.GammaPd2(par, x)
	case "BesselI":
		v := par
		i0 := o.BesselI(v, x)
		return i0, o.BesselI(v-1, x) - v/x*i0, 0.25 * (o.BesselI(v-2, x) + 2*i0 + o.BesselI(v+2, x))
	case "LogBesselI":
		v := par
		l0 := o.LogBesselI(v, x)
		l1 := o.LogBesselI(v-1, x)
		l2 := o.LogBesselI(v-2, x)
		l3 := o.LogBesselI(v+2, x)
		d := o.Exp(l1-l0) - v/x
		return l0, d, 0.25*(o.Exp(l2-l0)+2+o.Exp(l3-l0)) - d*d
	case "PowC":
		y := par
		return o.Pow(x, y), o.Pow(x, y-1) * y, o.Pow(x, y-2) * (y - 1) * y
	}
	panic("monRef: " + op)
}

// dyRef: value and the five partials (f10, f01, f11, f20, f02) of the two-argument function.
func dyRef(o *Orc, op string, x, y float64) (v0, f10, f01, f11, f20, f02 float64) {
	switch op {
	case "Add":
		return x + y, 1, 1, 0, 0, 0
	case "Sub":
		return x - y, 1, -1, 0, 0, 0
	case "Mul":
		return x * y, y, x, 1, 0, 0
	case "Div":
		return x / y, 1 / y, -x / (y * y), -1 / (y * y), 0, 2 * x / (y * y * y)
	case "PowV":
		p := o.Pow(x, y)
		o.Pow(x, y-0)
		p1 := o.Pow(x, y-1)
		p2 := o.Pow(x, y-2)
		l := o.Log(x)
		return p, p1 * y, p * l, p1 * (1 + y*l), p2 * (y - 1) * y, p * l * l
	}
	panic("dyRef: " + op)
}

func r32(k int, v float64) float64 {
	if k == K32 {
		return float64(float32(v))
	}
	return v
}

// shadow walks through an instruction at the VALUE level (with the storage
// rounding of the receiving registers) and logs every libm/special call the
// library makes on the way.
func shadow(o *Orc, in *Instr, pre map[int]RegSnap) {
	val := func(i int) float64 { return pre[i].Val }
	kc := pre[in.C].Kind
	mon := func(op string, x float64) float64 { v, _, _ := monRef(o, op, in.Par, in.K, x); return v }
	pow := func(x, y float64, kOrder int) float64 {
		if kOrder >= 1 {
			v, _, _, _, _, _ := dyRef(o, "PowV", x, y)
			return v
		}
		v, _, _ := monRef(o, "PowC", y, 0, x)
		return v
	}
	logadd := func(a, b float64, kt, kr int) float64 {
		if a > b {
			a, b = b, a
		}
		if math.IsInf(a, 0) {
			return r32(kr, b)
		}
		d := r32(kt, a-b)
		e := r32(kt, mon("Exp", d))
		l := r32(kt, mon("Log1p", e))
		return r32(kr, l+b)
	}
	switch in.Op {
	case "Add", "Sub", "Mul", "Div", "Set", "Reset", "SetFloat64", "SetVariable", "Min", "Max", "Vmean", "VdotV", "Mtrace":
	case "Abs":
		mon("Neg", val(in.A))
	case "Pow":
		pow(val(in.A), val(in.B), pre[in.B].Order)
	case "Sqrt":
		pow(val(in.A), 0.5, 0)
	case "LogAdd":
		logadd(val(in.A), val(in.B), pre[in.T[0]].Kind, kc)
	case "LogSub":
		a, b := val(in.A), val(in.B)
		kt := pre[in.T[0]].Kind
		if !math.IsInf(b, -1) {
			d := r32(kt, b-a)
			e := r32(kt, mon("Exp", d))
			mon("Log1p", r32(kt, -e))
		}
	case "Log1pExp":
		v := val(in.A)
		if v <= -37.0 {
			mon("Exp", v)
		} else if v <= 18.0 {
			mon("Log1p", r32(kc, mon("Exp", v)))
		} else if v <= 33.3 {
			mon("Exp", r32(kc, -v))
		}
	case "Sigmoid":
		v := val(in.A)
		if v >= 0 {
			mon("Exp", r32(kc, -v))
		} else {
			mon("Exp", v)
		}
	case "Logistic":
		mon("Exp", r32(kc, -val(in.A)))
	case "SmoothMax":
		k0 := pre[in.T[0]].Kind
		for _, x := range in.Xs {
			mon("Exp", r32(k0, in.Par*val(x)))
		}
	case "LogSmoothMax":
		k0, k1, k2 := pre[in.T[0]].Kind, pre[in.T[1]].Kind, pre[in.T[2]].Kind
		r, t2 := math.Inf(-1), math.Inf(-1)
		for _, x := range in.Xs {
			t0 := r32(k0, val(x)*in.Par)
			t2 = logadd(t2, t0, k1, k2)
			t1 := r32(k1, mon("Log", val(x)))
			t0 = r32(k0, t0+t1)
			r = logadd(r, t0, k1, kc)
		}
		mon("Exp", r32(kc, r-t2))
	case "Vnorm":
		r := 0.0
		for _, x := range in.Xs {
			r = r32(kc, r+r32(kc, pow(val(x), 2.0, 0)))
		}
		pow(r, 0.5, 0)
	case "Mnorm":
		for _, x := range in.Xs {
			pow(val(x), 2.0, 0)
		}
	default:
		mon(in.Op, val(in.A))
	}
}
