// Register snapshots, instructions and their Coq / Go interpretation.
package main

import (
	"fmt"
	"math"
	"runtime"
	"strings"

	. "adharness/common"

	ad "github.com/pbenner/autodiff"
)

const (
	K64   = 0
	K32   = 1
	KBare = 2
)

// RegSnap is a Go scalar object as it is in memory (raw slices, nil = empty).
type RegSnap struct {
	Kind  int         `json:"k"`
	Val   float64     `json:"v"`
	Order int         `json:"o"`
	N     int         `json:"n"`
	D     []float64   `json:"d"`
	H     [][]float64 `json:"h"`
}

func snap(s ad.ConstScalar) RegSnap {
	switch v := s.(type) {
	case *ad.Real64:
		r := RegSnap{Kind: K64, Val: v.Value, Order: v.Order, N: v.N, D: []float64{}, H: [][]float64{}}
		r.D = append(r.D, v.Derivative...)
		for _, row := range v.Hessian {
			r.H = append(r.H, append([]float64{}, row...))
		}
		return r
	case *ad.Real32:
		r := RegSnap{Kind: K32, Val: float64(v.Value), Order: v.Order, N: v.N, D: []float64{}, H: [][]float64{}}
		for _, x := range v.Derivative {
			r.D = append(r.D, float64(x))
		}
		for _, row := range v.Hessian {
			rr := []float64{}
			for _, x := range row {
				rr = append(rr, float64(x))
			}
			r.H = append(r.H, rr)
		}
		return r
	default:
		return RegSnap{Kind: KBare, Val: s.GetFloat64(), D: []float64{}, H: [][]float64{}}
	}
}

// restore builds a fresh Go object from a snapshot (used by replay / hunt shrinking).
func restore(r RegSnap) ad.ConstScalar {
	switch r.Kind {
	case K64:
		x := ad.NewReal64(r.Val)
		x.Order, x.N = r.Order, r.N
		if len(r.D) > 0 || r.Order >= 1 {
			x.Derivative = append(make([]float64, 0, len(r.D)), r.D...)
		}
		if len(r.H) > 0 || r.Order >= 2 {
			x.Hessian = make([][]float64, len(r.H))
			for i := range r.H {
				x.Hessian[i] = append([]float64{}, r.H[i]...)
			}
		}
		return x
	case K32:
		x := ad.NewReal32(float32(r.Val))
		x.Order, x.N = r.Order, r.N
		if len(r.D) > 0 || r.Order >= 1 {
			x.Derivative = make([]float32, len(r.D))
			for i := range r.D {
				x.Derivative[i] = float32(r.D[i])
			}
		}
		if len(r.H) > 0 || r.Order >= 2 {
			x.Hessian = make([][]float32, len(r.H))
			for i := range r.H {
				x.Hessian[i] = make([]float32, len(r.H[i]))
				for j := range r.H[i] {
					x.Hessian[i][j] = float32(r.H[i][j])
				}
			}
		}
		return x
	default:
		return ad.NewFloat64(r.Val)
	}
}

func snapEq(a, b RegSnap) bool {
	if a.Kind != b.Kind || !feq(a.Val, b.Val) || a.Order != b.Order || a.N != b.N || len(a.D) != len(b.D) || len(a.H) != len(b.H) {
		return false
	}
	for i := range a.D {
		if !feq(a.D[i], b.D[i]) {
			return false
		}
	}
	for i := range a.H {
		if len(a.H[i]) != len(b.H[i]) {
			return false
		}
		for j := range a.H[i] {
			if !feq(a.H[i][j], b.H[i][j]) {
				return false
			}
		}
	}
	return true
}
func feq(x, y float64) bool {
	if math.IsNaN(x) || math.IsNaN(y) {
		return math.IsNaN(x) && math.IsNaN(y)
	}
	return math.Float64bits(x) == math.Float64bits(y)
}

func coqKind(k int) string { return []string{"K64", "K32", "KBare"}[k] }
func coqReg(r RegSnap) string {
	rows := make([]string, len(r.H))
	for i := range r.H {
		rows[i] = FList(r.H[i])
	}
	return fmt.Sprintf("(mkReg %s %s %d %d %s %s)", coqKind(r.Kind), F(r.Val), r.Order, r.N, FList(r.D), List(rows))
}
func coqRegs(ids []int, rs []RegSnap) string {
	s := make([]string, len(ids))
	for i := range ids {
		s[i] = fmt.Sprintf("(%d, %s)", ids[i], coqReg(rs[i]))
	}
	return List(s)
}

// ---------------------------------------------------------------- instructions

// Instr is one call on the register file. Operands are register ids.
type Instr struct {
	Op    string  `json:"op"`
	C     int     `json:"c"`
	A     int     `json:"a"`
	B     int     `json:"b"`
	T     []int   `json:"t,omitempty"`  // temporaries
	Xs    []int   `json:"xs,omitempty"` // vector / matrix elements
	Ys    []int   `json:"ys,omitempty"`
	ParJ  JF      `json:"par,omitempty"` // alpha / GammaP a / Bessel v / SetFloat64 v (JSON form of Par)
	Par   float64 `json:"-"`
	K     int     `json:"k,omitempty"`   // Mlgamma k
	I     int     `json:"i,omitempty"`   // SetVariable(i,n,order)
	N     int     `json:"n,omitempty"`
	Ord   int     `json:"ord,omitempty"`
	Conc  bool    `json:"conc,omitempty"` // call the concrete-typed twin (NEG, ADD, ...)
	Rows  int     `json:"rows,omitempty"` // Mnorm/Mtrace matrix shape
	Cols  int     `json:"cols,omitempty"`
}

var monNames = map[string]string{"Neg": "ONeg", "Sin": "OSin", "Sinh": "OSinh", "Cos": "OCos", "Cosh": "OCosh",
	"Tan": "OTan", "Tanh": "OTanh", "Exp": "OExp", "Log": "OLog", "Log1p": "OLog1p", "Erf": "OErf", "Erfc": "OErfc",
	"LogErfc": "OLogErfc", "Gamma": "OGamma", "Lgamma": "OLgamma"}
var dyNames = map[string]string{"Add": "OAdd", "Sub": "OSub", "Mul": "OMul", "Div": "ODiv"}

func rg(i int) string { return fmt.Sprintf("(Rg %d)", i) }
func rgs(is []int) string {
	s := make([]string, len(is))
	for i, x := range is {
		s[i] = rg(x)
	}
	return List(s)
}

const freshT = 99 // register id of the NullReal temporaries created inside VdotV / Vnorm / Mnorm

func (in *Instr) Coq() string {
	if m, ok := monNames[in.Op]; ok {
		return fmt.Sprintf("(IMon %s %d %s)", m, in.C, rg(in.A))
	}
	if d, ok := dyNames[in.Op]; ok {
		return fmt.Sprintf("(IDy %s %d %s %s)", d, in.C, rg(in.A), rg(in.B))
	}
	switch in.Op {
	case "Mlgamma":
		return fmt.Sprintf("(IMon (OMlgamma %d) %d %s)", in.K, in.C, rg(in.A))
	case "GammaP":
		return fmt.Sprintf("(IMon (OGammaP %s) %d %s)", F(in.Par), in.C, rg(in.A))
	case "BesselI":
		return fmt.Sprintf("(IMon (OBesselI %s) %d %s)", F(in.Par), in.C, rg(in.A))
	case "LogBesselI":
		return fmt.Sprintf("(IMon (OLogBesselI %s) %d %s)", F(in.Par), in.C, rg(in.A))
	case "Pow":
		return fmt.Sprintf("(IPow %d %s %s)", in.C, rg(in.A), rg(in.B))
	case "Set":
		return fmt.Sprintf("(ISet %d %s)", in.C, rg(in.A))
	case "Reset":
		return fmt.Sprintf("(IReset %d)", in.C)
	case "SetFloat64":
		return fmt.Sprintf("(ISetF %d %s)", in.C, F(in.Par))
	case "SetVariable":
		return fmt.Sprintf("(ISetVar %d %d %d %d)", in.C, in.I, in.N, in.Ord)
	case "Min":
		return fmt.Sprintf("(IMin %d %s %s)", in.C, rg(in.A), rg(in.B))
	case "Max":
		return fmt.Sprintf("(IMax %d %s %s)", in.C, rg(in.A), rg(in.B))
	case "Abs":
		if in.Conc {
			return fmt.Sprintf("(IABSc %d %s)", in.C, rg(in.A))
		}
		return fmt.Sprintf("(IAbs %d %s)", in.C, rg(in.A))
	case "LogAdd":
		return fmt.Sprintf("(ILogAdd %d %s %s %d)", in.C, rg(in.A), rg(in.B), in.T[0])
	case "LogSub":
		return fmt.Sprintf("(ILogSub %d %s %s %d)", in.C, rg(in.A), rg(in.B), in.T[0])
	case "Log1pExp":
		return fmt.Sprintf("(ILog1pExp %d %s)", in.C, rg(in.A))
	case "Sigmoid":
		return fmt.Sprintf("(ISigmoid %d %s %d)", in.C, rg(in.A), in.T[0])
	case "Logistic":
		return fmt.Sprintf("(ILogistic %d %s)", in.C, rg(in.A))
	case "Sqrt":
		return fmt.Sprintf("(ISqrt %d %s)", in.C, rg(in.A))
	case "SmoothMax":
		return fmt.Sprintf("(ISmoothMax %d %s %s %d %d)", in.C, rgs(in.Xs), F(in.Par), in.T[0], in.T[1])
	case "LogSmoothMax":
		return fmt.Sprintf("(ILogSmoothMax %d %s %s %d %d %d)", in.C, rgs(in.Xs), F(in.Par), in.T[0], in.T[1], in.T[2])
	case "Vmean":
		return fmt.Sprintf("(IVmean %d %s)", in.C, rgs(in.Xs))
	case "VdotV":
		return fmt.Sprintf("(IVdotV %d %s %s %d)", in.C, rgs(in.Xs), rgs(in.Ys), freshT)
	case "Vnorm":
		return fmt.Sprintf("(IVnorm %d %s %d)", in.C, rgs(in.Xs), freshT)
	case "Mtrace":
		return fmt.Sprintf("(IMtrace %d %s)", in.C, rgs(in.Xs))
	case "Mnorm":
		return fmt.Sprintf("(IMnorm %d %s %d)", in.C, rgs(in.Xs), freshT)
	}
	panic("unknown op " + in.Op)
}

// regsUsed: all register ids the instruction touches (receiver first).
func (in *Instr) regsUsed() []int {
	ids := []int{in.C}
	add := func(i int) {
		for _, x := range ids {
			if x == i {
				return
			}
		}
		ids = append(ids, i)
	}
	switch in.Op {
	case "Reset", "SetFloat64", "SetVariable":
	case "Add", "Sub", "Mul", "Div", "Pow", "Min", "Max", "LogAdd", "LogSub":
		add(in.A)
		add(in.B)
	case "SmoothMax", "LogSmoothMax", "Vmean", "VdotV", "Vnorm", "Mtrace", "Mnorm":
	default:
		add(in.A)
	}
	for _, t := range in.T {
		add(t)
	}
	for _, x := range in.Xs {
		add(x)
	}
	for _, x := range in.Ys {
		add(x)
	}
	return ids
}

// written: registers the instruction may write (receiver and temporaries)
func (in *Instr) written() []int {
	ids := []int{in.C}
	for _, t := range in.T {
		if t != in.C {
			ids = append(ids, t)
		}
	}
	return ids
}

// panic kinds: 0 returned, 1 explicit string panic, 2 runtime error (index out of range), 3 other
func classify(r interface{}) int {
	if r == nil {
		return 0
	}
	if _, ok := r.(runtime.Error); ok {
		return 2
	}
	if s, ok := r.(string); ok && strings.Contains(s, "automatic differentiation failed") {
		return 1
	}
	return 3
}

func vecOf(regs map[int]ad.ConstScalar, ids []int) ad.ConstVector {
	if len(ids) > 0 {
		if _, ok := regs[ids[0]].(*ad.Real32); ok {
			v := ad.DenseReal32Vector{}
			for _, i := range ids {
				v = append(v, regs[i].(*ad.Real32))
			}
			return v
		}
	}
	v := ad.DenseReal64Vector{}
	for _, i := range ids {
		v = append(v, regs[i].(*ad.Real64))
	}
	return v
}

// matOf builds a dense matrix whose (row-major) elements are copies of the given registers.
func matOf(regs map[int]ad.ConstScalar, ids []int, rows, cols int, diagOnly bool) ad.ConstMatrix {
	is32 := false
	if len(ids) > 0 {
		_, is32 = regs[ids[0]].(*ad.Real32)
	}
	var m ad.Matrix
	if is32 {
		m = ad.NullDenseReal32Matrix(rows, cols)
	} else {
		m = ad.NullDenseReal64Matrix(rows, cols)
	}
	if diagOnly {
		for i := 0; i < rows; i++ {
			m.At(i, i).Set(regs[ids[i]])
		}
	} else {
		for i := 0; i < rows; i++ {
			for j := 0; j < cols; j++ {
				m.At(i, j).Set(regs[ids[i*cols+j]])
			}
		}
	}
	return m
}

// execGo runs the instruction on the real library; returns the panic kind.
func execGo(regs map[int]ad.ConstScalar, in *Instr) (kind int) {
	defer func() { kind = classify(recover()) }()
	c := regs[in.C].(ad.Scalar)
	a := regs[in.A]
	b := regs[in.B]
	if in.Conc {
		switch cc := c.(type) {
		case *ad.Real64:
			a64, _ := a.(*ad.Real64)
			b64, _ := b.(*ad.Real64)
			switch in.Op {
			case "Neg":
				cc.NEG(a64)
			case "Add":
				cc.ADD(a64, b64)
			case "Sub":
				cc.SUB(a64, b64)
			case "Mul":
				cc.MUL(a64, b64)
			case "Div":
				cc.DIV(a64, b64)
			case "Pow":
				cc.POW(a64, b64)
			case "Sqrt":
				cc.SQRT(a64)
			case "Exp":
				cc.EXP(a64)
			case "Log":
				cc.LOG(a64)
			case "Log1p":
				cc.LOG1P(a64)
			case "Min":
				cc.MIN(a64, b64)
			case "Max":
				cc.MAX(a64, b64)
			case "Abs":
				cc.ABS(a64)
			case "Set":
				cc.SET(a64)
			case "LogAdd":
				cc.LOGADD(a64, b64, regs[in.T[0]].(*ad.Real64))
			case "LogSub":
				cc.LOGSUB(a64, b64, regs[in.T[0]].(*ad.Real64))
			default:
				panic("no concrete twin for " + in.Op)
			}
			return
		case *ad.Real32:
			a32, _ := a.(*ad.Real32)
			b32, _ := b.(*ad.Real32)
			switch in.Op {
			case "Neg":
				cc.NEG(a32)
			case "Add":
				cc.ADD(a32, b32)
			case "Sub":
				cc.SUB(a32, b32)
			case "Mul":
				cc.MUL(a32, b32)
			case "Div":
				cc.DIV(a32, b32)
			case "Pow":
				cc.POW(a32, b32)
			case "Sqrt":
				cc.SQRT(a32)
			case "Exp":
				cc.EXP(a32)
			case "Log":
				cc.LOG(a32)
			case "Log1p":
				cc.LOG1P(a32)
			case "Min":
				cc.MIN(a32, b32)
			case "Max":
				cc.MAX(a32, b32)
			case "Abs":
				cc.ABS(a32)
			case "Set":
				cc.SET(a32)
			case "LogAdd":
				cc.LOGADD(a32, b32, regs[in.T[0]].(*ad.Real32))
			case "LogSub":
				cc.LOGSUB(a32, b32, regs[in.T[0]].(*ad.Real32))
			default:
				panic("no concrete twin for " + in.Op)
			}
			return
		}
	}
	switch in.Op {
	case "Neg":
		c.Neg(a)
	case "Sin":
		c.Sin(a)
	case "Sinh":
		c.Sinh(a)
	case "Cos":
		c.Cos(a)
	case "Cosh":
		c.Cosh(a)
	case "Tan":
		c.Tan(a)
	case "Tanh":
		c.Tanh(a)
	case "Exp":
		c.Exp(a)
	case "Log":
		c.Log(a)
	case "Log1p":
		c.Log1p(a)
	case "Erf":
		c.Erf(a)
	case "Erfc":
		c.Erfc(a)
	case "LogErfc":
		c.LogErfc(a)
	case "Gamma":
		c.Gamma(a)
	case "Lgamma":
		c.Lgamma(a)
	case "Mlgamma":
		c.Mlgamma(a, in.K)
	case "GammaP":
		c.GammaP(in.Par, a)
	case "BesselI":
		c.BesselI(in.Par, a)
	case "LogBesselI":
		switch cc := c.(type) {
		case *ad.Real64:
			cc.LogBesselI(in.Par, a)
		case *ad.Real32:
			cc.LogBesselI(in.Par, a)
		}
	case "Add":
		c.Add(a, b)
	case "Sub":
		c.Sub(a, b)
	case "Mul":
		c.Mul(a, b)
	case "Div":
		c.Div(a, b)
	case "Pow":
		c.Pow(a, b)
	case "Set":
		c.Set(a)
	case "Reset":
		c.Reset()
	case "SetFloat64":
		c.SetFloat64(in.Par)
	case "SetVariable":
		c.(ad.MagicScalar).SetVariable(in.I, in.N, in.Ord)
	case "Min":
		c.Min(a, b)
	case "Max":
		c.Max(a, b)
	case "Abs":
		c.Abs(a)
	case "LogAdd":
		c.LogAdd(a, b, regs[in.T[0]].(ad.Scalar))
	case "LogSub":
		c.LogSub(a, b, regs[in.T[0]].(ad.Scalar))
	case "Log1pExp":
		c.Log1pExp(a)
	case "Sigmoid":
		c.Sigmoid(a, regs[in.T[0]].(ad.Scalar))
	case "Logistic":
		c.Logistic(a)
	case "Sqrt":
		c.Sqrt(a)
	case "SmoothMax":
		c.SmoothMax(vecOf(regs, in.Xs), ad.ConstFloat64(in.Par), [2]ad.Scalar{regs[in.T[0]].(ad.Scalar), regs[in.T[1]].(ad.Scalar)})
	case "LogSmoothMax":
		c.LogSmoothMax(vecOf(regs, in.Xs), ad.ConstFloat64(in.Par), [3]ad.Scalar{regs[in.T[0]].(ad.Scalar), regs[in.T[1]].(ad.Scalar), regs[in.T[2]].(ad.Scalar)})
	case "Vmean":
		c.Vmean(vecOf(regs, in.Xs))
	case "VdotV":
		c.VdotV(vecOf(regs, in.Xs), vecOf(regs, in.Ys))
	case "Vnorm":
		c.Vnorm(vecOf(regs, in.Xs))
	case "Mtrace":
		c.Mtrace(matOf(regs, in.Xs, in.Rows, in.Rows, true))
	case "Mnorm":
		c.Mnorm(matOf(regs, in.Xs, in.Rows, in.Cols, false))
	default:
		panic("unknown op " + in.Op)
	}
	return
}
