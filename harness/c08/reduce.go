// Reductions (Vmean, VdotV, Vnorm, Mtrace, Mnorm, SmoothMax, LogSmoothMax) with the
// receiver — or a scratch argument — among the vector / matrix ELEMENTS:
// r := v.At(k); r.Vnorm(v).  The same scenarios feed the correspondence (the model
// coq/C01/Model.v replays the aliased call bit-exactly: its element list may name
// the receiver) and the hunt (aliased call vs. a fresh receiver on the same vector).
package main

import (
	"fmt"
	"math"

	. "adharness/common"

	ad "github.com/pbenner/autodiff"
)

var redOps = []string{"Vmean", "VdotV", "Vnorm", "Mtrace", "Mnorm", "SmoothMax", "LogSmoothMax"}

func isRed(op string) bool {
	for _, o := range redOps {
		if o == op {
			return true
		}
	}
	return false
}

const (
	rE0 = 10 // first element; elements are rE0 .. rE0+3
	rY0 = 20 // second vector of VdotV
	rT0 = 5  // scratch arguments 5, 6, 7
)

// redScenarios enumerates op x position of the receiver (none | element k | element of the second
// vector) x position of a scratch argument (separate | element) x uniform element order {0,1,2} x kind.
func redScenarios(seed uint64) []Scen {
	r := NewRng(seed ^ 0xC08ED)
	vals := []float64{1.25, 0.75, 2.5, 1.5}
	var out []Scen
	for _, op := range redOps {
		ne := 3
		rows, cols := 0, 0
		switch op {
		case "Mtrace":
			ne, rows, cols = 2, 2, 2
		case "Mnorm":
			ne, rows, cols = 4, 2, 2
		}
		pats := []string{"r=none"}
		for k := 0; k < ne; k++ {
			pats = append(pats, fmt.Sprintf("r=x%d", k))
		}
		if op == "VdotV" {
			pats = append(pats, "r=y1", "x=y", "r=x1,x=y")
		}
		if op == "SmoothMax" || op == "LogSmoothMax" {
			pats = append(pats, "t0=x1", "t1=x1", "t1=x2")
		}
		for _, kind := range []int{K64, K32} {
			for o := 0; o <= 2; o++ {
				for _, pat := range pats {
					sc := Scen{Op: op, Pat: pat, Kind: kind, Regs: map[int]RegSnap{}}
					sc.Shape = fmt.Sprintf("red|o%d", o)
					sh := shp{o, 2}
					if o == 0 {
						sh = shp{0, 0}
					}
					in := Instr{Op: op, C: rR, Rows: rows, Cols: cols}
					for k := 0; k < ne; k++ {
						sc.Regs[rE0+k] = mkReg(r, kind, vals[k], sh)
						in.Xs = append(in.Xs, rE0+k)
					}
					if op == "VdotV" {
						for k := 0; k < ne; k++ {
							sc.Regs[rY0+k] = mkReg(r, kind, vals[(k+1)%4], sh)
							in.Ys = append(in.Ys, rY0+k)
						}
					}
					sc.Regs[rR] = RegSnap{Kind: kind, D: []float64{}, H: [][]float64{}}
					switch op {
					case "SmoothMax":
						in.T, in.Par = []int{rT0, rT0 + 1}, 0.5
					case "LogSmoothMax":
						in.T, in.Par = []int{rT0, rT0 + 1, rT0 + 2}, 0.5
					}
					for _, t := range in.T {
						sc.Regs[t] = RegSnap{Kind: kind, D: []float64{}, H: [][]float64{}}
					}
					var k int
					switch {
					case pat == "r=none":
					case pat == "r=y1":
						in.C = rY0 + 1
					case pat == "x=y":
						in.Ys = append([]int{}, in.Xs...)
					case pat == "r=x1,x=y":
						in.Ys = append([]int{}, in.Xs...)
						in.C = rE0 + 1
					case len(pat) > 3 && pat[:3] == "r=x":
						fmt.Sscanf(pat, "r=x%d", &k)
						in.C = rE0 + k
					case pat == "t0=x1":
						in.T[0] = rE0 + 1
					case pat == "t1=x1":
						in.T[1] = rE0 + 1
					case pat == "t1=x2":
						in.T[1] = rE0 + 2
					}
					if in.C != rR {
						delete(sc.Regs, rR)
					}
					for _, t := range []int{rT0, rT0 + 1, rT0 + 2} {
						used := false
						for _, u := range in.T {
							used = used || u == t
						}
						if !used {
							delete(sc.Regs, t)
						}
					}
					sc.Ins = in
					out = append(out, sc)
				}
			}
		}
	}
	return out
}

// redSite classifies a reduction scenario.
func (s *Scen) redSite() string {
	in := s.Ins
	for _, t := range in.T {
		for _, x := range in.Xs {
			if t == x {
				return "tmp-alias:" + s.Op + ":" + s.Pat
			}
		}
	}
	pos := -1
	for k, x := range in.Xs {
		if x == in.C {
			pos = k
		}
	}
	inY := false
	for _, y := range in.Ys {
		inY = inY || y == in.C
	}
	switch {
	case pos < 0 && !inY:
		return "no-alias:" + s.Op
	case s.Op == "Mnorm" && pos == 0:
		return "reduce:Mnorm:r=first-element" // r.Pow(r, 2) first, no Reset: safe
	}
	return "reduce:r-in-vector:" + s.Op
}

// prepRed: Mtrace / Mnorm take a matrix; the scenario's element registers become the matrix's OWN
// elements (so that a receiver among them really is m.At(i, j)).
func prepRed(regs map[int]adScalar, in *Instr) ad.ConstMatrix {
	switch in.Op {
	case "Mtrace":
		m := matOf(regs, in.Xs, in.Rows, in.Rows, true).(ad.Matrix)
		for i := 0; i < in.Rows; i++ {
			regs[in.Xs[i]] = m.At(i, i)
		}
		return m
	case "Mnorm":
		m := matOf(regs, in.Xs, in.Rows, in.Cols, false).(ad.Matrix)
		for i := 0; i < in.Rows; i++ {
			for j := 0; j < in.Cols; j++ {
				regs[in.Xs[i*in.Cols+j]] = m.At(i, j)
			}
		}
		return m
	}
	return nil
}

func execRed(regs map[int]adScalar, in *Instr, m ad.ConstMatrix) (kind int) {
	if m == nil {
		return execGo(regs, in)
	}
	defer func() { kind = classify(recover()) }()
	c := regs[in.C].(ad.Scalar)
	if in.Op == "Mtrace" {
		c.Mtrace(m)
	} else {
		c.Mnorm(m)
	}
	return
}

// redAliasedVsFresh: the aliased call against a fresh receiver (same vector objects, untouched so far).
func redAliasedVsFresh(s *Scen) (same bool, al, fr RegSnap, ka, kf int) {
	regs := s.restoreAll()
	in := s.Ins
	m := prepRed(regs, &in)
	ka = execRed(regs, &in, m)
	al = normOf(snap(regs[in.C]))
	regs2 := s.restoreAll()
	kindC := s.Kind
	in2 := s.Ins
	in2.C = rF
	if len(in2.T) > 0 { // separate scratch arguments for the reference
		in2.T = nil
		for k := range s.Ins.T {
			regs2[30+k] = newMagic(kindC, 0)
			in2.T = append(in2.T, 30+k)
		}
	}
	regs2[rF] = newMagic(kindC, 0)
	m2 := prepRed(regs2, &in2)
	kf = execRed(regs2, &in2, m2)
	fr = normOf(snap(regs2[rF]))
	if ka != 0 && kf != 0 {
		return true, al, fr, ka, kf
	}
	if ka != kf {
		return false, al, fr, ka, kf
	}
	return snapEq(al, fr), al, fr, ka, kf
}

// ---------------------------------------------------------------- alias-aware oracle logging (value level)
func (f *vfile) reset(c int)            { f.val[c] = 0 }
func (f *vfile) setf(c int, v float64)  { f.val[c] = r32(f.kind[c], v) }
func (f *vfile) logadd(c int, a, b vopd, t int) {
	ka := KBare
	if !a.isI {
		ka = f.kind[a.id]
	}
	if r32(ka, f.get(b)) < r32(ka, f.get(a)) {
		a, b = b, a
	}
	if isInf(f.get(a)) {
		f.set(c, b)
		return
	}
	f.dy("Sub", t, a, b)
	f.mon("Exp", t, vr(t))
	f.mon("Log1p", t, vr(t))
	f.dy("Add", c, vr(t), b)
}
func isInf(x float64) bool { return math.IsInf(x, 0) }

func (f *vfile) reduction(in *Instr) {
	c := in.C
	xs := in.Xs
	switch in.Op {
	case "Vmean", "Mtrace":
		f.reset(c)
		for _, x := range xs {
			f.dy("Add", c, vr(c), vr(x))
		}
		if in.Op == "Vmean" {
			f.dy("Div", c, vr(c), vi(float64(len(xs))))
		}
	case "VdotV":
		f.kind[freshT] = f.kind[c]
		f.reset(c)
		for k, x := range xs {
			f.dy("Mul", freshT, vr(x), vr(in.Ys[k]))
			f.dy("Add", c, vr(c), vr(freshT))
		}
	case "Vnorm":
		f.kind[freshT] = f.kind[c]
		f.reset(c)
		for _, x := range xs {
			f.pow(freshT, vr(x), vi(2))
			f.dy("Add", c, vr(c), vr(freshT))
		}
		f.pow(c, vr(c), vi(0.5))
	case "Mnorm":
		f.kind[freshT] = f.kind[c]
		for k, x := range xs {
			if k == 0 {
				f.pow(c, vr(x), vi(2))
			} else {
				f.pow(freshT, vr(x), vi(2))
				f.dy("Add", c, vr(c), vr(freshT))
			}
		}
	case "SmoothMax":
		t0, t1 := in.T[0], in.T[1]
		f.reset(c)
		f.reset(t1)
		for _, x := range xs {
			f.dy("Mul", t0, vi(in.Par), vr(x))
			f.mon("Exp", t0, vr(t0))
			f.dy("Add", t1, vr(t1), vr(t0))
			f.dy("Mul", t0, vr(t0), vr(x))
			f.dy("Add", c, vr(c), vr(t0))
		}
		f.dy("Div", c, vr(c), vr(t1))
	case "LogSmoothMax":
		t0, t1, t2 := in.T[0], in.T[1], in.T[2]
		f.setf(c, math.Inf(-1))
		f.setf(t2, math.Inf(-1))
		for _, x := range xs {
			f.dy("Mul", t0, vr(x), vi(in.Par))
			f.logadd(t2, vr(t2), vr(t0), t1)
			f.mon("Log", t1, vr(x))
			f.dy("Add", t0, vr(t0), vr(t1))
			f.logadd(c, vr(c), vr(t0), t1)
		}
		f.dy("Sub", c, vr(c), vr(t2))
		f.mon("Exp", c, vr(c))
	}
}
