// Vector-scalar / matrix-scalar operations whose SCALAR operand is a reference into storage (round 6):
//
//	r.VmulS(a, r.At(k))    v.VdivS(v, v.At(0))    m.MaddS(m, m.At(i, j))    r.VMULS(a, r.AT(k)) ...
//
// The scalar argument is a reference (Float64 = struct{ptr}, *Real64, ...): the loop re-reads it in every
// iteration, so when it is a cell of the receiver the positions up to and including that cell see the old
// value and the positions after it the value just written (coq/C08/ModelSc.v, ProofsSc.v).
//
//   - correspondence stream "sc" (dense containers, all nine element types, generic and concrete methods,
//     views of shared storages; small integer values and + - *, exact in every element type): whole heap
//     after the call against vEwS / mEwS of coq/C08/ModelSc.v (format of coq/C08/CorrSc.v);
//   - hunt: dense AND sparse containers, + - * /, through the public API only; the oracle evaluates the
//     closed forms with the library's own scalar operations on detached scalars:
//     fresh[i] = a[i] op s            (the call on a deep copy of the scalar)
//     doc[i]   = fresh[i] for i <= k, a[i] op (a[k] op s) for i > k   (scalar = k-th cell of the receiver)
package main

import (
	"fmt"
	"math"
	"reflect"
	"strings"

	. "adharness/common"

	ad "github.com/pbenner/autodiff"
)

const hdrSc = "From Coq Require Import ZArith List Bool. Import ListNotations.\nFrom ADV Require Import C10.Gen C10.Model C08.Model C08.ModelSc C08.CorrSc.\nOpen Scope Z_scope.\n"

type ScParent struct {
	Rows int       `json:"rows"` // 0: a vector (or a lone scalar when Lone)
	Cols int       `json:"cols"`
	Lone bool      `json:"lone,omitempty"`
	Vals []float64 `json:"vals"`
}

// ScCase: one call r.<V|M><op>S(a, s).
type ScCase struct {
	Mat     bool       `json:"mat"`
	Sparse  bool       `json:"sparse,omitempty"`
	Typ     string     `json:"typ"`
	Op      int        `json:"op"` // 0 add 1 sub 2 mul 3 div
	Conc    bool       `json:"conc,omitempty"`
	Pat     string     `json:"pat"`
	Parents []ScParent `json:"parents"`
	MR, MA  MView
	VR, VA  VView
	SW      int `json:"sw"` // the scalar: 0 a cell of the receiver view, 1 a cell of the operand view, 2 a lone scalar object (parent SP)
	SI      int `json:"si"`
	SJ      int `json:"sj"`
	SP      int `json:"sp"`
	// outcome
	Panic bool        `json:"panic"`
	Post  [][]float64 `json:"-"`
	Hdr   [2][]int    `json:"-"`
	Fell  bool        `json:"fell,omitempty"` // no concrete twin: the generic method was called
	copyS bool        // hunt reference: the scalar argument is evaluated as usual, then replaced by a detached copy
}

var scOpNames = []string{"add", "sub", "mul", "div"}
var scTypes = []string{"float64", "float32", "int", "int8", "int16", "int32", "int64", "real64", "real32"}

func scIsInt(t string) bool { return t[0] == 'i' }
func scIsReal(t string) bool { return t[0] == 'r' }

type scWorld struct {
	vecs []ad.Vector
	mats []ad.Matrix
	lone []ad.Scalar
}

func scBuild(c *ScCase) *scWorld {
	st := spScalarType(c.Typ)
	w := &scWorld{vecs: make([]ad.Vector, len(c.Parents)), mats: make([]ad.Matrix, len(c.Parents)), lone: make([]ad.Scalar, len(c.Parents))}
	for i, p := range c.Parents {
		v := append([]float64{}, p.Vals...)
		switch {
		case p.Lone:
			w.lone[i] = ad.NewScalar(st, v[0])
		case p.Rows == 0:
			d := ad.NewDenseFloat64Vector(v)
			if c.Sparse {
				w.vecs[i] = ad.AsSparseVector(st, d)
			} else {
				w.vecs[i] = ad.AsDenseVector(st, d)
			}
		default:
			d := ad.NewDenseFloat64Matrix(v, p.Rows, p.Cols)
			if c.Sparse {
				w.mats[i] = ad.AsSparseMatrix(st, d)
			} else {
				w.mats[i] = ad.AsDenseMatrix(st, d)
			}
		}
	}
	return w
}
func (w *scWorld) vview(v VView) ad.Vector {
	p := w.vecs[v.Parent]
	if v.Off == 0 && v.Len == p.Dim() {
		return p
	}
	return p.Slice(v.Off, v.Off+v.Len)
}
func (w *scWorld) mview(v MView) ad.Matrix {
	m := w.mats[v.Parent]
	for _, o := range v.Ops {
		if o.T {
			m = m.T()
		} else {
			m = m.Slice(o.R0, o.R1, o.C0, o.C1)
		}
	}
	return m
}
func (w *scWorld) heap(c *ScCase) [][]float64 {
	h := make([][]float64, len(c.Parents))
	for i, p := range c.Parents {
		h[i] = []float64{}
		switch {
		case p.Lone:
			h[i] = append(h[i], w.lone[i].GetFloat64())
		case p.Rows == 0:
			for k := 0; k < w.vecs[i].Dim(); k++ {
				h[i] = append(h[i], w.vecs[i].ConstAt(k).GetFloat64())
			}
		default:
			for a := 0; a < p.Rows; a++ {
				for b := 0; b < p.Cols; b++ {
					h[i] = append(h[i], w.mats[i].ConstAt(a, b).GetFloat64())
				}
			}
		}
	}
	return h
}

var scVecNames = [2][]string{{"VaddS", "VsubS", "VmulS", "VdivS"}, {"VADDS", "VSUBS", "VMULS", "VDIVS"}}
var scMatNames = [2][]string{{"MaddS", "MsubS", "MmulS", "MdivS"}, {"MADDS", "MSUBS", "MMULS", "MDIVS"}}

// scCall: the generic method, or the concrete-typed twin by reflection (falls back to the generic one when the
// type has no twin with matching parameter types).
func scCall(c *ScCase, r, a interface{}, s ad.Scalar) {
	names := scVecNames
	if c.Mat {
		names = scMatNames
	}
	if c.Conc {
		m := reflect.ValueOf(r).MethodByName(names[1][c.Op])
		if m.IsValid() {
			t := m.Type()
			av, sv := reflect.ValueOf(a), reflect.ValueOf(s)
			if t.NumIn() == 2 && av.Type().AssignableTo(t.In(0)) && sv.Type().AssignableTo(t.In(1)) {
				m.Call([]reflect.Value{av, sv})
				return
			}
		}
		c.Fell = true
	}
	if c.Mat {
		rm, am := r.(ad.Matrix), a.(ad.Matrix)
		switch c.Op {
		case 0:
			rm.MaddS(am, s)
		case 1:
			rm.MsubS(am, s)
		case 2:
			rm.MmulS(am, s)
		default:
			rm.MdivS(am, s)
		}
		return
	}
	rv, av := r.(ad.Vector), a.(ad.Vector)
	switch c.Op {
	case 0:
		rv.VaddS(av, s)
	case 1:
		rv.VsubS(av, s)
	case 2:
		rv.VmulS(av, s)
	default:
		rv.VdivS(av, s)
	}
}

func (c *ScCase) sameOperand() bool {
	if c.Mat {
		return sameView(c.MR, c.MA)
	}
	return c.VR == c.VA
}

// exec runs the call on the library; the scalar argument is evaluated first, as the caller does.
func (c *ScCase) exec() {
	w := scBuild(c)
	c.Panic, c.Post, c.Fell = false, nil, false
	func() {
		defer func() {
			if e := recover(); e != nil {
				c.Panic = true
			}
		}()
		var r, a interface{}
		var s ad.Scalar
		if c.Mat {
			rm := w.mview(c.MR)
			am := w.mview(c.MA)
			if c.sameOperand() {
				am = rm
			}
			if !c.Sparse {
				c.Hdr = [2][]int{hdrOf(rm), hdrOf(am)}
			}
			switch c.SW {
			case 0:
				s = rm.At(c.SI, c.SJ)
			case 1:
				s = am.At(c.SI, c.SJ)
			default:
				s = w.lone[c.SP]
			}
			r, a = rm, am
		} else {
			rv := w.vview(c.VR)
			av := w.vview(c.VA)
			if c.sameOperand() {
				av = rv
			}
			switch c.SW {
			case 0:
				s = rv.At(c.SI)
			case 1:
				s = av.At(c.SI)
			default:
				s = w.lone[c.SP]
			}
			r, a = rv, av
		}
		if c.copyS {
			s = ad.NewScalar(spScalarType(c.Typ), s.GetFloat64())
		}
		scCall(c, r, a, s)
	}()
	if !c.Panic {
		c.Post = w.heap(c)
	}
}

func (c *ScCase) key() string {
	return fmt.Sprintf("%v|%v|%s|%d|%v|%s|%v%v%v%v|%d.%d.%d", c.Mat, c.Sparse, c.Typ, c.Op, c.Conc, c.Pat, c.MR, c.MA, c.VR, c.VA, c.SW, c.SI, c.SJ)
}
func (c *ScCase) name() string {
	n := scVecNames
	if c.Mat {
		n = scMatNames
	}
	k := 0
	if c.Conc {
		k = 1
	}
	return n[k][c.Op]
}

// ---------------------------------------------------------------- Coq
func (c *ScCase) hdrCalcSc(v MView) hdr {
	p := c.Parents[v.Parent]
	h := hdr{p.Rows, p.Cols, 0, p.Rows, 0, p.Cols, false}
	for _, o := range v.Ops {
		if o.T {
			h = hdr{h.cols, h.rows, h.co, h.cm, h.ro, h.rm, !h.t}
		} else {
			h.ro += o.R0
			h.rows = o.R1 - o.R0
			h.co += o.C0
			h.cols = o.C1 - o.C0
		}
	}
	return h
}
func (c *ScCase) Coq() string {
	pre := make([][]float64, len(c.Parents))
	for i, p := range c.Parents {
		pre[i] = p.Vals
	}
	lone := fmt.Sprintf("(SVec (mkVec %d%%nat 0 1) 0)", c.SP)
	var call string
	if c.Mat {
		hs := [2][]int{c.hdrCalcSc(c.MR).list(), c.hdrCalcSc(c.MA).list()}
		for i := range hs { // prefer what the library built
			if c.Hdr[i] != nil {
				hs[i] = c.Hdr[i]
			}
		}
		real := "false"
		if scIsReal(c.Typ) {
			real = "true"
		}
		r, a := coqMat(c.MR.Parent, hs[0]), coqMat(c.MA.Parent, hs[1])
		s := lone
		switch c.SW {
		case 0:
			s = fmt.Sprintf("(SMat %s %s %s)", r, ZI(c.SI), ZI(c.SJ))
		case 1:
			s = fmt.Sprintf("(SMat %s %s %s)", a, ZI(c.SI), ZI(c.SJ))
		}
		call = fmt.Sprintf("(CMEwS %s %d %s %s %s)", real, c.Op, r, a, s)
	} else {
		r, a := coqVec(c.VR), coqVec(c.VA)
		s := lone
		switch c.SW {
		case 0:
			s = fmt.Sprintf("(SVec %s %s)", r, ZI(c.SI))
		case 1:
			s = fmt.Sprintf("(SVec %s %s)", a, ZI(c.SI))
		}
		call = fmt.Sprintf("(CVEwS %d %s %s %s)", c.Op, r, a, s)
	}
	out := "None"
	if !c.Panic {
		out = "(Some " + coqHeap(c.Post) + ")"
	}
	return fmt.Sprintf("(mkSc %s %s %s)", coqHeap(pre), call, out)
}

// ---------------------------------------------------------------- generator
func scVals(r *Rng, n int, nozero bool) []float64 {
	v := make([]float64, n)
	for i := range v {
		for {
			v[i] = float64(r.Range(-3, 3))
			if v[i] != 0 || (!nozero && r.Intn(3) == 0) {
				break
			}
		}
	}
	return v
}

var scPatterns = []string{"a=r,s=r[k]", "a=other,s=r[k]", "a=r,s=r[last]", "a=other,s=a[k]", "a=r,s=lone", "a=other,s=lone", "a=other,s=r[0]", "a=r,s=r[0]"}

// genSc: one case of the given pattern. Dense containers are views of larger parents; sparse containers are whole objects.
func genSc(r *Rng, pat string, mat, sparse bool, typ string, op int, conc bool) *ScCase {
	c := &ScCase{Mat: mat, Sparse: sparse, Typ: typ, Op: op, Conc: conc, Pat: pat}
	same := pat[:4] == "a=r,"
	spat := pat[strings.Index(pat, "s="):]
	div := op == 3
	if mat {
		n, m := r.Range(1, 3), r.Range(1, 3)
		if n*m == 1 {
			m = 2
		}
		pr, pc, r0, c0 := n, m, 0, 0
		tr := false
		if !sparse {
			pr, pc = n+r.Intn(2), m+r.Intn(2)
			r0, c0 = r.Intn(pr-n+1), r.Intn(pc-m+1)
			tr = r.Intn(3) == 0
		}
		view := func(p int) MView {
			v := MView{Parent: p}
			if !sparse {
				if pr != n || pc != m || r.Intn(2) == 0 {
					v.Ops = append(v.Ops, ViewOp{R0: r0, R1: r0 + n, C0: c0, C1: c0 + m})
				}
				if tr {
					v.Ops = append(v.Ops, ViewOp{T: true})
				}
			}
			return v
		}
		c.Parents = []ScParent{{Rows: pr, Cols: pc, Vals: scVals(r, pr*pc, div && scIsInt(typ))}}
		c.MR = view(0)
		if same {
			c.MA = c.MR
		} else {
			c.Parents = append(c.Parents, ScParent{Rows: pr, Cols: pc, Vals: scVals(r, pr*pc, div && scIsInt(typ))})
			c.MA = view(1)
			c.MA.Ops = append([]ViewOp{}, c.MR.Ops...)
		}
		vn, vm := n, m
		if tr {
			vn, vm = m, n
		}
		c.SI, c.SJ = r.Intn(vn), r.Intn(vm)
		switch spat {
		case "s=r[k]", "s=r[0]", "s=r[last]":
			c.SW = 0
			if spat == "s=r[0]" {
				c.SI, c.SJ = 0, 0
			}
			if spat == "s=r[last]" {
				c.SI, c.SJ = vn-1, vm-1
			}
		case "s=a[k]":
			c.SW = 1
		default:
			c.SW = 2
		}
	} else {
		n := r.Range(2, 5)
		pl, off := n, 0
		if !sparse {
			pl = n + r.Intn(3)
			off = r.Intn(pl - n + 1)
		}
		c.Parents = []ScParent{{Vals: scVals(r, pl, div && scIsInt(typ))}}
		c.VR = VView{Parent: 0, Off: off, Len: n}
		if same {
			c.VA = c.VR
		} else {
			c.Parents = append(c.Parents, ScParent{Vals: scVals(r, pl, div && scIsInt(typ))})
			off2 := off
			if !sparse {
				off2 = r.Intn(pl - n + 1)
			}
			c.VA = VView{Parent: 1, Off: off2, Len: n}
		}
		c.SI = r.Intn(n)
		switch spat {
		case "s=r[k]", "s=r[0]", "s=r[last]":
			c.SW = 0
			if spat == "s=r[0]" {
				c.SI = 0
			}
			if spat == "s=r[last]" {
				c.SI = n - 1
			}
		case "s=a[k]":
			c.SW = 1
		default:
			c.SW = 2
		}
	}
	if c.SW == 2 {
		c.SP = len(c.Parents)
		c.Parents = append(c.Parents, ScParent{Lone: true, Vals: scVals(r, 1, true)})
	}
	return c
}

// scCorrCases: the correspondence stream (dense, + - *): every element type x vector/matrix x generic/concrete x pattern.
func scCorrCases(seed uint64, full bool) []*ScCase {
	var out []*ScCase
	r := NewRng(seed + 6161)
	reps := 1
	if full {
		reps = 6
	}
	for rep := 0; rep < reps; rep++ {
		for ti, typ := range scTypes {
			for _, mat := range []bool{false, true} {
				for pi, pat := range scPatterns {
					for _, conc := range []bool{false, true} {
						if !full && conc && (pi+ti)%2 == 1 {
							continue
						}
						out = append(out, genSc(r.Split(), pat, mat, false, typ, r.Intn(3), conc))
					}
				}
			}
		}
	}
	return out
}

// ---------------------------------------------------------------- hunt oracle
// scalarOp: x op y computed by the library's scalar operation of the element type on detached scalars.
func scScalarOp(typ string, op int, x, y float64) (v float64, panicked bool) {
	defer func() {
		if recover() != nil {
			panicked = true
		}
	}()
	st := spScalarType(typ)
	c, a, b := ad.NewScalar(st, 0), ad.NewScalar(st, x), ad.NewScalar(st, y)
	switch op {
	case 0:
		c.Add(a, b)
	case 1:
		c.Sub(a, b)
	case 2:
		c.Mul(a, b)
	default:
		c.Div(a, b)
	}
	return c.GetFloat64(), false
}

// positions of the receiver / operand views in iteration order: (parent, flat index into the parent's row-major values)
func (c *ScCase) positions(v MView, vv VView) [][2]int {
	var out [][2]int
	if !c.Mat {
		for i := 0; i < vv.Len; i++ {
			out = append(out, [2]int{vv.Parent, vv.Off + i})
		}
		return out
	}
	h := c.hdrCalcSc(v)
	p := c.Parents[v.Parent]
	for i := 0; i < h.rows; i++ {
		for j := 0; j < h.cols; j++ {
			if h.t { // view (i,j) = parent (co+j, ro+i) in the parent's own (untransposed) coordinates
				out = append(out, [2]int{v.Parent, (h.co+j)*p.Cols + (h.ro + i)})
			} else {
				out = append(out, [2]int{v.Parent, (h.ro+i)*p.Cols + (h.co + j)})
			}
		}
	}
	return out
}

// scConcDivJoint: does the concrete sparse VDIVS of this element type run the joint-iterator loop for a ZERO scalar?
// Probe: r = [0 1], a = [0 0], lone scalar 0: the index loop divides 0/0 at position 0 (NaN, or a panic for integers), the
// joint loop does not visit position 0.
var scProbe = map[string]bool{}

func scConcDivJoint(typ string) bool {
	if v, ok := scProbe[typ]; ok {
		return v
	}
	c := &ScCase{Sparse: true, Typ: typ, Op: 3, Conc: true, Pat: "probe",
		Parents: []ScParent{{Vals: []float64{0, 1}}, {Vals: []float64{0, 0}}, {Lone: true, Vals: []float64{0}}},
		VR:      VView{Parent: 0, Off: 0, Len: 2}, VA: VView{Parent: 1, Off: 0, Len: 2}, SW: 2, SP: 2}
	c.exec()
	v := !c.Panic && c.Post[0][0] == 0
	scProbe[typ] = v
	return v
}

type scVerdict struct {
	Site    string
	Failure string
	Copy    bool // the call behaved as on a deep copy of the scalar although HEAD's closed form differs
}

// scOracle: nil when the call agrees with the call on a deep copy of the scalar, else the classified disagreement.
func scOracle(c *ScCase) *scVerdict {
	c.exec()
	rp := c.positions(c.MR, c.VR)
	ap := c.positions(c.MA, c.VA)
	val := func(p [2]int) float64 { return c.Parents[p[0]].Vals[p[1]] }
	// the scalar's cell and its position k in the receiver's iteration order (-1: outside the receiver)
	var sc [2]int
	switch c.SW {
	case 0, 1:
		ps := rp
		if c.SW == 1 {
			ps = ap
		}
		idx := c.SI
		if c.Mat {
			h := c.hdrCalcSc(c.MR)
			idx = c.SI*h.cols + c.SJ
		}
		sc = ps[idx]
	default:
		sc = [2]int{c.SP, 0}
	}
	k := -1
	for i, p := range rp {
		if p == sc {
			k = i
		}
	}
	s0 := val(sc)
	// sparse joint-iterator loops (VmulS / MmulS, VdivS / MdivS with a non-zero scalar) visit the positions stored in the
	// receiver or in the operand only (zeros are not stored by the constructors; the caller's At() stores the scalar's cell)
	// the generic VdivS / MdivS switch to the index loop for a zero scalar; whether the concrete sparse VDIVS does is probed on
	// the implementation (it is a generic-vs-concrete question, property C09's, not an aliasing one)
	joint := c.Sparse && (c.Op == 2 || (c.Op == 3 && (s0 != 0 || (c.Conc && !c.Fell && scConcDivJoint(c.Typ)))))
	// a joint iterator DROPS stored entries whose value is zero when it passes them: a scalar cell holding 0 is detached
	// from its vector before the first iteration (the loop then writes a new cell), i.e. the call works on a deep copy
	detached := joint && s0 == 0
	visited := func(i int) bool {
		if !joint {
			return true
		}
		if val(rp[i]) != 0 || val(ap[i]) != 0 {
			return true
		}
		return !detached && ((c.SW == 0 && rp[i] == sc) || (c.SW == 1 && ap[i] == sc))
	}
	// the reference: the SAME call on the implementation with a detached copy of the scalar
	fc := *c
	fc.copyS = true
	fc.exec()
	freshPanic := fc.Panic
	fresh := make([]float64, len(rp))
	if !freshPanic {
		for i, p := range rp {
			fresh[i] = fc.Post[p[0]][p[1]]
		}
	}
	// HEAD's closed form (coq/C08/ProofsSc.v): up to k as the deep copy; after k the scalar holds what position k received
	doc := append([]float64{}, fresh...)
	expPanic := false // the re-read semantics panics (integer division by zero)
	if k >= 0 && !detached && !freshPanic {
		sk := fresh[k]
		for i := k + 1; i < len(rp); i++ {
			if !visited(i) {
				continue
			}
			v, p := scScalarOp(c.Typ, c.Op, val(ap[i]), sk)
			if p {
				expPanic = true
				break
			}
			doc[i] = v
		}
	}
	name := c.name()
	where := "dense"
	if c.Sparse {
		where = "sparse"
	}
	desc := fmt.Sprintf("%s %s %s, element type %s, %s (scalar = position %d of the receiver), parents %v", where, name, c.Pat, c.Typ, scOpNames[c.Op], k, c.Parents)
	if c.Panic {
		if expPanic || freshPanic {
			return nil
		}
		return &scVerdict{Site: "ScalarOp:panic", Failure: desc + ": the call panics; neither the deep-copy call nor the re-read semantics does"}
	}
	if expPanic && freshPanic {
		return &scVerdict{Site: "ScalarOp:no-panic", Failure: desc + ": the call returns although the scalar operation panics"}
	}
	// frame: nothing outside the receiver changes
	inR := map[[2]int]bool{}
	for _, p := range rp {
		inR[p] = true
	}
	for pi, p := range c.Parents {
		for j := range p.Vals {
			if !inR[[2]int{pi, j}] && !feq(c.Post[pi][j], p.Vals[j]) {
				return &scVerdict{Site: "ScalarOp:frame", Failure: fmt.Sprintf("%s: cell %d of parent %d is not a cell of the receiver and changed from %v to %v", desc, j, pi, p.Vals[j], c.Post[pi][j])}
			}
		}
	}
	obs := make([]float64, len(rp))
	for i, p := range rp {
		obs[i] = c.Post[p[0]][p[1]]
	}
	eqAll := func(x, y []float64, lo, hi int) bool {
		for i := lo; i < hi; i++ {
			if !feq(x[i], y[i]) && !(x[i] == 0 && y[i] == 0) {
				return false
			}
		}
		return true
	}
	n := len(rp)
	if k < 0 {
		if freshPanic || eqAll(obs, fresh, 0, n) {
			return nil
		}
		return &scVerdict{Site: "ScalarOp:scalar-outside-receiver", Failure: fmt.Sprintf("%s: the scalar is not a cell of the receiver, yet the call leaves %v; on a deep copy of the scalar %v", desc, obs, fresh)}
	}
	if freshPanic {
		return nil
	}
	if !eqAll(obs, fresh, 0, k+1) {
		return &scVerdict{Site: "ScalarOp:scalar-in-receiver:upto-k", Failure: fmt.Sprintf("%s: positions 0..%d are computed before the scalar is overwritten, yet the call leaves %v; on a deep copy of the scalar %v", desc, k, obs, fresh)}
	}
	if eqAll(obs, fresh, k+1, n) {
		if !expPanic && !eqAll(obs, doc, k+1, n) {
			return &scVerdict{Copy: true, Failure: fmt.Sprintf("%s: the scalar is NOT re-read in every iteration any more: the call leaves %v (what a deep copy of the scalar gives); the re-read semantics proved in coq/C08/PropsSc.v gives %v", desc, obs, doc)}
		}
		return nil
	}
	if !expPanic && eqAll(obs, doc, k+1, n) {
		return &scVerdict{Site: "ScalarOp:scalar-in-receiver:after-k", Failure: fmt.Sprintf("%s: the positions after %d see the value just written to the scalar: the call leaves %v; on a deep copy of the scalar %v", desc, k, obs, fresh)}
	}
	return &scVerdict{Site: "ScalarOp:scalar-in-receiver:after-k-undocumented", Failure: fmt.Sprintf("%s: the call leaves %v; on a deep copy of the scalar %v; re-reading the scalar in ascending order gives %v", desc, obs, fresh, doc)}
}

// scHunt: dense and sparse, all element types, all four operations, generic and concrete.
func scHunt(seed uint64, count int, out *huntOut, add func(HuntHit)) {
	r := NewRng(seed + 7171)
	reps := 1 + count/300
	for rep := 0; rep < reps; rep++ {
		for _, typ := range scTypes {
			for _, mat := range []bool{false, true} {
				for _, sparse := range []bool{false, true} {
					for _, pat := range scPatterns {
						for op := 0; op < 4; op++ {
							for _, conc := range []bool{false, true} {
								if conc && (r.Intn(2) == 0) {
									continue
								}
								c := genSc(r.Split(), pat, mat, sparse, typ, op, conc)
								v := scOracle(c)
								cls := "dense"
								if sparse {
									cls = "sparse"
								}
								site := "ScalarOp:" + cls + ":" + pat
								st := out.BySite[site]
								st[0]++
								out.Points++
								if pat != "a=other,s=lone" {
									out.Aliased++
								}
								if v != nil && v.Copy {
									// not a violation of the property by itself: reported only as the concrete input of a broken correspondence
									cs := out.BySite["ScalarOp:behaves-as-deep-copy"]
									cs[0]++
									out.BySite["ScalarOp:behaves-as-deep-copy"] = cs
									cc := *c
									add(HuntHit{Site: "ScalarOp:behaves-as-deep-copy", Sc: &cc, Failure: v.Failure})
								}
								if v != nil && !v.Copy {
									st[1]++
									cc := *c
									add(HuntHit{Site: v.Site, Sc: &cc, Failure: v.Failure})
								}
								out.BySite[site] = st
							}
						}
					}
				}
			}
		}
	}
}

var _ = math.Inf
