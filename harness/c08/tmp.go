// (round 7) buffer stream: the per-matrix buffers tmp1 / tmp2 of DenseReal64Matrix / DenseReal32Matrix
// that the matrix product slices when its receiver is a factor.  A matrix is built by the Null
// constructor and taken through Slice / T / Tip / Clone; after every step rows, cols and (len, cap) of
// both buffers are read from the library object (reflect: Len / Cap of the unexported fields — no hook
// in /repo) and the trace is compared with t_run of coq/C08/ModelT.v (theorems: coq/C08/PropsT.v).
package main

import (
	"fmt"
	"reflect"
	"strings"

	. "adharness/common"

	ad "github.com/pbenner/autodiff"
)

const hdrTmp = "From Coq Require Import ZArith List Bool. Import ListNotations.\nFrom ADV Require Import C08.ModelT C08.CorrT.\nOpen Scope Z_scope.\n"

type TmpOp struct {
	Op             string `json:"op"` // slice | T | Tip | clone
	RF, RT, CF, CT int
}
type TmpCase struct {
	Kind  string  `json:"kind"` // real64 | real32
	N, M  int
	Ops   []TmpOp `json:"ops"`
	Trace [][]int `json:"trace"` // per step: rows, cols, len1, cap1, len2, cap2; empty = the step panicked
	Lost  string  `json:"lost,omitempty"`
}

// rows, cols, len/cap of tmp1, tmp2
func tmpRead(m ad.Matrix) ([]int, string) {
	v := reflect.ValueOf(m)
	if v.Kind() != reflect.Ptr || v.Elem().Kind() != reflect.Struct {
		return nil, fmt.Sprintf("%T is not a pointer to a struct", m)
	}
	f1, f2 := v.Elem().FieldByName("tmp1"), v.Elem().FieldByName("tmp2")
	if !f1.IsValid() || !f2.IsValid() || f1.Kind() != reflect.Slice || f2.Kind() != reflect.Slice {
		return nil, fmt.Sprintf("%T has no slice fields tmp1 / tmp2", m)
	}
	n, k := m.Dims()
	return []int{n, k, f1.Len(), f1.Cap(), f2.Len(), f2.Cap()}, ""
}

func (c *TmpCase) exec() {
	c.Trace, c.Lost = nil, ""
	var m ad.Matrix
	step := func(f func()) bool {
		kind, _ := guarded(f)
		if kind != 0 {
			c.Trace = append(c.Trace, []int{})
			return false
		}
		h, lost := tmpRead(m)
		if lost != "" {
			c.Lost = lost
			c.Trace = append(c.Trace, []int{})
			return false
		}
		c.Trace = append(c.Trace, h)
		return true
	}
	if !step(func() {
		if c.Kind == "real32" {
			m = ad.NullDenseReal32Matrix(c.N, c.M)
		} else {
			m = ad.NullDenseReal64Matrix(c.N, c.M)
		}
	}) {
		return
	}
	for _, o := range c.Ops {
		o := o
		if !step(func() {
			switch o.Op {
			case "slice":
				m = m.Slice(o.RF, o.RT, o.CF, o.CT)
			case "T":
				m = m.T()
			case "Tip":
				m.Tip()
			default:
				m = m.CloneMatrix()
			}
		}) {
			return
		}
	}
}

func (c *TmpCase) Coq() string {
	var ops, tr []string
	for _, o := range c.Ops {
		switch o.Op {
		case "slice":
			ops = append(ops, fmt.Sprintf("TSlice %s %s %s %s", Z(int64(o.RF)), Z(int64(o.RT)), Z(int64(o.CF)), Z(int64(o.CT))))
		case "T":
			ops = append(ops, "TT")
		case "Tip":
			ops = append(ops, "TTip")
		default:
			ops = append(ops, "TClone")
		}
	}
	for _, h := range c.Trace {
		if len(h) != 6 {
			tr = append(tr, "None")
			continue
		}
		var f []string
		for _, x := range h {
			f = append(f, Z(int64(x)))
		}
		tr = append(tr, "Some (mkT "+strings.Join(f, " ")+")")
	}
	return fmt.Sprintf("(mkTC %s %s [%s] [%s])", Z(int64(c.N)), Z(int64(c.M)), strings.Join(ops, "; "), strings.Join(tr, "; "))
}
func (c *TmpCase) key() string { return fmt.Sprint(c.Kind, c.N, c.M, c.Ops) }

// Tip() follows the cycles of k -> rows*k mod (mn-1) over the WHOLE backing array: on a sliced view that walk
// need not return (C10's business), so Tip is generated on unsliced matrices and on transposed views (flag flip) only
func genTmp(r *Rng) *TmpCase {
	c := &TmpCase{Kind: []string{"real64", "real32"}[r.Intn(2)], N: r.Range(0, 4), M: r.Range(0, 4)}
	if r.Intn(3) != 0 { // mostly non-square
		for c.N == c.M {
			c.M = r.Range(0, 4)
		}
	}
	rows, cols, sliced, transposed := c.N, c.M, false, false
	for k := r.Range(1, 5); k > 0; k-- {
		switch r.Pick([]int{30, 25, 30, 15}) {
		case 0:
			rf := r.Range(0, rows)
			rt := r.Range(rf, rows)
			cf := r.Range(0, cols)
			ct := r.Range(cf, cols)
			c.Ops = append(c.Ops, TmpOp{Op: "slice", RF: rf, RT: rt, CF: cf, CT: ct})
			rows, cols, sliced = rt-rf, ct-cf, true
		case 1:
			c.Ops = append(c.Ops, TmpOp{Op: "T"})
			rows, cols, transposed = cols, rows, !transposed
		case 2:
			if sliced && !transposed {
				continue
			}
			c.Ops = append(c.Ops, TmpOp{Op: "Tip"})
			rows, cols, transposed = cols, rows, false
		default:
			c.Ops = append(c.Ops, TmpOp{Op: "clone"})
		}
	}
	return c
}

func (c *TmpCase) hasTipOnNonSquare() bool {
	for i, o := range c.Ops {
		if o.Op == "Tip" && len(c.Trace) > i && len(c.Trace[i]) == 6 && c.Trace[i][0] != c.Trace[i][1] {
			return true
		}
	}
	return false
}
