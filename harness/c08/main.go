// C08 harness: results do not depend on the receiver aliasing an operand.
//   (default)        correspondence cases:
//                      cases_*.v  scalar single steps under every alias pattern (format of C01.Corr)
//                      mat_*.v    matrix / vector calls on shared storage (format of C08.Corr)
//                      sp_*.v     sparse containers (sparse.go): histories + one aliased call, all nine element
//                                 types, every stored pattern of the receiver (format of C08.CorrS on C03.ModelM)
//   --extra hunt     the property's own observable on the implementation: aliased call vs. the same
//                    call on a fresh receiver with cloned operands; exhaustive over alias patterns x
//                    orders {0,1,2}^2 x N <= 2 for every scalar operation, random views for matrices;
//                    writes hunt.json
//   --replay f.json  re-execute one reported case
package main

import (
	"encoding/json"
	"fmt"
	"os"
	"path/filepath"
	"sort"
	"strings"

	. "adharness/common"
)

const hdrScalar = "From Coq Require Import ZArith QArith List Bool Floats. Import ListNotations.\nFrom ADV Require Import Base.Fl C01.Model C01.Corr.\nOpen Scope nat_scope.\n"
const hdrMat = "From Coq Require Import ZArith List Bool. Import ListNotations.\nFrom ADV Require Import C10.Gen C10.Model C08.Model C08.Corr.\nOpen Scope Z_scope.\n"

func main() {
	o := ParseFlags()
	switch {
	case o.Extra == "hunt":
		hunt(o)
		return
	case o.Replay != "":
		replay(o)
		return
	}
	corr(o)
}

type corpusLine struct {
	Scen *Scen    `json:"scen,omitempty"`
	Mat  *MatCase `json:"mat,omitempty"`
	Sp   *SpCase  `json:"sp,omitempty"`
	Sc   *ScCase  `json:"sc,omitempty"`
	Hist *HistCase `json:"hist,omitempty"`
	Tmp  *TmpCase `json:"tmp,omitempty"`
}

func readCorpus(path string) []corpusLine {
	var out []corpusLine
	b, err := os.ReadFile(path)
	if err != nil {
		return nil
	}
	for _, line := range strings.Split(string(b), "\n") {
		line = strings.TrimSpace(line)
		if line == "" || strings.HasPrefix(line, "#") {
			continue
		}
		var c corpusLine
		if err := json.Unmarshal([]byte(line), &c); err != nil {
			Die("corpus: %v", err)
		}
		out = append(out, c)
	}
	return out
}

func fixScen(s *Scen) {
	if s.Ins.Par == 0 {
		s.Ins.Par = float64(s.Ins.ParJ)
	}
}

func corr(o Opts) {
	w := NewCaseWriter(o.Out, "cases", hdrScalar, "mism", 120)
	w.Type = "case"
	w.Rule = "scalar: one operation under one alias pattern of receiver/operands/temporary (c=r|x|y, a=x|const, b=y|x|const, t=t|x|y), operand orders {0,1,2}^2, N in {1,2} (+ exotic Order 0/N>0, Order>=1/N=0), Real64 and Real32, receiver fresh / stale / other shape; non-trivial iff the receiver (or temporary) is an operand, or the call panics; distinct = (op, pattern, shapes, kind)"
	emit := func(s *Scen, tag string) {
		fixScen(s)
		c := caseOf(s)
		if c.Kind == 3 {
			w.Count("skipped:panic inside a special function")
			return
		}
		alias := s.Ins.C == s.Ins.A || (arity(s.Op) == 2 && s.Ins.C == s.Ins.B) ||
			(len(s.Ins.T) > 0 && (s.Ins.T[0] == s.Ins.A || (arity(s.Op) == 2 && s.Ins.T[0] == s.Ins.B)))
		if isRed(s.Op) {
			alias = s.Pat != "r=none"
		}
		w.Add(coqCase(c), corpusLine{Scen: s}, s.key(), alias || c.Kind != 0)
		w.Count("op:" + s.Op)
		w.Count("pattern:" + s.Pat)
		w.Count(fmt.Sprintf("outcome:%d", c.Kind))
		w.Count("stream:" + tag)
	}
	mw := NewCaseWriter(o.Out, "mat", hdrMat, "mmism", 150)
	mw.Type = "mcase"
	mw.Rule = "matrix/vector: one call (MdotM, MDOTM, MaddM/MsubM/MmulM, VaddV/VsubV/VmulV, MdotV, VdotM; DenseFloat64 and DenseReal64 matrices) whose receiver and operands are views (Slice/T chains, sub-slices) of shared integer-valued storages chosen by alias pattern; non-trivial iff the receiver shares storage with an operand; distinct = (call, pattern, headers)"
	memit := func(c *MatCase) {
		c.exec()
		site, _ := c.site()
		key := c.Call + "|" + c.typName() + "|" + c.Pat + "|" + fmt.Sprint(c.Hdr, c.VR, c.VA, c.VB)
		mw.Add(c.Coq(), corpusLine{Mat: c}, key, c.Pat != "none" && c.Pat != "dims")
		mw.Count("call:" + c.Call)
		mw.Count("type:" + c.typName())
		mw.Count("pattern:" + c.Call + ":" + c.Pat)
		mw.Count("site:" + site)
		if c.Panic {
			mw.Count("outcome:panic")
		}
	}
	sw := NewCaseWriter(o.Out, "sp", hdrSp, "smism", 60)
	sw.Type = "scase"
	sw.Rule = "sparse containers: a history building sparse/dense vectors and matrices (receiver stored pattern: nothing stored / nothing at index 0 / value at 0 / explicit zero at 0 / only index 0 / full / only an explicit zero at 0 / dimension 0), then ONE call: MdotV, VdotM (sparse and dense receiver identical to the vector operand, or distinct operands with a stale receiver), sparse MdotM (r=a, r=b, r=a=b, none), VaddV/VsubV/VmulV, MaddM/MsubM/MmulM (r=a, r=b, r=a=b, none), VaddS/VmulS (r=a); all nine element types; values -3..3; non-trivial iff the receiver is an operand; distinct = (type, call, pattern, store, ops)"
	semit := func(c *SpCase, tag string) {
		c.execute()
		sw.Add(c.Coq(), corpusLine{Sp: c}, c.key(), c.Pat != "none")
		sw.Count("call:" + c.Call)
		sw.Count("type:" + c.Type)
		sw.Count("pattern:" + c.Call + ":" + c.Pat + ":" + c.Recv)
		sw.Count("store:" + c.Store)
		sw.Count("stream:" + tag)
		if c.Outs[len(c.Outs)-1].K == spPANIC {
			sw.Count("outcome:panic:" + c.Call + ":" + c.Pat)
		} else {
			sw.Count("outcome:returns:" + c.Call + ":" + c.Pat)
		}
	}
	cw := NewCaseWriter(o.Out, "sc", hdrSc, "scmism", 150)
	cw.Type = "sccase"
	cw.Rule = "scalar operand is a cell: one call r.V<op>S(a, s) / r.M<op>S(a, s) (generic and concrete VADDS.. / MADDS..) on DENSE containers of all nine element types, receiver and operand views (slices, Slice/T) of shared integer-valued storages, op in + - *; the scalar is r.At(k) (k random / first / last), a.At(k), or a lone scalar object; operand = receiver or another storage; whole heap compared; non-trivial iff the scalar is a cell of the receiver or of the operand; distinct = full case"
	cemit := func(c *ScCase, tag string) {
		c.exec()
		cw.Add(c.Coq(), corpusLine{Sc: c}, c.key(), c.SW != 2)
		cw.Count("call:" + c.name())
		cw.Count("type:" + c.Typ)
		cw.Count("pattern:" + c.Pat)
		cw.Count("stream:" + tag)
		if c.Mat {
			cw.Count("container:matrix")
		} else {
			cw.Count("container:vector")
		}
		if c.Fell {
			cw.Count("concrete-twin-missing:" + c.name() + ":" + c.Typ)
		}
		if c.Panic {
			cw.Count("outcome:panic")
		}
	}
	// committed corpus first
	for _, c := range readCorpus(o.Extra) {
		if c.Sc != nil {
			m := *c.Sc
			if !m.Sparse && m.Op < 3 {
				cemit(&m, "corpus")
			}
		}
		if c.Sp != nil {
			m := *c.Sp
			m.Outs = nil
			semit(&m, "corpus")
		}
		if c.Scen != nil {
			emit(c.Scen, "corpus")
		}
		if c.Mat != nil {
			m := *c.Mat
			m.Panic, m.Post, m.Hdr = false, nil, [3][]int{}
			memit(&m)
		}
	}
	full := o.Tier == "thorough"
	all := scenarios(o.Seed, full)
	// quick tier: every aliased scenario class once (op x pattern), the rest sampled by the seed
	r := NewRng(o.Seed)
	want := o.N
	if full {
		want = len(all)
	}
	seen := map[string]bool{}
	var rest []int
	for i := range all {
		k := all[i].Op + "|" + all[i].Pat
		if !seen[k] && all[i].Regs[rX].Order == 2 && (arity(all[i].Op) == 1 || all[i].Regs[rY].Order == 2) && all[i].Kind == K64 {
			seen[k] = true
			emit(&all[i], "one-per-class")
		} else {
			rest = append(rest, i)
		}
	}
	for i := len(rest) - 1; i > 0; i-- { // shuffle
		j := r.Intn(i + 1)
		rest[i], rest[j] = rest[j], rest[i]
	}
	if want > len(rest) {
		want = len(rest)
	}
	pick := rest[:want]
	sort.Ints(pick)
	for _, i := range pick {
		emit(&all[i], "sampled")
	}
	// reductions with the receiver / a scratch argument among the vector elements (all of them: 7 ops x patterns x orders x kinds)
	reds := redScenarios(o.Seed)
	for i := range reds {
		if !full && reds[i].Kind == K32 && i%2 == 1 {
			continue
		}
		emit(&reds[i], "reduction")
	}
	// receivers re-used over a history of orders: every step is a single-step case
	hemit := func(h *HistCase, tag string) {
		for i, c := range histCorr(h) {
			if c.Kind == 3 {
				continue
			}
			w.Add(coqCase(c), corpusLine{Hist: h}, fmt.Sprintf("%s#%d", h.key(), i), true)
			w.Count("op:" + c.Ins.Op)
			w.Count("pattern:history-step")
			w.Count(fmt.Sprintf("outcome:%d", c.Kind))
			w.Count("stream:" + tag)
		}
		w.Count("histories")
	}
	for _, c := range readCorpus(o.Extra) {
		if c.Hist != nil {
			hemit(c.Hist, "history-corpus")
		}
	}
	for _, h := range histAll(o.Seed, full) {
		hemit(h, "history")
	}
	w.Extra["scenarios_total"] = len(all) + len(reds)
	if err := w.Flush(); err != nil {
		Die("%v", err)
	}
	// matrices / vectors
	nm := o.N
	mr := NewRng(o.Seed + 808)
	for k := 0; k < nm; k++ {
		switch mr.Pick([]int{55, 20, 25}) {
		case 0:
			pat := matPatterns[k%len(matPatterns)]
			c, ok := genMdotM(mr.Split(), pat, mr.Intn(3) == 0, mr.Intn(3) == 0)
			if ok {
				c.Typ = pickTyp(mr, c.Real)
				memit(c)
			}
		case 1:
			c := genEw(mr.Split(), mr.Intn(3) == 0)
			c.Typ = pickTyp(mr, c.Real)
			memit(c)
		default:
			memit(genVec(mr.Split()))
		}
	}
	if err := mw.Flush(); err != nil {
		Die("%v", err)
	}
	// sparse containers: products complete for every element type, element-wise thinned out in the quick tier
	for ti, tn := range spTypes {
		for _, c := range spCases(o.Seed+uint64(ti)*7919, tn, full) {
			semit(c, "generated")
		}
	}
	if err := sw.Flush(); err != nil {
		Die("%v", err)
	}
	// scalar operand = a cell of the receiver / of the operand (dense; the sparse ones are in the hunt)
	for _, c := range scCorrCases(o.Seed, full) {
		cemit(c, "generated")
	}
	if err := cw.Flush(); err != nil {
		Die("%v", err)
	}
	// buffers tmp1 / tmp2 of the Real matrices through Slice / T / Tip / Clone histories
	tw := NewCaseWriter(o.Out, "tmp", hdrTmp, "tmism", 400)
	tw.Type = "tcase"
	tw.Rule = "buffer stream: NullDenseReal64Matrix / NullDenseReal32Matrix (0..4 x 0..4, mostly non-square), then 1..5 of Slice (valid ranges, empty included) / T / Tip (unsliced or transposed matrices) / CloneMatrix; after every step rows, cols and whether tmp1 holds rows / tmp2 holds cols (cap) compared; non-trivial iff Tip runs on a non-square matrix; distinct = (type, shape, operations)"
	tr := NewRng(o.Seed + 7070)
	nt := 300
	if full {
		nt = 3000
	}
	var tcs []*TmpCase
	for _, c := range readCorpus(o.Extra) {
		if c.Tmp != nil {
			m := *c.Tmp
			tcs = append(tcs, &m)
		}
	}
	for k := 0; k < nt; k++ {
		tcs = append(tcs, genTmp(tr.Split()))
	}
	for _, c := range tcs {
		c.exec()
		if c.Lost != "" {
			Die("tie lost: %s", c.Lost)
		}
		tw.Add(c.Coq(), corpusLine{Tmp: c}, c.key(), c.hasTipOnNonSquare())
		tw.Count("type:" + c.Kind)
		for _, op := range c.Ops {
			tw.Count("op:" + op.Op)
		}
		if c.hasTipOnNonSquare() {
			tw.Count("Tip-on-non-square")
		}
	}
	if err := tw.Flush(); err != nil {
		Die("%v", err)
	}
}

// ---------------------------------------------------------------- hunt
type huntOut struct {
	Found     bool              `json:"found"`
	Hits      []HuntHit         `json:"hits"`
	Points    int               `json:"points"`
	Aliased   int               `json:"aliased_points"`
	TmpUnsafe map[string]int    `json:"tmp_alias_unsafe"` // characterised, not a defect: a scratch argument that is an operand
	BySite    map[string][2]int `json:"by_site"`          // site -> (points, disagreements)
}

func hunt(o Opts) {
	out := huntOut{TmpUnsafe: map[string]int{}, BySite: map[string][2]int{}}
	seenSite := map[string]bool{}
	add := func(h HuntHit) {
		if seenSite[h.Site] {
			return // one (the first = smallest shapes first) witness per site
		}
		seenSite[h.Site] = true
		out.Hits = append(out.Hits, h)
	}
	all := scenarios(o.Seed, true)
	for i := range all {
		s := &all[i]
		site := s.site()
		tmpAlias := strings.HasPrefix(site, "tmp-alias:")
		var same bool
		var al, fr RegSnap
		var ka, kf int
		if tmpAlias {
			same, al, fr, ka, kf = tmpVsSeparate(s)
		} else {
			same, al, fr, ka, kf = aliasedVsFresh(s)
		}
		if ka == 3 || kf == 3 {
			continue
		}
		out.Points++
		if !strings.HasPrefix(site, "no-alias:") {
			out.Aliased++
		}
		if tmpAlias {
			if s.tmpExpect() {
				site += "|expected-safe"
			} else {
				site += "|expected-unsafe"
			}
		}
		st := out.BySite[site]
		st[0]++
		if !same {
			st[1]++
		}
		out.BySite[site] = st
		if same {
			continue
		}
		if tmpAlias {
			out.TmpUnsafe[site]++
			if !s.tmpExpect() { // characterised: unsafe class
				continue
			}
			site = "tmp-alias-characterised-safe:" + s.Op
		}
		add(HuntHit{Site: site, Scen: s, Failure: fmt.Sprintf("%s with %s (x: order %d N %d, y: order %d N %d, kind %d): aliased call leaves %s, fresh receiver holds %s",
			s.Op, s.Pat, s.Regs[rX].Order, s.Regs[rX].N, s.Regs[rY].Order, s.Regs[rY].N, s.Kind, regStr(al, ka), regStr(fr, kf)),
			Aliased: regStr(al, ka), Fresh: regStr(fr, kf)})
	}
	// reductions: receiver / scratch argument among the elements
	reds := redScenarios(o.Seed)
	for i := range reds {
		s := &reds[i]
		site := s.redSite()
		same, al, fr, ka, kf := redAliasedVsFresh(s)
		if ka == 3 || kf == 3 {
			continue
		}
		out.Points++
		if !strings.HasPrefix(site, "no-alias:") {
			out.Aliased++
		}
		st := out.BySite[site]
		st[0]++
		if !same {
			st[1]++
		}
		out.BySite[site] = st
		if same {
			continue
		}
		if strings.HasPrefix(site, "tmp-alias:") {
			out.TmpUnsafe[site]++
			continue
		}
		add(HuntHit{Site: site, Scen: s, Failure: fmt.Sprintf("%s with the receiver among the elements (%s, element order %d, kind %d): aliased call leaves %s, fresh receiver holds %s",
			s.Op, s.Pat, s.Regs[rE0].Order, s.Kind, regStr(al, ka), regStr(fr, kf)), Aliased: regStr(al, ka), Fresh: regStr(fr, kf)})
	}
	// matrices / vectors: random views, many more than the correspondence
	mr := NewRng(o.Seed + 909)
	for k := 0; k < o.N*10; k++ {
		var c *MatCase
		switch mr.Pick([]int{55, 20, 25}) {
		case 0:
			var ok bool
			c, ok = genMdotM(mr.Split(), matPatterns[k%len(matPatterns)], mr.Intn(3) == 0, mr.Intn(3) == 0)
			if !ok {
				continue
			}
			c.Typ = pickTyp(mr, c.Real)
		case 1:
			c = genEw(mr.Split(), mr.Intn(3) == 0)
			c.Typ = pickTyp(mr, c.Real)
		default:
			c = genVec(mr.Split())
		}
		if c.Pat == "dims" {
			continue
		}
		if h := matOracle(c); h != nil {
			st := out.BySite[h.Site]
			st[1]++
			out.BySite[h.Site] = st
			add(*h)
		}
		site, _ := c.site()
		st := out.BySite[site]
		st[0]++
		out.BySite[site] = st
		out.Points++
		if c.Pat != "none" {
			out.Aliased++
		}
	}
	// sparse containers: several seeds per element type, every (call, pattern, stored pattern)
	reps := 2
	if o.N >= 1000 {
		reps = 8
	}
	for rep := 0; rep < reps; rep++ {
		for ti, tn := range spTypes {
			for _, c := range spCases(o.Seed+uint64(ti)*7919+uint64(rep)*104729, tn, true) {
				site := "sparse:" + c.Call + ":" + c.Pat + ":" + c.Recv
				st := out.BySite[site]
				st[0]++
				out.Points++
				if c.Pat != "none" {
					out.Aliased++
				}
				if h := spOracle(c); h != nil {
					st[1]++
					add(*h)
				}
				out.BySite[site] = st
			}
		}
	}
	jetHunt(o.Seed, o.N, &out, add)
	vpHunt(o.Seed, &out, add)
	scHunt(o.Seed, o.N, &out, add)
	histHunt(o.Seed, o.N, &out, add)
	out.Found = len(out.Hits) > 0
	b, _ := json.MarshalIndent(out, "", " ")
	if err := os.WriteFile(filepath.Join(o.Out, "hunt.json"), b, 0644); err != nil {
		Die("%v", err)
	}
}

// pickTyp: the element type of the matrices of a case (Float64 / Real64 when empty)
func pickTyp(r *Rng, real bool) string {
	if real {
		return []string{"", "", "real32"}[r.Intn(3)]
	}
	return []string{"", "", "int", "int32", "float32"}[r.Intn(5)]
}
func (c *MatCase) typName() string {
	if c.Typ != "" {
		return c.Typ
	}
	if c.Real {
		return "real64"
	}
	return "float64"
}

// tmpVsSeparate: a call whose scratch argument is an operand against the same call with a separate scratch.
func tmpVsSeparate(s *Scen) (same bool, al, fr RegSnap, ka, kf int) {
	regs := s.restoreAll()
	in := s.Ins
	ka = execGo(regs, &in)
	al = normOf(snap(regs[in.C]))
	regs2 := s.restoreAll()
	regs2[8] = newMagic(s.Kind, 0)
	in2 := s.Ins
	in2.T = []int{8}
	kf = execGo(regs2, &in2)
	fr = normOf(snap(regs2[in2.C]))
	if ka != 0 && kf != 0 {
		return true, al, fr, ka, kf
	}
	if ka != kf {
		return false, al, fr, ka, kf
	}
	return snapEq(al, fr), al, fr, ka, kf
}

func matOracle(c *MatCase) *HuntHit {
	site, _ := c.site()
	al, pa := c.aliasedResult()
	fr, pf := c.freshReference()
	rejected := strings.HasSuffix(site, ":rejected")
	ok := pa == pf
	if rejected {
		ok = pa // the API must reject this aliasing with a panic
	} else if ok && !pa {
		if len(al) != len(fr) {
			ok = false
		}
		for i := range al {
			if i < len(fr) && al[i] != fr[i] {
				ok = false
			}
		}
	}
	if ok {
		return nil
	}
	cc := *c
	return &HuntHit{Site: site, Mat: &cc, Failure: fmt.Sprintf("%s pattern %s: aliased call gives %v (panic %v), fresh receiver on clones %v (panic %v)", c.Call, c.Pat, al, pa, fr, pf),
		Aliased: fmt.Sprint(al, pa), Fresh: fmt.Sprint(fr, pf)}
}

// ---------------------------------------------------------------- replay
func replay(o Opts) {
	b, err := os.ReadFile(o.Replay)
	if err != nil {
		Die("%v", err)
	}
	var rp struct {
		Case *corpusLine `json:"case"`
		Hunt *HuntHit    `json:"hunt"`
	}
	if err := json.Unmarshal(b, &rp); err != nil {
		Die("%v", err)
	}
	res := map[string]interface{}{}
	if rp.Case != nil {
		if rp.Case.Scen != nil {
			fixScen(rp.Case.Scen)
			w := NewCaseWriter(o.Out, "replay", hdrScalar, "mism", 1000)
			w.Type = "case"
			w.Add(coqCase(caseOf(rp.Case.Scen)), rp.Case, "replay", true)
			w.Flush()
		}
		if rp.Case.Mat != nil {
			m := *rp.Case.Mat
			m.Panic, m.Post, m.Hdr = false, nil, [3][]int{}
			m.exec()
			w := NewCaseWriter(o.Out, "replay", hdrMat, "mmism", 1000)
			w.Type = "mcase"
			w.Add(m.Coq(), rp.Case, "replay", true)
			w.Flush()
		}
		if rp.Case.Hist != nil {
			w := NewCaseWriter(o.Out, "replay", hdrScalar, "mism", 1000)
			w.Type = "case"
			for i, c := range histCorr(rp.Case.Hist) {
				if c.Kind != 3 {
					w.Add(coqCase(c), rp.Case, fmt.Sprintf("replay#%d", i), true)
				}
			}
			w.Flush()
		}
		if rp.Case.Sc != nil {
			m := *rp.Case.Sc
			m.exec()
			w := NewCaseWriter(o.Out, "replay", hdrSc, "scmism", 1000)
			w.Type = "sccase"
			w.Add(m.Coq(), rp.Case, "replay", true)
			w.Flush()
		}
		if rp.Case.Tmp != nil {
			m := *rp.Case.Tmp
			m.exec()
			w := NewCaseWriter(o.Out, "replay", hdrTmp, "tmism", 1000)
			w.Type = "tcase"
			w.Add(m.Coq(), rp.Case, "replay", true)
			w.Flush()
		}
		if rp.Case.Sp != nil {
			m := *rp.Case.Sp
			m.Outs = nil
			m.execute()
			w := NewCaseWriter(o.Out, "replay", hdrSp, "smism", 1000)
			w.Type = "scase"
			w.Add(m.Coq(), rp.Case, "replay", true)
			w.Flush()
		}
		res["case_reexecuted"] = true
	}
	if rp.Hunt != nil {
		still := false
		fail := ""
		if rp.Hunt.Scen != nil {
			fixScen(rp.Hunt.Scen)
			avf := aliasedVsFresh
			if isRed(rp.Hunt.Scen.Op) {
				avf = redAliasedVsFresh
			}
			same, al, fr, ka, kf := avf(rp.Hunt.Scen)
			still = !same
			fail = fmt.Sprintf("aliased %s, fresh %s", regStr(al, ka), regStr(fr, kf))
		}
		if rp.Hunt.Mat != nil {
			if h := matOracle(rp.Hunt.Mat); h != nil {
				still, fail = true, h.Failure
			}
		}
		if rp.Hunt.VP != nil {
			if h := vpOracle(rp.Hunt.VP); h != nil {
				still, fail = true, h.Failure
			}
		}
		if rp.Hunt.Sp != nil {
			if h := spOracle(rp.Hunt.Sp); h != nil {
				still, fail = true, h.Failure
			}
		}
		if rp.Hunt.Hist != nil {
			same, al, fr, ka, kf := histOracle(rp.Hunt.Hist)
			still = !same
			fail = fmt.Sprintf("aliased %s, fresh %s", regStr(al, ka), regStr(fr, kf))
		}
		if rp.Hunt.Sc != nil {
			if v := scOracle(rp.Hunt.Sc); v != nil {
				still, fail = true, v.Failure
			}
		}
		if rp.Hunt.Jet != nil {
			kind, pat, conc, n, A, B, _ := jetCase(rp.Hunt.Jet.Seed, rp.Hunt.Jet.Index)
			if ok, why, _ := jetRun(kind, pat, conc, n, A, B); !ok {
				still, fail = true, why
			}
		}
		res["hunt_still_fails"] = still
		res["failure"] = fail
	}
	jb, _ := json.MarshalIndent(res, "", " ")
	os.WriteFile(filepath.Join(o.Out, "replay_result.json"), jb, 0644)
}
