// C08 harness, sparse containers: in-place products and element-wise operations whose receiver is
// one of the operands, on sparse (and whole dense) vectors / matrices of all nine element types.
//
// One case = a short history that builds a world (sparse vectors with a chosen STORED PATTERN:
// nothing stored, nothing at index 0, a value at 0, an explicit zero at 0, only index 0, full,
// dimension 0; sparse / dense matrices likewise) followed by ONE call under an alias pattern
// (r=a, r=b, r=a=b, none).  Correspondence: the history is replayed by the shared models
// coq/C11/Model.v + coq/C03/Model.v + ModelM.v (C08.CorrS.scheck): per step the outcome kind
// (returned / panicked), the payload and a checksum of the observation of the WHOLE world (for
// sparse vectors Dim, every ConstAt, the private map and AVL index keys through the read-only
// hook VerifC11Dump — so the entry that AT(0) inserts before an alias rejection is seen —, the
// iteration sequence of a clone; dense vectors and matrices element by element).
// Hunt (spOracle): the aliased call against the same call on a FRESH receiver; "rejected by a
// panic" is admissible only where the API at HEAD rejects (spRejects) and only if the world
// reads as before.
package main

import (
	"fmt"
	"math"

	. "adharness/common"

	ad "github.com/pbenner/autodiff"
)

const hdrSp = "From Coq Require Import ZArith List Bool. Import ListNotations.\nFrom ADV Require Import C11.Model C03.Model C03.ModelM C08.CorrS.\nOpen Scope Z_scope.\n"

const (
	spOK    = 0
	spPANIC = 1
	spSEP   = -7771
	spHP    = 2147483647
	spCPANIC = 99991
	spCNIL   = 99992
	spCCLONE = 99993
	spCLOOP  = 99994
)

var spTypes = []string{"float64", "int", "real64", "float32", "real32", "int64", "int32", "int16", "int8"}

// SpRef names an object of the world: vectors: sparse handle (S) or dense handle; matrices likewise.
type SpRef struct {
	S bool `json:"s"`
	H int  `json:"h"`
}

// SpOp is one step of a history (constructor names of C03.Model.op3 / C03.ModelM.mop4).
type SpOp struct {
	Op string  `json:"op"`
	R  SpRef   `json:"r"`  // vector refs
	A  SpRef   `json:"a"`
	B  SpRef   `json:"b"`
	MR SpRef   `json:"mr"` // matrix refs
	MA SpRef   `json:"ma"`
	MB SpRef   `json:"mb"`
	F  string  `json:"f,omitempty"` // Add | Sub | Mul
	I  int64   `json:"i,omitempty"`
	X  int64   `json:"x,omitempty"`
	N  int64   `json:"n,omitempty"`
	M  int64   `json:"m,omitempty"`
	L  []int64 `json:"l,omitempty"`
	L2 []int64 `json:"l2,omitempty"`
}
type SpOut struct {
	K int64   `json:"k"`
	P []int64 `json:"p"`
	H int64   `json:"h"`
}

// SpCase: Ops[len-1] is the call under test.
type SpCase struct {
	Type  string  `json:"type"`
	Call  string  `json:"call"`
	Pat   string  `json:"pat"`   // alias pattern
	Store string  `json:"store"` // stored pattern of the receiver
	Recv  string  `json:"recv"`  // sparse | dense
	Ops   []SpOp  `json:"ops"`
	Outs  []SpOut `json:"outs,omitempty"`
}

func spCoqTy(name string) string {
	switch name {
	case "real64", "real32":
		return "TReal"
	case "float64", "float32":
		return "TFloat"
	}
	return "TInt"
}
func spScalarType(name string) ad.ScalarType {
	switch name {
	case "float64":
		return ad.Float64Type
	case "float32":
		return ad.Float32Type
	case "int":
		return ad.IntType
	case "int8":
		return ad.Int8Type
	case "int16":
		return ad.Int16Type
	case "int32":
		return ad.Int32Type
	case "int64":
		return ad.Int64Type
	case "real32":
		return ad.Real32Type
	case "real64":
		return ad.Real64Type
	}
	Die("unknown element type %s", name)
	return nil
}
func spInts(l []int64) []int {
	r := make([]int, len(l))
	for i, x := range l {
		r[i] = int(x)
	}
	return r
}
func spF64(l []int64) []float64 {
	r := make([]float64, len(l))
	for i, x := range l {
		r[i] = float64(x)
	}
	return r
}
func spF32(l []int64) []float32 {
	r := make([]float32, len(l))
	for i, x := range l {
		r[i] = float32(x)
	}
	return r
}
func spNewSparse(name string, ks []int64, xs []int64, n int) ad.Vector {
	k := spInts(ks)
	switch name {
	case "float64":
		return ad.NewSparseFloat64Vector(k, spF64(xs), n)
	case "float32":
		return ad.NewSparseFloat32Vector(k, spF32(xs), n)
	case "int":
		return ad.NewSparseIntVector(k, spInts(xs), n)
	case "int8":
		v := make([]int8, len(xs))
		for i, x := range xs {
			v[i] = int8(x)
		}
		return ad.NewSparseInt8Vector(k, v, n)
	case "int16":
		v := make([]int16, len(xs))
		for i, x := range xs {
			v[i] = int16(x)
		}
		return ad.NewSparseInt16Vector(k, v, n)
	case "int32":
		v := make([]int32, len(xs))
		for i, x := range xs {
			v[i] = int32(x)
		}
		return ad.NewSparseInt32Vector(k, v, n)
	case "int64":
		return ad.NewSparseInt64Vector(k, append([]int64{}, xs...), n)
	case "real32":
		return ad.NewSparseReal32Vector(k, spF32(xs), n)
	case "real64":
		return ad.NewSparseReal64Vector(k, spF64(xs), n)
	}
	Die("unknown element type %s", name)
	return nil
}
func spNewDense(name string, xs []int64) ad.Vector {
	switch name {
	case "float64":
		return ad.NewDenseFloat64Vector(spF64(xs))
	case "float32":
		return ad.NewDenseFloat32Vector(spF32(xs))
	case "int":
		return ad.NewDenseIntVector(spInts(xs))
	case "int8":
		v := make([]int8, len(xs))
		for i, x := range xs {
			v[i] = int8(x)
		}
		return ad.NewDenseInt8Vector(v)
	case "int16":
		v := make([]int16, len(xs))
		for i, x := range xs {
			v[i] = int16(x)
		}
		return ad.NewDenseInt16Vector(v)
	case "int32":
		v := make([]int32, len(xs))
		for i, x := range xs {
			v[i] = int32(x)
		}
		return ad.NewDenseInt32Vector(v)
	case "int64":
		return ad.NewDenseInt64Vector(append([]int64{}, xs...))
	case "real32":
		return ad.NewDenseReal32Vector(spF32(xs))
	case "real64":
		return ad.NewDenseReal64Vector(spF64(xs))
	}
	Die("unknown element type %s", name)
	return nil
}
func spCode(x float64) int64 {
	switch {
	case math.IsNaN(x):
		return 999999937
	case math.IsInf(x, 1):
		return 999999938
	case math.IsInf(x, -1):
		return 999999939
	}
	return int64(x)
}

// ---------------------------------------------------------------- the world
type spWorld struct {
	Type string
	S    []ad.Vector // sparse vectors (the values vectors of the sparse matrices are among them)
	D    []ad.Vector
	SM   []ad.Matrix
	SMh  []int
	DM   []ad.Matrix
}

func (w *spWorld) vec(r SpRef) ad.Vector {
	if r.S {
		return w.S[r.H]
	}
	return w.D[r.H]
}
func (w *spWorld) mat(r SpRef) ad.Matrix {
	if r.S {
		return w.SM[r.H]
	}
	return w.DM[r.H]
}
func (w *spWorld) addSM(m ad.Matrix) {
	w.S = append(w.S, m.AsVector())
	w.SMh = append(w.SMh, len(w.S)-1)
	w.SM = append(w.SM, m)
}

func (w *spWorld) exec(o SpOp) (kind int64, payload []int64) {
	payload = []int64{}
	defer func() {
		if r := recover(); r != nil {
			kind = spPANIC
			payload = []int64{}
		}
	}()
	st := spScalarType(w.Type)
	switch o.Op {
	case "NewS":
		w.S = append(w.S, spNewSparse(w.Type, o.L, o.L2, int(o.I)))
	case "NewD":
		w.D = append(w.D, spNewDense(w.Type, o.L))
	case "SetAt":
		w.vec(o.R).At(int(o.I)).SetFloat64(float64(o.X))
	case "NewSM":
		m := ad.NullSparseMatrix(st, int(o.N), int(o.M))
		for i, k := range o.L {
			if o.L2[i] != 0 {
				m.At(int(k/o.M), int(k%o.M)).SetFloat64(float64(o.L2[i]))
			}
		}
		w.addSM(m)
	case "NewDM":
		m := ad.NullDenseMatrix(st, int(o.N), int(o.M))
		for k, x := range o.L {
			m.At(k/int(o.M), k%int(o.M)).SetFloat64(float64(x))
		}
		w.DM = append(w.DM, m)
	case "MSetAt":
		m := w.mat(o.MR)
		_, c := m.Dims()
		if c == 0 || o.I < 0 {
			panic("index")
		}
		m.At(int(o.I)/c, int(o.I)%c).SetFloat64(float64(o.X))
	case "VopV":
		r, a, b := w.vec(o.R), w.vec(o.A), w.vec(o.B)
		switch o.F {
		case "Add":
			r.VaddV(a, b)
		case "Sub":
			r.VsubV(a, b)
		default:
			r.VmulV(a, b)
		}
	case "VaddS":
		w.vec(o.R).VaddS(w.vec(o.A), ad.NewScalar(st, float64(o.X)))
	case "VmulS":
		w.vec(o.R).VmulS(w.vec(o.A), ad.NewScalar(st, float64(o.X)))
	case "MopM":
		r, a, b := w.mat(o.MR), w.mat(o.MA), w.mat(o.MB)
		switch o.F {
		case "Add":
			r.MaddM(a, b)
		case "Sub":
			r.MsubM(a, b)
		default:
			r.MmulM(a, b)
		}
	case "MdotM":
		w.mat(o.MR).MdotM(w.mat(o.MA), w.mat(o.MB))
	case "MdotV":
		w.vec(o.R).MdotV(w.mat(o.MA), w.vec(o.B))
	case "VdotM":
		w.vec(o.R).VdotM(w.vec(o.A), w.mat(o.MB))
	default:
		Die("unknown sparse-stream op %s", o.Op)
	}
	return
}

// ---------------------------------------------------------------- observation (= C03.ModelM.obs4)
func spReadAt(v ad.Vector, i int) (x int64) {
	defer func() {
		if r := recover(); r != nil {
			x = spCPANIC
		}
	}()
	return spCode(v.Float64At(i))
}
func spCloneIter(v ad.Vector) (seq []int64) {
	seq = []int64{}
	defer func() {
		if r := recover(); r != nil {
			seq = []int64{spCCLONE}
		}
	}()
	c := v.CloneVector()
	g := 0
	for it := c.ConstIterator(); it.Ok(); it.Next() {
		seq = append(seq, int64(it.Index()), spCode(it.GetConst().GetFloat64()))
		if g++; g > 10000 {
			return []int64{spCLOOP}
		}
	}
	return seq
}
func spObserveVec(v ad.Vector, sparse bool) []int64 {
	n := v.Dim()
	f := []int64{int64(n), spSEP}
	for i := 0; i < n; i++ {
		f = append(f, spReadAt(v, i))
	}
	f = append(f, spSEP)
	if sparse {
		st := ad.VerifC11Dump(v)
		for _, e := range st.Entries {
			x := spCode(e.Value)
			if e.Nil {
				x = spCNIL
			}
			f = append(f, int64(e.Key), x)
		}
		f = append(f, spSEP)
		for _, k := range st.Index {
			f = append(f, int64(k))
		}
		f = append(f, spSEP)
		f = append(f, spCloneIter(v)...)
		f = append(f, spSEP)
	}
	return f
}
func spHash(h int64, l []int64) int64 {
	for _, x := range l {
		h = (h*1000003 + x + 12345) % spHP
		if h < 0 {
			h += spHP
		}
	}
	return h
}
func spReadM(m ad.Matrix) (int, int, []int64) {
	n, c := m.Dims()
	r := []int64{}
	for i := 0; i < n; i++ {
		for j := 0; j < c; j++ {
			r = append(r, spCode(m.Float64At(i, j)))
		}
	}
	return n, c, r
}
func (w *spWorld) observe() int64 {
	h := int64(17)
	for _, v := range w.S {
		h = spHash(h, spObserveVec(v, true))
	}
	h = spHash(h, []int64{spSEP, spSEP})
	for _, v := range w.D {
		h = spHash(h, spObserveVec(v, false))
	}
	h = spHash(h, []int64{spSEP, spSEP})
	for i, m := range w.SM {
		n, c := m.Dims()
		h = spHash(h, []int64{int64(w.SMh[i]), int64(n), int64(c), spSEP})
	}
	h = spHash(h, []int64{spSEP})
	for _, m := range w.DM {
		n, c, l := spReadM(m)
		h = spHash(h, []int64{int64(n), int64(c), spSEP})
		h = spHash(h, l)
		h = spHash(h, []int64{spSEP})
	}
	return h
}

// public observation: what a caller can read (Dim + every element of every object)
func (w *spWorld) public() [][]int64 {
	var out [][]int64
	rd := func(v ad.Vector) []int64 {
		l := []int64{int64(v.Dim())}
		for i := 0; i < v.Dim(); i++ {
			l = append(l, spReadAt(v, i))
		}
		return l
	}
	for _, v := range w.S {
		out = append(out, rd(v))
	}
	for _, v := range w.D {
		out = append(out, rd(v))
	}
	for _, m := range w.SM {
		n, c, l := spReadM(m)
		out = append(out, append([]int64{int64(n), int64(c)}, l...))
	}
	for _, m := range w.DM {
		n, c, l := spReadM(m)
		out = append(out, append([]int64{int64(n), int64(c)}, l...))
	}
	return out
}

func (c *SpCase) execute() {
	w := &spWorld{Type: c.Type}
	c.Outs = make([]SpOut, 0, len(c.Ops))
	for _, o := range c.Ops {
		k, p := w.exec(o)
		c.Outs = append(c.Outs, SpOut{k, p, w.observe()})
	}
}

// ---------------------------------------------------------------- Coq printing
func spV(r SpRef) string {
	if r.S {
		return fmt.Sprintf("(RS %d)", r.H)
	}
	return fmt.Sprintf("(RD %d)", r.H)
}
func spM(r SpRef) string {
	if r.S {
		return fmt.Sprintf("(XS %d)", r.H)
	}
	return fmt.Sprintf("(XD %d)", r.H)
}
func spCoqOp(o SpOp) string {
	switch o.Op {
	case "NewS":
		return fmt.Sprintf("V (NewS %s %s %s)", ZList(o.L), ZList(o.L2), Z(o.I))
	case "NewD":
		return "V (NewD " + ZList(o.L) + ")"
	case "SetAt":
		return fmt.Sprintf("V (C03.Model.SetAt %s %s %s)", spV(o.R), Z(o.I), Z(o.X))
	case "VopV":
		return fmt.Sprintf("V (VopV C03.Model.%s %s %s %s)", o.F, spV(o.R), spV(o.A), spV(o.B))
	case "VaddS", "VmulS":
		return fmt.Sprintf("V (%s %s %s %s)", o.Op, spV(o.R), spV(o.A), Z(o.X))
	case "NewSM":
		return fmt.Sprintf("NewSM %s %s %s %s", ZList(o.L), ZList(o.L2), Z(o.N), Z(o.M))
	case "NewDM":
		return fmt.Sprintf("NewDM %s %s %s", ZList(o.L), Z(o.N), Z(o.M))
	case "MSetAt":
		return fmt.Sprintf("MSetAt %s %s %s", spM(o.MR), Z(o.I), Z(o.X))
	case "MopM":
		return fmt.Sprintf("MopM C03.Model.%s %s %s %s", o.F, spM(o.MR), spM(o.MA), spM(o.MB))
	case "MdotM":
		return fmt.Sprintf("MdotM %s %s %s", spM(o.MR), spM(o.MA), spM(o.MB))
	case "MdotV":
		return fmt.Sprintf("MdotV %s %s %s", spV(o.R), spM(o.MA), spV(o.B))
	case "VdotM":
		return fmt.Sprintf("VdotM %s %s %s", spV(o.R), spV(o.A), spM(o.MB))
	}
	Die("spCoqOp: unknown op %s", o.Op)
	return ""
}
func (c *SpCase) Coq() string {
	ops := make([]string, len(c.Ops))
	for i, o := range c.Ops {
		ops[i] = spCoqOp(o)
	}
	outs := make([]string, len(c.Outs))
	for i, o := range c.Outs {
		outs[i] = fmt.Sprintf("(%s, %s, %s)", Z(o.K), ZList(o.P), Z(o.H))
	}
	return "(" + spCoqTy(c.Type) + ", " + List(ops) + ",\n   " + List(outs) + ")"
}
func (c *SpCase) key() string {
	return fmt.Sprint(c.Type, "|", c.Call, "|", c.Pat, "|", c.Store, "|", c.Recv, "|", c.Ops)
}

// ---------------------------------------------------------------- generator
// stored patterns of a length-n linear container (vector, or values vector of a matrix)
var spStores = []string{"nothing-stored", "nothing-at-0", "value-at-0", "explicit-zero-at-0", "only-0", "full", "explicit-zero-at-0-only"}

func spNZ(r *Rng) int64 {
	x := int64(r.Range(1, 3))
	if r.Intn(3) == 0 {
		x = -x
	}
	return x
}

// spPattern: (keys, values, index of an explicit zero or -1) for a container of length n > 0
func spPattern(r *Rng, store string, n int) (ks, xs []int64, zeroAt int64) {
	zeroAt = -1
	switch store {
	case "nothing-stored":
	case "nothing-at-0":
		for i := 1; i < n; i++ {
			if i == 1 || r.Intn(3) > 0 {
				ks, xs = append(ks, int64(i)), append(xs, spNZ(r))
			}
		}
	case "value-at-0":
		ks, xs = []int64{0}, []int64{spNZ(r)}
		for i := 1; i < n; i++ {
			if r.Intn(2) == 0 {
				ks, xs = append(ks, int64(i)), append(xs, spNZ(r))
			}
		}
	case "explicit-zero-at-0":
		zeroAt = 0
		for i := 1; i < n; i++ {
			if i == 1 || r.Intn(2) == 0 {
				ks, xs = append(ks, int64(i)), append(xs, spNZ(r))
			}
		}
	case "only-0":
		ks, xs = []int64{0}, []int64{spNZ(r)}
	case "full":
		for i := 0; i < n; i++ {
			ks, xs = append(ks, int64(i)), append(xs, spNZ(r))
		}
	case "explicit-zero-at-0-only":
		zeroAt = 0
	}
	// NewSparseXVector wants the keys in any order: reverse sometimes
	if len(ks) > 1 && r.Intn(2) == 0 {
		for i, j := 0, len(ks)-1; i < j; i, j = i+1, j-1 {
			ks[i], ks[j] = ks[j], ks[i]
			xs[i], xs[j] = xs[j], xs[i]
		}
	}
	return
}

type spBuilder struct {
	c          *SpCase
	ns, nd     int
	nsm, ndm   int
}

func (b *spBuilder) add(o SpOp) { b.c.Ops = append(b.c.Ops, o) }

// a sparse vector of length n with the given stored pattern
func (b *spBuilder) sparseVec(r *Rng, store string, n int) SpRef {
	if n == 0 {
		b.add(SpOp{Op: "NewS", L: []int64{}, L2: []int64{}, I: 0})
		b.ns++
		return SpRef{true, b.ns - 1}
	}
	ks, xs, z := spPattern(r, store, n)
	if ks == nil {
		ks, xs = []int64{}, []int64{}
	}
	b.add(SpOp{Op: "NewS", L: ks, L2: xs, I: int64(n)})
	b.ns++
	ref := SpRef{true, b.ns - 1}
	if z >= 0 {
		b.add(SpOp{Op: "SetAt", R: ref, I: z, X: 0})
	}
	return ref
}
func (b *spBuilder) denseVec(r *Rng, n int) SpRef {
	l := make([]int64, n)
	for i := range l {
		if r.Intn(4) > 0 {
			l[i] = spNZ(r)
		}
	}
	b.add(SpOp{Op: "NewD", L: l})
	b.nd++
	return SpRef{false, b.nd - 1}
}
func (b *spBuilder) sparseMat(r *Rng, store string, n, m int) SpRef {
	if n*m == 0 {
		b.add(SpOp{Op: "NewSM", L: []int64{}, L2: []int64{}, N: int64(n), M: int64(m)})
	} else {
		ks, xs, z := spPattern(r, store, n*m)
		if ks == nil {
			ks, xs = []int64{}, []int64{}
		}
		b.add(SpOp{Op: "NewSM", L: ks, L2: xs, N: int64(n), M: int64(m)})
		if z >= 0 {
			b.add(SpOp{Op: "MSetAt", MR: SpRef{true, b.nsm}, I: z, X: 0})
		}
	}
	b.ns++ // the values vector is a sparse vector of the world
	b.nsm++
	return SpRef{true, b.nsm - 1}
}
func (b *spBuilder) denseMat(r *Rng, n, m int) SpRef {
	l := make([]int64, n*m)
	for i := range l {
		if r.Intn(4) > 0 {
			l[i] = spNZ(r)
		}
	}
	b.add(SpOp{Op: "NewDM", L: l, N: int64(n), M: int64(m)})
	b.ndm++
	return SpRef{false, b.ndm - 1}
}
func (b *spBuilder) anyMat(r *Rng, n, m int) SpRef {
	if r.Intn(2) == 0 {
		return b.sparseMat(r, spStores[1+r.Intn(5)], n, m)
	}
	return b.denseMat(r, n, m)
}

// spCases: the whole family for one element type.  full = every (call, pattern, store); otherwise the
// element-wise operations are thinned out by the seed (the products are always complete).
func spCases(seed uint64, tn string, full bool) []*SpCase {
	var out []*SpCase
	r := NewRng(seed*1000003 + 77)
	mk := func(call, pat, store, recv string) (*SpCase, *spBuilder) {
		c := &SpCase{Type: tn, Call: call, Pat: pat, Store: store, Recv: recv}
		out = append(out, c)
		return c, &spBuilder{c: c}
	}
	dims := func(store string) int {
		if store == "n=0" {
			return 0
		}
		return r.Range(2, 4)
	}
	stores := append([]string{}, spStores...)
	stores = append(stores, "n=0")
	// ---- MdotV / VdotM with a sparse receiver
	for _, call := range []string{"MdotV", "VdotM"} {
		for _, store := range stores {
			// r IS the vector operand
			{
				_, b := mk(call, "r=vector-operand", store, "sparse")
				n := dims(store)
				rv := b.sparseVec(r, store, n)
				m := b.anyMat(r, n, n)
				if call == "MdotV" {
					b.add(SpOp{Op: "MdotV", R: rv, MA: m, B: rv})
				} else {
					b.add(SpOp{Op: "VdotM", R: rv, A: rv, MB: m})
				}
			}
			// distinct operands: the operand has the same stored pattern; the receiver holds stale entries
			{
				_, b := mk(call, "none", store, "sparse")
				n := dims(store)
				k := n
				if n > 0 && r.Intn(2) == 0 {
					k = r.Range(1, 4)
				}
				var rv, xv SpRef
				var m SpRef
				if call == "MdotV" { // a is n x k, b has length k, r length n
					rv = b.sparseVec(r, spStores[r.Intn(len(spStores))], n)
					if r.Intn(3) == 0 {
						xv = b.denseVec(r, k)
					} else {
						xv = b.sparseVec(r, store, k)
					}
					m = b.anyMat(r, n, k)
					b.add(SpOp{Op: "MdotV", R: rv, MA: m, B: xv})
				} else { // a has length k, b is k x n, r length n
					rv = b.sparseVec(r, spStores[r.Intn(len(spStores))], n)
					if r.Intn(3) == 0 {
						xv = b.denseVec(r, k)
					} else {
						xv = b.sparseVec(r, store, k)
					}
					m = b.anyMat(r, k, n)
					b.add(SpOp{Op: "VdotM", R: rv, A: xv, MB: m})
				}
			}
		}
		// dense receivers: identical vector (n > 0 and the EMPTY vector), and distinct
		for _, n := range []int{0, 1, 3} {
			_, b := mk(call, "r=vector-operand", fmt.Sprintf("n=%d", n), "dense")
			rv := b.denseVec(r, n)
			m := b.anyMat(r, n, n)
			if call == "MdotV" {
				b.add(SpOp{Op: "MdotV", R: rv, MA: m, B: rv})
			} else {
				b.add(SpOp{Op: "VdotM", R: rv, A: rv, MB: m})
			}
		}
		{
			_, b := mk(call, "none", "n>0", "dense")
			n, k := r.Range(1, 3), r.Range(1, 3)
			rv := b.denseVec(r, n)
			xv := b.sparseVec(r, spStores[r.Intn(len(spStores))], k)
			if call == "MdotV" {
				b.add(SpOp{Op: "MdotV", R: rv, MA: b.anyMat(r, n, k), B: xv})
			} else {
				b.add(SpOp{Op: "VdotM", R: rv, A: xv, MB: b.anyMat(r, k, n)})
			}
		}
	}
	// ---- sparse MdotM: the storageLocation() test
	for _, store := range stores {
		for _, pat := range []string{"r=a", "r=b", "r=a=b", "none"} {
			_, b := mk("MdotM", pat, store, "sparse")
			n := dims(store)
			rm := b.sparseMat(r, store, n, n)
			switch pat {
			case "r=a":
				b.add(SpOp{Op: "MdotM", MR: rm, MA: rm, MB: b.anyMat(r, n, n)})
			case "r=b":
				b.add(SpOp{Op: "MdotM", MR: rm, MA: b.anyMat(r, n, n), MB: rm})
			case "r=a=b":
				b.add(SpOp{Op: "MdotM", MR: rm, MA: rm, MB: rm})
			default:
				k := n
				if n > 0 {
					k = r.Range(1, 3)
				}
				a := b.anyMat(r, n, k)
				bb := b.anyMat(r, k, n)
				b.add(SpOp{Op: "MdotM", MR: rm, MA: a, MB: bb})
			}
		}
	}
	// ---- element-wise operations with a sparse receiver among the operands (never rejected)
	for _, store := range stores {
		for _, pat := range []string{"r=a", "r=b", "r=a=b", "none"} {
			for _, f := range []string{"Add", "Sub", "Mul"} {
				if !full && r.Intn(3) != 0 {
					continue
				}
				{
					_, b := mk("VopV", pat, store, "sparse")
					n := dims(store)
					rv := b.sparseVec(r, store, n)
					other := func() SpRef {
						if r.Intn(3) == 0 {
							return b.denseVec(r, n)
						}
						return b.sparseVec(r, spStores[r.Intn(len(spStores))], n)
					}
					o := SpOp{Op: "VopV", F: f, R: rv}
					switch pat {
					case "r=a":
						o.A, o.B = rv, other()
					case "r=b":
						o.A, o.B = other(), rv
					case "r=a=b":
						o.A, o.B = rv, rv
					default:
						o.A, o.B = other(), other()
					}
					b.add(o)
				}
				{
					_, b := mk("MopM", pat, store, "sparse")
					n := dims(store)
					m := n
					if n > 0 {
						m = r.Range(1, 3)
					}
					rm := b.sparseMat(r, store, n, m)
					o := SpOp{Op: "MopM", F: f, MR: rm}
					switch pat {
					case "r=a":
						o.MA, o.MB = rm, b.anyMat(r, n, m)
					case "r=b":
						o.MA, o.MB = b.anyMat(r, n, m), rm
					case "r=a=b":
						o.MA, o.MB = rm, rm
					default:
						o.MA, o.MB = b.anyMat(r, n, m), b.anyMat(r, n, m)
					}
					b.add(o)
				}
			}
		}
		for _, op := range []string{"VaddS", "VmulS"} {
			if !full && r.Intn(2) != 0 {
				continue
			}
			_, b := mk(op, "r=a", store, "sparse")
			n := dims(store)
			rv := b.sparseVec(r, store, n)
			b.add(SpOp{Op: op, R: rv, A: rv, X: spNZ(r)})
		}
	}
	return out
}

// ---------------------------------------------------------------- the property's own observable
// spRejects: where the API at HEAD rejects the aliasing with a panic (nowhere else is a panic admissible)
func spRejects(c *SpCase) bool {
	switch c.Call {
	case "MdotV", "VdotM":
		return c.Pat == "r=vector-operand"
	case "MdotM":
		return c.Recv == "sparse" && c.Pat != "none"
	}
	return false
}

func spEq(a, b []int64) bool {
	if len(a) != len(b) {
		return false
	}
	for i := range a {
		if a[i] != b[i] {
			return false
		}
	}
	return true
}

// spOracle: aliased call vs. the same call on a fresh receiver (operands untouched).
func spOracle(c *SpCase) *HuntHit {
	build := func() *spWorld {
		w := &spWorld{Type: c.Type}
		for _, o := range c.Ops[:len(c.Ops)-1] {
			if k, _ := w.exec(o); k != spOK {
				return nil
			}
		}
		return w
	}
	call := c.Ops[len(c.Ops)-1]
	// index of the receiver in the public observation
	recvIdx := func(w *spWorld) int {
		switch call.Op {
		case "MdotM", "MopM":
			if call.MR.S {
				return len(w.S) + len(w.D) + call.MR.H
			}
			return len(w.S) + len(w.D) + len(w.SM) + call.MR.H
		}
		if call.R.S {
			return call.R.H
		}
		return len(w.S) + call.R.H
	}
	w1 := build()
	if w1 == nil {
		return nil
	}
	pre := w1.public()
	ri := recvIdx(w1)
	ka, _ := w1.exec(call)
	post := w1.public()
	// fresh receiver of the same shape, appended to a second copy of the world
	w2 := build()
	fc := call
	st := spScalarType(c.Type)
	isMat := call.Op == "MdotM" || call.Op == "MopM"
	if isMat {
		n, m := w2.mat(call.MR).Dims()
		if call.MR.S {
			w2.addSM(ad.NullSparseMatrix(st, n, m))
			fc.MR = SpRef{true, len(w2.SM) - 1}
		} else {
			w2.DM = append(w2.DM, ad.NullDenseMatrix(st, n, m))
			fc.MR = SpRef{false, len(w2.DM) - 1}
		}
	} else {
		n := w2.vec(call.R).Dim()
		if call.R.S {
			w2.S = append(w2.S, ad.NullSparseVector(st, n))
			fc.R = SpRef{true, len(w2.S) - 1}
		} else {
			w2.D = append(w2.D, ad.NullDenseVector(st, n))
			fc.R = SpRef{false, len(w2.D) - 1}
		}
	}
	kf, _ := w2.exec(fc)
	var fresh []int64
	if isMat {
		n, m, l := spReadM(w2.mat(fc.MR))
		fresh = append([]int64{int64(n), int64(m)}, l...)
	} else {
		v := w2.vec(fc.R)
		fresh = []int64{int64(v.Dim())}
		for i := 0; i < v.Dim(); i++ {
			fresh = append(fresh, spReadAt(v, i))
		}
	}
	site := "sparse:" + c.Call + ":" + c.Pat + ":" + c.Recv
	fail := ""
	// a sparse matrix receiver is observed twice: as matrix and as its values vector
	ri2 := -1
	if isMat && call.MR.S {
		ri2 = w1.SMh[call.MR.H]
	}
	unchanged := func(skip int) bool {
		for i := range pre {
			if i != skip && !(skip >= 0 && i == ri2) && !spEq(pre[i], post[i]) {
				return false
			}
		}
		return true
	}
	switch {
	case ka == spPANIC:
		switch {
		case kf != spPANIC && !spRejects(c):
			fail = "the aliased call panics where the API does not reject the aliasing; the fresh receiver returns"
		case !unchanged(-1):
			fail = "the aliased call panics but leaves the world observably changed"
		}
	case kf == spPANIC:
		fail = "the aliased call returns, the call on a fresh receiver panics"
	case !spEq(post[ri], fresh):
		fail = "the aliased call returns normally with another result than a fresh receiver"
	case !unchanged(ri):
		fail = "the call changed an object that is not the receiver"
	}
	if fail == "" {
		return nil
	}
	cc := *c
	cc.Outs = nil
	al := fmt.Sprint("panic=", ka == spPANIC, " receiver=", post[ri])
	fr := fmt.Sprint("panic=", kf == spPANIC, " receiver=", fresh)
	return &HuntHit{Site: site, Sp: &cc, Aliased: al, Fresh: fr,
		Failure: fmt.Sprintf("%s %s (%s receiver, element type %s, stored pattern %s, receiver before the call %v): %s: aliased %s, fresh %s",
			c.Call, c.Pat, c.Recv, c.Type, c.Store, pre[ri], fail, al, fr)}
}
