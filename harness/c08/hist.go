// Real scalars whose receiver is RE-USED over a history of orders (round 6):
//
//	c.Mul(x, z)        second-order result (x, z of order 2 with non-zero Hessians)
//	c.Mul(y, y) | c.Set(y) | c.Set(const) | c.Mul(const, const) | -     first-order / order-0 result (Alloc drops or
//	                                                                     KEEPS derivative storage: at order 0 the Hessian
//	                                                                     slice stays in memory)
//	c.SetFloat64(v) | c.Reset() | -
//	c.Op(c, z) | c.Op(z, c)      in-place operation with an order-2 operand   (optionally a second round)
//
// Stale Hessian storage must never be read as the operand's Hessian.
//   - correspondence: EVERY step of the history is a single-step case of C01.Corr with Go's own state before it
//     (raw Derivative / Hessian slices as they are in memory, stale storage included) — appended to the "cases" stream;
//   - hunt: the last call against a fresh receiver whose first operand is a CLEAN copy of c built from what the public
//     getters show (Value, Order, N, guarded derivatives).
package main

import (
	"fmt"

	. "adharness/common"
)

const (
	hC  = 1
	hX  = 2
	hY  = 3
	hZ  = 4
	hK  = 5 // a bare constant
	hCC = 6 // clean copy of c (hunt reference)
	hF  = 7 // fresh receiver (hunt reference)
)

type HistCase struct {
	Kind  int             `json:"kind"`
	N     int             `json:"n"`
	Init  map[int]RegSnap `json:"init"`
	Steps []Instr         `json:"steps"` // the last one is the in-place call under test
	Pat   string          `json:"pat"`
}

func (h *HistCase) key() string { return fmt.Sprintf("hist|k%d|n%d|%s", h.Kind, h.N, h.Pat) }

func (h *HistCase) regs() map[int]adScalar {
	s := Scen{Regs: h.Init}
	return s.restoreAll()
}

var histOps = []string{"Mul", "Add", "Sub", "Div"}

func genHist(r *Rng, kind, n int, lower, reset, final int, rounds int, conc bool) *HistCase {
	val := func() float64 { return float64(r.Range(1, 6)) / 2 }
	h := &HistCase{Kind: kind, N: n, Init: map[int]RegSnap{}}
	for _, id := range []int{hC, hX, hY, hZ} {
		h.Init[id] = RegSnap{Kind: kind, Val: val(), D: []float64{}, H: [][]float64{}}
	}
	h.Init[hK] = RegSnap{Kind: KBare, Val: val(), D: []float64{}, H: [][]float64{}}
	add := func(in Instr) { in.ParJ = JF(in.Par); h.Steps = append(h.Steps, in) }
	add(Instr{Op: "SetVariable", C: hX, I: 0, N: n, Ord: 2})
	add(Instr{Op: "SetVariable", C: hZ, I: n - 1, N: n, Ord: 2})
	add(Instr{Op: "SetVariable", C: hY, I: 0, N: n, Ord: 1})
	add(Instr{Op: "Mul", C: hX, A: hX, B: hX})
	add(Instr{Op: "Mul", C: hZ, A: hZ, B: hX})
	add(Instr{Op: "Mul", C: hY, A: hY, B: hY})
	lowerNames := []string{"dy(y,y)", "Set(y)", "Set(const)", "dy(const,const)", "stay"}
	resetNames := []string{"SetFloat64", "Reset", "none"}
	finalNames := []string{"c=c,z", "c=z,c"}
	h.Pat = ""
	for round := 0; round < rounds; round++ {
		op2 := histOps[r.Intn(len(histOps))]
		add(Instr{Op: op2, C: hC, A: hX, B: hZ}) // second-order result
		lw, rs := lower, reset
		if round > 0 {
			lw, rs = r.Intn(5), r.Intn(3)
		}
		if (lw == 0 || lw == 1) && rs == 2 {
			rs = r.Intn(2) // order-1 derivatives that are not reset + order-2 operand = F-ALLOC (mixed orders), not this class
		}
		switch lw {
		case 0:
			add(Instr{Op: histOps[r.Intn(3)], C: hC, A: hY, B: hY})
		case 1:
			add(Instr{Op: "Set", C: hC, A: hY})
		case 2:
			add(Instr{Op: "Set", C: hC, A: hK})
		case 3:
			add(Instr{Op: "Mul", C: hC, A: hK, B: hK})
		}
		switch rs {
		case 0:
			add(Instr{Op: "SetFloat64", C: hC, Par: val()})
		case 1:
			add(Instr{Op: "Reset", C: hC})
		}
		fo := histOps[r.Intn(len(histOps))]
		in := Instr{Op: fo, C: hC, A: hC, B: hZ, Conc: conc}
		if final == 1 {
			in.A, in.B = hZ, hC
		}
		add(in)
		h.Pat += fmt.Sprintf("%s>%s>%s>%s:%s;", op2, lowerNames[lw], resetNames[rs], fo, finalNames[final])
	}
	if conc {
		h.Pat += "concrete"
	}
	return h
}

// histAll: every (kind, lower, reset, final) combination, N in {1,2}, one or two rounds.
func histAll(seed uint64, full bool) []*HistCase {
	r := NewRng(seed + 4242)
	var out []*HistCase
	for _, kind := range []int{K64, K32} {
		for lower := 0; lower < 5; lower++ {
			for reset := 0; reset < 3; reset++ {
				if (lower == 0 || lower == 1) && reset == 2 {
					continue
				}
				for final := 0; final < 2; final++ {
					n := 1 + (lower+reset+final)%2
					rounds := 1 + (lower+final)%2
					conc := (lower+reset)%3 == 0
					out = append(out, genHist(r.Split(), kind, n, lower, reset, final, rounds, conc))
					if full {
						out = append(out, genHist(r.Split(), kind, 3-n, lower, reset, final, 3-rounds, !conc))
					}
				}
			}
		}
	}
	return out
}

// histCorr: the single-step cases of every step (Go's own pre-state each time).
func histCorr(h *HistCase) []Case {
	p := &prog{regs: h.regs(), kinds: map[int]int{}}
	for id, g := range h.Init {
		p.kinds[id] = g.Kind
	}
	var out []Case
	for _, in := range h.Steps {
		out = append(out, stepCaseV(p, in))
	}
	return out
}

// histOracle: the last call, aliased, against a fresh receiver with a clean copy of c as operand.
func histOracle(h *HistCase) (same bool, al, fr RegSnap, ka, kf int) {
	run := func() map[int]adScalar {
		regs := h.regs()
		for i := range h.Steps[:len(h.Steps)-1] {
			in := h.Steps[i]
			if execGo(regs, &in) != 0 {
				return nil
			}
		}
		return regs
	}
	last := h.Steps[len(h.Steps)-1]
	regs := run()
	if regs == nil {
		return true, al, fr, 3, 3
	}
	clean := normOf(snap(regs[hC])) // what the public getters show of c before the call
	in := last
	ka = execGo(regs, &in)
	al = normOf(snap(regs[hC]))
	regs2 := run()
	regs2[hCC] = restore(clean)
	regs2[hF] = newMagic(h.Kind, 0)
	in2 := last
	in2.C = hF
	if in2.A == hC {
		in2.A = hCC
	}
	if in2.B == hC {
		in2.B = hCC
	}
	kf = execGo(regs2, &in2)
	fr = normOf(snap(regs2[hF]))
	if ka != 0 && kf != 0 {
		return true, al, fr, ka, kf
	}
	if ka != kf {
		return false, al, fr, ka, kf
	}
	return snapEq(al, fr), al, fr, ka, kf
}

func histHunt(seed uint64, count int, out *huntOut, add func(HuntHit)) {
	reps := 1 + count/300
	for rep := 0; rep < reps; rep++ {
		for _, h := range histAll(seed+uint64(rep)*977, true) {
			same, al, fr, ka, kf := histOracle(h)
			if ka == 3 || kf == 3 {
				continue
			}
			site := "history:reused-receiver"
			st := out.BySite[site]
			st[0]++
			out.Points++
			out.Aliased++
			if !same {
				st[1]++
				hh := *h
				add(HuntHit{Site: site, Hist: &hh, Failure: fmt.Sprintf("receiver re-used over a history of orders (%s, kind %d, N %d): the in-place call leaves %s, a fresh receiver with a clean copy of the operand holds %s",
					h.Pat, h.Kind, h.N, regStr(al, ka), regStr(fr, kf)), Aliased: regStr(al, ka), Fresh: regStr(fr, kf)})
			}
			out.BySite[site] = st
		}
	}
}
