// Single-step cases in the format of coq/C01/Corr.v (copied from harness/c01/gen.go:
// one `package main` per property): Go's own state before, the instruction, the
// oracle of the libm calls, Go's state after.
package main

import (
	"fmt"
	"math"
	"sort"

	. "adharness/common"

	ad "github.com/pbenner/autodiff"
)

type Case struct {
	Ids  []int     `json:"ids"`
	Pre  []RegSnap `json:"pre"`
	Ins  Instr     `json:"ins"`
	Orc  []OEnt    `json:"orc"`
	Kind int       `json:"kind"`
	Post []RegSnap `json:"post"` // same ids as Pre
	// operands that must be unchanged are checked in Go already (Frame)
	Frame bool `json:"frame"`
}

var specialVals = []float64{0, math.Copysign(0, -1), 1, -1, 0.5, 2, -2, 3, 1e-300, 1e300, 5e-324, math.Inf(1), math.Inf(-1), math.NaN(),
	-37, math.Nextafter(-37, 0), math.Nextafter(-37, -100), 18, math.Nextafter(18, 0), math.Nextafter(18, 100),
	33.3, math.Nextafter(33.3, 0), math.Nextafter(33.3, 100), 700, -700, 1e-8, 16777217, 0.1, 1.0000001}

func genValue(r *Rng) float64 {
	switch r.Pick([]int{50, 25, 10, 15}) {
	case 0:
		return (r.Float()*2 - 1) * 3
	case 1:
		return 0.05 + r.Float()*5
	case 2:
		return math.Ldexp(r.Float()+0.5, r.Range(-40, 40)) * float64(1-2*r.Intn(2))
	}
	return specialVals[r.Intn(len(specialVals))]
}

var monOps = []string{"Neg", "Sin", "Sinh", "Cos", "Cosh", "Tan", "Tanh", "Exp", "Log", "Log1p", "Erf", "Erfc", "LogErfc",
	"Gamma", "Lgamma", "Mlgamma", "GammaP", "BesselI", "LogBesselI", "Sqrt", "Log1pExp", "Logistic", "Abs", "Set"}
var dyOps = []string{"Add", "Sub", "Mul", "Div", "Pow", "Min", "Max"}
var concTwin = map[string]bool{"Neg": true, "Add": true, "Sub": true, "Mul": true, "Div": true, "Pow": true, "Sqrt": true,
	"Exp": true, "Log": true, "Log1p": true, "Min": true, "Max": true, "Abs": true, "Set": true, "LogAdd": true, "LogSub": true}

type prog struct {
	regs  map[int]ad.ConstScalar
	magic []int // ids of Real registers
	bare  []int
	kinds map[int]int
}

func newMagic(kind int, v float64) ad.ConstScalar {
	if kind == K32 {
		return ad.NewReal32(float32(v))
	}
	return ad.NewReal64(v)
}

// stepCase executes one instruction on the program's registers and records the case.
func stepCase(p *prog, in Instr) Case {
	in.ParJ = JF(in.Par)
	ids := in.regsUsed()
	sort.Ints(ids[1:])
	pre := make([]RegSnap, len(ids))
	prem := map[int]RegSnap{}
	for i, id := range ids {
		pre[i] = snap(p.regs[id])
		prem[id] = pre[i]
	}
	o := &Orc{}
	func() {
		defer func() { recover() }() // special functions may panic outside their domain; Go's call then panics too (kind 3)
		shadow(o, &in, prem)
	}()
	kind := execGo(p.regs, &in)
	post := make([]RegSnap, len(ids))
	frame := true
	wr := map[int]bool{}
	for _, w := range in.written() {
		wr[w] = true
	}
	for i, id := range ids {
		post[i] = snap(p.regs[id])
		if !wr[id] && !snapEq(pre[i], post[i]) {
			frame = false
		}
	}
	return Case{Ids: ids, Pre: pre, Ins: in, Orc: o.ents, Kind: kind, Post: post, Frame: frame}
}

func coqCase(c Case) string {
	o := &Orc{ents: c.Orc}
	post := coqRegs(c.Ids, c.Post)
	if c.Kind != 0 {
		post = "[]"
	}
	return fmt.Sprintf("(mkCase %s %s %s %d %s)", coqRegs(c.Ids, c.Pre), c.Ins.Coq(), o.Coq(), c.Kind, post)
}

func (p *prog) kindOf(id int) int { return p.kinds[id] }
func (p *prog) sameKindMagic(ids ...int) bool {
	k := -1
	for _, id := range ids {
		kk := p.kinds[id]
		if kk == KBare {
			return false
		}
		if k >= 0 && kk != k {
			return false
		}
		k = kk
	}
	return true
}

