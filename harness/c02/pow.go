// C02 harness, round 6 — the special cases of x^y (C99 Annex F / Go's math.Pow) on EVERY code path of the scalar types that
// computes a power: Pow and the concrete POW of the four float types (for the Real types both branches: exponent without
// derivatives -> monadicLazy, exponent carrying derivatives -> dyadicLazy), Sqrt / SQRT (x^0.5), Vnorm and Mnorm (x^2),
// and the integer receivers (through float64).  The reference of the hunt (refPow) is the table written out here plus
// exact repeated multiplication (math/big) for small integer exponents; it does not call math.Pow.
package main

import (
	"math"
	"math/big"
)

func isOddInt(y float64) bool {
	if math.IsInf(y, 0) || math.IsNaN(y) || y != math.Trunc(y) || math.Abs(y) >= 1<<53 {
		return false
	}
	return math.Mod(y, 2) != 0
}
func isIntF(y float64) bool { return !math.IsInf(y, 0) && !math.IsNaN(y) && y == math.Trunc(y) }

// refPow: x^y as the property means it (the named function with its IEEE special values). exact: compare with ==
func refPow(x, y float64) (want float64, exact bool) {
	switch {
	case y == 0:
		return 1, true // x^0 = 1 for every x, NaN included
	case x == 1:
		return 1, true // 1^y = 1 for every y, NaN and +-Inf included
	case math.IsNaN(x) || math.IsNaN(y):
		return math.NaN(), true
	case x == 0:
		if y < 0 {
			if isOddInt(y) {
				return math.Copysign(math.Inf(1), x), true
			}
			return math.Inf(1), true
		}
		if isOddInt(y) {
			return x, true
		}
		return 0, true
	case math.IsInf(y, 0):
		if x == -1 {
			return 1, true
		}
		if (math.Abs(x) < 1) == math.IsInf(y, 1) {
			return 0, true
		}
		return math.Inf(1), true
	case math.IsInf(x, 0):
		if math.IsInf(x, -1) && isOddInt(y) {
			if y < 0 {
				return math.Copysign(0, -1), true
			}
			return math.Inf(-1), true
		}
		if y < 0 {
			return 0, true
		}
		return math.Inf(1), true
	case x < 0 && !isIntF(y):
		return math.NaN(), true
	}
	sign := 1.0
	ax := x
	if x < 0 {
		ax = -x
		if isOddInt(y) {
			sign = -1
		}
	}
	if isIntF(y) && math.Abs(y) <= 64 {
		// exact power by repeated multiplication, one rounding at the end
		p := new(big.Float).SetPrec(4000).SetInt64(1)
		b := new(big.Float).SetPrec(4000).SetFloat64(ax)
		for i := 0; i < int(math.Abs(y)); i++ {
			p.Mul(p, b)
		}
		if y < 0 {
			p.Quo(new(big.Float).SetPrec(4000).SetInt64(1), p)
		}
		f, _ := p.Float64()
		return sign * f, false
	}
	return sign * math.Exp(y*math.Log(ax)), false
}

// hunt oracle for Pow / POW
func checkPow(c Case, res Result, fail func(site, what, want string) *Failure) *Failure {
	x, y := refF64(c.A[0]), refF64(c.A[1])
	want, exact := refPow(x, y)
	got := res.Val
	if !isF(c.TC) {
		if math.IsNaN(want) || math.IsInf(want, 0) {
			return nil // float -> int conversion of a non-finite value: implementation-defined
		}
		if !agrees(c.TC, got, want, 0) {
			return fail("Pow:value", "result differs from x^y", fstr(want))
		}
		return nil
	}
	gf := got.fl()
	if exact || math.IsInf(want, 0) || want == 0 {
		w := want
		if types[c.TC].Base == BF32 {
			w = float64(float32(want))
		}
		if !(gf == w || (math.IsNaN(w) && math.IsNaN(gf))) {
			return fail("Pow:special", "value at a special case of x^y (negative base with integer exponent, 0^0, 1^Inf, +-Inf, NaN) differs from the named function", fstr(w))
		}
		return nil
	}
	if !agrees(c.TC, got, want, math.Abs(want)*math.Abs(y*math.Log(math.Abs(x)))*1e-2) {
		return fail("Pow:value", "result differs from x^y", fstr(want))
	}
	return nil
}

var nz = math.Copysign(0, -1)

// the pairs named by the special-case table; every one of them is visited for every float receiver in every repetition
var powMust = [][2]float64{
	{-2, 3}, {-2, 2}, {-3, -3}, {-0.5, -2}, {-8, 1.0 / 3}, {-2, 0.5}, {-1.5, 2.5},
	{0, 0}, {nz, 0}, {math.NaN(), 0}, {math.Inf(1), 0}, {-2, nz},
	{1, math.Inf(1)}, {1, math.Inf(-1)}, {1, math.NaN()}, {-1, math.Inf(1)}, {-1, math.Inf(-1)},
	{math.Inf(-1), 3}, {math.Inf(-1), 2}, {math.Inf(-1), -3}, {math.Inf(-1), -2}, {math.Inf(-1), 0.5}, {math.Inf(1), -1}, {math.Inf(1), 2.5},
	{0, -3}, {nz, -3}, {nz, 3}, {0, -2}, {nz, -2}, {0, 2.5},
	{-0.5, math.Inf(1)}, {-0.5, math.Inf(-1)}, {-2, math.Inf(1)}, {-2, math.Inf(-1)}, {2, math.Inf(-1)}, {0.5, math.Inf(1)},
	{math.NaN(), 2}, {-2, math.NaN()}, {-2, 1001}, {-2, 62}, {-1, 4e15}, {-1, 9007199254740991},
}
var powBases = []float64{-2, -3, -0.5, -1, -8, 0, nz, 1, math.Inf(1), math.Inf(-1), math.NaN(), 2, 0.5, -1.5, -1e-3, -1e3}
var powExps = []float64{2, 3, -1, -2, -3, 0, nz, 0.5, -0.5, 1, 1.0 / 3, 2.5, math.Inf(1), math.Inf(-1), math.NaN(), 1001, 4e15, -1001, 7, -4}

func (g *gen) generatePowStrata(rep int) {
	r := g.r
	for tc := 0; tc < 4; tc++ {
		realT := types[tc].Real
		for pi, pr := range powMust {
			for _, op := range []string{"Pow", "POW"} {
				x, y := pr[0], pr[1]
				if op == "POW" {
					// concrete twin: both operands of the receiver's own type; Real: tracked or not by Order
					ord := 0
					if realT {
						ord = (rep + pi) % 3
					}
					g.emit(Case{Op: op, TC: tc, A: []V{VFl(tc, x), VFl(tc, y)}, Order: ord}, "pow-strata")
					continue
				}
				if realT {
					// (i) exponent a Real carrying derivatives: the dyadic branch, first and second order in turn
					tk := []int{tc, 2, 3}[(rep+pi)%3]
					g.emit(Case{Op: op, TC: tc, A: []V{VFl([]int{tc, 9, 0}[(rep+pi)%3], x), VFl(tk, y)}, Order: 1 + (rep+pi)%2}, "pow-strata")
				}
				// (ii) exponent without derivatives: constant, bare float, Real of order 0, integer constant when y is integral
				kinds := []int{9, 0, 1, 10, 2, 3}
				tk := kinds[(rep+pi+tc)%len(kinds)]
				ta := []int{tc, 9, 0, 2}[(rep+2*pi+tc)%4]
				ord := 0
				if types[ta].Real && !types[tk].Real {
					ord = 1 + rep%2 // base tracked, exponent not: the monadic branch with derivatives
				}
				e := VFl(tk, y)
				if isIntF(y) && math.Abs(y) < 100 && (rep+pi)%4 == 0 {
					e = VIn(15, int64(y)) // ConstInt exponent
				}
				g.emit(Case{Op: op, TC: tc, A: []V{VFl(ta, x), e}, Order: ord}, "pow-strata")
			}
		}
		// the rest of the cross product, sampled
		for k := 0; k < 12; k++ {
			x, y := powBases[r.Intn(len(powBases))], powExps[r.Intn(len(powExps))]
			tk := []int{tc, 9, 2, 3, 0}[r.Intn(5)]
			ord := 0
			if types[tk].Real {
				ord = r.Intn(3)
			}
			g.emit(Case{Op: "Pow", TC: tc, A: []V{VFl(tc, x), VFl(tk, y)}, Order: ord}, "pow-strata")
		}
		// x^2 and x^0.5 inside Vnorm / Mnorm / Sqrt / SQRT at negative and non-finite elements
		els := [][]float64{{-2, 3}, {math.Inf(-1), 1}, {-3, math.Inf(1)}, {nz, -1.5}, {math.NaN(), 2}, {-1e-3, -4}}
		e := els[(rep+tc)%len(els)]
		x := []V{VFl(tc, e[0]), VFl(tc, e[1])}
		g.emit(Case{Op: "Vnorm", TC: tc, TV: tc, X: x}, "pow-strata")
		g.emit(Case{Op: "Mnorm", TC: tc, TV: tc, N: 1, M: 2, X: x}, "pow-strata")
		for _, op := range []string{"Sqrt", "SQRT"} {
			sx := []float64{-2, nz, 4, -1e-300, 2.25}[(rep+tc)%5]
			ta := tc
			ord := 0
			if realT {
				ord = (rep + tc) % 3
			}
			g.emit(Case{Op: op, TC: tc, A: []V{VFl(ta, sx)}, Order: ord}, "pow-strata")
		}
	}
	// integer receivers: the power is computed in float64 and truncated
	tc := 4 + (rep % 5)
	for _, pr := range [][2]int64{{-2, 3}, {-3, 2}, {0, 0}, {2, -1}, {-1, 5}, {1, -7}, {-2, 6}} {
		for _, op := range []string{"Pow", "POW"} {
			tk := tc
			if op == "Pow" && pr[1] >= 0 {
				tk = []int{tc, 15, 9}[int(pr[1])%3]
			}
			e := VIn(tc, pr[1])
			if tk == 9 {
				e = VFl(9, float64(pr[1]))
			} else if tk == 15 {
				e = VIn(15, pr[1])
			}
			g.emit(Case{Op: op, TC: tc, A: []V{VIn(tc, pr[0]), e}}, "pow-strata")
		}
	}
}
