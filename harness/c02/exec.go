// C02 harness — execution of one case on the library, and the oracle table
// (function id, argument bits, result bits) of the math.* / special.* calls it makes.
package main

import (
	"fmt"
	"math"
	"reflect"
	"strings"

	. "adharness/common"

	ad "github.com/pbenner/autodiff"
	"github.com/pbenner/autodiff/special"
)

// Case: one method call. Op is the Go method name (upper case = concrete twin).
type Case struct {
	Op    string `json:"op"`
	TC    int    `json:"tc"`              // receiver type
	TT    []int  `json:"tt,omitempty"`    // types of the temporaries
	A     []V    `json:"a,omitempty"`     // scalar operands
	X     []V    `json:"x,omitempty"`     // vector / matrix elements
	Y     []V    `json:"y,omitempty"`     // second vector
	N     int    `json:"n,omitempty"`     // rows
	M     int    `json:"m,omitempty"`     // cols
	TV    int    `json:"tv,omitempty"`    // element type of vectors / matrices
	P     string `json:"p,omitempty"`     // float parameter (alpha, epsilon, a, v) as %x
	K     int    `json:"k,omitempty"`     // Mlgamma k
	Order int    `json:"order,omitempty"` // derivative order tracked by Real operands (0,1,2)
	Cold  *V     `json:"cold,omitempty"`  // previous value of the receiver (ABS)
	Tgt   int    `json:"tgt,omitempty"`   // target type of conversions / constructors
	VX    *VRep  `json:"vx,omitempty"`    // round 5: vector operand given as a representation (sparse / view / ...) instead of X
	VY    *VRep  `json:"vy,omitempty"`    // second vector operand (VdotV)
	MA    *MRep  `json:"ma,omitempty"`    // matrix operand given as a representation instead of N, M, X
	Steps []Step `json:"steps,omitempty"` // round 6: Op == "Seq": a history of calls on one receiver (initial content Cold) and one scratch bank
	TD    []V    `json:"td,omitempty"`    // initial ("dirty") content of the scratch scalars t[0], t[1], t[2] (types TT)
	DD    bool   `json:"dd,omitempty"`    // receiver and scratch also carry derivative arrays on entry (Real types, Order > 0)
}

type entry struct {
	id      int
	a, b, r float64
}
type orc struct {
	ents []entry
	seen map[[3]uint64]bool
}

func (o *orc) add(id int, a, b, r float64) {
	k := [3]uint64{uint64(id), math.Float64bits(a), math.Float64bits(b)}
	if o.seen == nil {
		o.seen = map[[3]uint64]bool{}
	}
	if o.seen[k] {
		return
	}
	o.seen[k] = true
	o.ents = append(o.ents, entry{id, a, b, r})
}
func (o *orc) coq() string {
	s := make([]string, len(o.ents))
	for i, e := range o.ents {
		s[i] = fmt.Sprintf("(%d, %s, %s, %s)", e.id, F(e.a), F(e.b), F(e.r))
	}
	return List(s)
}

const (
	idLgamma = 20
	idLgsign = 21
	idPow    = 22
)

type ufn struct {
	id  int
	coq string
	f   func(float64) float64
}

var ufns = map[string]ufn{
	"Exp": {1, "FExp", math.Exp}, "Log": {2, "FLog", math.Log}, "Log1p": {3, "FLog1p", math.Log1p},
	"Sin": {4, "FSin", math.Sin}, "Cos": {5, "FCos", math.Cos}, "Tan": {6, "FTan", math.Tan},
	"Sinh": {7, "FSinh", math.Sinh}, "Cosh": {8, "FCosh", math.Cosh}, "Tanh": {9, "FTanh", math.Tanh},
	"Erf": {10, "FErf", math.Erf}, "Erfc": {11, "FErfc", math.Erfc}, "LogErfc": {12, "FLogErfc", special.LogErfc},
	"Gamma": {13, "FGamma", math.Gamma},
}
var pfns = map[string]struct {
	id  int
	coq string
}{"Mlgamma": {30, "PMlgamma"}, "GammaP": {31, "PGammaP"}, "BesselI": {32, "PBesselI"}, "LogBesselI": {33, "PLogBesselI"}}

func isConcrete(op string) bool { return op == strings.ToUpper(op) }
func genericName(op string) string {
	if !isConcrete(op) {
		return op
	}
	m := map[string]string{"NEG": "Neg", "ADD": "Add", "SUB": "Sub", "MUL": "Mul", "DIV": "Div", "POW": "Pow",
		"MIN": "Min", "MAX": "Max", "EXP": "Exp", "LOG": "Log", "LOG1P": "Log1p", "LOGADD": "LogAdd", "LOGSUB": "LogSub",
		"GREATER": "Greater", "SMALLER": "Smaller", "EQUALS": "Equals", "SIGN": "Sign", "ABS": "ABS", "SQRT": "SQRT"}
	return m[op]
}

// ---- shadows: the elementary method sequence of the composite programs, run on the
// library's own elementary methods, recording the math.* calls they make.
func (o *orc) un(name string, c ad.Scalar, a ad.ConstScalar) {
	u := ufns[name]
	x := a.GetFloat64()
	o.add(u.id, x, 0, u.f(x))
	switch name {
	case "Exp":
		c.Exp(a)
	case "Log":
		c.Log(a)
	case "Log1p":
		c.Log1p(a)
	}
}
func (o *orc) pow(c ad.Scalar, a, k ad.ConstScalar) {
	x, y := a.GetFloat64(), k.GetFloat64()
	o.add(idPow, x, y, math.Pow(x, y))
	c.Pow(a, k)
}
func (o *orc) logAdd(c ad.Scalar, a, b ad.ConstScalar, t ad.Scalar) {
	if a.Greater(b) {
		a, b = b, a
	}
	if math.IsInf(a.GetFloat64(), 0) {
		c.Set(b)
		return
	}
	t.Sub(a, b)
	o.un("Exp", t, t)
	o.un("Log1p", t, t)
	c.Add(t, b)
}
func (o *orc) logSub(c ad.Scalar, a, b ad.ConstScalar, t ad.Scalar) {
	if math.IsInf(b.GetFloat64(), -1) {
		c.Set(a)
		return
	}
	t.Sub(b, a)
	o.un("Exp", t, t)
	t.Neg(t)
	o.un("Log1p", t, t)
	c.Add(t, a)
}
func (o *orc) log1pExp(c ad.Scalar, a ad.ConstScalar) {
	v := a.GetFloat64()
	if v <= -37.0 {
		o.un("Exp", c, a)
	} else if v <= 18.0 {
		o.un("Exp", c, a)
		o.un("Log1p", c, c)
	} else if v <= 33.3 {
		c.Neg(a)
		o.un("Exp", c, c)
	}
}
func one(tc int) ad.ConstScalar {
	if isF(tc) {
		return mkOp(VFl(9+types[tc].Base, 1))
	}
	return mkOp(VIn(9+types[tc].Base, 1))
}
func (o *orc) sigmoid(c ad.Scalar, tc int, a ad.ConstScalar, t ad.Scalar) {
	if a.GetFloat64() >= 0 {
		c.Neg(a)
		o.un("Exp", c, c)
	} else {
		o.un("Exp", t, a)
	}
}
func (o *orc) logistic(c ad.Scalar, a ad.ConstScalar) {
	c.Neg(a)
	o.un("Exp", c, c)
}
func (o *orc) smoothMax(x ad.ConstVector, alpha ad.ConstFloat64, t [2]ad.Scalar) {
	for i := 0; i < x.Dim(); i++ {
		t[0].Mul(alpha, x.ConstAt(i))
		o.un("Exp", t[0], t[0])
	}
}
func (o *orc) logSmoothMax(r ad.Scalar, x ad.ConstVector, alpha ad.ConstFloat64, t [3]ad.Scalar) {
	r.SetFloat64(math.Inf(-1))
	t[2].SetFloat64(math.Inf(-1))
	for i := 0; i < x.Dim(); i++ {
		t[0].Mul(x.ConstAt(i), alpha)
		o.logAdd(t[2], t[2], t[0], t[1])
		o.un("Log", t[1], x.ConstAt(i))
		t[0].Add(t[0], t[1])
		o.logAdd(r, r, t[0], t[1])
	}
	r.Sub(r, t[2])
	o.un("Exp", r, r)
}
func two(tc int) ad.ConstScalar {
	if isF(tc) {
		return mkOp(VFl(9+types[tc].Base, 2))
	}
	return mkOp(VIn(9+types[tc].Base, 2))
}
func (o *orc) vnorm(tc int, a ad.ConstVector) {
	r, t := mkRecv(tc), mkRecv(tc)
	for i := 0; i < a.Dim(); i++ {
		o.pow(t, a.ConstAt(i), two(tc))
		r.Add(r, t)
	}
	o.pow(r, r, ad.ConstFloat64(0.5))
}
func (o *orc) mnorm(tc int, a ad.ConstMatrix) {
	n, m := a.Dims()
	t := mkRecv(tc)
	for i := 0; i < n; i++ {
		for j := 0; j < m; j++ {
			o.pow(t, a.ConstAt(i, j), two(tc))
		}
	}
}

// operands of the reductions: a representation when the case names one, else the dense vector / matrix of X
func (c Case) vecX() ad.ConstVector {
	if c.VX != nil {
		return c.VX.build()
	}
	return mkVec(c.TV, c.X)
}
func (c Case) vecY() ad.ConstVector {
	if c.VY != nil {
		return c.VY.build()
	}
	return mkVec(c.TV, c.Y)
}
func (c Case) matA() ad.ConstMatrix {
	if c.MA != nil {
		return c.MA.build()
	}
	return mkMat(c.TV, c.X, c.N, c.M)
}

// quiet runs a shadow; a panic inside it (integer division by zero, ...) just ends the recording
func quiet(f func()) {
	defer func() { recover() }()
	f()
}

// ---- execution

type Result struct {
	Obs    string // Coq term of type obs
	Text   string // printable
	Val    V      // result value when Obs is OVal
	IsVal  bool
	Bool   bool
	Int    int64
	Kind   string // val | bool | int | panic | nil
	Oracle orc
	Coq    string // Coq term of the call
}

func callMethod(recv interface{}, name string, args ...interface{}) []reflect.Value {
	m := reflect.ValueOf(recv).MethodByName(name)
	if !m.IsValid() {
		panic("C02-harness: no method " + name)
	}
	in := make([]reflect.Value, len(args))
	for i, a := range args {
		in[i] = reflect.ValueOf(a)
	}
	return m.Call(in)
}

func track(order int, ops ...interface{}) {
	if order == 0 {
		return
	}
	var ms []ad.MagicScalar
	for _, o := range ops {
		if m, ok := o.(ad.MagicScalar); ok {
			ms = append(ms, m)
		}
	}
	if len(ms) > 0 {
		ad.Variables(order, ms...)
	}
}

func run(c Case) (res Result) {
	if c.Op == "Seq" {
		return runSeq(c)
	}
	defer func() {
		if r := recover(); r != nil {
			if s, ok := r.(string); ok && strings.HasPrefix(s, "C02-harness") {
				panic(r)
			}
			res.Obs, res.Kind, res.Text = "OPanic", "panic", fmt.Sprintf("panic: %v", r)
		}
	}()
	o := &res.Oracle
	tcq := ""
	if c.TC >= 0 && c.TC < len(types) {
		tcq = types[c.TC].Coq
	}
	setVal := func(s ad.ConstScalar) {
		res.Obs, res.Val = obsScalar(s)
		res.IsVal, res.Kind = true, "val"
		res.Text = types[res.Val.T].Name + ":" + res.Val.coqv()
	}
	setRet := func(ret []reflect.Value, recv ad.Scalar) {
		if len(ret) == 1 && (ret[0].Kind() == reflect.Interface || ret[0].Kind() == reflect.Ptr) && ret[0].IsNil() {
			res.Obs, res.Kind, res.Text = "ONil", "nil", "nil"
			return
		}
		setVal(recv)
	}
	ops := make([]ad.ConstScalar, len(c.A))
	anyOps := make([]interface{}, len(c.A))
	for i, v := range c.A {
		ops[i] = mkOp(v)
		anyOps[i] = ops[i]
	}
	track(c.Order, anyOps...)
	p := fparse(c.P)
	gname := genericName(c.Op)
	switch gname {
	case "Neg", "Abs", "Sqrt", "Log1pExp", "Logistic", "Lgamma", "Set", "SQRT",
		"Exp", "Log", "Log1p", "Sin", "Cos", "Tan", "Sinh", "Cosh", "Tanh", "Erf", "Erfc", "LogErfc", "Gamma":
		recv := mkRecv(c.TC)
		a := ops[0]
		x := a.GetFloat64()
		uop := ""
		switch gname {
		case "Neg":
			uop = "UNeg"
		case "Abs":
			uop = "UAbs"
		case "Set":
			uop = "USet"
		case "Sqrt":
			uop = "USqrt"
			o.add(idPow, x, 0.5, math.Pow(x, 0.5))
		case "SQRT":
			uop = "USQRT"
			if types[c.TC].Real {
				o.add(idPow, x, 0.5, math.Pow(x, 0.5))
			}
		case "Log1pExp":
			uop = "ULog1pExp"
			quiet(func() { o.log1pExp(mkRecv(c.TC), a) })
		case "Logistic":
			uop = "ULogistic"
			quiet(func() { o.logistic(mkRecv(c.TC), a) })
		case "Lgamma":
			uop = "ULgamma"
			v, s := math.Lgamma(x)
			o.add(idLgamma, x, 0, v)
			o.add(idLgsign, x, 0, float64(s))
		default:
			u := ufns[gname]
			uop = "(UFn " + u.coq + ")"
			o.add(u.id, x, 0, u.f(x))
		}
		res.Coq = fmt.Sprintf("CUn %s %s %s", uop, tcq, c.A[0].coq())
		if gname == "Set" {
			recv.Set(a)
			setVal(recv)
		} else {
			setRet(callMethod(recv, c.Op, a), recv)
		}
	case "ABS":
		recv := mkOp(*c.Cold).(ad.Scalar)
		res.Coq = fmt.Sprintf("CABS %s (%s) %s", tcq, c.Cold.coqv(), c.A[0].coq())
		setRet(callMethod(recv, "ABS", ops[0]), recv)
	case "Add", "Sub", "Mul", "Div", "Pow", "Min", "Max":
		recv := mkRecv(c.TC)
		bop := map[string]string{"Add": "(BArith OAdd)", "Sub": "(BArith OSub)", "Mul": "(BArith OMul)", "Div": "(BArith ODiv)",
			"Pow": "BPow", "Min": "BMin", "Max": "BMax"}[gname]
		if gname == "Pow" {
			x, y := ops[0].GetFloat64(), ops[1].GetFloat64()
			o.add(idPow, x, y, math.Pow(x, y))
		}
		res.Coq = fmt.Sprintf("CBin %s %s %s %s", bop, tcq, c.A[0].coq(), c.A[1].coq())
		setRet(callMethod(recv, c.Op, ops[0], ops[1]), recv)
	case "Mlgamma", "GammaP", "BesselI", "LogBesselI":
		recv := mkRecv(c.TC)
		x := ops[0].GetFloat64()
		pf := pfns[gname]
		var ret []reflect.Value
		switch gname {
		case "Mlgamma":
			p = float64(c.K)
			o.add(pf.id, p, x, special.Mlgamma(x, c.K))
		case "GammaP":
			o.add(pf.id, p, x, special.GammaP(p, x))
		case "BesselI":
			o.add(pf.id, p, x, special.BesselI(p, x))
		case "LogBesselI":
			o.add(pf.id, p, x, special.LogBesselI(p, x))
		}
		res.Coq = fmt.Sprintf("CPar %s %s %s %s", pf.coq, tcq, F(p), c.A[0].coq())
		if gname == "Mlgamma" {
			ret = callMethod(recv, c.Op, ops[0], c.K)
		} else {
			ret = callMethod(recv, c.Op, p, ops[0])
		}
		setRet(ret, recv)
	case "LogAdd", "LogSub":
		recv, t := mkRecv(c.TC), mkRecv(c.TT[0])
		quiet(func() {
			// the shadow works on copies so that derivative bookkeeping of the real run is undisturbed
			a, b := mkOp(c.A[0]), mkOp(c.A[1])
			if gname == "LogAdd" {
				o.logAdd(mkRecv(c.TC), a, b, mkRecv(c.TT[0]))
			} else {
				o.logSub(mkRecv(c.TC), a, b, mkRecv(c.TT[0]))
			}
		})
		res.Coq = fmt.Sprintf("C%s %s %s %s %s", gname, tcq, types[c.TT[0]].Coq, c.A[0].coq(), c.A[1].coq())
		setRet(callMethod(recv, c.Op, ops[0], ops[1], t), recv)
	case "Sigmoid":
		recv, t := mkRecv(c.TC), mkRecv(c.TT[0])
		quiet(func() { o.sigmoid(mkRecv(c.TC), c.TC, mkOp(c.A[0]), mkRecv(c.TT[0])) })
		res.Coq = fmt.Sprintf("CSigmoid %s %s %s", tcq, types[c.TT[0]].Coq, c.A[0].coq())
		setRet(callMethod(recv, c.Op, ops[0], t), recv)
	case "Greater", "Smaller":
		r := "RGt"
		if gname == "Smaller" {
			r = "RLt"
		}
		res.Coq = fmt.Sprintf("CCmp %s %s %s", r, c.A[0].coq(), c.A[1].coq())
		b := callMethod(ops[0], c.Op, ops[1])[0].Bool()
		res.Obs, res.Kind, res.Bool, res.Text = "OBool "+B(b), "bool", b, B(b)
	case "Equals":
		res.Coq = fmt.Sprintf("CEquals %s %s %s", c.A[0].coq(), c.A[1].coq(), F(p))
		b := callMethod(ops[0], c.Op, ops[1], p)[0].Bool()
		res.Obs, res.Kind, res.Bool, res.Text = "OBool "+B(b), "bool", b, B(b)
	case "Sign":
		res.Coq = fmt.Sprintf("CSign %s", c.A[0].coq())
		z := callMethod(ops[0], c.Op)[0].Int()
		res.Obs, res.Kind, res.Int, res.Text = "OInt "+Z(z), "int", z, fmt.Sprint(z)
	case "SmoothMax":
		recv := mkRecv(c.TC)
		t := [2]ad.Scalar{mkRecv(c.TT[0]), mkRecv(c.TT[1])}
		quiet(func() { o.smoothMax(c.vecX(), ad.ConstFloat64(p), [2]ad.Scalar{mkRecv(c.TT[0]), mkRecv(c.TT[1])}) })
		res.Coq = fmt.Sprintf("CSmoothMax %s %s %s %s %s", tcq, types[c.TT[0]].Coq, types[c.TT[1]].Coq, coqvList(c.X), F(p))
		if c.VX != nil {
			res.Coq = vcallCoq(fmt.Sprintf("VcSmoothMax %s %s %s %s %s", tcq, types[c.TT[0]].Coq, types[c.TT[1]].Coq, c.VX.coq(), F(p)))
		}
		setRet(callMethod(recv, c.Op, c.vecX(), ad.ConstFloat64(p), t), recv)
	case "LogSmoothMax":
		recv := mkRecv(c.TC)
		t := [3]ad.Scalar{mkRecv(c.TT[0]), mkRecv(c.TT[1]), mkRecv(c.TT[2])}
		quiet(func() {
			o.logSmoothMax(mkRecv(c.TC), c.vecX(), ad.ConstFloat64(p), [3]ad.Scalar{mkRecv(c.TT[0]), mkRecv(c.TT[1]), mkRecv(c.TT[2])})
		})
		res.Coq = fmt.Sprintf("CLogSmoothMax %s %s %s %s %s %s %s", tcq, types[c.TT[0]].Coq, types[c.TT[1]].Coq, types[c.TT[2]].Coq,
			types[c.TV].Coq, coqvList(c.X), F(p))
		if c.VX != nil {
			res.Coq = vcallCoq(fmt.Sprintf("VcLogSmoothMax %s %s %s %s %s %s %s", tcq, types[c.TT[0]].Coq, types[c.TT[1]].Coq, types[c.TT[2]].Coq,
				types[c.VX.TV].Coq, c.VX.coq(), F(p)))
		}
		setRet(callMethod(recv, c.Op, c.vecX(), ad.ConstFloat64(p), t), recv)
	case "Vmean":
		recv := mkRecv(c.TC)
		res.Coq = fmt.Sprintf("CVmean %s %s", tcq, coqvList(c.X))
		if c.VX != nil {
			res.Coq = vcallCoq(fmt.Sprintf("VcVmean %s %s", tcq, c.VX.coq()))
		}
		setRet(callMethod(recv, c.Op, c.vecX()), recv)
	case "VdotV":
		recv := mkRecv(c.TC)
		res.Coq = fmt.Sprintf("CVdotV %s %s %s", tcq, coqvList(c.X), coqvList(c.Y))
		if c.VX != nil {
			res.Coq = vcallCoq(fmt.Sprintf("VcVdotV %s %s %s", tcq, c.VX.coq(), c.VY.coq()))
		}
		setRet(callMethod(recv, c.Op, c.vecX(), c.vecY()), recv)
	case "Vnorm":
		recv := mkRecv(c.TC)
		quiet(func() { o.vnorm(c.TC, c.vecX()) })
		res.Coq = fmt.Sprintf("CVnorm %s %s", tcq, coqvList(c.X))
		if c.VX != nil {
			res.Coq = vcallCoq(fmt.Sprintf("VcVnorm %s %s", tcq, c.VX.coq()))
		}
		setRet(callMethod(recv, c.Op, c.vecX()), recv)
	case "Mtrace":
		recv := mkRecv(c.TC)
		res.Coq = fmt.Sprintf("CMtrace %s %d %d %s", tcq, c.N, c.M, coqvList(c.X))
		if c.MA != nil {
			res.Coq = vcallCoq(fmt.Sprintf("VcMtrace %s %s", tcq, c.MA.coq()))
		}
		setRet(callMethod(recv, c.Op, c.matA()), recv)
	case "Mnorm":
		recv := mkRecv(c.TC)
		quiet(func() { o.mnorm(c.TC, c.matA()) })
		res.Coq = fmt.Sprintf("CMnorm %s %d %d %s", tcq, c.N, c.M, coqvList(c.X))
		if c.MA != nil {
			res.Coq = vcallCoq(fmt.Sprintf("VcMnorm %s %s", tcq, c.MA.coq()))
		}
		setRet(callMethod(recv, c.Op, c.matA()), recv)
	case "ConvertScalar", "ConvertConstScalar", "ConvertMagicScalar":
		k := map[string]string{"ConvertScalar": "CConvS", "ConvertConstScalar": "CConvC", "ConvertMagicScalar": "CConvM"}[gname]
		res.Coq = fmt.Sprintf("%s %s %s", k, c.A[0].coq(), types[c.Tgt].Coq)
		ret := callMethod(ops[0], c.Op, types[c.Tgt].St)
		setVal(ret[0].Interface().(ad.ConstScalar))
	case "NewScalar":
		res.Coq = fmt.Sprintf("CNewS %s %s", types[c.Tgt].Coq, F(p))
		setVal(ad.NewScalar(types[c.Tgt].St, p))
	case "NewConstScalar":
		res.Coq = fmt.Sprintf("CNewC %s %s", types[c.Tgt].Coq, F(p))
		setVal(ad.NewConstScalar(types[c.Tgt].St, p))
	case "NullScalar":
		res.Coq = fmt.Sprintf("CNewS %s %s", types[c.Tgt].Coq, F(0))
		setVal(ad.NullScalar(types[c.Tgt].St))
	default:
		panic("C02-harness: unknown op " + c.Op)
	}
	return
}

func coqCase(c Case, r Result) string {
	return fmt.Sprintf("(%s, %s, %s)", r.Coq, r.Oracle.coq(), r.Obs)
}
