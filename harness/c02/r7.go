// C02 harness, round 7 — two strata that every run visits for EVERY receiver type (a regression in one textual
// instantiation must always be hit):
//  (a) LogAdd / LogSub / LOGADD / LOGSUB at pairs of infinities (+Inf,+Inf), (+Inf,-Inf), (-Inf,+Inf), (+Inf,x), (x,+Inf),
//      (-Inf,-Inf) on every float receiver with every kind of operand holder (own type, bare float, Real, constant), and on
//      every INTEGER receiver the pairs whose result the code defines without converting an infinity to an integer
//      (-Inf is the neutral element: LogAdd(-Inf,v) = v, LogAdd(x,-Inf) = x, LogSub(v,-Inf) = v);
//  (b) Pow / POW of every integer receiver with negative integral exponents and with NON-INTEGRAL bases held in a
//      float / Real / constant operand: the value is int(math.Pow(a.GetFloat64(), k.GetFloat64())), i.e. the power is taken
//      of the operand's float64 reading and truncated afterwards (2.5^2 = 6, 0.5^-2 = 4, 2^-1 = 0), not of its truncation.
package main

import "math"

var r7IntPowFloatBase = [][2]float64{
	{2.5, 2}, {1.5, 3}, {0.5, -2}, {0.5, -1}, {-0.5, -3}, {-1.5, 2}, {1.5, -1}, {2.5, 3}, {0.25, -2}, {3.9, 1}, {-2.5, 3}, {1.75, 4},
	{0.75, -3}, {-0.25, -2}, {1.25, -2},
}
var r7IntPowIntBase = [][2]int64{
	{2, -1}, {4, -1}, {1, -7}, {-1, -3}, {-1, -2}, {-2, -2}, {3, -2}, {-2, -1}, {5, -3}, {2, 5}, {-3, 3},
}

func (g *gen) generateR7Strata(rep int) {
	ninf, pinf := math.Inf(-1), math.Inf(1)
	// (a) float receivers
	holders := []int{0, 1, 2, 3, 9, 10}
	for tc := 0; tc < 4; tc++ {
		for oi, op := range []string{"LogAdd", "LogSub", "LOGADD", "LOGSUB"} {
			x := []float64{1.5, -2.25, 0, 40, -0.5}[(rep+tc+oi)%5]
			pairs := [][2]float64{{pinf, pinf}, {pinf, ninf}, {ninf, pinf}, {pinf, x}, {x, pinf}, {ninf, ninf}}
			for pi, pr := range pairs {
				ta, tb := tc, tc
				if !isConcrete(op) {
					ta = holders[(rep+tc+pi)%len(holders)]
					tb = holders[(rep+2*tc+pi+oi+1)%len(holders)]
				}
				ord := 0
				if types[ta].Real || types[tb].Real {
					ord = (rep + pi) % 3
				}
				g.emit(Case{Op: op, TC: tc, TT: []int{tc}, A: []V{VFl(ta, pr[0]), VFl(tb, pr[1])}, Order: ord}, "r7-inf-pairs")
			}
		}
	}
	// (a') the two-operand methods built from a comparison or one IEEE operation, at pairs of infinities: every float receiver,
	// generic and concrete twin, two of the four sign combinations per repetition (all four within two repetitions)
	signs := [][2]float64{{pinf, pinf}, {pinf, ninf}, {ninf, pinf}, {ninf, ninf}}
	for tc := 0; tc < 4; tc++ {
		for oi, op := range []string{"Add", "Sub", "Mul", "Div", "Min", "Max", "ADD", "SUB", "MUL", "DIV", "MIN", "MAX"} {
			for k := 0; k < 2; k++ {
				pr := signs[(2*rep+k+oi+tc)%4]
				ta, tb := tc, tc
				if !isConcrete(op) {
					ta = holders[(rep+tc+oi+k)%len(holders)]
					tb = holders[(rep+2*tc+oi+3*k+1)%len(holders)]
				}
				ord := 0
				if types[ta].Real || types[tb].Real {
					ord = (rep + oi) % 3
				}
				g.emit(Case{Op: op, TC: tc, A: []V{VFl(ta, pr[0]), VFl(tb, pr[1])}, Order: ord}, "r7-inf-pairs")
			}
		}
	}
	// (a) integer receivers: -Inf as the neutral element, held in a float operand; the other operand finite
	for tc := 4; tc < NRECV; tc++ {
		hf := []int{0, 9, 2, 1, 10, 3}[(rep+tc)%6]
		hv := []int{0, 9, 2, 1}[(rep+2*tc)%4]
		z := []int64{3, -7, 0, 41}[(rep+tc)%4]
		f := []float64{2.5, -3.75, 17, 0.5}[(rep+tc)%4]
		for _, op := range []string{"LogAdd", "LOGADD", "LogSub", "LOGSUB"} {
			if isConcrete(op) {
				continue // the concrete twins take operands of the integer type itself: no infinity can be passed
			}
			if op == "LogAdd" {
				g.emit(Case{Op: op, TC: tc, TT: []int{tc}, A: []V{VFl(hf, ninf), VIn(tc, z)}}, "r7-inf-pairs")
				g.emit(Case{Op: op, TC: tc, TT: []int{tc}, A: []V{VFl(hf, ninf), VFl(hv, f)}}, "r7-inf-pairs")
				g.emit(Case{Op: op, TC: tc, TT: []int{tc}, A: []V{VFl(hv, f), VFl(hf, ninf)}}, "r7-inf-pairs")
			} else {
				g.emit(Case{Op: op, TC: tc, TT: []int{tc}, A: []V{VIn(tc, z), VFl(hf, ninf)}}, "r7-inf-pairs")
				g.emit(Case{Op: op, TC: tc, TT: []int{tc}, A: []V{VFl(hv, f), VFl(hf, ninf)}}, "r7-inf-pairs")
			}
		}
	}
	// (b) integer receivers: Pow / POW; the list is spread over three consecutive repetitions
	for tc := 4; tc < NRECV; tc++ {
		for i, pr := range r7IntPowFloatBase {
			if (i+rep+tc)%3 != 0 {
				continue
			}
			ta := []int{0, 9, 2, 1, 10, 3}[(i+rep/3+tc)%6]
			var e V
			switch (i + rep/3) % 4 {
			case 0:
				e = VIn(tc, int64(pr[1]))
			case 1:
				e = VIn(15, int64(pr[1]))
			case 2:
				e = VFl(9, pr[1])
			default:
				e = VFl(0, pr[1])
			}
			ord := 0
			if types[ta].Real {
				ord = (i + rep) % 3
			}
			g.emit(Case{Op: "Pow", TC: tc, A: []V{VFl(ta, pr[0]), e}, Order: ord}, "r7-int-pow")
		}
		for i, pr := range r7IntPowIntBase {
			if (i+rep+tc)%3 != 0 {
				continue
			}
			g.emit(Case{Op: "POW", TC: tc, A: []V{VIn(tc, pr[0]), VIn(tc, pr[1])}}, "r7-int-pow")
			var e V
			switch (i + rep/3) % 3 {
			case 0:
				e = VIn(tc, pr[1])
			case 1:
				e = VIn(15, pr[1])
			default:
				e = VFl(9, float64(pr[1]))
			}
			ta := []int{tc, 15, 8}[(i+rep/3+tc)%3]
			g.emit(Case{Op: "Pow", TC: tc, A: []V{VIn(ta, pr[0]), e}}, "r7-int-pow")
		}
	}
}

// hunt oracle for LogAdd / LogSub on an integer receiver when -Inf (the neutral element of the log-scale sum, and the
// "nothing subtracted" of the difference) is held in a float operand: the code returns the other operand as the receiver
// reads it, without ever converting the infinity. done = false: not such a case (the general oracle decides).
func checkIntLogNeutral(c Case) (f *Failure, done bool) {
	g := genericName(c.Op)
	if (g != "LogAdd" && g != "LogSub") || isF(c.TC) || len(c.A) != 2 || len(c.TT) != 1 || c.TT[0] != c.TC {
		return nil, false
	}
	isNinf := func(v V) bool { return isF(v.T) && math.IsInf(v.fl(), -1) }
	fin := func(v V) bool { return !isF(v.T) || !(math.IsInf(v.fl(), 0) || math.IsNaN(v.fl())) }
	var other V
	switch {
	case g == "LogAdd" && isNinf(c.A[0]) && fin(c.A[1]):
		other = c.A[1] // a.Greater(b) is decided by the float holder of -Inf
	case g == "LogAdd" && isNinf(c.A[1]) && fin(c.A[0]) && isF(c.A[0].T):
		other = c.A[0]
	case g == "LogSub" && isNinf(c.A[1]) && fin(c.A[0]):
		other = c.A[0]
	default:
		return nil, false
	}
	z, ok := refInt(other, c.TC)
	if !ok {
		return nil, true
	}
	res := run(c)
	if res.Kind != "val" || res.Val.Z != z {
		return &Failure{Case: c, Site: g + ":special", Failure: "value at IEEE special operands differs from ln(e^a +- e^b) (e^-Inf = 0: the result is the other operand as the receiver reads it)",
			Got: res.Text, Want: fstr(float64(z))}, true
	}
	return nil, true
}
