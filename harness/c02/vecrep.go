// C02 harness, round 5 — operand REPRESENTATIONS for the scalar methods that take a vector or a matrix:
// dense, sparse (stored entries incl. explicit zeros, implicit zeros elsewhere), immutable sparse
// (SparseConst*Vector), and views (Slice of a vector; Slice / T() of a matrix; Row / Col / Diag of a matrix).
// A VRep / MRep is a DESCRIPTION: build() makes the library object, coq() the term of coq/C02/ModelVec.v,
// elems() the abstract element sequence computed here, without the library (reference of the hunt).
package main

import (
	"fmt"
	"strings"

	. "adharness/common"

	ad "github.com/pbenner/autodiff"
)

type MRep struct {
	Kind string `json:"k"` // dense | sparse | T | slice
	TV   int    `json:"tv"`
	N    int    `json:"n,omitempty"`
	M    int    `json:"m,omitempty"`
	X    []V    `json:"x,omitempty"`  // dense: row-major elements; sparse: stored values
	RI   []int  `json:"ri,omitempty"` // sparse: row / column of the stored entries
	CI   []int  `json:"ci,omitempty"`
	Base *MRep  `json:"base,omitempty"`
	R    [4]int `json:"r,omitempty"` // slice: rfrom, rto, cfrom, cto
}

type VRep struct {
	Kind  string `json:"k"` // dense | sparse | sparseconst | slice | row | col | diag
	TV    int    `json:"tv"`
	N     int    `json:"n,omitempty"`
	X     []V    `json:"x,omitempty"`   // dense: elements; sparse: stored values (a zero value = explicit stored zero)
	Idx   []int  `json:"idx,omitempty"` // sparse: positions of the stored values
	Base  *VRep  `json:"base,omitempty"`
	Mat   *MRep  `json:"mat,omitempty"`
	I     int    `json:"i,omitempty"`
	J     int    `json:"j,omitempty"`
	Const bool   `json:"const,omitempty"` // row / col / diag / slice taken through the Const* accessor
}

func zeroV(t int) V {
	if isF(t) {
		return VFl(t, 0)
	}
	return VIn(t, 0)
}
func isZeroV(v V) bool {
	if isF(v.T) {
		return v.fl() == 0
	}
	return v.Z == 0
}

// ---------------------------------------------------------------- dimensions and elements (no library)

func (a *MRep) dims() (int, int) {
	switch a.Kind {
	case "T":
		n, m := a.Base.dims()
		return m, n
	case "slice":
		return a.R[1] - a.R[0], a.R[3] - a.R[2]
	}
	return a.N, a.M
}
func (a *MRep) at(i, j int) V {
	switch a.Kind {
	case "dense":
		return a.X[i*a.M+j]
	case "sparse":
		for k := range a.X {
			if a.RI[k] == i && a.CI[k] == j {
				return a.X[k]
			}
		}
		return zeroV(a.TV)
	case "T":
		return a.Base.at(j, i)
	case "slice":
		return a.Base.at(a.R[0]+i, a.R[2]+j)
	}
	panic("C02-harness: bad MRep kind " + a.Kind)
}
func (a *MRep) sparse() bool {
	switch a.Kind {
	case "dense":
		return false
	case "sparse":
		return true
	}
	return a.Base.sparse()
}
func (a *MRep) elems() []V {
	n, m := a.dims()
	var r []V
	for i := 0; i < n; i++ {
		for j := 0; j < m; j++ {
			r = append(r, a.at(i, j))
		}
	}
	return r
}
func (v *VRep) elems() []V {
	switch v.Kind {
	case "dense":
		return v.X
	case "sparse", "sparseconst":
		r := make([]V, v.N)
		for i := range r {
			r[i] = zeroV(v.TV)
		}
		for k := len(v.Idx) - 1; k >= 0; k-- {
			r[v.Idx[k]] = v.X[k]
		}
		return r
	case "slice":
		return v.Base.elems()[v.I:v.J]
	case "row":
		_, m := v.Mat.dims()
		r := make([]V, m)
		for j := range r {
			r[j] = v.Mat.at(v.I, j)
		}
		return r
	case "col":
		n, _ := v.Mat.dims()
		r := make([]V, n)
		for i := range r {
			r[i] = v.Mat.at(i, v.J)
		}
		return r
	case "diag":
		n, _ := v.Mat.dims()
		r := make([]V, n)
		for i := range r {
			r[i] = v.Mat.at(i, i)
		}
		return r
	}
	panic("C02-harness: bad VRep kind " + v.Kind)
}
func (v *VRep) sparse() bool {
	switch v.Kind {
	case "dense":
		return false
	case "sparse", "sparseconst":
		return true
	case "slice":
		return v.Base.sparse()
	}
	return v.Mat.sparse()
}

// short description for the histogram
func (v *VRep) tag() string {
	switch v.Kind {
	case "sparse", "sparseconst":
		nz, ez := 0, 0
		for _, x := range v.X {
			if isZeroV(x) {
				ez++
			} else {
				nz++
			}
		}
		s := v.Kind
		switch {
		case v.N == 0:
			s += "-empty"
		case nz == 0:
			s += "-all-zero"
		case nz == v.N:
			s += "-no-zero"
		default:
			s += "-implicit-zeros"
		}
		if ez > 0 {
			s += "+explicit-zeros"
		}
		return s
	case "slice":
		return "slice(" + v.Base.tag() + ")"
	case "row", "col", "diag":
		return v.Kind + "(" + v.Mat.tag() + ")"
	}
	return v.Kind
}
func (a *MRep) tag() string {
	switch a.Kind {
	case "T":
		return "T(" + a.Base.tag() + ")"
	case "slice":
		return "slice(" + a.Base.tag() + ")"
	}
	return a.Kind
}

// ---------------------------------------------------------------- library objects

func (a *MRep) build() ad.Matrix {
	switch a.Kind {
	case "dense":
		r := ad.NullDenseMatrix(types[a.TV].St, a.N, a.M)
		for i := 0; i < a.N; i++ {
			for j := 0; j < a.M; j++ {
				r.At(i, j).Set(mkOp(a.X[i*a.M+j]))
			}
		}
		return r
	case "sparse":
		r := ad.NullSparseMatrix(types[a.TV].St, a.N, a.M)
		for k := range a.X {
			// At creates the entry; a zero value leaves an explicit stored zero
			r.At(a.RI[k], a.CI[k]).Set(mkOp(a.X[k]))
		}
		return r
	case "T":
		return a.Base.build().T()
	case "slice":
		return a.Base.build().Slice(a.R[0], a.R[1], a.R[2], a.R[3])
	}
	panic("C02-harness: bad MRep kind " + a.Kind)
}

func (v *VRep) build() ad.ConstVector {
	switch v.Kind {
	case "dense":
		return mkVec(v.TV, v.X)
	case "sparse":
		r := ad.NullSparseVector(types[v.TV].St, v.N)
		for k := range v.X {
			r.At(v.Idx[k]).Set(mkOp(v.X[k]))
		}
		return r
	case "sparseconst":
		return mkSparseConst(v.TV, v.Idx, v.X, v.N)
	case "slice":
		b := v.Base.build()
		if w, ok := b.(ad.Vector); ok && !v.Const {
			return w.Slice(v.I, v.J)
		}
		return b.ConstSlice(v.I, v.J)
	case "row":
		if v.Const {
			return v.Mat.build().ConstRow(v.I)
		}
		return v.Mat.build().Row(v.I)
	case "col":
		if v.Const {
			return v.Mat.build().ConstCol(v.J)
		}
		return v.Mat.build().Col(v.J)
	case "diag":
		if v.Const {
			return v.Mat.build().ConstDiag()
		}
		return v.Mat.build().Diag()
	}
	panic("C02-harness: bad VRep kind " + v.Kind)
}

// immutable sparse vectors exist for the seven bare value types (element type = the constant type)
func mkSparseConst(t int, idx []int, vs []V, n int) ad.ConstVector {
	ix := append([]int{}, idx...)
	switch types[t].Base {
	case BF64:
		x := make([]float64, len(vs))
		for i := range vs {
			x[i] = vs[i].fl()
		}
		return ad.NewSparseConstFloat64Vector(ix, x, n)
	case BF32:
		x := make([]float32, len(vs))
		for i := range vs {
			x[i] = float32(vs[i].fl())
		}
		return ad.NewSparseConstFloat32Vector(ix, x, n)
	case BI8:
		x := make([]int8, len(vs))
		for i := range vs {
			x[i] = int8(vs[i].Z)
		}
		return ad.NewSparseConstInt8Vector(ix, x, n)
	case BI16:
		x := make([]int16, len(vs))
		for i := range vs {
			x[i] = int16(vs[i].Z)
		}
		return ad.NewSparseConstInt16Vector(ix, x, n)
	case BI32:
		x := make([]int32, len(vs))
		for i := range vs {
			x[i] = int32(vs[i].Z)
		}
		return ad.NewSparseConstInt32Vector(ix, x, n)
	case BI64:
		x := make([]int64, len(vs))
		for i := range vs {
			x[i] = vs[i].Z
		}
		return ad.NewSparseConstInt64Vector(ix, x, n)
	}
	x := make([]int, len(vs))
	for i := range vs {
		x[i] = int(vs[i].Z)
	}
	return ad.NewSparseConstIntVector(ix, x, n)
}

// ---------------------------------------------------------------- Coq terms (coq/C02/ModelVec.v)

func natS(i int) string { return fmt.Sprintf("%d%%nat", i) }

func (a *MRep) coq() string {
	switch a.Kind {
	case "dense":
		return fmt.Sprintf("(MDense (%s) %s %s %s)", zeroV(a.TV).coqv(), natS(a.N), natS(a.M), coqvList(a.X))
	case "sparse":
		es := make([]string, len(a.X))
		for k := range a.X {
			es[k] = fmt.Sprintf("(%s, %s, %s)", natS(a.RI[k]), natS(a.CI[k]), a.X[k].coqv())
		}
		return fmt.Sprintf("(MSparse (%s) %s %s %s)", zeroV(a.TV).coqv(), natS(a.N), natS(a.M), List(es))
	case "T":
		return "(MT " + a.Base.coq() + ")"
	case "slice":
		return fmt.Sprintf("(MSlice %s %s %s %s %s)", a.Base.coq(), natS(a.R[0]), natS(a.R[1]), natS(a.R[2]), natS(a.R[3]))
	}
	panic("C02-harness: bad MRep kind " + a.Kind)
}
func (v *VRep) coq() string {
	switch v.Kind {
	case "dense":
		return "(VDense " + coqvList(v.X) + ")"
	case "sparse", "sparseconst":
		var es []string
		for k := range v.X {
			if v.Kind == "sparseconst" && isZeroV(v.X[k]) {
				continue // the constructor drops zero values: nothing is stored
			}
			es = append(es, fmt.Sprintf("(%s, %s)", natS(v.Idx[k]), v.X[k].coqv()))
		}
		return fmt.Sprintf("(VSparse (%s) %s %s)", zeroV(v.TV).coqv(), natS(v.N), List(es))
	case "slice":
		return fmt.Sprintf("(VSlice %s %s %s)", v.Base.coq(), natS(v.I), natS(v.J))
	case "row":
		return fmt.Sprintf("(VRow %s %s)", v.Mat.coq(), natS(v.I))
	case "col":
		return fmt.Sprintf("(VCol %s %s)", v.Mat.coq(), natS(v.J))
	case "diag":
		return "(VDiag " + v.Mat.coq() + ")"
	}
	panic("C02-harness: bad VRep kind " + v.Kind)
}

func vcallCoq(body string) string { return "vcall_of (CarF []) (" + body + ")" }

// the case with the representation replaced by its element sequence (reference computations of the hunt)
func lowered(c Case) Case {
	if c.VX != nil {
		c.X, c.TV = c.VX.elems(), c.VX.TV
	}
	if c.VY != nil {
		c.Y = c.VY.elems()
	}
	if c.MA != nil {
		c.N, c.M = c.MA.dims()
		c.X, c.TV = c.MA.elems(), c.MA.TV
	}
	return c
}
func repTag(c Case) string {
	var s []string
	if c.VX != nil {
		s = append(s, c.VX.tag())
	}
	if c.VY != nil {
		s = append(s, c.VY.tag())
	}
	if c.MA != nil {
		s = append(s, c.MA.tag())
	}
	return strings.Join(s, "*")
}
