// C02 harness, round 5 — generators for the operand representations of the vector / matrix taking scalar methods.
// Stratified: in EVERY repetition every (method, receiver type) pair gets a sparse operand with implicit zeros,
// one further sparse variant (no zero / all zero / explicit stored zeros / immutable sparse / slice of sparse /
// empty) and one view (slice of dense, row / column / diagonal of a dense, transposed, sliced or sparse matrix).
package main

import (
	"math"

	. "adharness/common"
)

func nonzero(r *Rng, tv int, class string) V {
	for k := 0; k < 8; k++ {
		if v := genV(r, tv, class); !isZeroV(v) {
			return v
		}
	}
	if isF(tv) {
		return VFl(tv, 1.5)
	}
	return VIn(tv, 2)
}

// explicit stored zero: +0 or -0 for float element types
func storedZero(r *Rng, tv int) V {
	if isF(tv) {
		return VFl(tv, []float64{0, math.Copysign(0, -1)}[r.Intn(2)])
	}
	return VIn(tv, 0)
}

func shuffleEntries(r *Rng, idx []int, x []V) {
	for i := len(idx) - 1; i > 0; i-- {
		j := r.Intn(i + 1)
		idx[i], idx[j] = idx[j], idx[i]
		x[i], x[j] = x[j], x[i]
	}
}

// pat: implicit | nozero | allzero | explicit | empty ; k rotates the position of the zeros (head, middle, tail)
func sparseVec(r *Rng, kind string, tv, n int, class, pat string, k int) *VRep {
	v := &VRep{Kind: kind, TV: tv, N: n}
	if pat == "empty" {
		v.N = 0
		return v
	}
	if n < 1 {
		n, v.N = 1, 1
	}
	for i := 0; i < n; i++ {
		switch pat {
		case "nozero":
			v.Idx, v.X = append(v.Idx, i), append(v.X, nonzero(r, tv, class))
		case "allzero":
		case "implicit", "explicit":
			// one guaranteed implicit zero at the head, in the middle or at the tail; the rest mostly stored
			zeroAt := []int{0, n / 2, n - 1}[k%3]
			if i == zeroAt || (n > 2 && r.Intn(4) == 0) {
				continue
			}
			if pat == "explicit" && (i == (zeroAt+1)%n || r.Intn(4) == 0) {
				v.Idx, v.X = append(v.Idx, i), append(v.X, storedZero(r, tv))
				continue
			}
			v.Idx, v.X = append(v.Idx, i), append(v.X, nonzero(r, tv, class))
		}
	}
	shuffleEntries(r, v.Idx, v.X)
	return v
}

func denseVec(r *Rng, tv, n int, class string) *VRep {
	v := &VRep{Kind: "dense", TV: tv}
	for i := 0; i < n; i++ {
		x := genV(r, tv, class)
		if r.Intn(5) == 0 {
			x = zeroV(tv)
		}
		v.X = append(v.X, x)
	}
	return v
}

func denseMat(r *Rng, tv, n, m int, class string) *MRep {
	a := &MRep{Kind: "dense", TV: tv, N: n, M: m}
	for i := 0; i < n*m; i++ {
		x := genV(r, tv, class)
		if r.Intn(5) == 0 {
			x = zeroV(tv)
		}
		a.X = append(a.X, x)
	}
	return a
}

// sparse matrix: about half of the positions stored, one of them possibly an explicit zero; dens 0: nothing stored, 2: all
func sparseMat(r *Rng, tv, n, m int, class string, dens int) *MRep {
	a := &MRep{Kind: "sparse", TV: tv, N: n, M: m}
	for i := 0; i < n; i++ {
		for j := 0; j < m; j++ {
			if dens == 0 || (dens == 1 && r.Bool()) {
				continue
			}
			x := nonzero(r, tv, class)
			if dens == 1 && r.Intn(6) == 0 {
				// explicit stored zero, +0 only: Row / Col / Diag of a sparse matrix copy the non-null entries, so a stored -0
				// reads back as +0 through those views (same value, other bits; the model keeps the stored scalar)
				x = zeroV(tv)
			}
			a.RI, a.CI, a.X = append(a.RI, i), append(a.CI, j), append(a.X, x)
		}
	}
	for i := len(a.X) - 1; i > 0; i-- {
		j := r.Intn(i + 1)
		a.RI[i], a.RI[j] = a.RI[j], a.RI[i]
		a.CI[i], a.CI[j] = a.CI[j], a.CI[i]
		a.X[i], a.X[j] = a.X[j], a.X[i]
	}
	return a
}

// a matrix representation with the given outer dimensions: base (dense / sparse), possibly transposed and / or sliced
func matRep(r *Rng, tv, n, m int, class string, sparse bool, variant int) *MRep {
	base := func(n, m int) *MRep {
		if sparse {
			return sparseMat(r, tv, n, m, class, []int{1, 1, 1, 0, 2}[r.Intn(5)])
		}
		return denseMat(r, tv, n, m, class)
	}
	variant %= 5
	if sparse && variant == 4 {
		variant = 3 // T() of a slice of a sparse matrix panics (known finding F-SPT of C10): not an operand we can build
	}
	switch variant {
	case 1: // transposed
		return &MRep{Kind: "T", TV: tv, Base: base(m, n)}
	case 2: // strict interior slice
		r0, c0 := r.Range(0, 2), r.Range(0, 2)
		return &MRep{Kind: "slice", TV: tv, Base: base(n+r0+r.Range(0, 1), m+c0+r.Range(0, 1)), R: [4]int{r0, r0 + n, c0, c0 + m}}
	case 3: // slice of the transposed
		r0, c0 := r.Range(0, 1), r.Range(0, 2)
		b := &MRep{Kind: "T", TV: tv, Base: base(m+c0+r.Range(0, 1), n+r0+1)}
		return &MRep{Kind: "slice", TV: tv, Base: b, R: [4]int{r0, r0 + n, c0, c0 + m}}
	case 4: // transposed slice
		r0, c0 := r.Range(0, 2), r.Range(0, 1)
		b := &MRep{Kind: "slice", TV: tv, Base: base(m+r0+1, n+c0+r.Range(0, 1)), R: [4]int{r0, r0 + m, c0, c0 + n}}
		return &MRep{Kind: "T", TV: tv, Base: b}
	}
	return base(n, m)
}

// a view with n elements
func viewVec(r *Rng, tv, n int, class string, variant int) *VRep {
	cst := r.Bool()
	switch variant % 8 {
	case 0: // interior slice of a dense vector
		i := r.Range(1, 2)
		return &VRep{Kind: "slice", TV: tv, Base: denseVec(r, tv, n+i+r.Range(0, 2), class), I: i, J: i + n, Const: cst}
	case 1: // slice of a slice
		i, k := r.Range(0, 2), r.Range(0, 1)
		inner := &VRep{Kind: "slice", TV: tv, Base: denseVec(r, tv, n+i+k+2, class), I: i, J: i + n + k + 1}
		return &VRep{Kind: "slice", TV: tv, Base: inner, I: k, J: k + n, Const: cst}
	case 2: // row of a dense matrix (plain / transposed / sliced)
		rows := r.Range(1, 3)
		return &VRep{Kind: "row", TV: tv, Mat: matRep(r, tv, rows, n, class, false, r.Intn(5)), I: r.Intn(rows), Const: cst}
	case 3: // column
		cols := r.Range(1, 3)
		return &VRep{Kind: "col", TV: tv, Mat: matRep(r, tv, n, cols, class, false, r.Intn(5)), J: r.Intn(cols), Const: cst}
	case 4: // diagonal
		return &VRep{Kind: "diag", TV: tv, Mat: matRep(r, tv, n, n, class, false, r.Intn(5)), Const: cst}
	case 5: // row of a sparse matrix
		rows := r.Range(1, 3)
		return &VRep{Kind: "row", TV: tv, Mat: matRep(r, tv, rows, n, class, true, r.Intn(5)), I: r.Intn(rows), Const: cst}
	case 6: // column of a sparse matrix
		cols := r.Range(1, 3)
		return &VRep{Kind: "col", TV: tv, Mat: matRep(r, tv, n, cols, class, true, r.Intn(5)), J: r.Intn(cols), Const: cst}
	}
	return &VRep{Kind: "diag", TV: tv, Mat: matRep(r, tv, n, n, class, true, r.Intn(5)), Const: cst}
}

var vecRepOps = []string{"SmoothMax", "LogSmoothMax", "Vmean", "VdotV", "Vnorm"}

func (g *gen) vecRepCase(op string, tc int, vx *VRep) Case {
	r := g.r
	c := Case{Op: op, TC: tc, VX: vx}
	switch op {
	case "SmoothMax":
		c.TT = []int{tc, tc}
		c.P = fstr([]float64{1, 2, 0.5, -1, 10}[r.Intn(5)])
	case "LogSmoothMax":
		c.TT = []int{tc, tc, tc}
		c.P = fstr([]float64{1, 2, 0.5, 3}[r.Intn(4)])
	}
	return c
}

func (g *gen) generateReps(rep int) {
	r := g.r
	for oi, op := range vecRepOps {
		class := "small"
		if op == "LogSmoothMax" {
			class = "pos"
		}
		for tc := 0; tc < NRECV; tc++ {
			tvOf := func() int {
				if r.Intn(4) == 0 {
					return r.Intn(NRECV)
				}
				return tc
			}
			rot := rep*7 + oi*3 + tc
			// (1) sparse with implicit zeros, always
			n := r.Range(2, 5)
			tv := tvOf()
			c1 := g.vecRepCase(op, tc, sparseVec(r, "sparse", tv, n, class, "implicit", rot))
			// (2) another sparse variant
			var v2 *VRep
			n = r.Range(1, 4)
			tv = tvOf()
			switch rot % 7 {
			case 0:
				v2 = sparseVec(r, "sparse", tv, n, class, "nozero", rot)
			case 1:
				v2 = sparseVec(r, "sparse", tv, n, class, "allzero", rot)
			case 2:
				v2 = sparseVec(r, "sparse", tv, n+1, class, "explicit", rot)
			case 3:
				k := tv
				if types[k].Real {
					k -= 2 // immutable sparse vectors exist for the bare value types only
				}
				v2 = sparseVec(r, "sparseconst", k, n+1, class, []string{"implicit", "explicit", "allzero", "nozero"}[(rep+tc)%4], rot)
			case 4: // slice of a sparse vector that cuts implicit zeros in and stored entries out
				i := r.Range(0, 2)
				v2 = &VRep{Kind: "slice", TV: tv, Base: sparseVec(r, "sparse", tv, n+i+2, class, []string{"implicit", "explicit"}[rep%2], rot), I: i, J: i + n, Const: r.Bool()}
			case 5:
				v2 = sparseVec(r, "sparse", tv, 0, class, "empty", rot)
			case 6:
				i := r.Range(0, 1)
				k := tv
				if types[k].Real {
					k -= 2
				}
				v2 = &VRep{Kind: "slice", TV: k, Base: sparseVec(r, "sparseconst", k, n+i+1, class, "implicit", rot), I: i, J: i + n, Const: true}
			}
			c2 := g.vecRepCase(op, tc, v2)
			// (3) a view
			n = r.Range(1, 4)
			c3 := g.vecRepCase(op, tc, viewVec(r, tvOf(), n, class, rot))
			if op == "VdotV" {
				// second operand: another representation of the same length
				for ci, c := range []*Case{&c1, &c2, &c3} {
					n := len(c.VX.elems())
					tv := tvOf()
					switch (rot + ci) % 4 {
					case 0:
						c.VY = denseVec(r, tv, n, class)
					case 1:
						c.VY = sparseVec(r, "sparse", tv, n, class, "implicit", rot+1)
						if n == 0 {
							c.VY = sparseVec(r, "sparse", tv, 0, class, "empty", rot)
						}
					case 2:
						c.VY = viewVec(r, tv, n, class, rot+ci)
						if n == 0 {
							c.VY = denseVec(r, tv, 0, class) // ConstRow of a matrix without columns panics: no such operand
						}
					case 3:
						c.VY = sparseVec(r, "sparse", tv, n, class, "nozero", rot)
						if n == 0 {
							c.VY = denseVec(r, tv, 0, class)
						}
					}
				}
				if r.Intn(12) == 0 {
					c3.VY = denseVec(r, tc, len(c3.VX.elems())+1, class) // dimension mismatch: panic
				}
			}
			g.emit(c1, "operand-rep")
			g.emit(c2, "operand-rep")
			g.emit(c3, "operand-rep")
		}
	}
	for oi, op := range []string{"Mtrace", "Mnorm"} {
		for tc := 0; tc < NRECV; tc++ {
			rot := rep*5 + oi*2 + tc
			tv := tc
			if r.Intn(4) == 0 {
				tv = r.Intn(NRECV)
			}
			n := r.Range(1, 3)
			m := n
			if op == "Mnorm" || r.Intn(8) == 0 {
				m = r.Range(1, 3)
			}
			// sparse matrix (stored / implicit / explicit zeros), a sparse view, a dense view
			g.emit(Case{Op: op, TC: tc, MA: sparseMat(r, tv, n, m, "small", []int{1, 1, 0, 2}[rot%4])}, "operand-rep")
			g.emit(Case{Op: op, TC: tc, MA: matRep(r, tv, n, m, "small", true, 1+rot%4)}, "operand-rep")
			g.emit(Case{Op: op, TC: tc, MA: matRep(r, tv, n, m, "small", false, 1+rot%4)}, "operand-rep")
		}
	}
}

// ---------------------------------------------------------------- round 5 (B): Erfc family, both sides of every branch threshold
// special.LogErfc selects its formula by  x*x < 2.46e-2 (series around 0),  x > 8 (asymptotic),  x > 1e50, else log(erfc x);
// math.Erf / math.Erfc switch at |x| = 2^-28, 0.84375, 1.25, 1/0.35, 6 (erf) and 28 / -6 (erfc).  Every threshold is visited
// on BOTH signs (a selection written for |x| or for x alone goes wrong on the negative side only), at 1 ulp, 1e-3 and ~0.4
// from it, for every receiver type (bare, tracked Real with order 1 and 2, integer) with rotating operand types.
var logErfcThr = []float64{0.15686884013646955, 8, 1e50}
var erfThr = []float64{0.84375, 1.25, 1 / 0.35, 6, 28}
var erfcFar = []float64{-9, -12.5, -20, -27.25, -40, -1e3, -1e50, -1e300, 9, 12.5, 27.5, 40, 1e3, 1e300}

func (g *gen) generateErfcStrata(rep int) {
	r := g.r
	near := func(t float64, sg float64, k int) float64 {
		switch k % 3 {
		case 0:
			return ulp(t, int(sg))
		case 1:
			return t * (1 + sg*1e-3)
		}
		return t * (1 + sg*0.11)
	}
	for tc := 0; tc < NRECV; tc++ {
		opT := func(k int) (int, int) { // operand type and tracked order
			ta := []int{tc, 0, 2, 9, 3, 1}[(rep+tc+k)%6]
			if !isF(ta) {
				ta = 0
			}
			ord := 0
			if types[ta].Real {
				ord = 1 + (rep+k)%2
			}
			return ta, ord
		}
		k := 0
		for ti, t := range logErfcThr {
			for _, neg := range []float64{1, -1} {
				for _, sg := range []float64{-1, 1} {
					x := neg * near(t, sg, rep+tc+ti+k)
					ta, ord := opT(k)
					k++
					g.emit(Case{Op: "LogErfc", TC: tc, A: []V{VFl(ta, x)}, Order: ord}, "erfc-strata")
				}
			}
		}
		for q := 0; q < 3; q++ {
			x := erfcFar[(rep*3+tc+q*5)%len(erfcFar)]
			ta, ord := opT(k)
			k++
			g.emit(Case{Op: "LogErfc", TC: tc, A: []V{VFl(ta, x)}, Order: ord}, "erfc-strata")
		}
		for oi, op := range []string{"Erf", "Erfc"} {
			for q := 0; q < 4; q++ {
				t := erfThr[(rep+tc+q+oi)%len(erfThr)]
				neg := []float64{1, -1}[(q+rep)%2]
				x := neg * near(t, []float64{-1, 1}[(q/2+tc)%2], rep+q)
				ta, ord := opT(k)
				k++
				g.emit(Case{Op: op, TC: tc, A: []V{VFl(ta, x)}, Order: ord}, "erfc-strata")
			}
			x := erfcFar[(rep+tc+oi*3)%len(erfcFar)]
			ta, ord := opT(k)
			g.emit(Case{Op: op, TC: tc, A: []V{VFl(ta, x)}, Order: ord}, "erfc-strata")
		}
	}
	_ = r
}
