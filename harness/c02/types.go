// C02 harness — the sixteen scalar types, operand values and their Coq/JSON forms.
package main

import (
	"fmt"
	"math"
	"strconv"

	. "adharness/common"

	ad "github.com/pbenner/autodiff"
)

const (
	BF64 = iota
	BF32
	BI8
	BI16
	BI32
	BI64
	BInt
)

type TInfo struct {
	Name string
	Coq  string
	Base int
	Real bool
	Cnst bool
	St   ad.ScalarType
}

var types = []TInfo{
	{"Float64", "TFloat64", BF64, false, false, ad.Float64Type},
	{"Float32", "TFloat32", BF32, false, false, ad.Float32Type},
	{"Real64", "TReal64", BF64, true, false, ad.Real64Type},
	{"Real32", "TReal32", BF32, true, false, ad.Real32Type},
	{"Int8", "TInt8", BI8, false, false, ad.Int8Type},
	{"Int16", "TInt16", BI16, false, false, ad.Int16Type},
	{"Int32", "TInt32", BI32, false, false, ad.Int32Type},
	{"Int64", "TInt64", BI64, false, false, ad.Int64Type},
	{"Int", "TInt", BInt, false, false, ad.IntType},
	{"ConstFloat64", "TCFloat64", BF64, false, true, ad.ConstFloat64Type},
	{"ConstFloat32", "TCFloat32", BF32, false, true, ad.ConstFloat32Type},
	{"ConstInt8", "TCInt8", BI8, false, true, ad.ConstInt8Type},
	{"ConstInt16", "TCInt16", BI16, false, true, ad.ConstInt16Type},
	{"ConstInt32", "TCInt32", BI32, false, true, ad.ConstInt32Type},
	{"ConstInt64", "TCInt64", BI64, false, true, ad.ConstInt64Type},
	{"ConstInt", "TCInt", BInt, false, true, ad.ConstIntType},
}

const NRECV = 9 // the first nine are the mutable (registered) types

func isF(t int) bool { return types[t].Base <= BF32 }
func bitsOf(t int) uint {
	switch types[t].Base {
	case BI8:
		return 8
	case BI16:
		return 16
	case BI32:
		return 32
	}
	return 64
}
func typeIndex(st ad.ScalarType) int {
	for i, t := range types {
		if t.St == st {
			return i
		}
	}
	return -1
}

// V: an operand: type index and stored value (float types: F; integer types: Z).
type V struct {
	T int    `json:"t"`
	F string `json:"f,omitempty"` // float64 value as %x / NaN / +Inf / -Inf
	Z int64  `json:"z"`
}

func fstr(x float64) string {
	switch {
	case math.IsNaN(x):
		return "NaN"
	case math.IsInf(x, 1):
		return "+Inf"
	case math.IsInf(x, -1):
		return "-Inf"
	}
	return fmt.Sprintf("%x", x)
}
func fparse(s string) float64 {
	if s == "" {
		return 0
	}
	x, err := strconv.ParseFloat(s, 64)
	if err != nil {
		Die("bad float %q", s)
	}
	return x
}
func VFl(t int, x float64) V {
	if types[t].Base == BF32 {
		x = float64(float32(x))
	}
	return V{T: t, F: fstr(x)}
}
func wrapTo(t int, z int64) int64 {
	switch types[t].Base {
	case BI8:
		return int64(int8(z))
	case BI16:
		return int64(int16(z))
	case BI32:
		return int64(int32(z))
	}
	return z
}
func VIn(t int, z int64) V { return V{T: t, Z: wrapTo(t, z)} }
func (v V) fl() float64   { return fparse(v.F) }
func (v V) coqv() string {
	if isF(v.T) {
		return "VF " + F(v.fl())
	}
	return "VI " + Z(v.Z)
}
func (v V) coq() string { return "(" + types[v.T].Coq + ", " + v.coqv() + ")" }
func coqvList(vs []V) string {
	s := make([]string, len(vs))
	for i, v := range vs {
		s[i] = v.coqv()
	}
	return List(s)
}

// fresh receiver / temporary of a mutable type, value zero
func mkRecv(t int) ad.Scalar {
	switch t {
	case 0:
		return ad.NewFloat64(0)
	case 1:
		return ad.NewFloat32(0)
	case 2:
		return ad.NewReal64(0)
	case 3:
		return ad.NewReal32(0)
	case 4:
		return ad.NewInt8(0)
	case 5:
		return ad.NewInt16(0)
	case 6:
		return ad.NewInt32(0)
	case 7:
		return ad.NewInt64(0)
	case 8:
		return ad.NewInt(0)
	}
	Die("mkRecv: type %d is not mutable", t)
	return nil
}

// operand of any of the sixteen types holding v
func mkOp(v V) ad.ConstScalar {
	x := v.fl()
	switch v.T {
	case 0:
		return ad.NewFloat64(x)
	case 1:
		return ad.NewFloat32(float32(x))
	case 2:
		return ad.NewReal64(x)
	case 3:
		return ad.NewReal32(float32(x))
	case 4:
		return ad.NewInt8(int8(v.Z))
	case 5:
		return ad.NewInt16(int16(v.Z))
	case 6:
		return ad.NewInt32(int32(v.Z))
	case 7:
		return ad.NewInt64(v.Z)
	case 8:
		return ad.NewInt(int(v.Z))
	case 9:
		return ad.NewConstFloat64(x)
	case 10:
		return ad.NewConstFloat32(float32(x))
	case 11:
		return ad.NewConstInt8(int8(v.Z))
	case 12:
		return ad.NewConstInt16(int16(v.Z))
	case 13:
		return ad.NewConstInt32(int32(v.Z))
	case 14:
		return ad.NewConstInt64(v.Z)
	case 15:
		return ad.NewConstInt(int(v.Z))
	}
	Die("mkOp: bad type %d", v.T)
	return nil
}

// dense vector / matrix with element type t (mutable types only)
func mkVec(t int, vs []V) ad.ConstVector {
	n := len(vs)
	switch t {
	case 0:
		x := make([]float64, n)
		for i := range vs {
			x[i] = vs[i].fl()
		}
		return ad.NewDenseFloat64Vector(x)
	case 1:
		x := make([]float32, n)
		for i := range vs {
			x[i] = float32(vs[i].fl())
		}
		return ad.NewDenseFloat32Vector(x)
	case 2:
		x := make([]float64, n)
		for i := range vs {
			x[i] = vs[i].fl()
		}
		return ad.NewDenseReal64Vector(x)
	case 3:
		x := make([]float32, n)
		for i := range vs {
			x[i] = float32(vs[i].fl())
		}
		return ad.NewDenseReal32Vector(x)
	case 4:
		x := make([]int8, n)
		for i := range vs {
			x[i] = int8(vs[i].Z)
		}
		return ad.NewDenseInt8Vector(x)
	case 5:
		x := make([]int16, n)
		for i := range vs {
			x[i] = int16(vs[i].Z)
		}
		return ad.NewDenseInt16Vector(x)
	case 6:
		x := make([]int32, n)
		for i := range vs {
			x[i] = int32(vs[i].Z)
		}
		return ad.NewDenseInt32Vector(x)
	case 7:
		x := make([]int64, n)
		for i := range vs {
			x[i] = vs[i].Z
		}
		return ad.NewDenseInt64Vector(x)
	case 8:
		x := make([]int, n)
		for i := range vs {
			x[i] = int(vs[i].Z)
		}
		return ad.NewDenseIntVector(x)
	}
	Die("mkVec: bad type %d", t)
	return nil
}
func mkMat(t int, vs []V, n, m int) ad.ConstMatrix {
	if n == 0 || m == 0 {
		return ad.NullDenseMatrix(types[t].St, n, m)
	}
	r := ad.NullDenseMatrix(types[t].St, n, m)
	for i := 0; i < n; i++ {
		for j := 0; j < m; j++ {
			r.At(i, j).Set(mkOp(vs[i*m+j]))
		}
	}
	return r
}

// observable form of a scalar: Coq term and a printable string
func obsScalar(s ad.ConstScalar) (string, V) {
	t := typeIndex(s.Type())
	if t < 0 {
		return "OPanic", V{}
	}
	var v V
	if isF(t) {
		v = V{T: t, F: fstr(s.GetFloat64())}
	} else {
		v = V{T: t, Z: s.GetInt64()}
	}
	return "OVal " + types[t].Coq + " (" + v.coqv() + ")", v
}
