// C02 harness: every scalar method x receiver type x operand types at generated points,
// observed results written as Coq case files for coq/C02 (bit-exact comparison), plus
// Coq-Interval goals certifying the recorded math.* results against the real functions.
package main

import (
	"encoding/json"
	"fmt"
	"math"
	"os"
	"path/filepath"
	"sort"
	"strings"

	. "adharness/common"
)

// ---------------------------------------------------------------- value generators

var specials = []float64{0, math.Copysign(0, -1), math.Inf(1), math.Inf(-1), math.NaN()}

func ulp(x float64, k int) float64 {
	for ; k > 0; k-- {
		x = math.Nextafter(x, math.Inf(1))
	}
	for ; k < 0; k++ {
		x = math.Nextafter(x, math.Inf(-1))
	}
	return x
}

// class: "any" | "pos" | "small" | "l1pe" | "unit" | "int"
func genF(r *Rng, class string) float64 {
	logu := func(lo, hi float64) float64 { return math.Exp(math.Log(lo) + r.Float()*(math.Log(hi)-math.Log(lo))) }
	sgn := func(x float64) float64 {
		if r.Bool() {
			return -x
		}
		return x
	}
	switch class {
	case "pos":
		switch r.Intn(6) {
		case 0:
			return float64(r.Range(1, 9))
		case 1:
			return logu(1e-6, 1e-2)
		case 2:
			return logu(10, 150)
		}
		return logu(0.05, 20)
	case "small":
		switch r.Intn(5) {
		case 0:
			return float64(r.Range(-4, 4))
		case 1:
			return sgn(logu(1e-5, 1e-1))
		}
		return sgn(logu(0.1, 5))
	case "unit":
		return r.Float()*1.8 - 0.9
	case "l1pe":
		bs := []float64{-37, 18, 33.3}
		switch r.Intn(4) {
		case 0:
			return ulp(bs[r.Intn(3)], r.Range(-1, 1))
		case 1:
			return float64(r.Range(-45, 45))
		}
		return r.Float()*100 - 55
	case "int":
		switch r.Intn(4) {
		case 0:
			return float64(r.Range(-3, 3))
		case 1:
			return float64(r.Range(-130, 130)) + []float64{0, 0.5, -0.5, 0.999}[r.Intn(4)]
		case 2:
			return []float64{127.5, 128, -128.9, -129, 32767.9, 32768, -32768.5, 2147483647.5, 2147483648, -2147483648.9,
				9223372036854774784, 9223372036854775808, -9223372036854775808, 9007199254740993, 16777217, 1e300, -1e300}[r.Intn(17)]
		}
		return sgn(logu(0.5, 1e5))
	}
	// any
	switch r.Intn(10) {
	case 0:
		return specials[r.Intn(len(specials))]
	case 1:
		return float64(r.Range(-5, 5))
	case 2:
		return sgn(logu(1e-300, 1e300))
	case 3:
		return sgn([]float64{16777217, 0x1.000001p+0, 0x1.000003p+0, 0x1.ffffffp+127, 0x1.fffffefp+127, 0x1p-149, 0x1p-150, 0x1.8p-150, 0x1p-126, 3.4e38, 1e-45}[r.Intn(11)])
	}
	return sgn(logu(1e-3, 1e3))
}
func genZ(r *Rng, t int, class string) int64 {
	b := bitsOf(t)
	min := -int64(1) << (b - 1)
	max := int64(1)<<(b-1) - 1
	if b == 64 {
		min, max = math.MinInt64, math.MaxInt64
	}
	if class == "pos" {
		return int64(r.Range(1, 9))
	}
	if class == "small" || class == "unit" || class == "l1pe" {
		return int64(r.Range(-4, 4))
	}
	switch r.Intn(6) {
	case 0:
		return []int64{min, max, min + 1, max - 1, -1, 0, 1}[r.Intn(7)]
	case 1:
		return wrapTo(t, int64(r.U64()))
	case 2:
		return []int64{127, 128, -128, -129, 255, 256, 32767, 32768, -32769, 65536, 2147483647, 2147483648, -2147483649,
			9007199254740993, 16777217, math.MaxInt64, math.MinInt64}[r.Intn(17)]
	}
	return int64(r.Range(-12, 12))
}

// operand of type t
func genV(r *Rng, t int, class string) V {
	if isF(t) {
		return VFl(t, genF(r, class))
	}
	return VIn(t, genZ(r, t, class))
}

// operand type for a receiver: mostly related types, sometimes any of the sixteen
func genOT(r *Rng, tc int) int {
	switch r.Intn(4) {
	case 0:
		return tc
	case 1:
		return 9 + types[tc].Base // the receiver's constant type
	}
	return r.Intn(len(types))
}

// ---------------------------------------------------------------- case generators

var unaryOps = []struct {
	name  string
	class string // for float-typed receivers
}{
	{"Neg", "any"}, {"Abs", "any"}, {"Set", "int"}, {"Sqrt", "pos"}, {"Log1pExp", "l1pe"}, {"Logistic", "small"}, {"Lgamma", "pos"},
	{"Exp", "small"}, {"Log", "pos"}, {"Log1p", "unit"}, {"Sin", "small"}, {"Cos", "small"}, {"Tan", "small"}, {"Sinh", "small"},
	{"Cosh", "small"}, {"Tanh", "small"}, {"Erf", "small"}, {"Erfc", "small"}, {"LogErfc", "small"}, {"Gamma", "pos"},
	{"NEG", "any"}, {"SQRT", "pos"}, {"EXP", "small"}, {"LOG", "pos"}, {"LOG1P", "unit"},
}
var binaryOps = []string{"Add", "Sub", "Mul", "Div", "Pow", "Min", "Max", "ADD", "SUB", "MUL", "DIV", "POW", "MIN", "MAX"}

type gen struct {
	r *Rng
	w *CaseWriter
	ws *CaseWriter // round 6: histories (coq/C02/CorrSt.v), own shard files seq_<k>.v
	o Opts
	// oracle entries seen over the whole run, for the certificates
	cert  map[[3]uint64]entry
	sink  func(Case, string) // when set (hunt), cases go here instead of the case writer
	count int
}

func (g *gen) emit(c Case, group string) {
	g.count++
	if g.sink != nil {
		g.sink(c, group)
		return
	}
	res := run(c)
	key := fmt.Sprintf("%s|%d|%v", c.Op, c.TC, c.TT)
	for _, a := range c.A {
		key += fmt.Sprintf("|%d", a.T)
	}
	nontriv := res.Kind != "panic" && (len(c.A)+len(c.X) > 0 || c.VX != nil || c.MA != nil)
	if c.Op == "Seq" {
		w := g.ws
		for _, st := range c.Steps {
			key += "|" + st.Op
			w.Count("step:" + genericName(st.Op) + ":" + types[c.TC].Name)
			for _, a := range st.A {
				if a.T == aliasT {
					w.Count("aliased-operand")
				}
			}
		}
		w.Add(res.Coq, c, key+"|"+res.Text, len(c.Steps) > 0)
		w.Count("recv:" + tname(c))
		w.Count("outcome:" + res.Kind)
		w.Count(fmt.Sprintf("tracked-order:%d", c.Order))
		if c.DD {
			w.Count("dirty-derivatives")
		}
		if c.TT[0] != c.TC || c.TT[1] != c.TC || c.TT[2] != c.TC {
			w.Count("mixed-type-scratch")
		}
		for _, e := range res.Oracle.ents {
			k := [3]uint64{uint64(e.id), math.Float64bits(e.a), math.Float64bits(e.b)}
			g.cert[k] = e
		}
		return
	}
	if tag := repTag(c); tag != "" {
		key += "|" + tag
		for _, t := range strings.Split(tag, "*") {
			g.w.Count("operand-rep:" + t)
		}
		if c.VX != nil && c.VX.sparse() || c.VY != nil && c.VY.sparse() || c.MA != nil && c.MA.sparse() {
			g.w.Count("operand-sparse:" + c.Op + ":" + tname(c))
		}
	}
	g.w.Add(coqCase(c, res), c, key+"|"+res.Text, nontriv)
	g.w.Count("op:" + c.Op)
	g.w.Count("recv:" + tname(c))
	g.w.Count("outcome:" + res.Kind)
	g.w.Count("group:" + group)
	if c.Order > 0 {
		g.w.Count(fmt.Sprintf("tracked-order:%d", c.Order))
	}
	for _, a := range c.A {
		if a.T != c.TC {
			g.w.Count("mixed-type-operand")
			break
		}
	}
	for _, a := range c.A {
		if isF(a.T) {
			x := a.fl()
			if math.IsNaN(x) || math.IsInf(x, 0) || x == 0 {
				g.w.Count("special-operand")
				break
			}
		}
	}
	for _, e := range res.Oracle.ents {
		k := [3]uint64{uint64(e.id), math.Float64bits(e.a), math.Float64bits(e.b)}
		g.cert[k] = e
	}
}
func tname(c Case) string {
	switch c.Op {
	case "Greater", "Smaller", "Equals", "Sign", "GREATER", "SMALLER", "EQUALS", "SIGN", "ConvertScalar", "ConvertConstScalar", "ConvertMagicScalar":
		return types[c.A[0].T].Name
	case "NewScalar", "NewConstScalar", "NullScalar":
		return types[c.Tgt].Name
	}
	return types[c.TC].Name
}

func (g *gen) order(ts ...int) int {
	for _, t := range ts {
		if types[t].Real {
			return g.r.Intn(3)
		}
	}
	return 0
}

func (g *gen) generate(n int) {
	r := g.r
	for rep := 0; rep < n; rep++ {
		// unary
		for _, u := range unaryOps {
			for tc := 0; tc < NRECV; tc++ {
				class := u.class
				ta := genOT(r, tc)
				if isConcrete(u.name) {
					ta = tc
				}
				if !isF(tc) && class != "any" && u.name != "Set" {
					// integer receivers: keep float64 results representable most of the time
					if r.Intn(4) > 0 {
						if class != "pos" {
							class = "small"
						}
					}
				}
				a := genV(r, ta, class)
				g.emit(Case{Op: u.name, TC: tc, A: []V{a}, Order: g.order(ta)}, "unary")
			}
		}
		// IEEE special operands (+-0, +-Inf, NaN) for every unary method on every float receiver, rotating with the repetition
		for ui, u := range unaryOps {
			for tc := 0; tc < 4; tc++ {
				sp := specials[(rep+ui+tc)%len(specials)]
				ta := []int{tc, 0, 1, 9, 10}[r.Intn(5)]
				if isConcrete(u.name) {
					ta = tc
				}
				g.emit(Case{Op: u.name, TC: tc, A: []V{VFl(ta, sp)}, Order: g.order(ta)}, "unary-special")
			}
		}
		// Log1pExp: both sides of every branch threshold, at distances from 1 ulp to 9 (a moved threshold only
		// becomes visible a few units away from it, where the two neighbouring formulas differ in binary64)
		for tc := 0; tc < NRECV; tc++ {
			for bi, b := range []float64{-37, 18, 33.3} {
				for _, sg := range []float64{-1, 1} {
					far := []float64{3, 9, 6, 1.5}[(rep+bi)%4]
					near := []float64{1e-9, 1e-3, 0.4}[(rep+tc)%3]
					for _, d := range []float64{far, near} {
						ta := []int{tc, 0, 2, 9}[r.Intn(4)]
						if !isF(ta) {
							ta = 0
						}
						g.emit(Case{Op: "Log1pExp", TC: tc, A: []V{VFl(ta, b+sg*d)}, Order: g.order(ta)}, "log1pexp-strata")
					}
				}
			}
		}
		// concrete ABS: the receiver's previous value must be irrelevant (before fix 2fc8894 ITS sign was switched on).
		// Stratified: every sign combination (receiver before, argument) for every receiver type in every repetition,
		// so that a regression in ONE textual instantiation is always hit; plus the IEEE specials as argument.
		for tc := 0; tc < NRECV; tc++ {
			mag := func() V {
				v := genV(r, tc, "small")
				if isF(tc) {
					if v.fl() == 0 {
						return VFl(tc, 2.5)
					}
					return VFl(tc, math.Abs(v.fl()))
				}
				if v.Z == 0 {
					return VIn(tc, 3)
				}
				if v.Z < 0 {
					return VIn(tc, -v.Z)
				}
				return v
			}
			withSign := func(v V, s int) V {
				if isF(tc) {
					return VFl(tc, float64(s)*v.fl())
				}
				return VIn(tc, int64(s)*v.Z)
			}
			for sc := -1; sc <= 1; sc++ {
				for sa := -1; sa <= 1; sa++ {
					cold, a := withSign(mag(), sc), withSign(mag(), sa)
					g.emit(Case{Op: "ABS", TC: tc, A: []V{a}, Cold: &cold}, "ABS-strata")
				}
			}
			if isF(tc) {
				cold := VFl(tc, []float64{-1.5, 0, 2}[rep%3])
				g.emit(Case{Op: "ABS", TC: tc, A: []V{VFl(tc, specials[(rep+tc)%len(specials)])}, Cold: &cold}, "unary-special")
			} else {
				// MinInt: |MinInt| wraps to MinInt
				cold := VIn(tc, int64(1-rep%3))
				g.emit(Case{Op: "ABS", TC: tc, A: []V{VIn(tc, -int64(1)<<(bitsOf(tc)-1))}, Cold: &cold}, "ABS-strata")
			}
		}
		// binary
		for _, op := range binaryOps {
			for tc := 0; tc < NRECV; tc++ {
				ta, tb := genOT(r, tc), genOT(r, tc)
				class := "any"
				if op == "Pow" || op == "POW" {
					class = "pos"
				}
				if isConcrete(op) {
					ta, tb = tc, tc
				}
				a, b := genV(r, ta, class), genV(r, tb, class)
				if (op == "Div" || op == "DIV") && r.Intn(3) > 0 && !isF(tb) && b.Z == 0 {
					b.Z = 3
				}
				if (op == "Pow" || op == "POW") && r.Bool() {
					b = genV(r, tb, "small")
				}
				if r.Intn(6) == 0 {
					b = a
					b.T = tb
					if isF(tb) != isF(ta) {
						b = genV(r, tb, class)
					} else if isF(tb) {
						b = VFl(tb, a.fl())
					} else {
						b = VIn(tb, a.Z)
					}
				}
				g.emit(Case{Op: op, TC: tc, A: []V{a, b}, Order: g.order(ta, tb)}, "binary")
			}
		}
		// composite with temporaries
		for _, op := range []string{"LogAdd", "LogSub", "Sigmoid", "LOGADD", "LOGSUB"} {
			for tc := 0; tc < NRECV; tc++ {
				tt := tc
				if r.Intn(4) == 0 && !isConcrete(op) {
					tt = r.Intn(NRECV)
				}
				ta, tb := genOT(r, tc), genOT(r, tc)
				if isConcrete(op) {
					ta, tb = tc, tc
				}
				a, b := genV(r, ta, "small"), genV(r, tb, "small")
				if r.Intn(5) == 0 && isF(ta) {
					a = VFl(ta, math.Inf(-1))
				}
				if r.Intn(5) == 0 && isF(tb) {
					b = VFl(tb, math.Inf(-1))
				}
				if op == "LogSub" || op == "LOGSUB" {
					// log(e^a - e^b) needs a >= b
					if isF(ta) && isF(tb) && a.fl() < b.fl() {
						a, b = VFl(ta, b.fl()), VFl(tb, a.fl())
					}
				}
				c := Case{Op: op, TC: tc, TT: []int{tt}, A: []V{a, b}, Order: g.order(ta, tb)}
				if op == "Sigmoid" {
					c.A = []V{genV(r, ta, "l1pe")}
				}
				g.emit(c, "composite")
			}
		}
		// log-scale programs at the infinities: (-Inf,-Inf), (-Inf,x), (x,-Inf), (+Inf,+Inf), (x,+Inf)
		for _, op := range []string{"LogAdd", "LogSub", "LOGADD", "LOGSUB"} {
			for tc := 0; tc < 4; tc++ {
				ninf, pinf, x := math.Inf(-1), math.Inf(1), genF(r, "small")
				pairs := [][2]float64{{ninf, ninf}, {ninf, x}, {x, ninf}, {pinf, pinf}, {x, pinf}}
				for pi, pr := range pairs {
					ta, tb := tc, []int{tc, 0, 1, 2, 3}[r.Intn(5)]
					if isConcrete(op) || pi != (rep+tc)%len(pairs) {
						tb = tc
					}
					g.emit(Case{Op: op, TC: tc, TT: []int{tc}, A: []V{VFl(ta, pr[0]), VFl(tb, pr[1])}, Order: g.order(ta, tb)}, "composite-special")
				}
				// the rest of the extended table (coq/C02/Ext.v: elogadd / elogsub): +Inf first, mixed infinities, NaN on
				// either side, and for LogSub the finite cases a < b (NaN) and a = b (-Inf)
				nan := math.NaN()
				y := x + math.Abs(genF(r, "small")) + 0.25
				more := [][2]float64{{pinf, x}, {pinf, ninf}, {ninf, pinf}, {nan, x}, {x, nan}, {nan, nan}, {nan, ninf}, {pinf, nan}, {x, y}, {x, x}}
				for k := 0; k < 2; k++ {
					pr := more[(2*rep+2*tc+k)%len(more)]
					g.emit(Case{Op: op, TC: tc, TT: []int{tc}, A: []V{VFl(tc, pr[0]), VFl(tc, pr[1])}}, "composite-special")
				}
			}
		}
		// Sigmoid (two branches on the sign) at +-0, +-Inf, NaN on the float receivers
		for tc := 0; tc < 4; tc++ {
			for k := 0; k < 2; k++ {
				sp := specials[(rep+tc+k*2)%len(specials)]
				g.emit(Case{Op: "Sigmoid", TC: tc, TT: []int{tc}, A: []V{VFl(tc, sp)}}, "composite-special")
			}
		}
		// domain edges of the logarithms: Log(0) = -Inf, Log(x<0) = NaN, Log1p(-1) = -Inf, Log1p(x<-1) = NaN, Sqrt(x<0)
		for tc := 0; tc < 4; tc++ {
			edges := []struct {
				op string
				x  float64
			}{{"Log", -genF(r, "pos")}, {"Log1p", -1}, {"Log1p", -1 - genF(r, "pos")}, {"Sqrt", -genF(r, "pos")}, {"SQRT", -genF(r, "pos")}, {"LOG", -genF(r, "pos")}}
			e := edges[(rep+tc)%len(edges)]
			g.emit(Case{Op: e.op, TC: tc, A: []V{VFl(tc, e.x)}}, "unary-special")
			e = edges[(rep+tc+3)%len(edges)]
			g.emit(Case{Op: e.op, TC: tc, A: []V{VFl(tc, e.x)}}, "unary-special")
		}
		// special functions with a parameter
		for _, op := range []string{"Mlgamma", "GammaP", "BesselI", "LogBesselI"} {
			for tc := 0; tc < NRECV; tc++ {
				ta := genOT(r, tc)
				c := Case{Op: op, TC: tc, A: []V{genV(r, ta, "pos")}, Order: g.order(ta)}
				if op == "Mlgamma" {
					c.K = r.Range(1, 3)
					if isF(ta) {
						c.A[0] = VFl(ta, c.A[0].fl()+2)
					}
				} else {
					c.P = fstr([]float64{0.5, 1, 2, 2.5, 3}[r.Intn(5)])
				}
				g.emit(c, "special")
			}
		}
		// comparisons: receiver may be any of the sixteen types
		for _, op := range []string{"Greater", "Smaller", "Equals", "Sign", "GREATER", "SMALLER", "EQUALS", "SIGN"} {
			for ta := 0; ta < len(types); ta++ {
				if isConcrete(op) && ta >= NRECV {
					continue
				}
				tb := genOT(r, ta%NRECV)
				if isConcrete(op) {
					tb = ta
				}
				a := genV(r, ta, "any")
				b := genV(r, tb, "any")
				if r.Intn(3) == 0 {
					// nearly equal operands
					if isF(ta) && isF(tb) {
						b = VFl(tb, ulp(a.fl(), r.Range(-1, 1)))
					} else if !isF(ta) && !isF(tb) {
						b = VIn(tb, a.Z+int64(r.Range(-1, 1)))
					}
				}
				c := Case{Op: op, TC: ta, A: []V{a, b}}
				if op == "Sign" || op == "SIGN" {
					c.A = []V{a}
				}
				if op == "Equals" || op == "EQUALS" {
					c.P = fstr([]float64{1e-8, 0, 0.5, math.Inf(1)}[r.Intn(4)])
				}
				g.emit(c, "compare")
			}
		}
		// vector and matrix reductions
		for _, op := range []string{"SmoothMax", "LogSmoothMax", "Vmean", "VdotV", "Vnorm", "Mtrace", "Mnorm"} {
			for tc := 0; tc < NRECV; tc++ {
				tv := tc
				if r.Intn(3) == 0 {
					tv = r.Intn(NRECV)
				}
				n := r.Range(0, 4)
				class := "small"
				if op == "LogSmoothMax" {
					class = "pos"
				}
				vec := func(n int) []V {
					x := make([]V, n)
					for i := range x {
						x[i] = genV(r, tv, class)
					}
					return x
				}
				c := Case{Op: op, TC: tc, TV: tv, X: vec(n)}
				switch op {
				case "SmoothMax":
					c.TT = []int{tc, tc}
					c.P = fstr([]float64{1, 2, 0.5, -1, 10}[r.Intn(5)])
				case "LogSmoothMax":
					c.TT = []int{tc, tc, tc}
					c.P = fstr([]float64{1, 2, 0.5, 3}[r.Intn(4)])
				case "VdotV":
					m := n
					if r.Intn(8) == 0 {
						m = n + 1
					}
					c.Y = vec(m)
				case "Mtrace", "Mnorm":
					c.N, c.M = r.Range(0, 3), r.Range(0, 3)
					if r.Intn(3) > 0 {
						c.M = c.N
					}
					c.X = vec(c.N * c.M)
				}
				g.emit(c, "reduction")
			}
		}
		// SmoothMax / LogSmoothMax on vectors containing zeros and negative elements (round 1: positive vectors only).
		// LogSmoothMax takes log(x_i): a zero contributes -Inf (i.e. nothing) to the numerator, a negative element gives NaN.
		for tc := 0; tc < NRECV; tc++ {
			if !isF(tc) && (rep+tc)%3 != 0 {
				continue // integer receivers: one in three (every step truncates; bit-exact tie only)
			}
			pos := func() V { return genV(r, tc, "pos") }
			zero := func() V {
				if isF(tc) {
					return VFl(tc, []float64{0, math.Copysign(0, -1)}[r.Intn(2)])
				}
				return VIn(tc, 0)
			}
			negv := func() V {
				v := pos()
				if isF(tc) {
					return VFl(tc, -v.fl())
				}
				return VIn(tc, -v.Z)
			}
			pats := [][]V{{zero(), pos(), pos()}, {pos(), zero()}, {zero(), zero()}, {zero()}, {negv(), pos()}, {pos(), zero(), negv()}, {negv(), negv()}}
			for k := 0; k < 3; k++ {
				x := pats[(rep*3+tc+k)%len(pats)]
				al := []float64{1, 2, 0.5, 3}[r.Intn(4)]
				g.emit(Case{Op: "LogSmoothMax", TC: tc, TV: tc, TT: []int{tc, tc, tc}, X: x, P: fstr(al)}, "reduction-signs")
				al = []float64{1, -1, 0.5, 10, -2}[r.Intn(5)]
				g.emit(Case{Op: "SmoothMax", TC: tc, TV: tc, TT: []int{tc, tc}, X: x, P: fstr(al)}, "reduction-signs")
			}
		}
		// ConvertScalar between integer types at the extremes: |v| > 2^53 must survive 64-bit -> 64-bit exactly (a route through
		// float64 loses the low bits) and narrowing must wrap like Go's intK(intL) (a route through float64 is out of range).
		// Stratified so that every (source, target) pair of integer types is visited in every repetition.
		for _, ta := range []int{5, 6, 7, 8} {
			b := bitsOf(ta)
			mx := int64(1)<<(b-1) - 1
			if b == 64 {
				mx = math.MaxInt64
			}
			vals := []int64{mx, -mx - 1, mx - 1, -mx, 300, -129}
			if b == 64 {
				vals = []int64{9007199254740993, -9007199254740993, mx, -mx - 1, mx - 1, 4611686018427387905, 2147483648 + 7, -32769}
			} else if b == 32 {
				vals = append(vals, 65536+5, 16777217, -16777217)
			}
			for ti, tg := range []int{0, 1, 4, 5, 6, 7, 8} {
				if tg == ta {
					continue
				}
				v := vals[(rep+ti)%len(vals)]
				g.emit(Case{Op: "ConvertScalar", TC: ta, A: []V{VIn(ta, v)}, Tgt: tg}, "convert-strata")
			}
		}
		// conversions and constructors
		for ta := 0; ta < len(types); ta++ {
			for k := 0; k < 3; k++ {
				tg := r.Intn(len(types))
				a := genV(r, ta, "int")
				g.emit(Case{Op: "ConvertConstScalar", TC: ta, A: []V{a}, Tgt: tg}, "convert")
				if ta < NRECV {
					tg = r.Intn(len(types))
					g.emit(Case{Op: "ConvertScalar", TC: ta, A: []V{genV(r, ta, "int")}, Tgt: tg}, "convert")
				}
				if types[ta].Real {
					tg = r.Intn(len(types))
					g.emit(Case{Op: "ConvertMagicScalar", TC: ta, A: []V{genV(r, ta, "int")}, Tgt: tg}, "convert")
				}
			}
			g.emit(Case{Op: "NewScalar", Tgt: ta, P: fstr(genF(r, "int"))}, "convert")
			g.emit(Case{Op: "NewConstScalar", Tgt: ta, P: fstr(genF(r, "int"))}, "convert")
			g.emit(Case{Op: "NullScalar", Tgt: ta}, "convert")
		}
		// round 5: vector / matrix operands as sparse containers and views
		g.generateReps(rep)
		// round 5: Erf / Erfc / LogErfc on both sides (and both signs) of every branch threshold
		g.generateErfcStrata(rep)
		// round 6: histories on one receiver and one (dirty) scratch bank
		g.generateSeq(rep)
		// round 6: math.Pow special cases on every code path that computes a power
		g.generatePowStrata(rep)
		// round 7: pairs of infinities for LogAdd/LogSub on every receiver; integer Pow with negative exponents and non-integral float bases
		g.generateR7Strata(rep)
	}
}

// ---------------------------------------------------------------- certificates

// dyadic real literal for Coq-Interval goals
func RD(x float64) string {
	if x == 0 {
		return "0"
	}
	fr, e := math.Frexp(x)
	m := int64(fr * (1 << 53))
	e -= 53
	for m%2 == 0 {
		m /= 2
		e++
	}
	ms := fmt.Sprintf("%d", m)
	if m < 0 {
		ms = "(" + ms + ")"
	}
	switch {
	case e == 0:
		return "(IZR " + ms + ")"
	case e > 0:
		return fmt.Sprintf("(IZR %s * IZR (2^%d))", ms, e)
	}
	return fmt.Sprintf("(IZR %s / IZR (2^%d))", ms, -e)
}
func pow2(e int) string {
	if e >= 0 {
		return fmt.Sprintf("(IZR (2^%d))", e)
	}
	return fmt.Sprintf("(/ IZR (2^%d))", -e)
}

var certName = map[int]string{1: "FExp", 2: "FLog", 3: "FLog1p", 4: "FSin", 5: "FCos", 6: "FTan", 7: "FSinh", 8: "FCosh", 9: "FTanh",
	10: "FErf", 11: "FErfc"}

// writeCerts emits goal files: for each recorded (function, argument, result) with a finite,
// normal result, |f_R(x) - y| <= 2^(e-45) where 2^(e-1) <= |y| < 2^e  (relative 2^-45 .. 2^-44).
func (g *gen) writeCerts(dir string, capGoals, perFile int) map[string]int {
	keys := make([][3]uint64, 0, len(g.cert))
	for k := range g.cert {
		keys = append(keys, k)
	}
	sort.Slice(keys, func(i, j int) bool {
		for q := 0; q < 3; q++ {
			if keys[i][q] != keys[j][q] {
				return keys[i][q] < keys[j][q]
			}
		}
		return false
	})
	// deterministic shuffle so that a cap keeps a spread over functions
	rr := NewRng(g.o.Seed + 77)
	for i := len(keys) - 1; i > 0; i-- {
		j := rr.Intn(i + 1)
		keys[i], keys[j] = keys[j], keys[i]
	}
	stats := map[string]int{}
	var goals, exact []string
	nint := 0
	nlog := 0
	var lgoals []string // LogErfc integral goals: a few seconds each, own small files
	for _, k := range keys {
		e := g.cert[k]
		fin := func(x float64) bool { return !math.IsNaN(x) && !math.IsInf(x, 0) }
		if e.id == idPow {
			if e.b == 0.5 && fin(e.a) && e.a > 0 {
				exact = append(exact, fmt.Sprintf("pow_half_ok %s %s", F(e.a), F(e.r)))
				stats["pow-half-exact"]++
				continue
			}
			if e.b == 2 && fin(e.a) && math.Abs(e.r) > 1e-290 && fin(e.r) {
				exact = append(exact, fmt.Sprintf("pow_two_ok %s %s", F(e.a), F(e.r)))
				stats["pow-two-exact"]++
				continue
			}
			if fin(e.a) && fin(e.b) && e.a > 0 && fin(e.r) && math.Abs(e.r) > 1e-290 && math.Abs(e.b*math.Log(e.a)) < 600 && len(goals) < capGoals {
				_, ex := math.Frexp(e.r)
				goals = append(goals, fmt.Sprintf("Goal Rabs (rpow %s %s - %s) <= %s.\nProof. unfold rpow. destruct (Rlt_dec 0 %s) as [_|H]; [unfold Rpower; interval with (i_prec 80) | exfalso; apply H; interval]. Qed.",
					RD(e.a), RD(e.b), RD(e.r), pow2(ex-45), RD(e.a)))
				stats["pow-interval"]++
				continue
			}
			stats["uncertified:pow-special"]++
			continue
		}
		if e.id == 12 && fin(e.a) && fin(e.r) && e.r != 0 && ((e.a <= -1e-3 && e.a >= -1e6) || (e.a >= 1e-3 && e.a <= 3)) {
			// special.LogErfc against ln(1 - erf x), erf the integral: cheap and sharp on the whole negative side (erfc in (1,2)),
			// where no branch of the implementation other than log(erfc x) is legitimate; on the positive side up to 3
			if nlog < capGoals/4+8 {
				nlog++
				_, ex := math.Frexp(e.r)
				tl := ex - 38
				if e.a > 0 {
					tl = ex - 34
				}
				lgoals = append(lgoals, fmt.Sprintf("Goal forall sp, Rabs (rfn sp FLogErfc %s - %s) <= %s.\nProof. intro sp; cbv [rfn erfR erfcR]. integral with (i_prec 80, i_fuel 400). Qed.",
					RD(e.a), RD(e.r), pow2(tl)))
				stats["logerfc-integral"]++
				if e.a < 0 {
					stats["logerfc-integral-negative-side"]++
				}
				continue
			}
			stats["uncertified:logerfc-cap"]++
			continue
		}
		name, ok := certName[e.id]
		if !ok {
			stats["opaque(special/gamma)"]++
			continue
		}
		if !fin(e.a) || !fin(e.r) || e.r == 0 || math.Abs(e.r) < 1e-290 || math.Abs(e.a) > 1e6 {
			stats["uncertified:special-value"]++
			continue
		}
		if (e.id == 2 && e.a <= 0) || (e.id == 3 && e.a <= -1) {
			stats["uncertified:special-value"]++
			continue
		}
		_, ex := math.Frexp(e.r)
		tol := pow2(ex - 45)
		if e.id == 10 || e.id == 11 {
			if math.Abs(e.a) > 5 || e.a == 0 || (e.id == 11 && e.a > 3) || nint >= capGoals/8+4 {
				// (erfc beyond 3 is below 2e-5: 1 - erf cancels, the integral enclosure cannot reach 2^-38 relative)
				stats["uncertified:erf-cap"]++
				continue
			}
			nint++
			goals = append(goals, fmt.Sprintf("Goal forall sp, Rabs (rfn sp %s %s - %s) <= %s.\nProof. intro sp; cbv [rfn erfR erfcR]. integral with (i_prec 80, i_fuel 400). Qed.",
				name, RD(e.a), RD(e.r), pow2(ex-38)))
			stats["erf-integral"]++
			continue
		}
		if len(goals) >= capGoals {
			stats["uncertified:cap"]++
			continue
		}
		prec := 80
		if _, xa := math.Frexp(e.a); xa < 0 && (e.id == 3 || e.id == 7 || e.id == 9) {
			// ln(1+x), sinh, tanh near 0: the enclosure of 1+x (of e^x - e^-x) must resolve x itself
			prec = 90 - xa
		}
		if prec > 320 {
			stats["uncertified:tiny-argument"]++
			continue
		}
		goals = append(goals, fmt.Sprintf("Goal forall sp, Rabs (rfn sp %s %s - %s) <= %s.\nProof. intro sp; cbv [rfn Rlog1p sinh cosh tanh]. interval with (i_prec %d). Qed.",
			name, RD(e.a), RD(e.r), tol, prec))
		stats["interval:"+name]++
	}
	hdr := "From Coq Require Import Reals ZArith Floats List.\nImport ListNotations.\nFrom Coquelicot Require Import Coquelicot.\nFrom Interval Require Import Tactic.\nFrom ADV Require Import C02.Model C02.Spec C02.Corr.\nOpen Scope R_scope.\n"
	nf := 0
	for s := 0; s < len(goals); s += perFile {
		e := s + perFile
		if e > len(goals) {
			e = len(goals)
		}
		body := hdr + strings.Join(goals[s:e], "\n") + "\nDefinition M : list nat := [].\nPrint M.\n"
		os.WriteFile(filepath.Join(dir, fmt.Sprintf("cert_%d.v", nf)), []byte(body), 0644)
		nf++
	}
	for s := 0; s < len(lgoals); s += 4 {
		e := s + 4
		if e > len(lgoals) {
			e = len(lgoals)
		}
		body := hdr + strings.Join(lgoals[s:e], "\n") + "\nDefinition M : list nat := [].\nPrint M.\n"
		os.WriteFile(filepath.Join(dir, fmt.Sprintf("cert_%d.v", nf)), []byte(body), 0644)
		nf++
	}
	if len(exact) > 0 {
		body := "From Coq Require Import ZArith List Floats.\nFrom ADV Require Import Base.Corr C02.Model C02.Corr.\nImport ListNotations.\n" +
			"Definition ex : list bool := [\n  " + strings.Join(exact, ";\n  ") + "].\n" +
			"Definition M := Eval vm_compute in (mismatches (fun b : bool => b) ex).\nPrint M.\n"
		os.WriteFile(filepath.Join(dir, fmt.Sprintf("cert_%d.v", nf)), []byte(body), 0644)
		nf++
	}
	// the special-value table of coq/C02/Ext.v (fn_special / fn_edge): every recorded call of an elementary function whose
	// argument is +-Inf / NaN, or whose result is +-Inf / NaN / 0 (domain edges), checked by CorrExt.special_ok
	var sp []string
	for _, k := range keys {
		e := g.cert[k]
		if e.id < 1 || e.id > 13 {
			continue
		}
		nf64 := func(x float64) bool { return math.IsNaN(x) || math.IsInf(x, 0) }
		if nf64(e.a) || nf64(e.r) || e.r == 0 || e.a == 0 || e.a == -1 {
			sp = append(sp, fmt.Sprintf("(%d, %s, %s, %s)", e.id, F(e.a), F(e.b), F(e.r)))
			stats["special-table"]++
		}
	}
	if len(sp) > 0 {
		sort.Strings(sp)
		body := "From Coq Require Import ZArith List Floats.\nFrom ADV Require Import Base.Corr C02.Model C02.Corr C02.Ext C02.CorrExt.\nImport ListNotations.\nOpen Scope Z_scope.\n" +
			"Definition ents : list oentry := [\n  " + strings.Join(sp, ";\n  ") + "].\n" +
			"Definition M := Eval vm_compute in (mismatches special_ok ents).\nPrint M.\n"
		os.WriteFile(filepath.Join(dir, "cert_special.v"), []byte(body), 0644)
		nf++
	}
	// round 6: the special-case table of x^y (coq/C02/CorrPow.v: fpow_expect): EVERY recorded math.Pow call
	var pw []string
	for _, k := range keys {
		e := g.cert[k]
		if e.id != idPow {
			continue
		}
		pw = append(pw, fmt.Sprintf("(%d, %s, %s, %s)", e.id, F(e.a), F(e.b), F(e.r)))
		nf64 := func(x float64) bool { return math.IsNaN(x) || math.IsInf(x, 0) }
		if nf64(e.a) || nf64(e.b) || nf64(e.r) || e.a == 0 || e.b == 0 || e.a == 1 {
			stats["pow-table:special"]++
		} else if e.a < 0 {
			stats["pow-table:negative-base-sign"]++
		} else {
			stats["pow-table:regular"]++
		}
	}
	if len(pw) > 0 {
		sort.Strings(pw)
		body := "From Coq Require Import ZArith List Floats.\nFrom ADV Require Import Base.Corr C02.Model C02.Corr C02.Ext C02.CorrExt C02.CorrPow.\nImport ListNotations.\nOpen Scope Z_scope.\n" +
			"Definition ents : list oentry := [\n  " + strings.Join(pw, ";\n  ") + "].\n" +
			"Definition M := Eval vm_compute in (mismatches pow_special_ok ents).\nPrint M.\n"
		os.WriteFile(filepath.Join(dir, "cert_pow.v"), []byte(body), 0644)
		nf++
	}
	stats["goal-files"] = nf
	stats["goals"] = len(goals) + len(lgoals) + len(exact)
	return stats
}

// ---------------------------------------------------------------- main

const headerSeq = "From Coq Require Import ZArith List Floats.\nFrom ADV Require Import Base.Corr C02.Model C02.ModelSt C02.Corr C02.CorrSt.\nImport ListNotations.\nOpen Scope Z_scope.\n"

func newSeqWriter(o Opts, name string) *CaseWriter {
	w := NewCaseWriter(o.Out, name, headerSeq, "mism_seq", 40)
	w.Type = "scase"
	w.Rule = "a history is non-trivial when it has at least one step; distinct = distinct (receiver type, scratch types, step names, observed results)"
	return w
}

const header = "From Coq Require Import ZArith List Floats.\nFrom ADV Require Import Base.Corr C02.Model C02.ModelVec C02.Corr.\nImport ListNotations.\nOpen Scope Z_scope.\n"

func newWriter(o Opts, name string) *CaseWriter {
	w := NewCaseWriter(o.Out, name, header, "mism", 330)
	w.Type = "case"
	w.Rule = "a case is non-trivial when the call did not panic and has at least one operand; distinct = distinct (op, receiver type, temporaries, operand types, result)"
	return w
}

func loadCases(path string) []Case {
	b, err := os.ReadFile(path)
	if err != nil {
		return nil
	}
	var cs []Case
	for _, l := range strings.Split(string(b), "\n") {
		l = strings.TrimSpace(l)
		if l == "" || strings.HasPrefix(l, "#") {
			continue
		}
		var c Case
		if err := json.Unmarshal([]byte(l), &c); err != nil {
			Die("corpus line: %v", err)
		}
		cs = append(cs, c)
	}
	return cs
}

func main() {
	o := ParseFlags()
	if strings.HasPrefix(o.Extra, "hunt") {
		hunt(o)
		return
	}
	if o.Replay != "" {
		replay(o)
		return
	}
	g := &gen{r: NewRng(o.Seed), w: newWriter(o, "cases"), ws: newSeqWriter(o, "seq"), o: o, cert: map[[3]uint64]entry{}}
	// committed corpus first
	if o.Extra != "" {
		for _, c := range loadCases(o.Extra) {
			g.emit(c, "corpus")
		}
	}
	g.generate(o.N)
	capGoals := 220
	if o.Tier == "thorough" {
		capGoals = 1600
	}
	st := g.writeCerts(o.Out, capGoals, 12)
	g.w.Extra["certificates"] = st
	// append the excluded counter to every shard
	if err := g.w.Flush(); err != nil {
		Die("flush: %v", err)
	}
	if err := g.ws.Flush(); err != nil {
		Die("flush: %v", err)
	}
	files, _ := filepath.Glob(filepath.Join(o.Out, "cases_*.v"))
	for _, f := range files {
		b, _ := os.ReadFile(f)
		b = append(b, []byte("Definition E := Eval vm_compute in (excluded cases).\nPrint E.\n")...)
		os.WriteFile(f, b, 0644)
	}
	files, _ = filepath.Glob(filepath.Join(o.Out, "seq_*.v"))
	for _, f := range files {
		b, _ := os.ReadFile(f)
		b = append(b, []byte("Definition E := Eval vm_compute in (excluded_seq cases).\nPrint E.\n")...)
		os.WriteFile(f, b, 0644)
	}
}

// replay: re-execute exactly one reported case; writes replay_0.v and prints the observation
func replay(o Opts) {
	b, err := os.ReadFile(o.Replay)
	if err != nil {
		Die("replay: %v", err)
	}
	var rp struct {
		Case *Case `json:"case"`
	}
	if err := json.Unmarshal(b, &rp); err != nil || rp.Case == nil {
		Die("replay file has no case")
	}
	w := newWriter(o, "replay")
	res := run(*rp.Case)
	if rp.Case.Op == "Seq" {
		w = newSeqWriter(o, "replay")
		w.Add(res.Coq, *rp.Case, "replay", true)
	} else {
		w.Add(coqCase(*rp.Case, res), *rp.Case, "replay", true)
	}
	w.Flush()
	fmt.Printf("replayed %s on %s: %s\n", rp.Case.Op, tname(*rp.Case), res.Text)
}
