// C02 harness, round 6 — HISTORIES: a sequence of calls on ONE receiver and ONE bank of three scratch scalars
// (t[0], t[1], t[2]), both holding arbitrary ("dirty") content on entry: values left by earlier calls of other
// operations, NaN / Inf, and for the Real types derivative arrays.  Model: coq/C02/ModelSt.v (run_seq); observed after
// every step: the receiver and the three scratch scalars.  The hunt oracle (checkSeq) is independent of the Coq model:
// every step is repeated on a freshly allocated receiver and fresh scratch and must give the same value.
package main

import (
	"fmt"
	"math"
	"reflect"
	"strings"

	. "adharness/common"

	ad "github.com/pbenner/autodiff"
	"github.com/pbenner/autodiff/special"
)

// Step: one call of a history. An operand with T == -1 is the receiver itself (aliased call).
type Step struct {
	Op string `json:"op"`
	A  []V    `json:"a,omitempty"`
	X  []V    `json:"x,omitempty"` // vector / matrix elements (type TV)
	Y  []V    `json:"y,omitempty"`
	TV int    `json:"tv,omitempty"`
	N  int    `json:"n,omitempty"`
	M  int    `json:"m,omitempty"`
	P  string `json:"p,omitempty"` // alpha
	K  int    `json:"k,omitempty"` // which scratch scalar a single-scratch method gets
}

const aliasT = -1

func aliasV() V { return V{T: aliasT} }

var seqUn = map[string]string{"Neg": "UNeg", "Abs": "UAbs", "Sqrt": "USqrt", "Log1pExp": "ULog1pExp", "Logistic": "ULogistic",
	"Exp": "(UFn FExp)", "Log": "(UFn FLog)", "Log1p": "(UFn FLog1p)", "Tanh": "(UFn FTanh)"}
var seqBin = map[string]string{"Add": "(BArith OAdd)", "Sub": "(BArith OSub)", "Mul": "(BArith OMul)", "Div": "(BArith ODiv)",
	"Pow": "BPow", "Min": "BMin", "Max": "BMax"}

func (s Step) opndCoq(v V) string {
	if v.T == aliasT {
		return "OR"
	}
	return "(OC " + v.coq() + ")"
}
func (s Step) coq() string {
	k := fmt.Sprintf("K%d", s.K)
	g := genericName(s.Op)
	switch g {
	case "LogAdd", "LogSub":
		return fmt.Sprintf("Q%s %s %s %s", g, k, s.opndCoq(s.A[0]), s.opndCoq(s.A[1]))
	case "Sigmoid":
		return fmt.Sprintf("QSigmoid %s %s", k, s.opndCoq(s.A[0]))
	case "SmoothMax", "LogSmoothMax":
		return fmt.Sprintf("Q%s %s %s", g, coqvList(s.X), F(fparse(s.P)))
	case "Vmean", "Vnorm":
		return fmt.Sprintf("Q%s %s", g, coqvList(s.X))
	case "VdotV":
		return fmt.Sprintf("QVdotV %s %s", coqvList(s.X), coqvList(s.Y))
	case "Mtrace", "Mnorm":
		return fmt.Sprintf("Q%s %d %d %s", g, s.N, s.M, coqvList(s.X))
	}
	if u, ok := seqUn[g]; ok {
		return fmt.Sprintf("QUn %s %s", u, s.opndCoq(s.A[0]))
	}
	if b, ok := seqBin[g]; ok {
		return fmt.Sprintf("QBin %s %s %s", b, s.opndCoq(s.A[0]), s.opndCoq(s.A[1]))
	}
	panic("C02-harness: unknown step " + s.Op)
}

// value copy of a scalar as an operand of its own type (no derivatives)
func valueOf(s ad.ConstScalar) V {
	_, v := obsScalar(s)
	return v
}

func isNilRet(ret []reflect.Value) bool {
	return len(ret) == 1 && (ret[0].Kind() == reflect.Interface || ret[0].Kind() == reflect.Ptr) && ret[0].IsNil()
}

// seqState: the mutable objects of a history
type seqState struct {
	recv ad.Scalar
	t    [3]ad.Scalar
}

func newSeqState(c Case, dirty bool) *seqState {
	s := &seqState{}
	if dirty {
		s.recv = mkOp(*c.Cold).(ad.Scalar)
		for i := 0; i < 3; i++ {
			s.t[i] = mkOp(c.TD[i]).(ad.Scalar)
		}
	} else {
		s.recv = mkRecv(c.TC)
		for i := 0; i < 3; i++ {
			s.t[i] = mkRecv(c.TT[i])
		}
	}
	return s
}

// record the math.* calls of one step (on copies), then execute it on the state. kind: val | nil | panic
func (o *orc) seqStep(c Case, st Step, s *seqState, ops []ad.ConstScalar) (kind string) {
	defer func() {
		if r := recover(); r != nil {
			if m, ok := r.(string); ok && strings.HasPrefix(m, "C02-harness") {
				panic(r)
			}
			kind = "panic"
		}
	}()
	g := genericName(st.Op)
	// operands: the receiver itself where the step says so
	arg := make([]ad.ConstScalar, len(ops))
	cp := make([]ad.ConstScalar, len(ops)) // value copies for the shadows
	for i := range ops {
		if st.A[i].T == aliasT {
			arg[i] = s.recv
		} else {
			arg[i] = ops[i]
		}
		cp[i] = mkOp(valueOf(arg[i]))
	}
	p := fparse(st.P)
	tk := c.TT[st.K]
	var ret []reflect.Value
	switch g {
	case "LogAdd":
		quiet(func() { o.logAdd(mkRecv(c.TC), cp[0], cp[1], mkRecv(tk)) })
		ret = callMethod(s.recv, st.Op, arg[0], arg[1], s.t[st.K])
	case "LogSub":
		quiet(func() { o.logSub(mkRecv(c.TC), cp[0], cp[1], mkRecv(tk)) })
		ret = callMethod(s.recv, st.Op, arg[0], arg[1], s.t[st.K])
	case "Sigmoid":
		quiet(func() { o.sigmoid(mkRecv(c.TC), c.TC, cp[0], mkRecv(tk)) })
		ret = callMethod(s.recv, st.Op, arg[0], s.t[st.K])
	case "SmoothMax":
		x := mkVec(st.TV, st.X)
		quiet(func() { o.smoothMax(x, ad.ConstFloat64(p), [2]ad.Scalar{mkRecv(c.TT[0]), mkRecv(c.TT[1])}) })
		ret = callMethod(s.recv, st.Op, x, ad.ConstFloat64(p), [2]ad.Scalar{s.t[0], s.t[1]})
	case "LogSmoothMax":
		x := mkVec(st.TV, st.X)
		quiet(func() {
			o.logSmoothMax(mkRecv(c.TC), x, ad.ConstFloat64(p), [3]ad.Scalar{mkRecv(c.TT[0]), mkRecv(c.TT[1]), mkRecv(c.TT[2])})
		})
		ret = callMethod(s.recv, st.Op, x, ad.ConstFloat64(p), [3]ad.Scalar{s.t[0], s.t[1], s.t[2]})
	case "Vmean":
		ret = callMethod(s.recv, st.Op, mkVec(st.TV, st.X))
	case "VdotV":
		ret = callMethod(s.recv, st.Op, mkVec(st.TV, st.X), mkVec(st.TV, st.Y))
	case "Vnorm":
		x := mkVec(st.TV, st.X)
		quiet(func() { o.vnorm(c.TC, x) })
		ret = callMethod(s.recv, st.Op, x)
	case "Mtrace":
		ret = callMethod(s.recv, st.Op, mkMat(st.TV, st.X, st.N, st.M))
	case "Mnorm":
		a := mkMat(st.TV, st.X, st.N, st.M)
		quiet(func() { o.mnorm(c.TC, a) })
		ret = callMethod(s.recv, st.Op, a)
	default:
		if _, ok := seqUn[g]; ok {
			x := cp[0].GetFloat64()
			switch g {
			case "Sqrt":
				o.add(idPow, x, 0.5, math.Pow(x, 0.5))
			case "Log1pExp":
				quiet(func() { o.log1pExp(mkRecv(c.TC), cp[0]) })
			case "Logistic":
				quiet(func() { o.logistic(mkRecv(c.TC), cp[0]) })
			case "Neg", "Abs":
			default:
				u := ufns[g]
				o.add(u.id, x, 0, u.f(x))
			}
			ret = callMethod(s.recv, st.Op, arg[0])
		} else if _, ok := seqBin[g]; ok {
			if g == "Pow" {
				x, y := cp[0].GetFloat64(), cp[1].GetFloat64()
				o.add(idPow, x, y, math.Pow(x, y))
			}
			ret = callMethod(s.recv, st.Op, arg[0], arg[1])
		} else {
			panic("C02-harness: unknown step " + st.Op)
		}
	}
	if isNilRet(ret) {
		return "nil"
	}
	return "val"
}

var _ = special.LogErfc

// operands of all steps, derivative tracking (one Variables call: every tracked scalar has the same N)
func seqOperands(c Case, s *seqState, dirty bool) [][]ad.ConstScalar {
	ops := make([][]ad.ConstScalar, len(c.Steps))
	var tracked []interface{}
	for i, st := range c.Steps {
		ops[i] = make([]ad.ConstScalar, len(st.A))
		for j, v := range st.A {
			if v.T == aliasT {
				continue
			}
			ops[i][j] = mkOp(v)
			tracked = append(tracked, ops[i][j])
		}
	}
	if dirty && c.DD {
		// the receiver and the scratch scalars carry derivative arrays from "earlier use"
		tracked = append(tracked, s.recv, s.t[0], s.t[1], s.t[2])
	}
	track(c.Order, tracked...)
	return ops
}

type seqObs struct {
	Kind string // val | nil | panic
	R    V
	T    [3]V
}

func (o seqObs) text() string {
	if o.Kind != "val" {
		return o.Kind
	}
	return types[o.R.T].Name + ":" + o.R.coqv()
}

// execute a history; dirty: start from the case's Cold / TD content, else from freshly allocated zero scalars
func execSeq(c Case, dirty bool, o *orc) []seqObs {
	s := newSeqState(c, dirty)
	ops := seqOperands(c, s, dirty)
	var out []seqObs
	for i, st := range c.Steps {
		k := o.seqStep(c, st, s, ops[i])
		ob := seqObs{Kind: k}
		if k == "val" {
			ob.R = valueOf(s.recv)
			for j := 0; j < 3; j++ {
				ob.T[j] = valueOf(s.t[j])
			}
		}
		out = append(out, ob)
		if k != "val" {
			break
		}
	}
	return out
}

func runSeq(c Case) (res Result) {
	obs := execSeq(c, true, &res.Oracle)
	var steps, lines, txt []string
	for _, st := range c.Steps {
		steps = append(steps, st.coq())
	}
	for _, ob := range obs {
		switch ob.Kind {
		case "val":
			l := []string{"OVal " + types[c.TC].Coq + " (" + ob.R.coqv() + ")"}
			for j := 0; j < 3; j++ {
				l = append(l, "OVal "+types[c.TT[j]].Coq+" ("+ob.T[j].coqv()+")")
			}
			lines = append(lines, List(l))
		case "nil":
			lines = append(lines, "[ONil]")
		default:
			lines = append(lines, "[OPanic]")
		}
		txt = append(txt, ob.text())
	}
	res.Kind = "val"
	if n := len(obs); n > 0 && obs[n-1].Kind != "val" {
		res.Kind = obs[n-1].Kind
	}
	res.Text = strings.Join(txt, " ; ")
	res.Coq = fmt.Sprintf("(%s, mkBank %s %s %s, mkSt (%s) (%s) (%s) (%s), %s, %s, %s)", types[c.TC].Coq,
		types[c.TT[0]].Coq, types[c.TT[1]].Coq, types[c.TT[2]].Coq,
		c.Cold.coqv(), c.TD[0].coqv(), c.TD[1].coqv(), c.TD[2].coqv(),
		List(steps), res.Oracle.coq(), List(lines))
	return
}

// ---------------------------------------------------------------- hunt oracle

// "the value must not depend on what the receiver and the scratch held on entry": each step of the history is repeated on a
// freshly allocated receiver and freshly allocated scratch scalars (an aliased operand gets the value the receiver had in the
// reference run) and the receiver values are compared step by step.
func freshSeq(c Case) []seqObs {
	var out []seqObs
	prev := *c.Cold // the receiver's content is an operand of a call that names the receiver as one (c.LogAdd(c, b, t))
	for i, st := range c.Steps {
		d := Case{Op: "Seq", TC: c.TC, TT: c.TT, Order: c.Order, Steps: []Step{st}}
		cold := prev
		d.Cold = &cold // only read when the step names the receiver as an operand; every method overwrites it otherwise
		aliased := false
		for _, a := range st.A {
			if a.T == aliasT {
				aliased = true
			}
		}
		if !aliased {
			z := zeroV(c.TC)
			d.Cold = &z
		}
		d.TD = []V{zeroV(c.TT[0]), zeroV(c.TT[1]), zeroV(c.TT[2])}
		ob := execSeq(d, true, &orc{})
		_ = i
		out = append(out, ob[0])
		if ob[0].Kind != "val" {
			break
		}
		prev = ob[0].R
	}
	return out
}

func checkSeq(c Case) *Failure {
	var oo orc
	dirty := execSeq(c, true, &oo)
	fresh := freshSeq(c)
	for i := range dirty {
		if i >= len(fresh) {
			break
		}
		if dirty[i].text() != fresh[i].text() {
			st := c.Steps[i]
			// minimal case: the failing step alone, started from the state the history had reached
			d := c
			d.Steps = []Step{st}
			if i > 0 {
				r := dirty[i-1].R
				d.Cold = &r
				d.TD = []V{dirty[i-1].T[0], dirty[i-1].T[1], dirty[i-1].T[2]}
			}
			what := "scratch scalars"
			// which part of the state matters?
			e := d
			z := zeroV(c.TC)
			aliased := false
			for _, a := range st.A {
				if a.T == aliasT {
					aliased = true
				}
			}
			if !aliased {
				e.Cold = &z
				e.DD = false
				if ob := execSeq(e, true, &orc{}); len(ob) > 0 && ob[0].text() == fresh[i].text() {
					what = "receiver"
				}
			}
			site := genericName(st.Op) + ":state-dependence"
			return &Failure{Case: d, Site: site,
				Failure: fmt.Sprintf("step %d (%s) of the history: the value depends on what the %s held on entry (a fresh receiver and fresh scratch give another value)", i, st.Op, what),
				Got: dirty[i].text(), Want: fresh[i].text()}
		}
		if dirty[i].Kind != "val" {
			break
		}
	}
	return nil
}

// ---------------------------------------------------------------- generator

var dirtyF = []float64{math.NaN(), math.Inf(1), math.Inf(-1), 1e300, -7.5, 3, 0.125, -1e-3, 42}

func dirtyV(r *Rng, t int) V {
	if isF(t) {
		return VFl(t, dirtyF[r.Intn(len(dirtyF))])
	}
	return VIn(t, []int64{-7, 3, 42, 100, -1, 1, 0}[r.Intn(7)])
}

var scratchOps = []string{"SmoothMax", "LogSmoothMax", "LogAdd", "LogSub", "Sigmoid"}
var otherOps = []string{"Exp", "Neg", "Abs", "Log1pExp", "Logistic", "Sqrt", "Log", "Tanh", "Add", "Sub", "Mul", "Div", "Pow", "Min", "Max"}

func (g *gen) seqStepGen(op string, tc int, tt []int, allowAlias bool) Step {
	r := g.r
	st := Step{Op: op, TV: tc}
	opnd := func(class string) V {
		if allowAlias && r.Intn(4) == 0 {
			return aliasV()
		}
		ta := tc
		if !isConcrete(op) {
			ta = genOT(r, tc)
		}
		return genV(r, ta, class)
	}
	vec := func(n int, class string) []V {
		x := make([]V, n)
		for i := range x {
			x[i] = genV(r, st.TV, class)
		}
		return x
	}
	switch genericName(op) {
	case "LogAdd", "LogSub":
		st.K = r.Intn(3)
		a, b := opnd("small"), opnd("small")
		if a.T == aliasT && b.T == aliasT {
			b = genV(r, tc, "small")
		}
		if genericName(op) == "LogSub" && a.T != aliasT && b.T != aliasT && isF(a.T) && isF(b.T) && a.fl() < b.fl() {
			a, b = VFl(a.T, b.fl()), VFl(b.T, a.fl())
		}
		if r.Intn(6) == 0 && b.T != aliasT && isF(b.T) {
			b = VFl(b.T, math.Inf(-1))
		}
		st.A = []V{a, b}
	case "Sigmoid":
		st.K = r.Intn(3)
		st.A = []V{opnd("small")}
	case "SmoothMax":
		st.X = vec(r.Range(1, 3), "small")
		st.P = fstr([]float64{1, 2, 0.5, -1}[r.Intn(4)])
	case "LogSmoothMax":
		st.X = vec(r.Range(1, 3), "pos")
		st.P = fstr([]float64{1, 2, 0.5}[r.Intn(3)])
	case "Vmean", "Vnorm":
		st.X = vec(r.Range(1, 3), "small")
	case "VdotV":
		n := r.Range(1, 3)
		st.X, st.Y = vec(n, "small"), vec(n, "small")
	case "Mtrace", "Mnorm":
		st.N = r.Range(1, 2)
		st.M = st.N
		st.X = vec(st.N*st.M, "small")
	case "Pow":
		st.A = []V{opnd("pos"), opnd("small")}
	case "Sqrt", "Log":
		st.A = []V{opnd("pos")}
	case "Add", "Sub", "Mul", "Div", "Min", "Max":
		st.A = []V{opnd("small"), opnd("small")}
		if st.A[0].T == aliasT && st.A[1].T == aliasT && r.Bool() {
			st.A[1] = genV(r, tc, "small")
		}
	default:
		st.A = []V{opnd("small")}
	}
	return st
}

func (g *gen) generateSeq(rep int) {
	r := g.r
	for tc := 0; tc < NRECV; tc++ {
		nseq := 5
		if !isF(tc) {
			if (rep+tc)%2 != 0 {
				continue
			}
			nseq = 2
		}
		for j := 0; j < nseq; j++ {
			tt := []int{tc, tc, tc}
			if isF(tc) && r.Intn(3) == 0 {
				// scratch scalars of other float types (a binary32 temporary under a binary64 receiver and vice versa)
				for i := range tt {
					tt[i] = r.Intn(4)
				}
			}
			same := tt[0] == tc && tt[1] == tc && tt[2] == tc
			cold := dirtyV(r, tc)
			c := Case{Op: "Seq", TC: tc, TT: tt, Cold: &cold, TD: []V{dirtyV(r, tt[0]), dirtyV(r, tt[1]), dirtyV(r, tt[2])}}
			pick := func(k int) string {
				op := scratchOps[k%len(scratchOps)]
				if same && (op == "LogAdd" || op == "LogSub") && r.Intn(3) == 0 {
					op = strings.ToUpper(op)
				}
				return op
			}
			// every scratch-taking method and every reduction is visited for every float receiver in every repetition, each
			// time after a different predecessor (re-use of the same scratch across different operations)
			reds := []string{"Vmean", "VdotV", "Vnorm", "Mtrace", "Mnorm"}
			names := []string{pick(j), reds[(j+rep)%5], pick(j + 1 + rep), pick(j + 3), otherOps[r.Intn(len(otherOps))], pick(j + 2 + 2*rep)}
			if !isF(tc) {
				// integer receivers: ring operations and the exact reductions first (the log-scale programs mostly end in an
				// excluded float -> int conversion or a division by zero, which ends the history)
				ia := []string{"Add", "Sub", "Mul", "Min", "Max", "Neg", "Abs"}
				names = []string{[]string{"Vmean", "VdotV", "Mtrace"}[(j+rep)%3], ia[r.Intn(len(ia))], []string{"VdotV", "Mtrace", "Vmean"}[(j+rep)%3],
					ia[r.Intn(len(ia))], pick(j + rep), pick(j + 1)}
			}
			for _, op := range names {
				c.Steps = append(c.Steps, g.seqStepGen(op, tc, tt, !isConcrete(op)))
			}
			real := types[tc].Real
			for _, t := range tt {
				real = real || types[t].Real
			}
			for _, st := range c.Steps {
				for _, a := range st.A {
					if a.T >= 0 && types[a.T].Real {
						real = true
					}
				}
			}
			if real {
				c.Order = r.Intn(3)
				c.DD = c.Order > 0 && r.Bool()
			}
			g.emit(c, "history")
		}
	}
}
