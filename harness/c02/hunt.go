// C02 hunt: a property-level oracle on the implementation, independent of the Coq model.
// Reference values come from math/big (integer and rational parts, square roots) and from
// second formulas for the transcendental functions; tolerances are those of the storage type.
// It is a search for a concrete failing input, never the decision.
package main

import (
	"encoding/json"
	"fmt"
	"math"
	"math/big"
	"os"
	"path/filepath"

	. "adharness/common"
)

type Failure struct {
	Case    Case   `json:"case"`
	Site    string `json:"site"`
	Failure string `json:"failure"`
	Got     string `json:"got"`
	Want    string `json:"want"`
}

// value of operand v as Go's conversion rules deliver it to a type with base b
func refF64(v V) float64 {
	if isF(v.T) {
		return v.fl()
	}
	return float64(v.Z)
}
func refF32(v V) float64 {
	if isF(v.T) {
		return float64(float32(v.fl()))
	}
	return float64(float32(v.Z))
}
func truncOK(x float64, bits uint) (int64, bool) {
	if math.IsNaN(x) || math.IsInf(x, 0) {
		return 0, false
	}
	t := math.Trunc(x)
	lim := math.Ldexp(1, int(bits)-1)
	if t < -lim || t >= lim {
		return 0, false
	}
	return int64(t), true
}
func refInt(v V, t int) (int64, bool) {
	if isF(v.T) {
		return truncOK(v.fl(), bitsOf(t))
	}
	return wrapTo(t, v.Z), true
}

// numeric value (as float64, and exact integer when integral type) of v read through type t
func refRead(v V, t int) (f float64, z int64, ok bool) {
	switch types[t].Base {
	case BF64:
		return refF64(v), 0, true
	case BF32:
		return refF32(v), 0, true
	}
	z, ok = refInt(v, t)
	return float64(z), z, ok
}

func relTol(t int) float64 {
	if types[t].Base == BF32 {
		return 4e-7
	}
	return 1e-11
}

// does the stored result `got` of type t represent the real number `want` up to the type's precision?
// scale: magnitude of the intermediate quantities (for cancellation)
func agrees(t int, got V, want float64, scale float64) bool {
	if isF(t) {
		g := got.fl()
		if math.IsNaN(want) {
			return math.IsNaN(g)
		}
		if math.IsInf(want, 0) {
			return g == want || (types[t].Base == BF32 && math.Abs(g) > 3e38)
		}
		if types[t].Base == BF32 && math.Abs(want) > 3.4028234e38 {
			return math.IsInf(g, int(math.Copysign(1, want))) || math.Abs(g) > 3.3e38
		}
		if math.IsNaN(g) || math.IsInf(g, 0) {
			return false
		}
		s := math.Max(math.Abs(want), scale)
		abs := 1e-300
		if types[t].Base == BF32 {
			abs = 1.5e-45
		}
		return math.Abs(g-want) <= relTol(t)*1e3*s+abs
	}
	// integer storage: truncation of want, with slack when want is within 1e-9 (relative) of an integer
	z, ok := truncOK(want, bitsOf(t))
	if !ok {
		return true // implementation-defined
	}
	if got.Z == z {
		return true
	}
	for _, d := range []float64{-1e-9 * (1 + math.Abs(want)), 1e-9 * (1 + math.Abs(want))} {
		z2, ok2 := truncOK(want+d, bitsOf(t))
		if !ok2 || got.Z == z2 {
			return true
		}
	}
	return math.Abs(float64(got.Z)-want) <= 1e-9*math.Abs(want)
}

func bigOf(x float64) *big.Float { return new(big.Float).SetPrec(200).SetFloat64(x) }

// second formulas
func refUn(op string, x float64) (float64, bool) {
	switch op {
	case "Exp":
		return 1 / math.Exp(-x), true
	case "Log":
		return math.Log2(x) * math.Ln2, true
	case "Log1p":
		if math.Abs(x) < 1e-4 {
			return x - x*x/2 + x*x*x/3, true
		}
		return math.Log(1 + x), true
	case "Sin":
		return math.Cos(x - math.Pi/2), true
	case "Cos":
		return math.Sin(x + math.Pi/2), true
	case "Tan":
		return math.Sin(x) / math.Cos(x), true
	case "Sinh":
		if math.Abs(x) < 1e-3 {
			return x + x*x*x/6, true
		}
		return (math.Exp(x) - math.Exp(-x)) / 2, true
	case "Cosh":
		return (math.Exp(x) + math.Exp(-x)) / 2, true
	case "Tanh":
		return math.Sinh(x) / math.Cosh(x), true
	case "Erf":
		return 1 - math.Erfc(x), true
	case "Erfc":
		if x > 0.5 {
			// continued-fraction-free second formula: erfc(x) = 2*Phi(-x*sqrt2) via erf of the negative argument is no better; use symmetry
			return 2 - math.Erfc(-x), true
		}
		return 1 - math.Erf(x), true
	case "LogErfc":
		// second formulas, independent of special.LogErfc's own branch selection, on the whole line
		switch {
		case math.Abs(x) < 0.5:
			return math.Log1p(-math.Erf(x)), true
		case x < 0:
			return math.Log(2 - math.Erfc(-x)), true
		case x < 20:
			return math.Log(math.Erfc(x)), true
		case x < 1e150:
			// erfc x = e^(-x^2) / (x sqrt pi) (1 - 1/(2x^2) + 3/(4x^4) - ...)
			return -x*x - math.Log(x*math.Sqrt(math.Pi)) + math.Log1p(-1/(2*x*x)+3/(4*x*x*x*x)), true
		}
		return 0, false
	case "Gamma":
		l, s := math.Lgamma(x)
		return float64(s) * math.Exp(l), true
	case "Lgamma":
		if x > 0 && x < 150 {
			return math.Log(math.Gamma(x)), true
		}
		return 0, false
	case "Sqrt", "SQRT":
		if x < 0 {
			return math.NaN(), true
		}
		if math.IsInf(x, 1) || math.IsNaN(x) {
			return x, true
		}
		f, _ := new(big.Float).SetPrec(200).Sqrt(bigOf(x)).Float64()
		return f, true
	case "Log1pExp":
		return math.Max(x, 0) + math.Log1p(math.Exp(-math.Abs(x))), true
	case "Logistic", "Sigmoid":
		return 0.5 * (1 + math.Tanh(x/2)), true
	case "Neg", "NEG":
		return -x, true
	case "Abs", "ABS":
		return math.Abs(x), true
	}
	return 0, false
}

// limits of the named functions at +Inf, -Inf and NaN (the value IEEE 754 / C99 Annex F assign)
func limitUn(op string, x float64) (float64, bool) {
	nan, pinf, ninf := math.NaN(), math.Inf(1), math.Inf(-1)
	if math.IsNaN(x) {
		switch op {
		case "Abs", "ABS":
			return nan, true
		case "Lgamma", "Gamma", "LogErfc":
			return 0, false
		}
		return nan, true
	}
	pos := x > 0
	sel := func(p, n float64) (float64, bool) {
		if pos {
			return p, true
		}
		return n, true
	}
	switch op {
	case "Exp":
		return sel(pinf, 0)
	case "Log", "Log1p", "Sqrt", "SQRT":
		return sel(pinf, nan)
	case "Sin", "Cos", "Tan":
		return nan, true
	case "Sinh":
		return sel(pinf, ninf)
	case "Cosh":
		return pinf, true
	case "Tanh", "Erf":
		return sel(1, -1)
	case "Erfc":
		return sel(0, 2)
	case "Log1pExp":
		return sel(pinf, 0)
	case "Logistic", "Sigmoid":
		return sel(1, 0)
	case "Neg", "NEG":
		return -x, true
	}
	return 0, false
}

func looseFor(op string) float64 {
	switch op {
	case "Sin", "Cos", "Tan", "Erf", "Erfc", "Log1p", "Sinh", "Tanh", "Logistic", "Sigmoid", "Log1pExp":
		return 1e-6 // absolute slack of the second formula (cancellation), on top of the relative tolerance
	}
	return 0
}

func check(c Case) *Failure {
	if c.Op == "Seq" {
		return checkSeq(c)
	}
	// round 7: -Inf held in a float operand of LogAdd/LogSub on an integer receiver is never converted: defined result
	if f, done := checkIntLogNeutral(c); done {
		return f
	}
	// an integer-typed reader of a float operand that does not fit: implementation-defined conversion, excluded
	reader := c.TC
	switch genericName(c.Op) {
	case "Greater", "Smaller", "Equals", "Sign", "LogAdd":
		if len(c.A) > 0 {
			reader = c.A[0].T
		}
	}
	for _, rd := range []int{reader, c.TC} {
		if rd >= 0 && rd < len(types) && !isF(rd) {
			for _, a := range c.A {
				if isF(a.T) {
					if _, ok := truncOK(a.fl(), bitsOf(rd)); !ok {
						return nil
					}
				}
			}
		}
	}
	for _, t := range c.TT {
		if !isF(t) && isF(c.TC) {
			return nil // integer temporary under a float receiver truncates intermediate results: no closed form
		}
	}
	res := run(c)
	orig := c
	if f := repIndependence(orig, res); f != nil {
		return f
	}
	c = lowered(c) // operand representations: the reference works on the abstract element sequence (all elements, implicit zeros included)
	fail := func(site, what, want string) *Failure {
		return &Failure{Case: orig, Site: site, Failure: what, Got: res.Text, Want: want}
	}
	g := genericName(c.Op)
	wantPanic := false
	switch g {
	case "Div":
		if !isF(c.TC) {
			if z, ok := refInt(c.A[1], c.TC); ok && z == 0 {
				wantPanic = true
			}
		}
	case "Vmean":
		wantPanic = !isF(c.TC) && len(c.X) == 0
	case "VdotV":
		wantPanic = len(c.X) != len(c.Y)
	case "Mtrace":
		wantPanic = c.N != c.M
	}
	if res.Kind == "panic" {
		if wantPanic {
			return nil
		}
		if !isF(c.TC) && g != "ConvertConstScalar" && g != "NewConstScalar" && g != "ConvertScalar" && g != "ConvertMagicScalar" && g != "NewScalar" && g != "NullScalar" {
			// integer receivers: a panic can only be the division by zero inside a composite program (Sigmoid, Logistic, SmoothMax, Vmean...)
			if g == "Sigmoid" || g == "Logistic" || g == "SmoothMax" || g == "LogSmoothMax" {
				return nil
			}
		}
		site := g + ":panic"
		if (g == "ConvertConstScalar" || g == "NewConstScalar") && types[c.Tgt].Cnst {
			site = "NewConstScalar:const-type-panic"
		}
		if (g == "ConvertScalar" || g == "ConvertMagicScalar" || g == "NewScalar" || g == "NullScalar") && types[c.Tgt].Cnst {
			return nil // constant types have no mutable representation: rejecting them is the documented behaviour of NewScalar
		}
		return fail(site, "unexpected panic: "+res.Text, "a value")
	}
	if wantPanic {
		return fail(g+":missing-panic", "expected a panic", "panic")
	}
	if res.Kind == "nil" {
		if (g == "Mtrace" && c.N == 0) || (g == "Mnorm" && (c.N == 0 || c.M == 0)) {
			return nil
		}
		return fail(g+":nil", "method returned nil", "a value")
	}
	// operands as read by the receiver
	rd := func(v V) (float64, bool) { f, _, ok := refRead(v, c.TC); return f, ok }
	switch g {
	case "Greater", "Smaller", "Equals", "Sign":
		ta := c.A[0].T
		x, xz, ok1 := refRead(c.A[0], ta)
		var y float64
		var yz int64
		ok2 := true
		if len(c.A) > 1 {
			y, yz, ok2 = refRead(c.A[1], ta)
		}
		if !ok1 || !ok2 {
			return nil
		}
		var want bool
		switch g {
		case "Greater":
			want = x > y
			if !isF(ta) {
				want = xz > yz
			}
		case "Smaller":
			want = x < y
			if !isF(ta) {
				want = xz < yz
			}
		case "Equals":
			{
				// float types: equal within epsilon (NaN = NaN, Inf = Inf of the same sign), on the float64 readings
				v1, v2 := refF64(c.A[0]), refF64(c.A[1])
				eps := fparse(c.P)
				viaF64 := math.Abs(v1-v2) < eps || (math.IsNaN(v1) && math.IsNaN(v2)) || (math.IsInf(v1, 1) && math.IsInf(v2, 1)) || (math.IsInf(v1, -1) && math.IsInf(v2, -1))
				want = viaF64
				if !isF(ta) {
					// integer types: the template's own #else branch, a.GetK() == b.GetK() — exact equality of the operands as
					// represented in the receiver's type, whatever epsilon
					want = xz == yz
					if res.Bool != want && res.Bool == viaF64 {
						return fail("Equals:int-via-float64", "integer Equals compares the float64 readings within epsilon instead of the integers", fmt.Sprint(want))
					}
				}
			}
		case "Sign":
			s := int64(0)
			if x < 0 || (!isF(ta) && xz < 0) {
				s = -1
			} else if x > 0 || (!isF(ta) && xz > 0) {
				s = 1
			}
			if res.Int != s {
				return fail("Sign:value", "sign differs from the sign of the value", fmt.Sprint(s))
			}
			return nil
		}
		if res.Bool != want {
			return fail(g+":value", "comparison disagrees with the order of the values as read through the receiver type", fmt.Sprint(want))
		}
		return nil
	case "ConvertScalar", "ConvertConstScalar", "ConvertMagicScalar", "NewScalar", "NewConstScalar", "NullScalar":
		if res.Val.T != c.Tgt {
			site := g + ":type"
			if g == "ConvertMagicScalar" && res.Val.T == c.A[0].T && res.Val.coqv() == c.A[0].coqv() {
				site = "ConvertMagicScalar:returns-receiver"
			}
			return fail(site, "result has type "+types[res.Val.T].Name+", requested "+types[c.Tgt].Name, types[c.Tgt].Name)
		}
		var src V
		if len(c.A) > 0 {
			src = c.A[0]
		} else {
			src = V{T: 0, F: c.P}
			if g == "NullScalar" {
				src = V{T: 0, F: "0x0p+00"}
			}
		}
		f, z, ok := refRead(src, c.Tgt)
		if !ok {
			return nil
		}
		if isF(c.Tgt) {
			if !(res.Val.fl() == f || (math.IsNaN(f) && math.IsNaN(res.Val.fl()))) {
				return fail(g+":value", "converted value differs from Go's numeric conversion", fmt.Sprint(f))
			}
		} else if res.Val.Z != z {
			site := g + ":value"
			if g == "ConvertConstScalar" && !isF(src.T) {
				if zf, okf := truncOK(float64(src.Z), bitsOf(c.Tgt)); okf && zf == res.Val.Z {
					site = "ConvertConstScalar:via-float64" // NewConstScalar(t, a.GetFloat64()): the integer passes through float64
				} else if !okf {
					return nil // float64(z) no longer fits the target: implementation-defined conversion
				}
			}
			return fail(site, "converted value differs from Go's numeric conversion", fmt.Sprint(z))
		}
		return nil
	}
	if !res.IsVal {
		return nil
	}
	got := res.Val
	if got.T != c.TC {
		return fail(g+":type", "result is not held in the receiver type", types[c.TC].Name)
	}
	// tracking derivatives must not change the value
	if c.Order > 0 {
		c0 := c
		c0.Order = 0
		r0 := run(c0)
		if r0.Text != res.Text {
			return fail(g+":tracking", "value changes when derivatives are tracked", r0.Text)
		}
	}
	switch g {
	case "Add", "Sub", "Mul", "Div", "Min", "Max":
		if !isF(c.TC) {
			x, ok1 := refInt(c.A[0], c.TC)
			y, ok2 := refInt(c.A[1], c.TC)
			if !ok1 || !ok2 {
				return nil
			}
			bx, by := big.NewInt(x), big.NewInt(y)
			w := new(big.Int)
			switch g {
			case "Add":
				w.Add(bx, by)
			case "Sub":
				w.Sub(bx, by)
			case "Mul":
				w.Mul(bx, by)
			case "Div":
				w.Quo(bx, by) // truncated division
			case "Min":
				if x < y {
					w.Set(bx)
				} else {
					w.Set(by)
				}
			case "Max":
				if x > y {
					w.Set(bx)
				} else {
					w.Set(by)
				}
			}
			// wrap to k bits
			k := bitsOf(c.TC)
			mod := new(big.Int).Lsh(big.NewInt(1), k)
			half := new(big.Int).Lsh(big.NewInt(1), k-1)
			w.Add(w, half).Mod(w, mod).Sub(w, half)
			if w.Cmp(big.NewInt(got.Z)) != 0 {
				return fail(g+":int", "integer result differs from Go's wrap-around arithmetic", w.String())
			}
			return nil
		}
		x, _ := rd(c.A[0])
		y, _ := rd(c.A[1])
		if types[c.TC].Real {
			x, y = refF64(c.A[0]), refF64(c.A[1])
		}
		var want float64
		switch g {
		case "Add":
			want = x + y
		case "Sub":
			want = x - y
		case "Mul":
			want = x * y
		case "Div":
			want = x / y
		case "Min":
			if math.IsNaN(x) || math.IsNaN(y) {
				return nil
			}
			want = math.Min(x, y)
		case "Max":
			if math.IsNaN(x) || math.IsNaN(y) {
				return nil
			}
			want = math.Max(x, y)
		}
		if !agrees(c.TC, got, want, math.Max(math.Abs(x), math.Abs(y))*1e-3) {
			return fail(g+":value", "float result differs from the exact operation", fstr(want))
		}
		return nil
	case "Neg", "Abs", "ABS":
		if !isF(c.TC) {
			x, ok := refInt(c.A[0], c.TC)
			if !ok {
				return nil
			}
			if g == "Abs" && !isF(c.A[0].T) && wrapTo(c.TC, c.A[0].Z) != c.A[0].Z {
				return nil // operand not representable in the receiver type: its sign is taken in the operand's own type
			}
			w := wrapTo(c.TC, -x)
			if g != "Neg" && x >= 0 {
				w = x
			}
			if got.Z != w {
				return fail(g+":int", "integer result differs from |x| / -x in wrap-around arithmetic", fmt.Sprint(w))
			}
			return nil
		}
		x, _ := rd(c.A[0])
		if types[c.TC].Real {
			x = refF64(c.A[0])
		}
		want, _ := refUn(g, x)
		if !agrees(c.TC, got, want, 0) {
			site := g + ":value"
			if g == "Abs" && math.IsNaN(x) && got.fl() == 0 {
				site = "Abs:NaN" // Sign() of NaN is 0, so Abs resets the receiver
			} else if g == "ABS" && math.IsNaN(x) && got.fl() == 0 {
				site = "ABS:NaN" // the concrete twin has the same three-way switch since fix 2fc8894
			}
			return fail(site, "result differs from the named function", fstr(want))
		}
		return nil
	case "Set":
		f, z, ok := refRead(c.A[0], c.TC)
		if !ok {
			return nil
		}
		if (isF(c.TC) && !(got.fl() == f || math.IsNaN(f))) || (!isF(c.TC) && got.Z != z) {
			return fail("Set:value", "Set does not store the operand converted to the receiver type", fmt.Sprint(f))
		}
		return nil
	case "Sqrt", "SQRT", "Log1pExp", "Logistic", "Sigmoid", "Lgamma", "Exp", "Log", "Log1p", "Sin", "Cos", "Tan", "Sinh", "Cosh", "Tanh", "Erf", "Erfc", "LogErfc", "Gamma":
		x := refF64(c.A[0])
		if math.IsNaN(x) || math.IsInf(x, 0) {
			if !isF(c.TC) {
				return nil // float -> int conversion of a non-finite value: implementation-defined
			}
			for _, t := range c.TT {
				if !isF(t) {
					return nil
				}
			}
			want, ok := limitUn(g, x)
			if !ok {
				return nil
			}
			gf := got.fl()
			if !(gf == want || (math.IsNaN(want) && math.IsNaN(gf))) {
				site := g + ":special"
				if g == "Sqrt" || (g == "SQRT" && types[c.TC].Real) {
					if math.IsInf(x, -1) && math.IsInf(gf, 1) {
						site = "Sqrt:neg-inf" // math.Pow(-Inf, 0.5) = +Inf
					}
				}
				return fail(site, "value at an IEEE special operand differs from the limit of the named function", fstr(want))
			}
			return nil
		}
		if !isF(c.TC) && (g == "Log1pExp" || g == "Logistic" || g == "Sigmoid") {
			return nil // composite programs on integer types truncate at every step: no closed-form reference
		}
		want, ok := refUn(g, x)
		if !ok || math.IsNaN(want) {
			return nil
		}
		if g == "Lgamma" {
			if _, s := math.Lgamma(x); s < 0 {
				return nil
			}
		}
		if (g == "Gamma" || g == "Lgamma") && (x == 0 || (x < 0 && x == math.Trunc(x))) {
			return nil // poles: the sign of the infinity depends on the side, the second formula does not know it
		}
		at := c.TC
		for _, t := range c.TT {
			if types[t].Base == BF32 {
				at = 1 // a binary32 temporary limits the precision of the result
			}
		}
		if g == "Log1pExp" && isF(c.TC) && types[at].Base == BF64 && (!isF(c.A[0].T) || types[c.A[0].T].Base == BF64 || float64(float32(x)) == x) {
			// every branch of Log1pExp is accurate to a few ulp in binary64 (branch errors e^2x/2, e^-2x/2, e^-33.3 are below
			// half an ulp of the result); a wrong sign of the correction term on (18, 33.3] is an error of 2e^-x ~ 1e-9 relative
			if math.Abs(got.fl()-want) > 3.6e-15*math.Abs(want) {
				return fail("Log1pExp:value", "result differs from ln(1+e^x) by more than 16 ulp", fstr(want))
			}
		}
		if !agrees(at, V{T: at, F: got.F, Z: got.Z}, want, looseFor(g)) {
			return fail(g+":value", "result differs from the named function", fstr(want))
		}
		return nil
	case "Pow":
		// round 6: the whole special-case table (negative base with integer exponent, 0^0, 1^Inf, +-Inf, NaN), see pow.go
		return checkPow(c, res, fail)
	case "LogAdd", "LogSub":
		if !isF(c.TC) || !isF(c.TT[0]) {
			return nil
		}
		a, b := refF64(c.A[0]), refF64(c.A[1])
		if math.IsNaN(a) || math.IsNaN(b) || math.IsInf(a, 1) || math.IsInf(b, 1) || (g == "LogSub" && (a <= b || math.IsInf(a, -1))) {
			for _, t := range []int{c.TC, c.TT[0]} {
				if types[t].Base == BF32 && a != b && float64(float32(a)) == float64(float32(b)) {
					return nil // distinct operands that coincide in binary32
				}
			}
			// extended table: ln(e^a +- e^b) with e^-Inf = 0, e^+Inf = +Inf, ln 0 = -Inf, ln(negative) = Inf - Inf = NaN
			ea, eb := math.Exp(a), math.Exp(b)
			var w float64
			if g == "LogAdd" {
				w = math.Log(ea + eb)
			} else {
				w = math.Log(ea - eb)
				if !math.IsInf(a, 0) && !math.IsInf(b, 0) && !math.IsNaN(a) && !math.IsNaN(b) {
					// finite a <= b: decide the sign exactly, not through the rounded exponentials
					if a == b {
						w = math.Inf(-1)
					} else {
						w = math.NaN()
					}
				}
			}
			gf := got.fl()
			if !(gf == w || (math.IsNaN(w) && math.IsNaN(gf))) {
				return fail(g+":special", "value at IEEE special operands differs from ln(e^a +- e^b)", fstr(w))
			}
			return nil
		}
		var want float64
		if g == "LogAdd" {
			if math.IsInf(a, -1) {
				want = b
			} else if math.IsInf(b, -1) {
				want = a
			} else {
				want = math.Max(a, b) + math.Log1p(math.Exp(-math.Abs(a-b)))
			}
		} else {
			if math.IsInf(b, -1) {
				want = a
			} else if a <= b {
				return nil
			} else {
				want = a + math.Log(-math.Expm1(b-a))
			}
		}
		tol := math.Max(math.Abs(a), math.Abs(b))*1e-2 + 1e-4
		if types[c.TT[0]].Base == BF32 || types[c.TC].Base == BF32 {
			if g == "LogSub" && a-b < 0.05 {
				return nil // catastrophic cancellation in binary32: ill-conditioned, skipped
			}
			if !agrees(1, VFl(1, got.fl()), want, tol) {
				return fail(g+":value", "result differs from the log-scale sum/difference", fstr(want))
			}
			return nil
		}
		if g == "LogSub" && a-b < 1e-6 {
			return nil
		}
		if !agrees(c.TC, got, want, tol) {
			return fail(g+":value", "result differs from the log-scale sum/difference", fstr(want))
		}
		return nil
	case "Mlgamma", "GammaP", "BesselI", "LogBesselI":
		// opaque special functions: every type must route to the same function
		c0 := c
		c0.TC, c0.Order = 0, 0
		c0.A = []V{VFl(0, refF64(c.A[0]))}
		r0 := run(c0)
		if r0.Kind != "val" {
			return nil
		}
		if !agrees(c.TC, got, r0.Val.fl(), 0) {
			return fail(g+":routing", "result differs from the Float64 result of the same function", r0.Text)
		}
		return nil
	case "SmoothMax", "LogSmoothMax", "Vmean", "VdotV", "Vnorm", "Mtrace", "Mnorm":
		if !isF(c.TC) && (g == "SmoothMax" || g == "LogSmoothMax") {
			return nil
		}
		if !isF(c.TC) && (g == "Vnorm" || g == "Mnorm") {
			for _, v := range c.X {
				if isF(v.T) {
					return nil // integer receiver over float elements: every square is truncated separately, no closed form
				}
			}
		}
		xs := make([]float64, len(c.X))
		for i, v := range c.X {
			f, ok := rd(v)
			if g == "SmoothMax" || g == "LogSmoothMax" {
				f, ok = refF64(v), true
			}
			if !ok {
				return nil
			}
			xs[i] = f
		}
		sum := new(big.Float).SetPrec(300)
		scale := 0.0
		var want float64
		if g == "Vnorm" || g == "Mnorm" {
			nonfin := false
			s2 := 0.0
			for _, x := range xs {
				if math.IsNaN(x) || math.IsInf(x, 0) {
					nonfin = true
				}
				s2 += x * x
			}
			if nonfin {
				// non-finite elements: IEEE arithmetic on the squares (Inf^2 = +Inf also for -Inf, NaN propagates)
				if !isF(c.TC) {
					return nil
				}
				w := math.Sqrt(s2)
				if g == "Mnorm" && !math.IsNaN(s2) {
					w = s2 // +Inf either way
				}
				gf := got.fl()
				if !(gf == w || (math.IsNaN(w) && math.IsNaN(gf))) {
					return fail(g+":special", "norm of a vector with non-finite elements differs from the IEEE value of sqrt(sum x^2)", fstr(w))
				}
				return nil
			}
		}
		switch g {
		case "Vmean":
			if !isF(c.TC) {
				return withCase(checkIntReduction(c, res), orig)
			}
			for _, x := range xs {
				sum.Add(sum, bigOf(x))
				scale = math.Max(scale, math.Abs(x))
			}
			if len(xs) == 0 {
				want = math.NaN()
			} else {
				want, _ = sum.Quo(sum, bigOf(float64(len(xs)))).Float64()
			}
		case "VdotV":
			if !isF(c.TC) {
				return withCase(checkIntReduction(c, res), orig)
			}
			for i, x := range xs {
				y, _ := rd(c.Y[i])
				sum.Add(sum, new(big.Float).SetPrec(300).Mul(bigOf(x), bigOf(y)))
				scale = math.Max(scale, math.Abs(x*y))
			}
			want, _ = sum.Float64()
		case "Mtrace":
			if !isF(c.TC) {
				return withCase(checkIntReduction(c, res), orig)
			}
			for i := 0; i < c.N; i++ {
				sum.Add(sum, bigOf(xs[i*c.M+i]))
				scale = math.Max(scale, math.Abs(xs[i*c.M+i]))
			}
			want, _ = sum.Float64()
		case "Vnorm", "Mnorm":
			for _, x := range xs {
				sum.Add(sum, new(big.Float).SetPrec(300).Mul(bigOf(x), bigOf(x)))
			}
			want, _ = new(big.Float).SetPrec(300).Sqrt(sum).Float64()
			if !isF(c.TC) {
				// integer receivers: squares and the root are truncated; accept the truncation of the exact root
				s, _ := sum.Float64()
				if s >= math.Ldexp(1, int(bitsOf(c.TC))-1) {
					return nil
				}
			}
		case "SmoothMax", "LogSmoothMax":
			alpha := fparse(c.P)
			if len(xs) == 0 {
				return nil
			}
			mx := math.Inf(-1)
			for _, x := range xs {
				mx = math.Max(mx, alpha*x)
			}
			if g == "SmoothMax" {
				// the direct formula sum x e^(ax) / sum e^(ax): e^(ax) must neither overflow nor all underflow in the storage type
				lim := 700.0
				for _, t := range append([]int{c.TC}, c.TT...) {
					if types[t].Base == BF32 {
						lim = 80
					}
				}
				maxabs := 1.0
				for _, x := range xs {
					maxabs = math.Max(maxabs, math.Abs(x))
				}
				// the numerator sums n terms x e^(ax): it must stay finite too
				if mx+math.Log(maxabs*float64(len(xs)+1)) > lim || mx < -lim {
					return nil
				}
			}
			anyNeg := false
			for _, x := range xs {
				if x < 0 {
					anyNeg = true
				}
			}
			if g == "LogSmoothMax" && anyNeg {
				// log of a negative element: outside the domain of the log-scale computation. The result must not be a
				// wrong finite number: NaN, or (should the library ever handle signs) the SmoothMax value itself.
				if math.IsNaN(got.fl()) {
					return nil
				}
			}
			num, den := 0.0, 0.0
			for _, x := range xs {
				w := math.Exp(alpha*x - mx)
				num += x * w
				den += w
				scale = math.Max(scale, math.Abs(x))
			}
			want = num / den
			scale *= 1e-2
		}
		if !agrees(c.TC, got, want, scale*1e-3) {
			site := g + ":value"
			if g == "Mnorm" {
				s, _ := sum.Float64()
				if agrees(c.TC, got, s, 0) {
					site = "Mnorm:no-sqrt"
				}
			}
			return fail(site, "result differs from the named reduction", fstr(want))
		}
		return nil
	}
	return nil
}

// "equal operands give equal values": the result of a vector / matrix taking method may depend on the ELEMENTS of the operand
// only, not on the container. Run the same call on a dense copy of the element sequence and compare (this oracle also covers
// the integer receivers, for which the composite programs have no closed form).
func repIndependence(c Case, res Result) *Failure {
	if c.VX == nil && c.MA == nil {
		return nil
	}
	d := c
	if c.VX != nil {
		d.VX = &VRep{Kind: "dense", TV: c.VX.TV, X: c.VX.elems()}
	}
	if c.VY != nil {
		d.VY = &VRep{Kind: "dense", TV: c.VY.TV, X: c.VY.elems()}
	}
	if c.MA != nil {
		n, m := c.MA.dims()
		d.MA = &MRep{Kind: "dense", TV: c.MA.TV, N: n, M: m, X: c.MA.elems()}
	}
	rd := run(d)
	if rd.Text != res.Text && !(rd.Kind == "panic" && res.Kind == "panic") {
		return &Failure{Case: c, Site: genericName(c.Op) + ":representation", Failure: "result depends on the representation of the operand (" + repTag(c) + "): the dense copy of the same elements gives another value",
			Got: res.Text, Want: rd.Text}
	}
	return nil
}

func withCase(f *Failure, c Case) *Failure {
	if f != nil {
		f.Case = c
	}
	return f
}

// integer Vmean / VdotV / Mtrace: exact wrap-around reference
func checkIntReduction(c Case, res Result) *Failure {
	k := bitsOf(c.TC)
	wrap := func(w *big.Int) *big.Int {
		mod := new(big.Int).Lsh(big.NewInt(1), k)
		half := new(big.Int).Lsh(big.NewInt(1), k-1)
		return w.Add(w, half).Mod(w, mod).Sub(w, half)
	}
	acc := big.NewInt(0)
	rdz := func(v V) (*big.Int, bool) {
		z, ok := refInt(v, c.TC)
		return big.NewInt(z), ok
	}
	switch c.Op {
	case "Vmean":
		for _, v := range c.X {
			z, ok := rdz(v)
			if !ok {
				return nil
			}
			acc = wrap(acc.Add(acc, z))
		}
		acc = wrap(acc.Quo(acc, big.NewInt(int64(len(c.X)))))
	case "VdotV":
		for i, v := range c.X {
			x, ok1 := rdz(v)
			y, ok2 := rdz(c.Y[i])
			if !ok1 || !ok2 {
				return nil
			}
			acc = wrap(acc.Add(acc, wrap(x.Mul(x, y))))
		}
	case "Mtrace":
		for i := 0; i < c.N; i++ {
			z, ok := rdz(c.X[i*c.M+i])
			if !ok {
				return nil
			}
			acc = wrap(acc.Add(acc, z))
		}
	}
	if acc.Cmp(big.NewInt(res.Val.Z)) != 0 {
		return &Failure{Case: c, Site: c.Op + ":int", Failure: "integer reduction differs from Go's wrap-around arithmetic", Got: res.Text, Want: acc.String()}
	}
	return nil
}

// shrink: shorter vectors, operand types equal to the receiver type
func shrink(f *Failure) *Failure {
	best := f
	for changed := true; changed; {
		changed = false
		c := best.Case
		if len(c.X) > 1 && c.Op != "Mtrace" && c.Op != "Mnorm" && c.VX == nil && c.MA == nil {
			for i := range c.X {
				d := c
				d.X = append(append([]V{}, c.X[:i]...), c.X[i+1:]...)
				if len(c.Y) == len(c.X) {
					d.Y = append(append([]V{}, c.Y[:i]...), c.Y[i+1:]...)
				}
				if g := check(d); g != nil && g.Site == best.Site {
					best, changed = g, true
					break
				}
			}
		}
		if changed {
			continue
		}
		if c.Order > 0 {
			d := c
			d.Order = 0
			if g := check(d); g != nil && g.Site == best.Site {
				best, changed = g, true
				continue
			}
		}
		for i, a := range c.A {
			if a.T != c.TC && c.TC < NRECV && isF(a.T) == isF(c.TC) && !isConcrete(c.Op) {
				d := c
				d.A = append([]V{}, c.A...)
				if isF(a.T) {
					d.A[i] = VFl(c.TC, a.fl())
				} else {
					d.A[i] = VIn(c.TC, a.Z)
				}
				if g := check(d); g != nil && g.Site == best.Site {
					best, changed = g, true
					break
				}
			}
		}
	}
	return best
}

func hunt(o Opts) {
	found := map[string]*Failure{}
	var order []string
	note := func(f *Failure) {
		if f == nil {
			return
		}
		if _, ok := found[f.Site]; !ok {
			found[f.Site] = shrink(f)
			order = append(order, f.Site)
		}
	}
	safe := func(c Case) (f *Failure) {
		defer func() {
			if r := recover(); r != nil {
				f = &Failure{Case: c, Site: c.Op + ":harness-panic", Failure: fmt.Sprint(r)}
			}
		}()
		return check(c)
	}
	// cases handed over by the driver (mismatching correspondence cases) first
	if o.Replay != "" {
		b, err := os.ReadFile(o.Replay)
		if err == nil {
			var in struct {
				Cases []Case `json:"cases"`
			}
			json.Unmarshal(b, &in)
			for _, c := range in.Cases {
				note(safe(c))
			}
		}
	}
	if idx := len("hunt:"); len(o.Extra) > idx {
		for _, c := range loadCases(o.Extra[idx:]) {
			note(safe(c))
		}
	}
	g := &gen{r: NewRng(o.Seed + 1000), o: o, cert: map[[3]uint64]entry{}}
	g.sink = func(c Case, group string) { note(safe(c)) }
	g.generate(o.N)
	out := struct {
		Found    bool       `json:"found"`
		Failures []*Failure `json:"failures"`
		Checked  int        `json:"checked"`
	}{Checked: g.count}
	for _, s := range order {
		out.Failures = append(out.Failures, found[s])
	}
	out.Found = len(out.Failures) > 0
	b, _ := json.MarshalIndent(out, "", " ")
	os.WriteFile(filepath.Join(o.Out, "hunt.json"), b, 0644)
	fmt.Printf("hunt: %d cases checked, %d failing sites\n", g.count, len(out.Failures))
}
