package main

import (
	"fmt"

	ad "github.com/pbenner/autodiff"
	"github.com/pbenner/autodiff/algorithm/qrAlgorithm"
)

func main() {
	a := ad.NewDenseFloat64Matrix([]float64{-0.05499383498648911, 0.08984851334480737, 0.08984851334480737, -0.05675842954352522}, 2, 2)
	h, u, _ := qrAlgorithm.Run(a, qrAlgorithm.ComputeU{true}, qrAlgorithm.Symmetric{true})
	fmt.Println(h)
	fmt.Println(u)
	a = ad.NewDenseFloat64Matrix([]float64{2, 1, 1, 3}, 2, 2)
	h, u, _ = qrAlgorithm.Run(a, qrAlgorithm.ComputeU{true}, qrAlgorithm.Symmetric{true})
	fmt.Println(h)
	fmt.Println(u)
}
