// Property-level oracle for the const-vector histories (constvec.go), independent
// of the Coq model: every object is shadowed by the PLAIN LIST of its values (what
// a fresh dense vector built from the same index/value list holds); dense views
// are shadowed by handles on plain buffers.  Whatever the implementation delivers
// - by index, by iteration, jointly, through a view before or after its parent,
// to a dense receiver - must be what the plain lists say.  It is a search (hunt),
// never the decision.
package main

import (
	"encoding/json"
	"fmt"
	"os"

	. "adharness/common"
)

type shC struct {
	abs    []int64
	n      int
	stored bool // may hold explicitly stored zeros (unsafe constructor, or a view of such)
}
type shD struct{ b, off, n int }
type shadowC struct {
	tn   string
	C    []shC
	D    []shD
	bufs [][]int64
	dead bool // a non-finite value exists: nothing is judged any more
}

func (s *shadowC) dvals(k int) []int64 {
	d := s.D[k]
	return s.bufs[d.b][d.off : d.off+d.n]
}
func (s *shadowC) dim(x CRef) int {
	if x.C {
		return s.C[x.H].n
	}
	return s.D[x.H].n
}
func (s *shadowC) has(x CRef) bool {
	if x.C {
		return x.H >= 0 && x.H < len(s.C)
	}
	return x.H >= 0 && x.H < len(s.D)
}
func (s *shadowC) at(x CRef, i int) int64 {
	if x.C {
		c := s.C[x.H]
		if i < 0 || i >= len(c.abs) {
			return 0
		}
		return c.abs[i]
	}
	return s.dvals(x.H)[i]
}

const (
	cjOK      = 0
	cjPanic   = 1
	cjUnknown = 2 // outcome not judged
)

// apply: expected outcome; chk judges the payload (nil = not judged); ok=false: malformed history
func (s *shadowC) apply(o COp) (exp int, chk func(p []int64) string, ok bool) {
	isInt := isIntType(s.tn)
	div := func(a, b int64) (int64, bool) {
		if b == 0 {
			if isInt {
				return 0, false
			}
			s.dead = true
			return 0, true
		}
		return a / b, true
	}
	// dense receiver loop, sequential like every plain loop over i
	loop := func(k int, xs []CRef, f func(i int) (int64, bool)) int {
		if !s.has(CRef{false, k}) {
			return -1
		}
		n := s.D[k].n
		for _, x := range xs {
			if !s.has(x) {
				return -1
			}
			if s.dim(x) != n {
				return cjPanic
			}
		}
		r := s.dvals(k)
		for i := 0; i < n; i++ {
			v, fine := f(i)
			if !fine {
				return cjPanic
			}
			r[i] = v
		}
		return cjOK
	}
	switch o.Op {
	case "CNew", "CUnsafe":
		n := int(o.I)
		if len(o.L) != len(o.L2) {
			return cjUnknown, nil, false
		}
		seen := map[int64]bool{}
		for _, k := range o.L {
			if k < 0 || seen[k] {
				return cjUnknown, nil, false // outside what the oracle judges
			}
			seen[k] = true
			if k >= int64(n) {
				if o.Op == "CNew" {
					return cjPanic, nil, true
				}
				return cjUnknown, nil, false
			}
		}
		if n < 0 {
			return cjUnknown, nil, false
		}
		c := shC{abs: make([]int64, n), n: n, stored: o.Op == "CUnsafe"}
		for i, k := range o.L {
			c.abs[k] = o.L2[i]
		}
		if o.Op == "CUnsafe" {
			for i := 1; i < len(o.L); i++ {
				if o.L[i-1] >= o.L[i] {
					return cjUnknown, nil, false
				}
			}
		}
		s.C = append(s.C, c)
		return cjOK, nil, true
	case "CNewD":
		s.bufs = append(s.bufs, append([]int64{}, o.L...))
		s.D = append(s.D, shD{len(s.bufs) - 1, 0, len(o.L)})
		return cjOK, nil, true
	case "CSlice":
		if !s.has(CRef{true, o.H}) {
			return 0, nil, false
		}
		p := s.C[o.H]
		i, j := int(o.I), int(o.J)
		if i < 0 || i > j {
			return cjUnknown, nil, false
		}
		c := shC{abs: make([]int64, j-i), n: j - i, stored: p.stored}
		for t := i; t < j && t < p.n; t++ {
			c.abs[t-i] = p.abs[t]
		}
		s.C = append(s.C, c)
		return cjOK, nil, true
	case "DSlice":
		if !s.has(CRef{false, o.H}) {
			return 0, nil, false
		}
		d := s.D[o.H]
		i, j := int(o.I), int(o.J)
		if i < 0 || i > j || j > len(s.bufs[d.b])-d.off {
			return cjPanic, nil, true
		}
		s.D = append(s.D, shD{d.b, d.off + i, j - i})
		return cjOK, nil, true
	case "CClone":
		if !s.has(CRef{true, o.H}) {
			return 0, nil, false
		}
		p := s.C[o.H]
		s.C = append(s.C, shC{abs: append([]int64{}, p.abs...), n: p.n, stored: p.stored})
		return cjOK, nil, true
	case "CAt":
		if !s.has(CRef{true, o.H}) {
			return 0, nil, false
		}
		want := s.at(CRef{true, o.H}, int(o.I))
		return cjOK, func(p []int64) string {
			if len(p) != 1 || p[0] != want {
				return fmt.Sprintf("read of index %d through const object %d gives %v, its value list says %d", o.I, o.H, p, want)
			}
			return ""
		}, true
	case "CIter", "CIterFrom":
		if !s.has(CRef{true, o.H}) {
			return 0, nil, false
		}
		c := s.C[o.H]
		from := int64(-1 << 62)
		if o.Op == "CIterFrom" {
			from = o.I
		}
		return cjOK, func(p []int64) string {
			if len(p)%2 != 0 {
				return "iteration did not terminate"
			}
			seen := map[int64]bool{}
			last := int64(-1 << 62)
			for t := 0; t+1 < len(p); t += 2 {
				i, x := p[t], p[t+1]
				if i <= last {
					return fmt.Sprintf("iteration of const object %d is not strictly ascending at index %d", o.H, i)
				}
				last = i
				if i < from {
					return fmt.Sprintf("ConstIteratorFrom(%d) of const object %d (value list %v) visits index %d", from, o.H, c.abs, i)
				}
				if i < 0 || i >= int64(c.n) || x != c.abs[i] {
					return fmt.Sprintf("iteration of const object %d delivers (%d, %d), its value list is %v", o.H, i, x, c.abs)
				}
				if x == 0 && !c.stored {
					return fmt.Sprintf("iteration of const object %d visits a zero at index %d", o.H, i)
				}
				seen[i] = true
			}
			for i, x := range c.abs {
				if x != 0 && int64(i) >= from && !seen[int64(i)] {
					return fmt.Sprintf("iteration of const object %d misses the non-zero element %d at index %d", o.H, x, i)
				}
			}
			return ""
		}, true
	case "CJoint":
		if !s.has(CRef{true, o.H}) || !s.has(o.X) {
			return 0, nil, false
		}
		if s.dim(o.X) != s.C[o.H].n {
			return cjUnknown, nil, true
		}
		n := s.C[o.H].n
		a := append([]int64{}, s.C[o.H].abs...)
		b := make([]int64, n)
		for i := 0; i < n; i++ {
			b[i] = s.at(o.X, i)
		}
		return cjOK, func(p []int64) string {
			if len(p)%3 != 0 {
				return "joint iteration did not terminate"
			}
			seen := map[int64]bool{}
			last := int64(-1)
			for t := 0; t+2 < len(p); t += 3 {
				i := p[t]
				if i <= last || i >= int64(n) {
					return fmt.Sprintf("joint iteration: index %d after %d (dimension %d)", i, last, n)
				}
				last = i
				if p[t+1] != a[i] || p[t+2] != b[i] {
					return fmt.Sprintf("joint iteration of const object %d with %v delivers (%d: %d, %d), the value lists say (%d, %d)", o.H, o.X, i, p[t+1], p[t+2], a[i], b[i])
				}
				seen[i] = true
			}
			for i := 0; i < n; i++ {
				if (a[i] != 0 || b[i] != 0) && !seen[int64(i)] {
					return fmt.Sprintf("joint iteration of const object %d with %v skips index %d where the values are (%d, %d)", o.H, o.X, i, a[i], b[i])
				}
			}
			return ""
		}, true
	case "CEquals", "DEquals":
		r := CRef{o.Op == "CEquals", o.H}
		if !s.has(r) || !s.has(o.X) {
			return 0, nil, false
		}
		if s.dim(o.X) != s.dim(r) {
			return cjPanic, nil, true
		}
		if o.V <= 0 {
			return cjOK, nil, true
		}
		want := int64(1)
		for i := 0; i < s.dim(r); i++ {
			d := s.at(r, i) - s.at(o.X, i)
			if d < 0 {
				d = -d
			}
			if d*2 >= o.V {
				want = 0
			}
		}
		return cjOK, func(p []int64) string {
			if len(p) != 1 || p[0] != want {
				return fmt.Sprintf("%s of %v with %v gives %v, the value lists say %d", o.Op, r, o.X, p, want)
			}
			return ""
		}, true
	case "CAsDense":
		if !s.has(o.X) {
			return 0, nil, false
		}
		n := s.dim(o.X)
		l := make([]int64, n)
		for i := range l {
			l[i] = s.at(o.X, i)
		}
		s.bufs = append(s.bufs, l)
		s.D = append(s.D, shD{len(s.bufs) - 1, 0, n})
		return cjOK, nil, true
	case "CAsConst":
		if !s.has(CRef{false, o.H}) {
			return 0, nil, false
		}
		v := append([]int64{}, s.dvals(o.H)...)
		s.C = append(s.C, shC{abs: v, n: len(v)})
		return cjOK, nil, true
	case "DSetAt":
		if !s.has(CRef{false, o.H}) {
			return 0, nil, false
		}
		if o.I < 0 || int(o.I) >= s.D[o.H].n {
			return cjPanic, nil, true
		}
		s.dvals(o.H)[o.I] = o.V
		return cjOK, nil, true
	case "DSet":
		e := loop(o.H, []CRef{o.X}, func(i int) (int64, bool) { return s.at(o.X, i), true })
		return e, nil, e >= 0
	case "DopV":
		e := loop(o.H, []CRef{o.A, o.B}, func(i int) (int64, bool) {
			a, b := s.at(o.A, i), s.at(o.B, i)
			switch o.F {
			case "Add":
				return a + b, true
			case "Sub":
				return a - b, true
			}
			return a * b, true
		})
		return e, nil, e >= 0
	case "DdivV":
		e := loop(o.H, []CRef{o.A, o.B}, func(i int) (int64, bool) { return div(s.at(o.A, i), s.at(o.B, i)) })
		return e, nil, e >= 0
	case "DaddS":
		e := loop(o.H, []CRef{o.A}, func(i int) (int64, bool) { return s.at(o.A, i) + o.V, true })
		return e, nil, e >= 0
	case "DsubS":
		e := loop(o.H, []CRef{o.A}, func(i int) (int64, bool) { return s.at(o.A, i) - o.V, true })
		return e, nil, e >= 0
	case "DmulS":
		e := loop(o.H, []CRef{o.A}, func(i int) (int64, bool) { return s.at(o.A, i) * o.V, true })
		return e, nil, e >= 0
	case "DdivS":
		e := loop(o.H, []CRef{o.A}, func(i int) (int64, bool) { return div(s.at(o.A, i), o.V) })
		return e, nil, e >= 0
	case "DdotV":
		if !s.has(o.A) || !s.has(o.B) {
			return 0, nil, false
		}
		if s.dim(o.A) != s.dim(o.B) {
			return cjPanic, nil, true
		}
		want := int64(0)
		for i := 0; i < s.dim(o.A); i++ {
			want += s.at(o.A, i) * s.at(o.B, i)
		}
		return cjOK, func(p []int64) string {
			if len(p) != 1 || p[0] != want {
				return fmt.Sprintf("VdotV of %v and %v gives %v, the value lists say %d", o.A, o.B, p, want)
			}
			return ""
		}, true
	}
	return 0, nil, false
}

// propCheckC: run a history on the implementation next to its plain-list shadow.
func propCheckC(c CCase) (fail string, at int) {
	w := &CWorld{Type: c.Type, CType: c.CType}
	s := &shadowC{tn: c.Type}
	world := func(k int, op string) string {
		if len(w.C) != len(s.C) || len(w.D) != len(s.D) {
			return fmt.Sprintf("step %d %s: number of objects differs", k, op)
		}
		for h, v := range w.C {
			if v.Dim() != s.C[h].n {
				return fmt.Sprintf("step %d %s: const object %d has dimension %d, expected %d", k, op, h, v.Dim(), s.C[h].n)
			}
			o := observeConst(v)
			if !eqList(o.Reads, s.C[h].abs) {
				return fmt.Sprintf("step %d %s: a Clone of const object %d reads %v by index, its value list is %v", k, op, h, o.Reads, s.C[h].abs)
			}
		}
		for h, v := range w.D {
			o := observeVec(v, false)
			if !eqList(o.Reads, s.dvals(h)) {
				return fmt.Sprintf("step %d %s: dense vector %d holds %v, expected %v", k, op, h, o.Reads, s.dvals(h))
			}
		}
		return ""
	}
	for k, o := range c.Ops {
		exp, chk, ok := s.apply(o)
		if !ok {
			return "", -1
		}
		kind, p := w.execOne(o)
		if s.dead {
			return "", -1
		}
		if exp == cjUnknown {
			return "", -1
		}
		if (exp == cjPanic) != (kind == K_PANIC) {
			return fmt.Sprintf("step %d %s: panic expected %v, observed kind %d", k, o.Op, exp == cjPanic, kind), k
		}
		if chk != nil && kind == K_OK {
			if f := chk(p); f != "" {
				return fmt.Sprintf("step %d %s: %s", k, o.Op, f), k
			}
		}
		if f := world(k, o.Op); f != "" {
			return f, k
		}
	}
	// finally every object is read directly at every index: views first when the history has an
	// even number of steps, parents first otherwise
	order := make([]int, 0, len(w.C))
	for h := range w.C {
		order = append(order, h)
	}
	if len(c.Ops)%2 == 0 {
		for i, j := 0, len(order)-1; i < j; i, j = i+1, j-1 {
			order[i], order[j] = order[j], order[i]
		}
	}
	for pass := 0; pass < 2; pass++ {
		for _, h := range order {
			for i := 0; i < s.C[h].n; i++ {
				if x := code(w.C[h].Float64At(i)); x != s.C[h].abs[i] {
					return fmt.Sprintf("final reads (pass %d): const object %d reads %d at index %d, its value list is %v", pass, h, x, i, s.C[h].abs), len(c.Ops) - 1
				}
			}
		}
	}
	return "", -1
}

func eqListC(a, b []int64) bool { return eqList(a, b) }

// creates: the op adds an object (handles of later objects depend on it)
func (o COp) creates() bool {
	switch o.Op {
	case "CNew", "CUnsafe", "CNewD", "CSlice", "DSlice", "CClone", "CAsDense", "CAsConst":
		return true
	}
	return false
}

func shrinkC(c CCase) CCase {
	fails := func(x CCase) bool { f, _ := propCheckC(x); return f != "" }
	if !fails(c) {
		return c
	}
	// cut after the failing step
	if _, at := propCheckC(c); at >= 0 && at+1 < len(c.Ops) {
		t := c
		t.Ops = append([]COp{}, c.Ops[:at+1]...)
		if fails(t) {
			c = t
		}
	}
	// drop operations that create nothing
	for changed := true; changed; {
		changed = false
		for i := len(c.Ops) - 1; i >= 0; i-- {
			if c.Ops[i].creates() {
				continue
			}
			t := c
			t.Ops = append(append([]COp{}, c.Ops[:i]...), c.Ops[i+1:]...)
			if fails(t) {
				c = t
				changed = true
			}
		}
	}
	// drop a creating operation nothing later refers to: renumber the handles above it
	for changed := true; changed; {
		changed = false
		for i := len(c.Ops) - 1; i >= 0; i-- {
			if !c.Ops[i].creates() {
				continue
			}
			if t, ok := dropCreator(c, i); ok && fails(t) {
				c = t
				changed = true
			}
		}
	}
	c.Outs = nil
	return c
}

// dropCreator removes creating op i if no later op refers to the object it creates.
func dropCreator(c CCase, i int) (CCase, bool) {
	isConst := map[string]bool{"CNew": true, "CUnsafe": true, "CSlice": true, "CClone": true, "CAsConst": true}
	// handle the op creates
	nc, nd := 0, 0
	for _, o := range c.Ops[:i] {
		if o.creates() {
			if isConst[o.Op] {
				nc++
			} else {
				nd++
			}
		}
	}
	kc := isConst[c.Ops[i].Op]
	id := nd
	if kc {
		id = nc
	}
	fix := func(r CRef) (CRef, bool) {
		if r.C == kc {
			if r.H == id {
				return r, false
			}
			if r.H > id {
				r.H--
			}
		}
		return r, true
	}
	t := CCase{Type: c.Type, CType: c.CType}
	t.Ops = append(t.Ops, c.Ops[:i]...)
	for _, o := range c.Ops[i+1:] {
		ok := true
		var k bool
		// receiver handle H
		recvConst := map[string]bool{"CSlice": true, "CClone": true, "CAt": true, "CIter": true, "CIterFrom": true, "CJoint": true, "CEquals": true}
		recvDense := map[string]bool{"DSlice": true, "CAsConst": true, "DSetAt": true, "DSet": true, "DEquals": true, "DopV": true, "DdivV": true, "DaddS": true, "DsubS": true, "DmulS": true, "DdivS": true}
		if recvConst[o.Op] || recvDense[o.Op] {
			r, k2 := fix(CRef{recvConst[o.Op], o.H})
			o.H = r.H
			ok = ok && k2
		}
		switch o.Op {
		case "CJoint", "CEquals", "DEquals", "DSet", "CAsDense":
			o.X, k = fix(o.X)
			ok = ok && k
		case "DopV", "DdivV", "DdotV":
			o.A, k = fix(o.A)
			ok = ok && k
			o.B, k = fix(o.B)
			ok = ok && k
		case "DaddS", "DsubS", "DmulS", "DdivS":
			o.A, k = fix(o.A)
			ok = ok && k
		}
		if !ok {
			return c, false
		}
		t.Ops = append(t.Ops, o)
	}
	return t, true
}

// directedC: every zero pattern of a parent of dimension n x every ConstSlice range x both access
// orders x the consumers (exhaustive for the given n)
func directedC(tn, ctn string, n int, each func(CCase) bool) int {
	cnt := 0
	for mask := 0; mask < 1<<uint(n); mask++ {
		var ks, xs, full []int64
		for i := n - 1; i >= 0; i-- { // descending: the constructor has to sort
			if mask>>uint(i)&1 == 1 {
				ks = append(ks, int64(i))
				xs = append(xs, int64(i+1))
			}
		}
		for i := 0; i < n; i++ {
			full = append(full, int64(2*i+1))
		}
		for i := 0; i <= n; i++ {
			for j := i; j <= n; j++ {
				for order := 0; order < 2; order++ {
					c := CCase{Type: tn, CType: ctn}
					add := func(o COp) { c.Ops = append(c.Ops, o) }
					add(COp{Op: "CNew", L: ks, L2: xs, I: int64(n)})
					add(COp{Op: "CNewD", L: full})
					add(COp{Op: "CNewD", L: full[i:j]})
					add(COp{Op: "CSlice", H: 0, I: int64(i), J: int64(j)})
					readAll := func(h, d int) {
						for t := 0; t < d; t++ {
							add(COp{Op: "CAt", H: h, I: int64(t), V: int64(t % 3)})
						}
					}
					if order == 0 {
						readAll(1, j-i)
						readAll(0, n)
					} else {
						readAll(0, n)
						readAll(1, j-i)
					}
					add(COp{Op: "CIter", H: 1})
					add(COp{Op: "CJoint", H: 1, X: CRef{false, 1}})
					add(COp{Op: "CEquals", H: 1, X: CRef{false, 1}, V: 1})
					add(COp{Op: "CAsDense", X: CRef{true, 1}})
					add(COp{Op: "DopV", F: "Add", H: 1, A: CRef{true, 1}, B: CRef{false, 1}})
					add(COp{Op: "DopV", F: "Mul", H: 0, A: CRef{false, 0}, B: CRef{true, 0}})
					add(COp{Op: "DdotV", A: CRef{true, 1}, B: CRef{true, 1}})
					add(COp{Op: "CSlice", H: 1, I: 0, J: int64((j - i) / 2)}) // a view of the view
					add(COp{Op: "DSlice", H: 0, I: int64(i), J: int64(j)})
					add(COp{Op: "DSet", H: 3, X: CRef{true, 1}})
					add(COp{Op: "DEquals", H: 0, X: CRef{true, 0}, V: 1})
					cnt++
					if each(c) {
						return cnt
					}
				}
			}
		}
	}
	return cnt
}

// chunt: replayed histories first, then the exhaustive directed family, then random histories.
func chunt(o Opts) {
	type res struct {
		Found      bool              `json:"found"`
		Failure    string            `json:"failure"`
		At         int               `json:"at"`
		CCase      *CCase            `json:"ccase,omitempty"`
		Tried      int               `json:"tried"`
		Exhaustive int               `json:"exhaustive_tried"`
		MaxDim     int               `json:"exhaustive_max_dim"`
		Known      map[string]string `json:"known"`
		Stream     *streamReport     `json:"stream,omitempty"`
	}
	r := res{Known: map[string]string{}}
	judge := func(c CCase) bool {
		r.Tried++
		f, _ := propCheckC(c)
		if f == "" {
			return false
		}
		if id := knownC(f); id != "" {
			if _, seen := r.Known[id]; !seen {
				s := shrinkC(c)
				f2, _ := propCheckC(s)
				if knownC(f2) == id {
					b, _ := json.Marshal(s.Ops)
					r.Known[id] = f2 + " | history: " + string(b)
				} else {
					r.Known[id] = f
				}
			}
			return false
		}
		s := shrinkC(c)
		f2, at := propCheckC(s)
		if f2 == "" || knownC(f2) != "" {
			s, f2, at = c, f, -1
			s.Outs = nil
		}
		r.Found, r.Failure, r.At, r.CCase = true, f2, at, &s
		return true
	}
	done := false
	if o.Replay != "" {
		if b, err := os.ReadFile(o.Replay); err == nil {
			var rp struct {
				CCases []CCase     `json:"ccases"`
				Stream *streamCase `json:"stream"`
			}
			json.Unmarshal(b, &rp)
			if rp.Stream != nil {
				r.Tried++
				if f := replayStream(*rp.Stream); f != "" {
					r.Found, r.Failure, r.At = true, f, -1
					sr := streamReport{Found: true, Failure: f, Witness: rp.Stream}
					r.Stream = &sr
					done = true
				}
			}
			for _, c := range rp.CCases {
				if done {
					break
				}
				c.Outs = nil
				if judge(c) {
					done = true
					break
				}
			}
		}
	}
	if !done && o.N > 0 {
		r.MaxDim = 4
		if o.Tier == "thorough" {
			r.MaxDim = 5
		}
		k := 0
		for n := 0; n <= r.MaxDim && !done; n++ {
			tn := typeNames[k%len(typeNames)]
			ctn := constTypeNames[k%len(constTypeNames)]
			k++
			r.Exhaustive += directedC(tn, ctn, n, func(c CCase) bool {
				if judge(c) {
					done = true
				}
				return done
			})
		}
	}
	if !done {
		rng := NewRng(o.Seed*31 + 49979687)
		for k := 0; k < o.N && !done; k++ {
			tn := typeNames[k%len(typeNames)]
			ctn := constTypeNames[(k/len(typeNames)+k)%len(constTypeNames)]
			c, _ := genCCase(rng.Split(), tn, ctn, nil)
			c.Outs = nil
			if judge(c) {
				done = true
			}
		}
	}
	if !done && o.N > 0 {
		sr := operandStream(o)
		r.Stream = &sr
	}
	b, _ := json.MarshalIndent(r, "", " ")
	os.MkdirAll(o.Out, 0755)
	os.WriteFile(o.Out+"/chunt.json", b, 0644)
}

// knownC: narrow match of a failure text against recorded findings of the unchanged library (none at
// HEAD: the ConstIteratorFrom restart was repaired by 1e92a33, a return of it is a plain failure)
func knownC(f string) string {
	return ""
}
func containsStr(s, sub string) bool {
	for i := 0; i+len(sub) <= len(s); i++ {
		if s[i:i+len(sub)] == sub {
			return true
		}
	}
	return false
}
