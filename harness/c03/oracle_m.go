// Property-level oracle for the matrix part of C03 (independent of the Coq
// model): plain float64 row-major lists with the textbook semantics next to
// the implementation; after every operation every matrix and vector — dense or
// sparse — must read exactly the shadow.  Two recorded findings are excluded
// narrowly (see known()): the value of a SPARSE MdotM receiver that held
// non-zero elements before the call (C03-MDOTM-STALE) and the result of a sparse
// Equals when the receiver is zero at a position where the operand is a non-zero
// value smaller than epsilon (C03-MEQ-ABSENT).
package main

import (
	"fmt"
	"math"
)

type mat struct {
	v    []float64
	n, m int
}
type mshadow struct {
	shadow
	SM []mat
	DM []mat
}

func (s *mshadow) getm(r Ref) *mat {
	if r.S {
		return &s.SM[r.H]
	}
	return &s.DM[r.H]
}
func (s *mshadow) hasm(r Ref) bool {
	if r.S {
		return r.H >= 0 && r.H < len(s.SM)
	}
	return r.H >= 0 && r.H < len(s.DM)
}
func (s *mshadow) hasv(r Ref) bool {
	if r.S {
		return r.H >= 0 && r.H < len(s.S)
	}
	return r.H >= 0 && r.H < len(s.D)
}

// skip: what must not be judged at this step (known findings)
type mskip struct {
	recv, payload bool
	joint         bool // MJoint: the payload is a visit sequence, judged by jointOracle
}

// jointOracle: the visit sequence of a.JointIterator(b) judged against the textbook contents of a and b
// (independent of the storage of b and of the model): strictly increasing positions inside the matrix;
// the values delivered are the elements there; an absent first scalar means a is zero there; every
// position where a or b is non-zero is visited.
func jointOracle(a, b *mat, p []int64) string {
	if len(p)%4 != 0 {
		return "malformed visit sequence"
	}
	seen := map[int]bool{}
	last := -1
	for q := 0; q+3 < len(p); q += 4 {
		k, has, v1, v2 := int(p[q]), p[q+1], p[q+2], p[q+3]
		if k < 0 || k >= len(a.v) {
			return fmt.Sprintf("visit of position %d outside the matrix", k)
		}
		if k <= last {
			return fmt.Sprintf("position %d visited after position %d (not strictly increasing)", k, last)
		}
		last = k
		seen[k] = true
		if has == 0 && a.v[k] != 0 {
			return fmt.Sprintf("position %d: no receiver scalar delivered although the receiver holds %v", k, a.v[k])
		}
		if has == 1 && float64(v1) != float64(code(a.v[k])) {
			return fmt.Sprintf("position %d: receiver value %d delivered, the element is %v", k, v1, a.v[k])
		}
		if float64(v2) != float64(code(b.v[k])) {
			return fmt.Sprintf("position %d: operand value %d delivered, the element is %v", k, v2, b.v[k])
		}
	}
	for k := range a.v {
		if (a.v[k] != 0 || b.v[k] != 0) && !seen[k] {
			return fmt.Sprintf("position %d (receiver %v, operand %v) is never visited", k, a.v[k], b.v[k])
		}
	}
	return ""
}

// number of dense r.MdotM(r, r) calls met by the oracle (known finding F-MDOTM-RR)
var knownRR int

func (s *mshadow) applyM(o MOp) (panics bool, payload []int64, ok bool, sk mskip) {
	ok = true
	if o.Op == "V" {
		panics, payload, ok = s.apply(*o.V)
		if o.V.Op == "NewS" && ok && !panics {
			// keep the numbering of sparse vectors aligned: nothing to do (values vectors are appended below)
		}
		return
	}
	intT := isIntType(s.tn)
	div := func(a, b float64) (float64, bool) {
		if intT {
			if b == 0 {
				return 0, false
			}
			return math.Trunc(a / b), true
		}
		if s.tn == "float32" || s.tn == "real32" {
			return float64(float32(a) / float32(b)), true
		}
		return a / b, true
	}
	addSM := func(m mat) {
		s.SM = append(s.SM, m)
		s.S = append(s.S, m.v) // the values vector IS the matrix storage: same slice
	}
	elem := func(r Ref, xs []Ref, f func(k int) (float64, bool)) {
		if !s.hasm(r) {
			ok = false
			return
		}
		for _, x := range xs {
			if !s.hasm(x) {
				ok = false
				return
			}
		}
		R := s.getm(r)
		for _, x := range xs {
			if X := s.getm(x); X.n != R.n || X.m != R.m {
				panics = true
				return
			}
		}
		for k := range R.v {
			v, fine := f(k)
			if !fine {
				panics = true
				return
			}
			R.v[k] = v
		}
	}
	switch o.Op {
	case "NewSM":
		v := make([]float64, int(o.N*o.M))
		for i, k := range o.L {
			if k < 0 || int(k) >= len(v) {
				panics = true
				return
			}
			if o.L2[i] != 0 {
				v[k] = float64(o.L2[i])
			}
		}
		addSM(mat{v, int(o.N), int(o.M)})
	case "NewDM":
		s.DM = append(s.DM, mat{f64s(o.L), int(o.N), int(o.M)})
	case "AsDenseM":
		if !s.hasm(o.MA) {
			ok = false
			return
		}
		a := s.getm(o.MA)
		s.DM = append(s.DM, mat{cpf(a.v), a.n, a.m})
	case "AsSparseM":
		if !s.hasm(o.MA) {
			ok = false
			return
		}
		a := s.getm(o.MA)
		addSM(mat{cpf(a.v), a.n, a.m})
	case "MSetAt":
		if !s.hasm(o.MR) {
			ok = false
			return
		}
		R := s.getm(o.MR)
		if o.I < 0 || int(o.I) >= len(R.v) {
			panics = true
			return
		}
		R.v[o.I] = float64(o.X)
	case "MopM":
		elem(o.MR, []Ref{o.MA, o.MB}, func(k int) (float64, bool) {
			a, b := s.getm(o.MA).v[k], s.getm(o.MB).v[k]
			switch o.F {
			case "Add":
				return a + b, true
			case "Sub":
				return a - b, true
			}
			return a * b, true
		})
	case "MdivM":
		elem(o.MR, []Ref{o.MA, o.MB}, func(k int) (float64, bool) { return div(s.getm(o.MA).v[k], s.getm(o.MB).v[k]) })
	case "MaddS":
		elem(o.MR, []Ref{o.MA}, func(k int) (float64, bool) { return s.getm(o.MA).v[k] + float64(o.X), true })
	case "MsubS":
		elem(o.MR, []Ref{o.MA}, func(k int) (float64, bool) { return s.getm(o.MA).v[k] - float64(o.X), true })
	case "MmulS":
		elem(o.MR, []Ref{o.MA}, func(k int) (float64, bool) { return s.getm(o.MA).v[k] * float64(o.X), true })
	case "MdivS":
		elem(o.MR, []Ref{o.MA}, func(k int) (float64, bool) { return div(s.getm(o.MA).v[k], float64(o.X)) })
	case "MSet":
		elem(o.MR, []Ref{o.MA}, func(k int) (float64, bool) { return s.getm(o.MA).v[k], true })
	case "MSetIdentity":
		if s.hasm(o.MR) {
			m := s.getm(o.MR).m
			elem(o.MR, nil, func(k int) (float64, bool) {
				if k/m == k%m {
					return 1, true
				}
				return 0, true
			})
		} else {
			ok = false
		}
	case "MReset":
		elem(o.MR, nil, func(k int) (float64, bool) { return 0, true })
	case "MEquals":
		if !s.hasm(o.MA) || !s.hasm(o.MB) {
			ok = false
			return
		}
		a, b := s.getm(o.MA), s.getm(o.MB)
		if a.n != b.n || a.m != b.m {
			panics = true
			return
		}
		r := int64(1)
		eps := float64(o.X) / 2
		for k := range a.v {
			if !(math.Abs(a.v[k]-b.v[k]) < eps) {
				r = 0
			}
		}
		if o.X <= 0 {
			sk.payload = true // epsilon <= 0 is outside the property's statement (see known())
		}
		payload = []int64{r}
	case "MJoint":
		if !o.MA.S || !s.hasm(o.MA) || !s.hasm(o.MB) {
			ok = false
			return
		}
		a, b := s.getm(o.MA), s.getm(o.MB)
		if a.n != b.n || a.m != b.m {
			panics = true
			return
		}
		sk.joint = true
	case "MdotM":
		if !s.hasm(o.MR) || !s.hasm(o.MA) || !s.hasm(o.MB) {
			ok = false
			return
		}
		R, A, B := s.getm(o.MR), s.getm(o.MA), s.getm(o.MB)
		if A.n != R.n || B.m != R.m || A.m != B.n {
			panics = true
			return
		}
		if len(R.v) == 0 || len(B.v) == 0 || (o.MR.S && len(A.v) == 0) {
			panics = true // storageLocation() of an empty matrix
			return
		}
		if o.MR.S && (o.MA == o.MR || o.MB == o.MR) {
			panics = true // "result and argument must be different matrices"
			return
		}
		if !o.MR.S && o.MA == o.MR && o.MB == o.MR {
			// known finding F-MDOTM-RR (listed under C08): dense r.MdotM(r, r) takes the column-buffered
			// schedule and overwrites columns of the left factor it still needs; not judged, the shadow
			// is resynchronised from the implementation
			sk.recv = true
			knownRR++
			return
		}
		res := make([]float64, len(R.v))
		for i := 0; i < R.n; i++ {
			for j := 0; j < R.m; j++ {
				t := 0.0
				for k := 0; k < A.m; k++ {
					t += A.v[i*A.m+k] * B.v[k*B.m+j]
				}
				res[i*R.m+j] = t
			}
		}
		copy(R.v, res)
	case "MOuter":
		if !s.hasm(o.MR) || !s.hasv(o.A) || !s.hasv(o.B) {
			ok = false
			return
		}
		R, a, b := s.getm(o.MR), s.get(o.A), s.get(o.B)
		if len(a) != R.n || len(b) != R.m {
			panics = true
			return
		}
		for i := range a {
			for j := range b {
				R.v[i*R.m+j] = a[i] * b[j]
			}
		}
	case "MdotV":
		if !s.hasv(o.R) || !s.hasm(o.MA) || !s.hasv(o.B) {
			ok = false
			return
		}
		r, A, b := s.get(o.R), s.getm(o.MA), s.get(o.B)
		if len(r) != A.n || len(b) != A.m {
			panics = true
			return
		}
		if A.n == 0 || A.m == 0 {
			return
		}
		if o.R == o.B {
			ok = false // aliasing of receiver and operand: not generated
			return
		}
		for i := range r {
			t := 0.0
			for j := range b {
				t += A.v[i*A.m+j] * b[j]
			}
			r[i] = t
		}
	case "VdotM":
		if !s.hasv(o.R) || !s.hasv(o.A) || !s.hasm(o.MB) {
			ok = false
			return
		}
		r, a, B := s.get(o.R), s.get(o.A), s.getm(o.MB)
		if len(r) != B.m || len(a) != B.n {
			panics = true
			return
		}
		if B.n == 0 || B.m == 0 {
			return
		}
		if o.R == o.A {
			ok = false
			return
		}
		for j := range r {
			t := 0.0
			for i := range a {
				t += a[i] * B.v[i*B.m+j]
			}
			r[j] = t
		}
	default:
		ok = false
	}
	return
}

// propCheckM: "" if the matrix history satisfies the property on the implementation
func propCheckM(c MCase) (fail string, at int) {
	w := &MWorld{World: World{Type: c.Type}}
	s := &mshadow{shadow: shadow{tn: c.Type}}
	for k, o := range c.Ops {
		panics, pay, ok, sk := s.applyM(o)
		if !ok {
			return "", -1
		}
		kind, p := w.execM(o)
		name := o.Op
		if o.V != nil {
			name = o.V.Op
		}
		if panics != (kind == K_PANIC) {
			return fmt.Sprintf("step %d %s: panic expected %v, observed kind %d", k, name, panics, kind), k
		}
		if sk.joint && kind == K_OK {
			if f := jointOracle(s.getm(o.MA), s.getm(o.MB), p); f != "" {
				return fmt.Sprintf("step %d JointIterator (receiver sparse, operand sparse=%v): %s", k, o.MB.S, f), k
			}
		}
		if pay != nil && kind == K_OK && !sk.payload && !eqList(pay, p) {
			return fmt.Sprintf("step %d %s: result %v, expected %v (receiver sparse=%v, operand sparse=%v)", k, name, p, pay, o.MA.S, o.MB.S), k
		}
		if len(w.SM) != len(s.SM) || len(w.DM) != len(s.DM) || len(w.S) != len(s.S) || len(w.D) != len(s.D) {
			return fmt.Sprintf("step %d %s: number of objects differs", k, name), k
		}
		resync := panics || sk.recv
		isRecvM := func(sparse bool, i int) bool {
			return resync && o.V == nil && o.MR.S == sparse && o.MR.H == i &&
				(o.Op != "MdotV" && o.Op != "VdotM" && o.Op != "MEquals" && o.Op != "MJoint")
		}
		isRecvV := func(sparse bool, i int) bool {
			if !resync {
				return false
			}
			if o.V != nil {
				return o.V.R.S == sparse && o.V.R.H == i
			}
			return (o.Op == "MdotV" || o.Op == "VdotM") && o.R.S == sparse && o.R.H == i
		}
		chkM := func(m interface {
			Dims() (int, int)
			Float64At(int, int) float64
		}, e mat, nm string) string {
			n, c := m.Dims()
			if n != e.n || c != e.m {
				return fmt.Sprintf("step %d %s: %s has shape %dx%d, expected %dx%d", k, name, nm, n, c, e.n, e.m)
			}
			for i := 0; i < n; i++ {
				for j := 0; j < c; j++ {
					if !eqF(float64(code(m.Float64At(i, j))), float64(code(e.v[i*c+j]))) {
						return fmt.Sprintf("step %d %s (r=%v a=%v b=%v): %s[%d,%d] = %v, expected %v", k, name, o.MR, o.MA, o.MB, nm, i, j, m.Float64At(i, j), e.v[i*c+j])
					}
				}
			}
			return ""
		}
		for i, m := range w.SM {
			if isRecvM(true, i) {
				// resynchronise the shadow with the receiver
				_, _, l := readM(m)
				for q, x := range l {
					s.SM[i].v[q] = float64(x)
				}
				continue
			}
			if f := chkM(m, s.SM[i], fmt.Sprintf("sparse matrix#%d", i)); f != "" {
				return f, k
			}
		}
		for i, m := range w.DM {
			if isRecvM(false, i) {
				_, _, l := readM(m)
				for q, x := range l {
					s.DM[i].v[q] = float64(x)
				}
				continue
			}
			if f := chkM(m, s.DM[i], fmt.Sprintf("dense matrix#%d", i)); f != "" {
				return f, k
			}
		}
		chkV := func(sparse bool, i int, l []float64) string {
			v := w.get(Ref{sparse, i})
			if isRecvV(sparse, i) {
				for q := range l {
					l[q] = v.Float64At(q)
				}
				return ""
			}
			if v.Dim() != len(l) {
				return fmt.Sprintf("step %d %s: vector dimension %d, expected %d", k, name, v.Dim(), len(l))
			}
			for q := range l {
				if !eqF(float64(code(v.Float64At(q))), float64(code(l[q]))) {
					return fmt.Sprintf("step %d %s: vector(sparse=%v)#%d[%d] = %v, expected %v", k, name, sparse, i, q, v.Float64At(q), l[q])
				}
			}
			return ""
		}
		for i := range w.S {
			if f := chkV(true, i, s.S[i]); f != "" {
				return f, k
			}
		}
		for i := range w.D {
			if f := chkV(false, i, s.D[i]); f != "" {
				return f, k
			}
		}
	}
	return "", -1
}

func shrinkM(c MCase) MCase {
	// cut after the failing step, then drop non-creating operations one at a time
	if _, at := propCheckM(c); at >= 0 && at+1 < len(c.Ops) {
		c.Ops = append([]MOp{}, c.Ops[:at+1]...)
	}
	creating := func(o MOp) bool {
		switch o.Op {
		case "NewSM", "NewDM", "AsDenseM", "AsSparseM":
			return true
		case "V":
			switch o.V.Op {
			case "NewS", "NewD", "AsDense", "AsSparse":
				return true
			}
		}
		return false
	}
	for changed := true; changed; {
		changed = false
		for k := len(c.Ops) - 2; k >= 0; k-- {
			if creating(c.Ops[k]) {
				continue
			}
			t := append(append([]MOp{}, c.Ops[:k]...), c.Ops[k+1:]...)
			if f, _ := propCheckM(MCase{Type: c.Type, Ops: t}); f != "" {
				c.Ops = t
				changed = true
			}
		}
	}
	return c
}
