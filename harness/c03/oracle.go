// Property-level oracle for C03 (independent of the Coq model): a shadow made
// of plain float64 lists is run next to the implementation with the textbook
// semantics of every operation (r[i] = a[i] op b[i], Set copies, Equals is the
// point-wise predicate, conversions keep every element, iteration of a sparse
// vector visits the non-zero positions ascending, of a dense vector all).
// After every operation every vector of the world — dense or sparse — must read
// (Float64At over all indices) exactly the shadow: results do not depend on the
// storage of receiver and operands nor on what the receiver held before.
// exhaustive(): all zero patterns of receiver and operands for dims <= 4, every
// op, every storage combination (+ explicit stored zeros), compared with each
// other.  Plus a delta-debugging shrinker.
package main

import (
	"encoding/json"
	"fmt"
	"math"
	"os"

	. "adharness/common"

	ad "github.com/pbenner/autodiff"
)

type shadow struct {
	tn string
	S  [][]float64
	D  [][]float64
}

func (s *shadow) get(r Ref) []float64 {
	if r.S {
		return s.S[r.H]
	}
	return s.D[r.H]
}
func (s *shadow) set(r Ref, l []float64) {
	if r.S {
		s.S[r.H] = l
	} else {
		s.D[r.H] = l
	}
}
func cpf(l []float64) []float64 { return append([]float64{}, l...) }
func eqF(a, b float64) bool     { return a == b || (math.IsNaN(a) && math.IsNaN(b)) }

// apply: expected outcome of o on the shadow.  panics: the call must panic
// (then the receiver may be left partly written: positions < upto are final).
func (s *shadow) apply(o Op) (panics bool, payload []int64, ok bool) {
	ok = true
	exists := func(r Ref) bool {
		if r.S {
			return r.H >= 0 && r.H < len(s.S)
		}
		return r.H >= 0 && r.H < len(s.D)
	}
	need := func(rs ...Ref) bool {
		for _, r := range rs {
			if !exists(r) {
				return false
			}
		}
		return true
	}
	tofl := func(l []int64) []float64 { return f64s(l) }
	intT := isIntType(s.tn)
	div := func(a, b float64) (float64, bool) {
		if intT {
			if b == 0 {
				return 0, false
			}
			return math.Trunc(a / b), true
		}
		if s.tn == "float32" || s.tn == "real32" {
			return float64(float32(a) / float32(b)), true
		}
		return a / b, true
	}
	elem := func(r Ref, xs []Ref, f func(i int) (float64, bool)) {
		if !need(append(xs, r)...) {
			ok = false
			return
		}
		n := len(s.get(r))
		for _, x := range xs {
			if len(s.get(x)) != n {
				panics = true
				return
			}
		}
		res := cpf(s.get(r))
		s.set(r, res) // r may alias an operand: write through, position by position
		for i := 0; i < n; i++ {
			v, fine := f(i)
			if !fine {
				panics = true
				return
			}
			res[i] = v
		}
	}
	switch o.Op {
	case "NewS":
		if len(o.L) != len(o.L2) {
			panics = true
			return
		}
		l := make([]float64, maxI(0, int(o.I)))
		seen := map[int64]bool{}
		for i, k := range o.L {
			if k >= o.I || k < 0 || seen[k] {
				panics = true
				return
			}
			if o.L2[i] != 0 {
				seen[k] = true
			}
			l[k] = float64(o.L2[i])
		}
		s.S = append(s.S, l)
	case "NewD":
		s.D = append(s.D, tofl(o.L))
	case "AsDense":
		if !need(o.A) {
			ok = false
			return
		}
		s.D = append(s.D, cpf(s.get(o.A)))
	case "AsSparse":
		if !need(o.A) {
			ok = false
			return
		}
		s.S = append(s.S, cpf(s.get(o.A)))
	case "SetAt":
		if !need(o.R) {
			ok = false
			return
		}
		l := s.get(o.R)
		if o.I < 0 || int(o.I) >= len(l) {
			panics = true
			return
		}
		l[o.I] = float64(o.X)
	case "VSet":
		elem(o.R, []Ref{o.A}, func(i int) (float64, bool) { return s.get(o.A)[i], true })
	case "VEquals":
		if !need(o.A, o.B) {
			ok = false
			return
		}
		a, b := s.get(o.A), s.get(o.B)
		if len(a) != len(b) {
			panics = true
			return
		}
		r := int64(1)
		for i := range a {
			if !(math.Abs(a[i]-b[i]) < float64(o.X)/2) {
				r = 0
			}
		}
		payload = []int64{r}
	case "VopV":
		elem(o.R, []Ref{o.A, o.B}, func(i int) (float64, bool) {
			a, b := s.get(o.A)[i], s.get(o.B)[i]
			switch o.F {
			case "Add":
				return a + b, true
			case "Sub":
				return a - b, true
			}
			return a * b, true
		})
	case "VdivV":
		elem(o.R, []Ref{o.A, o.B}, func(i int) (float64, bool) { return div(s.get(o.A)[i], s.get(o.B)[i]) })
	case "VaddS":
		elem(o.R, []Ref{o.A}, func(i int) (float64, bool) { return s.get(o.A)[i] + float64(o.X), true })
	case "VsubS":
		elem(o.R, []Ref{o.A}, func(i int) (float64, bool) { return s.get(o.A)[i] - float64(o.X), true })
	case "VmulS":
		elem(o.R, []Ref{o.A}, func(i int) (float64, bool) { return s.get(o.A)[i] * float64(o.X), true })
	case "VdivS":
		elem(o.R, []Ref{o.A}, func(i int) (float64, bool) { return div(s.get(o.A)[i], float64(o.X)) })
	case "VReset":
		elem(o.R, nil, func(i int) (float64, bool) { return 0, true })
	case "VIter":
		if !need(o.A) {
			ok = false
			return
		}
		payload = []int64{}
		for i, x := range s.get(o.A) {
			if x != 0 || !o.A.S {
				payload = append(payload, int64(i), code(x))
			}
		}
	default:
		ok = false
	}
	return
}
func maxI(a, b int) int {
	if a > b {
		return a
	}
	return b
}

func eqList(a, b []int64) bool {
	if len(a) != len(b) {
		return false
	}
	for i := range a {
		if a[i] != b[i] {
			return false
		}
	}
	return true
}

// propCheck: "" if the history satisfies the property on the implementation
func propCheck(c Case) (fail string, at int) {
	w := &World{Type: c.Type}
	s := &shadow{tn: c.Type}
	for k, o := range c.Ops {
		panics, pay, ok := s.apply(o)
		if !ok {
			return "", -1 // not a well-formed history (shrinker artefact)
		}
		kind, p := w.execOne(o)
		if panics != (kind == K_PANIC) {
			return fmt.Sprintf("step %d %s: panic expected %v, observed kind %d", k, o.Op, panics, kind), k
		}
		if o.Op == "VEquals" && o.X <= 0 {
			pay = nil // epsilon <= 0 is outside the property's statement: see known()
		}
		if pay != nil && kind == K_OK && !eqList(pay, p) {
			return fmt.Sprintf("step %d %s: result %v, expected %v (storage r=%v a=%v b=%v)", k, o.Op, p, pay, o.R, o.A, o.B), k
		}
		if len(w.S) != len(s.S) || len(w.D) != len(s.D) {
			return fmt.Sprintf("step %d %s: number of vectors differs", k, o.Op), k
		}
		chk := func(v interface {
			Dim() int
			Float64At(int) float64
		}, l []float64, name string) string {
			if v.Dim() != len(l) {
				return fmt.Sprintf("step %d %s: %s has dimension %d, expected %d", k, o.Op, name, v.Dim(), len(l))
			}
			for i := range l {
				x := code(v.Float64At(i))
				if x == C_PANIC || !eqF(float64(x), float64(code(l[i]))) {
					return fmt.Sprintf("step %d %s (r=%v a=%v b=%v): %s[%d] = %v, expected %v", k, o.Op, o.R, o.A, o.B, name, i, v.Float64At(i), l[i])
				}
			}
			return ""
		}
		for i, v := range w.S {
			if panics && o.R.S && o.R.H == i {
				continue // a panicking call may leave its receiver partly written
			}
			if f := chk(v, s.S[i], fmt.Sprintf("sparse#%d", i)); f != "" {
				return f, k
			}
		}
		for i, v := range w.D {
			if panics && !o.R.S && o.R.H == i {
				continue
			}
			if f := chk(v, s.D[i], fmt.Sprintf("dense#%d", i)); f != "" {
				return f, k
			}
		}
		if panics {
			// resynchronise the shadow with whatever the receiver holds now
			switch o.Op {
			case "VSet", "VopV", "VdivV", "VaddS", "VsubS", "VmulS", "VdivS":
				v := w.get(o.R)
				l := make([]float64, v.Dim())
				for i := range l {
					l[i] = v.Float64At(i)
				}
				s.set(o.R, l)
			}
		}
	}
	return "", -1
}

// ---------------------------------------------------------------- exhaustive

// build a vector holding l (0/1 pattern scaled by val) in the given storage:
// 0 dense, 1 sparse via constructor, 2 sparse with every position stored explicitly
func buildOps(l []int64, storage int, nS, nD *int) ([]Op, Ref) {
	switch storage {
	case 0:
		*nD++
		return []Op{{Op: "NewD", L: l}}, Ref{false, *nD - 1}
	case 1:
		ks, xs := []int64{}, []int64{}
		for i, x := range l {
			if x != 0 {
				ks = append(ks, int64(i))
				xs = append(xs, x)
			}
		}
		*nS++
		return []Op{{Op: "NewS", L: ks, L2: xs, I: int64(len(l))}}, Ref{true, *nS - 1}
	}
	*nD++
	*nS++
	return []Op{{Op: "NewD", L: l}, {Op: "AsSparse", A: Ref{false, *nD - 1}}}, Ref{true, *nS - 1}
}

type exOp struct {
	name string
	mk   func(r, a, b Ref) Op
	two  bool
}

var exOps = []exOp{
	{"VaddV", func(r, a, b Ref) Op { return Op{Op: "VopV", F: "Add", R: r, A: a, B: b} }, true},
	{"VsubV", func(r, a, b Ref) Op { return Op{Op: "VopV", F: "Sub", R: r, A: a, B: b} }, true},
	{"VmulV", func(r, a, b Ref) Op { return Op{Op: "VopV", F: "Mul", R: r, A: a, B: b} }, true},
	{"VdivV", func(r, a, b Ref) Op { return Op{Op: "VdivV", R: r, A: a, B: b} }, true},
	{"VaddS", func(r, a, b Ref) Op { return Op{Op: "VaddS", R: r, A: a, X: 3} }, false},
	{"VsubS", func(r, a, b Ref) Op { return Op{Op: "VsubS", R: r, A: a, X: 3} }, false},
	{"VmulS", func(r, a, b Ref) Op { return Op{Op: "VmulS", R: r, A: a, X: -2} }, false},
	{"VmulS0", func(r, a, b Ref) Op { return Op{Op: "VmulS", R: r, A: a, X: 0} }, false},
	{"VdivS", func(r, a, b Ref) Op { return Op{Op: "VdivS", R: r, A: a, X: 2} }, false},
	{"VSet", func(r, a, b Ref) Op { return Op{Op: "VSet", R: r, A: a} }, false},
	{"VEquals", func(r, a, b Ref) Op { return Op{Op: "VEquals", A: r, B: a, X: 1} }, false},
	{"VReset", func(r, a, b Ref) Op { return Op{Op: "VReset", R: r} }, false},
	{"AsDense", func(r, a, b Ref) Op { return Op{Op: "AsDense", A: r} }, false},
	{"AsSparse", func(r, a, b Ref) Op { return Op{Op: "AsSparse", A: r} }, false},
	{"VIter", func(r, a, b Ref) Op { return Op{Op: "VIter", A: r} }, false},
}

// exhaustive: every op x zero pattern of (r, a, b) x storage^3 for dims 0..maxDim.
// Returns the first failing history (and the number tried).
func exhaustive(tn string, maxDim int) (*Case, string, int) {
	tried := 0
	for _, e := range exOps {
		for n := 0; n <= maxDim; n++ {
			np := 1 << uint(n)
			for pr := 0; pr < np; pr++ {
				for pa := 0; pa < np; pa++ {
					nb := np
					if !e.two {
						nb = 1
					}
					for pb := 0; pb < nb; pb++ {
						lr, la, lb := make([]int64, n), make([]int64, n), make([]int64, n)
						for i := 0; i < n; i++ {
							if pr>>uint(i)&1 == 1 {
								lr[i] = 7
							}
							if pa>>uint(i)&1 == 1 {
								la[i] = int64(2 * (i + 1))
							}
							if pb>>uint(i)&1 == 1 {
								lb[i] = int64(i + 1)
							}
						}
						if e.name == "VdivV" {
							// divisor non-zero everywhere (the property's hypothesis); its
							// zero pattern becomes the pattern of +-1
							for i := 0; i < n; i++ {
								if lb[i] == 0 {
									lb[i] = -1
								}
							}
						}
						for st := 0; st < 27; st++ {
							sr, sa, sb := st%3, st/3%3, st/9
							if !e.two && sb != 0 {
								continue
							}
							nS, nD := 0, 0
							o1, r := buildOps(lr, sr, &nS, &nD)
							o2, a := buildOps(la, sa, &nS, &nD)
							ops := append(o1, o2...)
							var b Ref
							if e.two {
								o3, b3 := buildOps(lb, sb, &nS, &nD)
								ops = append(ops, o3...)
								b = b3
							}
							ops = append(ops, e.mk(r, a, b))
							c := Case{Type: tn, Ops: ops}
							tried++
							if f, _ := propCheck(c); f != "" {
								return &c, f, tried
							}
						}
					}
				}
			}
		}
	}
	return nil, "", tried
}

// ---------------------------------------------------------------- shrinking

func removeOp(ops []Op, k int) []Op {
	// removing a creating op renumbers the later handles
	o := ops[k]
	res := []Op{}
	creatS := o.Op == "NewS" || o.Op == "AsSparse"
	creatD := o.Op == "NewD" || o.Op == "AsDense"
	ns, nd := 0, 0
	for i := 0; i < k; i++ {
		switch ops[i].Op {
		case "NewS", "AsSparse":
			ns++
		case "NewD", "AsDense":
			nd++
		}
	}
	fix := func(r Ref) (Ref, bool) {
		if creatS && r.S {
			if r.H == ns {
				return r, false
			}
			if r.H > ns {
				r.H--
			}
		}
		if creatD && !r.S {
			if r.H == nd {
				return r, false
			}
			if r.H > nd {
				r.H--
			}
		}
		return r, true
	}
	for i, p := range ops {
		if i == k {
			continue
		}
		if i > k {
			var o1, o2, o3 bool
			p.R, o1 = fix(p.R)
			p.A, o2 = fix(p.A)
			p.B, o3 = fix(p.B)
			if !(o1 && o2 && o3) {
				uses := map[string]int{"SetAt": 1, "VSet": 3, "VEquals": 6, "VopV": 7, "VdivV": 7, "VaddS": 3, "VsubS": 3,
					"VmulS": 3, "VdivS": 3, "VReset": 1, "VIter": 2, "AsDense": 2, "AsSparse": 2}[p.Op]
				if (uses&1 != 0 && !o1) || (uses&2 != 0 && !o2) || (uses&4 != 0 && !o3) {
					return nil
				}
			}
		}
		res = append(res, p)
	}
	return res
}

func shrink(c Case) Case {
	fails := func(ops []Op) bool {
		if ops == nil {
			return false
		}
		f, _ := propCheck(Case{Type: c.Type, Ops: ops})
		return f != ""
	}
	// cut after the failing step
	if _, at := propCheck(c); at >= 0 && at+1 < len(c.Ops) {
		c.Ops = append([]Op{}, c.Ops[:at+1]...)
	}
	for changed := true; changed; {
		changed = false
		for k := len(c.Ops) - 2; k >= 0; k-- {
			if t := removeOp(c.Ops, k); fails(t) {
				c.Ops = t
				changed = true
			}
		}
	}
	return c
}

// ---------------------------------------------------------------- hunt

func hunt(o Opts) {
	type res struct {
		Found      bool   `json:"found"`
		Failure    string `json:"failure"`
		At         int    `json:"at"`
		Case       Case   `json:"case"`
		MCase      *MCase `json:"mcase,omitempty"`
		Tried      int    `json:"tried"`
		Exhaustive int    `json:"exhaustive_tried"`
		MaxDim     int    `json:"exhaustive_max_dim"`
	}
	var r res
	report := func(c Case) {
		c = shrink(c)
		f, at := propCheck(c)
		r.Found, r.Failure, r.At = true, f, at
		c.Outs = nil
		r.Case = c
	}
	reportM := func(c MCase) {
		c = shrinkM(c)
		f, at := propCheckM(c)
		r.Found, r.Failure, r.At = true, f, at
		c.Outs = nil
		r.MCase = &c
	}
	done := false
	if o.Replay != "" {
		if b, err := os.ReadFile(o.Replay); err == nil {
			var rp struct {
				Cases  []Case  `json:"cases"`
				MCases []MCase `json:"mcases"`
			}
			json.Unmarshal(b, &rp)
			for _, c := range rp.Cases {
				r.Tried++
				if f, _ := propCheck(c); f != "" {
					report(c)
					done = true
					break
				}
			}
			for _, c := range rp.MCases {
				if done {
					break
				}
				r.Tried++
				if f, _ := propCheckM(c); f != "" {
					reportM(c)
					done = true
				}
			}
		}
	}
	if !done && o.N > 0 {
		r.MaxDim = 3
		if o.Tier == "thorough" {
			r.MaxDim = 4
		}
		for _, tn := range []string{"float64", "int", "real64"} {
			md := r.MaxDim
			if tn != "float64" {
				md = 2
			}
			c, _, n := exhaustive(tn, md)
			r.Exhaustive += n
			if c != nil {
				report(*c)
				done = true
				break
			}
		}
	}
	if !done {
		rng := NewRng(o.Seed + 7919)
		for k := 0; k < o.N && !done; k++ {
			tn := typeNames[k%len(typeNames)]
			c, _ := genCase(rng.Split(), tn, nil)
			r.Tried++
			if f, _ := propCheck(c); f != "" {
				report(c)
				done = true
			}
		}
	}
	if !done && o.N > 0 {
		// the directed families first (stale receiver entries of MdotV/VdotM, interleaved joint walks, stored zeros)
		rng := NewRng(o.Seed*1000003 + 32452843)
		for k := 0; k < 270 && !done; k++ {
			c := genDirected(rng.Split(), typeNames[k%len(typeNames)], nil, k/len(typeNames))
			r.Tried++
			if f, _ := propCheckM(c); f != "" {
				reportM(c)
				done = true
			}
		}
	}
	if !done {
		rng := NewRng(o.Seed + 15485863)
		for k := 0; k < o.N/2 && !done; k++ {
			tn := typeNames[k%len(typeNames)]
			c, _ := genMCase(rng.Split(), tn, nil)
			r.Tried++
			if f, _ := propCheckM(c); f != "" {
				reportM(c)
				done = true
			}
		}
	}
	b, _ := json.MarshalIndent(r, "", " ")
	os.MkdirAll(o.Out, 0755)
	os.WriteFile(o.Out+"/hunt.json", b, 0644)
}

// ---------------------------------------------------------------- known findings

// known replays the witnesses of the recorded findings on the implementation.
func known(o Opts) {
	type kf struct {
		Id        string `json:"id"`
		Confirmed bool   `json:"confirmed"`
		Detail    string `json:"detail"`
	}
	out := []kf{}
	// no finding is recorded for C03 at HEAD.  (Equals with epsilon <= 0 is outside the
	// statement: the strict test |a-b| < epsilon fails even for equal elements, and only
	// the dense loop looks at positions where both operands are zero; the oracle does not
	// judge the result of such calls.  Found and fixed while building this check: sparse
	// MdotM accumulated onto the receiver (c117908), sparse matrix Equals (fc1915b).)
	// F-MDOTM-RR (listed under C08, referenced here): dense r.MdotM(r, r)
	func() {
		defer func() {
			if r := recover(); r != nil {
				out = append(out, kf{"F-MDOTM-RR", false, fmt.Sprintf("panic: %v", r)})
			}
		}()
		m := ad.NewDenseFloat64Matrix([]float64{1, 2, 3, 4}, 2, 2)
		m.MdotM(m, m)
		got := []float64{m.Float64At(0, 0), m.Float64At(0, 1), m.Float64At(1, 0), m.Float64At(1, 1)}
		wrong := got[0] != 7 || got[1] != 10 || got[2] != 15 || got[3] != 22
		out = append(out, kf{"F-MDOTM-RR", wrong, fmt.Sprintf("dense [[1,2],[3,4]].MdotM(self, self) = %v, the square is [7 10 15 22]", got)})
	}()
	b, _ := json.MarshalIndent(out, "", " ")
	os.MkdirAll(o.Out, 0755)
	os.WriteFile(o.Out+"/known.json", b, 0644)
}
