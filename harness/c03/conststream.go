// Storage-independence stream over EVERY operand container the operations accept
// (round 6): for one abstract call  r.Op(a, b)  on plain value lists, the
// implementation is run with the receiver stored as {dense, dense view, sparse,
// sparse slice} and each operand stored as {dense, dense view, sparse, sparse
// slice, const sparse, const ConstSlice view (middle / prefix, parent read by
// index before or after the view), the receiver itself}, and every result is
// compared element-wise with the all-fresh-dense run.  Matrix part: dense and
// sparse receivers with a SPARSE left / right operand that aliases nothing or is
// paired with the receiver itself as the other operand.  Values are small
// integers, exact in all nine element types.  A search, never the decision.
package main

import (
	"fmt"

	. "adharness/common"

	ad "github.com/pbenner/autodiff"
)

type streamReport struct {
	Trials      int            `json:"trials"`
	Runs        int            `json:"runs"`
	Comparisons int            `json:"elements_compared"`
	PerOp       map[string]int `json:"per_op"`
	PerKind     map[string]int `json:"per_operand_kind"`
	PerRecv     map[string]int `json:"per_receiver_kind"`
	Found       bool           `json:"found"`
	Failure     string         `json:"failure"`
	Witness     *streamCase    `json:"witness,omitempty"`
}

type streamCase struct {
	Type  string  `json:"type"`
	Op    string  `json:"op"`
	R0    []int64 `json:"r0"` // prior receiver content
	A     []int64 `json:"a"`
	B     []int64 `json:"b"`
	S     int64   `json:"s"`
	RKind string  `json:"rkind"`
	AKind string  `json:"akind"`
	BKind string  `json:"bkind"`
	Rows  int     `json:"rows,omitempty"` // matrix ops: a is rows x cols, row-major
	Cols  int     `json:"cols,omitempty"`
	Cols2 int     `json:"cols2,omitempty"`
}

var vecKinds = []string{"dense", "dense-view", "sparse", "sparse-slice", "const", "const-view-mid-viewfirst", "const-view-mid-parentfirst", "const-view-prefix", "const-warm"}
var recvKinds = []string{"dense", "dense-view", "sparse", "sparse-slice"}

func constTypeFor(tn string) string {
	switch tn {
	case "real64":
		return "float64"
	case "real32":
		return "float32"
	}
	return tn
}

// pad: l embedded in a longer list with non-zero neighbours
func pad(l []int64, left, right int) []int64 {
	r := make([]int64, 0, len(l)+left+right)
	for i := 0; i < left; i++ {
		r = append(r, int64(3+i))
	}
	r = append(r, l...)
	for i := 0; i < right; i++ {
		r = append(r, int64(-2-i))
	}
	return r
}
func sparseOf(tn string, l []int64, explicitZeros bool) ad.Vector {
	var ks, xs []int64
	for i, x := range l {
		if x != 0 {
			ks = append(ks, int64(i))
			xs = append(xs, x)
		}
	}
	v := newSparse(tn, ks, xs, len(l))
	if explicitZeros {
		for i, x := range l {
			if x == 0 && i%2 == 0 {
				v.At(i).SetFloat64(0)
			}
		}
	}
	return v
}
func constOf(tn string, l []int64) ad.ConstVector {
	var ks, xs []int64
	for i := len(l) - 1; i >= 0; i-- {
		if l[i] != 0 || i%3 == 0 {
			ks = append(ks, int64(i))
			xs = append(xs, l[i])
		}
	}
	return newConst(constTypeFor(tn), ks, xs, len(l), false)
}

// buildOperand: the value list l stored as the given container kind
func buildOperand(tn, kind string, l []int64) ad.ConstVector {
	n := len(l)
	switch kind {
	case "dense":
		return newDense(tn, l)
	case "dense-view":
		return newDense(tn, pad(l, 2, 1)).ConstSlice(2, 2+n)
	case "sparse":
		return sparseOf(tn, l, true)
	case "sparse-slice":
		return sparseOf(tn, pad(l, 2, 1), true).Slice(2, 2+n)
	case "const":
		return constOf(tn, l)
	case "const-warm":
		c := constOf(tn, l)
		if n > 0 {
			c.Float64At(n - 1)
		}
		return c
	case "const-view-mid-viewfirst", "const-view-mid-parentfirst":
		p := constOf(tn, pad(l, 2, 1))
		if kind == "const-view-mid-parentfirst" {
			p.Float64At(0)
		}
		v := p.ConstSlice(2, 2+n)
		if kind == "const-view-mid-viewfirst" {
			if n > 0 {
				v.Float64At(0)
			}
			p.Float64At(1)
		}
		return v
	case "const-view-prefix":
		p := constOf(tn, pad(l, 0, 3))
		v := p.ConstSlice(0, n)
		if n > 0 {
			v.ConstAt(n - 1)
		}
		p.ConstAt(n)
		return v
	}
	Die("unknown operand kind %s", kind)
	return nil
}
func buildRecv(tn, kind string, l []int64) ad.Vector {
	switch kind {
	case "dense", "dense-view", "sparse", "sparse-slice":
		return buildOperand(tn, kind, l).(ad.Vector)
	}
	Die("unknown receiver kind %s", kind)
	return nil
}

type streamOut struct {
	panicked bool
	vals     []int64
}

func readVec(v ad.ConstVector) []int64 {
	r := make([]int64, v.Dim())
	for i := range r {
		r[i] = code(v.Float64At(i))
	}
	return r
}

// runVecOp: one call; the receiver's elements (and the Equals / VdotV result) afterwards
func runVecOp(c streamCase, r ad.Vector, a, b ad.ConstVector, am, bm ad.ConstMatrix) (out streamOut) {
	defer func() {
		if e := recover(); e != nil {
			out = streamOut{panicked: true}
		}
	}()
	st := scalarType(c.Type)
	s := ad.NewScalar(st, float64(c.S))
	extra := []int64{}
	switch c.Op {
	case "VaddV":
		r.VaddV(a, b)
	case "VsubV":
		r.VsubV(a, b)
	case "VmulV":
		r.VmulV(a, b)
	case "VdivV":
		r.VdivV(a, b)
	case "VaddS":
		r.VaddS(a, s)
	case "VsubS":
		r.VsubS(a, s)
	case "VmulS":
		r.VmulS(a, s)
	case "VdivS":
		r.VdivS(a, s)
	case "Set":
		r.Set(a)
	case "Equals":
		type eq interface {
			Equals(ad.ConstVector, float64) bool
		}
		if a.(eq).Equals(b, 0.5) {
			extra = append(extra, 1)
		} else {
			extra = append(extra, 0)
		}
	case "VdotV":
		t := ad.NullScalar(st)
		t.VdotV(a, b)
		extra = append(extra, code(t.GetFloat64()))
	case "MdotV":
		r.MdotV(am, b)
	case "VdotM":
		r.VdotM(a, bm)
	default:
		Die("unknown stream op %s", c.Op)
	}
	return streamOut{vals: append(readVec(r), extra...)}
}

func denseMatrixOf(tn string, l []int64, rows, cols int) ad.Matrix {
	m := ad.NullDenseMatrix(scalarType(tn), rows, cols)
	for i := 0; i < rows; i++ {
		for j := 0; j < cols; j++ {
			if x := l[i*cols+j]; x != 0 {
				m.At(i, j).SetFloat64(float64(x))
			}
		}
	}
	return m
}
func matrixOf(tn, kind string, l []int64, rows, cols int) ad.Matrix {
	d := denseMatrixOf(tn, l, rows, cols)
	if kind == "sparse" {
		return ad.AsSparseMatrix(scalarType(tn), d)
	}
	return d
}
func readMat(m ad.ConstMatrix) []int64 {
	rows, cols := m.Dims()
	r := make([]int64, 0, rows*cols)
	for i := 0; i < rows; i++ {
		for j := 0; j < cols; j++ {
			r = append(r, code(m.Float64At(i, j)))
		}
	}
	return r
}
func runMatOp(c streamCase, r ad.Matrix, a, b ad.ConstMatrix) (out streamOut) {
	defer func() {
		if e := recover(); e != nil {
			out = streamOut{panicked: true}
		}
	}()
	s := ad.NewScalar(scalarType(c.Type), float64(c.S))
	switch c.Op {
	case "MaddM":
		r.MaddM(a, b)
	case "MsubM":
		r.MsubM(a, b)
	case "MmulM":
		r.MmulM(a, b)
	case "MdivM":
		r.MdivM(a, b)
	case "MdotM":
		r.MdotM(a, b)
	case "MaddS":
		r.MaddS(a, s)
	case "MmulS":
		r.MmulS(a, s)
	case "MSet":
		r.Set(a)
	default:
		Die("unknown stream matrix op %s", c.Op)
	}
	return streamOut{vals: readMat(r)}
}

func smallVals(r *Rng, n int, nonzero bool) []int64 {
	l, _ := pattern(r, n)
	if nonzero {
		for i := range l {
			if l[i] == 0 {
				l[i] = nz(r)
			}
		}
	}
	return l
}

var streamVecOps = []string{"VaddV", "VsubV", "VmulV", "VdivV", "VaddS", "VsubS", "VmulS", "VdivS", "Set", "Equals", "VdotV", "MdotV", "VdotM"}
var streamMatOps = []string{"MaddM", "MsubM", "MmulM", "MdivM", "MdotM", "MaddS", "MmulS", "MSet"}

// streamVecTrial: all receiver kinds x operand kinds for one abstract call
func streamVecTrial(c streamCase, rep *streamReport) (fail string, w *streamCase) {
	tn := c.Type
	mk := func(rk, ak, bk string) (ad.Vector, ad.ConstVector, ad.ConstVector, ad.ConstMatrix, ad.ConstMatrix) {
		r := buildRecv(tn, rk, c.R0)
		var a, b ad.ConstVector
		var am, bm ad.ConstMatrix
		switch c.Op {
		case "MdotV":
			am = matrixOf(tn, ak, c.A, c.Rows, c.Cols)
			b = buildOperand(tn, bk, c.B)
		case "VdotM":
			a = buildOperand(tn, ak, c.A)
			bm = matrixOf(tn, bk, c.B, c.Rows, c.Cols)
		default:
			if ak == "receiver" {
				a = r
			} else {
				a = buildOperand(tn, ak, c.A)
			}
			if bk == "receiver" {
				b = r
			} else {
				b = buildOperand(tn, bk, c.B)
			}
		}
		return r, a, b, am, bm
	}
	r, a, b, am, bm := mk("dense", "dense", "dense")
	ref := runVecOp(c, r, a, b, am, bm)
	aks, bks := vecKinds, vecKinds
	switch c.Op {
	case "MdotV":
		aks = []string{"dense", "sparse"}
	case "VdotM":
		bks = []string{"dense", "sparse"}
	case "VaddS", "VsubS", "VmulS", "VdivS", "Set":
		bks = []string{"dense"}
	}
	rks := recvKinds
	if c.Op == "Equals" || c.Op == "VdotV" {
		rks = []string{"dense"}
	}
	for _, rk := range rks {
		for _, ak := range aks {
			for _, bk := range bks {
				r, a, b, am, bm := mk(rk, ak, bk)
				got := runVecOp(c, r, a, b, am, bm)
				rep.Runs++
				rep.PerKind[ak]++
				rep.PerKind[bk]++
				rep.PerRecv[rk]++
				rep.Comparisons += len(ref.vals)
				if got.panicked != ref.panicked || !eqList(got.vals, ref.vals) {
					x := c
					x.RKind, x.AKind, x.BKind = rk, ak, bk
					return fmt.Sprintf("%s %s: receiver %s (prior %v), a = %v stored as %s, b = %v stored as %s, s = %d: result %v (panic %v), all-dense result %v (panic %v)",
						tn, c.Op, rk, c.R0, c.A, ak, c.B, bk, c.S, got.vals, got.panicked, ref.vals, ref.panicked), &x
				}
			}
		}
	}
	return "", nil
}

// streamAliasTrial: the receiver itself as an operand (r = a, r = b), every receiver kind, the other
// operand in every container kind; reference: fresh dense copies
func streamAliasTrial(c streamCase, rep *streamReport) (fail string, w *streamCase) {
	tn := c.Type
	for _, which := range []string{"a", "b"} {
		x := c
		if which == "a" {
			x.A = c.R0
		} else {
			x.B = c.R0
		}
		ref := runVecOp(x, newDense(tn, x.R0), newDense(tn, x.A), newDense(tn, x.B), nil, nil)
		for _, rk := range recvKinds {
			for _, ok := range vecKinds {
				r := buildRecv(tn, rk, x.R0)
				var a, b ad.ConstVector = r, r
				if which == "a" {
					b = buildOperand(tn, ok, x.B)
					x.AKind, x.BKind = "receiver", ok
				} else {
					a = buildOperand(tn, ok, x.A)
					x.AKind, x.BKind = ok, "receiver"
				}
				x.RKind = rk
				got := runVecOp(x, r, a, b, nil, nil)
				rep.Runs++
				rep.PerKind["receiver"]++
				rep.PerKind[ok]++
				rep.PerRecv[rk]++
				rep.Comparisons += len(ref.vals)
				if got.panicked != ref.panicked || !eqList(got.vals, ref.vals) {
					y := x
					return fmt.Sprintf("%s %s with the receiver as operand %s: receiver %s = %v, other operand %v stored as %s: result %v (panic %v), fresh-dense result %v (panic %v)",
						tn, c.Op, which, rk, x.R0, map[bool][]int64{true: x.B, false: x.A}[which == "a"], ok, got.vals, got.panicked, ref.vals, ref.panicked), &y
				}
			}
		}
	}
	return "", nil
}

// streamMatTrial: dense / sparse receiver, operands dense / sparse / the receiver itself
func streamMatTrial(c streamCase, rep *streamReport) (fail string, w *streamCase) {
	tn := c.Type
	rows, cols := c.Rows, c.Cols
	rr, rc := rows, cols
	br, bc := rows, cols
	if c.Op == "MdotM" {
		br, bc = cols, c.Cols2
		rc = c.Cols2
	}
	kinds := []string{"dense", "sparse", "receiver"}
	for _, rk := range []string{"dense", "sparse"} {
		for _, ak := range kinds {
			for _, bk := range kinds {
				x := c
				if ak == "receiver" {
					if c.Op == "MdotM" && !(rr == rows && rc == cols) {
						continue
					}
					x.A = c.R0
				}
				if bk == "receiver" {
					if c.Op == "MdotM" && !(rr == br && rc == bc) {
						continue
					}
					x.B = c.R0
				}
				if c.Op == "MdotM" && (ak == "receiver" || bk == "receiver") {
					continue // rejected by the sparse code, known finding F-MDOTM-RR for dense r.MdotM(r, r)
				}
				if c.Op == "MdivM" && (ak == "receiver" || bk == "receiver") {
					continue // exact quotients are not kept under aliasing
				}
				ref := runMatOp(x, denseMatrixOf(tn, x.R0, rr, rc), denseMatrixOf(tn, x.A, rows, cols), denseMatrixOf(tn, x.B, br, bc))
				r := matrixOf(tn, rk, x.R0, rr, rc)
				var a, b ad.ConstMatrix = r, r
				if ak != "receiver" {
					a = matrixOf(tn, ak, x.A, rows, cols)
				}
				if bk != "receiver" {
					b = matrixOf(tn, bk, x.B, br, bc)
				}
				got := runMatOp(x, r, a, b)
				rep.Runs++
				rep.PerKind["matrix-"+ak]++
				rep.PerKind["matrix-"+bk]++
				rep.PerRecv["matrix-"+rk]++
				rep.Comparisons += len(ref.vals)
				if got.panicked != ref.panicked || !eqList(got.vals, ref.vals) {
					x.RKind, x.AKind, x.BKind = rk, ak, bk
					return fmt.Sprintf("%s %s (%dx%d): receiver %s (prior %v), a = %v stored as %s, b = %v stored as %s, s = %d: result %v (panic %v), all-dense result %v (panic %v)",
						tn, c.Op, rows, cols, rk, x.R0, x.A, ak, x.B, bk, c.S, got.vals, got.panicked, ref.vals, ref.panicked), &x
				}
			}
		}
	}
	return "", nil
}

func drawStreamCase(r *Rng, tn, op string) streamCase {
	c := streamCase{Type: tn, Op: op}
	isInt := isIntType(tn)
	n := r.Range(0, 7)
	if r.Intn(6) > 0 && n == 0 {
		n = r.Range(1, 7)
	}
	c.R0 = smallVals(r, n, false)
	c.A = smallVals(r, n, false)
	c.B = smallVals(r, n, false)
	c.S = int64(r.Range(-4, 4))
	switch op {
	case "VdivV":
		c.B = smallVals(r, n, true)
		for i := range c.A {
			c.A[i] = c.B[i] * int64(r.Range(-3, 3))
		}
	case "VdivS":
		c.S = int64([]int{1, -1, 2, -2, 4}[r.Intn(5)])
		if !isInt {
			for i := range c.A {
				c.A[i] *= c.S
			}
		}
	case "Equals":
		if r.Bool() {
			c.B = append([]int64{}, c.A...)
			if n > 0 && r.Bool() {
				c.B[r.Intn(n)] += int64(r.Range(0, 1))
			}
		}
	case "MdotV":
		c.Rows, c.Cols = n, r.Range(1, 5)
		if n == 0 {
			c.Rows = 1
			c.R0 = smallVals(r, 1, false)
		}
		c.A = smallVals(r, c.Rows*c.Cols, false)
		c.B = smallVals(r, c.Cols, false)
	case "VdotM":
		c.Rows, c.Cols = r.Range(1, 5), n
		if n == 0 {
			c.Cols = 1
			c.R0 = smallVals(r, 1, false)
		}
		c.A = smallVals(r, c.Rows, false)
		c.B = smallVals(r, c.Rows*c.Cols, false)
	}
	return c
}
func drawStreamMat(r *Rng, tn, op string) streamCase {
	c := streamCase{Type: tn, Op: op}
	c.Rows, c.Cols = r.Range(1, 4), r.Range(1, 4)
	c.Cols2 = c.Cols
	c.S = int64(r.Range(-3, 3))
	nel := c.Rows * c.Cols
	c.A = smallVals(r, nel, false)
	c.B = smallVals(r, nel, false)
	c.R0 = smallVals(r, nel, false)
	switch op {
	case "MdivM":
		c.B = smallVals(r, nel, true)
		for i := range c.A {
			c.A[i] = c.B[i] * int64(r.Range(-3, 3))
		}
	case "MdotM":
		c.Cols2 = r.Range(1, 4)
		c.B = smallVals(r, c.Cols*c.Cols2, false)
		c.R0 = smallVals(r, c.Rows*c.Cols2, false)
		for i := range c.A { // keep int8 exact
			c.A[i] %= 4
		}
		for i := range c.B {
			c.B[i] %= 4
		}
	}
	return c
}

func operandStream(o Opts) streamReport {
	rep := streamReport{PerOp: map[string]int{}, PerKind: map[string]int{}, PerRecv: map[string]int{}}
	rng := NewRng(o.Seed*131 + 86028121)
	trials := 600
	if o.Tier == "thorough" {
		trials = 6000
	}
	for k := 0; k < trials && !rep.Found; k++ {
		tn := typeNames[k%len(typeNames)]
		r := rng.Split()
		var fail string
		var w *streamCase
		switch k % 4 {
		case 0, 1:
			op := streamVecOps[(k/4+k/2)%len(streamVecOps)]
			c := drawStreamCase(r, tn, op)
			rep.PerOp[op]++
			fail, w = streamVecTrial(c, &rep)
		case 2:
			op := []string{"VaddV", "VsubV", "VmulV", "VaddS", "VsubS", "VmulS", "Set"}[(k/4)%7]
			c := drawStreamCase(r, tn, op)
			rep.PerOp[op+"(alias)"]++
			fail, w = streamAliasTrial(c, &rep)
		case 3:
			op := streamMatOps[(k/4)%len(streamMatOps)]
			c := drawStreamMat(r, tn, op)
			rep.PerOp[op]++
			fail, w = streamMatTrial(c, &rep)
		}
		rep.Trials++
		if fail != "" {
			rep.Found, rep.Failure, rep.Witness = true, fail, w
		}
	}
	return rep
}

// replayStream re-runs one recorded witness (all container combinations of its abstract call)
func replayStream(c streamCase) string {
	rep := streamReport{PerOp: map[string]int{}, PerKind: map[string]int{}, PerRecv: map[string]int{}}
	for _, op := range streamMatOps {
		if op == c.Op {
			f, _ := streamMatTrial(c, &rep)
			return f
		}
	}
	if c.AKind == "receiver" || c.BKind == "receiver" {
		// the alias trial overwrites the aliased operand by R0 itself
		f, _ := streamAliasTrial(c, &rep)
		return f
	}
	f, _ := streamVecTrial(c, &rep)
	return f
}
