// C03 harness, round 7: multi-step VIEW / HANDLE / ALIAS sequences, Go-level differential run
// (`--extra vhunt`).  One abstract program (a list of steps over named objects) is executed once
// per storage (all objects dense | all sparse | all sparse with every zero stored explicitly); every
// `read` step observes all elements of an object; the observation lists of the sparse runs must equal
// those of the dense twin, and — where the program states it — the expected list.
//
// Two families (the quantifier's "every prior receiver content / storage combination", for objects
// that SHARE scalars):
//
//	set-alias   r.Set(a) and element-wise operations on matrices (and vectors) whose operand IS the
//	            receiver or a full-range Slice / ConstSlice view of it (the receiver may be the view):
//	            a.Set(a) leaves a unchanged; p.Set(view of a) copies a.
//	reset-view  handles (At(i), At(i,j)) and views (Slice, ConstSlice, ConstRow, T(), matrix Slice,
//	            AsVector()) are taken FIRST, then the parent (or a view) is Reset, then the views are
//	            read / used as operands and the handles are written through: a Reset zeroes the stored
//	            scalars, it does not detach them (dense twin: shared backing array).
//
// Only entries that exist when a view is taken are shared by sparse views, so the generator creates
// entries (handles) before views and never creates entries afterwards.
package main

import (
	"encoding/json"
	"fmt"
	"os"
	"strings"

	. "adharness/common"

	ad "github.com/pbenner/autodiff"
)

type VStep struct {
	Op   string  `json:"op"`
	Dst  string  `json:"dst,omitempty"`
	Src  string  `json:"src,omitempty"`
	Src2 string  `json:"src2,omitempty"`
	I    int     `json:"i,omitempty"`
	J    int     `json:"j,omitempty"`
	I2   int     `json:"i2,omitempty"`
	J2   int     `json:"j2,omitempty"`
	X    int64   `json:"x,omitempty"`
	L    []int64 `json:"expect,omitempty"`
}

type VSeq struct {
	Type  string  `json:"type"`
	Class string  `json:"class"`
	V     []int64 `json:"v"` // vector "v"
	W     []int64 `json:"w"` // vector "w"
	Rows  int     `json:"rows"`
	Cols  int     `json:"cols"`
	M     []int64 `json:"m"` // matrix "m", row-major
	P     []int64 `json:"p"` // matrix "p", same shape
	Steps []VStep `json:"steps"`
}

var vStorages = []string{"dense", "sparse", "sparse-explicit-zeros"}

const vPanic = int64(-77777)

func vBuildVec(tn, storage string, l []int64) ad.Vector {
	st := scalarType(tn)
	if storage == "dense" {
		v := ad.NullDenseVector(st, len(l))
		for i, x := range l {
			if x != 0 {
				v.At(i).SetFloat64(float64(x))
			}
		}
		return v
	}
	v := ad.NullSparseVector(st, len(l))
	for i, x := range l {
		if x != 0 || storage == "sparse-explicit-zeros" {
			v.At(i).SetFloat64(float64(x))
		}
	}
	return v
}
func vBuildMat(tn, storage string, l []int64, rows, cols int) ad.Matrix {
	st := scalarType(tn)
	var m ad.Matrix
	if storage == "dense" {
		m = ad.NullDenseMatrix(st, rows, cols)
	} else {
		m = ad.NullSparseMatrix(st, rows, cols)
	}
	for i := 0; i < rows; i++ {
		for j := 0; j < cols; j++ {
			if x := l[i*cols+j]; x != 0 || storage == "sparse-explicit-zeros" {
				m.At(i, j).SetFloat64(float64(x))
			}
		}
	}
	return m
}

func vRead(x interface{}) []int64 {
	switch o := x.(type) {
	case ad.ConstMatrix:
		return readMat(o)
	case ad.ConstVector:
		return readVec(o)
	case ad.ConstScalar:
		return []int64{code(o.GetFloat64())}
	}
	panic("read: no such object")
}

// vRun executes the program in one storage; the result has one list per `read` step (index = step)
func vRun(c VSeq, storage string) map[int][]int64 {
	obj := map[string]interface{}{}
	obj["v"] = vBuildVec(c.Type, storage, c.V)
	obj["w"] = vBuildVec(c.Type, storage, c.W)
	if c.Rows > 0 && c.Cols > 0 {
		obj["m"] = vBuildMat(c.Type, storage, c.M, c.Rows, c.Cols)
		obj["p"] = vBuildMat(c.Type, storage, c.P, c.Rows, c.Cols)
	}
	out := map[int][]int64{}
	for k, s := range c.Steps {
		func() {
			defer func() {
				if e := recover(); e != nil {
					out[k] = []int64{vPanic}
				}
			}()
			switch s.Op {
			case "slice":
				obj[s.Dst] = obj[s.Src].(ad.Vector).Slice(s.I, s.J)
			case "cslice":
				obj[s.Dst] = obj[s.Src].(ad.ConstVector).ConstSlice(s.I, s.J)
			case "at":
				obj[s.Dst] = obj[s.Src].(ad.Vector).At(s.I)
			case "mat":
				obj[s.Dst] = obj[s.Src].(ad.Matrix).At(s.I, s.J)
			case "crow":
				obj[s.Dst] = obj[s.Src].(ad.ConstMatrix).ConstRow(s.I)
			case "T":
				obj[s.Dst] = obj[s.Src].(ad.Matrix).T()
			case "mslice":
				obj[s.Dst] = obj[s.Src].(ad.Matrix).Slice(s.I, s.J, s.I2, s.J2)
			case "mcslice":
				obj[s.Dst] = obj[s.Src].(ad.ConstMatrix).ConstSlice(s.I, s.J, s.I2, s.J2)
			case "asvec":
				obj[s.Dst] = obj[s.Src].(ad.Matrix).AsVector()
			case "reset":
				switch o := obj[s.Src].(type) {
				case ad.Matrix:
					o.Reset()
				case ad.Vector:
					o.Reset()
				case ad.Scalar:
					o.Reset()
				default:
					panic("reset: no such object")
				}
			case "setf":
				obj[s.Src].(ad.Scalar).SetFloat64(float64(s.X))
			case "set":
				switch o := obj[s.Dst].(type) {
				case ad.Matrix:
					o.Set(obj[s.Src].(ad.ConstMatrix))
				case ad.Vector:
					o.Set(obj[s.Src].(ad.ConstVector))
				default:
					panic("set: no such receiver")
				}
			case "VaddV":
				obj[s.Dst].(ad.Vector).VaddV(obj[s.Src].(ad.ConstVector), obj[s.Src2].(ad.ConstVector))
			case "VsubV":
				obj[s.Dst].(ad.Vector).VsubV(obj[s.Src].(ad.ConstVector), obj[s.Src2].(ad.ConstVector))
			case "VmulV":
				obj[s.Dst].(ad.Vector).VmulV(obj[s.Src].(ad.ConstVector), obj[s.Src2].(ad.ConstVector))
			case "MaddM":
				obj[s.Dst].(ad.Matrix).MaddM(obj[s.Src].(ad.ConstMatrix), obj[s.Src2].(ad.ConstMatrix))
			case "MsubM":
				obj[s.Dst].(ad.Matrix).MsubM(obj[s.Src].(ad.ConstMatrix), obj[s.Src2].(ad.ConstMatrix))
			case "MmulM":
				obj[s.Dst].(ad.Matrix).MmulM(obj[s.Src].(ad.ConstMatrix), obj[s.Src2].(ad.ConstMatrix))
			case "read":
				out[k] = vRead(obj[s.Src])
			default:
				panic("unknown step")
			}
		}()
	}
	return out
}

// vCheck: "" if every storage agrees with the dense twin (and with the stated expectations)
func vCheck(c VSeq, cmp *int) string { return vCheckE(c, cmp, true) }
func vCheckE(c VSeq, cmp *int, useExpect bool) string {
	ref := vRun(c, "dense")
	for _, st := range vStorages {
		got := ref
		if st != "dense" {
			got = vRun(c, st)
		}
		for k, s := range c.Steps {
			g, okg := got[k]
			d, okd := ref[k]
			if okg != okd || !eqList(g, d) {
				return fmt.Sprintf("%s %s: step %d (%s %s%s) on the %s objects gives %v, on the dense twin %v", c.Class, c.Type, k, s.Op, s.Dst+" ", s.Src, st, g, d)
			}
			if cmp != nil {
				*cmp += len(g)
			}
			if useExpect && s.Op == "read" && s.L != nil && !eqList(g, s.L) {
				return fmt.Sprintf("%s %s: step %d (read %s) on the %s objects gives %v, expected %v", c.Class, c.Type, k, s.Src, st, g, s.L)
			}
		}
	}
	return ""
}

// vClean: no step panics on the dense twin (a shrunk program must not fail for a new reason)
func vClean(c VSeq) bool {
	for _, l := range vRun(c, "dense") {
		if len(l) == 1 && l[0] == vPanic {
			return false
		}
	}
	return true
}

func vShrink(c VSeq) VSeq {
	if vCheckE(c, nil, false) == "" {
		return c // fails against the generator's expectation only: dropping steps would invalidate it
	}
	for changed := true; changed; {
		changed = false
		for i := len(c.Steps) - 1; i >= 0; i-- {
			t := c
			t.Steps = append(append([]VStep{}, c.Steps[:i]...), c.Steps[i+1:]...)
			if vCheckE(t, nil, false) != "" && vClean(t) {
				c, changed = t, true
			}
		}
	}
	return c
}

// ---------------------------------------------------------------- generators

func vVals(r *Rng, n int) []int64 {
	l, _ := pattern(r, n)
	some := false
	for i := range l {
		if l[i] > 5 || l[i] < -5 {
			l[i] = l[i] % 5
		}
		if l[i] != 0 {
			some = true
		}
	}
	if !some && n > 0 {
		l[r.Intn(n)] = int64(1 + r.Intn(4))
	}
	return l
}
func zeros(n int) []int64 { return make([]int64, n) }

// all set-alias programs for one matrix / vector content
func vSetAliasDirected(tn string, r *Rng, each func(VSeq) bool) {
	rows, cols := 1+r.Intn(3), 1+r.Intn(3)
	n := 1 + r.Intn(5)
	M, P, V, W := vVals(r, rows*cols), vVals(r, rows*cols), vVals(r, n), vVals(r, n)
	views := []VStep{
		{Op: "mslice", Dst: "fs", Src: "m", I: 0, J: rows, I2: 0, J2: cols},
		{Op: "mcslice", Dst: "fc", Src: "m", I: 0, J: rows, I2: 0, J2: cols},
		{Op: "slice", Dst: "vs", Src: "v", I: 0, J: n},
		{Op: "cslice", Dst: "vc", Src: "v", I: 0, J: n}}
	for _, rcv := range []string{"m", "fs"} {
		for _, a := range []string{"m", "fs", "fc"} {
			c := VSeq{Type: tn, Class: "set-alias", V: V, W: W, Rows: rows, Cols: cols, M: M, P: P}
			c.Steps = append(append([]VStep{}, views...),
				VStep{Op: "set", Dst: rcv, Src: a},
				VStep{Op: "read", Src: "m", L: M}, VStep{Op: "read", Src: "fs", L: M}, VStep{Op: "read", Src: "fc", L: M},
				VStep{Op: "set", Dst: "p", Src: a},
				VStep{Op: "read", Src: "p", L: M}, VStep{Op: "read", Src: "m", L: M})
			if each(c) {
				return
			}
		}
	}
	for _, rcv := range []string{"v", "vs"} {
		for _, a := range []string{"v", "vs", "vc"} {
			c := VSeq{Type: tn, Class: "set-alias", V: V, W: W, Rows: rows, Cols: cols, M: M, P: P}
			c.Steps = append(append([]VStep{}, views...),
				VStep{Op: "set", Dst: rcv, Src: a},
				VStep{Op: "read", Src: "v", L: V}, VStep{Op: "read", Src: "vs", L: V}, VStep{Op: "read", Src: "vc", L: V},
				VStep{Op: "set", Dst: "w", Src: a},
				VStep{Op: "read", Src: "w", L: V}, VStep{Op: "read", Src: "v", L: V})
			if each(c) {
				return
			}
		}
	}
}

func vApply(f string, a, b []int64) []int64 {
	o := make([]int64, len(a))
	for i := range a {
		switch f[1:4] {
		case "add":
			o[i] = a[i] + b[i]
		case "sub":
			o[i] = a[i] - b[i]
		default:
			o[i] = a[i] * b[i]
		}
	}
	return o
}

// element-wise operation whose operands alias the receiver (itself or through full-range views)
func vOpAliasRandom(tn string, r *Rng) VSeq {
	rows, cols := 1+r.Intn(3), 1+r.Intn(3)
	n := 1 + r.Intn(5)
	c := VSeq{Type: tn, Class: "set-alias", V: vVals(r, n), W: vVals(r, n), Rows: rows, Cols: cols,
		M: vVals(r, rows*cols), P: vVals(r, rows*cols)}
	c.Steps = []VStep{
		{Op: "mslice", Dst: "fs", Src: "m", I: 0, J: rows, I2: 0, J2: cols},
		{Op: "mcslice", Dst: "fc", Src: "m", I: 0, J: rows, I2: 0, J2: cols},
		{Op: "slice", Dst: "vs", Src: "v", I: 0, J: n},
		{Op: "cslice", Dst: "vc", Src: "v", I: 0, J: n}}
	val := func(x string) []int64 {
		switch x {
		case "p":
			return c.P
		case "w":
			return c.W
		case "v", "vs", "vc":
			return c.V
		}
		return c.M
	}
	if r.Intn(3) > 0 {
		f := []string{"MaddM", "MsubM", "MmulM"}[r.Intn(3)]
		rcv := []string{"m", "fs"}[r.Intn(2)]
		ops := []string{"m", "fs", "fc", "p"}
		a, b := ops[r.Intn(4)], ops[r.Intn(4)]
		if a == "p" && b == "p" {
			a = "m"
		}
		e := vApply(f, val(a), val(b))
		c.Steps = append(c.Steps, VStep{Op: f, Dst: rcv, Src: a, Src2: b},
			VStep{Op: "read", Src: "m", L: e}, VStep{Op: "read", Src: "fs", L: e}, VStep{Op: "read", Src: "fc", L: e},
			VStep{Op: "read", Src: "p", L: c.P},
			VStep{Op: "set", Dst: "p", Src: []string{"fs", "fc", "m"}[r.Intn(3)]}, VStep{Op: "read", Src: "p", L: e})
	} else {
		f := []string{"VaddV", "VsubV", "VmulV"}[r.Intn(3)]
		// (a sparse vector Slice is a reference for EXISTING entries only, C11-SLICEWT: never a receiver here)
		rcv := "v"
		ops := []string{"v", "vs", "vc", "w"}
		a, b := ops[r.Intn(4)], ops[r.Intn(4)]
		if a == "w" && b == "w" {
			a = "v"
		}
		e := vApply(f, val(a), val(b))
		c.Steps = append(c.Steps, VStep{Op: f, Dst: rcv, Src: a, Src2: b},
			VStep{Op: "read", Src: "v", L: e},
			// views taken BEFORE the operation do not follow entries created by it (C11-SLICEWT): fresh ones
			VStep{Op: "slice", Dst: "vs2", Src: "v", I: 0, J: n}, VStep{Op: "cslice", Dst: "vc2", Src: "v", I: 0, J: n},
			VStep{Op: "read", Src: "vs2", L: e}, VStep{Op: "read", Src: "vc2", L: e},
			VStep{Op: "read", Src: "w", L: c.W},
			VStep{Op: "set", Dst: "w", Src: []string{"vs2", "vc2", "v"}[r.Intn(3)]}, VStep{Op: "read", Src: "w", L: e})
	}
	return c
}

// handles and views first, then Reset, then reads / operand use / writes through the handles
func vResetViewRandom(tn string, r *Rng) VSeq {
	c := VSeq{Type: tn, Class: "reset-view"}
	if r.Bool() {
		n := 1 + r.Intn(6)
		c.V = vVals(r, n)
		i := r.Intn(n + 1)
		j := i + r.Intn(n-i+1)
		if r.Intn(3) == 0 {
			i, j = 0, n
		}
		c.W = vVals(r, j-i)
		hs := []int{}
		for t := r.Intn(3); t > 0; t-- {
			k := r.Intn(n)
			c.Steps = append(c.Steps, VStep{Op: "at", Dst: fmt.Sprintf("h%d", len(hs)), Src: "v", I: k})
			hs = append(hs, k)
		}
		c.Steps = append(c.Steps, VStep{Op: "slice", Dst: "s", Src: "v", I: i, J: j}, VStep{Op: "cslice", Dst: "c", Src: "v", I: i, J: j})
		if j-i > 0 && r.Bool() {
			c.Steps = append(c.Steps, VStep{Op: "slice", Dst: "s2", Src: "s", I: 0, J: j - i}, VStep{Op: "read", Src: "s2", L: c.V[i:j]})
		}
		c.Steps = append(c.Steps, VStep{Op: "read", Src: "s", L: c.V[i:j]}, VStep{Op: "read", Src: "c", L: c.V[i:j]})
		exp := append([]int64{}, c.V...)
		if r.Intn(4) == 0 {
			c.Steps = append(c.Steps, VStep{Op: "reset", Src: "s"})
			for t := i; t < j; t++ {
				exp[t] = 0
			}
		} else {
			c.Steps = append(c.Steps, VStep{Op: "reset", Src: "v"})
			exp = zeros(n)
		}
		all := func() {
			c.Steps = append(c.Steps, VStep{Op: "read", Src: "v", L: append([]int64{}, exp...)},
				VStep{Op: "read", Src: "s", L: append([]int64{}, exp[i:j]...)}, VStep{Op: "read", Src: "c", L: append([]int64{}, exp[i:j]...)})
		}
		all()
		for t, k := range hs {
			x := int64(1 + r.Intn(5))
			exp[k] = x
			c.Steps = append(c.Steps, VStep{Op: "setf", Src: fmt.Sprintf("h%d", t), X: x})
		}
		all()
		// operand use LAST: sparse iterators purge the zero entries of the vector they run over (a view then
		// stops following later writes through the parent's handles: C03-SPARSE-VIEW-PURGE, see vKnownPurge)
		f := []string{"VaddV", "VsubV", "set"}[r.Intn(3)]
		src := []string{"s", "c"}[r.Intn(2)]
		if f == "set" {
			c.Steps = append(c.Steps, VStep{Op: "set", Dst: "w", Src: src}, VStep{Op: "read", Src: "w", L: append([]int64{}, exp[i:j]...)})
		} else {
			c.Steps = append(c.Steps, VStep{Op: f, Dst: "w", Src: "w", Src2: src},
				VStep{Op: "read", Src: "w", L: vApply(f, c.W, exp[i:j])})
		}
		all()
		for t, k := range hs {
			c.Steps = append(c.Steps, VStep{Op: "read", Src: fmt.Sprintf("h%d", t), L: []int64{exp[k]}})
		}
		return c
	}
	rows, cols := 1+r.Intn(3), 1+r.Intn(3)
	c.Rows, c.Cols = rows, cols
	c.M, c.P = vVals(r, rows*cols), vVals(r, rows*cols)
	c.W = vVals(r, cols)
	type h2 struct{ i, j int }
	hs := []h2{}
	for t := r.Intn(3); t > 0; t-- {
		h := h2{r.Intn(rows), r.Intn(cols)}
		if c.M[h.i*cols+h.j] == 0 {
			// a handle to a zero-valued sparse entry is detached by the next iteration over the matrix (Reset
			// iterates; the iterators purge zero entries): C03-SPARSE-ZERO-HANDLE-PURGE, probed by vKnownProbes
			continue
		}
		c.Steps = append(c.Steps, VStep{Op: "mat", Dst: fmt.Sprintf("h%d", len(hs)), Src: "m", I: h.i, J: h.j})
		hs = append(hs, h)
	}
	ri := r.Intn(rows)
	c.Steps = append(c.Steps, VStep{Op: "crow", Dst: "row", Src: "m", I: ri}, VStep{Op: "T", Dst: "t", Src: "m"},
		VStep{Op: "mslice", Dst: "fs", Src: "m", I: 0, J: rows, I2: 0, J2: cols},
		VStep{Op: "mcslice", Dst: "fc", Src: "m", I: 0, J: rows, I2: 0, J2: cols},
		VStep{Op: "asvec", Dst: "av", Src: "m"})
	exp := zeros(rows * cols)
	tr := func(l []int64) []int64 {
		o := make([]int64, len(l))
		for i := 0; i < rows; i++ {
			for j := 0; j < cols; j++ {
				o[j*rows+i] = l[i*cols+j]
			}
		}
		return o
	}
	c.Steps = append(c.Steps, VStep{Op: "read", Src: "t", L: tr(c.M)}, VStep{Op: "read", Src: "row", L: c.M[ri*cols : (ri+1)*cols]})
	c.Steps = append(c.Steps, VStep{Op: "reset", Src: []string{"m", "m", "av", "fs", "t"}[r.Intn(5)]})
	all := func() {
		c.Steps = append(c.Steps, VStep{Op: "read", Src: "m", L: append([]int64{}, exp...)},
			VStep{Op: "read", Src: "row", L: append([]int64{}, exp[ri*cols:(ri+1)*cols]...)},
			VStep{Op: "read", Src: "t", L: tr(exp)}, VStep{Op: "read", Src: "fs", L: append([]int64{}, exp...)},
			VStep{Op: "read", Src: "fc", L: append([]int64{}, exp...)}, VStep{Op: "read", Src: "av", L: append([]int64{}, exp...)})
	}
	all()
	for t, h := range hs {
		x := int64(1 + r.Intn(5))
		exp[h.i*cols+h.j] = x
		c.Steps = append(c.Steps, VStep{Op: "setf", Src: fmt.Sprintf("h%d", t), X: x})
	}
	all()
	rowv := append([]int64{}, exp[ri*cols:(ri+1)*cols]...)
	switch r.Intn(3) {
	case 0:
		c.Steps = append(c.Steps, VStep{Op: "set", Dst: "w", Src: "row"}, VStep{Op: "read", Src: "w", L: rowv})
	case 1:
		c.Steps = append(c.Steps, VStep{Op: "VaddV", Dst: "w", Src: "w", Src2: "row"}, VStep{Op: "read", Src: "w", L: vApply("VaddV", c.W, rowv)})
	default:
		c.Steps = append(c.Steps, VStep{Op: "MaddM", Dst: "p", Src: "p", Src2: []string{"fs", "fc"}[r.Intn(2)]},
			VStep{Op: "read", Src: "p", L: vApply("MaddM", c.P, exp)})
	}
	all()
	return c
}

// ---------------------------------------------------------------- recorded finding (unchanged library)

// C03-ZERO-ENTRY-PURGE: the sparse iterators DELETE stored entries whose value is 0 while they walk (skip()).
// (A) the handle returned by At(i,j) for a zero-valued entry is detached by the next iteration over the
// container (sparse matrix Reset / Set / joint iterators): a later write through the handle is lost;
// (B) a view (Slice) used as a read-only operand loses its zero entries and stops following later writes
// through the parent's handles.  The dense twin keeps both.  The generators above avoid the two shapes; these
// fixed programs re-observe them on every run.
func vKnownProbes() map[string]VSeq {
	return map[string]VSeq{
		"A": {Type: "float64", Class: "zero-entry-purge", Rows: 1, Cols: 1, M: []int64{0}, P: []int64{0}, Steps: []VStep{
			{Op: "mat", Dst: "h0", Src: "m", I: 0, J: 0}, {Op: "reset", Src: "m"}, {Op: "setf", Src: "h0", X: 3}, {Op: "read", Src: "m"}}},
		"B": {Type: "float64", Class: "zero-entry-purge", V: []int64{1, 1}, W: []int64{0, 0}, Steps: []VStep{
			{Op: "at", Dst: "h0", Src: "v", I: 1}, {Op: "slice", Dst: "s", Src: "v", I: 0, J: 2}, {Op: "reset", Src: "v"},
			{Op: "VaddV", Dst: "w", Src: "w", Src2: "s"}, {Op: "setf", Src: "h0", X: 1}, {Op: "read", Src: "s"}}},
	}
}

// ---------------------------------------------------------------- driver

func vhunt(o Opts) {
	type res struct {
		Found    bool              `json:"found"`
		Failure  string            `json:"failure"`
		VSeq     *VSeq             `json:"vseq,omitempty"`
		Tried    int               `json:"tried"`
		Runs     int               `json:"runs"`
		Elements int               `json:"elements_compared"`
		PerClass map[string]int    `json:"per_class"`
		Rule     string            `json:"rule"`
		Known    map[string]string `json:"known"`
	}
	r := res{PerClass: map[string]int{}, Rule: "programs over named objects (v, w vectors; m, p matrices) executed all-dense, all-sparse, all-sparse with explicit stored zeros; every read step must agree with the dense twin and with the expectation computed by the generator (plain lists)"}
	judge := func(c VSeq) bool {
		r.Tried++
		r.Runs += len(vStorages)
		r.PerClass[c.Class]++
		if f := vCheck(c, &r.Elements); f != "" {
			s, f2 := c, f
			if vCheckE(c, nil, false) != "" {
				// a difference between storages: shrink on that alone; the expectations of the generator do
				// not survive the removal of steps and are dropped from the witness
				s = vShrink(c)
				s.Steps = append([]VStep{}, s.Steps...)
				for i := range s.Steps {
					s.Steps[i].L = nil
				}
				f2 = vCheck(s, nil)
				if f2 == "" {
					s, f2 = c, f
				}
			}
			r.Found, r.Failure, r.VSeq = true, f2, &s
			return true
		}
		return false
	}
	done := false
	if o.Replay != "" {
		if b, err := os.ReadFile(o.Replay); err == nil {
			var rp struct {
				VSeq *VSeq `json:"vseq"`
			}
			json.Unmarshal(b, &rp)
			if rp.VSeq != nil && judge(*rp.VSeq) {
				done = true
			}
		}
	}
	r.Known = map[string]string{}
	for name, c := range vKnownProbes() {
		if f := vCheck(c, nil); f != "" {
			b, _ := json.Marshal(c.Steps)
			r.Known["C03-ZERO-ENTRY-PURGE/"+name] = f + " | program: " + string(b)
		}
	}
	// committed corpus (corpus/C03/vseq.jsonl): regression programs of the two classes run first; the witnesses of
	// the recorded finding are kept there too and are not judged
	if strings.HasPrefix(o.Extra, "vhunt:") && o.N > 0 {
		if b, err := os.ReadFile(o.Extra[len("vhunt:"):]); err == nil {
			for _, line := range strings.Split(string(b), "\n") {
				var e struct {
					VSeq *VSeq `json:"vseq"`
				}
				if json.Unmarshal([]byte(line), &e) != nil || e.VSeq == nil || e.VSeq.Class == "zero-entry-purge" {
					continue
				}
				r.PerClass["corpus"]++
				if !done && judge(*e.VSeq) {
					done = true
				}
			}
		}
	}
	rng := NewRng(o.Seed*977 + 15485863)
	for k := 0; k < o.N && !done; k++ {
		tn := typeNames[k%len(typeNames)]
		rr := rng.Split()
		switch k % 4 {
		case 0:
			vSetAliasDirected(tn, rr, func(c VSeq) bool {
				if judge(c) {
					done = true
				}
				return done
			})
		case 1:
			done = judge(vOpAliasRandom(tn, rr))
		default:
			done = judge(vResetViewRandom(tn, rr))
		}
	}
	b, _ := json.MarshalIndent(r, "", " ")
	os.MkdirAll(o.Out, 0755)
	os.WriteFile(o.Out+"/vhunt.json", b, 0644)
}
