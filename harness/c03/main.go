// C03 harness: operation histories on dense AND sparse vectors of /repo
// (element-wise, scalar-broadcast, Set/Equals/Reset, conversions) with every
// receiver/operand storage combination, observed outcomes written as Coq case
// files for the model in coq/C03 (which sits on the shared sparse-vector model
// coq/C11).  After every operation the whole world is observed: for sparse
// vectors Dim, Float64At of every index, the private map / AVL index keys (hook
// VerifC11Dump in /repo/verif_c11.go, read-only) and the ConstIterator sequence
// of a clone; for dense vectors every element.
package main

import (
	"encoding/json"
	"fmt"
	"math"
	"os"
	"strings"

	. "adharness/common"

	ad "github.com/pbenner/autodiff"
)

// Ref names a vector of the world: sparse handle (S) or dense handle (!S).
type Ref struct {
	S bool `json:"s"`
	H int  `json:"h"`
}

// Op is one operation of a history.
type Op struct {
	Op string  `json:"op"`
	R  Ref     `json:"r"`
	A  Ref     `json:"a"`
	B  Ref     `json:"b"`
	F  string  `json:"f,omitempty"` // Add | Sub | Mul for VopV
	I  int64   `json:"i,omitempty"`
	X  int64   `json:"x,omitempty"` // value / scalar / 2*epsilon
	L  []int64 `json:"l,omitempty"`
	L2 []int64 `json:"l2,omitempty"`
}
type Out struct {
	K int64   `json:"k"`
	P []int64 `json:"p"`
	H int64   `json:"h"`
}
type Case struct {
	Type string `json:"type"`
	Ops  []Op   `json:"ops"`
	Outs []Out  `json:"outs,omitempty"`
}

const (
	K_OK    = 0
	K_PANIC = 1
	SEP     = -7771
	HP      = 2147483647
	C_PANIC = 99991
	C_NIL   = 99992
	C_CLONE = 99993
	C_LOOP  = 99994
	NAN     = 999999937
	PINF    = 999999938
	NINF    = 999999939
)

var typeNames = []string{"float64", "int", "real64", "float32", "real32", "int64", "int32", "int16", "int8"}

func coqTy(name string) string {
	switch name {
	case "real64", "real32":
		return "TReal"
	case "float64", "float32":
		return "TFloat"
	}
	return "TInt"
}
func isIntType(name string) bool { return coqTy(name) == "TInt" }
func valueCap(name string) int64 {
	switch name {
	case "int8":
		return 120
	}
	return 4000
}

func scalarType(name string) ad.ScalarType {
	switch name {
	case "float64":
		return ad.Float64Type
	case "float32":
		return ad.Float32Type
	case "int":
		return ad.IntType
	case "int8":
		return ad.Int8Type
	case "int16":
		return ad.Int16Type
	case "int32":
		return ad.Int32Type
	case "int64":
		return ad.Int64Type
	case "real32":
		return ad.Real32Type
	case "real64":
		return ad.Real64Type
	}
	Die("unknown element type %s", name)
	return nil
}

func ints(l []int64) []int {
	r := make([]int, len(l))
	for i, x := range l {
		r[i] = int(x)
	}
	return r
}
func f64s(l []int64) []float64 {
	r := make([]float64, len(l))
	for i, x := range l {
		r[i] = float64(x)
	}
	return r
}
func f32s(l []int64) []float32 {
	r := make([]float32, len(l))
	for i, x := range l {
		r[i] = float32(x)
	}
	return r
}

func newSparse(name string, ks []int64, xs []int64, n int) ad.Vector {
	k := ints(ks)
	switch name {
	case "float64":
		return ad.NewSparseFloat64Vector(k, f64s(xs), n)
	case "float32":
		return ad.NewSparseFloat32Vector(k, f32s(xs), n)
	case "int":
		return ad.NewSparseIntVector(k, ints(xs), n)
	case "int8":
		v := make([]int8, len(xs))
		for i, x := range xs {
			v[i] = int8(x)
		}
		return ad.NewSparseInt8Vector(k, v, n)
	case "int16":
		v := make([]int16, len(xs))
		for i, x := range xs {
			v[i] = int16(x)
		}
		return ad.NewSparseInt16Vector(k, v, n)
	case "int32":
		v := make([]int32, len(xs))
		for i, x := range xs {
			v[i] = int32(x)
		}
		return ad.NewSparseInt32Vector(k, v, n)
	case "int64":
		return ad.NewSparseInt64Vector(k, append([]int64{}, xs...), n)
	case "real32":
		return ad.NewSparseReal32Vector(k, f32s(xs), n)
	case "real64":
		return ad.NewSparseReal64Vector(k, f64s(xs), n)
	}
	Die("unknown element type %s", name)
	return nil
}

func newDense(name string, xs []int64) ad.Vector {
	switch name {
	case "float64":
		return ad.NewDenseFloat64Vector(f64s(xs))
	case "float32":
		return ad.NewDenseFloat32Vector(f32s(xs))
	case "int":
		return ad.NewDenseIntVector(ints(xs))
	case "int8":
		v := make([]int8, len(xs))
		for i, x := range xs {
			v[i] = int8(x)
		}
		return ad.NewDenseInt8Vector(v)
	case "int16":
		v := make([]int16, len(xs))
		for i, x := range xs {
			v[i] = int16(x)
		}
		return ad.NewDenseInt16Vector(v)
	case "int32":
		v := make([]int32, len(xs))
		for i, x := range xs {
			v[i] = int32(x)
		}
		return ad.NewDenseInt32Vector(v)
	case "int64":
		return ad.NewDenseInt64Vector(append([]int64{}, xs...))
	case "real32":
		return ad.NewDenseReal32Vector(f32s(xs))
	case "real64":
		return ad.NewDenseReal64Vector(f64s(xs))
	}
	Die("unknown element type %s", name)
	return nil
}

// code: a value as the integer the model works with
func code(x float64) int64 {
	switch {
	case math.IsNaN(x):
		return NAN
	case math.IsInf(x, 1):
		return PINF
	case math.IsInf(x, -1):
		return NINF
	}
	return int64(x)
}

// World: the vectors created so far.
type World struct {
	Type string
	S    []ad.Vector
	D    []ad.Vector
}

func (w *World) get(r Ref) ad.Vector {
	if r.S {
		return w.S[r.H]
	}
	return w.D[r.H]
}
func (w *World) add(v ad.Vector, sparse bool) {
	if sparse {
		w.S = append(w.S, v)
	} else {
		w.D = append(w.D, v)
	}
}

// execOne runs one operation on the implementation; panics are recovered and
// reported as outcome kind.
func (w *World) execOne(o Op) (kind int64, payload []int64) {
	payload = []int64{}
	defer func() {
		if r := recover(); r != nil {
			kind = K_PANIC
			payload = []int64{}
		}
	}()
	st := scalarType(w.Type)
	switch o.Op {
	case "NewS":
		w.add(newSparse(w.Type, o.L, o.L2, int(o.I)), true)
	case "NewD":
		w.add(newDense(w.Type, o.L), false)
	case "AsDense":
		w.add(ad.AsDenseVector(st, w.get(o.A)), false)
	case "AsSparse":
		w.add(ad.AsSparseVector(st, w.get(o.A)), true)
	case "SetAt":
		w.get(o.R).At(int(o.I)).SetFloat64(float64(o.X))
	case "VSet":
		w.get(o.R).Set(w.get(o.A))
	case "VEquals":
		if w.get(o.A).Equals(w.get(o.B), float64(o.X)/2) {
			payload = append(payload, 1)
		} else {
			payload = append(payload, 0)
		}
	case "VopV":
		r, a, b := w.get(o.R), w.get(o.A), w.get(o.B)
		switch o.F {
		case "Add":
			r.VaddV(a, b)
		case "Sub":
			r.VsubV(a, b)
		case "Mul":
			r.VmulV(a, b)
		default:
			Die("unknown VopV %s", o.F)
		}
	case "VdivV":
		w.get(o.R).VdivV(w.get(o.A), w.get(o.B))
	case "VaddS":
		w.get(o.R).VaddS(w.get(o.A), ad.NewScalar(st, float64(o.X)))
	case "VsubS":
		w.get(o.R).VsubS(w.get(o.A), ad.NewScalar(st, float64(o.X)))
	case "VmulS":
		w.get(o.R).VmulS(w.get(o.A), ad.NewScalar(st, float64(o.X)))
	case "VdivS":
		w.get(o.R).VdivS(w.get(o.A), ad.NewScalar(st, float64(o.X)))
	case "VReset":
		w.get(o.R).Reset()
	case "VIter":
		g := 0
		for it := w.get(o.A).ConstIterator(); it.Ok(); it.Next() {
			payload = append(payload, int64(it.Index()), code(it.GetConst().GetFloat64()))
			if g++; g > 10000 {
				payload = append(payload, C_LOOP)
				break
			}
		}
	default:
		Die("unknown op %s", o.Op)
	}
	return
}

// ---------------------------------------------------------------- observation

type VecObs struct {
	Sparse bool
	N      int
	Reads  []int64
	Keys   []int64
	Vals   []int64
	Index  []int64
	Iter   []int64
	Flat   []int64
}

func readAt(v ad.Vector, i int) (x int64) {
	defer func() {
		if r := recover(); r != nil {
			x = C_PANIC
		}
	}()
	return code(v.Float64At(i))
}
func cloneIter(v ad.Vector) (seq []int64) {
	seq = []int64{}
	defer func() {
		if r := recover(); r != nil {
			seq = []int64{C_CLONE}
		}
	}()
	c := v.CloneVector()
	g := 0
	for it := c.ConstIterator(); it.Ok(); it.Next() {
		seq = append(seq, int64(it.Index()), code(it.GetConst().GetFloat64()))
		if g++; g > 10000 {
			return []int64{C_LOOP}
		}
	}
	return seq
}

func observeVec(v ad.Vector, sparse bool) VecObs {
	var o VecObs
	o.Sparse = sparse
	o.N = v.Dim()
	f := []int64{int64(o.N), SEP}
	for i := 0; i < o.N; i++ {
		x := readAt(v, i)
		o.Reads = append(o.Reads, x)
		f = append(f, x)
	}
	f = append(f, SEP)
	if sparse {
		st := ad.VerifC11Dump(v)
		for _, e := range st.Entries {
			x := code(e.Value)
			if e.Nil {
				x = C_NIL
			}
			o.Keys = append(o.Keys, int64(e.Key))
			o.Vals = append(o.Vals, x)
			f = append(f, int64(e.Key), x)
		}
		f = append(f, SEP)
		for _, k := range st.Index {
			o.Index = append(o.Index, int64(k))
			f = append(f, int64(k))
		}
		f = append(f, SEP)
		o.Iter = cloneIter(v)
		f = append(f, o.Iter...)
		f = append(f, SEP)
	}
	o.Flat = f
	return o
}

func hashList(h int64, l []int64) int64 {
	for _, x := range l {
		h = (h*1000003 + x + 12345) % HP
		if h < 0 {
			h += HP
		}
	}
	return h
}

type WorldObs struct {
	S []VecObs
	D []VecObs
}

func (w *World) observe() (WorldObs, int64) {
	var wo WorldObs
	h := int64(17)
	for _, v := range w.S {
		o := observeVec(v, true)
		wo.S = append(wo.S, o)
		h = hashList(h, o.Flat)
	}
	h = hashList(h, []int64{SEP, SEP})
	for _, v := range w.D {
		o := observeVec(v, false)
		wo.D = append(wo.D, o)
		h = hashList(h, o.Flat)
	}
	return wo, h
}

func execute(c Case) []Out {
	w := &World{Type: c.Type}
	outs := make([]Out, 0, len(c.Ops))
	for _, o := range c.Ops {
		k, p := w.execOne(o)
		_, h := w.observe()
		outs = append(outs, Out{k, p, h})
	}
	return outs
}

// ---------------------------------------------------------------- Coq printing

func coqRef(r Ref) string {
	if r.S {
		return fmt.Sprintf("(RS %d)", r.H)
	}
	return fmt.Sprintf("(RD %d)", r.H)
}
func coqOp(o Op) string {
	switch o.Op {
	case "NewS":
		return fmt.Sprintf("NewS %s %s %s", ZList(o.L), ZList(o.L2), Z(o.I))
	case "NewD":
		return "NewD " + ZList(o.L)
	case "AsDense", "AsSparse":
		return o.Op + " " + coqRef(o.A)
	case "SetAt":
		return fmt.Sprintf("SetAt %s %s %s", coqRef(o.R), Z(o.I), Z(o.X))
	case "VSet":
		return fmt.Sprintf("VSet %s %s", coqRef(o.R), coqRef(o.A))
	case "VEquals":
		return fmt.Sprintf("VEquals %s %s %s", coqRef(o.A), coqRef(o.B), Z(o.X))
	case "VopV":
		return fmt.Sprintf("VopV %s %s %s %s", o.F, coqRef(o.R), coqRef(o.A), coqRef(o.B))
	case "VdivV":
		return fmt.Sprintf("VdivV %s %s %s", coqRef(o.R), coqRef(o.A), coqRef(o.B))
	case "VaddS", "VsubS", "VmulS", "VdivS":
		return fmt.Sprintf("%s %s %s %s", o.Op, coqRef(o.R), coqRef(o.A), Z(o.X))
	case "VReset":
		return "VReset " + coqRef(o.R)
	case "VIter":
		return "VIter " + coqRef(o.A)
	}
	Die("coqOp: unknown op %s", o.Op)
	return ""
}
func coqCase(c Case) string {
	ops := make([]string, len(c.Ops))
	for i, o := range c.Ops {
		ops[i] = coqOp(o)
	}
	outs := make([]string, len(c.Outs))
	for i, o := range c.Outs {
		outs[i] = fmt.Sprintf("(%s, %s, %s)", Z(o.K), ZList(o.P), Z(o.H))
	}
	return "(" + coqTy(c.Type) + ", " + List(ops) + ",\n   " + List(outs) + ")"
}

const hdr = "From Coq Require Import ZArith List Bool. Import ListNotations.\nFrom ADV Require Import C11.Model C03.Model C03.Corr.\nOpen Scope Z_scope.\n"

const rule = "histories: 3-6 vectors of one dimension n in 0..12 (1 in 8 histories has an extra vector of another dimension), created dense and sparse with zero patterns all-zero/leading/trailing/interleaved/full/single, explicit stored zeros (At(i)=0, AsSparse(dense), cancelling arithmetic), then 6-14 operations drawn from Set/Equals/VaddV/VsubV/VmulV/VdivV/VaddS/VsubS/VmulS/VdivS/Reset/AsDense/AsSparse/SetAt/ConstIterator with receiver and operands drawn independently dense or sparse (1 in 8 operands aliases the receiver), values -8..8 (magnitudes capped so all nine element types stay exact; float divisions use divisors dividing the dividend; a float division by zero ends the history), element type cycling through all nine; a case is non-trivial iff it has >= 3 arithmetic operations, >= 1 operation whose receiver/operands mix dense and sparse storage, and some sparse vector held an explicitly stored zero at some step; distinct = distinct (type, op list)"

func readCorpus(path string) []Case {
	var cs []Case
	b, err := os.ReadFile(path)
	if err != nil {
		return cs
	}
	for _, line := range strings.Split(string(b), "\n") {
		line = strings.TrimSpace(line)
		if line == "" || strings.HasPrefix(line, "#") {
			continue
		}
		var c Case
		if err := json.Unmarshal([]byte(line), &c); err != nil {
			Die("corpus: %v", err)
		}
		cs = append(cs, c)
	}
	return cs
}

func main() {
	o := ParseFlags()
	if o.Extra == "hunt" {
		hunt(o)
		return
	}
	if o.Extra == "chunt" {
		chunt(o) // constoracle.go / conststream.go: const vectors, views, every operand container kind
		return
	}
	if o.Extra == "vhunt" || strings.HasPrefix(o.Extra, "vhunt:") {
		vhunt(o) // viewalias.go: aliasing Set/ops through views, Reset under live views and handles
		return
	}
	if o.Extra == "known" {
		known(o)
		return
	}
	if o.Extra == "special" || strings.HasPrefix(o.Extra, "special:") {
		special(o) // special.go: non-finite values and derivatives, all storage combinations vs all-dense
		return
	}
	if o.Replay != "" {
		b, err := os.ReadFile(o.Replay)
		if err != nil {
			Die("%v", err)
		}
		var rp struct {
			Case Case `json:"case"`
		}
		if err := json.Unmarshal(b, &rp); err != nil {
			Die("%v", err)
		}
		c := rp.Case
		c.Outs = execute(c)
		w := NewCaseWriter(o.Out, "replay", hdr, "mism", 1000)
		w.Type = "case"
		w.Add(coqCase(c), c, "replay", true)
		w.Flush()
		return
	}
	per := 20
	w := NewCaseWriter(o.Out, "cases", hdr, "mism", per)
	w.Type = "case"
	w.Rule = rule
	for _, c := range readCorpus(o.Extra) {
		c.Outs = execute(c)
		w.Add(coqCase(c), c, "corpus:"+fmt.Sprint(c.Ops), true)
		w.Count("corpus")
	}
	rng := NewRng(o.Seed)
	for k := 0; k < o.N; k++ {
		tn := typeNames[k%len(typeNames)]
		if k%2 == 0 {
			tn = typeNames[(k/2)%3] // float64 / int / real64 get half of the cases
		}
		c, nt := genCase(rng.Split(), tn, w)
		w.Add(coqCase(c), c, tn+fmt.Sprint(c.Ops), nt)
		w.Count("type:" + tn)
	}
	if err := w.Flush(); err != nil {
		Die("%v", err)
	}
	// matrix histories: a second family of shards
	mw := NewCaseWriter(o.Out, "mcases", hdrM, "mism4", 10)
	mw.Type = "case4"
	mw.Rule = ruleM + "; " + ruleDirected
	for _, c := range readMCorpus(o.Extra) {
		c.Outs = executeM(c)
		mw.Add(coqMCase(c), c, "corpus:"+fmt.Sprint(len(c.Ops)), true)
		mw.Count("corpus")
	}
	// directed histories (directed.go): every family on every element type, each run
	drng := NewRng(o.Seed*1000003 + 611953)
	for k := 0; k < 27+o.N/20; k++ {
		tn := typeNames[k%len(typeNames)]
		c := genDirected(drng.Split(), tn, mw, k/len(typeNames))
		mw.Add(coqMCase(c), c, directedKey(tn, c), true)
		mw.Count("type:" + tn)
	}
	mrng := NewRng(o.Seed + 104729)
	for k := 0; k < o.N/3; k++ {
		tn := typeNames[k%len(typeNames)]
		if k%2 == 0 {
			tn = typeNames[(k/2)%3]
		}
		c, nt := genMCase(mrng.Split(), tn, mw)
		b, _ := json.Marshal(c.Ops)
		mw.Add(coqMCase(c), c, tn+string(b), nt)
		mw.Count("type:" + tn)
	}
	if err := mw.Flush(); err != nil {
		Die("%v", err)
	}
	// read-only sparse vectors, their views and consumers (constvec.go): a third family of shards
	cc := ""
	if o.Extra != "" {
		cc = strings.TrimSuffix(o.Extra, ".jsonl") + ".const.jsonl"
	}
	writeCCases(o, cc)
}

// matrix corpus: <corpus>.matrix.jsonl next to the vector corpus
func readMCorpus(path string) []MCase {
	var cs []MCase
	if path == "" {
		return cs
	}
	b, err := os.ReadFile(strings.TrimSuffix(path, ".jsonl") + ".matrix.jsonl")
	if err != nil {
		return cs
	}
	for _, line := range strings.Split(string(b), "\n") {
		line = strings.TrimSpace(line)
		if line == "" || strings.HasPrefix(line, "#") {
			continue
		}
		var c MCase
		if err := json.Unmarshal([]byte(line), &c); err != nil {
			Die("matrix corpus: %v", err)
		}
		cs = append(cs, c)
	}
	return cs
}
