// C03 harness, `--extra special`: a Go-level DIFFERENTIAL generator + oracle for the two
// classes of behaviour the integer histories cannot show:
//
//	(A) non-finite and special values: operands / scalars / prior receiver content holding
//	    +Inf, -Inf, NaN, division by zero (x/0, 0/0), 0*Inf — including positions that are
//	    ABSENT in a sparse receiver and/or sparse operands;
//	(B) derivatives of Real64/Real32 elements (order 1, two variables): operands whose value
//	    is 0 but whose derivative is not, etc.
//
// For every drawn (element type, operation, operand elements, scalar, prior receiver
// content, aliasing pattern) the operation is run for EVERY storage combination
// {dense, sparse, sparse with explicitly stored zeros}^(receiver + operands) and all results
// are compared element-wise with the all-dense run: outcome kind (ok / panic), Equals result,
// dimension, value (NaN equals NaN; a +0/-0 difference is counted, not judged), and for the
// Real types every gradient slot; the operands must read the same afterwards, too.
// A difference between storages is a FAILURE unless it is matched NARROWLY by one of the
// recorded classes (spKnown below: operation + storage pattern + value class at the differing
// position), then it is counted under "known" with a shrunk witness.  Failures are shrunk
// (fewer positions, simpler values, simpler storages) and written as replayable witnesses.
package main

import (
	"encoding/json"
	"fmt"
	"math"
	"os"
	"sort"
	"strconv"
	"strings"

	. "adharness/common"

	ad "github.com/pbenner/autodiff"
)

const spNV = 2 // number of variables of the gradient

// spNum: a float64 that survives JSON (NaN, +-Inf, -0 as strings)
type spNum float64

func (x spNum) MarshalJSON() ([]byte, error) {
	f := float64(x)
	switch {
	case math.IsNaN(f):
		return []byte(`"NaN"`), nil
	case math.IsInf(f, 1):
		return []byte(`"+Inf"`), nil
	case math.IsInf(f, -1):
		return []byte(`"-Inf"`), nil
	case f == 0 && math.Signbit(f):
		return []byte(`"-0"`), nil
	}
	return []byte(strconv.FormatFloat(f, 'g', -1, 64)), nil
}
func (x *spNum) UnmarshalJSON(b []byte) error {
	s := strings.Trim(string(b), `"`)
	switch s {
	case "NaN":
		*x = spNum(math.NaN())
	case "+Inf", "Inf":
		*x = spNum(math.Inf(1))
	case "-Inf":
		*x = spNum(math.Inf(-1))
	case "-0":
		*x = spNum(math.Copysign(0, -1))
	default:
		f, err := strconv.ParseFloat(s, 64)
		if err != nil {
			return err
		}
		*x = spNum(f)
	}
	return nil
}
func (x spNum) String() string {
	b, _ := x.MarshalJSON()
	return strings.Trim(string(b), `"`)
}

// spEl: one element: value and (Real types) gradient; D == nil: no derivative storage
// (order 0), else Alloc(len(D), 1) + SetDerivative.
type spEl struct {
	V spNum   `json:"v"`
	D []spNum `json:"d,omitempty"`
}

func (e spEl) derivNonzero() bool {
	for _, d := range e.D {
		if d != 0 {
			return true
		}
	}
	return false
}

// null: what a sparse container may leave out (value 0 and no non-zero derivative)
func (e spEl) null() bool { return float64(e.V) == 0 && !e.derivNonzero() }
func (e spEl) String() string {
	if e.D == nil {
		return e.V.String()
	}
	ds := make([]string, len(e.D))
	for i, d := range e.D {
		ds[i] = d.String()
	}
	return e.V.String() + "'[" + strings.Join(ds, ",") + "]"
}
func (e spEl) clone() spEl {
	if e.D != nil {
		e.D = append([]spNum{}, e.D...)
	}
	return e
}

// value class of an element for the matchers
func spClass(e spEl) string {
	v := float64(e.V)
	c := "fin"
	switch {
	case math.IsNaN(v):
		c = "nan"
	case math.IsInf(v, 0):
		c = "inf"
	case v == 0:
		c = "zero"
	}
	if e.derivNonzero() {
		c += "+d"
	}
	return c
}

// spObj: a vector (M < 0) or a matrix (row major) with its storage
type spObj struct {
	N  int    `json:"n"`
	M  int    `json:"m"` // -1: vector
	E  []spEl `json:"e"`
	St int    `json:"st"`           // 0 dense, 1 sparse (entries for the non-null elements only), 2 sparse + explicitly stored zeros
	Zm []bool `json:"zm,omitempty"` // St 2: null positions that get At(i).SetFloat64(0) (nil: all of them)
}

func (o *spObj) clone() *spObj {
	if o == nil {
		return nil
	}
	c := *o
	c.E = make([]spEl, len(o.E))
	for i, e := range o.E {
		c.E[i] = e.clone()
	}
	if o.Zm != nil {
		c.Zm = append([]bool{}, o.Zm...)
	}
	return &c
}
func (o *spObj) isVec() bool { return o.M < 0 }
func (o *spObj) present(i int) bool {
	if o.St == 0 {
		return true
	}
	if !o.E[i].null() {
		return true
	}
	return o.St == 2 && (o.Zm == nil || o.Zm[i])
}
func (o *spObj) String() string {
	st := []string{"dense", "sparse", "sparse+stored-zeros"}[o.St]
	es := make([]string, len(o.E))
	for i, e := range o.E {
		es[i] = e.String()
		if o.St == 2 && e.null() && (o.Zm == nil || o.Zm[i]) {
			es[i] += "(stored)"
		}
	}
	if o.isVec() {
		return fmt.Sprintf("%s vector[%d]{%s}", st, o.N, strings.Join(es, " "))
	}
	return fmt.Sprintf("%s matrix %dx%d{%s}", st, o.N, o.M, strings.Join(es, " "))
}

type spCase struct {
	Type  string `json:"type"`
	Op    string `json:"op"`
	R     *spObj `json:"r,omitempty"` // prior receiver content (unused when the receiver aliases an operand)
	A     *spObj `json:"a,omitempty"`
	B     *spObj `json:"b,omitempty"`
	S     *spEl  `json:"s,omitempty"`
	Eps   spNum  `json:"eps,omitempty"`
	Alias string `json:"alias,omitempty"` // "", "r=a", "r=b", "r=a=b", "a=b"
}

func (c spCase) clone() spCase {
	d := c
	d.R, d.A, d.B = c.R.clone(), c.A.clone(), c.B.clone()
	if c.S != nil {
		s := c.S.clone()
		d.S = &s
	}
	return d
}

// ---------------------------------------------------------------- operations

// axes of receiver / operands: "" unused, second "" = vector
type spOp struct {
	Name    string
	R, A, B [2]string
	Sc      bool // scalar operand
	Eps     bool // Equals
	Elem    bool // element-wise (aliasing patterns apply)
}

var spOps = []spOp{
	{"VaddV", [2]string{"n", ""}, [2]string{"n", ""}, [2]string{"n", ""}, false, false, true},
	{"VsubV", [2]string{"n", ""}, [2]string{"n", ""}, [2]string{"n", ""}, false, false, true},
	{"VmulV", [2]string{"n", ""}, [2]string{"n", ""}, [2]string{"n", ""}, false, false, true},
	{"VdivV", [2]string{"n", ""}, [2]string{"n", ""}, [2]string{"n", ""}, false, false, true},
	{"VaddS", [2]string{"n", ""}, [2]string{"n", ""}, [2]string{}, true, false, true},
	{"VsubS", [2]string{"n", ""}, [2]string{"n", ""}, [2]string{}, true, false, true},
	{"VmulS", [2]string{"n", ""}, [2]string{"n", ""}, [2]string{}, true, false, true},
	{"VdivS", [2]string{"n", ""}, [2]string{"n", ""}, [2]string{}, true, false, true},
	{"VSet", [2]string{"n", ""}, [2]string{"n", ""}, [2]string{}, false, false, true},
	{"VEquals", [2]string{}, [2]string{"n", ""}, [2]string{"n", ""}, false, true, true},
	{"MaddM", [2]string{"n", "m"}, [2]string{"n", "m"}, [2]string{"n", "m"}, false, false, true},
	{"MsubM", [2]string{"n", "m"}, [2]string{"n", "m"}, [2]string{"n", "m"}, false, false, true},
	{"MmulM", [2]string{"n", "m"}, [2]string{"n", "m"}, [2]string{"n", "m"}, false, false, true},
	{"MdivM", [2]string{"n", "m"}, [2]string{"n", "m"}, [2]string{"n", "m"}, false, false, true},
	{"MaddS", [2]string{"n", "m"}, [2]string{"n", "m"}, [2]string{}, true, false, true},
	{"MsubS", [2]string{"n", "m"}, [2]string{"n", "m"}, [2]string{}, true, false, true},
	{"MmulS", [2]string{"n", "m"}, [2]string{"n", "m"}, [2]string{}, true, false, true},
	{"MdivS", [2]string{"n", "m"}, [2]string{"n", "m"}, [2]string{}, true, false, true},
	{"MSet", [2]string{"n", "m"}, [2]string{"n", "m"}, [2]string{}, false, false, true},
	{"MEquals", [2]string{}, [2]string{"n", "m"}, [2]string{"n", "m"}, false, true, true},
	{"MdotM", [2]string{"n", "m"}, [2]string{"n", "k"}, [2]string{"k", "m"}, false, false, false},
	{"Outer", [2]string{"n", "m"}, [2]string{"n", ""}, [2]string{"m", ""}, false, false, false},
	{"MdotV", [2]string{"n", ""}, [2]string{"n", "m"}, [2]string{"m", ""}, false, false, false},
	{"VdotM", [2]string{"m", ""}, [2]string{"n", ""}, [2]string{"n", "m"}, false, false, false},
}

func spFindOp(name string) *spOp {
	for i := range spOps {
		if spOps[i].Name == name {
			return &spOps[i]
		}
	}
	return nil
}

func spIsReal(tn string) bool { return tn == "real64" || tn == "real32" }

func spSetEl(s ad.Scalar, e spEl, tn string) {
	s.SetFloat64(float64(e.V))
	if e.D != nil && spIsReal(tn) {
		m := s.(ad.MagicScalar)
		m.Alloc(len(e.D), 1)
		for k, d := range e.D {
			m.SetDerivative(k, float64(d))
		}
	}
}

func (o *spObj) build(tn string) interface{} {
	st := scalarType(tn)
	if o.isVec() {
		var v ad.Vector
		if o.St == 0 {
			v = ad.NullDenseVector(st, o.N)
		} else {
			v = ad.NullSparseVector(st, o.N)
		}
		for i, e := range o.E {
			switch {
			case o.St == 0 || !e.null():
				spSetEl(v.At(i), e, tn)
			case o.St == 2 && (o.Zm == nil || o.Zm[i]):
				v.At(i).SetFloat64(0)
			}
		}
		return v
	}
	var m ad.Matrix
	if o.St == 0 {
		m = ad.NullDenseMatrix(st, o.N, o.M)
	} else {
		m = ad.NullSparseMatrix(st, o.N, o.M)
	}
	for k, e := range o.E {
		i, j := k/o.M, k%o.M
		switch {
		case o.St == 0 || !e.null():
			spSetEl(m.At(i, j), e, tn)
		case o.St == 2 && (o.Zm == nil || o.Zm[k]):
			m.At(i, j).SetFloat64(0)
		}
	}
	return m
}

// spObs: what is observed of one element
type spObs struct {
	V    float64
	O, N int
	D    [spNV]float64
}

type spRead struct {
	N, M  int
	E     []spObs
	Panic bool
}

func spObserve(s ad.ConstScalar) spObs {
	o := spObs{V: s.GetFloat64(), O: s.GetOrder(), N: s.GetN()}
	for k := 0; k < spNV; k++ {
		if o.O >= 1 && k < o.N {
			o.D[k] = s.GetDerivative(k)
		}
	}
	return o
}

func spReadObj(x interface{}) (r spRead) {
	defer func() {
		if e := recover(); e != nil {
			r.Panic = true
		}
	}()
	switch v := x.(type) {
	case ad.Vector:
		r.N, r.M = v.Dim(), -1
		for i := 0; i < r.N; i++ {
			r.E = append(r.E, spObserve(v.ConstAt(i)))
		}
	case ad.Matrix:
		r.N, r.M = v.Dims()
		for i := 0; i < r.N; i++ {
			for j := 0; j < r.M; j++ {
				r.E = append(r.E, spObserve(v.ConstAt(i, j)))
			}
		}
	}
	return
}

type spOut struct {
	Kind    int // 0 ok, 1 panic
	Bool    int // -1: none
	R, A, B *spRead
}

func spRun(c spCase) (out spOut) {
	out.Bool = -1
	op := spFindOp(c.Op)
	if op == nil {
		Die("special: unknown op %s", c.Op)
	}
	var r, a, b interface{}
	if c.A != nil {
		a = c.A.build(c.Type)
	}
	if c.B != nil {
		b = c.B.build(c.Type)
	}
	switch c.Alias {
	case "r=a":
		r = a
	case "r=b":
		r = b
	case "r=a=b":
		r, b = a, a
	case "a=b":
		b = a
		if c.R != nil {
			r = c.R.build(c.Type)
		}
	default:
		if c.R != nil {
			r = c.R.build(c.Type)
		}
	}
	var s ad.Scalar
	if c.S != nil {
		s = ad.NewScalar(scalarType(c.Type), 0)
		spSetEl(s, *c.S, c.Type)
	}
	func() {
		defer func() {
			if e := recover(); e != nil {
				out.Kind = 1
			}
		}()
		vr, _ := r.(ad.Vector)
		va, _ := a.(ad.Vector)
		vb, _ := b.(ad.Vector)
		mr, _ := r.(ad.Matrix)
		ma, _ := a.(ad.Matrix)
		mb, _ := b.(ad.Matrix)
		switch c.Op {
		case "VaddV":
			vr.VaddV(va, vb)
		case "VsubV":
			vr.VsubV(va, vb)
		case "VmulV":
			vr.VmulV(va, vb)
		case "VdivV":
			vr.VdivV(va, vb)
		case "VaddS":
			vr.VaddS(va, s)
		case "VsubS":
			vr.VsubS(va, s)
		case "VmulS":
			vr.VmulS(va, s)
		case "VdivS":
			vr.VdivS(va, s)
		case "VSet":
			vr.Set(va)
		case "VEquals":
			if va.Equals(vb, float64(c.Eps)) {
				out.Bool = 1
			} else {
				out.Bool = 0
			}
		case "MEquals":
			if ma.Equals(mb, float64(c.Eps)) {
				out.Bool = 1
			} else {
				out.Bool = 0
			}
		case "MaddM":
			mr.MaddM(ma, mb)
		case "MsubM":
			mr.MsubM(ma, mb)
		case "MmulM":
			mr.MmulM(ma, mb)
		case "MdivM":
			mr.MdivM(ma, mb)
		case "MaddS":
			mr.MaddS(ma, s)
		case "MsubS":
			mr.MsubS(ma, s)
		case "MmulS":
			mr.MmulS(ma, s)
		case "MdivS":
			mr.MdivS(ma, s)
		case "MSet":
			mr.Set(ma)
		case "MdotM":
			mr.MdotM(ma, mb)
		case "Outer":
			mr.Outer(va, vb)
		case "MdotV":
			vr.MdotV(ma, vb)
		case "VdotM":
			vr.VdotM(va, mb)
		default:
			Die("special: unknown op %s", c.Op)
		}
	}()
	rd := func(x interface{}) *spRead {
		if x == nil {
			return nil
		}
		r := spReadObj(x)
		return &r
	}
	out.R = rd(r)
	if a != nil && !(r != nil && (c.Alias == "r=a" || c.Alias == "r=a=b")) {
		out.A = rd(a)
	}
	if b != nil && c.Alias != "r=b" && c.Alias != "r=a=b" && c.Alias != "a=b" {
		out.B = rd(b)
	}
	return
}

// ---------------------------------------------------------------- comparison

type spDiff struct {
	Obj  string `json:"obj"`  // "kind" | "bool" | "dim" | "r" | "a" | "b"
	I    int    `json:"i"`    // element index (row major)
	Slot int    `json:"slot"` // -1 value, k: gradient slot k
	Exp  spNum  `json:"expected_dense"`
	Got  spNum  `json:"got"`
}

func (d spDiff) String() string {
	switch d.Obj {
	case "kind":
		return fmt.Sprintf("outcome kind: all-dense %v, this storage %v (0 ok, 1 panic)", d.Exp, d.Got)
	case "bool":
		return fmt.Sprintf("Equals: all-dense %v, this storage %v", d.Exp, d.Got)
	case "dim":
		return fmt.Sprintf("dimension of %s differs", []string{"r", "a", "b"}[d.I])
	case "prior":
		what := "value"
		if d.Slot >= 0 {
			what = fmt.Sprintf("derivative[%d]", d.Slot)
		}
		return fmt.Sprintf("r[%d] %s: with a zero receiver %v, with this prior content %v (all dense)", d.I, what, d.Exp, d.Got)
	}
	what := "value"
	if d.Slot >= 0 {
		what = fmt.Sprintf("derivative[%d]", d.Slot)
	}
	return fmt.Sprintf("%s[%d] %s: all-dense %v, this storage %v", d.Obj, d.I, what, d.Exp, d.Got)
}

type spSoft struct{ SignOfZero, OrderN int }

func spSame(a, b float64) (same, signOnly bool) {
	if math.IsNaN(a) && math.IsNaN(b) {
		return true, false
	}
	if a == b {
		return true, a == 0 && math.Signbit(a) != math.Signbit(b)
	}
	return false, false
}

func spCompare(ref, got spOut, soft *spSoft) []spDiff {
	var ds []spDiff
	if ref.Kind != got.Kind {
		return []spDiff{{Obj: "kind", Slot: -1, Exp: spNum(ref.Kind), Got: spNum(got.Kind)}}
	}
	if ref.Bool != got.Bool {
		ds = append(ds, spDiff{Obj: "bool", Slot: -1, Exp: spNum(ref.Bool), Got: spNum(got.Bool)})
	}
	one := func(name string, k int, x, y *spRead) {
		if x == nil || y == nil {
			return
		}
		if ref.Kind == 1 && name == "r" {
			return // a panicking call may leave its receiver partly written
		}
		if x.N != y.N || x.M != y.M || x.Panic != y.Panic || len(x.E) != len(y.E) {
			ds = append(ds, spDiff{Obj: "dim", I: k, Slot: -1})
			return
		}
		for i := range x.E {
			same, sign := spSame(x.E[i].V, y.E[i].V)
			if !same {
				ds = append(ds, spDiff{Obj: name, I: i, Slot: -1, Exp: spNum(x.E[i].V), Got: spNum(y.E[i].V)})
			} else if sign {
				soft.SignOfZero++
			}
			for s := 0; s < spNV; s++ {
				same, sign := spSame(x.E[i].D[s], y.E[i].D[s])
				if !same {
					ds = append(ds, spDiff{Obj: name, I: i, Slot: s, Exp: spNum(x.E[i].D[s]), Got: spNum(y.E[i].D[s])})
				} else if sign {
					soft.SignOfZero++
				}
			}
			if x.E[i].O != y.E[i].O || x.E[i].N != y.E[i].N {
				soft.OrderN++
			}
		}
	}
	one("r", 0, ref.R, got.R)
	one("a", 1, ref.A, got.A)
	one("b", 2, ref.B, got.B)
	return ds
}

// ---------------------------------------------------------------- known classes

// spKnown: NARROW matchers of the classes recorded in corpus/C03/known_findings_proposed.json.
// Each looks at the operation, at which of receiver/operands are sparse and present at the
// differing position, and at the value class of the elements there.  Everything not matched
// stays a failure.
func spKnownId(c spCase, d spDiff) string {
	for _, k := range spKnownTable {
		if k.match(c, d) {
			return k.id
		}
	}
	return ""
}

type spKnownClass struct {
	id    string
	match func(c spCase, d spDiff) bool
}

func spNonFin(e *spEl) bool {
	return e != nil && (math.IsNaN(float64(e.V)) || math.IsInf(float64(e.V), 0))
}
func spIsNaN(x spNum) bool { return math.IsNaN(float64(x)) }

// receiver object of a case after aliasing
func (c *spCase) recv() *spObj {
	switch c.Alias {
	case "r=a", "r=a=b":
		return c.A
	case "r=b":
		return c.B
	}
	return c.R
}

// element (i, j) of a matrix object / element i of a vector object
func (o *spObj) el(i, j int) *spEl {
	if o.isVec() {
		return &o.E[i]
	}
	return &o.E[i*o.M+j]
}

var spKnownTable = []spKnownClass{
	// (C03-MJOINT-DERIV0 — matrix joint iterators ending the walk at an element of value 0 with a
	// non-zero derivative — was fixed in /repo by e83c5e9 and its matcher removed: such a difference is
	// a failure again; regression cases in corpus/C03/special.jsonl.)
	// sparse VmulS / VdivS / MmulS / MdivS visit only the positions where the receiver or the operand has
	// a non-null element; 0 * (NaN | +-Inf) and 0 / NaN are NaN in the dense path
	{"C03-SCALAR-NONFINITE-ABSENT", func(c spCase, d spDiff) bool {
		switch c.Op {
		case "VmulS", "MmulS":
			if !spNonFin(c.S) {
				return false
			}
		case "VdivS", "MdivS":
			if !spIsNaN(c.S.V) {
				return false
			}
		default:
			return false
		}
		r := c.recv()
		if d.Obj != "r" || r == nil || r.St == 0 || !spIsNaN(d.Exp) || float64(d.Got) != 0 {
			return false
		}
		re, ae, _, _, ao, _ := c.at(d.I)
		if re == nil || ae == nil || !re.null() || !ae.null() {
			return false
		}
		return ao.St != 0 || !ao.isVec() // a dense VECTOR iterator delivers every position
	}},
	// sparse VdivV / MdivM: `if c1.GetFloat64() != 0.0 || c2.GetFloat64() == 0.0 { Div } else { reset r if its VALUE != 0 }`
	{"C03-DIV-ZERO-DIVIDEND", func(c spCase, d spDiff) bool {
		if c.Op != "VdivV" && c.Op != "MdivM" {
			return false
		}
		r := c.recv()
		if d.Obj != "r" || r == nil || r.St == 0 {
			return false
		}
		re, ae, be, _, _, _ := c.at(d.I)
		if ae == nil || be == nil || float64(ae.V) != 0 || float64(be.V) == 0 {
			return false
		}
		switch {
		case spIsNaN(be.V) && spIsNaN(d.Exp): // 0 / NaN
			return true
		case d.Slot >= 0 && ae.derivNonzero(): // the dividend's derivative is dropped
			return true
		case d.Slot >= 0 && re != nil && float64(re.V) == 0 && re.derivNonzero(): // the receiver keeps its old derivative
			return true
		}
		return false
	}},
	// sparse MdotM / MdotV / VdotM / Outer iterate over the non-null elements of the operands: a term
	// 0 * (NaN | +-Inf) is never formed
	{"C03-PRODUCT-NONFINITE", func(c spCase, d spDiff) bool {
		r := c.recv()
		if d.Obj != "r" || r == nil || r.St == 0 || !spIsNaN(d.Exp) {
			return false
		}
		pair := func(x, y *spEl) bool {
			return (x.null() && spNonFin(y)) || (y.null() && spNonFin(x))
		}
		switch c.Op {
		case "MdotM":
			i, q := d.I/r.M, d.I%r.M
			for j := 0; j < c.A.M; j++ {
				if pair(c.A.el(i, j), c.B.el(j, q)) {
					return true
				}
			}
		case "MdotV":
			for j := 0; j < c.A.M; j++ {
				if pair(c.A.el(d.I, j), c.B.el(j, 0)) {
					return true
				}
			}
		case "VdotM":
			for i := 0; i < c.B.N; i++ {
				if pair(c.A.el(i, 0), c.B.el(i, d.I)) {
					return true
				}
			}
		case "Outer":
			return pair(c.A.el(d.I/r.M, 0), c.B.el(d.I%r.M, 0))
		}
		return false
	}},
	// an element of value 0 whose gradient is ALLOCATED but all zero (order 1, e.g. the result of x - x) is
	// null for a sparse container; where it is absent the operations see ConstFloat64(0) of order 0, so a
	// partial 0 * Inf = NaN of the dense path (x/0, 0 * Inf) becomes 0
	{"C03-ABSENT-ORDER0", func(c spCase, d spDiff) bool {
		if d.Obj != "r" || d.Slot < 0 || !spIsNaN(d.Exp) || spIsNaN(d.Got) {
			return false
		}
		rs := c.recv() != nil && c.recv().St != 0
		// lost: null element with allocated gradient held by a sparse container, or by a dense MATRIX that a
		// sparse receiver walks with the matrix iterator (which skips null elements)
		lost := func(o *spObj, e *spEl) bool {
			return o != nil && e != nil && e.null() && e.D != nil && (o.St != 0 || (rs && !o.isVec()))
		}
		op := spFindOp(c.Op)
		if op.Elem {
			_, ae, be, _, ao, bo := c.at(d.I)
			return lost(ao, ae) || lost(bo, be)
		}
		r := c.recv()
		switch c.Op {
		case "MdotM":
			i, q := d.I/r.M, d.I%r.M
			for j := 0; j < c.A.M; j++ {
				if lost(c.A, c.A.el(i, j)) || lost(c.B, c.B.el(j, q)) {
					return true
				}
			}
		case "MdotV":
			for j := 0; j < c.A.M; j++ {
				if lost(c.A, c.A.el(d.I, j)) || lost(c.B, c.B.el(j, 0)) {
					return true
				}
			}
		case "VdotM":
			for i := 0; i < c.B.N; i++ {
				if lost(c.A, c.A.el(i, 0)) || lost(c.B, c.B.el(i, d.I)) {
					return true
				}
			}
		case "Outer":
			return lost(c.A, c.A.el(d.I/r.M, 0)) || lost(c.B, c.B.el(d.I%r.M, 0))
		}
		return false
	}},
	// MdotV with an n x 0 matrix / VdotM with a 0 x m matrix return before the receiver is reset: the
	// result (an empty sum, 0, at every position) is whatever the receiver held before — dense and sparse
	{"C03-MDOTV-EMPTY", func(c spCase, d spDiff) bool {
		if d.Obj != "prior" {
			return false
		}
		return (c.Op == "MdotV" && c.A.M == 0 && c.A.N > 0) || (c.Op == "VdotM" && c.B.N == 0 && c.B.M > 0)
	}},
}

// ---------------------------------------------------------------- generator

func spSmall(r *Rng) float64 {
	x := float64(r.Range(1, 4))
	if r.Bool() {
		return -x
	}
	return x
}

var spNonFinite = []float64{math.Inf(1), math.Inf(-1), math.NaN()}

// profile: 0 finite only, 1 non-finite mixed in
func spDrawEl(r *Rng, tn string, profile int, pzero int) spEl {
	var e spEl
	switch {
	case r.Intn(100) < pzero:
		e.V = 0
	case profile == 1 && r.Intn(4) == 0:
		e.V = spNum(spNonFinite[r.Intn(3)])
	default:
		e.V = spNum(spSmall(r))
	}
	if spIsReal(tn) {
		switch r.Intn(10) {
		case 0, 1, 2, 3: // no derivative storage
		case 4:
			e.D = []spNum{0, 0}
		case 5, 6:
			e.D = []spNum{spNum(spSmall(r)), 0}
		case 7:
			e.D = []spNum{0, spNum(spSmall(r))}
		default:
			e.D = []spNum{spNum(spSmall(r)), spNum(spSmall(r))}
		}
	}
	return e
}

func spDrawObj(r *Rng, tn string, n, m int, profile int, kind string) *spObj {
	o := &spObj{N: n, M: m}
	cnt := n
	if m >= 0 {
		cnt = n * m
	}
	pz := []int{30, 50, 70}[r.Intn(3)]
	for i := 0; i < cnt; i++ {
		var e spEl
		switch kind {
		case "zeros":
			e = spEl{}
		case "nan":
			e = spDrawEl(r, tn, profile, pz)
			if r.Intn(2) == 0 {
				e.V = spNum(math.NaN())
			}
		default:
			e = spDrawEl(r, tn, profile, pz)
		}
		o.E = append(o.E, e)
	}
	if cnt > 0 && r.Bool() {
		o.Zm = make([]bool, cnt)
		for i := range o.Zm {
			o.Zm[i] = r.Bool()
		}
	}
	return o
}

func spDraw(r *Rng, k int) spCase {
	types := []string{"float64", "real64", "float32", "real32"}
	c := spCase{Type: types[k%4]}
	op := spOps[r.Intn(len(spOps))]
	c.Op = op.Name
	profile := 1
	if r.Intn(3) == 0 {
		profile = 0
	}
	dims := map[string]int{}
	isMat := op.R[1] != "" || op.A[1] != "" || op.B[1] != ""
	for _, l := range []string{"n", "m", "k"} {
		if isMat {
			dims[l] = r.Range(0, 3)
			if r.Intn(3) > 0 {
				dims[l] = r.Range(1, 3)
			}
		} else {
			dims[l] = r.Range(0, 6)
			if r.Intn(3) == 0 {
				dims[l] = r.Range(0, 2)
			}
		}
	}
	mk := func(ax [2]string, kind string) *spObj {
		if ax[0] == "" {
			return nil
		}
		m := -1
		if ax[1] != "" {
			m = dims[ax[1]]
		}
		return spDrawObj(r, c.Type, dims[ax[0]], m, profile, kind)
	}
	c.A = mk(op.A, "")
	c.B = mk(op.B, "")
	prior := []string{"zeros", "zeros", "", "", "nan"}[r.Intn(5)]
	c.R = mk(op.R, prior)
	if op.Sc {
		var s spEl
		switch r.Intn(8) {
		case 0, 1:
			s = spDrawEl(r, c.Type, 0, 100) // 0
		case 2, 3, 4:
			if profile == 1 {
				s = spDrawEl(r, c.Type, 0, 0)
				s.V = spNum(spNonFinite[r.Intn(3)])
			} else {
				s = spDrawEl(r, c.Type, 0, 0)
			}
		default:
			s = spDrawEl(r, c.Type, 0, 0)
		}
		c.S = &s
	}
	if op.Eps {
		c.Eps = spNum([]float64{0.5, 1.5, 1e-9, 10}[r.Intn(4)])
	}
	if op.Elem && r.Intn(4) == 0 {
		switch {
		case op.Eps:
			c.Alias = "a=b"
		case c.B == nil:
			c.Alias = "r=a"
		default:
			c.Alias = []string{"r=a", "r=b", "r=a=b", "a=b"}[r.Intn(4)]
		}
	}
	spNormAlias(&c)
	return c
}

// spNormAlias drops the objects an aliasing pattern makes unused
func spNormAlias(c *spCase) {
	switch c.Alias {
	case "r=a", "r=b":
		c.R = nil
	case "r=a=b":
		c.R, c.B = nil, nil
	case "a=b":
		c.B = nil
	}
}

// objects of a case that are built (distinct containers)
func (c *spCase) objs() []*spObj {
	var l []*spObj
	for _, o := range []*spObj{c.R, c.A, c.B} {
		if o != nil {
			l = append(l, o)
		}
	}
	return l
}

// operand elements at row-major position i of the RECEIVER for element-wise operations,
// following the aliasing pattern: prior receiver content, a, b
func (c *spCase) at(i int) (r, a, b *spEl, ro, ao, bo *spObj) {
	ro, ao, bo = c.R, c.A, c.B
	switch c.Alias {
	case "r=a":
		ro = c.A
	case "r=b":
		ro = c.B
	case "r=a=b":
		ro, bo = c.A, c.A
	case "a=b":
		bo = c.A
	}
	g := func(o *spObj) *spEl {
		if o == nil || i < 0 || i >= len(o.E) {
			return nil
		}
		return &o.E[i]
	}
	return g(ro), g(ao), g(bo), ro, ao, bo
}

// ---------------------------------------------------------------- differential run of one draw

type spFinding struct {
	Id     string   `json:"id,omitempty"` // known class id ("" for a failure)
	Case   spCase   `json:"special"`
	Diffs  []spDiff `json:"diffs"`
	Text   string   `json:"text"`
	Shrunk bool     `json:"shrunk"`
}

// spCheck runs c (with the storages it carries) against the all-dense run of the same case
func spCheck(c spCase, soft *spSoft) []spDiff {
	ref := c.clone()
	for _, o := range ref.objs() {
		o.St = 0
	}
	return spCompare(spRun(ref), spRun(c), soft)
}

// spPrior: the all-dense run of c against the all-dense run with a zero receiver (differences are
// reported with Obj "prior": the result depends on the prior content of the receiver)
func spPrior(ref spCase, refOut spOut, soft *spSoft) []spDiff {
	if ref.R == nil {
		return nil
	}
	z := ref.clone()
	for i := range z.R.E {
		z.R.E[i] = spEl{}
	}
	zo := spRun(z)
	zo.A, zo.B = nil, nil
	var ds []spDiff
	for _, d := range spCompare(zo, refOut, soft) {
		if d.Obj == "r" {
			d.Obj = "prior"
		}
		ds = append(ds, d)
	}
	return ds
}

// spCheckAll: storage differences (when c carries a non-dense storage) else the prior-content check
func spCheckAll(c spCase, soft *spSoft) []spDiff {
	dense := true
	for _, o := range c.objs() {
		if o.St != 0 {
			dense = false
		}
	}
	if !dense {
		return spCheck(c, soft)
	}
	return spPrior(c, spRun(c), soft)
}

func spDescribe(c spCase, ds []spDiff) string {
	var sb strings.Builder
	fmt.Fprintf(&sb, "[%s] ", c.Type)
	name := func(which string) string {
		switch c.Alias {
		case "r=a":
			if which == "r" {
				return "a"
			}
		case "r=b":
			if which == "r" {
				return "b"
			}
		case "r=a=b":
			return "a"
		case "a=b":
			if which == "b" {
				return "a"
			}
		}
		return which
	}
	if c.R != nil {
		fmt.Fprintf(&sb, "r := %s; ", c.R)
	}
	if c.A != nil {
		fmt.Fprintf(&sb, "a := %s; ", c.A)
	}
	if c.B != nil {
		fmt.Fprintf(&sb, "b := %s; ", c.B)
	}
	op := spFindOp(c.Op)
	switch {
	case op.Eps:
		fmt.Fprintf(&sb, "%s.Equals(%s, %v)", name("a"), name("b"), c.Eps)
	case op.Sc:
		fmt.Fprintf(&sb, "%s.%s(%s, %s)", name("r"), c.Op, name("a"), c.S)
	case c.Op == "VSet" || c.Op == "MSet":
		fmt.Fprintf(&sb, "%s.Set(%s)", name("r"), name("a"))
	default:
		fmt.Fprintf(&sb, "%s.%s(%s, %s)", name("r"), c.Op, name("a"), name("b"))
	}
	for i, d := range ds {
		if i == 3 {
			fmt.Fprintf(&sb, "; ... (%d differences)", len(ds))
			break
		}
		who := d
		if who.Obj == "r" || who.Obj == "a" || who.Obj == "b" {
			who.Obj = name(d.Obj)
		}
		fmt.Fprintf(&sb, "; %s", who)
	}
	return sb.String()
}

// ---------------------------------------------------------------- shrinking

func spAxes(c spCase) map[*spObj][2]string {
	op := spFindOp(c.Op)
	m := map[*spObj][2]string{}
	if c.R != nil {
		m[c.R] = op.R
	}
	if c.A != nil {
		m[c.A] = op.A
	}
	if c.B != nil {
		m[c.B] = op.B
	}
	return m
}

// remove index idx of axis label from every object carrying that axis
func spRemoveAxis(c spCase, label string, idx int) (spCase, bool) {
	d := c.clone()
	ax := spAxes(d)
	did := false
	for _, o := range d.objs() {
		a := ax[o]
		for dim := 0; dim < 2; dim++ {
			if a[dim] != label {
				continue
			}
			var keep []spEl
			var keepz []bool
			if o.isVec() {
				if idx >= o.N {
					return c, false
				}
				for i := range o.E {
					if i != idx {
						keep = append(keep, o.E[i])
						if o.Zm != nil {
							keepz = append(keepz, o.Zm[i])
						}
					}
				}
				o.N--
			} else {
				if (dim == 0 && idx >= o.N) || (dim == 1 && idx >= o.M) {
					return c, false
				}
				for k := range o.E {
					i, j := k/o.M, k%o.M
					if (dim == 0 && i == idx) || (dim == 1 && j == idx) {
						continue
					}
					keep = append(keep, o.E[k])
					if o.Zm != nil {
						keepz = append(keepz, o.Zm[k])
					}
				}
				if dim == 0 {
					o.N--
				} else {
					o.M--
				}
			}
			o.E = keep
			if o.Zm != nil {
				o.Zm = keepz
			}
			did = true
		}
	}
	return d, did
}

func spSimplerEls(e spEl) []spEl {
	var l []spEl
	if !(float64(e.V) == 0 && e.D == nil) {
		l = append(l, spEl{})
	}
	if e.D != nil {
		l = append(l, spEl{V: e.V})
		if e.derivNonzero() {
			if !(e.D[0] == 1 && e.D[1] == 0) {
				l = append(l, spEl{V: e.V, D: []spNum{1, 0}})
			}
			l = append(l, spEl{V: e.V, D: []spNum{0, 0}})
		}
	}
	v := float64(e.V)
	if v != 0 && v != 1 && !math.IsNaN(v) && !math.IsInf(v, 0) {
		l = append(l, spEl{V: 1, D: e.D})
	}
	if math.IsInf(v, -1) {
		l = append(l, spEl{V: spNum(math.Inf(1)), D: e.D})
	}
	return l
}

// spShrink: greedy descent; keep(c) must stay true
func spShrink(c spCase, keep func(spCase) bool) spCase {
	for changed, rounds := true, 0; changed && rounds < 50; rounds++ {
		changed = false
		try := func(d spCase) bool {
			if keep(d) {
				c = d
				changed = true
				return true
			}
			return false
		}
		if c.Alias != "" {
			// un-alias: copies of the aliased object
			d := c.clone()
			switch c.Alias {
			case "r=a":
				d.R = d.A.clone()
			case "r=b":
				d.R = d.B.clone()
			case "r=a=b":
				d.R, d.B = d.A.clone(), d.A.clone()
			case "a=b":
				d.B = d.A.clone()
			}
			d.Alias = ""
			try(d)
		}
		for _, label := range []string{"n", "m", "k"} {
			for idx := 6; idx >= 0; idx-- {
				if d, ok := spRemoveAxis(c, label, idx); ok {
					try(d)
				}
			}
		}
		for oi := range c.objs() {
			o := c.objs()[oi]
			for st := 0; st < o.St; st++ {
				d := c.clone()
				d.objs()[oi].St = st
				if st < 2 {
					d.objs()[oi].Zm = nil
				}
				if try(d) {
					break
				}
			}
			o = c.objs()[oi]
			if o.St == 2 {
				for i := range o.E {
					if o.E[i].null() && (o.Zm == nil || o.Zm[i]) {
						d := c.clone()
						q := d.objs()[oi]
						if q.Zm == nil {
							q.Zm = make([]bool, len(q.E))
							for j := range q.Zm {
								q.Zm[j] = true
							}
						}
						q.Zm[i] = false
						try(d)
						o = c.objs()[oi]
					}
				}
			}
			for i := 0; i < len(c.objs()[oi].E); i++ {
				for _, e := range spSimplerEls(c.objs()[oi].E[i]) {
					d := c.clone()
					d.objs()[oi].E[i] = e
					if try(d) {
						break
					}
				}
			}
		}
		if c.S != nil {
			for _, e := range spSimplerEls(*c.S) {
				d := c.clone()
				e := e
				d.S = &e
				if try(d) {
					break
				}
			}
		}
	}
	return c
}

// spAutoKey: a descriptive key of one difference (operation, storage/presence pattern and
// value classes at the differing position) — used for the failure histogram
func spAutoKey(c spCase, d spDiff) string {
	op := spFindOp(c.Op)
	slot := "value"
	if d.Slot >= 0 {
		slot = "deriv"
	}
	if d.Obj != "r" && d.Obj != "bool" {
		return c.Op + "|" + d.Obj + "|" + slot
	}
	pres := func(o *spObj, i int) string {
		if o == nil {
			return "-"
		}
		if o.St == 0 {
			return "D"
		}
		if i < 0 || i >= len(o.E) {
			return "S"
		}
		if o.present(i) {
			return "Sp"
		}
		return "Sa"
	}
	cl := func(e *spEl) string {
		if e == nil {
			return "-"
		}
		return spClass(*e)
	}
	if op.Elem && d.Obj == "r" {
		re, ae, be, ro, ao, bo := c.at(d.I)
		k := fmt.Sprintf("%s|%s|r:%s/%s a:%s/%s b:%s/%s", c.Op, slot, pres(ro, d.I), cl(re), pres(ao, d.I), cl(ae), pres(bo, d.I), cl(be))
		if c.S != nil {
			k += " s:" + spClass(*c.S)
		}
		if c.Alias != "" {
			k += " alias:" + c.Alias
		}
		return k
	}
	return fmt.Sprintf("%s|%s|r:%s a:%s b:%s", c.Op, slot, pres(c.R, -1), pres(c.A, -1), pres(c.B, -1))
}

// class key of a set of differences of one run
func spKeys(c spCase, ds []spDiff) map[string]bool {
	m := map[string]bool{}
	for _, d := range ds {
		id := spKnownId(c, d)
		if id == "" {
			slot := "value"
			if d.Slot >= 0 {
				slot = "derivative"
			}
			id = "FAILURE:" + c.Op + ":" + d.Obj + ":" + slot
		}
		m[id] = true
	}
	return m
}

// ---------------------------------------------------------------- driver

type spReport struct {
	Draws          int                   `json:"draws"`
	Runs           int                   `json:"runs"`
	Comparisons    int                   `json:"comparisons"`
	Elements       int                   `json:"elements_compared"`
	PerOp          map[string]int        `json:"per_op"`
	PerType        map[string]int        `json:"per_type"`
	Hist           map[string]int        `json:"histogram"`
	Panics         int                   `json:"panic_outcomes"`
	SignOfZero     int                   `json:"sign_of_zero_differences_not_judged"`
	OrderN         int                   `json:"order_or_N_differences_not_judged"`
	KnownCounts    map[string]int        `json:"known_counts"`
	Known          map[string]*spFinding `json:"known"`
	FailureCount   int                   `json:"failure_count"`
	Failures       []*spFinding          `json:"failures"`
	FailureClasses map[string]int        `json:"failure_classes"`
	Probes         []spProbe             `json:"probes"`
	Rule           string                `json:"rule"`
}

const spRule = "special: per draw one element type of float64/real64/float32/real32, one operation of VaddV VsubV VmulV VdivV VaddS VsubS VmulS VdivS Set Equals(eps>0) (vectors, dim 0..6) MaddM MsubM MmulM MdivM MaddS MsubS MmulS MdivS Set MdotM Outer MdotV VdotM (matrices, shapes 0..3 x 0..3, rectangular), operand elements from {0, +-1..4, +Inf, -Inf, NaN} (1 draw in 3 finite only), Real elements with gradient none/zero/non-zero (value 0 with derivative != 0 included), scalar from {0, small, NaN, +-Inf} with gradient, prior receiver content empty/zeros/unrelated/NaN, 1 in 4 element-wise draws with an aliasing pattern r=a, r=b, r=a=b, a=b; every storage combination {dense, sparse, sparse+stored zeros}^(objects) compared with the all-dense run"

func spExamine(c spCase, rep *spReport, soft *spSoft, seenShrink map[string]int) {
	total := 1
	for range c.objs() {
		total *= 3
	}
	ref := c.clone()
	for _, o := range ref.objs() {
		o.St = 0
	}
	refOut := spRun(ref)
	rep.Runs++
	if refOut.Kind == 1 {
		rep.Panics++
	}
	handle := func(d spCase, ds []spDiff) {
		for _, x := range ds {
			if spKnownId(d, x) == "" {
				rep.FailureClasses[spAutoKey(d, x)]++
			}
		}
		for key := range spKeys(d, ds) {
			known := !strings.HasPrefix(key, "FAILURE:")
			if known {
				rep.KnownCounts[key]++
			} else {
				rep.FailureCount++
			}
			if seenShrink[key] >= 4 {
				continue
			}
			seenShrink[key]++
			key := key
			keep := func(e spCase) bool {
				var s spSoft
				es := spCheckAll(e, &s)
				return len(es) > 0 && spKeys(e, es)[key]
			}
			small := spShrink(d, keep)
			var s spSoft
			var mine []spDiff
			for _, x := range spCheckAll(small, &s) {
				id := spKnownId(small, x)
				if (known && id == key) || (!known && id == "") {
					mine = append(mine, x)
				}
			}
			f := &spFinding{Case: small, Diffs: mine, Text: spDescribe(small, mine), Shrunk: true}
			if known {
				f.Id = key
				if old, ok := rep.Known[key]; !ok || spSize(small) < spSize(old.Case) {
					rep.Known[key] = f
				}
			} else if len(rep.Failures) < 60 {
				rep.Failures = append(rep.Failures, f)
			}
		}
	}
	// the all-dense result must not depend on what the receiver held before
	if ref.R != nil {
		rep.Runs++
		rep.Comparisons++
		if pd := spPrior(ref, refOut, soft); len(pd) > 0 {
			handle(ref, pd)
		}
	}
	for st := 1; st < total; st++ {
		d := c.clone()
		x := st
		for _, o := range d.objs() {
			o.St = x % 3
			x /= 3
		}
		got := spRun(d)
		rep.Runs++
		rep.Comparisons++
		for _, r := range []*spRead{got.R, got.A, got.B} {
			if r != nil {
				rep.Elements += len(r.E)
			}
		}
		if ds := spCompare(refOut, got, soft); len(ds) > 0 {
			handle(d, ds)
		}
	}
}

func spSize(c spCase) int {
	n := 0
	for _, o := range c.objs() {
		n += 2 + 3*len(o.E) + o.St
		for _, e := range o.E {
			if !e.null() {
				n += 2
			}
		}
	}
	if c.Alias != "" {
		n += 2
	}
	return n
}

func special(o Opts) {
	rep := &spReport{PerOp: map[string]int{}, PerType: map[string]int{}, Hist: map[string]int{},
		KnownCounts: map[string]int{}, Known: map[string]*spFinding{}, Failures: []*spFinding{}, FailureClasses: map[string]int{}, Rule: spRule}
	soft := &spSoft{}
	seen := map[string]int{}
	if o.Replay != "" {
		b, err := os.ReadFile(o.Replay)
		if err != nil {
			Die("%v", err)
		}
		var rp struct {
			Special *spCase `json:"special"`
		}
		if err := json.Unmarshal(b, &rp); err != nil || rp.Special == nil {
			Die("special replay: no 'special' case in %s (%v)", o.Replay, err)
		}
		c := *rp.Special
		spNormAlias(&c)
		ds := spCheckAll(c, soft)
		res := map[string]interface{}{"special": c, "text": spDescribe(c, ds), "differences": len(ds)}
		unmatched := 0
		ids := map[string]bool{}
		for _, d := range ds {
			if id := spKnownId(c, d); id == "" {
				unmatched++
			} else {
				ids[id] = true
			}
		}
		res["unmatched"] = unmatched
		res["fails"] = unmatched > 0
		kl := []string{}
		for id := range ids {
			kl = append(kl, id)
		}
		sort.Strings(kl)
		res["known_ids"] = kl
		bb, _ := json.MarshalIndent(res, "", " ")
		os.MkdirAll(o.Out, 0755)
		os.WriteFile(o.Out+"/special_replay.json", bb, 0644)
		return
	}
	// the recorded witnesses first (corpus), then the probes, then the random draws
	for _, c := range spCorpus(o) {
		rep.Hist["corpus"]++
		spExamine(c, rep, soft, seen)
	}
	rep.Probes = spProbes()
	for k := 0; k < o.N; k++ {
		r := NewRng(o.Seed*1000003 + uint64(k) + 77)
		c := spDraw(r, k)
		rep.Draws++
		rep.PerOp[c.Op]++
		rep.PerType[c.Type]++
		if c.Alias != "" {
			rep.Hist["alias:"+c.Alias]++
		}
		nonfin, dz := false, false
		for _, ob := range c.objs() {
			for _, e := range ob.E {
				cl := spClass(e)
				if strings.HasPrefix(cl, "nan") || strings.HasPrefix(cl, "inf") {
					nonfin = true
				}
				if cl == "zero+d" {
					dz = true
				}
			}
		}
		if c.S != nil {
			cl := spClass(*c.S)
			rep.Hist["scalar:"+cl]++
			if strings.HasPrefix(cl, "nan") || strings.HasPrefix(cl, "inf") {
				nonfin = true
			}
		}
		if nonfin {
			rep.Hist["draws with non-finite operand/scalar/prior"]++
		}
		if dz {
			rep.Hist["draws with an element of value 0 and derivative != 0"]++
		}
		spExamine(c, rep, soft, seen)
	}
	rep.SignOfZero, rep.OrderN = soft.SignOfZero, soft.OrderN
	b, _ := json.MarshalIndent(rep, "", " ")
	os.MkdirAll(o.Out, 0755)
	if err := os.WriteFile(o.Out+"/special.json", b, 0644); err != nil {
		Die("%v", err)
	}
}

// spCorpus: corpus/C03/special.jsonl (one {"special": case} per line) next to the vector corpus
func spCorpus(o Opts) []spCase {
	var cs []spCase
	path := strings.TrimPrefix(strings.TrimPrefix(o.Extra, "special"), ":")
	if path == "" {
		return cs
	}
	b, err := os.ReadFile(path)
	if err != nil {
		return cs
	}
	for _, line := range strings.Split(string(b), "\n") {
		line = strings.TrimSpace(line)
		if line == "" || strings.HasPrefix(line, "#") {
			continue
		}
		var rp struct {
			Special *spCase `json:"special"`
		}
		if err := json.Unmarshal([]byte(line), &rp); err != nil || rp.Special == nil {
			Die("special corpus: %v in %q", err, line)
		}
		spNormAlias(rp.Special)
		cs = append(cs, *rp.Special)
	}
	return cs
}

// ---------------------------------------------------------------- probes

// spProbe: direct questions asked of the implementation (reported, see props/c03.py)
type spProbe struct {
	Id       string `json:"id"`
	Question string `json:"question"`
	Observed string `json:"observed"`
	Holds    bool   `json:"finding_reproduces"`
}

func spProbes() []spProbe {
	var ps []spProbe
	// MdotV with an n x 0 matrix, VdotM with a 0 x m matrix: the empty sum is 0 at every
	// position; does the receiver keep its prior content instead?
	for _, tn := range []string{"float64", "real64"} {
		st := scalarType(tn)
		for _, sparse := range []bool{false, true} {
			for _, which := range []string{"MdotV", "VdotM"} {
				var r ad.Vector
				if sparse {
					r = ad.NullSparseVector(st, 2)
				} else {
					r = ad.NullDenseVector(st, 2)
				}
				r.At(0).SetFloat64(7)
				r.At(1).SetFloat64(5)
				kept := false
				func() {
					defer func() { recover() }()
					if which == "MdotV" {
						r.MdotV(ad.NullDenseMatrix(st, 2, 0), ad.NullDenseVector(st, 0))
					} else {
						r.VdotM(ad.NullDenseVector(st, 0), ad.NullDenseMatrix(st, 0, 2))
					}
				}()
				kept = r.ConstAt(0).GetFloat64() == 7 || r.ConstAt(1).GetFloat64() == 5
				sn := "dense"
				if sparse {
					sn = "sparse"
				}
				shape := "2x0 matrix, empty vector"
				if which == "VdotM" {
					shape = "empty vector, 0x2 matrix"
				}
				ps = append(ps, spProbe{Id: "C03-MDOTV-EMPTY",
					Question: fmt.Sprintf("[%s] %s receiver [7 5]: r.%s(%s) — expected [0 0] (empty sums)", tn, sn, which, shape),
					Observed: fmt.Sprintf("[%v %v]", r.ConstAt(0).GetFloat64(), r.ConstAt(1).GetFloat64()), Holds: kept})
			}
		}
	}
	return ps
}
