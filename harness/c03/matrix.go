// C03 harness, matrix part: histories over dense and sparse MATRICES (neither
// sliced nor transposed) and vectors: element-wise and scalar operations, MdotM,
// Outer, MdotV, VdotM, Set, SetIdentity, Reset, Equals, conversions — every
// receiver/operand storage combination.  The values vector of a sparse matrix
// (m.AsVector() returns the private vector itself for an unsliced matrix) is
// registered as a sparse vector of the world, so its private map and index keys
// are observed like those of any other vector.
package main

import (
	"fmt"

	. "adharness/common"

	ad "github.com/pbenner/autodiff"
)

// MOp is one operation of a matrix history: either a vector op (V) or a matrix op.
type MOp struct {
	Op string  `json:"op"`
	V  *Op     `json:"v,omitempty"`
	MR Ref     `json:"mr"` // matrix refs: S = sparse matrix
	MA Ref     `json:"ma"`
	MB Ref     `json:"mb"`
	R  Ref     `json:"r"` // vector refs
	A  Ref     `json:"a"`
	B  Ref     `json:"b"`
	F  string  `json:"f,omitempty"`
	I  int64   `json:"i,omitempty"`
	X  int64   `json:"x,omitempty"`
	N  int64   `json:"n,omitempty"` // rows
	M  int64   `json:"m,omitempty"` // cols
	L  []int64 `json:"l,omitempty"`
	L2 []int64 `json:"l2,omitempty"`
}
type MCase struct {
	Type string `json:"type"`
	Ops  []MOp  `json:"ops"`
	Outs []Out  `json:"outs,omitempty"`
}

type MWorld struct {
	World
	SM  []ad.Matrix
	SMh []int // handle of the values vector in S
	DM  []ad.Matrix
}

func (w *MWorld) getm(r Ref) ad.Matrix {
	if r.S {
		return w.SM[r.H]
	}
	return w.DM[r.H]
}
func (w *MWorld) addSM(m ad.Matrix) {
	w.S = append(w.S, m.AsVector())
	w.SMh = append(w.SMh, len(w.S)-1)
	w.SM = append(w.SM, m)
}

func (w *MWorld) execM(o MOp) (kind int64, payload []int64) {
	payload = []int64{}
	if o.Op == "V" {
		return w.execOne(*o.V)
	}
	defer func() {
		if r := recover(); r != nil {
			kind = K_PANIC
			payload = []int64{}
		}
	}()
	st := scalarType(w.Type)
	sc := func(x int64) ad.Scalar { return ad.NewScalar(st, float64(x)) }
	switch o.Op {
	case "NewSM":
		m := ad.NullSparseMatrix(st, int(o.N), int(o.M))
		for i, k := range o.L {
			if o.L2[i] != 0 {
				m.At(int(k/o.M), int(k%o.M)).SetFloat64(float64(o.L2[i]))
			}
		}
		w.addSM(m)
	case "NewDM":
		m := ad.NullDenseMatrix(st, int(o.N), int(o.M))
		for k, x := range o.L {
			m.At(k/int(o.M), k%int(o.M)).SetFloat64(float64(x))
		}
		w.DM = append(w.DM, m)
	case "AsDenseM":
		w.DM = append(w.DM, ad.AsDenseMatrix(st, w.getm(o.MA)))
	case "AsSparseM":
		w.addSM(ad.AsSparseMatrix(st, w.getm(o.MA)))
	case "MSetAt":
		m := w.getm(o.MR)
		_, c := m.Dims()
		if c == 0 || o.I < 0 {
			panic("index")
		}
		m.At(int(o.I)/c, int(o.I)%c).SetFloat64(float64(o.X))
	case "MopM":
		r, a, b := w.getm(o.MR), w.getm(o.MA), w.getm(o.MB)
		switch o.F {
		case "Add":
			r.MaddM(a, b)
		case "Sub":
			r.MsubM(a, b)
		default:
			r.MmulM(a, b)
		}
	case "MdivM":
		w.getm(o.MR).MdivM(w.getm(o.MA), w.getm(o.MB))
	case "MaddS":
		w.getm(o.MR).MaddS(w.getm(o.MA), sc(o.X))
	case "MsubS":
		w.getm(o.MR).MsubS(w.getm(o.MA), sc(o.X))
	case "MmulS":
		w.getm(o.MR).MmulS(w.getm(o.MA), sc(o.X))
	case "MdivS":
		w.getm(o.MR).MdivS(w.getm(o.MA), sc(o.X))
	case "MSet":
		w.getm(o.MR).Set(w.getm(o.MA))
	case "MSetIdentity":
		w.getm(o.MR).SetIdentity()
	case "MReset":
		w.getm(o.MR).Reset()
	case "MEquals":
		if w.getm(o.MA).Equals(w.getm(o.MB), float64(o.X)/2) {
			payload = append(payload, 1)
		} else {
			payload = append(payload, 0)
		}
	case "MdotM":
		w.getm(o.MR).MdotM(w.getm(o.MA), w.getm(o.MB))
	case "MJoint":
		// the PUBLIC two-way joint iterator of a sparse matrix: the visit sequence is the observable
		// (per visit: linear index, s1 != nil, value of s1, value of s2)
		a, b := w.SM[o.MA.H], w.getm(o.MB)
		n1, c1 := a.Dims()
		n2, c2 := b.Dims()
		if n1 != n2 || c1 != c2 {
			panic("dims")
		}
		visits := 0
		for it := a.JointIterator(b); it.Ok(); it.Next() {
			if visits++; visits > 4*(n1*c1+2) {
				panic("joint iterator does not terminate")
			}
			i, j := it.Index()
			s1, s2 := it.GetConst()
			has, v1 := int64(0), int64(0)
			if s1 != nil {
				has, v1 = 1, code(s1.GetFloat64())
			}
			payload = append(payload, int64(i*c1+j), has, v1, code(s2.GetFloat64()))
		}
	case "MOuter":
		w.getm(o.MR).Outer(w.get(o.A), w.get(o.B))
	case "MdotV":
		w.get(o.R).MdotV(w.getm(o.MA), w.get(o.B))
	case "VdotM":
		w.get(o.R).VdotM(w.get(o.A), w.getm(o.MB))
	default:
		Die("unknown matrix op %s", o.Op)
	}
	return
}

func readM(m ad.Matrix) (int, int, []int64) {
	n, c := m.Dims()
	r := []int64{}
	for i := 0; i < n; i++ {
		for j := 0; j < c; j++ {
			r = append(r, code(m.Float64At(i, j)))
		}
	}
	return n, c, r
}

func (w *MWorld) observeM() int64 {
	_, h := w.observe() // vectors: obs3
	h = hashList(h, []int64{SEP, SEP})
	for i, m := range w.SM {
		n, c := m.Dims()
		h = hashList(h, []int64{int64(w.SMh[i]), int64(n), int64(c), SEP})
	}
	h = hashList(h, []int64{SEP})
	for _, m := range w.DM {
		n, c, l := readM(m)
		h = hashList(h, []int64{int64(n), int64(c), SEP})
		h = hashList(h, l)
		h = hashList(h, []int64{SEP})
	}
	return h
}

func executeM(c MCase) []Out {
	w := &MWorld{World: World{Type: c.Type}}
	outs := make([]Out, 0, len(c.Ops))
	for _, o := range c.Ops {
		k, p := w.execM(o)
		outs = append(outs, Out{k, p, w.observeM()})
	}
	return outs
}

// ---------------------------------------------------------------- Coq printing

func coqM(r Ref) string {
	if r.S {
		return fmt.Sprintf("(XS %d)", r.H)
	}
	return fmt.Sprintf("(XD %d)", r.H)
}
func coqMOp(o MOp) string {
	switch o.Op {
	case "V":
		return "V (" + coqOp(*o.V) + ")"
	case "NewSM":
		return fmt.Sprintf("NewSM %s %s %s %s", ZList(o.L), ZList(o.L2), Z(o.N), Z(o.M))
	case "NewDM":
		return fmt.Sprintf("NewDM %s %s %s", ZList(o.L), Z(o.N), Z(o.M))
	case "AsDenseM", "AsSparseM":
		return o.Op + " " + coqM(o.MA)
	case "MSetAt":
		return fmt.Sprintf("MSetAt %s %s %s", coqM(o.MR), Z(o.I), Z(o.X))
	case "MopM":
		return fmt.Sprintf("MopM %s %s %s %s", o.F, coqM(o.MR), coqM(o.MA), coqM(o.MB))
	case "MdivM", "MdotM":
		return fmt.Sprintf("%s %s %s %s", o.Op, coqM(o.MR), coqM(o.MA), coqM(o.MB))
	case "MaddS", "MsubS", "MmulS", "MdivS":
		return fmt.Sprintf("%s %s %s %s", o.Op, coqM(o.MR), coqM(o.MA), Z(o.X))
	case "MSet":
		return fmt.Sprintf("MSet %s %s", coqM(o.MR), coqM(o.MA))
	case "MSetIdentity", "MReset":
		return o.Op + " " + coqM(o.MR)
	case "MEquals":
		return fmt.Sprintf("MEquals %s %s %s", coqM(o.MA), coqM(o.MB), Z(o.X))
	case "MJoint":
		return fmt.Sprintf("MJoint %d %s", o.MA.H, coqM(o.MB))
	case "MOuter":
		return fmt.Sprintf("MOuter %s %s %s", coqM(o.MR), coqRef(o.A), coqRef(o.B))
	case "MdotV":
		return fmt.Sprintf("MdotV %s %s %s", coqRef(o.R), coqM(o.MA), coqRef(o.B))
	case "VdotM":
		return fmt.Sprintf("VdotM %s %s %s", coqRef(o.R), coqRef(o.A), coqM(o.MB))
	}
	Die("coqMOp: unknown op %s", o.Op)
	return ""
}
func coqMCase(c MCase) string {
	ops := make([]string, len(c.Ops))
	for i, o := range c.Ops {
		ops[i] = coqMOp(o)
	}
	outs := make([]string, len(c.Outs))
	for i, o := range c.Outs {
		outs[i] = fmt.Sprintf("(%s, %s, %s)", Z(o.K), ZList(o.P), Z(o.H))
	}
	return "(" + coqTy(c.Type) + ", " + List(ops) + ",\n   " + List(outs) + ")"
}

const hdrM = "From Coq Require Import ZArith List Bool. Import ListNotations.\nFrom ADV Require Import C11.Model C03.Model C03.ModelM C03.Corr C03.CorrM.\nOpen Scope Z_scope.\n"

const ruleM = "matrix histories: shapes n x m, n x k, k x m with n, m, k in 0..4 (mostly 1..4, rectangular), 2 sparse + 2 dense matrices per shape class and a sparse and a dense vector of lengths n and m, created with the zero patterns of the vector histories (sparse matrices also with explicit stored zeros: At(i,j)=0, AsSparse of a dense matrix, cancelling arithmetic), then 6-12 operations drawn from MaddM/MsubM/MmulM/MdivM/MaddS/MsubS/MmulS/MdivS/Set/SetIdentity/Reset/Equals/MdotM/Outer/MdotV/VdotM/At(i,j)=x/AsDenseMatrix/AsSparseMatrix with receiver and operands drawn independently dense or sparse; a case is non-trivial iff it has >= 3 arithmetic operations, >= 1 with mixed storage and >= 1 product (MdotM/Outer/MdotV/VdotM)"

// ---------------------------------------------------------------- generator

type mgen struct {
	r       *Rng
	w       *MWorld
	tn      string
	c       MCase
	cw      *CaseWriter
	n, m, k int
	nm      []Ref // matrices n x m
	nk      []Ref
	km      []Ref
	vn      []Ref // vectors of length n
	vm      []Ref
	arith   int
	mixed   bool
	prod    bool
	dead    bool
}

func (g *mgen) count(s string) {
	if g.cw != nil {
		g.cw.Count(s)
	}
}
func (g *mgen) do(o MOp) int64 {
	k, p := g.w.execM(o)
	h := g.w.observeM()
	g.c.Ops = append(g.c.Ops, o)
	g.c.Outs = append(g.c.Outs, Out{k, p, h})
	name := o.Op
	if o.V != nil {
		name = "V:" + o.V.Op
	}
	g.count("op:" + name)
	if k == K_PANIC {
		g.count("outcome:panic")
	}
	for _, m := range g.w.DM {
		_, _, l := readM(m)
		for _, x := range l {
			if x == NAN || x == PINF || x == NINF {
				g.dead = true
			}
		}
	}
	for _, m := range g.w.SM {
		_, _, l := readM(m)
		for _, x := range l {
			if x == NAN || x == PINF || x == NINF {
				g.dead = true
			}
		}
	}
	return k
}
func (g *mgen) mvals(x Ref) []int64 {
	_, _, l := readM(g.w.getm(x))
	return l
}
func (g *mgen) newM(n, m int, sparse bool) Ref {
	l, kind := pattern(g.r, n*m)
	g.count("pattern:" + kind)
	if !sparse {
		g.do(MOp{Op: "NewDM", L: l, N: int64(n), M: int64(m)})
		return Ref{false, len(g.w.DM) - 1}
	}
	switch g.r.Intn(3) {
	case 0:
		g.do(MOp{Op: "NewDM", L: l, N: int64(n), M: int64(m)})
		g.do(MOp{Op: "AsSparseM", MA: Ref{false, len(g.w.DM) - 1}})
	default:
		ks, xs := []int64{}, []int64{}
		for i := len(l) - 1; i >= 0; i-- {
			if l[i] != 0 || g.r.Intn(4) == 0 {
				ks = append(ks, int64(i))
				xs = append(xs, l[i])
			}
		}
		g.do(MOp{Op: "NewSM", L: ks, L2: xs, N: int64(n), M: int64(m)})
		x := Ref{true, len(g.w.SM) - 1}
		if n*m > 0 && g.r.Bool() { // explicit stored zeros
			g.do(MOp{Op: "MSetAt", MR: x, I: int64(g.r.Intn(n * m)), X: 0})
		}
	}
	return Ref{true, len(g.w.SM) - 1}
}
func (g *mgen) newV(n int, sparse bool) Ref {
	l, _ := pattern(g.r, n)
	if !sparse {
		g.do(MOp{Op: "V", V: &Op{Op: "NewD", L: l}})
		return Ref{false, len(g.w.D) - 1}
	}
	ks, xs := []int64{}, []int64{}
	for i, x := range l {
		if x != 0 {
			ks = append(ks, int64(i))
			xs = append(xs, x)
		}
	}
	g.do(MOp{Op: "V", V: &Op{Op: "NewS", L: ks, L2: xs, I: int64(n)}})
	x := Ref{true, len(g.w.S) - 1}
	if n > 0 && g.r.Bool() {
		g.do(MOp{Op: "V", V: &Op{Op: "SetAt", R: x, I: int64(g.r.Intn(n)), X: 0}})
	}
	return x
}
func (g *mgen) note(refs ...Ref) {
	s, d := false, false
	for _, x := range refs {
		if x.S {
			s = true
		} else {
			d = true
		}
	}
	if s && d {
		g.mixed = true
		g.count("storage:mixed")
	} else if s {
		g.count("storage:all-sparse")
	} else {
		g.count("storage:all-dense")
	}
}
func pickRef(r *Rng, l []Ref) Ref { return l[r.Intn(len(l))] }

func (g *mgen) renormM(x Ref) {
	n, m := g.w.getm(x).Dims()
	src := g.newM(n, m, g.r.Bool())
	g.do(MOp{Op: "MSet", MR: x, MA: src})
	g.count("renorm")
}

func (g *mgen) step() {
	cp := valueCap(g.tn)
	pool := [][]Ref{g.nm, g.nm, g.nk, g.km}[g.r.Intn(4)]
	rcv := pickRef(g.r, pool)
	op := func() Ref {
		if g.r.Intn(8) == 0 {
			return rcv
		}
		return pickRef(g.r, pool)
	}
	total := len(g.w.SM) + len(g.w.DM)
	switch g.r.Pick([]int{24, 6, 5, 5, 6, 6, 8, 5, 3, 8, 12, 6, 6, 6, 6, 2, 2}) {
	case 0:
		a, b := op(), op()
		f := []string{"Add", "Sub", "Mul"}[g.r.Intn(3)]
		ma, mb := maxAbs(g.mvals(a)), maxAbs(g.mvals(b))
		if (f == "Mul" && ma*mb > cp) || (f != "Mul" && ma+mb > cp) {
			if ma > mb {
				g.renormM(a)
			} else {
				g.renormM(b)
			}
			return
		}
		g.note(rcv, a, b)
		g.arith++
		g.do(MOp{Op: "MopM", F: f, MR: rcv, MA: a, MB: b})
	case 1:
		a := op()
		var b Ref
		if isIntType(g.tn) && g.r.Bool() {
			b = op()
		} else {
			if total >= 16 {
				return
			}
			av := g.mvals(a)
			l := make([]int64, len(av))
			for i, x := range av {
				if x == 0 {
					l[i] = nz(g.r)
				} else {
					ds := divisors(x)
					l[i] = ds[g.r.Intn(len(ds))]
				}
			}
			if len(l) > 0 && g.r.Intn(10) == 0 {
				l[g.r.Intn(len(l))] = 0
				g.count("division:zero-divisor")
			}
			n, m := g.w.getm(a).Dims()
			if g.r.Bool() {
				g.do(MOp{Op: "NewDM", L: l, N: int64(n), M: int64(m)})
				b = Ref{false, len(g.w.DM) - 1}
			} else {
				ks := make([]int64, len(l))
				for i := range ks {
					ks[i] = int64(i)
				}
				g.do(MOp{Op: "NewSM", L: ks, L2: l, N: int64(n), M: int64(m)})
				b = Ref{true, len(g.w.SM) - 1}
			}
		}
		g.note(rcv, a, b)
		g.arith++
		g.do(MOp{Op: "MdivM", MR: rcv, MA: a, MB: b})
	case 2, 3:
		a := op()
		if maxAbs(g.mvals(a))+8 > cp {
			g.renormM(a)
			return
		}
		g.note(rcv, a)
		g.arith++
		name := "MaddS"
		if g.r.Bool() {
			name = "MsubS"
		}
		g.do(MOp{Op: name, MR: rcv, MA: a, X: int64(g.r.Range(-8, 8))})
	case 4:
		a := op()
		if maxAbs(g.mvals(a))*8 > cp {
			g.renormM(a)
			return
		}
		g.note(rcv, a)
		g.arith++
		g.do(MOp{Op: "MmulS", MR: rcv, MA: a, X: int64(g.r.Range(-8, 8))})
	case 5:
		a := op()
		s := nz(g.r)
		if !isIntType(g.tn) {
			ok := []int64{}
			for d := int64(-8); d <= 8; d++ {
				if d == 0 {
					continue
				}
				all := true
				for _, x := range g.mvals(a) {
					if x%d != 0 {
						all = false
					}
				}
				if all {
					ok = append(ok, d)
				}
			}
			s = ok[g.r.Intn(len(ok))]
		}
		if g.r.Intn(10) == 0 {
			s = 0
			g.count("division:zero-divisor")
		}
		g.note(rcv, a)
		g.arith++
		g.do(MOp{Op: "MdivS", MR: rcv, MA: a, X: s})
	case 6:
		a := op()
		g.note(rcv, a)
		g.do(MOp{Op: "MSet", MR: rcv, MA: a})
	case 7:
		g.do(MOp{Op: "MSetIdentity", MR: rcv})
	case 8:
		g.do(MOp{Op: "MReset", MR: rcv})
	case 9:
		b := op()
		if g.r.Intn(3) == 0 {
			g.do(MOp{Op: "MSet", MR: b, MA: rcv})
		}
		g.note(rcv, b)
		g.do(MOp{Op: "MEquals", MA: rcv, MB: b, X: []int64{1, 1, 2, 3, 5, 20, 40}[g.r.Intn(7)]})
	case 10:
		r, a, b := pickRef(g.r, g.nm), pickRef(g.r, g.nk), pickRef(g.r, g.km)
		// receiver among the operands (square shapes only): r = a, r = b, r = a = b.  A sparse
		// receiver must panic; a dense one computes the product for r = a or r = b and takes the
		// wrong (column-buffered) schedule for r = a = b (known finding F-MDOTM-RR).
		if g.n == g.k && g.k == g.m && g.r.Intn(2) == 0 {
			switch g.r.Intn(3) {
			case 0:
				a = r
				g.count("MdotM:r=a")
			case 1:
				b = r
				g.count("MdotM:r=b")
			default:
				a, b = r, r
				g.count("MdotM:r=a=b")
			}
		} else if r == a || r == b {
			return
		}
		if maxAbs(g.mvals(a))*maxAbs(g.mvals(b))*int64(g.k)+maxAbs(g.mvals(r)) > cp {
			g.renormM(a)
			g.renormM(b)
			g.renormM(r)
			return
		}
		g.note(r, a, b)
		g.arith++
		g.prod = true
		g.do(MOp{Op: "MdotM", MR: r, MA: a, MB: b})
	case 11:
		r, a, b := pickRef(g.r, g.nm), pickRef(g.r, g.vn), pickRef(g.r, g.vm)
		if maxAbs(g.w.vecVals(a))*maxAbs(g.w.vecVals(b)) > cp {
			return
		}
		g.note(r, a, b)
		g.arith++
		g.prod = true
		g.do(MOp{Op: "MOuter", MR: r, A: a, B: b})
	case 12:
		r, a, b := pickRef(g.r, g.vn), pickRef(g.r, g.nm), pickRef(g.r, g.vm)
		if r == b || maxAbs(g.mvals(a))*maxAbs(g.w.vecVals(b))*int64(g.m) > cp {
			return
		}
		g.note(r, a, b)
		g.arith++
		g.prod = true
		g.do(MOp{Op: "MdotV", R: r, MA: a, B: b})
	case 13:
		r, a, b := pickRef(g.r, g.vm), pickRef(g.r, g.vn), pickRef(g.r, g.nm)
		if r == a || maxAbs(g.mvals(b))*maxAbs(g.w.vecVals(a))*int64(g.n) > cp {
			return
		}
		g.note(r, a, b)
		g.arith++
		g.prod = true
		g.do(MOp{Op: "VdotM", R: r, A: a, MB: b})
	case 14:
		n, m := g.w.getm(rcv).Dims()
		i := int64(g.r.Range(0, n*m))
		if n*m > 0 && g.r.Intn(12) != 0 {
			i = int64(g.r.Intn(n * m))
		}
		x := int64(0)
		if g.r.Bool() {
			x = nz(g.r)
		}
		g.do(MOp{Op: "MSetAt", MR: rcv, I: i, X: x})
	case 15:
		if total < 16 {
			g.do(MOp{Op: "AsDenseM", MA: rcv})
		}
	case 16:
		if total < 16 {
			g.do(MOp{Op: "AsSparseM", MA: rcv})
		}
	}
}

func (w *World) vecVals(x Ref) []int64 {
	v := w.get(x)
	r := make([]int64, v.Dim())
	for i := range r {
		r[i] = code(v.Float64At(i))
	}
	return r
}

func genMCase(r *Rng, tn string, cw *CaseWriter) (MCase, bool) {
	g := &mgen{r: r, w: &MWorld{World: World{Type: tn}}, tn: tn, cw: cw}
	g.c.Type = tn
	dim := func() int {
		if r.Intn(10) == 0 {
			return 0
		}
		return r.Range(1, 4)
	}
	g.n, g.m, g.k = dim(), dim(), dim()
	if r.Intn(5) == 0 { // square shapes: the only ones where MdotM can have its receiver among the operands
		g.m, g.k = g.n, g.n
	}
	g.count(fmt.Sprintf("shape:%dx%dx%d", g.n, g.k, g.m))
	for i := 0; i < 4; i++ {
		g.nm = append(g.nm, g.newM(g.n, g.m, i%2 == 0))
	}
	for i := 0; i < 2; i++ {
		g.nk = append(g.nk, g.newM(g.n, g.k, i%2 == 0))
		g.km = append(g.km, g.newM(g.k, g.m, i%2 == 0))
	}
	for i := 0; i < 2; i++ {
		g.vn = append(g.vn, g.newV(g.n, i%2 == 0))
		g.vm = append(g.vm, g.newV(g.m, i%2 == 0))
	}
	steps := r.Range(6, 12)
	for s := 0; s < steps && !g.dead; s++ {
		g.step()
	}
	return g.c, g.arith >= 3 && g.mixed && g.prod
}
