// Generator of C03 histories: the implementation is run while the history is
// drawn (magnitude caps and exact float divisors need the current values).
package main

import (
	. "adharness/common"
)

type gen struct {
	r     *Rng
	w     *World
	tn    string
	c     Case
	cw    *CaseWriter
	n     int
	main  []Ref // vectors of dimension n
	odd   []Ref // vectors of another dimension
	last  WorldObs
	arith int
	mixed bool
	expl  bool // some sparse vector held an explicitly stored zero
	dead  bool // a float division by zero happened: the history ends
}

func (g *gen) count(k string) {
	if g.cw != nil {
		g.cw.Count(k)
	}
}

func (g *gen) do(o Op) int64 {
	k, p := g.w.execOne(o)
	obs, h := g.w.observe()
	g.last = obs
	g.c.Ops = append(g.c.Ops, o)
	g.c.Outs = append(g.c.Outs, Out{k, p, h})
	for _, s := range obs.S {
		for _, x := range s.Vals {
			if x == 0 {
				g.expl = true
			}
			if x == NAN || x == PINF || x == NINF {
				g.dead = true
			}
		}
	}
	for _, d := range obs.D {
		for _, x := range d.Reads {
			if x == NAN || x == PINF || x == NINF {
				g.dead = true
			}
		}
	}
	g.count("op:" + o.Op)
	if k == K_PANIC {
		g.count("outcome:panic")
	}
	return k
}

func (g *gen) vals(x Ref) []int64 {
	if x.S {
		return g.last.S[x.H].Reads
	}
	return g.last.D[x.H].Reads
}
func maxAbs(l []int64) int64 {
	m := int64(0)
	for _, x := range l {
		if x < 0 {
			x = -x
		}
		if x > m {
			m = x
		}
	}
	return m
}

func nz(r *Rng) int64 {
	x := int64(r.Range(1, 8))
	if r.Bool() {
		return -x
	}
	return x
}

// pattern: a value list with one of the zero patterns the quantifier names
func pattern(r *Rng, n int) ([]int64, string) {
	l := make([]int64, n)
	kind := []string{"allzero", "leading", "trailing", "interleaved", "full", "single", "random"}[r.Intn(7)]
	switch kind {
	case "leading":
		k := r.Range(0, n)
		for i := k; i < n; i++ {
			l[i] = nz(r)
		}
	case "trailing":
		k := r.Range(0, n)
		for i := 0; i < k; i++ {
			l[i] = nz(r)
		}
	case "interleaved":
		p := r.Intn(2)
		for i := 0; i < n; i++ {
			if i%2 == p {
				l[i] = nz(r)
			}
		}
	case "full":
		for i := 0; i < n; i++ {
			l[i] = nz(r)
		}
	case "single":
		if n > 0 {
			l[r.Intn(n)] = nz(r)
		}
	case "random":
		for i := 0; i < n; i++ {
			if r.Intn(3) > 0 {
				l[i] = nz(r)
			}
		}
	}
	return l, kind
}

func (g *gen) register(x Ref, n int) {
	if n == g.n {
		g.main = append(g.main, x)
	} else {
		g.odd = append(g.odd, x)
	}
}

// newVec creates a vector holding l, dense or sparse, by one of several routes
func (g *gen) newVec(l []int64, sparse bool) Ref {
	n := len(l)
	if !sparse {
		g.do(Op{Op: "NewD", L: l})
		x := Ref{false, len(g.w.D) - 1}
		g.register(x, n)
		return x
	}
	switch g.r.Intn(4) {
	case 0: // all positions stored explicitly
		g.do(Op{Op: "NewD", L: l})
		d := Ref{false, len(g.w.D) - 1}
		g.register(d, n)
		g.do(Op{Op: "AsSparse", A: d})
	case 1: // empty, then At(i) = x in random order, some explicit zeros
		g.do(Op{Op: "NewS", L: []int64{}, L2: []int64{}, I: int64(n)})
		x := Ref{true, len(g.w.S) - 1}
		order := g.r.Split()
		idx := make([]int, n)
		for i := range idx {
			idx[i] = i
		}
		for i := n - 1; i > 0; i-- {
			j := order.Intn(i + 1)
			idx[i], idx[j] = idx[j], idx[i]
		}
		for _, i := range idx {
			if l[i] != 0 || g.r.Intn(3) == 0 {
				g.do(Op{Op: "SetAt", R: x, I: int64(i), X: l[i]})
			}
		}
	default: // constructor from index/value lists (zero values are dropped by it)
		ks, xs := []int64{}, []int64{}
		for i := n - 1; i >= 0; i-- {
			if l[i] != 0 || g.r.Intn(4) == 0 {
				ks = append(ks, int64(i))
				xs = append(xs, l[i])
			}
		}
		if g.r.Bool() { // ascending instead of descending
			for i, j := 0, len(ks)-1; i < j; i, j = i+1, j-1 {
				ks[i], ks[j] = ks[j], ks[i]
				xs[i], xs[j] = xs[j], xs[i]
			}
		}
		g.do(Op{Op: "NewS", L: ks, L2: xs, I: int64(n)})
	}
	x := Ref{true, len(g.w.S) - 1}
	g.register(x, n)
	return x
}

func (g *gen) pick() Ref {
	if len(g.odd) > 0 && g.r.Intn(16) == 0 {
		return g.odd[g.r.Intn(len(g.odd))]
	}
	return g.main[g.r.Intn(len(g.main))]
}
func (g *gen) operand(rcv Ref) Ref {
	if g.r.Intn(8) == 0 {
		return rcv
	}
	return g.pick()
}
func (g *gen) note(refs ...Ref) {
	s, d := false, false
	for _, x := range refs {
		if x.S {
			s = true
		} else {
			d = true
		}
	}
	if s && d {
		g.mixed = true
		g.count("storage:mixed")
	} else if s {
		g.count("storage:all-sparse")
	} else {
		g.count("storage:all-dense")
	}
	alias := false
	for i := 1; i < len(refs); i++ {
		if refs[i] == refs[0] {
			alias = true
		}
	}
	if alias {
		g.count("alias:receiver=operand")
	}
}

// renorm: overwrite x with small values (keeps all element types exact)
func (g *gen) renorm(x Ref) {
	l, _ := pattern(g.r, len(g.vals(x)))
	src := g.newVec(l, g.r.Bool())
	g.do(Op{Op: "VSet", R: x, A: src})
	g.count("renorm")
}

func divisors(a int64) []int64 {
	if a < 0 {
		a = -a
	}
	r := []int64{}
	for d := int64(1); d <= 8; d++ {
		if a%d == 0 {
			r = append(r, d, -d)
		}
	}
	return r
}

func (g *gen) opStep() {
	cp := valueCap(g.tn)
	rcv := g.pick()
	total := len(g.w.S) + len(g.w.D)
	switch g.r.Pick([]int{30, 8, 6, 6, 8, 8, 10, 8, 3, 3, 3, 8, 5}) {
	case 0: // VaddV / VsubV / VmulV
		a, b := g.operand(rcv), g.operand(rcv)
		f := []string{"Add", "Sub", "Mul"}[g.r.Intn(3)]
		ma, mb := maxAbs(g.vals(a)), maxAbs(g.vals(b))
		if (f == "Mul" && ma*mb > cp) || (f != "Mul" && ma+mb > cp) {
			if ma > mb {
				g.renorm(a)
			} else {
				g.renorm(b)
			}
			return
		}
		g.note(rcv, a, b)
		g.arith++
		g.do(Op{Op: "VopV", F: f, R: rcv, A: a, B: b})
	case 1: // VdivV
		a := g.operand(rcv)
		var b Ref
		if isIntType(g.tn) && g.r.Bool() {
			b = g.operand(rcv)
		} else {
			if total >= 12 {
				return
			}
			av := g.vals(a)
			l := make([]int64, len(av))
			for i, x := range av {
				if x == 0 {
					l[i] = nz(g.r)
				} else {
					ds := divisors(x)
					l[i] = ds[g.r.Intn(len(ds))]
				}
			}
			if len(l) > 0 && g.r.Intn(10) == 0 {
				l[g.r.Intn(len(l))] = 0
				if g.r.Bool() {
					l[g.r.Intn(len(l))] = 0
				}
				g.count("division:zero-divisor")
			}
			b = g.newVec(l, g.r.Bool())
			if len(l) != g.n {
				return
			}
		}
		g.note(rcv, a, b)
		g.arith++
		g.do(Op{Op: "VdivV", R: rcv, A: a, B: b})
	case 2, 3: // VaddS / VsubS
		a := g.operand(rcv)
		s := int64(g.r.Range(-8, 8))
		if maxAbs(g.vals(a))+8 > cp {
			g.renorm(a)
			return
		}
		g.note(rcv, a)
		g.arith++
		name := "VaddS"
		if g.r.Bool() {
			name = "VsubS"
		}
		g.do(Op{Op: name, R: rcv, A: a, X: s})
	case 4: // VmulS
		a := g.operand(rcv)
		s := int64(g.r.Range(-8, 8))
		if maxAbs(g.vals(a))*8 > cp {
			g.renorm(a)
			return
		}
		g.note(rcv, a)
		g.arith++
		g.do(Op{Op: "VmulS", R: rcv, A: a, X: s})
	case 5: // VdivS
		a := g.operand(rcv)
		s := nz(g.r)
		if !isIntType(g.tn) {
			ok := []int64{}
			for d := int64(-8); d <= 8; d++ {
				if d == 0 {
					continue
				}
				all := true
				for _, x := range g.vals(a) {
					if x%d != 0 {
						all = false
					}
				}
				if all {
					ok = append(ok, d)
				}
			}
			s = ok[g.r.Intn(len(ok))]
		}
		if g.r.Intn(10) == 0 {
			s = 0
			g.count("division:zero-divisor")
		}
		g.note(rcv, a)
		g.arith++
		g.do(Op{Op: "VdivS", R: rcv, A: a, X: s})
	case 6:
		a := g.operand(rcv)
		g.note(rcv, a)
		g.do(Op{Op: "VSet", R: rcv, A: a})
	case 7:
		b := g.operand(rcv)
		if g.r.Intn(3) == 0 && len(g.vals(b)) == len(g.vals(rcv)) {
			g.do(Op{Op: "VSet", R: b, A: rcv})
		}
		g.note(rcv, b)
		e2 := []int64{1, 1, 2, 3, 5, 0, 40}[g.r.Intn(7)]
		g.do(Op{Op: "VEquals", A: rcv, B: b, X: e2})
	case 8:
		g.do(Op{Op: "VReset", R: rcv})
	case 9:
		if total >= 12 {
			return
		}
		g.do(Op{Op: "AsDense", A: rcv})
		g.register(Ref{false, len(g.w.D) - 1}, len(g.vals(rcv)))
	case 10:
		if total >= 12 {
			return
		}
		g.do(Op{Op: "AsSparse", A: rcv})
		g.register(Ref{true, len(g.w.S) - 1}, len(g.vals(rcv)))
	case 11:
		n := len(g.vals(rcv))
		i := int64(g.r.Range(0, n))
		if n > 0 && g.r.Intn(12) != 0 {
			i = int64(g.r.Intn(n))
		} else if g.r.Bool() {
			i = -1
		}
		x := int64(0)
		if g.r.Bool() {
			x = nz(g.r)
		}
		g.do(Op{Op: "SetAt", R: rcv, I: i, X: x})
	case 12:
		g.do(Op{Op: "VIter", A: rcv})
	}
}

func genCase(r *Rng, tn string, cw *CaseWriter) (Case, bool) {
	g := &gen{r: r, w: &World{Type: tn}, tn: tn, cw: cw}
	g.c.Type = tn
	g.n = r.Range(0, 12)
	if r.Intn(4) == 0 {
		g.n = r.Range(0, 3)
	}
	g.count("dim:" + ZI(g.n))
	// at least one sparse and one dense vector, 3-6 in all
	k := r.Range(3, 6)
	for i := 0; i < k; i++ {
		l, kind := pattern(r, g.n)
		sparse := r.Bool()
		if i == 0 {
			sparse = true
		} else if i == 1 {
			sparse = false
		}
		g.count("pattern:" + kind)
		g.newVec(l, sparse)
	}
	if r.Intn(8) == 0 {
		m := g.n + 1
		if g.n > 0 && r.Bool() {
			m = g.n - 1
		}
		l, _ := pattern(r, m)
		g.newVec(l, r.Bool())
		g.count("odd-dimension vector")
	}
	steps := r.Range(6, 14)
	for s := 0; s < steps && !g.dead; s++ {
		g.opStep()
	}
	return g.c, g.arith >= 3 && g.mixed && g.expl
}
