// C03 harness, matrix part: DIRECTED histories (round 3).  The random matrix
// histories of matrix.go reach these situations only by chance; each family below
// builds one of them on purpose, with random sizes / positions / values / storage:
//
//   stale-dot    sparse receiver VECTOR of MdotV / VdotM holding a stale non-zero
//                entry at a position whose matrix row (MdotV) / column (VdotM) is
//                entirely zero (also: the whole matrix zero, explicit stored zeros
//                inside the zero row/column): the result there must be 0
//   interleave   sparse receiver MATRIX distinct from the operand, the receiver's
//                first entry in an EARLIER ROW but LATER COLUMN than the operand's
//                first entry, and a later position stored in both: the two-way
//                joint iterator must merge by (row, column) lexicographically —
//                MmulS / MdivS / Equals / the public JointIterator (visit sequence)
//   stored-zero  explicit stored zeros (At(i,j) on an empty position, zero writes on
//                existing entries) in the receiver AND the operands of the
//                element-wise operations, Equals and the joint iterator: a zero
//                must not end the walk (regression for e83c5e9)
package main

import (
	"encoding/json"
	"fmt"
	"sort"

	. "adharness/common"
)

const ruleDirected = "directed matrix histories (3 families x all nine element types, sizes 1..4, random positions/values/storage): stale-dot = MdotV/VdotM into a sparse (and a dense twin) receiver vector with a stale non-zero entry where the matrix row/column is entirely zero; interleave = sparse receiver matrix whose first entry lies in an earlier row but later column than the operand's first entry plus a later position stored in both, then JointIterator visit sequence / Equals / MmulS / MdivS / MaddM with sparse and dense operands; stored-zero = explicit stored zeros in receiver and operands (At on an empty position, zero writes) before MaddM/MsubM/MmulM/MmulS/MdivS/Set/Equals/JointIterator"

func small(r *Rng) int64 { // non-zero, |x| <= 3
	x := int64(r.Range(1, 3))
	if r.Bool() {
		return -x
	}
	return x
}

// sparse matrix with the entries ent (linear index -> value), created in random order, then
// explicit zeros stored at the positions zs (At(i,j).SetFloat64(0): creates the entry when absent)
func (g *mgen) dirSM(n, m int, ent map[int]int64, zs []int) Ref {
	ks := []int{}
	for k := range ent {
		ks = append(ks, k)
	}
	sort.Ints(ks)
	if g.r.Bool() {
		for i, j := 0, len(ks)-1; i < j; i, j = i+1, j-1 {
			ks[i], ks[j] = ks[j], ks[i]
		}
	}
	l, l2 := []int64{}, []int64{}
	for _, k := range ks {
		l = append(l, int64(k))
		l2 = append(l2, ent[k])
	}
	g.do(MOp{Op: "NewSM", L: l, L2: l2, N: int64(n), M: int64(m)})
	x := Ref{true, len(g.w.SM) - 1}
	for _, k := range zs {
		g.do(MOp{Op: "MSetAt", MR: x, I: int64(k), X: 0})
		g.count("directed:explicit-stored-zero")
	}
	return x
}
func (g *mgen) dirDM(n, m int, ent map[int]int64) Ref {
	l := make([]int64, n*m)
	for k, x := range ent {
		l[k] = x
	}
	g.do(MOp{Op: "NewDM", L: l, N: int64(n), M: int64(m)})
	return Ref{false, len(g.w.DM) - 1}
}
func (g *mgen) dirV(n int, ent map[int]int64, sparse bool) Ref {
	if !sparse {
		l := make([]int64, n)
		for k, x := range ent {
			l[k] = x
		}
		g.do(MOp{Op: "V", V: &Op{Op: "NewD", L: l}})
		return Ref{false, len(g.w.D) - 1}
	}
	ks, xs := []int64{}, []int64{}
	for k := 0; k < n; k++ {
		if x, ok := ent[k]; ok && x != 0 {
			ks = append(ks, int64(k))
			xs = append(xs, x)
		}
	}
	g.do(MOp{Op: "V", V: &Op{Op: "NewS", L: ks, L2: xs, I: int64(n)}})
	return Ref{true, len(g.w.S) - 1}
}

// ---- family 1
func (g *mgen) dirStale() {
	r := g.r
	n, m := r.Range(2, 4), r.Range(2, 4)
	i0, j0 := r.Intn(n), r.Intn(m)
	ent := map[int]int64{}
	if r.Intn(5) != 0 { // else: the whole matrix is zero
		for k := 0; k < n*m; k++ {
			if k/m != i0 && k%m != j0 && r.Intn(4) > 0 {
				ent[k] = small(r)
			}
		}
	} else {
		g.count("directed:stale-dot:zero-matrix")
	}
	zs := []int{}
	if r.Bool() { // explicit stored zeros inside the zero row / column
		zs = append(zs, i0*m+r.Intn(m), r.Intn(n)*m+j0)
	}
	mats := []Ref{g.dirDM(n, m, ent), g.dirSM(n, m, ent, zs)}
	rnd := func(d int) map[int]int64 {
		e := map[int]int64{}
		for k := 0; k < d; k++ {
			if r.Intn(4) > 0 {
				e[k] = small(r)
			}
		}
		return e
	}
	bm := []Ref{g.dirV(m, rnd(m), false), g.dirV(m, rnd(m), true)}
	an := []Ref{g.dirV(n, rnd(n), false), g.dirV(n, rnd(n), true)}
	stale := func(d, at int) map[int]int64 {
		e := map[int]int64{at: small(r)}
		for k := 0; k < d; k++ {
			if k != at && r.Intn(3) == 0 {
				e[k] = small(r)
			}
		}
		return e
	}
	en, em := stale(n, i0), stale(m, j0)
	rnS, rnD := g.dirV(n, en, true), g.dirV(n, en, false)
	rmS, rmD := g.dirV(m, em, true), g.dirV(m, em, false)
	for rep := 0; rep < 2; rep++ {
		A := mats[rep]
		if rep > 0 { // the first call cleared the stale entry: write it again
			g.do(MOp{Op: "V", V: &Op{Op: "SetAt", R: rnS, I: int64(i0), X: small(r)}})
			g.do(MOp{Op: "V", V: &Op{Op: "SetAt", R: rmS, I: int64(j0), X: small(r)}})
			g.do(MOp{Op: "V", V: &Op{Op: "SetAt", R: rnD, I: int64(i0), X: small(r)}})
			g.do(MOp{Op: "V", V: &Op{Op: "SetAt", R: rmD, I: int64(j0), X: small(r)}})
		}
		g.do(MOp{Op: "MdotV", R: rnS, MA: A, B: pickRef(r, bm)})
		g.do(MOp{Op: "MdotV", R: rnD, MA: A, B: pickRef(r, bm)})
		g.do(MOp{Op: "VdotM", R: rmS, A: pickRef(r, an), MB: A})
		g.do(MOp{Op: "VdotM", R: rmD, A: pickRef(r, an), MB: A})
		g.count("directed:stale-dot:sparse-receiver-call")
		g.count("directed:stale-dot:sparse-receiver-call")
	}
}

// ---- family 2
func (g *mgen) dirInterleave() {
	r := g.r
	n, m := r.Range(2, 4), r.Range(2, 4)
	i := r.Intn(n - 1)
	jl := r.Intn(m - 1)
	jh := jl + 1 + r.Intn(m-1-jl)
	kR, kA := i*m+jh, (i+1)*m+jl // receiver: earlier row, later column
	P := kA + 1 + r.Intn(n*m-1-kA)
	even := func() int64 { return 2 * small(r) } // even values: MdivS by +-2 stays exact on every type
	entR := map[int]int64{kR: small(r), P: small(r)}
	entA := map[int]int64{kA: even(), P: even()}
	if int(entA[P]) == int(entR[P]) {
		entA[P] = -entA[P]
	}
	for k := 0; k < n*m; k++ {
		if k == kR || k == kA || k == P {
			continue
		}
		switch r.Intn(8) {
		case 0:
			entR[k] = small(r)
		case 1:
			entA[k] = even()
		case 2:
			entR[k], entA[k] = small(r), even()
		}
	}
	AD, AS := g.dirDM(n, m, entA), g.dirSM(n, m, entA, nil)
	RD := g.dirDM(n, m, entR)
	R := make([]Ref, 6)
	for q := range R {
		R[q] = g.dirSM(n, m, entR, nil)
	}
	eps := []int64{1, 2, 3, 20}[r.Intn(4)]
	g.do(MOp{Op: "MJoint", MA: R[0], MB: AS})
	g.do(MOp{Op: "MJoint", MA: R[0], MB: AD})
	g.do(MOp{Op: "MJoint", MA: AS, MB: R[0]})
	g.do(MOp{Op: "MEquals", MA: R[0], MB: AS, X: eps})
	g.do(MOp{Op: "MEquals", MA: R[0], MB: AD, X: eps})
	g.do(MOp{Op: "MEquals", MA: R[0], MB: RD, X: 1}) // equal contents
	g.do(MOp{Op: "MEquals", MA: R[0], MB: R[1], X: 1})
	g.do(MOp{Op: "MEquals", MA: AS, MB: R[0], X: eps})
	s := small(r)
	g.do(MOp{Op: "MmulS", MR: R[1], MA: AS, X: s})
	g.do(MOp{Op: "MmulS", MR: R[2], MA: AD, X: s})
	g.do(MOp{Op: "MmulS", MR: RD, MA: AS, X: s})
	d := []int64{1, -1, 2, -2}[r.Intn(4)]
	g.do(MOp{Op: "MdivS", MR: R[3], MA: AS, X: d})
	g.do(MOp{Op: "MdivS", MR: R[4], MA: AD, X: d})
	g.do(MOp{Op: "MopM", F: []string{"Add", "Sub", "Mul"}[r.Intn(3)], MR: R[5], MA: AS, MB: AD})
	g.do(MOp{Op: "MJoint", MA: R[1], MB: R[3]})
	g.count("directed:interleave:joint-walks")
}

// ---- family 3
func (g *mgen) dirStoredZero() {
	r := g.r
	n, m := r.Range(1, 3), r.Range(2, 3)
	pat := func() map[int]int64 {
		e := map[int]int64{}
		for k := 0; k < n*m; k++ {
			if r.Bool() {
				e[k] = 2 * small(r)
			}
		}
		return e
	}
	// stored zeros: the first position (so that a zero is the first thing the walk meets), an empty
	// position (created by At) and an existing entry (zero write)
	zeros := func(e map[int]int64) []int {
		zs := []int{}
		if r.Intn(3) > 0 {
			zs = append(zs, 0)
		}
		zs = append(zs, r.Intn(n*m))
		for k := range e {
			if r.Intn(3) == 0 {
				zs = append(zs, k)
			}
		}
		sort.Ints(zs)
		return zs
	}
	eR, eA, eB := pat(), pat(), pat()
	zR, zA, zB := zeros(eR), zeros(eA), zeros(eB)
	clear := func(e map[int]int64, zs []int) map[int]int64 {
		c := map[int]int64{}
		for k, x := range e {
			c[k] = x
		}
		for _, k := range zs {
			delete(c, k)
		}
		return c
	}
	A, B := g.dirSM(n, m, eA, zA), g.dirSM(n, m, eB, zB)
	AD := g.dirDM(n, m, clear(eA, zA))
	RD := g.dirDM(n, m, clear(eR, zR))
	newR := func() Ref { return g.dirSM(n, m, eR, zR) }
	R := newR()
	g.do(MOp{Op: "MJoint", MA: R, MB: A})
	g.do(MOp{Op: "MJoint", MA: newR(), MB: AD})
	g.do(MOp{Op: "MEquals", MA: newR(), MB: A, X: []int64{1, 3, 20}[r.Intn(3)]})
	g.do(MOp{Op: "MEquals", MA: newR(), MB: RD, X: 1})
	g.do(MOp{Op: "MopM", F: []string{"Add", "Sub", "Mul"}[r.Intn(3)], MR: newR(), MA: A, MB: B})
	g.do(MOp{Op: "MopM", F: []string{"Add", "Sub", "Mul"}[r.Intn(3)], MR: newR(), MA: AD, MB: B})
	g.do(MOp{Op: "MopM", F: "Add", MR: RD, MA: A, MB: B})
	A2 := g.dirSM(n, m, eA, zA)
	g.do(MOp{Op: "MmulS", MR: newR(), MA: A2, X: small(r)})
	g.do(MOp{Op: "MdivS", MR: newR(), MA: g.dirSM(n, m, eA, zA), X: []int64{1, -1, 2, -2}[r.Intn(4)]})
	g.do(MOp{Op: "MSet", MR: newR(), MA: g.dirSM(n, m, eA, zA)})
	// zero writes into a receiver that was just computed, then the operation again
	X := newR()
	g.do(MOp{Op: "MopM", F: "Add", MR: X, MA: A, MB: B})
	g.do(MOp{Op: "MSetAt", MR: X, I: 0, X: 0})
	g.do(MOp{Op: "MSetAt", MR: X, I: int64(r.Intn(n * m)), X: 0})
	g.do(MOp{Op: "MJoint", MA: X, MB: B})
	g.do(MOp{Op: "MmulS", MR: X, MA: B, X: small(r)})
	g.count("directed:stored-zero:walks")
}

var dirFamilies = []string{"stale-dot", "interleave", "stored-zero"}

func genDirected(r *Rng, tn string, cw *CaseWriter, fam int) MCase {
	g := &mgen{r: r, w: &MWorld{World: World{Type: tn}}, tn: tn, cw: cw}
	g.c.Type = tn
	switch fam % 3 {
	case 0:
		g.dirStale()
	case 1:
		g.dirInterleave()
	default:
		g.dirStoredZero()
	}
	g.count("directed:" + dirFamilies[fam%3])
	return g.c
}

func directedKey(tn string, c MCase) string {
	b, _ := json.Marshal(c.Ops)
	return fmt.Sprintf("directed:%s%s", tn, b)
}
