// C03 round 6: histories on the READ-ONLY sparse vectors of /repo
// (vector_sparse_const_*.go: SparseConst<T>Vector), their ConstSlice views and
// Clones, the lazily built random-access cache, and the consumers that read
// them by index (dense receivers, AsDenseReal*, VdotV, dense Equals/Set) or by
// iteration (AsDense<T>Vector of the template types, const Equals / joint
// iterator).  Dense ConstSlice views are in the same world.  The outcomes are
// written as Coq cases for coq/C03/ModelC.v (stream "ccases"); the private
// state (both slices, the cache map) is read through package reflect, so no
// hook in /repo is needed.
//
// The same histories are judged by a property-level oracle that does not use
// the Coq model (chunt): every object is shadowed by the plain list of its
// values; whatever is read through an object - by index, by iteration, through
// a view first and the parent afterwards or the other way round - must be what
// the plain list says.
package main

import (
	"encoding/json"
	"fmt"
	"os"
	"reflect"
	"sort"

	. "adharness/common"

	ad "github.com/pbenner/autodiff"
)

type CRef struct {
	C bool `json:"c"` // const sparse object (else dense handle)
	H int  `json:"h"`
}
type COp struct {
	Op string  `json:"op"`
	H  int     `json:"h"`
	X  CRef    `json:"x"`
	A  CRef    `json:"a"`
	B  CRef    `json:"b"`
	F  string  `json:"f,omitempty"`
	I  int64   `json:"i,omitempty"`
	J  int64   `json:"j,omitempty"`
	V  int64   `json:"v,omitempty"`
	L  []int64 `json:"l,omitempty"`
	L2 []int64 `json:"l2,omitempty"`
}
type CCase struct {
	Type  string `json:"type"`  // element type of the dense vectors / receivers
	CType string `json:"ctype"` // element type of the const vectors
	Ops   []COp  `json:"ops"`
	Outs  []Out  `json:"outs,omitempty"`
}

var constTypeNames = []string{"float64", "int", "float32", "int64", "int32", "int16", "int8"}

func newConst(name string, ks, xs []int64, n int, unsafe bool) ad.ConstVector {
	k := ints(ks)
	switch name {
	case "float64":
		if unsafe {
			return ad.UnsafeSparseConstFloat64Vector(k, f64s(xs), n)
		}
		return ad.NewSparseConstFloat64Vector(k, f64s(xs), n)
	case "float32":
		if unsafe {
			return ad.UnsafeSparseConstFloat32Vector(k, f32s(xs), n)
		}
		return ad.NewSparseConstFloat32Vector(k, f32s(xs), n)
	case "int":
		if unsafe {
			return ad.UnsafeSparseConstIntVector(k, ints(xs), n)
		}
		return ad.NewSparseConstIntVector(k, ints(xs), n)
	case "int64":
		v := append([]int64{}, xs...)
		if unsafe {
			return ad.UnsafeSparseConstInt64Vector(k, v, n)
		}
		return ad.NewSparseConstInt64Vector(k, v, n)
	case "int32":
		v := make([]int32, len(xs))
		for i, x := range xs {
			v[i] = int32(x)
		}
		if unsafe {
			return ad.UnsafeSparseConstInt32Vector(k, v, n)
		}
		return ad.NewSparseConstInt32Vector(k, v, n)
	case "int16":
		v := make([]int16, len(xs))
		for i, x := range xs {
			v[i] = int16(x)
		}
		if unsafe {
			return ad.UnsafeSparseConstInt16Vector(k, v, n)
		}
		return ad.NewSparseConstInt16Vector(k, v, n)
	case "int8":
		v := make([]int8, len(xs))
		for i, x := range xs {
			v[i] = int8(x)
		}
		if unsafe {
			return ad.UnsafeSparseConstInt8Vector(k, v, n)
		}
		return ad.NewSparseConstInt8Vector(k, v, n)
	}
	Die("unknown const element type %s", name)
	return nil
}

func asConst(name string, v ad.ConstVector) ad.ConstVector {
	switch name {
	case "float64":
		return ad.AsSparseConstFloat64Vector(v)
	case "float32":
		return ad.AsSparseConstFloat32Vector(v)
	case "int":
		return ad.AsSparseConstIntVector(v)
	case "int64":
		return ad.AsSparseConstInt64Vector(v)
	case "int32":
		return ad.AsSparseConstInt32Vector(v)
	case "int16":
		return ad.AsSparseConstInt16Vector(v)
	case "int8":
		return ad.AsSparseConstInt8Vector(v)
	}
	Die("unknown const element type %s", name)
	return nil
}

// CWorld: the objects created so far.
type CWorld struct {
	Type, CType string
	C           []ad.ConstVector
	D           []ad.Vector
}

func (w *CWorld) has(r CRef) bool {
	if r.C {
		return r.H >= 0 && r.H < len(w.C)
	}
	return r.H >= 0 && r.H < len(w.D)
}
func (w *CWorld) get(r CRef) ad.ConstVector {
	if r.C {
		return w.C[r.H]
	}
	return w.D[r.H]
}

func (w *CWorld) execOne(o COp) (kind int64, payload []int64) {
	payload = []int64{}
	defer func() {
		if r := recover(); r != nil {
			kind = K_PANIC
			payload = []int64{}
		}
	}()
	st := scalarType(w.Type)
	sc := func(x int64) ad.Scalar { return ad.NewScalar(st, float64(x)) }
	switch o.Op {
	case "CNew":
		w.C = append(w.C, newConst(w.CType, append([]int64{}, o.L...), append([]int64{}, o.L2...), int(o.I), false))
	case "CUnsafe":
		w.C = append(w.C, newConst(w.CType, append([]int64{}, o.L...), append([]int64{}, o.L2...), int(o.I), true))
	case "CNewD":
		w.D = append(w.D, newDense(w.Type, o.L))
	case "CSlice":
		w.C = append(w.C, w.C[o.H].ConstSlice(int(o.I), int(o.J)))
	case "DSlice":
		w.D = append(w.D, w.D[o.H].ConstSlice(int(o.I), int(o.J)).(ad.Vector))
	case "CClone":
		w.C = append(w.C, w.C[o.H].CloneConstVector())
	case "CAt":
		var x float64
		switch o.V {
		case 1:
			x = w.C[o.H].ConstAt(int(o.I)).GetFloat64()
		case 2:
			x = float64(w.C[o.H].IntAt(int(o.I)))
		default:
			x = w.C[o.H].Float64At(int(o.I))
		}
		payload = append(payload, code(x))
	case "CIter":
		for it := w.C[o.H].ConstIterator(); it.Ok(); it.Next() {
			payload = append(payload, int64(it.Index()), code(it.GetConst().GetFloat64()))
			if len(payload) > 20000 {
				payload = append(payload, C_LOOP)
				break
			}
		}
	case "CIterFrom":
		for it := w.C[o.H].ConstIteratorFrom(int(o.I)); it.Ok(); it.Next() {
			payload = append(payload, int64(it.Index()), code(it.GetConst().GetFloat64()))
			if len(payload) > 20000 {
				payload = append(payload, C_LOOP)
				break
			}
		}
	case "CJoint":
		for it := w.C[o.H].ConstJointIterator(w.get(o.X)); it.Ok(); it.Next() {
			s1, s2 := it.GetConst()
			payload = append(payload, int64(it.Index()), code(s1.GetFloat64()), code(s2.GetFloat64()))
			if len(payload) > 30000 {
				payload = append(payload, C_LOOP)
				break
			}
		}
	case "CEquals":
		type eq interface {
			Equals(ad.ConstVector, float64) bool
		}
		if w.C[o.H].(eq).Equals(w.get(o.X), float64(o.V)/2) {
			payload = append(payload, 1)
		} else {
			payload = append(payload, 0)
		}
	case "CAsDense":
		w.D = append(w.D, ad.AsDenseVector(st, w.get(o.X)))
	case "CAsConst":
		w.C = append(w.C, asConst(w.CType, w.D[o.H]))
	case "DSetAt":
		w.D[o.H].At(int(o.I)).SetFloat64(float64(o.V))
	case "DSet":
		w.D[o.H].Set(w.get(o.X))
	case "DEquals":
		if w.D[o.H].Equals(w.get(o.X), float64(o.V)/2) {
			payload = append(payload, 1)
		} else {
			payload = append(payload, 0)
		}
	case "DopV":
		r, a, b := w.D[o.H], w.get(o.A), w.get(o.B)
		switch o.F {
		case "Add":
			r.VaddV(a, b)
		case "Sub":
			r.VsubV(a, b)
		case "Mul":
			r.VmulV(a, b)
		default:
			Die("unknown DopV %s", o.F)
		}
	case "DdivV":
		w.D[o.H].VdivV(w.get(o.A), w.get(o.B))
	case "DaddS":
		w.D[o.H].VaddS(w.get(o.A), sc(o.V))
	case "DsubS":
		w.D[o.H].VsubS(w.get(o.A), sc(o.V))
	case "DmulS":
		w.D[o.H].VmulS(w.get(o.A), sc(o.V))
	case "DdivS":
		w.D[o.H].VdivS(w.get(o.A), sc(o.V))
	case "DdotV":
		s := ad.NullScalar(st)
		s.VdotV(w.get(o.A), w.get(o.B))
		payload = append(payload, code(s.GetFloat64()))
	default:
		Die("unknown const op %s", o.Op)
	}
	return
}

// constState reads the private fields of a SparseConst<T>Vector (read-only, package reflect).
func constState(v ad.ConstVector) (idx []int64, val []int64, mk []int64, mv []int64, ok bool) {
	defer func() {
		if r := recover(); r != nil {
			ok = false
		}
	}()
	rv := reflect.ValueOf(v)
	fi, fv, fm := rv.FieldByName("indices"), rv.FieldByName("values"), rv.FieldByName("idxmap")
	if !fi.IsValid() || !fv.IsValid() || !fm.IsValid() {
		return nil, nil, nil, nil, false
	}
	for i := 0; i < fi.Len(); i++ {
		idx = append(idx, fi.Index(i).Int())
	}
	for i := 0; i < fv.Len(); i++ {
		e := fv.Index(i)
		switch e.Kind() {
		case reflect.Float32, reflect.Float64:
			val = append(val, code(e.Float()))
		default:
			val = append(val, e.Int())
		}
	}
	type kv struct{ k, v int64 }
	var l []kv
	for it := fm.MapRange(); it.Next(); {
		l = append(l, kv{it.Key().Int(), it.Value().Int()})
	}
	sort.Slice(l, func(a, b int) bool { return l[a].k < l[b].k })
	for _, e := range l {
		mk = append(mk, e.k)
		mv = append(mv, e.v)
	}
	return idx, val, mk, mv, true
}

type CObs struct {
	N      int
	Idx    []int64
	Val    []int64
	Reads  []int64 // through a Clone()
	MapLen int
	Flat   []int64
}

func observeConst(v ad.ConstVector) CObs {
	var o CObs
	o.N = v.Dim()
	f := []int64{int64(o.N), SEP}
	idx, val, mk, mv, ok := constState(v)
	if !ok {
		Die("tie lost: SparseConst vector no longer has the fields indices/values/idxmap")
	}
	o.Idx, o.Val, o.MapLen = idx, val, len(mk)
	for i := range idx {
		x := int64(C_NIL)
		if i < len(val) {
			x = val[i]
		}
		f = append(f, idx[i], x)
	}
	f = append(f, SEP)
	for i := range mk {
		f = append(f, mk[i], mv[i])
	}
	f = append(f, SEP)
	func() {
		defer func() {
			if r := recover(); r != nil {
				o.Reads = []int64{C_CLONE}
			}
		}()
		c := v.CloneConstVector()
		for i := 0; i < o.N; i++ {
			o.Reads = append(o.Reads, code(c.Float64At(i)))
		}
	}()
	f = append(f, o.Reads...)
	f = append(f, SEP)
	o.Flat = f
	return o
}

func (w *CWorld) observe() (co []CObs, do []VecObs, h int64) {
	h = 17
	for _, v := range w.C {
		o := observeConst(v)
		co = append(co, o)
		h = hashList(h, o.Flat)
	}
	h = hashList(h, []int64{SEP, SEP})
	for _, v := range w.D {
		o := observeVec(v, false)
		do = append(do, o)
		h = hashList(h, o.Flat)
	}
	return
}

func executeC(c CCase) []Out {
	w := &CWorld{Type: c.Type, CType: c.CType}
	outs := make([]Out, 0, len(c.Ops))
	for _, o := range c.Ops {
		k, p := w.execOne(o)
		_, _, h := w.observe()
		outs = append(outs, Out{k, p, h})
	}
	return outs
}

// ---------------------------------------------------------------- Coq printing

func coqCRef(r CRef) string {
	if r.C {
		return fmt.Sprintf("(XC %d)", r.H)
	}
	return fmt.Sprintf("(XD %d)", r.H)
}
func coqCOp(o COp) string {
	switch o.Op {
	case "CNew", "CUnsafe":
		return fmt.Sprintf("%s %s %s %s", o.Op, ZList(o.L), ZList(o.L2), Z(o.I))
	case "CNewD":
		return "CNewD " + ZList(o.L)
	case "CSlice", "DSlice":
		return fmt.Sprintf("%s %d %s %s", o.Op, o.H, Z(o.I), Z(o.J))
	case "CClone", "CIter", "CAsConst":
		return fmt.Sprintf("%s %d", o.Op, o.H)
	case "CAt", "CIterFrom":
		return fmt.Sprintf("%s %d %s", o.Op, o.H, Z(o.I))
	case "CJoint":
		return fmt.Sprintf("CJoint %d %s", o.H, coqCRef(o.X))
	case "CEquals", "DEquals":
		return fmt.Sprintf("%s %d %s %s", o.Op, o.H, coqCRef(o.X), Z(o.V))
	case "CAsDense":
		return "CAsDense " + coqCRef(o.X)
	case "DSetAt":
		return fmt.Sprintf("DSetAt %d %s %s", o.H, Z(o.I), Z(o.V))
	case "DSet":
		return fmt.Sprintf("DSet %d %s", o.H, coqCRef(o.X))
	case "DopV":
		return fmt.Sprintf("DopV %s %d %s %s", o.F, o.H, coqCRef(o.A), coqCRef(o.B))
	case "DdivV":
		return fmt.Sprintf("DdivV %d %s %s", o.H, coqCRef(o.A), coqCRef(o.B))
	case "DaddS", "DsubS", "DmulS", "DdivS":
		return fmt.Sprintf("%s %d %s %s", o.Op, o.H, coqCRef(o.A), Z(o.V))
	case "DdotV":
		return fmt.Sprintf("DdotV %s %s", coqCRef(o.A), coqCRef(o.B))
	}
	Die("coqCOp: unknown op %s", o.Op)
	return ""
}
func coqCCase(c CCase) string {
	ops := make([]string, len(c.Ops))
	for i, o := range c.Ops {
		ops[i] = coqCOp(o)
	}
	outs := make([]string, len(c.Outs))
	for i, o := range c.Outs {
		outs[i] = fmt.Sprintf("(%s, %s, %s)", Z(o.K), ZList(o.P), Z(o.H))
	}
	return "(" + coqTy(c.Type) + ", " + List(ops) + ",\n   " + List(outs) + ")"
}

const hdrC = "From Coq Require Import ZArith List Bool. Import ListNotations.\nFrom ADV Require Import C11.Model C03.Model C03.ModelC C03.Corr C03.CorrC.\nOpen Scope Z_scope.\n"

const ruleC = "const-vector histories: 1-3 parent SparseConst<T>Vector objects of dimension n in 0..12 built by the safe constructor from an unsorted list of distinct indices (zero values included: they must be dropped) or by the unsafe constructor from sorted indices with explicitly stored zeros, the dense twin of each, then 8-16 steps drawn from ConstSlice (prefix / suffix / middle / empty / whole, of parents and of views), Clone, <T>At by index (Float64At / ConstAt / IntAt; view first then parent and the other order; now and then an index outside the vector), ConstIterator, ConstIteratorFrom, ConstJointIterator and Equals against a const object or a dense vector, AsDense<T>Vector (iterating for the template types, by index for the Real types), AsSparseConst<T>Vector of a dense vector, dense ConstSlice views, and the dense receivers' Set/Equals/VaddV/VsubV/VmulV/VdivV/VaddS/VsubS/VmulS/VdivS and VdotV with const objects, views of them and dense views as operands; receiver type cycles through all nine element types, const type through all seven; values -8..8 and capped so every type is exact; a case is non-trivial iff it reads at least one view AND its parent by index (either order), contains >= 2 dense-receiver operations with a const operand and >= 1 iteration-based consumer; distinct = distinct (types, op list)"

// ---------------------------------------------------------------- generator

type cgen struct {
	r      *Rng
	w      *CWorld
	c      CCase
	cw     *CaseWriter
	n      int
	cap    int64
	co     []CObs
	do     []VecObs
	parent map[int]int // const handle -> handle it is a view of
	readC  map[int]bool
	dead   bool
	nDense int
	nIter  int
	viewPa bool
}

func (g *cgen) count(k string) {
	if g.cw != nil {
		g.cw.Count(k)
	}
}
func (g *cgen) do1(o COp) int64 {
	k, p := g.w.execOne(o)
	co, do, h := g.w.observe()
	g.co, g.do = co, do
	g.c.Ops = append(g.c.Ops, o)
	g.c.Outs = append(g.c.Outs, Out{k, p, h})
	for _, d := range do {
		for _, x := range d.Reads {
			if x == NAN || x == PINF || x == NINF {
				g.dead = true
			}
		}
	}
	g.count("cop:" + o.Op)
	if k == K_PANIC {
		g.count("coutcome:panic")
	}
	return k
}
func (g *cgen) vals(x CRef) []int64 {
	if x.C {
		return g.co[x.H].Reads
	}
	return g.do[x.H].Reads
}
func (g *cgen) dim(x CRef) int {
	if x.C {
		return g.co[x.H].N
	}
	return g.do[x.H].N
}

// refs of dimension n (const objects and dense handles)
func (g *cgen) ofDim(n int, wantConst int) []CRef {
	var l []CRef
	for h := range g.w.C {
		if g.co[h].N == n && wantConst >= 0 {
			l = append(l, CRef{true, h})
		}
	}
	for h := range g.w.D {
		if g.do[h].N == n && wantConst <= 0 {
			l = append(l, CRef{false, h})
		}
	}
	return l
}
func (g *cgen) pickOperand(n int) (CRef, bool) {
	// const operands preferred 2:1
	if g.r.Intn(3) > 0 {
		if l := g.ofDim(n, 1); len(l) > 0 {
			return l[g.r.Intn(len(l))], true
		}
	}
	l := g.ofDim(n, 0)
	if len(l) == 0 {
		return CRef{}, false
	}
	return l[g.r.Intn(len(l))], true
}

func (g *cgen) newParent(n int) {
	vals, _ := pattern(g.r, n)
	if g.r.Intn(4) == 0 && n > 0 {
		// unsafe constructor: sorted indices, explicitly stored zeros
		var ks, xs []int64
		for i := 0; i < n; i++ {
			if vals[i] != 0 || g.r.Intn(3) == 0 {
				ks = append(ks, int64(i))
				xs = append(xs, vals[i])
			}
		}
		g.do1(COp{Op: "CUnsafe", L: ks, L2: xs, I: int64(n)})
		g.count("cparent:unsafe-stored-zeros")
	} else {
		var ks, xs []int64
		for i := 0; i < n; i++ {
			if vals[i] != 0 || g.r.Intn(4) == 0 {
				ks = append(ks, int64(i))
				xs = append(xs, vals[i])
			}
		}
		// unsorted
		for i := len(ks) - 1; i > 0; i-- {
			j := g.r.Intn(i + 1)
			ks[i], ks[j] = ks[j], ks[i]
			xs[i], xs[j] = xs[j], xs[i]
		}
		g.do1(COp{Op: "CNew", L: ks, L2: xs, I: int64(n)})
		g.count("cparent:new-unsorted")
	}
}

func (g *cgen) sliceRange(n int) (int, int, string) {
	switch g.r.Intn(6) {
	case 0:
		return 0, g.r.Range(0, n), "prefix"
	case 1:
		return g.r.Range(0, n), n, "suffix"
	case 2:
		return 0, n, "whole"
	case 3:
		i := g.r.Range(0, n)
		return i, i, "empty"
	default:
		i := g.r.Range(0, n)
		return i, g.r.Range(i, n), "middle"
	}
}

func genCCase(r *Rng, tn, ctn string, cw *CaseWriter) (CCase, bool) {
	g := &cgen{r: r, w: &CWorld{Type: tn, CType: ctn}, cw: cw, parent: map[int]int{}, readC: map[int]bool{}}
	g.c = CCase{Type: tn, CType: ctn}
	g.cap = valueCap(tn)
	if c := valueCap(ctn); c < g.cap {
		g.cap = c
	}
	g.n = r.Range(0, 12)
	if r.Intn(8) > 0 && g.n < 3 {
		g.n = r.Range(3, 12)
	}
	n := g.n
	np := r.Range(1, 3)
	for k := 0; k < np; k++ {
		g.newParent(n)
	}
	// dense vectors: a receiver of dimension n, one twice as long to cut views from
	vals, _ := pattern(r, n)
	g.do1(COp{Op: "CNewD", L: vals})
	long, _ := pattern(r, 2*n+1)
	g.do1(COp{Op: "CNewD", L: long})
	steps := r.Range(8, 16)
	for s := 0; s < steps && !g.dead; s++ {
		g.step()
	}
	// both access orders at the end: every view, then every parent (or the reverse), by index
	if !g.dead && len(g.parent) > 0 && r.Bool() {
		order := r.Bool()
		for pass := 0; pass < 2; pass++ {
			for h := range g.w.C {
				_, isView := g.parent[h]
				if isView == (pass == 0) == order {
					if d := g.co[h].N; d > 0 {
						g.do1(COp{Op: "CAt", H: h, I: int64(r.Intn(d)), V: int64(r.Intn(3))})
						g.readC[h] = true
					}
				}
			}
		}
	}
	for v, p := range g.parent {
		if g.readC[v] && g.readC[p] {
			g.viewPa = true
		}
	}
	nt := g.viewPa && g.nDense >= 2 && g.nIter >= 1
	return g.c, nt
}

func (g *cgen) step() {
	r := g.r
	n := g.n
	nC := len(g.w.C)
	switch r.Pick([]int{4, 1, 5, 2, 1, 2, 2, 2, 1, 2, 1, 8, 2, 1}) {
	case 0: // const view
		h := r.Intn(nC)
		d := g.co[h].N
		if d < 0 {
			return
		}
		i, j, kind := g.sliceRange(d)
		if r.Intn(25) == 0 {
			j = d + r.Range(1, 3) // beyond the end: the code does not check
			kind = "beyond"
		}
		if g.do1(COp{Op: "CSlice", H: h, I: int64(i), J: int64(j)}) == K_OK {
			g.parent[len(g.w.C)-1] = h
		}
		g.count("cslice:" + kind)
	case 1:
		h := r.Intn(nC)
		g.do1(COp{Op: "CClone", H: h})
	case 2: // read by index; prefer objects related by a view
		h := r.Intn(nC)
		if len(g.parent) > 0 && r.Intn(3) > 0 {
			// a view or its parent
			var vs []int
			for v := range g.parent {
				vs = append(vs, v)
			}
			sort.Ints(vs)
			h = vs[r.Intn(len(vs))]
			if r.Bool() {
				h = g.parent[h]
			}
		}
		d := g.co[h].N
		i := 0
		if d > 0 {
			i = r.Intn(d)
		}
		if r.Intn(20) == 0 {
			i = d + r.Range(0, 2) // outside: the const vectors return 0
			if r.Bool() {
				i = -1 - r.Intn(2)
			}
			g.count("cat:outside")
		}
		g.do1(COp{Op: "CAt", H: h, I: int64(i), V: int64(r.Intn(3))})
		g.readC[h] = true
	case 3:
		g.do1(COp{Op: "CIter", H: r.Intn(nC)})
		g.nIter++
	case 4:
		h := r.Intn(nC)
		g.do1(COp{Op: "CIterFrom", H: h, I: int64(r.Range(-1, g.co[h].N+1))})
	case 5:
		h := r.Intn(nC)
		if x, ok := g.pickOperand(g.co[h].N); ok {
			g.do1(COp{Op: "CJoint", H: h, X: x})
			g.nIter++
		}
	case 6:
		h := r.Intn(nC)
		x, ok := g.pickOperand(g.co[h].N)
		if !ok || r.Intn(12) == 0 {
			x = CRef{r.Bool(), 0} // possibly another dimension: panic expected
		}
		g.do1(COp{Op: "CEquals", H: h, X: x, V: int64(r.Range(1, 4))})
		g.nIter++
	case 7:
		x := CRef{true, r.Intn(nC)}
		if r.Intn(4) == 0 {
			x = CRef{false, r.Intn(len(g.w.D))}
		}
		if g.dim(x) >= 0 {
			g.do1(COp{Op: "CAsDense", X: x})
			if x.C && !spIsRealName(g.w.Type) {
				g.nIter++
			}
		}
	case 8:
		k := r.Intn(len(g.w.D))
		if maxAbs(g.vals(CRef{false, k})) <= g.cap {
			g.do1(COp{Op: "CAsConst", H: k})
			g.nIter++
		}
	case 9: // dense view
		k := r.Intn(len(g.w.D))
		d := g.do[k].N
		i, j, kind := g.sliceRange(d)
		if d >= n && r.Bool() { // a view of dimension n, usable as operand / receiver
			i = r.Range(0, d-n)
			j = i + n
			kind = "dim-n"
		}
		g.do1(COp{Op: "DSlice", H: k, I: int64(i), J: int64(j)})
		g.count("dslice:" + kind)
	case 10:
		k := r.Intn(len(g.w.D))
		if d := g.do[k].N; d > 0 {
			g.do1(COp{Op: "DSetAt", H: k, I: int64(r.Intn(d)), V: int64(r.Range(-8, 8))})
		}
	case 11: // dense receiver arithmetic with const / view operands
		g.arith()
	case 12:
		k := r.Intn(len(g.w.D))
		x, ok := g.pickOperand(g.do[k].N)
		if !ok {
			return
		}
		if r.Bool() {
			g.do1(COp{Op: "DSet", H: k, X: x})
		} else {
			g.do1(COp{Op: "DEquals", H: k, X: x, V: int64(r.Range(1, 4))})
		}
		if x.C {
			g.nDense++
			g.readC[x.H] = g.readC[x.H] || g.do[k].N > 0
		}
	case 13:
		a, ok := g.pickOperand(n)
		b, ok2 := g.pickOperand(n)
		if !ok || !ok2 {
			return
		}
		if int64(n)*maxAbs(g.vals(a))*maxAbs(g.vals(b)) > g.cap {
			return
		}
		g.do1(COp{Op: "DdotV", A: a, B: b})
		if a.C || b.C {
			g.nDense++
		}
		for _, x := range []CRef{a, b} {
			if x.C && n > 0 {
				g.readC[x.H] = true
			}
		}
	}
}

func spIsRealName(tn string) bool { return tn == "real64" || tn == "real32" }

func divides(a, b []int64) bool {
	for i := range a {
		if b[i] == 0 || a[i]%b[i] != 0 {
			return false
		}
	}
	return true
}

func (g *cgen) arith() {
	r := g.r
	// receivers: dense handles; prefer dimension n
	var recv []int
	for k := range g.w.D {
		if g.do[k].N == g.n {
			recv = append(recv, k)
		}
	}
	if len(recv) == 0 {
		return
	}
	k := recv[r.Intn(len(recv))]
	n := g.do[k].N
	a, ok := g.pickOperand(n)
	b, ok2 := g.pickOperand(n)
	if !ok || !ok2 {
		return
	}
	if r.Intn(8) == 0 {
		a = CRef{false, k} // the receiver among its operands
	}
	if r.Intn(30) == 0 {
		b = CRef{true, 0}
		if g.co[0].N == n && len(g.w.C) > 1 {
			b = CRef{true, len(g.w.C) - 1} // possibly another dimension: panic expected
		}
	}
	va, vb := g.vals(a), g.vals(b)
	ma, mb := maxAbs(va), maxAbs(vb)
	isInt := isIntType(g.w.Type)
	mark := func(xs ...CRef) {
		for _, x := range xs {
			if x.C {
				g.nDense++
				if n > 0 {
					g.readC[x.H] = true
				}
				return
			}
		}
	}
	switch r.Intn(9) {
	case 0, 1:
		if ma+mb <= g.cap {
			f := "Add"
			if r.Bool() {
				f = "Sub"
			}
			g.do1(COp{Op: "DopV", F: f, H: k, A: a, B: b})
			mark(a, b)
		}
	case 2:
		if ma*mb <= g.cap {
			g.do1(COp{Op: "DopV", F: "Mul", H: k, A: a, B: b})
			mark(a, b)
		}
	case 3:
		if g.dim(a) == n && g.dim(b) == n && (isInt || divides(va, vb) || r.Intn(6) == 0) {
			// integer types: any operands (a zero divisor panics); float types: exact quotients, or
			// now and then a zero divisor, which ends the history
			if !isInt && !divides(va, vb) {
				for i := range vb {
					if vb[i] != 0 && va[i]%vb[i] != 0 {
						return
					}
				}
			}
			g.do1(COp{Op: "DdivV", H: k, A: a, B: b})
			mark(a, b)
		}
	case 4:
		s := int64(r.Range(-8, 8))
		if ma+8 <= g.cap {
			g.do1(COp{Op: "DaddS", H: k, A: a, V: s})
			mark(a)
		}
	case 5:
		s := int64(r.Range(-8, 8))
		if ma+8 <= g.cap {
			g.do1(COp{Op: "DsubS", H: k, A: a, V: s})
			mark(a)
		}
	case 6:
		s := int64(r.Range(-4, 4))
		if ma*4 <= g.cap {
			g.do1(COp{Op: "DmulS", H: k, A: a, V: s})
			mark(a)
		}
	case 7, 8:
		s := int64([]int{1, -1, 2, -2, 3, 0}[r.Intn(6)])
		if !isInt && s != 0 {
			for _, x := range va {
				if x%s != 0 {
					return
				}
			}
		}
		if s == 0 && r.Intn(3) > 0 {
			return
		}
		g.do1(COp{Op: "DdivS", H: k, A: a, V: s})
		mark(a)
	}
}

// ---------------------------------------------------------------- corpus

func readCCorpus(path string) []CCase {
	var cs []CCase
	if path == "" {
		return cs
	}
	b, err := os.ReadFile(path)
	if err != nil {
		return cs
	}
	for _, line := range splitLines(string(b)) {
		var c CCase
		if err := json.Unmarshal([]byte(line), &c); err != nil {
			Die("const corpus: %v", err)
		}
		cs = append(cs, c)
	}
	return cs
}
func splitLines(s string) []string {
	var out []string
	cur := ""
	for _, ch := range s {
		if ch == '\n' {
			if t := trimSpace(cur); t != "" && t[0] != '#' {
				out = append(out, t)
			}
			cur = ""
		} else {
			cur += string(ch)
		}
	}
	if t := trimSpace(cur); t != "" && t[0] != '#' {
		out = append(out, t)
	}
	return out
}
func trimSpace(s string) string {
	for len(s) > 0 && (s[0] == ' ' || s[0] == '\t' || s[0] == '\r') {
		s = s[1:]
	}
	for len(s) > 0 && (s[len(s)-1] == ' ' || s[len(s)-1] == '\t' || s[len(s)-1] == '\r') {
		s = s[:len(s)-1]
	}
	return s
}

// writeCCases: the "ccases" family of shards
func writeCCases(o Opts, corpus string) {
	cw := NewCaseWriter(o.Out, "ccases", hdrC, "mismc", 20)
	cw.Type = "casec"
	cw.Rule = ruleC
	for _, c := range readCCorpus(corpus) {
		c.Outs = executeC(c)
		b, _ := json.Marshal(c.Ops)
		cw.Add(coqCCase(c), c, "corpus:"+string(b), true)
		cw.Count("corpus")
	}
	rng := NewRng(o.Seed*7 + 2750159)
	for k := 0; k < o.N/2; k++ {
		tn := typeNames[k%len(typeNames)]
		ctn := constTypeNames[(k/len(typeNames)+k)%len(constTypeNames)]
		c, nt := genCCase(rng.Split(), tn, ctn, cw)
		b, _ := json.Marshal(c.Ops)
		cw.Add(coqCCase(c), c, tn+"/"+ctn+string(b), nt)
		cw.Count("type:" + tn)
		cw.Count("ctype:" + ctn)
	}
	if err := cw.Flush(); err != nil {
		Die("%v", err)
	}
}
