// C04 harness: runs gaussJordan / matrixInverse / backSubstitution / determinant
// and the Permute* methods of /repo on generated inputs and writes the observed
// results as Coq case files for the model in coq/C04 (bit-exact float replay
// plus exact rational residual goals).  --extra hunt runs the property-level
// oracle (exact rational arithmetic, math/big) on the implementation.
package main

import (
	"encoding/json"
	"fmt"
	"math"
	"os"
	"strings"

	. "adharness/common"

	ad "github.com/pbenner/autodiff"
	"github.com/pbenner/autodiff/algorithm/backSubstitution"
	"github.com/pbenner/autodiff/algorithm/determinant"
	"github.com/pbenner/autodiff/algorithm/gaussJordan"
	"github.com/pbenner/autodiff/algorithm/matrixInverse"
)

type Case struct {
	Kind   string      `json:"kind"` // GJ Inv BS Det DetPD Perm
	Dense  bool        `json:"dense"`
	UT     bool        `json:"ut,omitempty"`
	Mode   int         `json:"mode,omitempty"` // Inv: 0 plain, 1 upper triangular, 2 positive definite
	InSitu bool        `json:"insitu,omitempty"`
	InSituA bool       `json:"insitua,omitempty"` // backSubstitution: caller-supplied InSitu.A buffer (stale content)
	MskNil bool        `json:"msknil,omitempty"` // no Submatrix option passed (Msk is all true)
	N      int         `json:"n"`
	Msk    []bool      `json:"msk,omitempty"`
	A      [][]float64 `json:"a"`
	X      [][]float64 `json:"x,omitempty"`
	B      []float64   `json:"b,omitempty"`
	HasB   bool        `json:"hasb,omitempty"`
	Pi     []int       `json:"pi,omitempty"`
	PKind  int         `json:"pkind,omitempty"`
	Tag    string      `json:"tag"`
	// round 3
	ET    string `json:"et,omitempty"`    // element type f32 f64 r32 r64 ("" = legacy: Dense ? f64 : r64)
	Log   bool   `json:"log,omitempty"`   // DetPD: determinant.LogScale{true}
	Reuse bool   `json:"reuse,omitempty"` // the call and its history share ONE InSitu struct
	Pre   []Case `json:"pre,omitempty"`   // history: calls executed before this one in the same process
	// round 6
	View map[string]VW `json:"view,omitempty"` // operands / in-situ buffers that are views of a larger workspace (views.go)
	Scale int          `json:"scale,omitempty"` // generator note: the entries were scaled by 2^Scale (determinant out of the float range)
	// round 7
	AliasX bool `json:"aliasx,omitempty"` // backSubstitution: InSitu.X is the right-hand side b itself (solve in place)
	AliasA bool `json:"aliasa,omitempty"` // backSubstitution: InSitu.A is the matrix argument itself
}

type Result struct {
	Kind string // ok errsingular panicsingular errnotpd errperm panicindex other:...
	A, X [][]float64
	B    []float64
	BAfter []float64 // backSubstitution: the right-hand side read after the call
	V    float64
	WS   []WSDump // view cases: every workspace before / after the call
}

// ---------------------------------------------------------------- helpers

func flat(m [][]float64) []float64 {
	r := []float64{}
	for _, row := range m {
		r = append(r, row...)
	}
	return r
}
func rowsOf(m ad.ConstMatrix) [][]float64 {
	n, k := m.Dims()
	r := make([][]float64, n)
	for i := 0; i < n; i++ {
		r[i] = make([]float64, k)
		for j := 0; j < k; j++ {
			r[i][j] = m.ConstAt(i, j).GetFloat64()
		}
	}
	return r
}
func vecOf(v ad.ConstVector) []float64 {
	r := make([]float64, v.Dim())
	for i := range r {
		r[i] = v.ConstAt(i).GetFloat64()
	}
	return r
}
func cloneM(m [][]float64) [][]float64 {
	r := make([][]float64, len(m))
	for i := range m {
		r[i] = append([]float64{}, m[i]...)
	}
	return r
}
func identity(n int) [][]float64 {
	r := make([][]float64, n)
	for i := range r {
		r[i] = make([]float64, n)
		r[i][i] = 1
	}
	return r
}
func allTrue(n int) []bool {
	r := make([]bool, n)
	for i := range r {
		r[i] = true
	}
	return r
}
func classifyErr(err error) string {
	s := err.Error()
	switch {
	case strings.Contains(s, "singular"):
		return "errsingular"
	case strings.Contains(s, "positive definite"):
		return "errnotpd"
	case strings.Contains(s, "invalid permutation"):
		return "errperm"
	}
	return "other:err:" + s
}
func classifyPanic(r interface{}) string {
	s := fmt.Sprint(r)
	switch {
	case strings.Contains(s, "singular"):
		return "panicsingular"
	case strings.Contains(s, "index out of range") || strings.Contains(s, "out of bounds"):
		return "panicindex"
	}
	return "other:panic:" + s
}
func newMat(dense bool, m [][]float64, n int) ad.Matrix {
	if dense {
		return ad.NewDenseFloat64Matrix(flat(m), n, n)
	}
	return ad.NewDenseReal64Matrix(flat(m), n, n)
}
func newVec(dense bool, v []float64) ad.Vector {
	if dense {
		return ad.NewDenseFloat64Vector(append([]float64{}, v...))
	}
	return ad.NewDenseReal64Vector(append([]float64{}, v...))
}
func dirty(n int) [][]float64 {
	r := make([][]float64, n)
	for i := range r {
		r[i] = make([]float64, n)
		for j := range r[i] {
			r[i][j] = float64(7*i-3*j) + 0.5
		}
	}
	return r
}

// ---------------------------------------------------------------- running the implementation

func execOne(c Case, ses *session) (res Result) {
	ws := newWsSet(c.et())
	defer func() { // runs AFTER the recover below: the workspaces are dumped on every outcome
		if len(ws.recs) > 0 {
			defer func() {
				if r := recover(); r != nil {
					res = Result{Kind: "other:panic-while-reading-a-view:" + fmt.Sprint(r)}
				}
			}()
			res.WS = ws.after()
		}
	}()
	defer func() {
		if r := recover(); r != nil {
			res = Result{Kind: classifyPanic(r)}
		}
	}()
	n, et := c.N, c.et()
	in := effective(c) // the inputs as the element type holds them
	switch c.Kind {
	case "GJ":
		a, x, b := ws.operand(c, "a", c.A), ws.operand(c, "x", c.X), newVecT(et, c.B)
		ws.before()
		args := []interface{}{}
		if !c.MskNil {
			args = append(args, gaussJordan.Submatrix{append([]bool{}, c.Msk...)})
		}
		if c.UT {
			args = append(args, gaussJordan.UpperTriangular{true})
		}
		if err := gaussJordan.Run(a, x, b, args...); err != nil {
			return Result{Kind: classifyErr(err)}
		}
		return Result{Kind: "ok", A: rowsOf(a), X: rowsOf(x), B: vecOf(b)}
	case "Inv":
		m := ws.operand(c, "m", c.A)
		args := []interface{}{}
		if !c.MskNil {
			args = append(args, gaussJordan.Submatrix{append([]bool{}, c.Msk...)})
		}
		switch c.Mode {
		case 1:
			args = append(args, matrixInverse.UpperTriangular{true})
		case 2:
			args = append(args, matrixInverse.PositiveDefinite{true})
		}
		if c.InSitu || c.Reuse {
			// caller-supplied buffers holding stale content (or the results of the history)
			is := ses.invBufs(c)
			if _, ok := c.View["bufa"]; ok {
				is.A = ws.operand(c, "bufa", dirty(n))
			}
			if _, ok := c.View["bufid"]; ok {
				is.Id = ws.operand(c, "bufid", dirty(n))
			}
			args = append(args, is)
		}
		ws.before()
		r, err := matrixInverse.Run(m, args...)
		if err != nil {
			return Result{Kind: classifyErr(err)}
		}
		// the argument must not have been modified
		if fmt.Sprint(rowsOf(m)) != fmt.Sprint(in.A) {
			return Result{Kind: "other:input-modified"}
		}
		return Result{Kind: "ok", X: rowsOf(r)}
	case "BS":
		a := ws.operand(c, "m", c.A)
		var b ad.Vector
		if c.HasB {
			b = newVecT(et, c.B)
		}
		var x ad.Vector
		var err error
		aliasX := c.AliasX && b != nil
		if c.InSituA || c.InSitu || c.Reuse || aliasX || c.AliasA {
			is := ses.bsBufs(c)
			if _, ok := c.View["bufa"]; ok {
				is.A = ws.operand(c, "bufa", dirty(n))
			} else if c.AliasA {
				cp := *is // never store the aliases in a shared struct
				is = &cp
				is.A = a
			}
			if aliasX {
				cp := *is
				is = &cp
				is.X = b
			}
			ws.before()
			x, err = backSubstitution.Run(a, b, is)
		} else {
			ws.before()
			x, err = backSubstitution.Run(a, b)
		}
		if err != nil {
			return Result{Kind: classifyErr(err)}
		}
		if fmt.Sprint(rowsOf(a)) != fmt.Sprint(in.A) {
			return Result{Kind: "other:input-modified"}
		}
		var bafter []float64
		if b != nil {
			bafter = vecOf(b)
			if !aliasX && fmt.Sprint(bafter) != fmt.Sprint(in.B) {
				return Result{Kind: "other:rhs-modified"}
			}
		}
		return Result{Kind: "ok", B: vecOf(x), BAfter: bafter}
	case "Det":
		dm := ws.operand(c, "m", c.A)
		ws.before()
		r, err := determinant.Run(dm)
		if err != nil {
			return Result{Kind: classifyErr(err)}
		}
		return Result{Kind: "ok", V: r.GetFloat64()}
	case "DetPD":
		args := []interface{}{determinant.PositiveDefinite{true}}
		if c.Log {
			args = append(args, determinant.LogScale{true})
		}
		if c.InSitu || c.Reuse {
			args = append(args, ses.detBufs(c))
		}
		dm := ws.operand(c, "m", c.A)
		ws.before()
		r, err := determinant.Run(dm, args...)
		if err != nil {
			return Result{Kind: classifyErr(err)}
		}
		return Result{Kind: "ok", V: r.GetFloat64()}
	case "Perm":
		pi := append([]int{}, c.Pi...)
		if c.PKind == 0 {
			v := newVecT(et, c.A[0])
			if err := v.Permute(pi); err != nil {
				return Result{Kind: classifyErr(err)}
			}
			return Result{Kind: "ok", X: [][]float64{vecOf(v)}}
		}
		m := newMatT(et, c.A, n)
		var err error
		switch c.PKind {
		case 1:
			err = m.PermuteRows(pi)
		case 2:
			err = m.PermuteColumns(pi)
		default:
			err = m.SymmetricPermutation(pi)
		}
		if err != nil {
			return Result{Kind: classifyErr(err)}
		}
		return Result{Kind: "ok", X: rowsOf(m)}
	}
	Die("unknown case kind %q", c.Kind)
	return
}

// ---------------------------------------------------------------- Coq printing

func fm(m [][]float64) string {
	s := make([]string, len(m))
	for i := range m {
		s[i] = FList(m[i])
	}
	return List(s)
}
func bl(b []bool) string {
	s := make([]string, len(b))
	for i := range b {
		s[i] = B(b[i])
	}
	return List(s)
}
func outcome(kind, ok string) string {
	switch kind {
	case "ok":
		return "(Ok " + ok + ")"
	case "errsingular":
		return "ErrSingular"
	case "panicsingular":
		return "PanicSingular"
	case "errnotpd":
		return "ErrNotPD"
	case "errperm":
		return "ErrPerm"
	case "panicindex":
		return "PanicIndex"
	}
	return "OutOfFuel" // an outcome the model never equals: reported as a mismatch
}

func normInf(m [][]float64, msk []bool) float64 {
	r := 0.0
	for i := range m {
		if !msk[i] {
			continue
		}
		s := 0.0
		for j := range m[i] {
			if msk[j] {
				s += math.Abs(m[i][j])
			}
		}
		if s > r {
			r = s
		}
	}
	return r
}
func finiteM(m [][]float64) bool {
	for _, r := range m {
		for _, v := range r {
			if math.IsNaN(v) || math.IsInf(v, 0) {
				return false
			}
		}
	}
	return true
}

const condLimit = 1e7

// tolerance of the exact residual goals: 64 n eps ||A|| ||X||
func resTol(n int, na, nx float64) float64 {
	return math.Ldexp(float64(n)*math.Max(1, na*nx), -46)
}

// coqCases returns the Coq terms for one executed case: the replay term and,
// where the input satisfies the routine's precondition, exact residual goals.
func coqCases(c Case, r Result, w *CaseWriter) []string {
	var out []string
	n := c.N
	if c.ET != "" {
		return coqCasesTyped(c, r, w)
	}
	switch c.Kind {
	case "GJ":
		out = append(out, fmt.Sprintf("KGJ %s %s %d %s %s %s %s %s", B(c.Dense), B(c.UT), n, bl(c.Msk), fm(c.A), fm(c.X), FList(c.B),
			outcome(r.Kind, "("+fm(r.A)+", "+fm(r.X)+", "+FList(r.B)+")")))
		if r.Kind == "ok" && c.Tag != "garbage" && finiteM(r.X) && finiteM([][]float64{r.B}) {
			na := normInf(c.A, c.Msk)
			mx := 0.0
			for i, v := range r.B {
				if c.Msk[i] && math.Abs(v) > mx {
					mx = math.Abs(v)
				}
			}
			kx := normInf(r.X, c.Msk)
			if na*kx <= condLimit {
				out = append(out, fmt.Sprintf("KResV %d %s %s %s %s %s", n, bl(c.Msk), fm(c.A), FList(r.B), FList(c.B), Q(resTol(n, na, math.Max(mx, 1)*math.Max(kx, 1)))))
				w.Count("residual:solve")
			} else {
				w.Count("residual:skipped-ill-conditioned")
			}
		}
	case "Inv":
		out = append(out, fmt.Sprintf("KInv2 %s %d %d %s %s %s %s", B(c.Dense), c.Mode, n, B(c.MskNil), bl(c.Msk), fm(c.A), outcome(r.Kind, fm(r.X))))
		if r.Kind == "ok" && c.Tag != "garbage" && finiteM(r.X) {
			na, nx := normInf(c.A, c.Msk), normInf(r.X, c.Msk)
			if na*nx <= condLimit {
				out = append(out, fmt.Sprintf("KRes %d %s %s %s %s", n, bl(c.Msk), fm(c.A), fm(r.X), Q(resTol(n, na, nx))))
				w.Count("residual:inverse")
			} else {
				w.Count("residual:skipped-ill-conditioned")
			}
		}
	case "BS":
		if r.Kind != "ok" {
			r.B = []float64{}
		}
		if c.AliasX && c.HasB {
			if r.Kind != "ok" {
				r.BAfter = []float64{}
			}
			out = append(out, fmt.Sprintf("KBSal %d %d %s %s %s %s %s", etCode(c.et()), n, fm(c.A), B(c.AliasA), FList(c.B), FList(r.B), FList(r.BAfter)))
			w.Count("backsub:x-aliases-b")
		} else {
			out = append(out, fmt.Sprintf("KBS2 %d %s %s %s %s", n, fm(c.A), B(c.HasB), FList(c.B), FList(r.B)))
		}
		if r.Kind == "ok" && c.HasB && c.Tag != "garbage" && finiteM([][]float64{r.B}) {
			na := normInf(c.A, allTrue(n))
			mx := 1.0
			for _, v := range r.B {
				mx = math.Max(mx, math.Abs(v))
			}
			if na*mx <= condLimit {
				out = append(out, fmt.Sprintf("KResV %d %s %s %s %s %s", n, bl(allTrue(n)), fm(c.A), FList(r.B), FList(c.B), Q(resTol(n, na, mx))))
				w.Count("residual:backsub")
			}
		}
	case "Det":
		out = append(out, fmt.Sprintf("KDet %d %s %s", n, fm(c.A), F(r.V)))
	case "DetPD":
		out = append(out, fmt.Sprintf("KDetPD %d %s %s", n, fm(c.A), outcome(r.Kind, F(r.V))))
	case "Perm":
		pi := make([]string, len(c.Pi))
		for i, v := range c.Pi {
			pi[i] = fmt.Sprint(v)
		}
		out = append(out, fmt.Sprintf("KPerm %d %d %s %s %s", c.PKind, n, List(pi), fm(c.A), outcome(r.Kind, fm(r.X))))
	}
	return out
}

// typed cases (round 3): the inputs are printed as GIVEN (binary64); the model rounds them to
// binary32 for the 32 bit element types, as the float32 conversion of the harness did
func coqCasesTyped(c Case, r Result, w *CaseWriter) []string {
	var out []string
	n, et := c.N, etCode(c.et())
	in := effective(c)
	tolOf := func(n int, na, nx float64) float64 {
		if is32(c.et()) {
			return math.Ldexp(float64(n)*math.Max(1, na*nx), -17)
		}
		return resTol(n, na, nx)
	}
	switch c.Kind {
	case "GJ":
		out = append(out, fmt.Sprintf("KTGJ %d %s %d %s %s %s %s %s", et, B(c.UT), n, bl(c.Msk), fm(c.A), fm(c.X), FList(c.B),
			outcome(r.Kind, "("+fm(r.A)+", "+fm(r.X)+", "+FList(r.B)+")")))
		if r.Kind == "ok" && finiteM(r.X) && finiteM([][]float64{r.B}) {
			na, kx, mx := normInf(in.A, c.Msk), normInf(r.X, c.Msk), 0.0
			for i, v := range r.B {
				if c.Msk[i] && math.Abs(v) > mx {
					mx = math.Abs(v)
				}
			}
			if na*kx <= condLimit/100 {
				out = append(out, fmt.Sprintf("KResV %d %s %s %s %s %s", n, bl(c.Msk), fm(in.A), FList(r.B), FList(in.B), Q(tolOf(n, na, math.Max(mx, 1)*math.Max(kx, 1)))))
				w.Count("residual:solve")
			}
		}
	case "Inv":
		out = append(out, fmt.Sprintf("KTInv %d %d %d %s %s %s %s", et, c.Mode, n, B(c.MskNil), bl(c.Msk), fm(c.A), outcome(r.Kind, fm(r.X))))
		if r.Kind == "ok" && finiteM(r.X) {
			na, nx := normInf(in.A, c.Msk), normInf(r.X, c.Msk)
			if na*nx <= condLimit/100 {
				out = append(out, fmt.Sprintf("KRes %d %s %s %s %s", n, bl(c.Msk), fm(in.A), fm(r.X), Q(tolOf(n, na, nx))))
				w.Count("residual:inverse")
			}
		}
	case "BS":
		if r.Kind != "ok" {
			r.B = []float64{}
		}
		if c.AliasX && c.HasB {
			if r.Kind != "ok" {
				r.BAfter = []float64{}
			}
			out = append(out, fmt.Sprintf("KBSal %d %d %s %s %s %s %s", et, n, fm(c.A), B(c.AliasA), FList(c.B), FList(r.B), FList(r.BAfter)))
			w.Count("backsub:x-aliases-b")
		} else {
			out = append(out, fmt.Sprintf("KTBS %d %d %s %s %s %s", et, n, fm(c.A), B(c.HasB), FList(c.B), FList(r.B)))
		}
		if r.Kind == "ok" && c.HasB && finiteM([][]float64{r.B}) {
			na, mx := normInf(in.A, allTrue(n)), 1.0
			for _, v := range r.B {
				mx = math.Max(mx, math.Abs(v))
			}
			if na*mx <= condLimit/100 {
				out = append(out, fmt.Sprintf("KResV %d %s %s %s %s %s", n, bl(allTrue(n)), fm(in.A), FList(r.B), FList(in.B), Q(tolOf(n, na, mx))))
				w.Count("residual:backsub")
			}
		}
	case "Det":
		if r.Kind != "ok" {
			r.V = math.NaN()
		}
		out = append(out, fmt.Sprintf("KTDet %d %d %s %s", et, n, fm(c.A), F(r.V)))
	case "DetPD":
		out = append(out, fmt.Sprintf("KTDetPD %d %s %d %s %s %s", et, B(c.Log), n, fm(c.A), logTable(c), outcome(r.Kind, F(r.V))))
	}
	// gaussJordan.Run on two views of two workspaces: the element-level view model, whole workspaces
	if c.Kind == "GJ" && len(r.WS) == 2 && len(r.WS[0].Views) == 1 && len(r.WS[1].Views) == 1 &&
		r.WS[0].Views[0].Name == "a" && r.WS[1].Views[0].Name == "x" && r.WS[0].Before != nil {
		wa, wx := r.WS[0], r.WS[1]
		out = append(out, fmt.Sprintf("KVGJ %d %s %d %s %d %d %s %s %d %d %s %s %s %s", et, B(c.UT), n, bl(c.Msk),
			wa.R, wa.C, opsCoq(wa.Views[0].Ops), FList(wa.Before), wx.R, wx.C, opsCoq(wx.Views[0].Ops), FList(wx.Before), FList(in.B),
			outcome(r.Kind, "("+FList(wa.After)+", "+FList(wx.After)+", "+FList(r.B)+")")))
		w.Count("view:gauss-jordan-element-level-model")
	}
	// matrixInverse.Run (plain / upper triangular) with InSitu.A and InSitu.Id views of two workspaces: m_inverse_v
	if c.Kind == "Inv" && c.Mode != 2 && !c.Reuse && (r.Kind == "ok" || r.Kind == "errsingular") {
		var wA, wI *WSDump
		for k := range r.WS {
			d := &r.WS[k]
			if len(d.Views) == 1 && d.Views[0].Name == "bufa" {
				wA = d
			}
			if len(d.Views) == 1 && d.Views[0].Name == "bufid" {
				wI = d
			}
		}
		if wA != nil && wI != nil && wA.Before != nil {
			out = append(out, fmt.Sprintf("KVInv %d %s %d %s %s %d %d %s %s %d %d %s %s %s %s", et, B(c.Mode == 1), n, B(c.MskNil), bl(c.Msk),
				wA.R, wA.C, opsCoq(wA.Views[0].Ops), FList(wA.Before), wI.R, wI.C, opsCoq(wI.Views[0].Ops), FList(wI.Before), fm(c.A),
				outcome(r.Kind, "("+FList(wA.After)+", "+FList(wI.After)+")")))
			w.Count("view:matrix-inverse-view-buffers-model")
		}
	}
	// view cases: every workspace, whole, before and after
	for _, d := range r.WS {
		out = append(out, wsCoq(d))
		w.Count("workspace:compared")
	}
	return out
}

func prefixMask(m []bool) bool {
	seenFalse := false
	for _, v := range m {
		if !v {
			seenFalse = true
		} else if seenFalse {
			return false
		}
	}
	return true
}

// ---------------------------------------------------------------- generators

func intMat(r *Rng, n, lim int, pzero int) [][]float64 {
	m := make([][]float64, n)
	for i := range m {
		m[i] = make([]float64, n)
		for j := range m[i] {
			if r.Intn(100) < pzero {
				continue
			}
			m[i][j] = float64(r.Range(-lim, lim))
		}
	}
	return m
}
func nz(r *Rng, lim int) float64 {
	v := r.Range(1, lim)
	if r.Bool() {
		return float64(-v)
	}
	return float64(v)
}
func triMat(r *Rng, n int) [][]float64 {
	m := intMat(r, n, 9, 20)
	for i := range m {
		for j := 0; j < i; j++ {
			m[i][j] = 0
		}
		m[i][i] = nz(r, 9)
	}
	return m
}
func spdMat(r *Rng, n int) [][]float64 {
	b := intMat(r, n, 3, 10)
	m := make([][]float64, n)
	d := float64(r.Range(1, 3))
	for i := range m {
		m[i] = make([]float64, n)
		for j := range m[i] {
			for k := 0; k < n; k++ {
				m[i][j] += b[k][i] * b[k][j]
			}
		}
		m[i][i] += d
	}
	return m
}
func dyadicMat(r *Rng, n int) [][]float64 {
	m := make([][]float64, n)
	for i := range m {
		m[i] = make([]float64, n)
		for j := range m[i] {
			m[i][j] = float64(r.Range(-64, 64)) / 8
		}
	}
	return m
}
func floatMat(r *Rng, n int) [][]float64 {
	m := make([][]float64, n)
	for i := range m {
		m[i] = make([]float64, n)
		for j := range m[i] {
			m[i][j] = (r.Float()*2 - 1) * math.Ldexp(1, r.Range(-3, 3))
		}
		m[i][i] += float64(n) // keep it reasonably conditioned
	}
	return m
}
func singularMat(r *Rng, n int) ([][]float64, string) {
	m := intMat(r, n, 9, 10)
	for i := range m {
		m[i][i] += 1
	}
	k := r.Intn(n)
	switch r.Intn(4) {
	case 0:
		for j := 0; j < n; j++ {
			m[k][j] = 0
		}
		return m, "zero-row"
	case 1:
		for i := 0; i < n; i++ {
			m[i][k] = 0
		}
		return m, "zero-col"
	case 2:
		if n >= 2 {
			l := (k + 1 + r.Intn(n-1)) % n
			copy(m[l], m[k])
			return m, "identical-rows"
		}
		m[0][0] = 0
		return m, "zero-row"
	default:
		if n >= 3 {
			l1, l2 := (k+1)%n, (k+2)%n
			for j := 0; j < n; j++ {
				m[k][j] = m[l1][j] + m[l2][j]
			}
			return m, "dependent-rows"
		}
		for j := 0; j < n; j++ {
			m[k][j] = 0
		}
		return m, "zero-row"
	}
}
func randVec(r *Rng, n int) []float64 {
	v := make([]float64, n)
	for i := range v {
		v[i] = float64(r.Range(-9, 9))
	}
	return v
}
func randMask(r *Rng, n int) ([]bool, bool) {
	if r.Intn(100) < 65 {
		return allTrue(n), r.Bool()
	}
	m := make([]bool, n)
	for i := range m {
		m[i] = r.Intn(100) < 65
	}
	return m, false
}
func genSize(r *Rng) int {
	return []int{1, 2, 2, 3, 3, 3, 4, 4, 4, 5, 5, 6, 6, 7, 8}[r.Intn(15)]
}

// fixed well-conditioned matrices whose row permutations are enumerated
func baseMat(n int) [][]float64 {
	m := make([][]float64, n)
	for i := range m {
		m[i] = make([]float64, n)
		for j := range m[i] {
			m[i][j] = float64((3*i+5*j+i*j)%7) - 3 + 0.25*float64(j)
		}
		m[i][i] += float64(2*n + i)
	}
	return m
}
func permutations(n int) [][]int {
	if n == 0 {
		return [][]int{{}}
	}
	var out [][]int
	for _, p := range permutations(n - 1) {
		for k := 0; k <= len(p); k++ {
			q := append(append(append([]int{}, p[:k]...), n-1), p[k:]...)
			out = append(out, q)
		}
	}
	return out
}
func permRows(m [][]float64, p []int) [][]float64 {
	r := make([][]float64, len(p))
	for i, k := range p {
		r[i] = append([]float64{}, m[k]...)
	}
	return r
}

func genMatrix(r *Rng, n int) ([][]float64, string) {
	switch r.Pick([]int{22, 10, 12, 12, 10, 10, 10, 14}) {
	case 0:
		return intMat(r, n, 9, 0), "int"
	case 1:
		return intMat(r, n, 3, 0), "int3"
	case 2:
		return triMat(r, n), "tri"
	case 3:
		return spdMat(r, n), "spd"
	case 4:
		return intMat(r, n, 9, 50), "zeros"
	case 5:
		return dyadicMat(r, n), "dyadic"
	case 6:
		return floatMat(r, n), "float"
	default:
		m, t := singularMat(r, n)
		return m, "singular:" + t
	}
}

func genCase(r *Rng) Case {
	n := genSize(r)
	a, tag := genMatrix(r, n)
	c := Case{N: n, A: a, Tag: tag, Dense: r.Intn(100) < 55}
	c.Msk, c.MskNil = randMask(r, n)
	switch r.Pick([]int{30, 34, 10, 12, 8, 8}) {
	case 0:
		c.Kind = "GJ"
		c.B = randVec(r, n)
		if r.Intn(100) < 50 {
			c.X = identity(n)
		} else {
			c.X = intMat(r, n, 5, 20)
		}
		c.UT = tag == "tri" && r.Intn(100) < 80
		if tag != "tri" && r.Intn(100) < 6 {
			c.UT, c.Tag = true, "garbage" // precondition violated: replay only
		}
		if c.UT && !upperTri(c.X) {
			c.Tag = "garbage" // the UT variant normalises x[i,k] for k >= i only
		}
	case 1:
		c.Kind = "Inv"
		c.InSitu = r.Intn(100) < 35
		switch {
		case tag == "tri" && r.Intn(100) < 75:
			c.Mode = 1
		case tag == "spd" && r.Intn(100) < 80:
			c.Mode = 2
		case r.Intn(100) < 8:
			c.Mode = 2 // PD requested on a matrix that is probably not PD: error path
			if c.Tag != "spd" {
				c.Tag = "garbage"
			}
		}
	case 2:
		c.Kind = "BS"
		c.Msk, c.MskNil = allTrue(n), true
		if tag != "tri" && r.Bool() {
			c.A, c.Tag = triMat(r, n), "tri"
		} else if tag != "tri" {
			c.Tag = "garbage"
		}
		c.HasB = r.Intn(100) < 85
		c.B = randVec(r, n)
		c.InSitu = r.Intn(100) < 30
		c.InSituA = r.Intn(100) < 35
		c.AliasX = r.Intn(100) < 40
		c.AliasA = r.Intn(100) < 20
	case 3:
		c.Kind = "Det"
		c.Msk, c.MskNil = allTrue(n), true
		if n > 6 {
			c.N, c.A = 6, intMat(r, 6, 9, 10)
			c.Msk = allTrue(6)
		}
	case 4:
		c.Kind = "DetPD"
		c.Msk, c.MskNil = allTrue(n), true
		c.InSitu = r.Bool()
		if r.Intn(100) < 70 {
			c.A, c.Tag = spdMat(r, n), "spd"
		}
	default:
		c.Kind = "Perm"
		c.Msk, c.MskNil = allTrue(n), true
		c.Dense = true
		c.PKind = r.Intn(4)
		c.Pi = make([]int, n)
		switch r.Intn(10) {
		case 0: // arbitrary entries incl. n (the matrix guard lets n through) and > n
			for i := range c.Pi {
				c.Pi[i] = r.Intn(n + 2)
			}
		default:
			c.Pi = shuffle(r, n)
		}
	}
	return c
}
func shuffle(r *Rng, n int) []int {
	p := make([]int, n)
	for i := range p {
		p[i] = i
	}
	for i := n - 1; i > 0; i-- {
		j := r.Intn(i + 1)
		p[i], p[j] = p[j], p[i]
	}
	return p
}
func upperTri(m [][]float64) bool {
	for i := range m {
		for j := 0; j < i; j++ {
			if m[i][j] != 0 {
				return false
			}
		}
	}
	return true
}

// enumeration stream: every row permutation of a fixed matrix (all pivot orders)
func permStream(tier string) []Case {
	var cs []Case
	maxN := 5
	for n := 1; n <= maxN; n++ {
		base := baseMat(n)
		for k, p := range permutations(n) {
			a := permRows(base, p)
			c := Case{Kind: "Inv", N: n, A: a, Dense: true, Msk: allTrue(n), MskNil: true, Tag: "rowperm"}
			cs = append(cs, c)
			if n <= 4 {
				g := c
				g.Dense = false
				cs = append(cs, g)
				s := Case{Kind: "GJ", N: n, A: a, X: identity(n), B: baseMat(n)[0], Dense: k%2 == 0, Msk: allTrue(n), Tag: "rowperm"}
				cs = append(cs, s)
			}
		}
	}
	return cs
}

// round 7 — enumeration stream for exact-zero / tie corner cases: EVERY 2x2 matrix with entries in {-1,0,1} and a
// deterministic sample of the 3x3 ones (entries -1..1: nearly every pivot column has a tie in absolute value, many
// multipliers, products and partial sums are exactly zero), right-hand sides and x operands with exact zeros in
// every position pattern, both paths (DenseFloat64 fast path / generic), gaussJordan.Run and matrixInverse.Run;
// plus in-place back substitution on small integer triangular systems with zeros in b
func tieStream(r *Rng, n3 int) []Case {
	var cs []Case
	bpat2 := [][]float64{{0, 0}, {0, 1}, {1, 0}, {2, -1}, {0, -3}, {5, 0}}
	xs2 := [][][]float64{identity(2), {{0, 1}, {1, 0}}, {{0, 0}, {0, 2}}, {{1, 2}, {0, 0}}}
	k := 0
	for code := 0; code < 81; code++ {
		a := make([][]float64, 2)
		v := code
		for i := range a {
			a[i] = make([]float64, 2)
			for j := range a[i] {
				a[i][j] = float64(v%3 - 1)
				v /= 3
			}
		}
		for t := 0; t < 2; t++ {
			c := Case{Kind: "GJ", N: 2, A: cloneM(a), X: cloneM(xs2[k%len(xs2)]), B: append([]float64{}, bpat2[k%len(bpat2)]...),
				Dense: k%2 == 0, Msk: allTrue(2), MskNil: k%3 == 0, Tag: "tie-enum"}
			cs = append(cs, c)
			k++
		}
	}
	for q := 0; q < n3; q++ {
		a := intMat(r, 3, 1, 0)
		if q%4 == 3 {
			a = intMat(r, 3, 2, 30)
		}
		b := make([]float64, 3)
		for i := range b {
			b[i] = []float64{0, 0, 1, -2, 3}[r.Intn(5)]
		}
		x := identity(3)
		if q%3 == 1 {
			x = intMat(r, 3, 2, 50)
		}
		c := Case{Kind: "GJ", N: 3, A: a, X: x, B: b, Dense: q%2 == 0, Msk: allTrue(3), MskNil: q%5 == 0, Tag: "tie-enum"}
		if q%7 == 6 {
			c.Msk, c.MskNil = []bool{true, q%2 == 0, true}, false
		}
		cs = append(cs, c)
		if q%4 == 0 {
			cs = append(cs, Case{Kind: "Inv", N: 3, A: cloneM(a), Dense: q%8 == 0, Msk: allTrue(3), MskNil: true, Tag: "tie-enum"})
		}
		if q%3 == 0 {
			n := 2 + q%3
			tm := intMat(r, n, 2, 30)
			for i := range tm {
				for j := 0; j < i; j++ {
					tm[i][j] = 0
				}
				tm[i][i] = nz(r, 2)
			}
			bb := make([]float64, n)
			for i := range bb {
				bb[i] = []float64{0, 0, 1, -2, 3}[r.Intn(5)]
			}
			cs = append(cs, Case{Kind: "BS", N: n, A: tm, HasB: true, B: bb, Dense: q%2 == 0, Msk: allTrue(n), MskNil: true,
				AliasX: true, AliasA: q%6 == 0, Tag: "tie-enum"})
		}
	}
	return cs
}

func nontrivial(c Case, r Result) bool {
	if c.View != nil {
		// a view case is non-trivial iff the routine returned a result and some operand's view has a non-zero
		// row AND column offset in its workspace
		if r.Kind != "ok" {
			return false
		}
		for _, v := range c.View {
			if offsetsNonZero(v.Ops) {
				return true
			}
		}
		return false
	}
	if c.ET != "" {
		// a typed case is non-trivial iff it has a history containing a call of ANOTHER element type
		// (or a shared InSitu struct) and the routine returned a result
		if r.Kind != "ok" || len(c.Pre) == 0 {
			return false
		}
		for _, p := range c.Pre {
			if p.et() != c.et() || c.Reuse {
				return true
			}
		}
		return false
	}
	if c.N < 3 || r.Kind != "ok" {
		return false
	}
	if (c.Kind == "GJ" && !c.UT) || (c.Kind == "Inv" && c.Mode == 0) {
		// needs a row interchange in the first selected column
		first := -1
		for i, v := range c.Msk {
			if v {
				first = i
				break
			}
		}
		if first < 0 {
			return false
		}
		for i := first + 1; i < c.N; i++ {
			if c.Msk[i] && math.Abs(c.A[i][first]) > math.Abs(c.A[first][first]) {
				return true
			}
		}
		return false
	}
	return true
}

const header = "From Coq Require Import List Bool ZArith QArith Floats. Import ListNotations.\nFrom ADV Require Import C04.Model C04.ModelV C04.Corr.\nLocal Open Scope nat_scope.\n"

func addCase(w *CaseWriter, c Case) {
	r := execCase(c)
	terms := coqCases(c, r, w)
	key, _ := json.Marshal(c)
	for k, t := range terms {
		w.Add(t, c, fmt.Sprintf("%s#%d", key, k), k == 0 && nontrivial(c, r))
	}
	w.Count("kind:" + c.Kind)
	w.Count("outcome:" + strings.SplitN(r.Kind, ":", 2)[0])
	w.Count("input:" + c.Tag)
	w.Count(fmt.Sprintf("n:%d", c.N))
	w.Count("elementtype:" + c.et())
	for _, name := range viewNames(c) {
		v := c.View[name]
		shape := ""
		for _, o := range v.Ops {
			if o.T {
				shape += "T"
			} else {
				shape += "S"
			}
		}
		w.Count("view-operand:" + name)
		w.Count("view-shape:" + shape)
		if v.Share != "" {
			w.Count("view:two-views-of-one-workspace")
		}
	}
	if c.Scale != 0 {
		w.Count("determinant:outside-float-range-scale")
	}
	if c.ET != "" {
		w.Count(fmt.Sprintf("history-length:%d", len(c.Pre)))
		if c.Reuse {
			w.Count("history:shared-insitu")
		}
		for _, p := range c.Pre {
			if p.Kind == c.Kind && p.N == c.N && p.et() != c.et() && is32(p.et()) && !is32(c.et()) {
				w.Count("history:same-routine-same-size-lower-precision-first")
				break
			}
		}
	}
	if c.Kind == "GJ" || c.Kind == "Inv" {
		w.Count(fmt.Sprintf("path:dense=%v", c.Dense))
		if !prefixAll(c.Msk) {
			w.Count("submatrix:proper")
		}
		if c.InSitu {
			w.Count("insitu")
		}
		if c.Kind == "Inv" {
			w.Count(fmt.Sprintf("inverse-mode:%d", c.Mode))
		}
	}
}
func prefixAll(m []bool) bool {
	for _, v := range m {
		if !v {
			return false
		}
	}
	return true
}

func readCorpus(path string) []Case {
	var cs []Case
	b, err := os.ReadFile(path)
	if err != nil {
		return nil
	}
	for _, line := range strings.Split(string(b), "\n") {
		line = strings.TrimSpace(line)
		if line == "" || strings.HasPrefix(line, "#") {
			continue
		}
		var c Case
		if err := json.Unmarshal([]byte(line), &c); err != nil {
			Die("corpus: %v", err)
		}
		if c.Msk == nil {
			c.Msk, c.MskNil = allTrue(c.N), true
		}
		cs = append(cs, c)
	}
	return cs
}

func main() {
	o := ParseFlags()
	if o.Extra == "hunt" {
		hunt(o)
		return
	}
	if o.Extra == "prop1" {
		prop1(o)
		return
	}
	if o.Replay != "" {
		b, err := os.ReadFile(o.Replay)
		if err != nil {
			Die("%v", err)
		}
		var rp struct {
			Case Case `json:"case"`
		}
		if err := json.Unmarshal(b, &rp); err != nil {
			Die("%v", err)
		}
		if rp.Case.Msk == nil {
			rp.Case.Msk, rp.Case.MskNil = allTrue(rp.Case.N), true
		}
		w := NewCaseWriter(o.Out, "replay", header, "mism", 1000)
		w.Type = "kase"
		addCase(w, rp.Case)
		w.Flush()
		return
	}
	w := NewCaseWriter(o.Out, "cases", header, "mism", 24)
	w.Type = "kase"
	w.Rule = "gaussJordan.Run / matrixInverse.Run (plain, UpperTriangular, PositiveDefinite; Submatrix masks; caller-supplied dirty InSitu buffers) / backSubstitution.Run / determinant.Run (naive, PositiveDefinite) / Permute* on DenseFloat64 and DenseReal64 containers, n = 1..8; plus HISTORIES (typed cases): sequences of 4-5 calls in one process over Float32/Float64/Real32/Real64 containers (Float32 -> Float64 -> Real64 -> Float32 ... with one routine and one size; mixed routines; one InSitu struct shared by all calls), random entries not representable in binary32, every call compared with the model as if it were the first; a typed case is non-trivial iff its history contains a call of another element type or shares the InSitu struct; inputs: integer-valued, entries -3..3, upper triangular, SPD, 50% zeros, dyadic, random floats, structurally singular (zero row/column, identical rows, dependent rows), EVERY row permutation of fixed matrices n <= 5; a replay case is non-trivial iff n >= 3, the routine returned a result and (for the pivoting routines) the first selected column needs a row interchange; residual cases (KRes/KResV) are counted separately; round 6: VIEW cases (input:view) - operands a, x of gaussJordan.Run, the matrix argument and InSitu.A / InSitu.Id of matrixInverse.Run (all modes), A and InSitu.A of backSubstitution.Run, the argument of determinant.Run are views of larger workspaces (chains of Slice with row AND column offsets / T / Slice of Slice, two disjoint views of ONE workspace), all four element types, n = 2..5, matrices whose partial pivoting interchanges rows in nearly every column; per case the logical result is compared with the model as usual, every workspace is compared WHOLE (KVW: after = vstore before view result, Slice / T / index from C10.Gen) and gaussJordan on two views with the element-level view model (KVGJ); a view case is non-trivial iff the routine returned a result and some view has a non-zero row and column offset; SCALED determinants (input:scaled-det): SPD matrices times 2^s with |log2 det| beyond the range of the element type (product form), beyond TWICE the range (LogScale: the product of the Cholesky diagonal overflows / underflows), and large but in range (both forms, cofactor expansion); round 7: IN-PLACE back substitution (backsub:x-aliases-b) - InSitu.X is the right-hand side itself (and InSitu.A the matrix itself or a dirty buffer), all element types, also on views and inside histories: returned vector AND b after the call compared with the single-buffer model backsub_alias_run; out-of-place calls check that b is unchanged; TIE ENUMERATION (input:tie-enum) - every 2x2 matrix with entries -1..1 and a sample of the 3x3 ones (ties in nearly every pivot column, exactly-zero multipliers / products / partial sums), right-hand sides and x operands with exact zeros in every position, both paths, gaussJordan.Run / matrixInverse.Run / in-place backSubstitution.Run"
	for _, c := range readCorpus(o.Extra) {
		c.Tag = "corpus:" + c.Tag
		addCase(w, c)
	}
	for _, c := range permStream(o.Tier) {
		addCase(w, c)
	}
	rng := NewRng(o.Seed)
	for k := 0; k < o.N; k++ {
		addCase(w, genCase(rng.Split()))
	}
	// single typed calls, mostly the 32 bit element types (bit-exact binary32 model), sizes 1..6,
	// incl. structurally singular and integer-valued input on the generic path
	trng := NewRng(o.Seed + 31337)
	for k := 0; k < o.N/4; k++ {
		rr := trng.Split()
		et := []string{"f32", "r32", "f32", "r32", "f32", "r64", "f64"}[rr.Intn(7)]
		c := typedCall(rr, routines[k%len(routines)], et, rr.Range(1, 6), false)
		c.Tag = "typed-single"
		if (c.Kind == "Inv" && c.Mode == 0) || c.Kind == "GJ" {
			switch rr.Intn(6) {
			case 0:
				c.A, _ = singularMat(rr, c.N)
				c.Tag = "typed-single:singular"
			case 1:
				c.A = intMat(rr, c.N, 9, 0)
				c.Tag = "typed-single:int"
			}
		}
		addCase(w, c)
	}
	// histories: sequences of calls of different element types / routines in this one process
	for _, seq := range seqStream(NewRng(o.Seed+7919), o.N/6) {
		for _, c := range seq {
			addCase(w, c)
		}
	}
	// round 6: operands and caller-supplied in-situ buffers that are views of a larger workspace (all element
	// types, all routines, matrices that force row interchanges); determinants far outside the float range
	for _, c := range viewStream(NewRng(o.Seed+611953), o.N/3) {
		addCase(w, c)
	}
	for _, c := range scaledDetStream(NewRng(o.Seed+224737), o.N/6) {
		addCase(w, c)
	}
	// round 7: exact-zero / tie enumeration (small integer matrices, right-hand sides with exact zeros, in-place solves)
	n3 := o.N / 2
	if n3 > 600 {
		n3 = 600
	}
	for _, c := range tieStream(NewRng(o.Seed+90017), n3) {
		addCase(w, c)
	}
	if err := w.Flush(); err != nil {
		Die("%v", err)
	}
}
