// Round 3: element-type aware execution (Float32 / Float64 / Real32 / Real64) and
// HISTORIES.  A Case may carry a prefix history (Case.Pre): the calls in Pre are
// executed first, in order, in the same process (optionally sharing ONE InSitu
// struct with the final call: Case.Reuse), then the call itself; only the final
// call's result is observed and it is compared with the model / the exact value
// AS IF IT WERE THE FIRST CALL (the routines are pure functions of their
// arguments: coq/C04/ProofsHist.v).  A case with its history is self-contained,
// so a history-dependent failure replays in a fresh process.
package main

import (
	"fmt"
	"math"

	. "adharness/common"

	ad "github.com/pbenner/autodiff"
	"github.com/pbenner/autodiff/algorithm/backSubstitution"
	"github.com/pbenner/autodiff/algorithm/cholesky"
	"github.com/pbenner/autodiff/algorithm/determinant"
	"github.com/pbenner/autodiff/algorithm/matrixInverse"
)

// element type of a case: explicit ET, or the legacy Dense flag
func (c Case) et() string {
	if c.ET != "" {
		return c.ET
	}
	if c.Dense {
		return "f64"
	}
	return "r64"
}
func is32(et string) bool { return et == "f32" || et == "r32" }
func etCode(et string) int {
	switch et {
	case "f32":
		return 0
	case "f64":
		return 1
	case "r32":
		return 2
	}
	return 3
}

func flat32(m [][]float64) []float32 {
	r := []float32{}
	for _, row := range m {
		for _, x := range row {
			r = append(r, float32(x))
		}
	}
	return r
}
func newMatT(et string, m [][]float64, n int) ad.Matrix {
	switch et {
	case "f32":
		return ad.NewDenseFloat32Matrix(flat32(m), n, n)
	case "r32":
		return ad.NewDenseReal32Matrix(flat32(m), n, n)
	case "f64":
		return ad.NewDenseFloat64Matrix(flat(m), n, n)
	}
	return ad.NewDenseReal64Matrix(flat(m), n, n)
}
func newVecT(et string, v []float64) ad.Vector {
	switch et {
	case "f32":
		return ad.NewDenseFloat32Vector(flat32([][]float64{v}))
	case "r32":
		return ad.NewDenseReal32Vector(flat32([][]float64{v}))
	case "f64":
		return ad.NewDenseFloat64Vector(append([]float64{}, v...))
	}
	return ad.NewDenseReal64Vector(append([]float64{}, v...))
}
func cholInSitu(et string, n int) cholesky.InSitu {
	l := newMatT(et, dirty(n), n)
	return cholesky.InSitu{L: l, S: ad.NullScalar(l.ElementType()), T: ad.NullScalar(l.ElementType())}
}

// what the element type makes of the input (float32 conversion for the 32 bit types)
func r32m(m [][]float64) [][]float64 {
	r := make([][]float64, len(m))
	for i := range m {
		r[i] = r32v(m[i])
	}
	return r
}
func r32v(v []float64) []float64 {
	if v == nil {
		return nil
	}
	r := make([]float64, len(v))
	for i := range v {
		r[i] = float64(float32(v[i]))
	}
	return r
}

// the case as the routines see it (inputs rounded to the element type)
func effective(c Case) Case {
	if !is32(c.et()) {
		return c
	}
	d := c
	d.A, d.X, d.B = r32m(c.A), r32m(c.X), r32v(c.B)
	return d
}

// ---------------------------------------------------------------- sessions: buffers that survive from call to call

type session struct {
	key string
	inv *matrixInverse.InSitu
	bs  *backSubstitution.InSitu
	det *determinant.InSitu
}

func (s *session) sync(c Case) {
	k := fmt.Sprint(c.et(), c.N)
	if s.key != k {
		*s = session{key: k}
	}
}
func (s *session) invBufs(c Case) *matrixInverse.InSitu {
	fresh := func() *matrixInverse.InSitu {
		et, n := c.et(), c.N
		is := &matrixInverse.InSitu{Id: newMatT(et, dirty(n), n), B: newVecT(et, dirty(n)[0])}
		is.A = newMatT(et, dirty(n), n) // PositiveDefinite + Submatrix overwrites it (8a0efbb)
		if c.Mode == 2 {
			is.Cholesky = cholInSitu(et, n)
		}
		return is
	}
	if !c.Reuse {
		return fresh()
	}
	s.sync(c)
	if s.inv == nil {
		s.inv = fresh()
		s.inv.Cholesky = cholInSitu(c.et(), c.N)
	}
	return s.inv
}
func (s *session) bsBufs(c Case) *backSubstitution.InSitu {
	fresh := func() *backSubstitution.InSitu {
		is := &backSubstitution.InSitu{}
		if c.InSituA {
			is.A = newMatT(c.et(), dirty(c.N), c.N)
		}
		if c.InSitu {
			is.X = newVecT(c.et(), dirty(c.N)[0])
		}
		return is
	}
	if !c.Reuse {
		return fresh()
	}
	s.sync(c)
	if s.bs == nil {
		s.bs = &backSubstitution.InSitu{A: newMatT(c.et(), dirty(c.N), c.N), X: newVecT(c.et(), dirty(c.N)[0])}
	}
	return s.bs
}
func (s *session) detBufs(c Case) *determinant.InSitu {
	if !c.Reuse {
		return &determinant.InSitu{Cholesky: cholInSitu(c.et(), c.N)}
	}
	s.sync(c)
	if s.det == nil {
		s.det = &determinant.InSitu{Cholesky: cholInSitu(c.et(), c.N)}
	}
	return s.det
}

// execCase: the history first (results ignored, panics and errors tolerated), then the call
func execCase(c Case) Result {
	s := &session{}
	for _, p := range c.Pre {
		execOne(p, s)
	}
	return execOne(c, s)
}

// ---------------------------------------------------------------- the log table of a LogScale determinant

// (x, math.Log(x)) for the diagonal of the Cholesky factor the routine computes on this input:
// the logarithm is not replayed bit-exactly in Coq, the model looks its values up here
func logTable(c Case) string {
	var out []string
	func() {
		defer func() { recover() }()
		L, _, err := cholesky.Run(newMatT(c.et(), c.A, c.N))
		if err != nil {
			return
		}
		for i := 0; i < c.N; i++ {
			x := L.ConstAt(i, i).GetFloat64()
			out = append(out, "("+F(x)+", "+F(math.Log(x))+")")
		}
	}()
	return List(out)
}

// ---------------------------------------------------------------- generators for histories

func typedMat(r *Rng, n int, kind string) [][]float64 {
	// entries with full 53 bit mantissas: not representable in binary32
	m := make([][]float64, n)
	for i := range m {
		m[i] = make([]float64, n)
		for j := range m[i] {
			m[i][j] = (r.Float()*2 - 1) * math.Ldexp(1, r.Range(-1, 1))
		}
	}
	switch kind {
	case "tri":
		for i := range m {
			for j := 0; j < i; j++ {
				m[i][j] = 0
			}
			m[i][i] = (1 + r.Float()) * float64(1-2*r.Intn(2)) * 2
		}
	case "spd":
		b := m
		m = make([][]float64, n)
		for i := range m {
			m[i] = make([]float64, n)
			for j := range m[i] {
				for k := 0; k < n; k++ {
					m[i][j] += b[k][i] * b[k][j]
				}
			}
		}
		for i := range m {
			for j := 0; j < i; j++ {
				m[i][j] = m[j][i]
			}
			m[i][i] += 1 + r.Float()
		}
	default:
		for i := range m {
			m[i][i] += float64(n) * float64(1-2*r.Intn(2)) // reasonably conditioned, pivoting still happens
		}
		if n >= 2 && r.Bool() {
			i, j := r.Intn(n), r.Intn(n)
			m[i], m[j] = m[j], m[i]
		}
	}
	return m
}
func typedVec(r *Rng, n int) []float64 {
	v := make([]float64, n)
	for i := range v {
		v[i] = (r.Float()*2 - 1) * 4
	}
	return v
}

var routines = []string{"Det", "DetPD", "DetPDLog", "Inv", "InvUT", "InvPD", "InvPDSub", "GJ", "BS"}

// one call of routine rt at element type et and size n on fresh random (non-binary32) data
func typedCall(r *Rng, rt, et string, n int, reuse bool) Case {
	c := Case{N: n, ET: et, Dense: et == "f64", Msk: allTrue(n), MskNil: true, Tag: "typed", Reuse: reuse}
	switch rt {
	case "Det":
		c.Kind, c.A = "Det", typedMat(r, n, "")
	case "DetPD":
		c.Kind, c.A, c.InSitu = "DetPD", typedMat(r, n, "spd"), reuse || r.Bool()
	case "DetPDLog":
		c.Kind, c.A, c.Log, c.InSitu = "DetPD", typedMat(r, n, "spd"), true, reuse || r.Bool()
	case "Inv":
		c.Kind, c.A, c.InSitu = "Inv", typedMat(r, n, ""), reuse || r.Bool()
		if r.Intn(3) == 0 {
			c.Msk, c.MskNil = randMask(r, n)
		}
	case "InvUT":
		c.Kind, c.Mode, c.A, c.InSitu = "Inv", 1, typedMat(r, n, "tri"), reuse || r.Bool()
	case "InvPD":
		c.Kind, c.Mode, c.A, c.InSitu = "Inv", 2, typedMat(r, n, "spd"), reuse || r.Bool()
	case "InvPDSub":
		c.Kind, c.Mode, c.A, c.InSitu = "Inv", 2, typedMat(r, n, "spd"), reuse || r.Bool()
		c.Msk, c.MskNil = make([]bool, n), false
		for i := range c.Msk {
			c.Msk[i] = r.Intn(100) < 60
		}
	case "GJ":
		c.Kind, c.A, c.X, c.B = "GJ", typedMat(r, n, ""), identity(n), typedVec(r, n)
	case "BS":
		c.Kind, c.A, c.HasB, c.B = "BS", typedMat(r, n, "tri"), true, typedVec(r, n)
		c.InSitu, c.InSituA = reuse || r.Bool(), reuse || r.Bool()
		c.AliasX = r.Intn(3) == 0 // round 7: solve in place (InSitu.X = b)
	}
	return c
}

var etCycle = []string{"f32", "f64", "r64", "f32", "r32", "r64", "f64", "r32"}

// histories: (a) one routine, one size, the element types in the order Float32 -> Float64 -> Real64 ->
// Float32 -> Real32 -> ... ; (b) mixed routines at one size and changing types; (c) one element type,
// one size, ONE InSitu struct shared by all calls (buffers hold the previous results)
func seqStream(r *Rng, nseq int) [][]Case {
	var out [][]Case
	for k := 0; k < nseq; k++ {
		rr := r.Split()
		n := []int{3, 3, 4, 4, 5, 2}[rr.Intn(6)]
		var steps []Case
		switch k % 3 {
		case 0:
			rt := routines[(k/3)%len(routines)]
			off := rr.Intn(2) * 4
			for s := 0; s < 4; s++ {
				steps = append(steps, typedCall(rr, rt, etCycle[(off+s)%len(etCycle)], n, false))
			}
		case 1:
			for s := 0; s < 5; s++ {
				steps = append(steps, typedCall(rr, routines[rr.Intn(len(routines))], etCycle[(s+rr.Intn(2))%len(etCycle)], n, false))
			}
		default:
			et := []string{"f64", "r64", "f32", "r32"}[rr.Intn(4)]
			rts := []string{"Inv", "InvPD", "InvPDSub", "InvUT", "BS", "DetPD", "DetPDLog"}
			for s := 0; s < 4; s++ {
				steps = append(steps, typedCall(rr, rts[rr.Intn(len(rts))], et, n, true))
			}
		}
		// step s carries steps[0..s-1] as its history
		seq := make([]Case, len(steps))
		for s := range steps {
			seq[s] = steps[s]
			seq[s].Pre = append([]Case{}, steps[:s]...)
			seq[s].Tag = fmt.Sprintf("history:%d", k%3)
		}
		out = append(out, seq)
	}
	return out
}
