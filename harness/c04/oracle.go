// Property-level oracle for C04 on the IMPLEMENTATION, independent of the Coq
// model: the defining equations are evaluated in exact rational arithmetic
// (math/big) on the numbers the Go routines returned.  Used by the hunt only.
package main

import (
	"encoding/json"
	"fmt"
	"math"
	"math/big"
	"os"
	"os/exec"
	"sort"

	. "adharness/common"

	ad "github.com/pbenner/autodiff"
	"github.com/pbenner/autodiff/algorithm/determinant"
	"github.com/pbenner/autodiff/algorithm/matrixInverse"
)

type rmat [][]*big.Rat

func rat(x float64) *big.Rat { r := new(big.Rat); r.SetFloat64(x); return r }
func toRat(m [][]float64) rmat {
	r := make(rmat, len(m))
	for i := range m {
		r[i] = make([]*big.Rat, len(m[i]))
		for j := range m[i] {
			r[i][j] = rat(m[i][j])
		}
	}
	return r
}
func sub(m [][]float64, msk []bool) [][]float64 {
	var r [][]float64
	for i := range m {
		if !msk[i] {
			continue
		}
		var row []float64
		for j := range m[i] {
			if msk[j] {
				row = append(row, m[i][j])
			}
		}
		r = append(r, row)
	}
	return r
}
func subv(v []float64, msk []bool) []float64 {
	var r []float64
	for i := range v {
		if msk[i] {
			r = append(r, v[i])
		}
	}
	return r
}

// exact determinant by fraction elimination
func ratDet(m rmat) *big.Rat {
	n := len(m)
	a := make(rmat, n)
	for i := range m {
		a[i] = make([]*big.Rat, n)
		for j := range m[i] {
			a[i][j] = new(big.Rat).Set(m[i][j])
		}
	}
	det := big.NewRat(1, 1)
	for i := 0; i < n; i++ {
		p := -1
		for r := i; r < n; r++ {
			if a[r][i].Sign() != 0 {
				p = r
				break
			}
		}
		if p < 0 {
			return new(big.Rat)
		}
		if p != i {
			a[p], a[i] = a[i], a[p]
			det.Neg(det)
		}
		det.Mul(det, a[i][i])
		for r := i + 1; r < n; r++ {
			f := new(big.Rat).Quo(a[r][i], a[i][i])
			for k := i; k < n; k++ {
				a[r][k].Sub(a[r][k], new(big.Rat).Mul(f, a[i][k]))
			}
		}
	}
	return det
}

// max_i sum_j |(A X - R)[i,j]| exactly, as float64 (rounded once at the end)
func residualInf(a, x, r rmat) float64 {
	worst := new(big.Rat)
	for i := range a {
		s := new(big.Rat)
		for j := range r[i] {
			e := new(big.Rat)
			for k := range a[i] {
				e.Add(e, new(big.Rat).Mul(a[i][k], x[k][j]))
			}
			e.Sub(e, r[i][j])
			s.Add(s, e.Abs(e))
		}
		if s.Cmp(worst) > 0 {
			worst = s
		}
	}
	f, _ := worst.Float64()
	return f
}
func colMat(v []float64) [][]float64 {
	r := make([][]float64, len(v))
	for i := range v {
		r[i] = []float64{v[i]}
	}
	return r
}
func structurallySingular(m [][]float64) string {
	n := len(m)
	for i := 0; i < n; i++ {
		zr, zc := true, true
		for j := 0; j < n; j++ {
			if m[i][j] != 0 {
				zr = false
			}
			if m[j][i] != 0 {
				zc = false
			}
		}
		if zr {
			return "zero row"
		}
		if zc {
			return "zero column"
		}
		for k := i + 1; k < n; k++ {
			same := true
			for j := 0; j < n; j++ {
				if m[i][j] != m[k][j] {
					same = false
				}
			}
			if same {
				return "two identical rows"
			}
		}
	}
	return ""
}
func symmetric(m [][]float64) bool {
	for i := range m {
		for j := range m {
			if m[i][j] != m[j][i] {
				return false
			}
		}
	}
	return true
}
func exactPD(m [][]float64) bool {
	if !symmetric(m) {
		return false
	}
	for k := 1; k <= len(m); k++ {
		msk := make([]bool, len(m))
		for i := 0; i < k; i++ {
			msk[i] = true
		}
		if ratDet(toRat(sub(m, msk))).Sign() <= 0 {
			return false
		}
	}
	return true
}

const huntTol64 = 1e-9

// propCheck returns "" when the property holds on this case, else a description.
func propCheck(c Case) string {
	n := c.N
	r := execCase(c) // the history c.Pre first, then the call
	if c.View != nil {
		if len(r.Kind) > 5 && r.Kind[:5] == "other" {
			return "unexpected outcome " + r.Kind
		}
		// frame / read-only operands / view-vs-workspace consistency; the logical results of r are replaced by the
		// ones loaded from the dumped workspaces with the harness' own coordinate map
		if f := viewOracle(c, &r); f != "" {
			return f
		}
	}
	// the exact values are those of the inputs AS THE ELEMENT TYPE HOLDS THEM; tolerances follow its precision
	c = effective(c)
	huntTol, detTol, pdTol := huntTol64, 1e-10, 1e-9
	if is32(c.et()) {
		huntTol, detTol, pdTol = 1e-4, 1e-4, 1e-3
	}
	as := sub(c.A, c.Msk)
	k := len(as)
	if len(r.Kind) > 5 && r.Kind[:5] == "other" {
		return "unexpected outcome " + r.Kind
	}
	switch c.Kind {
	case "Inv", "GJ":
		ut := (c.Kind == "Inv" && c.Mode == 1) || (c.Kind == "GJ" && c.UT)
		pd := c.Kind == "Inv" && c.Mode == 2
		// preconditions of the selected mode
		if ut && (!upperTri(as) || (c.Kind == "GJ" && !upperTri(c.X))) {
			return ""
		}
		if pd && !exactPD(as) {
			return "" // precondition at HEAD (8a0efbb): the SELECTED block is symmetric positive definite
		}
		if k == 0 {
			return ""
		}
		det := ratDet(toRat(as))
		ss := structurallySingular(as)
		if r.Kind == "panicsingular" {
			// contract at HEAD (/repo 74e12ad; Props: gauss_jordan_nan_aware_trichotomy, singular exit = ErrSingular on
			// BOTH paths): a singular system is reported by the error, the generic path no longer panics
			return "singular system reported by a panic instead of the error \"system is computationally singular\" (both the fast and the generic path return the error since 74e12ad)"
		}
		if r.Kind != "ok" {
			if det.Sign() != 0 && c.Tag != "illcond" {
				return fmt.Sprintf("%s on a nonsingular matrix (exact det %s)", r.Kind, det.FloatString(6))
			}
			return ""
		}
		var xs [][]float64
		x0 := identity(n)
		if c.Kind == "GJ" {
			x0 = c.X
		}
		xs = sub(r.X, c.Msk)
		fin := finiteM(r.X) && (c.Kind != "GJ" || finiteM([][]float64{r.B}))
		if ss != "" {
			if fin {
				return "structurally singular input (" + ss + ") but a finite result was returned"
			}
			return ""
		}
		if det.Sign() == 0 {
			return "" // numerically singular without structure: rounding decides, not covered by the property
		}
		if !fin {
			return "non-finite result on a nonsingular matrix"
		}
		scale := math.Max(1, normInf(as, allTrue(k))*normInf(xs, allTrue(k)))
		if res := residualInf(toRat(as), toRat(xs), toRat(sub(x0, c.Msk))); res > huntTol*scale*float64(k) {
			return fmt.Sprintf("||A*X - X0||_inf = %.3g on the selected sub-matrix (scale %.3g)", res, scale)
		}
		// entries outside the selected rows are untouched; columns outside the selection keep X0's entries up to the row gather
		for i := 0; i < n; i++ {
			for j := 0; j < n; j++ {
				if !c.Msk[i] && r.X[i][j] != x0[i][j] {
					return fmt.Sprintf("x[%d,%d] outside the selected rows was modified", i, j)
				}
			}
		}
		if c.Kind == "GJ" {
			// columns outside the selection are never combined, only carried along by the final row gather
			for j := 0; j < n; j++ {
				if c.Msk[j] {
					continue
				}
				var in, out []float64
				for i := 0; i < n; i++ {
					if c.Msk[i] {
						in, out = append(in, x0[i][j]), append(out, r.X[i][j])
					}
				}
				sort.Float64s(in)
				sort.Float64s(out)
				if fmt.Sprint(in) != fmt.Sprint(out) {
					return fmt.Sprintf("column %d of x outside the selection was modified (not just permuted)", j)
				}
			}
			for i := 0; i < n; i++ {
				if !c.Msk[i] && (r.B[i] != c.B[i] || fmt.Sprint(r.A[i]) != fmt.Sprint(c.A[i])) {
					return fmt.Sprintf("row %d outside the selection was modified", i)
				}
			}
			bs := subv(r.B, c.Msk)
			mx := 1.0
			for _, v := range bs {
				mx = math.Max(mx, math.Abs(v))
			}
			if res := residualInf(toRat(as), toRat(colMat(bs)), toRat(colMat(subv(c.B, c.Msk)))); res > huntTol*float64(k)*math.Max(1, normInf(as, allTrue(k))*mx) {
				return fmt.Sprintf("||A*b' - b||_inf = %.3g", res)
			}
			if res := residualInf(toRat(identity(k)), toRat(sub(r.A, c.Msk)), toRat(identity(k))); res > huntTol*scale*float64(k) {
				return fmt.Sprintf("returned a is not the identity on the sub-matrix (%.3g)", res)
			}
		}
	case "BS":
		if !upperTri(c.A) || !c.HasB {
			return ""
		}
		for i := range c.A {
			if c.A[i][i] == 0 {
				return ""
			}
		}
		if r.Kind != "ok" {
			return "backSubstitution failed: " + r.Kind
		}
		mx := 1.0
		for _, v := range r.B {
			mx = math.Max(mx, math.Abs(v))
		}
		if res := residualInf(toRat(c.A), toRat(colMat(r.B)), toRat(colMat(c.B))); !(res <= huntTol*float64(n)*math.Max(1, normInf(c.A, allTrue(n))*mx)) {
			return fmt.Sprintf("||R*x - b||_inf = %.3g", res)
		}
	case "Det":
		exact := ratDet(toRat(c.A))
		d, _ := exact.Float64()
		// permanent-type bound of the rounding error of the cofactor expansion: prod_i (sum_j |a_ij|), relative to the
		// size of the entries (round 6: no clamping at 1, so that matrices scaled far away from 1 are really checked)
		bound, lb := 1.0, 0.0
		for i := range c.A {
			s := 0.0
			for _, v := range c.A[i] {
				s += math.Abs(v)
			}
			bound *= s
			lb += math.Log2(math.Max(s, math.SmallestNonzeroFloat64))
		}
		lim := 1000.0
		if is32(c.et()) {
			lim = 120
		}
		if math.Abs(lb) > lim || bound == 0 || math.IsInf(bound, 0) {
			return "" // intermediate products may leave the range of the element type: nothing is claimed
		}
		if r.Kind != "ok" || !(math.Abs(d-r.V) <= detTol*bound) {
			return fmt.Sprintf("determinant %v, exact %v", r.V, d)
		}
	case "DetPD":
		if !exactPD(c.A) {
			return ""
		}
		exact := ratDet(toRat(c.A))
		ld := ratLog(exact) // natural logarithm of the exact determinant, finite whatever its size
		if f := checkPDValue(c, r, exact, ld, pdTol); f != "" {
			return f
		}
		if c.ET != "" || c.View != nil {
			return ""
		}
		// log scale
		m := newMatE(c, c.A)
		l, err := determinant.Run(m, determinant.PositiveDefinite{true}, determinant.LogScale{true})
		if err != nil || !(math.Abs(l.GetFloat64()-ld) <= 1e-9*math.Max(1, math.Abs(ld))) {
			return fmt.Sprintf("log-determinant %v, log of exact determinant %v", l, ld)
		}
	case "Perm":
		if r.Kind != "ok" {
			return ""
		}
		// an interchange sequence can only rearrange
		var in, out []string
		src := c.A
		if c.PKind == 0 {
			src = c.A[:1]
		}
		for _, row := range src {
			for _, v := range row {
				in = append(in, fmt.Sprint(v))
			}
		}
		for _, row := range r.X {
			for _, v := range row {
				out = append(out, fmt.Sprint(v))
			}
		}
		sort.Strings(in)
		sort.Strings(out)
		if fmt.Sprint(in) != fmt.Sprint(out) {
			return "Permute changed the multiset of entries"
		}
		// for an involution pi the result is the gather by pi
		inv := true
		for i, q := range c.Pi {
			if q >= n || c.Pi[q] != i {
				inv = false
			}
		}
		if inv && c.PKind == 1 {
			for i, q := range c.Pi {
				if fmt.Sprint(r.X[i]) != fmt.Sprint(c.A[q]) {
					return "PermuteRows(pi) for an involution pi is not the gather by pi"
				}
			}
		}
	}
	return ""
}

func newMatE(c Case, m [][]float64) ad.Matrix { return newMat(c.Dense, m, c.N) }

// natural logarithm of a positive rational of any size (never overflows): ln(num) - ln(den) through
// mantissa / binary exponent
func ratLog(x *big.Rat) float64 {
	if x.Sign() <= 0 {
		return math.NaN()
	}
	ln := func(z *big.Int) float64 {
		f := new(big.Float).SetInt(z)
		mant := new(big.Float)
		e := f.MantExp(mant)
		m, _ := mant.Float64()
		return math.Log(m) + float64(e)*math.Ln2
	}
	return ln(x.Num()) - ln(x.Denom())
}

// determinant.Run(a, PositiveDefinite{true} [, LogScale{true}]) against the exact determinant `exact` (ld = its
// logarithm).  LogScale: |result - ld| small, WHATEVER the size of the determinant.  Product form: the exact value
// correctly rounded to the element type up to a relative tolerance; beyond the range of the type (by a factor of
// 16 at least) that is +Inf / 0; nothing is claimed inside the subnormal range and within a factor of 16 of the
// range limits
func checkPDValue(c Case, r Result, exact *big.Rat, ld, pdTol float64) string {
	if c.Log {
		if r.Kind != "ok" || !(math.Abs(r.V-ld) <= pdTol*math.Max(1, math.Abs(ld))) {
			return fmt.Sprintf("log-determinant %v (%s), log of exact determinant %v", r.V, r.Kind, ld)
		}
		return ""
	}
	maxExp, minExp := 1024.0, -1022.0 // binary64: 2^1024 overflows, 2^-1022 smallest normal
	subExp := -1074.0
	if is32(c.et()) {
		maxExp, minExp, subExp = 128, -126, -149
	}
	l2 := ld / math.Ln2
	switch {
	case l2 > maxExp+4:
		if r.Kind != "ok" || !math.IsInf(r.V, 1) {
			return fmt.Sprintf("PD determinant %v (%s), the exact determinant 2^%.1f is beyond the range of the element type (+Inf expected)", r.V, r.Kind, l2)
		}
	case l2 > maxExp-4:
		return ""
	case l2 < subExp-4:
		if r.Kind != "ok" || !(r.V >= 0 && r.V <= math.Ldexp(1, int(subExp)+2)) {
			return fmt.Sprintf("PD determinant %v (%s), the exact determinant 2^%.1f is below the range of the element type (0 expected)", r.V, r.Kind, l2)
		}
	case l2 < minExp+4:
		return ""
	default:
		d, _ := exact.Float64()
		if r.Kind != "ok" || !(math.Abs(d-r.V) <= pdTol*math.Abs(d)) {
			return fmt.Sprintf("PD determinant %v (%s), exact %v", r.V, r.Kind, d)
		}
	}
	return ""
}

// float32 element types: inverse through the generic path, residual to single precision
func propCheck32(a [][]float64, real bool) string {
	n := len(a)
	v := make([]float32, 0, n*n)
	for _, r := range a {
		for _, x := range r {
			v = append(v, float32(x))
		}
	}
	var m ad.Matrix
	if real {
		m = ad.NewDenseReal32Matrix(v, n, n)
	} else {
		m = ad.NewDenseFloat32Matrix(v, n, n)
	}
	det := ratDet(toRat(a))
	ss := structurallySingular(a)
	var x ad.Matrix
	var err error
	kind := "ok"
	func() {
		defer func() {
			if r := recover(); r != nil {
				kind = classifyPanic(r)
			}
		}()
		x, err = matrixInverse.Run(m)
	}()
	if err != nil {
		kind = classifyErr(err)
	}
	if kind == "panicsingular" {
		return "float32 inverse: singular system reported by a panic instead of the error \"system is computationally singular\" (both paths return the error since 74e12ad)"
	}
	if kind != "ok" {
		if det.Sign() != 0 {
			return "float32 inverse: " + kind + " on a nonsingular matrix"
		}
		return ""
	}
	xs := rowsOf(x)
	if ss != "" {
		if finiteM(xs) {
			return "float32 inverse: structurally singular input (" + ss + ") but finite result"
		}
		return ""
	}
	if det.Sign() == 0 {
		return ""
	}
	scale := math.Max(1, normInf(a, allTrue(n))*normInf(xs, allTrue(n)))
	if scale > 1e3 {
		return ""
	}
	if !finiteM(xs) {
		return "float32 inverse: non-finite result on a nonsingular matrix"
	}
	if res := residualInf(toRat(a), toRat(xs), toRat(identity(n))); res > 1e-4*scale*float64(n) {
		return fmt.Sprintf("float32 inverse: ||A*X - I||_inf = %.3g (scale %.3g)", res, scale)
	}
	return ""
}

// ---------------------------------------------------------------- shrinking

func dropIndex(c Case, k int) Case {
	d := c
	d.N = c.N - 1
	del := func(m [][]float64) [][]float64 {
		if m == nil {
			return nil
		}
		var r [][]float64
		for i := range m {
			if i == k {
				continue
			}
			row := append(append([]float64{}, m[i][:k]...), m[i][k+1:]...)
			r = append(r, row)
		}
		return r
	}
	d.A, d.X = del(c.A), del(c.X)
	if c.B != nil {
		d.B = append(append([]float64{}, c.B[:k]...), c.B[k+1:]...)
	}
	d.Msk = append(append([]bool{}, c.Msk[:k]...), c.Msk[k+1:]...)
	d.View = shrinkViews(c)
	return d
}

// the case (with its history) executed in a FRESH process: the only reliable way to decide
// whether a failure needs its history, because state left behind by earlier calls of THIS process
// cannot be undone
func failsFresh(dir string, d Case) bool {
	os.MkdirAll(dir, 0755)
	path := dir + "/prop1_in.json"
	b, _ := json.Marshal(map[string]interface{}{"case": d})
	if os.WriteFile(path, b, 0644) != nil {
		return false
	}
	err := exec.Command(os.Args[0], "--extra", "prop1", "--replay", path, "--out", dir).Run()
	if ee, ok := err.(*exec.ExitError); ok {
		return ee.ExitCode() == 3
	}
	return false
}

// prop1: exit code 3 iff the property fails on the single case of the replay file
func prop1(o Opts) {
	b, err := os.ReadFile(o.Replay)
	if err != nil {
		Die("%v", err)
	}
	var rp struct {
		Case Case `json:"case"`
	}
	if err := json.Unmarshal(b, &rp); err != nil {
		Die("%v", err)
	}
	if rp.Case.Msk == nil {
		rp.Case.Msk, rp.Case.MskNil = allTrue(rp.Case.N), true
	}
	if propCheck(rp.Case) != "" {
		os.Exit(3)
	}
}

// shrinkHistory: delta debugging on the history with fresh-process evaluation
func shrinkHistory(dir string, c Case) Case {
	fails := func(pre []Case) bool { d := c; d.Pre = pre; return failsFresh(dir, d) }
	pre := c.Pre
	for chunk := (len(pre) + 1) / 2; chunk >= 1; chunk /= 2 {
		for lo := 0; lo < len(pre); {
			hi := lo + chunk
			if hi > len(pre) {
				hi = len(pre)
			}
			cand := append(append([]Case{}, pre[:lo]...), pre[hi:]...)
			if fails(cand) {
				pre = cand
			} else {
				lo = hi
			}
		}
	}
	c.Pre = pre
	return c
}

func flatten(c Case) []Case {
	out := []Case{}
	for _, p := range c.Pre {
		p.Pre = nil
		out = append(out, p)
	}
	c.Pre = nil
	return append(out, c)
}

func shrink(c Case) Case {
	fails := func(d Case) bool { return propCheck(d) != "" }
	if c.Kind == "Perm" {
		return c
	}
	for changed := true; changed; {
		changed = false
		for k := 0; k < c.N && c.N > 1; k++ {
			if d := dropIndex(c, k); fails(d) {
				c, changed = d, true
				k--
			}
		}
	}
	// simplify entries
	for _, cand := range []float64{0, 1} {
		for i := range c.A {
			for j := range c.A[i] {
				if c.A[i][j] == cand {
					continue
				}
				d := c
				d.A = cloneM(c.A)
				d.A[i][j] = cand
				if fails(d) {
					c = d
				}
			}
		}
	}
	if c.InSitu && c.View == nil {
		d := c
		d.InSitu = false
		if fails(d) {
			c = d
		}
	}
	if c.AliasA {
		d := c
		d.AliasA = false
		if fails(d) {
			c = d
		}
	}
	if c.AliasX {
		d := c
		d.AliasX = false
		if fails(d) {
			c = d
		}
	}
	// view cases: which operands need to be views?  (a view that shares the workspace of a dropped operand gets
	// its own workspace of the same dimensions)
	for _, name := range viewNames(c) {
		d := c
		d.View = map[string]VW{}
		for k, v := range c.View {
			if k != name {
				if v.Share == name {
					v.Share = ""
				}
				d.View[k] = v
			}
		}
		if len(d.View) > 0 && fails(d) {
			c = d
		}
	}
	return c
}

func stripNumbers(f string) string {
	out := []rune{}
	for _, ch := range f {
		if (ch >= '0' && ch <= '9') || ch == '.' || ch == '-' || ch == '+' {
			continue
		}
		out = append(out, ch)
	}
	return string(out)
}

// ---------------------------------------------------------------- hunt driver

func huntCase(r *Rng) Case {
	n := r.Range(1, 5)
	c := Case{N: n, Dense: r.Bool(), Msk: allTrue(n), MskNil: true, Tag: "hunt"}
	switch r.Intn(6) {
	case 0, 1:
		c.A = intMat(r, n, 3, 0)
	case 2:
		c.A = triMat(r, n)
	case 3:
		c.A = spdMat(r, n)
	case 4:
		c.A, _ = singularMat(r, n)
	default:
		c.A = permRows(baseMat(n), shuffle(r, n))
	}
	if r.Intn(3) == 0 {
		c.Msk, c.MskNil = randMask(r, n)
	}
	switch r.Intn(8) {
	case 0, 1, 2:
		c.Kind = "Inv"
		c.InSitu = r.Bool()
		if upperTri(c.A) && r.Bool() {
			c.Mode = 1
		} else if symmetric(c.A) && r.Bool() {
			c.Mode = 2
		}
	case 3, 4:
		c.Kind = "GJ"
		c.B = randVec(r, n)
		c.X = identity(n)
		if r.Intn(3) == 0 {
			c.X = intMat(r, n, 3, 0)
		}
		c.UT = upperTri(c.A) && upperTri(c.X) && r.Bool()
	case 5:
		c.Kind, c.HasB, c.B = "BS", true, randVec(r, n)
		c.Msk, c.MskNil = allTrue(n), true
		c.InSitu = r.Bool()
		c.InSituA = r.Intn(4) == 0
		c.AliasX = r.Intn(3) == 0
		c.AliasA = r.Intn(5) == 0
		if !upperTri(c.A) {
			c.A = triMat(r, n)
		}
	case 6:
		c.Kind = "Det"
		c.Msk, c.MskNil = allTrue(n), true
	default:
		c.Kind = "DetPD"
		c.Msk, c.MskNil = allTrue(n), true
		c.InSitu = r.Bool()
	}
	return c
}

func hunt(o Opts) {
	type res struct {
		Found   bool   `json:"found"`
		Failure string `json:"failure"`
		Case    Case   `json:"case"`
		Tried   int    `json:"tried"`
		All     []struct {
			Failure string `json:"failure"`
			Case    Case   `json:"case"`
		} `json:"all"`
	}
	var r res
	seen := map[string]bool{}
	classOf := func(c Case, f string) string {
		return fmt.Sprint(c.Kind, c.Mode, c.UT, c.InSituA, c.AliasX, prefixMask(c.Msk), c.et(), len(c.Pre) > 0) + "|" + stripNumbers(f)
	}
	var hist []Case // every call this process has made so far, in order
	report := func(c Case, f0 string, before []Case) {
		if seen["pre:"+classOf(c, f0)] {
			return
		}
		seen["pre:"+classOf(c, f0)] = true
		plain := c
		plain.Pre = nil
		f := f0
		switch {
		case failsFresh(o.Out, plain):
			// the failure does not need any history: shrink in this process, confirm in a fresh one
			c = plain
			if d := shrink(c); failsFresh(o.Out, d) {
				c = d
			}
			f = propCheck(c)
		case len(c.Pre) > 0 && failsFresh(o.Out, c):
			c = shrinkHistory(o.Out, c) // needs (part of) its own history
		default:
			// fails only after calls this process made earlier: they become its history
			own := flatten(c)[:len(c.Pre)]
			for _, keep := range []int{600, len(before)} {
				if keep > len(before) {
					keep = len(before)
				}
				d := c
				d.Pre = append(append([]Case{}, before[len(before)-keep:]...), own...)
				if failsFresh(o.Out, d) {
					c = shrinkHistory(o.Out, d)
					break
				}
			}
		}
		if f == "" {
			f = f0
		}
		key := classOf(c, f)
		if seen[key] || len(r.All) >= 16 {
			return
		}
		seen[key] = true
		if !r.Found {
			r.Found, r.Failure, r.Case = true, f, c
		}
		r.All = append(r.All, struct {
			Failure string `json:"failure"`
			Case    Case   `json:"case"`
		}{f, c})
	}
	try := func(c Case) {
		r.Tried++
		before := hist
		f := propCheck(c)
		hist = append(hist, flatten(c)...)
		if f != "" {
			report(c, f, before)
		}
	}
	if o.Replay != "" {
		if b, err := os.ReadFile(o.Replay); err == nil {
			var rp struct {
				Cases []Case `json:"cases"`
			}
			json.Unmarshal(b, &rp)
			for _, c := range rp.Cases {
				if c.Msk == nil {
					c.Msk, c.MskNil = allTrue(c.N), true
				}
				try(c)
			}
		}
	}
	if o.N > 0 {
		// every row permutation (all pivot orders) of the fixed matrices, all routines that pivot
		for _, c := range permStream(o.Tier) {
			try(c)
		}
		// histories: calls of different element types / routines / shared InSitu structs in this process
		for _, seq := range seqStream(NewRng(o.Seed+15485863), o.N/40) {
			for _, c := range seq {
				try(c)
			}
		}
		// round 6: operands / in-situ buffers that are views of a larger workspace; determinants far outside the
		// float range (size x scale), all element types
		for _, c := range viewStream(NewRng(o.Seed+611953), o.N/5) {
			try(c)
		}
		for _, c := range scaledDetStream(NewRng(o.Seed+224737), o.N/10) {
			try(c)
		}
		rng := NewRng(o.Seed + 104729)
		for k := 0; k < o.N; k++ {
			rr := rng.Split()
			try(huntCase(rr))
			if k%8 == 0 {
				n := rr.Range(1, 4)
				a := intMat(rr, n, 3, 0)
				r.Tried++
				if f := propCheck32(a, k%16 == 0); f != "" && !r.Found {
					r.Found, r.Failure = true, f
					r.Case = Case{Kind: "Inv32", N: n, A: a, Tag: "float32"}
				}
			}
		}
	}
	b, _ := json.MarshalIndent(r, "", " ")
	os.MkdirAll(o.Out, 0755)
	os.WriteFile(o.Out+"/hunt.json", b, 0644)
}
