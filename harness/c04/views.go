// Round 6: operands and caller-supplied in-situ buffers that are VIEWS of a larger
// workspace (Slice with non-zero row AND column offsets, transposed views, views of
// views, two disjoint views of ONE workspace).  A view case carries, per operand
// name, the workspace dimensions and the chain of view constructors; the harness
//   - allocates the workspace with recognisable content, builds the view with the
//     library's Slice / T, writes the logical content THROUGH THE BASE matrix at the
//     coordinates the view denotes (plain 2-D array semantics, computed here),
//   - runs the routine on the views,
//   - dumps the WHOLE workspace before and after through the base matrix.
// The correspondence compares (a) the logical results with the model as for any other
// case and (b) every workspace with coq/C04/ModelV.v: after = vstore before header
// logical-result, header computed in Coq by the Slice / T kernels regenerated from
// /repo (coq/C10/Gen.v) — so every cell outside the views is compared, too.
// The hunt oracle (viewOracle) is independent of Coq AND of the library's view
// indexing: it loads the results from the dumped workspace by its own coordinate map.
package main

import (
	"fmt"
	"math"
	"sort"

	. "adharness/common"

	ad "github.com/pbenner/autodiff"
)

type VOp struct {
	T  bool `json:"t,omitempty"`
	R0 int  `json:"r0,omitempty"`
	R1 int  `json:"r1,omitempty"`
	C0 int  `json:"c0,omitempty"`
	C1 int  `json:"c1,omitempty"`
}

// VW: operand = Ops applied (first to last) to a fresh R x C workspace, or to the workspace of
// operand Share
type VW struct {
	R     int    `json:"r"`
	C     int    `json:"c"`
	Ops   []VOp  `json:"ops"`
	Share string `json:"share,omitempty"`
}

type WSView struct {
	Name string
	Ops  []VOp
	N    int
	LIn  [][]float64 // logical content written before the call
	LOut [][]float64 // logical content after the call, read through the library's view
	view ad.Matrix
}
type WSDump struct {
	Name          string
	R, C          int
	Before, After []float64
	Views         []*WSView
	base          ad.Matrix
}

// (i, j) of the view -> (bi, bj) of the workspace
func (v VW) coord(i, j int) (int, int) { return coordOps(v.Ops, i, j) }
func coordOps(ops []VOp, i, j int) (int, int) {
	for k := len(ops) - 1; k >= 0; k-- {
		if ops[k].T {
			i, j = j, i
		} else {
			i, j = i+ops[k].R0, j+ops[k].C0
		}
	}
	return i, j
}
func offsetsNonZero(ops []VOp) bool {
	bi, bj := coordOps(ops, 0, 0)
	return bi > 0 && bj > 0
}

func newMatRC(et string, v []float64, r, c int) ad.Matrix {
	switch et {
	case "f32":
		return ad.NewDenseFloat32Matrix(flat32([][]float64{v}), r, c)
	case "r32":
		return ad.NewDenseReal32Matrix(flat32([][]float64{v}), r, c)
	case "f64":
		return ad.NewDenseFloat64Matrix(append([]float64{}, v...), r, c)
	}
	return ad.NewDenseReal64Matrix(append([]float64{}, v...), r, c)
}

func dumpBase(m ad.Matrix, r, c int) []float64 {
	out := make([]float64, 0, r*c)
	for i := 0; i < r; i++ {
		for j := 0; j < c; j++ {
			out = append(out, m.ConstAt(i, j).GetFloat64())
		}
	}
	return out
}

// workspaces of one call
type wsSet struct {
	et   string
	recs []*WSDump
	by   map[string]*WSDump
}

func newWsSet(et string) *wsSet { return &wsSet{et: et, by: map[string]*WSDump{}} }

// operand builds the operand `name`: a plain fresh matrix if the case has no view for it
func (s *wsSet) operand(c Case, name string, logical [][]float64) ad.Matrix {
	vw, ok := c.View[name]
	if !ok {
		return newMatT(s.et, logical, c.N)
	}
	var rec *WSDump
	if vw.Share != "" && s.by[vw.Share] != nil {
		rec = s.by[vw.Share]
	} else {
		fill := make([]float64, vw.R*vw.C)
		salt := float64(100 * (len(s.recs) + 1))
		for k := range fill {
			fill[k] = salt + float64(k%89) + 0.25 // representable in binary32
		}
		rec = &WSDump{Name: name, R: vw.R, C: vw.C, base: newMatRC(s.et, fill, vw.R, vw.C)}
		s.recs = append(s.recs, rec)
	}
	s.by[name] = rec
	m := rec.base
	for _, op := range vw.Ops {
		if op.T {
			m = m.T()
		} else {
			m = m.Slice(op.R0, op.R1, op.C0, op.C1)
		}
	}
	// the logical content goes in through the base matrix, at the coordinates the view denotes
	for i := 0; i < c.N; i++ {
		for j := 0; j < c.N; j++ {
			bi, bj := vw.coord(i, j)
			rec.base.At(bi, bj).SetFloat64(logical[i][j])
		}
	}
	in := effective(Case{ET: s.et, A: logical}).A
	rec.Views = append(rec.Views, &WSView{Name: name, Ops: vw.Ops, N: c.N, LIn: cloneM(in), view: m})
	return m
}
func (s *wsSet) before() {
	for _, rec := range s.recs {
		rec.Before = dumpBase(rec.base, rec.R, rec.C)
	}
}
func (s *wsSet) after() []WSDump {
	var out []WSDump
	for _, rec := range s.recs {
		rec.After = dumpBase(rec.base, rec.R, rec.C)
		for _, v := range rec.Views {
			v.LOut = rowsOf(v.view)
		}
		out = append(out, *rec)
	}
	return out
}

// ---------------------------------------------------------------- Coq terms

func opsCoq(ops []VOp) string {
	s := make([]string, len(ops))
	for i, o := range ops {
		if o.T {
			s[i] = "VT"
		} else {
			s[i] = fmt.Sprintf("VS %d %d %d %d", o.R0, o.R1, o.C0, o.C1)
		}
	}
	return List(s)
}
func wsCoq(d WSDump) string {
	vs := make([]string, len(d.Views))
	for i, v := range d.Views {
		vs[i] = fmt.Sprintf("(%s, %d, %s, %s)", opsCoq(v.Ops), v.N, fm(v.LIn), fm(v.LOut))
	}
	return fmt.Sprintf("KVW %d %d %s %s %s", d.R, d.C, FList(d.Before), List(vs), FList(d.After))
}

// ---------------------------------------------------------------- the oracle on workspaces

func loadCoord(ws []float64, cols int, ops []VOp, n int) [][]float64 {
	m := make([][]float64, n)
	for i := range m {
		m[i] = make([]float64, n)
		for j := range m[i] {
			bi, bj := coordOps(ops, i, j)
			m[i][j] = ws[bi*cols+bj]
		}
	}
	return m
}
func sameF(a, b float64) bool {
	return a == b && math.Signbit(a) == math.Signbit(b) || (math.IsNaN(a) && math.IsNaN(b))
}

// viewOracle: (1) every workspace cell outside the views is unchanged, (2) read-only operands are
// unchanged, (3) what the library reads through its view is what the workspace holds at the denoted
// coordinates; then the logical results of r are REPLACED by the ones loaded from the workspaces with
// the harness' own coordinate map, so that the defining equations are checked on the workspace itself
func viewOracle(c Case, r *Result) string {
	readOnly := map[string]bool{"m": true}
	for _, d := range r.WS {
		inView := map[int]string{}
		for _, v := range d.Views {
			for i := 0; i < v.N; i++ {
				for j := 0; j < v.N; j++ {
					bi, bj := coordOps(v.Ops, i, j)
					inView[bi*d.C+bj] = v.Name
				}
			}
		}
		for k := range d.Before {
			if _, ok := inView[k]; !ok && !sameF(d.Before[k], d.After[k]) {
				return fmt.Sprintf("workspace of operand %s: cell (%d,%d) outside the view was modified (%v -> %v)", d.Name, k/d.C, k%d.C, d.Before[k], d.After[k])
			}
		}
		for _, v := range d.Views {
			got := loadCoord(d.After, d.C, v.Ops, v.N)
			if r.Kind == "ok" || readOnly[v.Name] {
				for i := range got {
					for j := range got[i] {
						if !sameF(got[i][j], v.LOut[i][j]) {
							return fmt.Sprintf("operand %s: the view reads %v at (%d,%d) but the workspace holds %v at the denoted cell", v.Name, v.LOut[i][j], i, j, got[i][j])
						}
						if readOnly[v.Name] && !sameF(got[i][j], v.LIn[i][j]) {
							return fmt.Sprintf("read-only operand %s was modified at (%d,%d)", v.Name, i, j)
						}
					}
				}
			}
			if r.Kind != "ok" {
				continue
			}
			switch {
			case c.Kind == "GJ" && v.Name == "a":
				r.A = got
			case c.Kind == "GJ" && v.Name == "x":
				r.X = got
			case c.Kind == "Inv" && v.Name == "bufid" && c.Mode != 2:
				r.X = got
			}
		}
	}
	return ""
}

// ---------------------------------------------------------------- generators

// a chain of view constructors ending in an n x n view; shape: letters S (Slice) / T, first applied first
func randVW(r *Rng, n int, shape string) VW {
	rows, cols := n, n
	rev := []VOp{}
	for k := len(shape) - 1; k >= 0; k-- {
		if shape[k] == 'T' {
			rev = append(rev, VOp{T: true})
			rows, cols = cols, rows
			continue
		}
		pr0, pc0 := r.Range(1, 2), r.Range(1, 2)
		if r.Intn(8) == 0 {
			pr0 = 0
		}
		if r.Intn(8) == 0 {
			pc0 = 0
		}
		pr1, pc1 := r.Intn(2), r.Intn(2)
		rev = append(rev, VOp{R0: pr0, R1: pr0 + rows, C0: pc0, C1: pc0 + cols})
		rows, cols = rows+pr0+pr1, cols+pc0+pc1
	}
	ops := make([]VOp, len(rev))
	for i := range rev {
		ops[len(rev)-1-i] = rev[i]
	}
	return VW{R: rows, C: cols, Ops: ops}
}

var viewShapes = []string{"S", "S", "ST", "TS", "SS", "STS", "SST", "TSS", "TST"}

func randShape(r *Rng) string { return viewShapes[r.Intn(len(viewShapes))] }

// two disjoint views of ONE workspace: the workspace is [ block of a | gap | block of b ]
func sharedPair(r *Rng, n int) (VW, VW) {
	a, b := randVW(r, n, randShape(r)), randVW(r, n, randShape(r))
	R := a.R
	if b.R > R {
		R = b.R
	}
	C := a.C + 1 + b.C
	pa := VOp{R0: 0, R1: a.R, C0: 0, C1: a.C}
	pb := VOp{R0: R - b.R, R1: R, C0: a.C + 1, C1: C}
	return VW{R: R, C: C, Ops: append([]VOp{pa}, a.Ops...)}, VW{R: R, C: C, Ops: append([]VOp{pb}, b.Ops...)}
}

// a matrix whose partial pivoting interchanges rows in (nearly) every column: the large entries sit on
// a random permutation, everything else is small; well conditioned
func pivotMat(r *Rng, n int) [][]float64 {
	p := shuffle(r, n)
	m := make([][]float64, n)
	for i := range m {
		m[i] = make([]float64, n)
		for j := range m[i] {
			m[i][j] = float64(r.Range(-8, 8)) / 8
		}
		m[i][p[i]] = float64(r.Range(4, 9)) * float64(1-2*r.Intn(2))
	}
	return m
}

var viewRoutines = []string{"GJ", "GJ", "Inv", "Inv", "Inv", "InvUT", "InvPD", "InvPDSub", "BS", "Det", "DetPD", "DetPDLog", "GJUT"}

func viewCase(r *Rng, k int) Case {
	et := []string{"f64", "r64", "f32", "r32"}[k%4]
	n := r.Range(2, 5)
	rt := viewRoutines[(k/4)%len(viewRoutines)]
	c := Case{N: n, ET: et, Dense: et == "f64", Msk: allTrue(n), MskNil: true, Tag: "view", View: map[string]VW{}}
	mat := func() [][]float64 {
		if r.Intn(4) == 0 {
			return typedMat(r, n, "")
		}
		return pivotMat(r, n)
	}
	switch rt {
	case "GJ", "GJUT":
		c.Kind, c.X, c.B = "GJ", identity(n), typedVec(r, n)
		if rt == "GJUT" {
			c.A, c.UT = typedMat(r, n, "tri"), true
		} else {
			c.A = mat()
			if r.Intn(3) == 0 {
				c.X = intMat(r, n, 5, 20)
			}
			if r.Intn(3) == 0 {
				c.Msk, c.MskNil = randMask(r, n)
			}
		}
		switch r.Intn(6) {
		case 0:
			c.View["a"] = randVW(r, n, randShape(r))
		case 1:
			c.View["x"] = randVW(r, n, randShape(r))
		case 2, 3, 4:
			c.View["a"], c.View["x"] = randVW(r, n, randShape(r)), randVW(r, n, randShape(r))
		default:
			a, x := sharedPair(r, n)
			x.Share = "a"
			c.View["a"], c.View["x"] = a, x
		}
	case "Inv", "InvUT", "InvPD", "InvPDSub":
		c.Kind = "Inv"
		switch rt {
		case "Inv":
			c.A = mat()
			if r.Intn(3) == 0 {
				c.Msk, c.MskNil = randMask(r, n)
			}
		case "InvUT":
			c.A, c.Mode = typedMat(r, n, "tri"), 1
		default:
			c.A, c.Mode = typedMat(r, n, "spd"), 2
			if rt == "InvPDSub" {
				c.Msk, c.MskNil = make([]bool, n), false
				for i := range c.Msk {
					c.Msk[i] = r.Intn(100) < 60
				}
			}
		}
		if r.Intn(4) != 0 {
			c.View["m"] = randVW(r, n, randShape(r))
		}
		switch r.Intn(7) {
		case 0:
			c.View["bufid"] = randVW(r, n, randShape(r))
		case 1:
			c.View["bufa"] = randVW(r, n, randShape(r))
		case 2:
			a, x := sharedPair(r, n)
			x.Share = "bufa"
			c.View["bufa"], c.View["bufid"] = a, x
		default:
			c.View["bufa"], c.View["bufid"] = randVW(r, n, randShape(r)), randVW(r, n, randShape(r))
		}
		c.InSitu = true
	case "BS":
		c.Kind, c.A, c.HasB, c.B = "BS", typedMat(r, n, "tri"), true, typedVec(r, n)
		c.View["m"] = randVW(r, n, randShape(r))
		if r.Bool() {
			c.View["bufa"] = randVW(r, n, randShape(r))
			c.InSituA = true
		}
		c.AliasX = r.Intn(3) == 0 // round 7: solve in place (InSitu.X = b)
	case "Det":
		c.Kind, c.A = "Det", mat()
		c.View["m"] = randVW(r, n, randShape(r))
	default:
		c.Kind, c.A, c.Log = "DetPD", typedMat(r, n, "spd"), rt == "DetPDLog"
		c.View["m"] = randVW(r, n, randShape(r))
	}
	return c
}

func viewStream(r *Rng, n int) []Case {
	var out []Case
	for k := 0; k < n; k++ {
		out = append(out, viewCase(r.Split(), k))
	}
	return out
}

// shrinking support: the n x n view becomes the (n-1) x (n-1) window with the same origin
func shrinkVW(v VW) VW {
	w := v
	w.Ops = append([]VOp{}, v.Ops...)
	for k := len(w.Ops) - 1; k >= 0; k-- {
		if !w.Ops[k].T {
			w.Ops[k].R1--
			w.Ops[k].C1--
			return w
		}
	}
	w.R--
	w.C--
	return w
}
func shrinkViews(c Case) map[string]VW {
	if c.View == nil {
		return nil
	}
	out := map[string]VW{}
	for k, v := range c.View {
		out[k] = shrinkVW(v)
	}
	return out
}
func viewNames(c Case) []string {
	var ks []string
	for k := range c.View {
		ks = append(ks, k)
	}
	sort.Strings(ks)
	return ks
}

// ---------------------------------------------------------------- determinants far outside the float range

// scaleM: every entry times 2^s (exact)
func scaleM(m [][]float64, s int) [][]float64 {
	out := make([][]float64, len(m))
	for i := range m {
		out[i] = make([]float64, len(m[i]))
		for j := range m[i] {
			out[i][j] = math.Ldexp(m[i][j], s)
		}
	}
	return out
}

// well-conditioned matrices (size n) x (scale 2^s): the determinant ~ 2^(n*s) is far outside the range of
// the element type for the PositiveDefinite forms (product form: +Inf / 0 is the correctly rounded answer;
// LogScale: finite, n*s*ln 2 + ...), and large but inside the range for the cofactor expansion
func scaledDetCase(r *Rng, k int) Case {
	et := []string{"f64", "r64", "f32", "r32"}[k%4]
	rng := 1100 // |log2 det| beyond the binary64 range
	if is32(et) {
		rng = 160
	}
	c := Case{ET: et, Dense: et == "f64", MskNil: true, Tag: "scaled-det"}
	sign := 1 - 2*((k/4)%2)
	switch (k / 8) % 5 {
	case 0: // LogScale, even the SQUARE ROOT of the determinant (the product of the Cholesky diagonal) is out of range
		c.N = r.Range(3, 8)
		c.Kind, c.Log = "DetPD", true
		c.Scale = sign * (2*rng/c.N + r.Range(1, 6))
	case 1: // product form, determinant out of range
		c.N = r.Range(2, 8)
		c.Kind = "DetPD"
		c.Scale = sign * (rng/c.N + r.Range(1, 6))
	case 2: // LogScale, determinant out of range, its square root in range
		c.N = r.Range(2, 8)
		c.Kind, c.Log = "DetPD", true
		c.Scale = sign * (rng/c.N + r.Range(1, 6))
	case 3: // both forms, in range but far from 1
		c.N = r.Range(2, 7)
		c.Kind, c.Log = "DetPD", r.Bool()
		c.Scale = sign * (rng * 3 / 4 / c.N)
	default: // cofactor expansion, in range but far from 1
		c.N = r.Range(2, 5)
		c.Kind = "Det"
		c.Scale = sign * (rng * 3 / 5 / c.N)
	}
	c.Msk = allTrue(c.N)
	c.InSitu = c.Kind == "DetPD" && r.Bool()
	if c.Kind == "Det" {
		c.A = scaleM(pivotMat(r, c.N), c.Scale)
	} else {
		c.A = scaleM(typedMat(r, c.N, "spd"), c.Scale)
	}
	return c
}
func scaledDetStream(r *Rng, n int) []Case {
	var out []Case
	for k := 0; k < n; k++ {
		out = append(out, scaledDetCase(r.Split(), k))
	}
	return out
}
