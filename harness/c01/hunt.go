// Hunt: search for an input on which the PROPERTY itself fails on the
// implementation (independent of the Coq model): for every operation, sweep
// its domain and the branch boundaries and compare the derivative slots the
// library reports with (i) central finite differences of the library's own
// value / gradient and (ii) an independently coded closed form; check Hessian
// symmetry, zero slots for variables that are not used, no contribution of
// constants.  A hit is already minimal: one operation at one point.
package main

import (
	"encoding/json"
	"fmt"
	"math"
	"os"
	"path/filepath"
	"strings"

	. "adharness/common"

	ad "github.com/pbenner/autodiff"
)

type HuntHit struct {
	Site    string    `json:"site"` // operation (and branch)
	Kind    int       `json:"kind"` // K64 / K32
	Order   int       `json:"order"`
	Xs      []float64 `json:"xs"`
	Par     float64   `json:"par"`
	K       int       `json:"k"`
	Failure string    `json:"failure"`
	Class   string    `json:"class"` // "derivative" | "panic" | "symmetry" | "value"
}

type refFn func(xs []float64) (v float64, g []float64, h [][]float64, ok bool)

// evalOp runs one library operation on fresh variables.
func evalOp(site string, kind, order int, xs []float64, par float64, k int) (res adScalar, pk int) {
	n := len(xs)
	// "Op(alias)": the receiver is the first operand itself (c.Op(c, ...))
	alias := strings.HasSuffix(site, "(alias)")
	site = strings.TrimSuffix(site, "(alias)")
	regs := map[int]adScalar{}
	vars := []ad.MagicScalar{}
	for i, x := range xs {
		m := newMagic(kind, x).(ad.MagicScalar)
		regs[i] = m
		vars = append(vars, m)
	}
	ad.Variables(order, vars...)
	for i := n; i < n+6; i++ {
		regs[i] = newMagic(kind, 0)
	}
	c := n
	in := Instr{Op: site, C: c, A: 0, B: 1, Par: par, K: k}
	switch site {
	case "LogAdd", "LogSub", "Sigmoid", "LogAdd(concrete)", "LogSub(concrete)":
		in.T = []int{n + 1}
	case "SmoothMax", "LogSmoothMax":
		in.T = []int{n + 1, n + 2, n + 3}
		if site == "SmoothMax" {
			in.T = in.T[:2]
		}
		fallthrough
	case "Vmean", "Vnorm":
		for i := 0; i < n; i++ {
			in.Xs = append(in.Xs, i)
		}
	case "VdotV":
		for i := 0; i < n/2; i++ {
			in.Xs = append(in.Xs, i)
			in.Ys = append(in.Ys, n/2+i)
		}
	case "Mtrace":
		in.Rows = n
		for i := 0; i < n; i++ {
			in.Xs = append(in.Xs, i)
		}
	case "Mnorm":
		in.Rows, in.Cols = 1, n
		for i := 0; i < n; i++ {
			in.Xs = append(in.Xs, i)
		}
	case "PowC":
		in.Op = "Pow"
		regs[n+5] = ad.ConstFloat64(par)
		in.B = n + 5
	case "MulConst":
		in.Op = "Mul"
		regs[n+5] = ad.NewFloat64(par)
		in.B = n + 5
	case "ABS(concrete)":
		in.Op, in.Conc = "Abs", true
	}
	if site != "ABS(concrete)" && strings.HasSuffix(site, "(concrete)") {
		in.Op, in.Conc = strings.TrimSuffix(site, "(concrete)"), true
	}
	if alias {
		in.C = 0
		c = 0
	}
	pk = execGo(regs, &in)
	return regs[c], pk
}

func sig(x float64) float64 { return 1 / (1 + math.Exp(-x)) }

// closed forms of the composite operations
func compositeRef(site string, par float64) refFn {
	one := func(f func(x float64) (float64, float64, float64)) refFn {
		return func(xs []float64) (float64, []float64, [][]float64, bool) {
			v, a, b := f(xs[0])
			return v, []float64{a}, [][]float64{{b}}, true
		}
	}
	switch site {
	case "Sigmoid", "Logistic":
		return one(func(x float64) (float64, float64, float64) { s := sig(x); return s, s * (1 - s), s * (1 - s) * (1 - 2*s) })
	case "Log1pExp":
		return one(func(x float64) (float64, float64, float64) {
			s := sig(x)
			v := math.Log1p(math.Exp(x))
			if x > 30 {
				v = x + math.Exp(-x)
			}
			return v, s, s * (1 - s)
		})
	case "Sqrt":
		return one(func(x float64) (float64, float64, float64) {
			r := math.Sqrt(x)
			return r, 0.5 / r, -0.25 / (r * x)
		})
	case "Abs", "ABS(concrete)":
		return one(func(x float64) (float64, float64, float64) {
			if x < 0 {
				return -x, -1, 0
			}
			return x, 1, 0
		})
	case "MulConst":
		return one(func(x float64) (float64, float64, float64) { return x * par, par, 0 })
	case "LogAdd":
		return func(xs []float64) (float64, []float64, [][]float64, bool) {
			x, y := xs[0], xs[1]
			m := math.Max(x, y)
			v := m + math.Log(math.Exp(x-m)+math.Exp(y-m))
			p := sig(x - y)
			w := p * (1 - p)
			return v, []float64{p, 1 - p}, [][]float64{{w, -w}, {-w, w}}, true
		}
	case "LogSub":
		return func(xs []float64) (float64, []float64, [][]float64, bool) {
			x, y := xs[0], xs[1]
			if !(x > y) {
				return 0, nil, nil, false
			}
			e := math.Exp(y - x)
			u := 1 / (1 - e)
			w := e / ((1 - e) * (1 - e))
			return x + math.Log1p(-e), []float64{u, 1 - u}, [][]float64{{-w, w}, {w, -w}}, true
		}
	case "Min", "Max":
		return func(xs []float64) (float64, []float64, [][]float64, bool) {
			x, y := xs[0], xs[1]
			first := x < y
			if site == "Max" {
				first = x > y
			}
			z := [][]float64{{0, 0}, {0, 0}}
			if first {
				return x, []float64{1, 0}, z, true
			}
			return y, []float64{0, 1}, z, true
		}
	// the reductions over vectors / matrices: value, gradient and Hessian of the NAMED function (round 6: a loop
	// that computes some other smooth function consistently passes every finite-difference check)
	case "Vmean", "Mtrace":
		return func(xs []float64) (float64, []float64, [][]float64, bool) {
			n := len(xs)
			v, g, h := 0.0, make([]float64, n), zeroMat(n)
			for i, x := range xs {
				v += x
				g[i] = 1
			}
			if site == "Vmean" {
				v /= float64(n)
				for i := range g {
					g[i] = 1 / float64(n)
				}
			}
			return v, g, h, true
		}
	case "Vnorm", "Mnorm":
		// Mnorm AS CODED: the sum of squares (finding F-MNORM-SQRT belongs to property C02)
		return func(xs []float64) (float64, []float64, [][]float64, bool) {
			n := len(xs)
			q, g, h := 0.0, make([]float64, n), zeroMat(n)
			for _, x := range xs {
				q += x * x
			}
			if site == "Mnorm" {
				for i, x := range xs {
					g[i] = 2 * x
					h[i][i] = 2
				}
				return q, g, h, true
			}
			v := math.Sqrt(q)
			if !(v > 0) {
				return 0, nil, nil, false
			}
			for i := range xs {
				g[i] = xs[i] / v
				for j := range xs {
					h[i][j] = -xs[i] * xs[j] / (v * v * v)
				}
				h[i][i] += 1 / v
			}
			return v, g, h, true
		}
	case "VdotV":
		return func(xs []float64) (float64, []float64, [][]float64, bool) {
			n := len(xs)
			m := n / 2
			v, g, h := 0.0, make([]float64, n), zeroMat(n)
			for i := 0; i < m; i++ {
				v += xs[i] * xs[m+i]
				g[i], g[m+i] = xs[m+i], xs[i]
				h[i][m+i], h[m+i][i] = 1, 1
			}
			return v, g, h, true
		}
	case "SmoothMax", "LogSmoothMax":
		// (sum x e^{a x}) / (sum e^{a x});  w_i = e^{a x_i} / D,  g_i = w_i (1 + a (x_i - v)),
		// h_ij = delta_ij a w_i (2 + a (x_i - v)) - a w_i g_j - a w_j g_i
		return func(xs []float64) (float64, []float64, [][]float64, bool) {
			n := len(xs)
			a := par
			mx := math.Inf(-1)
			for _, x := range xs {
				if site == "LogSmoothMax" && !(x > 0) {
					return 0, nil, nil, false
				}
				mx = math.Max(mx, a*x)
			}
			num, den := 0.0, 0.0
			w := make([]float64, n)
			for i, x := range xs {
				w[i] = math.Exp(a*x - mx)
				den += w[i]
				num += x * w[i]
			}
			v := num / den
			g, h := make([]float64, n), zeroMat(n)
			for i := range xs {
				w[i] /= den
				g[i] = w[i] * (1 + a*(xs[i]-v))
			}
			for i := range xs {
				for j := range xs {
					h[i][j] = -a*w[i]*g[j] - a*w[j]*g[i]
				}
				h[i][i] += a * w[i] * (2 + a*(xs[i]-v))
			}
			return v, g, h, true
		}
	}
	return nil
}

func zeroMat(n int) [][]float64 {
	h := make([][]float64, n)
	for i := range h {
		h[i] = make([]float64, n)
	}
	return h
}

// check one (site, point): returns a failure description or "".
func checkPoint(site string, kind, order int, xs []float64, par float64, k int) string {
	n := len(xs)
	if kind == K32 {
		// the evaluation point of a Real32 is the float32 value
		xs = append([]float64{}, xs...)
		for i := range xs {
			xs[i] = float64(float32(xs[i]))
		}
	}
	if strings.HasPrefix(site, "LogSub") && !(xs[0] > xs[1]+0.05) {
		return "" // outside the domain / ill-conditioned
	}
	res, pk := evalOp(site, kind, order, xs, par, k)
	if pk != 0 {
		return fmt.Sprintf("panic kind %d on valid operands", pk)
	}
	val := res.GetFloat64()
	if math.IsNaN(val) {
		// a composite operation (LogAdd, LogSub, Log1pExp, Sigmoid, ...) whose closed form is finite and of
		// moderate size at this point must not return NaN: "the result carries the value"
		cs := strings.TrimSuffix(strings.TrimSuffix(site, "(alias)"), "(concrete)")
		if f := compositeRef(cs, par); f != nil && site != "ABS(concrete)" {
			if rv, _, _, ok := f(xs); ok && !math.IsNaN(rv) && math.Abs(rv) < 1e30 {
				return fmt.Sprintf("value NaN, closed form %v", rv)
			}
		}
	}
	if math.IsNaN(val) || math.IsInf(val, 0) {
		return ""
	}
	eps := 1e-9
	fdtol := 2e-4
	if kind == K32 {
		eps = 2e-5
		fdtol = 0 // finite differences are useless at float32 resolution
	}
	if res.GetOrder() != order || res.GetN() != n {
		return fmt.Sprintf("result has Order=%d N=%d, expected %d %d", res.GetOrder(), res.GetN(), order, n)
	}
	close := func(a, b, rel, scale float64) bool {
		if math.IsNaN(a) || math.IsNaN(b) || math.IsInf(a, 0) || math.IsInf(b, 0) {
			return true // outside "every intermediate derivative is finite"
		}
		floor := 0.0
		if kind == K32 {
			floor = 1e-30 // float32 underflow
		}
		return math.Abs(a-b) <= rel*(math.Abs(a)+math.Abs(b)+scale)+floor
	}
	// symmetry
	if order >= 2 {
		for i := 0; i < n; i++ {
			for j := 0; j < n; j++ {
				if !feq(res.GetHessian(i, j), res.GetHessian(j, i)) && !(res.GetHessian(i, j) == res.GetHessian(j, i)) {
					return fmt.Sprintf("Hessian not symmetric: H[%d][%d]=%v H[%d][%d]=%v", i, j, res.GetHessian(i, j), j, i, res.GetHessian(j, i))
				}
			}
		}
	}
	// (ii) closed forms
	full := site
	site = strings.TrimSuffix(site, "(alias)")
	if site != "ABS(concrete)" {
		site = strings.TrimSuffix(site, "(concrete)")
	}
	var rv float64
	var rg []float64
	var rh [][]float64
	have := false
	if _, ok := certOrMon[site]; ok && n == 1 {
		v0, f1, f2 := monRef(nil, site, par, k, xs[0])
		rv, rg, rh, have = v0, []float64{f1}, [][]float64{{f2}}, true
	} else if site == "PowC" {
		v0, f1, f2 := monRef(nil, "PowC", par, 0, xs[0])
		rv, rg, rh, have = v0, []float64{f1}, [][]float64{{f2}}, true
	} else if site == "Add" || site == "Sub" || site == "Mul" || site == "Div" || site == "Pow" {
		nm := site
		if nm == "Pow" {
			nm = "PowV"
		}
		v0, a, b, c11, c20, c02 := dyRef(nil, nm, xs[0], xs[1])
		rv, rg, rh, have = v0, []float64{a, b}, [][]float64{{c20, c11}, {c11, c02}}, true
	} else if f := compositeRef(site, par); f != nil {
		rv, rg, rh, have = f(xs)
	}
	scale := math.Abs(val)
	if have {
		vscale := 0.0
		if strings.HasPrefix(site, "LogSub") || strings.HasPrefix(site, "LogAdd") {
			// a + log(1 -+ exp(b-a)) cancels: the rounding error is relative to the operands, not to the result
			vscale = math.Abs(xs[0]) + math.Abs(xs[1])
		}
		switch site {
		case "SmoothMax", "LogSmoothMax", "Vmean", "Mtrace", "VdotV", "Vnorm", "Mnorm":
			// sums of signed terms cancel: the rounding error is relative to the terms, not to the result
			for i, x := range xs {
				if site == "VdotV" {
					if i < n/2 {
						vscale += math.Abs(x * xs[n/2+i])
					}
				} else {
					vscale += math.Abs(x)
				}
			}
			if vscale > scale {
				scale = vscale
			}
		}
		if !close(val, rv, eps, vscale) {
			return fmt.Sprintf("value %v, closed form %v", val, rv)
		}
		for i := 0; i < n; i++ {
			if !close(res.GetDerivative(i), rg[i], eps*10, 0) && !close(res.GetDerivative(i), rg[i], eps*10, scale) {
				return fmt.Sprintf("d/dx%d = %v, closed form %v", i, res.GetDerivative(i), rg[i])
			}
			if order >= 2 {
				for j := 0; j < n; j++ {
					sc := math.Abs(rg[i]) + math.Abs(rg[j]) + scale
					if !close(res.GetHessian(i, j), rh[i][j], eps*100, sc) {
						return fmt.Sprintf("d2/dx%ddx%d = %v, closed form %v", i, j, res.GetHessian(i, j), rh[i][j])
					}
				}
			}
		}
	}
	// (i) central finite differences of the library's own value and gradient
	if fdtol > 0 {
		for i := 0; i < n; i++ {
			h := 1e-5 * math.Abs(xs[i])
			if h == 0 {
				h = 1e-6
			}
			xp := append([]float64{}, xs...)
			xm := append([]float64{}, xs...)
			xp[i] += h
			xm[i] -= h
			rp, p1 := evalOp(full, kind, order, xp, par, k)
			rm, p2 := evalOp(full, kind, order, xm, par, k)
			if p1 != 0 || p2 != 0 {
				continue
			}
			// skip points whose neighbourhood crosses a kink (Abs at 0, Min/Max ties)
			if site == "Abs" || site == "ABS(concrete)" || site == "Min" || site == "Max" {
				if math.Abs(xs[0]) < 1e-3 || (n > 1 && math.Abs(xs[0]-xs[1]) < 1e-3) {
					continue
				}
			}
			fd := (rp.GetFloat64() - rm.GetFloat64()) / (xp[i] - xm[i])
			sc := (math.Abs(rp.GetFloat64()) + math.Abs(rm.GetFloat64())) / math.Abs(xp[i]-xm[i]) * 1e-9 / fdtol
			if !close(res.GetDerivative(i), fd, fdtol, sc+1e-6) {
				return fmt.Sprintf("d/dx%d = %v, finite difference of the value %v", i, res.GetDerivative(i), fd)
			}
			if order >= 2 {
				for j := 0; j < n; j++ {
					fd2 := (rp.GetDerivative(j) - rm.GetDerivative(j)) / (xp[i] - xm[i])
					sc2 := (math.Abs(rp.GetDerivative(j)) + math.Abs(rm.GetDerivative(j))) / math.Abs(xp[i]-xm[i]) * 1e-9 / fdtol
					if !close(res.GetHessian(i, j), fd2, fdtol, sc2+1e-6) {
						return fmt.Sprintf("d2/dx%ddx%d = %v, finite difference of the gradient %v", i, j, res.GetHessian(i, j), fd2)
					}
				}
			}
		}
	}
	return ""
}

var certOrMon = map[string]bool{"Neg": true, "Sin": true, "Sinh": true, "Cos": true, "Cosh": true, "Tan": true, "Tanh": true,
	"Exp": true, "Log": true, "Log1p": true, "Erf": true, "Erfc": true, "LogErfc": true, "Gamma": true, "Lgamma": true,
	"Mlgamma": true, "GammaP": true, "BesselI": true, "LogBesselI": true}

type sweep struct {
	site string
	n    int
	dom  domain
	pars []float64
	ks   []int
}

var sweeps = []sweep{
	{"Neg", 1, domain{1e-3, 1e3, true, []float64{0}}, nil, nil},
	{"Sin", 1, domain{1e-3, 50, true, nil}, nil, nil},
	{"Cos", 1, domain{1e-3, 50, true, nil}, nil, nil},
	{"Sinh", 1, domain{1e-3, 30, true, nil}, nil, nil},
	{"Cosh", 1, domain{1e-3, 30, true, nil}, nil, nil},
	{"Tan", 1, domain{1e-3, 1.4, true, []float64{2, 4, 7}}, nil, nil},
	{"Tanh", 1, domain{1e-3, 6, true, nil}, nil, nil},
	{"Exp", 1, domain{1e-3, 200, true, nil}, nil, nil},
	{"Log", 1, domain{1e-5, 1e5, false, nil}, nil, nil},
	{"Log1p", 1, domain{1e-5, 1e4, false, []float64{-0.5, -0.99}}, nil, nil},
	{"Erf", 1, domain{1e-3, 5, true, nil}, nil, nil},
	{"Erfc", 1, domain{1e-3, 5, true, nil}, nil, nil},
	{"LogErfc", 1, domain{1e-3, 18.5, true, nil}, nil, nil}, // x >= 18.84: known finding F-LOGERFC-D2 (witness below)
	{"Gamma", 1, domain{0.05, 30, false, []float64{-0.5, -1.5, -2.3}}, nil, nil},
	{"Lgamma", 1, domain{0.05, 1e4, false, nil}, nil, nil},
	{"Mlgamma", 1, domain{2.1, 50, false, nil}, nil, []int{1, 2, 3, 4}},
	{"GammaP", 1, domain{0.05, 30, false, nil}, []float64{0.5, 1, 2.5, 7}, nil},
	{"BesselI", 1, domain{0.05, 30, false, nil}, []float64{0, 0.5, 1, 2.5}, nil},
	{"LogBesselI", 1, domain{0.05, 200, false, nil}, []float64{0, 0.5, 1, 2.5}, nil},
	{"PowC", 1, domain{1e-3, 1e3, false, nil}, []float64{0.5, 2, 3, -1, 1.5, -2.5, 0, 1}, nil},
	{"Sqrt", 1, domain{1e-4, 1e4, false, nil}, nil, nil},
	{"Abs", 1, domain{1e-2, 1e3, true, nil}, nil, nil},
	{"ABS(concrete)", 1, domain{1e-2, 1e3, true, nil}, nil, nil},
	{"MulConst", 1, domain{1e-3, 1e3, true, nil}, []float64{2.5, -3, 0}, nil},
	{"Sigmoid", 1, domain{1e-3, 30, true, []float64{0, math.Copysign(0, -1)}}, nil, nil},
	{"Logistic", 1, domain{1e-3, 30, true, nil}, nil, nil},
	{"Log1pExp", 1, domain{1e-2, 60, true, []float64{-37, math.Nextafter(-37, 0), math.Nextafter(-37, -40), 18, math.Nextafter(18, 0), math.Nextafter(18, 20), 33.3, math.Nextafter(33.3, 0), math.Nextafter(33.3, 40), 20, 25, 30, -40, 35}}, nil, nil},
	// receiver = operand (c.Op(c)): the composite programs must not read an operand they have overwritten
	{"Log1pExp(alias)", 1, domain{1e-2, 60, true, []float64{-37, 18, math.Nextafter(18, 20), 33.3, math.Nextafter(33.3, 40), 19, 20, 25, 30, 33, -40, 35}}, nil, nil},
	{"Sigmoid(alias)", 1, domain{1e-3, 30, true, []float64{0}}, nil, nil},
	{"Logistic(alias)", 1, domain{1e-3, 30, true, nil}, nil, nil},
	{"Sqrt(alias)", 1, domain{1e-4, 1e4, false, nil}, nil, nil},
	{"Abs(alias)", 1, domain{1e-2, 1e3, true, nil}, nil, nil},
	{"Exp(alias)", 1, domain{1e-3, 200, true, nil}, nil, nil},
	{"Mul(alias)", 2, domain{1e-2, 1e2, true, nil}, nil, nil},
	{"Div(alias)", 2, domain{1e-2, 1e2, true, nil}, nil, nil},
	{"Pow(alias)", 2, domain{0.1, 8, false, nil}, nil, nil},
	{"LogAdd(alias)", 2, domain{1e-2, 30, true, nil}, nil, nil},
	{"LogSub(alias)", 2, domain{1e-2, 30, true, nil}, nil, nil},
	{"Add(concrete)", 2, domain{1e-2, 1e2, true, nil}, nil, nil},
	{"Sub(concrete)", 2, domain{1e-2, 1e2, true, nil}, nil, nil},
	{"Mul(concrete)", 2, domain{1e-2, 1e2, true, nil}, nil, nil},
	{"Div(concrete)", 2, domain{1e-2, 1e2, true, nil}, nil, nil},
	{"Pow(concrete)", 2, domain{0.1, 8, false, nil}, nil, nil},
	{"Neg(concrete)", 1, domain{1e-3, 1e3, true, nil}, nil, nil},
	{"Exp(concrete)", 1, domain{1e-3, 200, true, nil}, nil, nil},
	{"Log(concrete)", 1, domain{1e-5, 1e5, false, nil}, nil, nil},
	{"Log1p(concrete)", 1, domain{1e-5, 1e4, false, nil}, nil, nil},
	{"Sqrt(concrete)", 1, domain{1e-4, 1e4, false, nil}, nil, nil},
	{"LogAdd(concrete)", 2, domain{1e-2, 30, true, nil}, nil, nil},
	{"LogSub(concrete)", 2, domain{1e-2, 30, true, nil}, nil, nil},
	{"Add", 2, domain{1e-2, 1e2, true, nil}, nil, nil},
	{"Sub", 2, domain{1e-2, 1e2, true, nil}, nil, nil},
	{"Mul", 2, domain{1e-2, 1e2, true, nil}, nil, nil},
	{"Div", 2, domain{1e-2, 1e2, true, nil}, nil, nil},
	{"Pow", 2, domain{0.1, 8, false, nil}, nil, nil},
	{"LogAdd", 2, domain{1e-2, 30, true, nil}, nil, nil},
	{"LogSub", 2, domain{1e-2, 30, true, nil}, nil, nil},
	{"Min", 2, domain{1e-2, 30, true, nil}, nil, nil},
	{"Max", 2, domain{1e-2, 30, true, nil}, nil, nil},
	{"SmoothMax", 3, domain{0.1, 4, true, nil}, []float64{1, 0.5, 2}, nil},
	{"LogSmoothMax", 3, domain{0.1, 4, false, nil}, []float64{1, 0.5, 2}, nil},
	{"Vmean", 3, domain{0.1, 10, true, nil}, nil, nil},
	{"Vnorm", 3, domain{0.1, 10, true, nil}, nil, nil},
	{"VdotV", 4, domain{0.1, 10, true, nil}, nil, nil},
	{"Mtrace", 3, domain{0.1, 10, true, nil}, nil, nil},
	{"Mnorm", 3, domain{0.1, 10, true, nil}, nil, nil},
}

func recheck(h HuntHit) *HuntHit {
	var f string
	switch h.Class {
	case "panic":
		f = knownWitness(h.Site)
	case "extreme":
		f = recheckExtreme(h)
	case "stale":
		f = staleCheck(strings.TrimSuffix(h.Site, "(reused receiver)"), h.Kind, h.Order, h.K)
	case "alias", "inplace", "inplace-vec":
		f = recheckAlias(h)
	default:
		f = checkPoint(h.Site, h.Kind, h.Order, h.Xs, h.Par, h.K)
	}
	if f == "" {
		return nil
	}
	h.Failure = f
	return &h
}

// knownWitness re-executes the committed witnesses of defects of the unchanged library.
func knownWitness(site string) string {
	switch site {
	case "Set:order-assigned-before-Alloc":
		// receiver of order 1 over 2 variables, operand of order 2 over 2 variables
		a, b := ad.NewReal64(1), ad.NewReal64(2)
		c, d := ad.NewReal64(3), ad.NewReal64(4)
		ad.Variables(1, a, b)
		ad.Variables(2, c, d)
		regs := map[int]adScalar{0: a, 1: c}
		if k := execGo(regs, &Instr{Op: "Set", C: 0, A: 1}); k != 0 {
			return fmt.Sprintf("x.Set(y) panics (kind %d) for x of order 1 and y of order 2 over the same 2 variables", k)
		}
	case "LogErfc:second-derivative-overflow":
		if f := checkPoint("LogErfc", K64, 2, []float64{19}, 0, 0); f != "" {
			return "LogErfc at x = 19, order 2: " + f
		}
	}
	return ""
}

func hunt(o Opts) {
	r := NewRng(o.Seed + 5000)
	var hits []HuntHit
	seen := map[string]bool{}
	npts := o.N
	if npts <= 0 {
		npts = 12
	}
	count := 0
	// methods whose translated text changed (props/c01.py, go2coq_c01): five times the points there
	focus := map[string]bool{}
	for _, m := range strings.Split(os.Getenv("C01_HUNT_FOCUS"), ",") {
		if m != "" {
			focus[strings.ToLower(m)] = true
		}
	}
	base := npts
	for _, sw := range sweeps {
		npts = base
		fs := strings.ToLower(strings.TrimSuffix(strings.TrimSuffix(sw.site, "(alias)"), "(concrete)"))
		if focus[fs] || (fs == "powc" && focus["pow"]) {
			npts = 5 * base
		}
		pars := sw.pars
		if len(pars) == 0 {
			pars = []float64{0}
		}
		ks := sw.ks
		if len(ks) == 0 {
			ks = []int{0}
		}
		for _, par := range pars {
			for _, k := range ks {
				var pts [][]float64
				for _, x := range points(r, sw.dom, npts) {
					p := []float64{x}
					for len(p) < sw.n {
						p = append(p, points(r, sw.dom, 1)[0])
					}
					pts = append(pts, p)
				}
				for _, xs := range pts {
					for _, kind := range []int{K64, K32} {
						for _, order := range []int{1, 2} {
							count++
							if f := checkPoint(sw.site, kind, order, xs, par, k); f != "" {
								key := sw.site + "|" + strings.SplitN(f, " ", 2)[0]
								if !seen[key] {
									seen[key] = true
									cl := "derivative"
									if len(f) > 5 && f[:5] == "panic" {
										cl = "derivative-panic"
									}
									hits = append(hits, HuntHit{Site: sw.site, Kind: kind, Order: order, Xs: xs, Par: par, K: k, Failure: f, Class: cl})
								}
							}
						}
					}
				}
			}
		}
	}
	// the -Inf short cuts of LogAdd / LogSub are Set(operand): the derivatives of the finite operand must survive
	ninf := math.Inf(-1)
	for _, site := range []string{"LogSub", "LogSub(concrete)", "LogAdd", "LogAdd(concrete)", "LogSub(alias)", "LogAdd(alias)"} {
		for _, xs := range [][]float64{{1.25, ninf}, {-3.5, ninf}, {ninf, 0.75}} {
			if strings.HasPrefix(site, "LogSub") && math.IsInf(xs[0], -1) {
				continue
			}
			for _, kind := range []int{K64, K32} {
				for _, order := range []int{1, 2} {
					count++
					if f := checkPoint(site, kind, order, xs, 0, 0); f != "" {
						key := site + "(-Inf)"
						if !seen[key] {
							seen[key] = true
							hits = append(hits, HuntHit{Site: site, Kind: kind, Order: order, Xs: xs, Failure: f, Class: "derivative"})
						}
					}
				}
			}
		}
	}
	// round 7: LogAdd far operands / +-Inf combinations, anchored exact-zero points (extreme.go)
	eh, ec := extremeHunt()
	hits = append(hits, eh...)
	count += ec
	// restarted registers: fresh vs reused receiver (streams.go)
	npts = base
	sh, sc := staleHunt()
	hits = append(hits, sh...)
	count += sc
	// receiver = operand aliasing: every method x {generic, concrete} x alias pattern; in-place programs (alias.go)
	ah, ac := aliasHunt(o.Seed, npts/20)
	hits = append(hits, ah...)
	count += ac
	// known-defect witnesses (replayed on every run)
	for _, site := range []string{"Set:order-assigned-before-Alloc", "LogErfc:second-derivative-overflow"} {
		if f := knownWitness(site); f != "" {
			hits = append(hits, HuntHit{Site: site, Failure: f, Class: "panic"})
		}
	}
	out := map[string]interface{}{"found": len(hits) > 0, "hits": hits, "points": count}
	b, err := json.MarshalIndent(out, "", " ")
	if err != nil {
		Die("hunt.json: %v", err)
	}
	os.WriteFile(filepath.Join(o.Out, "hunt.json"), b, 0644)
}

func min(a, b int) int {
	if a < b {
		return a
	}
	return b
}
