// Deterministic case streams aimed at two classes of defects that random
// register-file programs reach only occasionally:
//
//   staleStream  a receiver (and the temporaries of the reductions) that still
//                holds NON-ZERO raw gradient / Hessian content of an earlier
//                computation with the same N and order is restarted by Reset /
//                SetFloat64 / SetVariable / Set / Abs at 0 or by a reduction that
//                begins with Reset (Vmean, VdotV, Vnorm, Mtrace, SmoothMax,
//                LogSmoothMax): every raw slot of the result is compared.
//   powStream    Pow with a magic exponent (the only caller of dyadicLazy /
//                realDyadicLazy): order 2, >= 2 variables, base and exponent with
//                linearly independent gradients, every off-diagonal Hessian slot.
package main

import (
	"fmt"
	"strings"

	ad "github.com/pbenner/autodiff"
)

// a register whose raw slices are full of non-zero, non-symmetric content
func staleSnap(kind, order, n int, salt float64) RegSnap {
	r := RegSnap{Kind: kind, Val: 7 + salt, Order: order, N: n, D: []float64{}, H: [][]float64{}}
	if order >= 1 {
		for i := 0; i < n; i++ {
			r.D = append(r.D, 3+float64(i)*0.5+salt)
		}
	}
	if order >= 2 {
		for i := 0; i < n; i++ {
			row := []float64{}
			for j := 0; j < n; j++ {
				row = append(row, 1.5+float64(i*n+j)+salt) // H[i][j] != H[j][i]
			}
			r.H = append(r.H, row)
		}
	}
	return r
}

func varSnap(kind, order, n, i int, v float64) RegSnap {
	r := RegSnap{Kind: kind, Val: v, Order: order, N: n, D: []float64{}, H: [][]float64{}}
	if order >= 1 {
		r.D = make([]float64, n)
		r.D[i] = 1
	}
	if order >= 2 {
		for k := 0; k < n; k++ {
			r.H = append(r.H, make([]float64, n))
		}
	}
	return r
}

const (
	idZ  = 10 // a variable whose value is 0 (Abs at 0)
	idC  = 20 // the stale receiver
	idT0 = 21 // stale temporaries
	idK2 = 40 // the plain constant 2 (exponent of Pow)
)

func staleProg(kind, order, n int) *prog {
	p := &prog{regs: map[int]ad.ConstScalar{}, kinds: map[int]int{}}
	put := func(id int, s RegSnap) {
		p.regs[id] = restore(s)
		p.kinds[id] = kind
	}
	for i := 0; i < n; i++ {
		put(i, varSnap(kind, order, n, i, 0.5+float64(i)))
	}
	put(idZ, varSnap(kind, order, n, 0, 0))
	put(idC, staleSnap(kind, order, n, 0))
	for k := 0; k < 3; k++ {
		put(idT0+k, staleSnap(kind, order, n, float64(k+1)*0.25))
	}
	p.regs[idK2] = ad.NewFloat64(2)
	p.kinds[idK2] = KBare
	return p
}

func staleStream(emit func(Case, string)) {
	for _, kind := range []int{K64, K32} {
		for _, on := range [][2]int{{2, 2}, {2, 3}, {1, 2}} {
			order, n := on[0], on[1]
			xs := []int{}
			rev := []int{}
			for i := 0; i < n; i++ {
				xs = append(xs, i)
				rev = append(rev, n-1-i)
			}
			ins := []Instr{
				{Op: "Reset", C: idC},
				{Op: "SetFloat64", C: idC, Par: 2.5},
				{Op: "SetVariable", C: idC, I: 1, N: n, Ord: order},   // Alloc is a no-op: old content stays
				{Op: "SetVariable", C: idC, I: 0, N: n, Ord: 3 - order}, // reallocates
				{Op: "SetVariable", C: idC, I: 0, N: n + 1, Ord: order},
				{Op: "Set", C: idC, A: 0},
				{Op: "Set", C: idC, A: 0, Conc: true},
				{Op: "Abs", C: idC, A: idZ},
				{Op: "Abs", C: idC, A: idZ, Conc: true},
				{Op: "Abs", C: idC, A: idC}, // receiver = operand
				{Op: "Vmean", C: idC, Xs: xs},
				{Op: "Vmean", C: idC, Xs: xs[:1]},
				{Op: "VdotV", C: idC, Xs: xs, Ys: rev},
				{Op: "VdotV", C: idC},
				{Op: "Vnorm", C: idC, Xs: xs},
				{Op: "Mtrace", C: idC, Xs: xs, Rows: n},
				{Op: "Mtrace", C: idC, Xs: xs[:1], Rows: 1},
				{Op: "Mnorm", C: idC, Xs: xs, Rows: 1, Cols: n},
				{Op: "SmoothMax", C: idC, Xs: xs, Par: 0.5, T: []int{idT0, idT0 + 1}},
				{Op: "SmoothMax", C: idC, Xs: xs[:1], Par: 2, T: []int{idT0, idT0 + 1}},
				{Op: "LogSmoothMax", C: idC, Xs: xs, Par: 0.5, T: []int{idT0, idT0 + 1, idT0 + 2}},
				// what a caller typically does next with a restarted accumulator
				{Op: "Add", C: idC, A: idC, B: 0},
				{Op: "Mul", C: idC, A: idC, B: 1},
			}
			// round 7: exact stationary points on a stale receiver -- a chain-rule coefficient (v1, v2, v10, v01, v11,
			// v20, v02) is exactly 0, the slot must still be WRITTEN (0 * g = 0 replaces the old content)
			for _, op := range stationaryMon {
				ins = append(ins, Instr{Op: op, C: idC, A: idZ})
			}
			ins = append(ins,
				Instr{Op: "Neg", C: idC, A: 0}, Instr{Op: "Neg", C: idC, A: 0, Conc: true},
				Instr{Op: "Mul", C: idC, A: idZ, B: idZ}, Instr{Op: "Mul", C: idC, A: idZ, B: idZ, Conc: true},
				Instr{Op: "Mul", C: idC, A: 1, B: idZ}, Instr{Op: "Mul", C: idC, A: idZ, B: 1, Conc: true},
				Instr{Op: "Div", C: idC, A: idZ, B: 1}, Instr{Op: "Add", C: idC, A: 0, B: 1}, Instr{Op: "Sub", C: idC, A: 0, B: 1, Conc: true},
				Instr{Op: "Pow", C: idC, A: idZ, B: idK2}, Instr{Op: "Pow", C: idC, A: 0, B: idZ},
				Instr{Op: "Vnorm", C: idC, Xs: []int{0, idZ, 1}}, Instr{Op: "Mnorm", C: idC, Xs: []int{1, idZ, 0}, Rows: 1, Cols: 3},
				Instr{Op: "VdotV", C: idC, Xs: []int{0, idZ}, Ys: []int{1, idZ}},
				Instr{Op: "LogAdd", C: idC, A: 0, B: 0, T: []int{idT0}}, Instr{Op: "Sigmoid", C: idC, A: idZ, T: []int{idT0}})
			for _, in := range ins {
				p := staleProg(kind, order, n)
				tag := "stale:" + in.Op
				if in.Conc {
					tag += "(concrete)"
				}
				emit(stepCase(p, in), tag)
				// the restart followed by one accumulation step, both replayed from Go's own states
				if in.Op == "Reset" || in.Op == "SetFloat64" {
					emit(stepCase(p, Instr{Op: "Add", C: idC, A: idC, B: 1}), "stale:"+in.Op+";Add")
					emit(stepCase(p, Instr{Op: "Mul", C: idC, A: idC, B: 0}), "stale:"+in.Op+";Add;Mul")
				}
			}
		}
	}
}

func powStream(emit func(Case, string)) {
	vals := []float64{1.5, 2.25, 0.75}
	for _, kind := range []int{K64, K32} {
		for _, n := range []int{2, 3} {
			for _, conc := range []bool{false, true} {
				for i := 0; i < n; i++ {
					for j := 0; j < n; j++ {
						if i == j {
							continue
						}
						p := &prog{regs: map[int]ad.ConstScalar{}, kinds: map[int]int{}}
						for k := 0; k < n; k++ {
							p.regs[k] = restore(varSnap(kind, 2, n, k, vals[k]))
							p.kinds[k] = kind
						}
						p.regs[idC] = newMagic(kind, 0)
						p.kinds[idC] = kind
						tag := fmt.Sprintf("pow:var^var,n=%d", n)
						if conc {
							tag += "(concrete)"
						}
						emit(stepCase(p, Instr{Op: "Pow", C: idC, A: i, B: j, Conc: conc}), tag)
					}
				}
				// composite base and exponent with independent, dense gradients and non-zero Hessians
				p := &prog{regs: map[int]ad.ConstScalar{}, kinds: map[int]int{}}
				for k := 0; k < n; k++ {
					p.regs[k] = restore(varSnap(kind, 2, n, k, vals[k]))
					p.kinds[k] = kind
				}
				for _, id := range []int{idC, idT0, idT0 + 1} {
					p.regs[id] = newMagic(kind, 0)
					p.kinds[id] = kind
				}
				stepCase(p, Instr{Op: "Mul", C: idT0, A: 0, B: 1})        // a = x0 x1
				stepCase(p, Instr{Op: "Div", C: idT0 + 1, A: n - 1, B: 0}) // b = x_{n-1} / x0
				tag := fmt.Sprintf("pow:expr^expr,n=%d", n)
				if conc {
					tag += "(concrete)"
				}
				emit(stepCase(p, Instr{Op: "Pow", C: idC, A: idT0, B: idT0 + 1, Conc: conc}), tag)
				emit(stepCase(p, Instr{Op: "Pow", C: idT0, A: idT0, B: idT0 + 1, Conc: conc}), tag+",c=a")
			}
		}
	}
}

// ---------------------------------------------------------------- hunt: restarted registers
// Property-level oracle (no model involved): an operation whose result is defined
// by its operands alone (Reset, SetFloat64, Abs at 0, the reductions that begin
// with Reset, and what is accumulated onto a restarted register) must report the
// same value / gradient / Hessian whether the receiver is a fresh object or one
// that held the jet of an earlier computation over the same variables; after
// Reset / SetFloat64 every derivative getter is 0.

var staleSites = []string{"SetVariable", "Reset", "SetFloat64", "SetFloat64;Mul", "Reset;Add", "Abs0", "Abs0(concrete)", "Vmean", "VdotV", "Vnorm", "Mtrace", "SmoothMax", "LogSmoothMax",
	// round 7: exact stationary points (a chain-rule coefficient is exactly 0) on a reused receiver
	"Cos@0", "Cosh@0", "Sin@0", "Sinh@0", "Tan@0", "Tanh@0", "Erf@0", "Logistic@0", "Sigmoid@0", "Neg", "Neg(concrete)",
	"Mul(z,z)", "Mul(z,z)(concrete)", "Mul(x,z)", "Mul(z,x)(concrete)", "Div(z,x)", "Add", "Sub(concrete)", "PowC2@0", "Pow(x,z)",
	"Vnorm0", "Mnorm0", "VdotV0", "LogAdd(x,x)"}

// monadic table operations with a coefficient that is exactly 0 at x = 0 (v1: Cos Cosh; v2: Sin Sinh Tan Tanh Erf Logistic)
var stationaryMon = []string{"Cos", "Cosh", "Sin", "Sinh", "Tan", "Tanh", "Erf", "Logistic"}

func staleRun(site string, kind, order, n int, dirty bool) (res adScalar, pk int) {
	regs := map[int]adScalar{}
	vars := []ad.MagicScalar{}
	for i := 0; i < n; i++ {
		m := newMagic(kind, 0.5+float64(i)).(ad.MagicScalar)
		regs[i] = m
		vars = append(vars, m)
	}
	ad.Variables(order, vars...)
	z := newMagic(kind, 0).(ad.MagicScalar)
	z.SetVariable(0, n, order)
	regs[idZ] = z
	for _, id := range []int{idC, idT0, idT0 + 1, idT0 + 2} {
		regs[id] = newMagic(kind, 0)
		if dirty {
			// exp(x0 x1 + x_{n-1}): every gradient and Hessian slot is non-zero
			c := regs[id].(ad.Scalar)
			c.Mul(regs[0], regs[1])
			c.Add(c, regs[n-1])
			c.Exp(c)
		}
	}
	xs := []int{}
	rev := []int{}
	for i := 0; i < n; i++ {
		xs = append(xs, i)
		rev = append(rev, n-1-i)
	}
	var prog []Instr
	conc := strings.HasSuffix(site, "(concrete)")
	switch site {
	case "SetVariable":
		// re-activation of a scalar that holds the jet of an earlier computation over the same variables:
		// x_1 again, with gradient e_1 and a zero Hessian (HEAD 8241a1e)
		prog = []Instr{{Op: "SetVariable", C: idC, I: 1, N: n, Ord: order}}
	case "Reset":
		prog = []Instr{{Op: "Reset", C: idC}}
	case "SetFloat64":
		prog = []Instr{{Op: "SetFloat64", C: idC, Par: 2.5}}
	case "SetFloat64;Mul":
		prog = []Instr{{Op: "SetFloat64", C: idC, Par: 2.5}, {Op: "Mul", C: idC, A: idC, B: 0}}
	case "Reset;Add":
		prog = []Instr{{Op: "Reset", C: idC}, {Op: "Add", C: idC, A: idC, B: 1}}
	case "Abs0":
		prog = []Instr{{Op: "Abs", C: idC, A: idZ}}
	case "Abs0(concrete)":
		prog = []Instr{{Op: "Abs", C: idC, A: idZ, Conc: true}}
	case "Vmean", "Vnorm":
		prog = []Instr{{Op: site, C: idC, Xs: xs}}
	case "VdotV":
		prog = []Instr{{Op: site, C: idC, Xs: xs, Ys: rev}}
	case "Mtrace":
		prog = []Instr{{Op: site, C: idC, Xs: xs, Rows: n}}
	case "SmoothMax":
		prog = []Instr{{Op: site, C: idC, Xs: xs, Par: 0.5, T: []int{idT0, idT0 + 1}}}
	case "LogSmoothMax":
		prog = []Instr{{Op: site, C: idC, Xs: xs, Par: 0.5, T: []int{idT0, idT0 + 1, idT0 + 2}}}
	case "Cos@0", "Cosh@0", "Sin@0", "Sinh@0", "Tan@0", "Tanh@0", "Erf@0", "Logistic@0":
		prog = []Instr{{Op: strings.TrimSuffix(site, "@0"), C: idC, A: idZ}}
	case "Sigmoid@0":
		prog = []Instr{{Op: "Sigmoid", C: idC, A: idZ, T: []int{idT0}}}
	case "Neg", "Neg(concrete)":
		prog = []Instr{{Op: "Neg", C: idC, A: 0, Conc: conc}}
	case "Mul(z,z)", "Mul(z,z)(concrete)":
		prog = []Instr{{Op: "Mul", C: idC, A: idZ, B: idZ, Conc: conc}}
	case "Mul(x,z)":
		prog = []Instr{{Op: "Mul", C: idC, A: 1, B: idZ}}
	case "Mul(z,x)(concrete)":
		prog = []Instr{{Op: "Mul", C: idC, A: idZ, B: 1, Conc: true}}
	case "Div(z,x)":
		prog = []Instr{{Op: "Div", C: idC, A: idZ, B: 1}}
	case "Add", "Sub(concrete)":
		prog = []Instr{{Op: strings.TrimSuffix(site, "(concrete)"), C: idC, A: 0, B: 1, Conc: conc}}
	case "PowC2@0":
		regs[idK2] = ad.ConstFloat64(2)
		prog = []Instr{{Op: "Pow", C: idC, A: idZ, B: idK2}}
	case "Pow(x,z)":
		prog = []Instr{{Op: "Pow", C: idC, A: 0, B: idZ}}
	case "Vnorm0":
		prog = []Instr{{Op: "Vnorm", C: idC, Xs: []int{0, idZ, 1}}}
	case "Mnorm0":
		prog = []Instr{{Op: "Mnorm", C: idC, Xs: []int{1, idZ, 0}, Rows: 1, Cols: 3}}
	case "VdotV0":
		prog = []Instr{{Op: "VdotV", C: idC, Xs: []int{0, idZ}, Ys: []int{1, idZ}}}
	case "LogAdd(x,x)":
		prog = []Instr{{Op: "LogAdd", C: idC, A: 0, B: 0, T: []int{idT0}}}
	default:
		panic("staleRun: unknown site " + site)
	}
	for k := range prog {
		if pk = execGo(regs, &prog[k]); pk != 0 {
			return regs[idC], pk
		}
	}
	return regs[idC], 0
}

func staleCheck(site string, kind, order, n int) string {
	fresh, p1 := staleRun(site, kind, order, n, false)
	used, p2 := staleRun(site, kind, order, n, true)
	if p1 != p2 {
		return fmt.Sprintf("panic kind %d on a fresh receiver, %d on a reused one", p1, p2)
	}
	if p1 != 0 {
		return ""
	}
	same := func(a, b float64) bool { return feq(a, b) || a == b }
	if site != "SetVariable" && !same(fresh.GetFloat64(), used.GetFloat64()) { // SetVariable keeps the value it finds
		return fmt.Sprintf("value %v on a fresh receiver, %v on a reused one", fresh.GetFloat64(), used.GetFloat64())
	}
	zero := site == "Reset" || site == "SetFloat64" || site == "Abs0" || site == "Abs0(concrete)"
	if used.GetOrder() >= 1 {
		for i := 0; i < used.GetN(); i++ {
			if zero && used.GetDerivative(i) != 0 {
				return fmt.Sprintf("d/dx%d = %v after %s on a reused receiver (must be 0)", i, used.GetDerivative(i), site)
			}
			if fresh.GetN() == used.GetN() && fresh.GetOrder() >= 1 && !same(fresh.GetDerivative(i), used.GetDerivative(i)) {
				return fmt.Sprintf("d/dx%d = %v on a fresh receiver, %v on a reused one", i, fresh.GetDerivative(i), used.GetDerivative(i))
			}
		}
	}
	if used.GetOrder() >= 2 {
		for i := 0; i < used.GetN(); i++ {
			for j := 0; j < used.GetN(); j++ {
				if zero && used.GetHessian(i, j) != 0 {
					return fmt.Sprintf("d2/dx%ddx%d = %v after %s on a reused receiver (must be 0)", i, j, used.GetHessian(i, j), site)
				}
				if fresh.GetN() == used.GetN() && fresh.GetOrder() >= 2 && !same(fresh.GetHessian(i, j), used.GetHessian(i, j)) {
					return fmt.Sprintf("d2/dx%ddx%d = %v on a fresh receiver, %v on a reused one", i, j, fresh.GetHessian(i, j), used.GetHessian(i, j))
				}
			}
		}
	}
	return ""
}

func staleHunt() (hits []HuntHit, count int) {
	for _, site := range staleSites {
		done := false
		for _, kind := range []int{K64, K32} {
			for _, order := range []int{2, 1} {
				for _, n := range []int{2, 3} {
					count++
					if f := staleCheck(site, kind, order, n); f != "" && !done {
						done = true
						xs := []float64{}
						for i := 0; i < n; i++ {
							xs = append(xs, 0.5+float64(i))
						}
						hits = append(hits, HuntHit{Site: site + "(reused receiver)", Kind: kind, Order: order, Xs: xs, K: n, Failure: f, Class: "stale"})
					}
				}
			}
		}
	}
	return
}
