// JSON encoding of floats that survives NaN / +-Inf / -0 (hex strings); plain numbers are accepted on input.
package main

import (
	"encoding/json"
	"math"
	"strconv"
)

type JF float64

func (f JF) MarshalJSON() ([]byte, error) {
	x := float64(f)
	if math.IsNaN(x) || math.IsInf(x, 0) || (x == 0 && math.Signbit(x)) {
		return json.Marshal(strconv.FormatFloat(x, 'x', -1, 64))
	}
	return json.Marshal(x)
}
func (f *JF) UnmarshalJSON(b []byte) error {
	var s string
	if len(b) > 0 && b[0] == '"' {
		if err := json.Unmarshal(b, &s); err != nil {
			return err
		}
		x, err := strconv.ParseFloat(s, 64)
		*f = JF(x)
		return err
	}
	var x float64
	err := json.Unmarshal(b, &x)
	*f = JF(x)
	return err
}
func toJF(xs []float64) []JF {
	r := make([]JF, len(xs))
	for i, x := range xs {
		r[i] = JF(x)
	}
	return r
}
func fromJF(xs []JF) []float64 {
	r := make([]float64, len(xs))
	for i, x := range xs {
		r[i] = float64(x)
	}
	return r
}

type regJ struct {
	Kind  int    `json:"k"`
	Val   JF     `json:"v"`
	Order int    `json:"o"`
	N     int    `json:"n"`
	D     []JF   `json:"d"`
	H     [][]JF `json:"h"`
}

func (r RegSnap) MarshalJSON() ([]byte, error) {
	j := regJ{r.Kind, JF(r.Val), r.Order, r.N, toJF(r.D), make([][]JF, len(r.H))}
	for i := range r.H {
		j.H[i] = toJF(r.H[i])
	}
	return json.Marshal(j)
}
func (r *RegSnap) UnmarshalJSON(b []byte) error {
	var j regJ
	if err := json.Unmarshal(b, &j); err != nil {
		return err
	}
	*r = RegSnap{j.Kind, float64(j.Val), j.Order, j.N, fromJF(j.D), make([][]float64, len(j.H))}
	for i := range j.H {
		r.H[i] = fromJF(j.H[i])
	}
	return nil
}

type oentJ struct {
	F    int  `json:"f"`
	Args []JF `json:"a"`
	R    JF   `json:"r"`
}

func (e OEnt) MarshalJSON() ([]byte, error) { return json.Marshal(oentJ{e.F, toJF(e.Args), JF(e.R)}) }
func (e *OEnt) UnmarshalJSON(b []byte) error {
	var j oentJ
	if err := json.Unmarshal(b, &j); err != nil {
		return err
	}
	*e = OEnt{j.F, fromJF(j.Args), float64(j.R)}
	return nil
}

// HuntHit: the evaluation point may contain -Inf / NaN (the -Inf short cuts of LogAdd / LogSub)
type huntHitJ struct {
	Site    string `json:"site"`
	Kind    int    `json:"kind"`
	Order   int    `json:"order"`
	Xs      []JF   `json:"xs"`
	Par     JF     `json:"par"`
	K       int    `json:"k"`
	Failure string `json:"failure"`
	Class   string `json:"class"`
}

func (h HuntHit) MarshalJSON() ([]byte, error) {
	return json.Marshal(huntHitJ{h.Site, h.Kind, h.Order, toJF(h.Xs), JF(h.Par), h.K, h.Failure, h.Class})
}
func (h *HuntHit) UnmarshalJSON(b []byte) error {
	var j huntHitJ
	if err := json.Unmarshal(b, &j); err != nil {
		return err
	}
	*h = HuntHit{j.Site, j.Kind, j.Order, fromJF(j.Xs), float64(j.Par), j.K, j.Failure, j.Class}
	return nil
}
