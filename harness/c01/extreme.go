// Round 7: LogAdd (and what is built on it) at LARGE operand separations and at
// +-Inf combinations; anchored points with exact zero components for the
// reductions that reuse an internal scratch scalar.
//
//   logAddExtremeStream  bit-exact single-step cases for the Coq model: LogAdd /
//                        LOGADD at |a-b| beyond the overflow threshold of exp
//                        (709.78 for binary64, 88.72 for binary32), both operand
//                        orders, every combination of +-Inf.
//   extremeHunt          property-level oracle on the implementation: the operand
//                        ordering prologue of LogAdd exists so that exp() is only
//                        ever called on a non-positive number; ln(e^a + e^b) is
//                        representable (it is max(a,b) + something in [0, ln 2])
//                        and so are its derivatives (sigmoids of a-b), hence NO
//                        slot may be NaN / Inf at finite operands.
package main

import (
	"fmt"
	"math"
	"strings"

	ad "github.com/pbenner/autodiff"
)

var logAddFar = [][2]float64{{0, 710}, {710, 0}, {800, 0}, {0, 800}, {-1000, 5}, {5, -1000}, {800, -800}, {-800, 800},
	{1e5, 1}, {1, 1e5}, {0, 100}, {100, 0}, {-745.5, 0.25}, {0.25, -745.5}, {89, 0}, {0, 89}, {-1e300, 1e300}, {1e300, -1e300}}

var logAddInf = [][2]float64{{math.Inf(1), 1}, {1, math.Inf(1)}, {math.Inf(-1), 1}, {1, math.Inf(-1)},
	{math.Inf(1), math.Inf(-1)}, {math.Inf(-1), math.Inf(1)}, {math.Inf(1), math.Inf(1)}, {math.Inf(-1), math.Inf(-1)}}

func logAddExtremeStream(emit func(Case, string)) {
	for _, kind := range []int{K64, K32} {
		for _, conc := range []bool{false, true} {
			for _, alias := range []bool{false, true} {
				for _, xy := range append(append([][2]float64{}, logAddFar...), logAddInf...) {
					p := &prog{regs: map[int]adScalar{0: newMagic(kind, xy[0]), 1: newMagic(kind, xy[1]), 2: newMagic(kind, 0), 3: newMagic(kind, 0)},
						kinds: map[int]int{0: kind, 1: kind, 2: kind, 3: kind}}
					stepCase(p, Instr{Op: "SetVariable", C: 0, I: 0, N: 2, Ord: 2})
					stepCase(p, Instr{Op: "SetVariable", C: 1, I: 1, N: 2, Ord: 2})
					in := Instr{Op: "LogAdd", C: 2, A: 0, B: 1, T: []int{3}, Conc: conc}
					tag := "extreme:LogAdd"
					if alias {
						in.C = 0 // accumulator pattern c.LogAdd(c, b, t)
						tag += "(c=a)"
					}
					if conc {
						tag += "(concrete)"
					}
					emit(stepCase(p, in), tag)
				}
			}
		}
	}
}

// logAddExtremeCheck: one LogAdd site at one pair of operands, all slots anchored.
func logAddExtremeCheck(site string, kind, order int, xs []float64) string {
	if kind == K32 {
		xs = []float64{float64(float32(xs[0])), float64(float32(xs[1]))}
	}
	res, pk := evalOp(site, kind, order, xs, 0, 0)
	if pk != 0 {
		return fmt.Sprintf("panic kind %d on valid operands", pk)
	}
	x, y := xs[0], xs[1]
	val := res.GetFloat64()
	big, small := 0, 1 // index of the larger operand
	if y > x {
		big, small = 1, 0
	}
	if res.GetOrder() != order || res.GetN() != 2 {
		return fmt.Sprintf("result has Order=%d N=%d, expected %d 2", res.GetOrder(), res.GetN(), order)
	}
	if math.IsInf(x, 0) || math.IsInf(y, 0) {
		// ln(e^x + e^y) with an infinite operand is the larger operand
		want := math.Max(x, y)
		if !(val == want) {
			return fmt.Sprintf("value %v, expected %v", val, want)
		}
		if x == y {
			// both operands the same infinity: any convex combination of the two gradients is acceptable, NaN is not
			sum := res.GetDerivative(0) + res.GetDerivative(1)
			if !(math.Abs(sum-1) <= 1e-6) {
				return fmt.Sprintf("d/dx0 + d/dx1 = %v, expected 1", sum)
			}
			return ""
		}
		// the larger operand dominates completely: gradient e_big, Hessian 0
		for i := 0; i < 2; i++ {
			w := 0.0
			if i == big {
				w = 1
			}
			if d := res.GetDerivative(i); !(d == w) {
				return fmt.Sprintf("d/dx%d = %v, expected %v", i, d, w)
			}
			if order >= 2 {
				for j := 0; j < 2; j++ {
					if h := res.GetHessian(i, j); !(h == 0) {
						return fmt.Sprintf("d2/dx%ddx%d = %v, expected 0", i, j, h)
					}
				}
			}
		}
		return ""
	}
	// finite operands: value max + log1p(exp(-|x-y|)), gradient (sigm(x-y), sigm(y-x)), Hessian w [[1,-1],[-1,1]]
	d := math.Abs(x - y)
	want := math.Max(x, y) + math.Log1p(math.Exp(-d))
	eps := 1e-9
	if kind == K32 {
		eps = 2e-5
	}
	if math.IsNaN(val) || math.IsInf(val, 0) || math.Abs(val-want) > eps*(math.Abs(x)+math.Abs(y)+1) {
		return fmt.Sprintf("value %v, closed form %v", val, want)
	}
	e := math.Exp(-d)
	pb := 1 / (1 + e) // weight of the larger operand
	ps := e / (1 + e)
	w := e / ((1 + e) * (1 + e))
	g := [2]float64{}
	g[big], g[small] = pb, ps
	if x == y {
		g[0], g[1] = 0.5, 0.5
	}
	for i := 0; i < 2; i++ {
		if dv := res.GetDerivative(i); math.IsNaN(dv) || math.Abs(dv-g[i]) > 10*eps {
			return fmt.Sprintf("d/dx%d = %v, closed form %v", i, dv, g[i])
		}
		if order >= 2 {
			for j := 0; j < 2; j++ {
				wh := w
				if i != j {
					wh = -w
				}
				if h := res.GetHessian(i, j); math.IsNaN(h) || math.Abs(h-wh) > 100*eps {
					return fmt.Sprintf("d2/dx%ddx%d = %v, closed form %v", i, j, h, wh)
				}
			}
		}
	}
	return ""
}

// anchored points with exact zero components (the scratch scalar of Vnorm / Mnorm / VdotV is reused between
// iterations: at x_i = 0 the coefficient 2 x_i of the square is exactly 0) and LogSmoothMax with far-apart elements
type anchorPt struct {
	site string
	xs   []float64
	par  float64
}

var anchorPts = []anchorPt{
	{"Vnorm", []float64{3, 0, 4}, 0}, {"Vnorm", []float64{0, 3, 4}, 0}, {"Vnorm", []float64{3, 4, 0}, 0}, {"Vnorm", []float64{-2, 0, 0}, 0},
	{"Mnorm", []float64{3, 0, 4}, 0}, {"Mnorm", []float64{0, 3, 4}, 0}, {"Mnorm", []float64{3, 4, 0}, 0},
	{"VdotV", []float64{1.5, 0, 0, 2.5}, 0}, {"VdotV", []float64{0, 2, 3, 0}, 0}, {"VdotV", []float64{0, 0, 0, 0}, 0}, {"VdotV", []float64{1.5, 0, 2.5, 0}, 0},
	{"Vmean", []float64{0, 2, 0}, 0}, {"Mtrace", []float64{0, 0, 5}, 0},
	{"SmoothMax", []float64{0, 1, 2}, 1}, {"SmoothMax", []float64{1, 0, 0}, 0.5},
	{"Mul", []float64{0, 0}, 0}, {"Mul", []float64{0, 2}, 0}, {"Mul(concrete)", []float64{2, 0}, 0}, {"Mul(alias)", []float64{0, 3}, 0},
	{"Div", []float64{0, 2}, 0}, {"PowC", []float64{0}, 2}, {"PowC", []float64{0}, 3},
	{"Cos", []float64{0}, 0}, {"Cosh", []float64{0}, 0}, {"Sin", []float64{0}, 0}, {"Sinh", []float64{0}, 0}, {"Tanh", []float64{0}, 0},
	{"Tan", []float64{0}, 0}, {"Erf", []float64{0}, 0}, {"Logistic", []float64{0}, 0}, {"Exp(alias)", []float64{0}, 0},
	{"LogSmoothMax", []float64{1, 800, 2}, 1}, {"LogSmoothMax", []float64{900, 1, 2}, 1}, {"LogSmoothMax", []float64{3, 1, 2000}, 0.5}, {"LogSmoothMax", []float64{50, 1, 150}, 1},
	{"LogAdd", []float64{2, 2}, 0}, {"LogAdd(alias)", []float64{-1, -1}, 0},
}

func extremeHunt() (hits []HuntHit, count int) {
	seen := map[string]bool{}
	for _, site := range []string{"LogAdd", "LogAdd(concrete)", "LogAdd(alias)"} {
		for _, xy := range append(append([][2]float64{}, logAddFar...), logAddInf...) {
			for _, kind := range []int{K64, K32} {
				for _, order := range []int{1, 2} {
					count++
					if f := logAddExtremeCheck(site, kind, order, xy[:]); f != "" && !seen[site] {
						seen[site] = true
						hits = append(hits, HuntHit{Site: site + "(far operands)", Kind: kind, Order: order, Xs: []float64{xy[0], xy[1]}, Failure: f, Class: "extreme"})
					}
				}
			}
		}
	}
	for _, a := range anchorPts {
		for _, kind := range []int{K64, K32} {
			for _, order := range []int{1, 2} {
				count++
				key := a.site + "@anchor"
				if f := checkPoint(a.site, kind, order, a.xs, a.par, 0); f != "" && !seen[key] {
					seen[key] = true
					hits = append(hits, HuntHit{Site: a.site, Kind: kind, Order: order, Xs: a.xs, Par: a.par, Failure: f, Class: "derivative"})
				}
			}
		}
	}
	return
}

func recheckExtreme(h HuntHit) string {
	return logAddExtremeCheck(strings.TrimSuffix(h.Site, "(far operands)"), h.Kind, h.Order, h.Xs)
}

var _ = ad.NewReal64
