// Receiver = operand aliasing, closed as a CLASS (round 3).
//
// The eight chain-rule combinators of scalar_real{64,32}_derivative.go are textual
// copies of two loops.  Each writes the receiver slot by slot while it reads the
// operands; the result is right for an aliased receiver only because the Hessian
// block runs BEFORE the gradient loop and the value is written last.  A copy in
// which that order is changed computes the right value and gradient, a symmetric
// Hessian, and wrong second partials exactly when (order 2) x (receiver is a
// derivative-carrying operand) x (non-linear operation).  Random programs reach
// that conjunction for a given copy only occasionally, so it is enumerated:
//
//   aliasStream    single-step bit-exact cases: for Real64 and Real32, N = 2 / 3,
//                  order 2 (and 1), EVERY method that reaches a combinator — the
//                  generic one and its concrete twin — with EVERY alias pattern
//                  (fresh receiver, c = a, c = b, c = a = b) on operands whose
//                  gradients are dense, non-zero and not proportional and whose
//                  Hessians are non-zero.
//   inplaceStream  in-place PROGRAMS (x^2 y as c.MUL(c,y); c.MUL(c,x) ...), every
//                  step replayed; the vector / matrix typed element-wise methods
//                  VMULV VDIVV VADDV VSUBV VmulV VdivV MMULM MDIVM MmulM in place,
//                  one single-step case per element.
//   aliasHunt      property-level oracle (no model): the same enumeration and the
//                  in-place programs evaluated by an independent, immutable
//                  forward-mode jet arithmetic (no receivers, hence no aliasing)
//                  and, for the named programs, by their symbolic second derivatives.
package main

import (
	"fmt"
	"math"
	"sort"
	"strings"

	ad "github.com/pbenner/autodiff"
)

const (
	idA = 30 // operand with dense gradient / Hessian
	idB = 31 // second operand, gradient not proportional to idA's
	idK = 32 // magic scalar of order 0 (constant exponent of the concrete POW)
	idP = 33 // ConstFloat64 exponent
	idT = 34 // temporary of LogAdd / LogSub / Sigmoid
)

// operand jets: dyadic rationals that are exact in binary32, symmetric Hessians
func operandSnap(kind, order, n int, which int) RegSnap {
	r := RegSnap{Kind: kind, Order: order, N: n, D: []float64{}, H: [][]float64{}}
	if which == 0 {
		r.Val = 1.5
	} else {
		r.Val = 2.25
	}
	if order >= 1 {
		for i := 0; i < n; i++ {
			if which == 0 {
				r.D = append(r.D, 0.5+0.25*float64(i))
			} else {
				r.D = append(r.D, []float64{1, -0.25, 0.5, 2}[i%4])
			}
		}
	}
	if order >= 2 {
		for i := 0; i < n; i++ {
			row := []float64{}
			for j := 0; j < n; j++ {
				if which == 0 {
					row = append(row, 0.125*float64(1+i+j))
				} else {
					v := 0.0625 * float64(2+i*j)
					if i == j {
						v -= 0.5
					}
					row = append(row, v)
				}
			}
			r.H = append(r.H, row)
		}
	}
	return r
}

func aliasProg(kind, order, n int) *prog {
	p := &prog{regs: map[int]ad.ConstScalar{}, kinds: map[int]int{}}
	put := func(id int, s RegSnap) {
		p.regs[id] = restore(s)
		p.kinds[id] = kind
	}
	vals := []float64{1.5, 2.25, 0.75, 1.25}
	for i := 0; i < n; i++ {
		put(i, varSnap(kind, order, n, i, vals[i]))
	}
	put(idA, operandSnap(kind, order, n, 0))
	put(idB, operandSnap(kind, order, n, 1))
	put(idC, RegSnap{Kind: kind, D: []float64{}, H: [][]float64{}})
	put(idT, RegSnap{Kind: kind, D: []float64{}, H: [][]float64{}})
	put(idK, RegSnap{Kind: kind, Val: 2.5, D: []float64{}, H: [][]float64{}})
	p.regs[idP] = ad.ConstFloat64(2.5)
	p.kinds[idP] = KBare
	return p
}

type aliasSite struct {
	in   Instr
	name string // op(+concrete),pattern
}

var aliasMon = []Instr{
	{Op: "Neg"}, {Op: "Sin"}, {Op: "Sinh"}, {Op: "Cos"}, {Op: "Cosh"}, {Op: "Tan"}, {Op: "Tanh"}, {Op: "Exp"}, {Op: "Log"},
	{Op: "Log1p"}, {Op: "Erf"}, {Op: "Erfc"}, {Op: "LogErfc"}, {Op: "Gamma"}, {Op: "Lgamma"}, {Op: "Mlgamma", K: 2},
	{Op: "GammaP", Par: 1.5}, {Op: "BesselI", Par: 1}, {Op: "LogBesselI", Par: 1}, {Op: "Sqrt"}, {Op: "Log1pExp"},
	{Op: "Logistic"}, {Op: "Sigmoid", T: []int{idT}}, {Op: "Abs"}, {Op: "Set"},
	{Op: "Pow", B: idP}, // constant exponent: monadicLazy
	{Op: "Pow", B: idK}, // exponent a magic scalar of order 0: monadicLazy / realMonadicLazy
}
var aliasDy = []Instr{
	{Op: "Add"}, {Op: "Sub"}, {Op: "Mul"}, {Op: "Div"}, {Op: "Pow"}, {Op: "Min"}, {Op: "Max"},
	{Op: "LogAdd", T: []int{idT}}, {Op: "LogSub", T: []int{idT}},
}

// aliasSites enumerates (method, generic/concrete, alias pattern).
func aliasSites() []aliasSite {
	var out []aliasSite
	for _, base := range aliasMon {
		for _, conc := range []bool{false, true} {
			if conc && (!concTwin[base.Op] || base.B == idP) {
				continue
			}
			for _, pat := range []string{"fresh", "c=a"} {
				in := base
				in.Conc = conc
				in.A = idA
				in.C = idC
				if pat == "c=a" {
					in.C = idA
				}
				nm := in.Op
				if in.Op == "Pow" {
					nm = fmt.Sprintf("PowC[%d]", in.B)
				}
				if conc {
					nm += "(concrete)"
				}
				out = append(out, aliasSite{in, nm + "," + pat})
			}
		}
	}
	for _, base := range aliasDy {
		for _, conc := range []bool{false, true} {
			for _, pat := range []string{"fresh", "c=a", "c=b", "c=a=b"} {
				in := base
				in.Conc = conc
				in.A, in.B, in.C = idA, idB, idC
				switch pat {
				case "c=a":
					in.C = idA
				case "c=b":
					in.C = idB
				case "c=a=b":
					in.C, in.B = idA, idA
				}
				nm := in.Op
				if conc {
					nm += "(concrete)"
				}
				out = append(out, aliasSite{in, nm + "," + pat})
			}
		}
	}
	return out
}

var aliasShapes = [][2]int{{2, 2}, {2, 3}, {1, 2}} // (order, N)

func aliasStream(emit func(Case, string)) {
	for _, kind := range []int{K64, K32} {
		for _, on := range aliasShapes {
			for _, st := range aliasSites() {
				p := aliasProg(kind, on[0], on[1])
				emit(stepCase(p, st.in), "alias:"+st.name)
			}
		}
	}
}

// ---------------------------------------------------------------- in-place programs

type ipStep struct {
	op      string
	c, a, b int
}
type ipProg struct {
	name  string
	nvar  int
	steps []ipStep
	// symbolic value / gradient / Hessian of the final content of register idC (nil: jet arithmetic only)
	sym func(x []float64) (float64, []float64, [][]float64)
}

var ipProgs = []ipProg{
	{"x^2*y", 2, []ipStep{{"Set", idC, 0, 0}, {"Mul", idC, idC, 1}, {"Mul", idC, idC, 0}},
		func(x []float64) (float64, []float64, [][]float64) {
			return x[0] * x[0] * x[1], []float64{2 * x[0] * x[1], x[0] * x[0]}, [][]float64{{2 * x[1], 2 * x[0]}, {2 * x[0], 0}}
		}},
	{"x^2", 2, []ipStep{{"Set", idC, 0, 0}, {"Mul", idC, idC, idC}},
		func(x []float64) (float64, []float64, [][]float64) {
			return x[0] * x[0], []float64{2 * x[0], 0}, [][]float64{{2, 0}, {0, 0}}
		}},
	{"x^4", 2, []ipStep{{"Set", idC, 0, 0}, {"Mul", idC, idC, idC}, {"Mul", idC, idC, idC}},
		func(x []float64) (float64, []float64, [][]float64) {
			return math.Pow(x[0], 4), []float64{4 * math.Pow(x[0], 3), 0}, [][]float64{{12 * x[0] * x[0], 0}, {0, 0}}
		}},
	{"y*x*x(c=b)", 2, []ipStep{{"Set", idC, 0, 0}, {"Mul", idC, 1, idC}, {"Mul", idC, 0, idC}},
		func(x []float64) (float64, []float64, [][]float64) {
			return x[0] * x[0] * x[1], []float64{2 * x[0] * x[1], x[0] * x[0]}, [][]float64{{2 * x[1], 2 * x[0]}, {2 * x[0], 0}}
		}},
	{"x/y/y", 2, []ipStep{{"Set", idC, 0, 0}, {"Div", idC, idC, 1}, {"Div", idC, idC, 1}},
		func(x []float64) (float64, []float64, [][]float64) {
			y := x[1]
			return x[0] / (y * y), []float64{1 / (y * y), -2 * x[0] / (y * y * y)},
				[][]float64{{0, -2 / (y * y * y)}, {-2 / (y * y * y), 6 * x[0] / (y * y * y * y)}}
		}},
	{"x/(x/y)(c=b)", 2, []ipStep{{"Set", idC, 1, 0}, {"Div", idC, 0, idC}, {"Div", idC, 0, idC}},
		func(x []float64) (float64, []float64, [][]float64) { // x / (x / y) = y
			return x[1], []float64{0, 1}, [][]float64{{0, 0}, {0, 0}}
		}},
	{"1/x(c=a=b)", 2, []ipStep{{"Set", idC, 0, 0}, {"Mul", idC, idC, idC}, {"Div", idC, 0, idC}},
		func(x []float64) (float64, []float64, [][]float64) { // x / x^2
			return 1 / x[0], []float64{-1 / (x[0] * x[0]), 0}, [][]float64{{2 / (x[0] * x[0] * x[0]), 0}, {0, 0}}
		}},
	{"(x*y)^y", 2, []ipStep{{"Set", idC, 0, 0}, {"Mul", idC, idC, 1}, {"Pow", idC, idC, 1}}, nil},
	{"y^(x*y)(c=b)", 2, []ipStep{{"Set", idC, 0, 0}, {"Mul", idC, idC, 1}, {"Pow", idC, 1, idC}}, nil},
	{"x^x", 2, []ipStep{{"Set", idC, 0, 0}, {"Pow", idC, idC, idC}},
		func(x []float64) (float64, []float64, [][]float64) {
			v := math.Pow(x[0], x[0])
			l := math.Log(x[0]) + 1
			return v, []float64{v * l, 0}, [][]float64{{v * (l*l + 1/x[0]), 0}, {0, 0}}
		}},
	{"exp(x*y)", 2, []ipStep{{"Mul", idC, 0, 1}, {"Exp", idC, idC, 0}},
		func(x []float64) (float64, []float64, [][]float64) {
			e := math.Exp(x[0] * x[1])
			return e, []float64{x[1] * e, x[0] * e}, [][]float64{{x[1] * x[1] * e, (1 + x[0]*x[1]) * e}, {(1 + x[0]*x[1]) * e, x[0] * x[0] * e}}
		}},
	{"log(exp(x*y))", 2, []ipStep{{"Mul", idC, 0, 1}, {"Exp", idC, idC, 0}, {"Log", idC, idC, 0}},
		func(x []float64) (float64, []float64, [][]float64) {
			return x[0] * x[1], []float64{x[1], x[0]}, [][]float64{{0, 1}, {1, 0}}
		}},
	{"sqrt(x*y)", 2, []ipStep{{"Mul", idC, 0, 1}, {"Sqrt", idC, idC, 0}},
		func(x []float64) (float64, []float64, [][]float64) {
			r := math.Sqrt(x[0] * x[1])
			return r, []float64{x[1] / (2 * r), x[0] / (2 * r)},
				[][]float64{{-x[1] * x[1] / (4 * r * r * r), 1/(2*r) - x[0]*x[1]/(4*r*r*r)}, {1/(2*r) - x[0]*x[1]/(4*r*r*r), -x[0] * x[0] / (4 * r * r * r)}}
		}},
	{"-(x*y)+x*x*z", 3, []ipStep{{"Mul", idC, 0, 1}, {"Neg", idC, idC, 0}, {"Mul", idT, 0, 0}, {"Mul", idT, idT, 2}, {"Add", idC, idC, idT}},
		func(x []float64) (float64, []float64, [][]float64) {
			return -x[0]*x[1] + x[0]*x[0]*x[2], []float64{-x[1] + 2*x[0]*x[2], -x[0], x[0] * x[0]},
				[][]float64{{2 * x[2], -1, 2 * x[0]}, {-1, 0, 0}, {2 * x[0], 0, 0}}
		}},
	{"sin(x*y)*(x*y)", 2, []ipStep{{"Mul", idT, 0, 1}, {"Sin", idC, idT, 0}, {"Mul", idC, idC, idT}}, nil},
	{"log1p(x*y)-x", 2, []ipStep{{"Mul", idC, 0, 1}, {"Log1p", idC, idC, 0}, {"Sub", idC, idC, 0}}, nil},
	{"(x*y)^2.5", 2, []ipStep{{"Mul", idC, 0, 1}, {"Pow", idC, idC, idK}}, nil},
}

// concrete twins exist for these step operations
var ipConc = map[string]bool{"Set": true, "Mul": true, "Div": true, "Add": true, "Sub": true, "Pow": true, "Exp": true, "Log": true,
	"Log1p": true, "Sqrt": true, "Neg": true}

func ipInstr(st ipStep, conc bool) Instr {
	return Instr{Op: st.op, C: st.c, A: st.a, B: st.b, Conc: conc && ipConc[st.op]}
}

func ipRegs(kind, order int, xs []float64) *prog {
	n := len(xs)
	p := &prog{regs: map[int]ad.ConstScalar{}, kinds: map[int]int{}}
	vars := []ad.MagicScalar{}
	for i, x := range xs {
		m := newMagic(kind, x).(ad.MagicScalar)
		p.regs[i] = m
		p.kinds[i] = kind
		vars = append(vars, m)
	}
	ad.Variables(order, vars...)
	for _, id := range []int{idC, idT} {
		p.regs[id] = newMagic(kind, 0)
		p.kinds[id] = kind
	}
	p.regs[idK] = newMagic(kind, 2.5)
	p.kinds[idK] = kind
	_ = n
	return p
}

var ipPoint = []float64{1.5, 2.25, 0.75}

func inplaceStream(emit func(Case, string)) {
	for _, kind := range []int{K64, K32} {
		for _, conc := range []bool{false, true} {
			for _, pr := range ipProgs {
				p := ipRegs(kind, 2, ipPoint[:pr.nvar])
				for _, st := range pr.steps {
					in := ipInstr(st, conc)
					tag := "inplace:" + pr.name
					if in.Conc {
						tag += "(concrete)"
					}
					emit(stepCase(p, in), tag)
				}
			}
			vecStream(kind, conc, emit)
		}
	}
}

// ---------------------------------------------------------------- vector / matrix typed element-wise methods in place
// w = (x, y, x*y), v = (y, x, x): w.VMULV(w, v) etc.  The library loops  r.AT(i).MUL(a.AT(i), b.AT(i));
// every element becomes one single-step case  IDy op w_i a_i b_i  from Go's own states.

type vecOp struct {
	name string // method
	op   string // scalar operation per element
	pat  string // "r=a" | "r=b" | "r=a=b"
}

var vecOps = []vecOp{
	{"VMULV", "Mul", "r=a"}, {"VMULV", "Mul", "r=b"}, {"VMULV", "Mul", "r=a=b"}, {"VDIVV", "Div", "r=a"}, {"VDIVV", "Div", "r=b"},
	{"VADDV", "Add", "r=a"}, {"VSUBV", "Sub", "r=b"}, {"MMULM", "Mul", "r=a"}, {"MMULM", "Mul", "r=b"}, {"MDIVM", "Div", "r=a"},
}

const idW = 40 // w_i = idW + i, v_i = idW + 10 + i

func vecRegs(kind, order int, xs []float64) *prog {
	p := ipRegs(kind, order, xs)
	mk := func(id int, build func(c ad.Scalar)) {
		c := newMagic(kind, 0).(ad.Scalar)
		build(c)
		p.regs[id] = c
		p.kinds[id] = kind
	}
	x, y := p.regs[0], p.regs[1]
	mk(idW+0, func(c ad.Scalar) { c.Set(x) })
	mk(idW+1, func(c ad.Scalar) { c.Set(y) })
	mk(idW+2, func(c ad.Scalar) { c.Mul(x, y) })
	mk(idW+3, func(c ad.Scalar) { c.Div(x, y) })
	mk(idW+10, func(c ad.Scalar) { c.Set(y) })
	mk(idW+11, func(c ad.Scalar) { c.Set(x) })
	mk(idW+12, func(c ad.Scalar) { c.Set(x) })
	mk(idW+13, func(c ad.Scalar) { c.Mul(y, y) })
	return p
}

// runVec calls the typed method on the vectors / 2x2 matrices built from the registers.
func runVec(p *prog, kind int, vo vecOp, conc bool) (rIds, aIds, bIds []int, pk int) {
	w := []int{idW, idW + 1, idW + 2, idW + 3}
	v := []int{idW + 10, idW + 11, idW + 12, idW + 13}
	rIds, aIds, bIds = w, w, v
	switch vo.pat {
	case "r=b":
		aIds, bIds = v, w
	case "r=a=b":
		bIds = w
	}
	defer func() { pk = classify(recover()) }()
	if kind == K64 {
		vec := func(ids []int) ad.DenseReal64Vector {
			o := ad.DenseReal64Vector{}
			for _, i := range ids {
				o = append(o, p.regs[i].(*ad.Real64))
			}
			return o
		}
		mat := func(ids []int) *ad.DenseReal64Matrix { return vec(ids).ToDenseReal64Matrix(2, 2) }
		r, a, b := vec(rIds), vec(aIds), vec(bIds)
		switch vo.name {
		case "VMULV":
			if conc {
				r.VMULV(a, b)
			} else {
				r.VmulV(a, b)
			}
		case "VDIVV":
			if conc {
				r.VDIVV(a, b)
			} else {
				r.VdivV(a, b)
			}
		case "VADDV":
			if conc {
				r.VADDV(a, b)
			} else {
				r.VaddV(a, b)
			}
		case "VSUBV":
			if conc {
				r.VSUBV(a, b)
			} else {
				r.VsubV(a, b)
			}
		case "MMULM":
			if conc {
				mat(rIds).MMULM(mat(aIds), mat(bIds))
			} else {
				mat(rIds).MmulM(mat(aIds), mat(bIds))
			}
		case "MDIVM":
			if conc {
				mat(rIds).MDIVM(mat(aIds), mat(bIds))
			} else {
				mat(rIds).MdivM(mat(aIds), mat(bIds))
			}
		}
		return
	}
	vec := func(ids []int) ad.DenseReal32Vector {
		o := ad.DenseReal32Vector{}
		for _, i := range ids {
			o = append(o, p.regs[i].(*ad.Real32))
		}
		return o
	}
	mat := func(ids []int) *ad.DenseReal32Matrix { return vec(ids).ToDenseReal32Matrix(2, 2) }
	r, a, b := vec(rIds), vec(aIds), vec(bIds)
	switch vo.name {
	case "VMULV":
		if conc {
			r.VMULV(a, b)
		} else {
			r.VmulV(a, b)
		}
	case "VDIVV":
		if conc {
			r.VDIVV(a, b)
		} else {
			r.VdivV(a, b)
		}
	case "VADDV":
		if conc {
			r.VADDV(a, b)
		} else {
			r.VaddV(a, b)
		}
	case "VSUBV":
		if conc {
			r.VSUBV(a, b)
		} else {
			r.VsubV(a, b)
		}
	case "MMULM":
		if conc {
			mat(rIds).MMULM(mat(aIds), mat(bIds))
		} else {
			mat(rIds).MmulM(mat(aIds), mat(bIds))
		}
	case "MDIVM":
		if conc {
			mat(rIds).MDIVM(mat(aIds), mat(bIds))
		} else {
			mat(rIds).MdivM(mat(aIds), mat(bIds))
		}
	}
	return
}

func vecStream(kind int, conc bool, emit func(Case, string)) {
	for _, vo := range vecOps {
		p := vecRegs(kind, 2, ipPoint[:2])
		all := []int{}
		for i := 0; i < 4; i++ {
			all = append(all, idW+i, idW+10+i)
		}
		pre := map[int]RegSnap{}
		for _, id := range all {
			pre[id] = snap(p.regs[id])
		}
		rIds, aIds, bIds, pk := runVec(p, kind, vo, conc)
		if pk != 0 {
			// a panic of the whole call: report it as a case of the first element so that the model (which returns) disagrees
			pk = 3
		}
		for i := range rIds {
			in := Instr{Op: vo.op, C: rIds[i], A: aIds[i], B: bIds[i], Conc: conc}
			ids := in.regsUsed()
			sort.Ints(ids[1:])
			c := Case{Ids: ids, Ins: in, Kind: pk, Frame: true}
			for _, id := range ids {
				c.Pre = append(c.Pre, pre[id])
				post := snap(p.regs[id])
				c.Post = append(c.Post, post)
				if id != in.C && !snapEq(pre[id], post) {
					c.Frame = false
				}
			}
			if pk != 0 {
				c.Kind = 2 // never matches: the model returns
			}
			tag := "inplace:" + vo.name + "(generic twin)," + vo.pat
			if conc {
				tag = "inplace:" + vo.name + "," + vo.pat
			}
			emit(c, tag)
		}
	}
}

// ---------------------------------------------------------------- independent jet arithmetic (immutable values)

type hj struct {
	v float64
	g []float64
	h [][]float64
}

func hjZero(n int) hj {
	j := hj{g: make([]float64, n), h: make([][]float64, n)}
	for i := range j.h {
		j.h[i] = make([]float64, n)
	}
	return j
}
func hjOf(s ad.ConstScalar, n int) hj {
	j := hjZero(n)
	j.v = s.GetFloat64()
	if s.GetOrder() >= 1 {
		for i := 0; i < n && i < s.GetN(); i++ {
			j.g[i] = s.GetDerivative(i)
		}
	}
	if s.GetOrder() >= 2 {
		for i := 0; i < n && i < s.GetN(); i++ {
			for k := 0; k < n && k < s.GetN(); k++ {
				j.h[i][k] = s.GetHessian(i, k)
			}
		}
	}
	return j
}
func hjMon(a hj, f0, f1, f2 float64) hj {
	n := len(a.g)
	r := hjZero(n)
	r.v = f0
	for i := 0; i < n; i++ {
		r.g[i] = a.g[i] * f1
		for k := 0; k < n; k++ {
			r.h[i][k] = a.g[i]*a.g[k]*f2 + a.h[i][k]*f1
		}
	}
	return r
}
func hjDy(a, b hj, f0, f10, f01, f11, f20, f02 float64) hj {
	n := len(a.g)
	r := hjZero(n)
	r.v = f0
	for i := 0; i < n; i++ {
		r.g[i] = a.g[i]*f10 + b.g[i]*f01
		for k := 0; k < n; k++ {
			r.h[i][k] = a.h[i][k]*f10 + b.h[i][k]*f01 + a.g[i]*a.g[k]*f20 + b.g[i]*b.g[k]*f02 + (a.g[i]*b.g[k]+b.g[i]*a.g[k])*f11
		}
	}
	return r
}

// hjApply: the jet of op applied to operand jets (nil, false: no independent reference for this op here)
func hjApply(in *Instr, a, b hj, bOrder int) (hj, bool) {
	switch in.Op {
	case "Add", "Sub", "Mul", "Div":
		v0, f10, f01, f11, f20, f02 := dyRef(nil, in.Op, a.v, b.v)
		return hjDy(a, b, v0, f10, f01, f11, f20, f02), true
	case "Pow":
		if bOrder >= 1 {
			v0, f10, f01, f11, f20, f02 := dyRef(nil, "PowV", a.v, b.v)
			return hjDy(a, b, v0, f10, f01, f11, f20, f02), true
		}
		v0, f1, f2 := monRef(nil, "PowC", b.v, 0, a.v)
		return hjMon(a, v0, f1, f2), true
	case "Sqrt":
		r := math.Sqrt(a.v)
		return hjMon(a, r, 0.5/r, -0.25/(r*a.v)), true
	case "Set":
		return a, true
	case "Abs":
		if a.v < 0 {
			return hjMon(a, -a.v, -1, 0), true
		}
		if a.v > 0 {
			return a, true
		}
		return hj{}, false
	case "Min":
		if a.v < b.v {
			return a, true
		}
		return b, true
	case "Max":
		if a.v > b.v {
			return a, true
		}
		return b, true
	case "Logistic", "Sigmoid":
		s := sig(a.v)
		return hjMon(a, s, s*(1-s), s*(1-s)*(1-2*s)), true
	case "Log1pExp":
		s := sig(a.v)
		return hjMon(a, math.Log1p(math.Exp(a.v)), s, s*(1-s)), true
	case "LogAdd":
		x, y := a.v, b.v
		m := math.Max(x, y)
		p := sig(x - y)
		w := p * (1 - p)
		return hjDy(a, b, m+math.Log(math.Exp(x-m)+math.Exp(y-m)), p, 1-p, -w, w, w), true
	case "LogSub":
		x, y := a.v, b.v
		if !(x > y) {
			return hj{}, false
		}
		e := math.Exp(y - x)
		u := 1 / (1 - e)
		w := e / ((1 - e) * (1 - e))
		return hjDy(a, b, x+math.Log1p(-e), u, 1-u, w, -w, -w), true
	}
	if certOrMon[in.Op] {
		v0, f1, f2 := monRef(nil, in.Op, in.Par, in.K, a.v)
		return hjMon(a, v0, f1, f2), true
	}
	return hj{}, false
}

// hjCompare: "" or a description of the first slot of res that differs from the expected jet
func hjCompare(res ad.ConstScalar, want hj, kind, order, n int) string {
	rel := 1e-11
	if kind == K32 {
		rel = 2e-4
	}
	scale := math.Abs(want.v)
	for i := 0; i < n; i++ {
		scale = math.Max(scale, math.Abs(want.g[i]))
		for k := 0; k < n; k++ {
			scale = math.Max(scale, math.Abs(want.h[i][k]))
		}
	}
	bad := func(a, b float64) bool {
		if math.IsNaN(b) || math.IsInf(b, 0) {
			return false
		}
		if math.IsNaN(a) || math.IsInf(a, 0) {
			return true
		}
		return math.Abs(a-b) > rel*(math.Abs(a)+math.Abs(b)+scale)
	}
	if math.IsNaN(want.v) || math.IsInf(want.v, 0) {
		return ""
	}
	if res.GetOrder() != order || res.GetN() != n {
		return fmt.Sprintf("result has Order=%d N=%d, expected %d %d", res.GetOrder(), res.GetN(), order, n)
	}
	if bad(res.GetFloat64(), want.v) {
		return fmt.Sprintf("value %v, expected %v", res.GetFloat64(), want.v)
	}
	for i := 0; i < n; i++ {
		if bad(res.GetDerivative(i), want.g[i]) {
			return fmt.Sprintf("d/dx%d = %v, expected %v", i, res.GetDerivative(i), want.g[i])
		}
	}
	if order >= 2 {
		for i := 0; i < n; i++ {
			for k := 0; k < n; k++ {
				if bad(res.GetHessian(i, k), want.h[i][k]) {
					return fmt.Sprintf("d2/dx%ddx%d = %v, expected %v", i, k, res.GetHessian(i, k), want.h[i][k])
				}
			}
		}
	}
	return ""
}

// aliasCheck: one enumerated (method, pattern) against the chain rule applied to the operand jets as they were BEFORE the call
func aliasCheck(name string, kind, order, n int) string {
	for _, st := range aliasSites() {
		if st.name != name {
			continue
		}
		p := aliasProg(kind, order, n)
		in := st.in
		a := hjOf(p.regs[in.A], n)
		b := hjOf(p.regs[in.B], n)
		bOrder := p.regs[in.B].GetOrder()
		want, ok := hjApply(&in, a, b, bOrder)
		if !ok {
			return ""
		}
		if pk := execGo(p.regs, &in); pk != 0 {
			return fmt.Sprintf("panic kind %d", pk)
		}
		return hjCompare(p.regs[in.C], want, kind, order, n)
	}
	return "unknown alias site " + name
}

// ipCheck: an in-place program at a point against (i) the jet arithmetic on immutable values, (ii) its symbolic derivatives
func ipCheck(name string, kind int, conc bool, xs []float64) string {
	for _, pr := range ipProgs {
		if pr.name != name {
			continue
		}
		xs = append([]float64{}, xs[:pr.nvar]...)
		if kind == K32 {
			for i := range xs {
				xs[i] = float64(float32(xs[i]))
			}
		}
		n := pr.nvar
		p := ipRegs(kind, 2, xs)
		js := map[int]hj{}
		for id, r := range p.regs {
			js[id] = hjOf(r, n)
		}
		for _, st := range pr.steps {
			in := ipInstr(st, conc)
			bo := 0
			if st.op == "Pow" && st.b != idK {
				bo = 2
			}
			w, ok := hjApply(&in, js[st.a], js[st.b], bo)
			if !ok {
				return ""
			}
			js[st.c] = w
			if pk := execGo(p.regs, &in); pk != 0 {
				return fmt.Sprintf("panic kind %d in step %s", pk, st.op)
			}
		}
		if f := hjCompare(p.regs[idC], js[idC], kind, 2, n); f != "" {
			return f + " (forward-mode arithmetic on immutable jets)"
		}
		if pr.sym != nil {
			v, g, h := pr.sym(xs)
			if f := hjCompare(p.regs[idC], hj{v, g, h}, kind, 2, n); f != "" {
				return f + " (symbolic derivative)"
			}
		}
		return ""
	}
	return "unknown program " + name
}

// vecCheck: the typed element-wise methods in place against the jet arithmetic on the elements before the call
func vecCheck(name string, kind int, conc bool, xs []float64) string {
	for _, vo := range vecOps {
		if vo.name+","+vo.pat != name {
			continue
		}
		if kind == K32 {
			xs = []float64{float64(float32(xs[0])), float64(float32(xs[1]))}
		}
		p := vecRegs(kind, 2, xs[:2])
		js := map[int]hj{}
		for id, r := range p.regs {
			js[id] = hjOf(r, 2)
		}
		rIds, aIds, bIds, pk := runVec(p, kind, vo, conc)
		if pk != 0 {
			return fmt.Sprintf("panic kind %d", pk)
		}
		for i := range rIds {
			in := Instr{Op: vo.op}
			want, _ := hjApply(&in, js[aIds[i]], js[bIds[i]], 0)
			if f := hjCompare(p.regs[rIds[i]], want, kind, 2, 2); f != "" {
				return fmt.Sprintf("element %d: %s", i, f)
			}
		}
		return ""
	}
	return "unknown vector site " + name
}

func concTag(conc bool) string {
	if conc {
		return "(concrete)"
	}
	return ""
}

// aliasHunt runs the whole enumeration; a hit is already minimal (one call / one short program at one point).
func aliasHunt(seed uint64, npts int) (hits []HuntHit, count int) {
	seen := map[string]bool{}
	add := func(h HuntHit) {
		if !seen[h.Site] {
			seen[h.Site] = true
			hits = append(hits, h)
		}
	}
	for _, st := range aliasSites() {
		for _, kind := range []int{K64, K32} {
			for _, on := range aliasShapes {
				count++
				if f := aliasCheck(st.name, kind, on[0], on[1]); f != "" {
					add(HuntHit{Site: "alias:" + st.name, Kind: kind, Order: on[0], K: on[1], Failure: f, Class: "alias"})
				}
			}
		}
	}
	r := newPointRng(seed)
	if npts > 6 {
		npts = 6
	}
	var pts [][]float64
	pts = append(pts, ipPoint)
	for i := 0; i < npts; i++ {
		pts = append(pts, []float64{0.3 + 2.5*r(), 0.3 + 2.5*r(), 0.3 + 2.5*r()})
	}
	for _, kind := range []int{K64, K32} {
		for _, conc := range []bool{false, true} {
			for _, xs := range pts {
				for _, pr := range ipProgs {
					count++
					if f := ipCheck(pr.name, kind, conc, xs); f != "" {
						add(HuntHit{Site: "inplace:" + pr.name + concTag(conc), Kind: kind, Order: 2, Xs: xs[:pr.nvar], Failure: f, Class: "inplace"})
					}
				}
				for _, vo := range vecOps {
					count++
					if f := vecCheck(vo.name+","+vo.pat, kind, conc, xs); f != "" {
						add(HuntHit{Site: "inplace:" + vo.name + "," + vo.pat + concTag(conc), Kind: kind, Order: 2, Xs: xs[:2], Failure: f, Class: "inplace-vec"})
					}
				}
			}
		}
	}
	return
}

func newPointRng(seed uint64) func() float64 {
	s := seed*0x9E3779B97F4A7C15 + 0xA11A5
	return func() float64 {
		s += 0x9E3779B97F4A7C15
		z := s
		z = (z ^ (z >> 30)) * 0xBF58476D1CE4E5B9
		z = (z ^ (z >> 27)) * 0x94D049BB133111EB
		z ^= z >> 31
		return float64(z>>11) / float64(1<<53)
	}
}

// recheckAlias re-executes a reported alias / in-place hit.
func recheckAlias(h HuntHit) string {
	switch h.Class {
	case "alias":
		return aliasCheck(strings.TrimPrefix(h.Site, "alias:"), h.Kind, h.Order, h.K)
	case "inplace":
		nm := strings.TrimPrefix(h.Site, "inplace:")
		conc := strings.HasSuffix(nm, "(concrete)")
		return ipCheck(strings.TrimSuffix(nm, "(concrete)"), h.Kind, conc, h.Xs)
	case "inplace-vec":
		nm := strings.TrimPrefix(h.Site, "inplace:")
		conc := strings.HasSuffix(nm, "(concrete)")
		return vecCheck(strings.TrimSuffix(nm, "(concrete)"), h.Kind, conc, h.Xs)
	}
	return ""
}
