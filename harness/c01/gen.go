// Random register-file programs (expression DAGs with temporaries reused,
// receiver/operand aliasing, mixed Real64 / Real32 / plain operands, orders
// 0/1/2, N in 1..4) executed on the real library; every step becomes one
// single-step case (Go's own state before, the instruction, the oracle of the
// libm calls, Go's state after).
package main

import (
	"fmt"
	"math"
	"sort"

	. "adharness/common"

	ad "github.com/pbenner/autodiff"
)

type Case struct {
	Ids  []int     `json:"ids"`
	Pre  []RegSnap `json:"pre"`
	Ins  Instr     `json:"ins"`
	Orc  []OEnt    `json:"orc"`
	Kind int       `json:"kind"`
	Post []RegSnap `json:"post"` // same ids as Pre
	// operands that must be unchanged are checked in Go already (Frame)
	Frame bool `json:"frame"`
}

var specialVals = []float64{0, math.Copysign(0, -1), 1, -1, 0.5, 2, -2, 3, 1e-300, 1e300, 5e-324, math.Inf(1), math.Inf(-1), math.NaN(),
	-37, math.Nextafter(-37, 0), math.Nextafter(-37, -100), 18, math.Nextafter(18, 0), math.Nextafter(18, 100),
	33.3, math.Nextafter(33.3, 0), math.Nextafter(33.3, 100), 700, -700, 1e-8, 16777217, 0.1, 1.0000001}

func genValue(r *Rng) float64 {
	switch r.Pick([]int{50, 25, 10, 15}) {
	case 0:
		return (r.Float()*2 - 1) * 3
	case 1:
		return 0.05 + r.Float()*5
	case 2:
		return math.Ldexp(r.Float()+0.5, r.Range(-40, 40)) * float64(1-2*r.Intn(2))
	}
	return specialVals[r.Intn(len(specialVals))]
}

var monOps = []string{"Neg", "Sin", "Sinh", "Cos", "Cosh", "Tan", "Tanh", "Exp", "Log", "Log1p", "Erf", "Erfc", "LogErfc",
	"Gamma", "Lgamma", "Mlgamma", "GammaP", "BesselI", "LogBesselI", "Sqrt", "Log1pExp", "Logistic", "Abs", "Set"}
var dyOps = []string{"Add", "Sub", "Mul", "Div", "Pow", "Min", "Max"}
var concTwin = map[string]bool{"Neg": true, "Add": true, "Sub": true, "Mul": true, "Div": true, "Pow": true, "Sqrt": true,
	"Exp": true, "Log": true, "Log1p": true, "Min": true, "Max": true, "Abs": true, "Set": true, "LogAdd": true, "LogSub": true}

type prog struct {
	regs  map[int]ad.ConstScalar
	magic []int // ids of Real registers
	bare  []int
	kinds map[int]int
}

func newMagic(kind int, v float64) ad.ConstScalar {
	if kind == K32 {
		return ad.NewReal32(float32(v))
	}
	return ad.NewReal64(v)
}

// stepCase executes one instruction on the program's registers and records the case.
func stepCase(p *prog, in Instr) Case {
	in.ParJ = JF(in.Par)
	ids := in.regsUsed()
	sort.Ints(ids[1:])
	pre := make([]RegSnap, len(ids))
	prem := map[int]RegSnap{}
	for i, id := range ids {
		pre[i] = snap(p.regs[id])
		prem[id] = pre[i]
	}
	o := &Orc{}
	func() {
		defer func() { recover() }() // special functions may panic outside their domain; Go's call then panics too (kind 3)
		shadow(o, &in, prem)
	}()
	kind := execGo(p.regs, &in)
	post := make([]RegSnap, len(ids))
	frame := true
	wr := map[int]bool{}
	for _, w := range in.written() {
		wr[w] = true
	}
	for i, id := range ids {
		post[i] = snap(p.regs[id])
		if !wr[id] && !snapEq(pre[i], post[i]) {
			frame = false
		}
	}
	return Case{Ids: ids, Pre: pre, Ins: in, Orc: o.ents, Kind: kind, Post: post, Frame: frame}
}

func coqCase(c Case) string {
	o := &Orc{ents: c.Orc}
	post := coqRegs(c.Ids, c.Post)
	if c.Kind != 0 {
		post = "[]"
	}
	return fmt.Sprintf("(mkCase %s %s %s %d %s)", coqRegs(c.Ids, c.Pre), c.Ins.Coq(), o.Coq(), c.Kind, post)
}

func (p *prog) kindOf(id int) int { return p.kinds[id] }
func (p *prog) sameKindMagic(ids ...int) bool {
	k := -1
	for _, id := range ids {
		kk := p.kinds[id]
		if kk == KBare {
			return false
		}
		if k >= 0 && kk != k {
			return false
		}
		k = kk
	}
	return true
}

// genProgram builds a register file and a random instruction sequence; emit is called per step.
func genProgram(r *Rng, w *CaseWriter, emit func(Case, string)) {
	p := &prog{regs: map[int]ad.ConstScalar{}, kinds: map[int]int{}}
	nv := r.Range(1, 4)
	order := 1 + r.Intn(2)
	mode := r.Pick([]int{60, 25, 15}) // all Real64 | all Real32 | mixed
	kindFor := func() int {
		switch mode {
		case 0:
			return K64
		case 1:
			return K32
		}
		return r.Intn(2)
	}
	id := 0
	var vars, temps []int
	for i := 0; i < nv; i++ {
		k := kindFor()
		p.regs[id] = newMagic(k, genValue(r))
		p.kinds[id] = k
		vars = append(vars, id)
		p.magic = append(p.magic, id)
		id++
	}
	nb := r.Range(1, 2)
	for i := 0; i < nb; i++ {
		v := genValue(r)
		switch r.Intn(2) {
		case 0:
			p.regs[id] = ad.ConstFloat64(v)
		default:
			p.regs[id] = ad.NewFloat64(v)
		}
		p.kinds[id] = KBare
		p.bare = append(p.bare, id)
		id++
	}
	nt := r.Range(2, 4)
	for i := 0; i < nt; i++ {
		k := kindFor()
		p.regs[id] = newMagic(k, 0)
		p.kinds[id] = k
		temps = append(temps, id)
		p.magic = append(p.magic, id)
		id++
	}
	w.Count(fmt.Sprintf("prog:nv=%d,order=%d,kinds=%d", nv, order, mode))
	// activate the variables: Variables(order, vars...) is SetVariable(i, n, order) on each
	quirk := r.Pick([]int{85, 5, 5, 5}) // none | one variable from another Variables() call | one with order 0 | one with the other order
	for i, v := range vars {
		in := Instr{Op: "SetVariable", C: v, I: i, N: nv, Ord: order}
		if i == nv-1 && nv > 1 {
			switch quirk {
			case 1:
				in.N = nv + 1
			case 2:
				in.Ord = 0
			case 3:
				in.Ord = 3 - order
			}
		}
		emit(stepCase(p, in), "SetVariable")
	}
	all := append(append([]int{}, p.magic...), p.bare...)
	pickOpd := func() int { return all[r.Intn(len(all))] }
	pickMagicOfKind := func(k int) int {
		c := []int{}
		for _, m := range p.magic {
			if p.kinds[m] == k {
				c = append(c, m)
			}
		}
		return c[r.Intn(len(c))]
	}
	nsteps := r.Range(5, 12)
	for s := 0; s < nsteps; s++ {
		var c int
		if r.Intn(100) < 15 {
			c = vars[r.Intn(len(vars))]
		} else {
			c = temps[r.Intn(len(temps))]
		}
		var in Instr
		cls := r.Pick([]int{40, 34, 8, 10, 8})
		switch cls {
		case 0:
			in = Instr{Op: monOps[r.Intn(len(monOps))], C: c, A: pickOpd()}
			if r.Intn(100) < 25 {
				in.A = c // c = a aliasing
			}
			switch in.Op {
			case "Mlgamma":
				in.K = r.Range(0, 4)
			case "GammaP":
				in.Par = 0.25 + r.Float()*4
			case "BesselI", "LogBesselI":
				in.Par = float64(r.Range(0, 6)) / 2
			}
		case 1:
			in = Instr{Op: dyOps[r.Intn(len(dyOps))], C: c, A: pickOpd(), B: pickOpd()}
			switch r.Intn(10) {
			case 0:
				in.A = c
			case 1:
				in.B = c
			case 2:
				in.A, in.B = c, c
			}
		case 2:
			t := temps[r.Intn(len(temps))]
			ops := []string{"LogAdd", "LogSub", "Sigmoid"}
			in = Instr{Op: ops[r.Intn(3)], C: c, A: pickOpd(), B: pickOpd(), T: []int{t}}
			if in.Op == "Sigmoid" {
				in.B = 0
			}
			if r.Intn(5) == 0 {
				in.A = c
			}
		case 3:
			// vector / matrix reductions over magic registers of the receiver's kind
			k := p.kinds[c]
			n := r.Range(0, 3)
			ops := []string{"SmoothMax", "LogSmoothMax", "Vmean", "VdotV", "Vnorm", "Mtrace", "Mnorm"}
			in = Instr{Op: ops[r.Intn(len(ops))], C: c}
			switch in.Op {
			case "Mtrace":
				n = r.Range(1, 3)
				in.Rows = n
			case "Mnorm":
				in.Rows, in.Cols = r.Range(1, 2), r.Range(1, 2)
				n = in.Rows * in.Cols
			}
			for i := 0; i < n; i++ {
				in.Xs = append(in.Xs, pickMagicOfKind(k))
				if in.Op == "VdotV" {
					in.Ys = append(in.Ys, pickMagicOfKind(k))
				}
			}
			in.Par = []float64{1, 0.5, 2, -1, 3.25}[r.Intn(5)]
			for len(in.T) < 3 {
				in.T = append(in.T, temps[r.Intn(len(temps))])
			}
			switch in.Op {
			case "SmoothMax":
				in.T = in.T[:2]
			case "LogSmoothMax":
			default:
				in.T = nil
			}
			// the library's loops assume the temporaries are distinct objects, different from the receiver
			bad := false
			seen := map[int]bool{c: true}
			for _, t := range in.T {
				if seen[t] {
					bad = true
				}
				seen[t] = true
			}
			for _, x := range append(append([]int{}, in.Xs...), in.Ys...) {
				if seen[x] {
					bad = true // elements aliasing receiver/temporaries: left to C08
				}
			}
			if bad {
				in = Instr{Op: "Reset", C: c}
			}
		case 4:
			ops := []string{"Reset", "SetFloat64", "Set"}
			in = Instr{Op: ops[r.Intn(3)], C: c, A: pickOpd(), Par: genValue(r)}
		}
		// concrete twin when the types allow it
		if concTwin[in.Op] && r.Intn(100) < 30 {
			ids := []int{in.C, in.A}
			switch in.Op {
			case "Add", "Sub", "Mul", "Div", "Pow", "Min", "Max":
				ids = append(ids, in.B)
			case "LogAdd", "LogSub":
				ids = append(ids, in.B, in.T[0])
			}
			if p.sameKindMagic(ids...) {
				in.Conc = true
			}
		}
		tag := in.Op
		if in.Conc {
			tag += "(concrete)"
		}
		emit(stepCase(p, in), tag)
	}
}
