// C01 harness: automatic differentiation on Real64 / Real32.
//   (default)        random register-file programs -> single-step bit-exact cases (cases_*.v)
//   --extra cert     per-operation sweeps + small DAGs -> Coq-Interval goals (cert_*.v)
//   --extra hunt     property-level oracle on the implementation (finite differences and
//                    independent closed forms), known-finding witnesses; writes hunt.json
//   --replay f.json  re-execute one reported case
package main

import (
	"encoding/json"
	"fmt"
	"math"
	"os"
	"path/filepath"
	"strings"

	. "adharness/common"
)

const hdr = "From Coq Require Import ZArith QArith List Bool Floats. Import ListNotations.\nFrom ADV Require Import Base.Fl C01.Model C01.Corr.\nOpen Scope nat_scope.\n"

func main() {
	o := ParseFlags()
	switch {
	case o.Extra == "hunt":
		hunt(o)
		return
	case o.Extra == "cert":
		certMode(o)
		return
	case o.Replay != "":
		replay(o)
		return
	}
	w := NewCaseWriter(o.Out, "cases", hdr, "mism", 40)
	w.Type = "case"
	w.Rule = "single steps of random register-file programs (1-4 variables, order 1/2 (+ quirks: order 0, other order, other N), Real64 / Real32 / mixed, plain operands, temporaries reused, receiver = operand aliasing, generic and concrete methods, values incl. +-0, +-Inf, NaN, branch thresholds +-1ulp); a step is non-trivial iff the receiver ends with Order >= 1 and N >= 1 and at least one non-zero derivative slot, or the step panics; distinct = distinct (instruction, pre-state)"
	emit := func(c Case, tag string) {
		if c.Kind == 3 {
			w.Count("skipped:panic inside a special function (argument outside its domain)")
			return
		}
		nontriv := c.Kind != 0
		if c.Kind == 0 && len(c.Post) > 0 {
			p := c.Post[0]
			if p.Order >= 1 && p.N >= 1 {
				for _, d := range p.D {
					if d != 0 {
						nontriv = true
					}
				}
			}
		}
		raw, _ := json.Marshal(c)
		w.Add(coqCase(c), c, string(raw), nontriv)
		w.Count("op:" + tag)
		w.Count(fmt.Sprintf("outcome:%d", c.Kind))
		if !c.Frame {
			w.Count("FRAME-VIOLATION(operand modified)")
		}
		if c.Kind == 0 && len(c.Post) > 0 {
			w.Count(fmt.Sprintf("receiver:kind=%d,order=%d,N=%d", c.Post[0].Kind, c.Post[0].Order, c.Post[0].N))
		}
	}
	// committed corpus first
	if b, err := os.ReadFile(o.Extra); err == nil {
		for _, line := range strings.Split(string(b), "\n") {
			line = strings.TrimSpace(line)
			if line == "" || strings.HasPrefix(line, "#") {
				continue
			}
			var c Case
			if err := json.Unmarshal([]byte(line), &c); err != nil {
				Die("corpus: %v", err)
			}
			emit(reexec(c), "corpus")
		}
	}
	// deterministic boundary stream: every branching operation at every special value / threshold +-1ulp
	for _, kind := range []int{K64, K32} {
		for _, op := range []string{"Log1pExp", "Sigmoid", "Abs", "Logistic", "Sqrt", "Exp", "Log", "Log1p", "Tanh"} {
			for _, v := range specialVals {
				p := &prog{regs: map[int]adScalar{0: newMagic(kind, v), 1: newMagic(kind, 0), 2: newMagic(kind, 0)}, kinds: map[int]int{0: kind, 1: kind, 2: kind}}
				stepCase(p, Instr{Op: "SetVariable", C: 0, I: 0, N: 1, Ord: 2})
				in := Instr{Op: op, C: 1, A: 0}
				if op == "Sigmoid" {
					in.T = []int{2}
				}
				emit(stepCase(p, in), "boundary:"+op)
			}
		}
		for _, op := range []string{"LogAdd", "LogSub", "Min", "Max", "Pow", "Div"} {
			for i, v := range specialVals {
				w2 := specialVals[(i*7+3)%len(specialVals)]
				p := &prog{regs: map[int]adScalar{0: newMagic(kind, v), 1: newMagic(kind, w2), 2: newMagic(kind, 0), 3: newMagic(kind, 0)}, kinds: map[int]int{0: kind, 1: kind, 2: kind, 3: kind}}
				stepCase(p, Instr{Op: "SetVariable", C: 0, I: 0, N: 2, Ord: 2})
				stepCase(p, Instr{Op: "SetVariable", C: 1, I: 1, N: 2, Ord: 2})
				in := Instr{Op: op, C: 2, A: 0, B: 1, T: []int{3}}
				if op != "LogAdd" && op != "LogSub" {
					in.T = nil
				}
				emit(stepCase(p, in), "boundary:"+op)
			}
		}
	}
	// deterministic streams: restarted registers with stale raw content; Pow with a magic exponent (streams.go)
	staleStream(emit)
	powStream(emit)
	// round 7: LogAdd at operand separations beyond the overflow threshold of exp and at every +-Inf combination (extreme.go)
	logAddExtremeStream(emit)
	// receiver = operand aliasing enumerated over every method x {generic, concrete} x alias pattern; in-place programs (alias.go)
	aliasStream(emit)
	inplaceStream(emit)
	rng := NewRng(o.Seed)
	for k := 0; k < o.N; k++ {
		genProgram(rng.Split(), w, emit)
	}
	if err := w.Flush(); err != nil {
		Die("%v", err)
	}
	// float32 conversion self-test of the model's round32
	r := NewRng(o.Seed + 77)
	var sb strings.Builder
	sb.WriteString(hdr + "Definition cases : list (float * float) := [\n")
	n32 := 400
	for i := 0; i < n32; i++ {
		var x float64
		switch i % 4 {
		case 0:
			x = genValue(r)
		case 1:
			x = math.Ldexp(r.Float()+0.5, r.Range(-160, 130))
		case 2:
			x = float64(math.Float32frombits(uint32(r.U64()))) * (1 + float64(r.Intn(3)-1)*0x1p-24)
		default:
			x = math.Float64frombits(r.U64())
		}
		if math.IsNaN(x) {
			x = 1
		}
		sep := ";"
		if i == n32-1 {
			sep = ""
		}
		sb.WriteString(fmt.Sprintf("  (%s, %s)%s\n", F(x), F(float64(float32(x))), sep))
	}
	sb.WriteString("].\nDefinition M := Eval vm_compute in (r32_mism cases).\nPrint M.\n")
	os.WriteFile(filepath.Join(o.Out, "r32_0.v"), []byte(sb.String()), 0644)
}

// reexec re-runs a stored case from its pre-state on the current library.
func reexec(c Case) Case {
	if c.Ins.Par == 0 {
		c.Ins.Par = float64(c.Ins.ParJ)
	}
	p := &prog{regs: map[int]adScalar{}, kinds: map[int]int{}}
	for i, id := range c.Ids {
		p.regs[id] = restore(c.Pre[i])
		p.kinds[id] = c.Pre[i].Kind
	}
	return stepCase(p, c.Ins)
}

func replay(o Opts) {
	b, err := os.ReadFile(o.Replay)
	if err != nil {
		Die("%v", err)
	}
	var rp struct {
		Case *Case    `json:"case"`
		Hunt *HuntHit `json:"hunt"`
	}
	if err := json.Unmarshal(b, &rp); err != nil {
		Die("%v", err)
	}
	res := map[string]interface{}{}
	if rp.Case != nil {
		c := reexec(*rp.Case)
		w := NewCaseWriter(o.Out, "replay", hdr, "mism", 1000)
		w.Type = "case"
		w.Add(coqCase(c), c, "replay", true)
		w.Flush()
		res["case_reexecuted"] = true
	}
	if rp.Hunt != nil {
		h := recheck(*rp.Hunt)
		res["hunt_still_fails"] = h != nil
		if h != nil {
			res["failure"] = h.Failure
		}
	}
	jb, _ := json.MarshalIndent(res, "", " ")
	os.WriteFile(filepath.Join(o.Out, "replay_result.json"), jb, 0644)
}
