// Certified comparison stream: goals for Coq-Interval (coq/C01/CorrR.v).
package main

import (
	"encoding/json"
	"fmt"
	"math"
	"math/big"
	"os"
	"path/filepath"
	"strings"

	. "adharness/common"

	ad "github.com/pbenner/autodiff"
)

type adScalar = ad.ConstScalar

// exact rational literal of a finite float64 for Coq's R_scope
func RQ(x float64) string {
	if x == 0 {
		return "0"
	}
	fr, e := math.Frexp(x)
	m := int64(fr * (1 << 53))
	e -= 53
	for m%2 == 0 {
		m /= 2
		e++
	}
	neg := m < 0
	if neg {
		m = -m
	}
	num := big.NewInt(m)
	s := ""
	if e >= 0 {
		num.Lsh(num, uint(e))
		s = num.String()
	} else {
		den := new(big.Int).Lsh(big.NewInt(1), uint(-e))
		s = num.String() + " / " + den.String()
	}
	if neg {
		return "(- (" + s + "))"
	}
	return "(" + s + ")"
}
func RList(xs []float64) string {
	s := make([]string, len(xs))
	for i, x := range xs {
		s[i] = RQ(x)
	}
	return List(s)
}

type CertGoal struct {
	Name  string    `json:"name"`
	Order int       `json:"order"`
	Xs    []float64 `json:"xs"`
	Cs    []float64 `json:"cs"`
	Prog  []Instr   `json:"prog"`
	C     int       `json:"c"`
	Slot  string    `json:"slot"`
	Obs   float64   `json:"obs"`
	Tol   float64   `json:"tol"`
	coq   string
}

func instrCoqR(in *Instr) string {
	// same constructors as the float cases, real literals instead of float literals
	switch in.Op {
	case "GammaP", "BesselI", "LogBesselI", "SetFloat64", "SmoothMax", "LogSmoothMax":
		panic("not certifiable: " + in.Op)
	}
	return in.Coq()
}

// runProg executes a program on fresh registers: variables xs (Real64, Variables(order,...)),
// constants cs (Float64), the remaining registers NewReal64(0).
func runProg(order int, xs, cs []float64, prog []Instr, kind int) (map[int]adScalar, bool) {
	regs := map[int]adScalar{}
	vars := []ad.MagicScalar{}
	for i, x := range xs {
		m := newMagic(kind, x).(ad.MagicScalar)
		regs[i] = m
		vars = append(vars, m)
	}
	ad.Variables(order, vars...)
	for i, c := range cs {
		regs[len(xs)+i] = ad.NewFloat64(c)
	}
	for i := len(xs) + len(cs); i < 12; i++ {
		regs[i] = newMagic(kind, 0)
	}
	for k := range prog {
		if execGo(regs, &prog[k]) != 0 {
			return regs, false
		}
	}
	return regs, true
}

type slotT struct {
	name string
	coq  string
	get  func(r adScalar) float64
}

func slotsFor(n, order int) []slotT {
	s := []slotT{{"v", "SV", func(r adScalar) float64 { return r.GetFloat64() }}}
	for i := 0; i < n; i++ {
		i := i
		s = append(s, slotT{fmt.Sprintf("d%d", i), fmt.Sprintf("(SD %d)", i), func(r adScalar) float64 { return r.GetDerivative(i) }})
	}
	if order >= 2 {
		for i := 0; i < n; i++ {
			for j := 0; j < n; j++ {
				i, j := i, j
				s = append(s, slotT{fmt.Sprintf("h%d%d", i, j), fmt.Sprintf("(SH %d %d)", i, j), func(r adScalar) float64 { return r.GetHessian(i, j) }})
			}
		}
	}
	return s
}

type certStats struct {
	skippedNonFinite, skippedIll, goals int
	hist                                map[string]int
}

func okExp(x float64) bool {
	if x == 0 {
		return true
	}
	_, e := math.Frexp(x)
	return e > -250 && e < 250
}

// addGoals: one goal per slot of register c after prog.
func addGoals(out *[]CertGoal, st *certStats, name string, order int, xs, cs []float64, prog []Instr, c int, skipSlots map[string]bool, extraScale float64, relBits int) {
	regs, ok := runProg(order, xs, cs, prog, K64)
	if !ok {
		st.skippedNonFinite++
		return
	}
	// magnitude of everything that was computed on the way
	M := extraScale
	for _, r := range regs {
		s := snap(r)
		for _, v := range append(append([]float64{s.Val}, s.D...), flat(s.H)...) {
			if math.IsNaN(v) || math.IsInf(v, 0) {
				st.skippedNonFinite++
				return
			}
			if extraScale < 0 && math.Abs(v) > M {
				M = math.Abs(v)
			}
		}
	}
	if M < 0 {
		M = 0
	}
	var ps []string
	for k := range prog {
		ps = append(ps, instrCoqR(&prog[k]))
	}
	for _, sl := range slotsFor(len(xs), order) {
		if skipSlots[sl.name[:1]] {
			continue
		}
		obs := sl.get(regs[c])
		if !okExp(obs) {
			st.skippedNonFinite++
			continue
		}
		if M > 1e6*math.Max(math.Abs(obs), 1e-6) {
			st.skippedIll++
			continue
		}
		tol := math.Ldexp(math.Abs(obs)+M, -relBits) + 1e-300
		g := CertGoal{Name: name, Order: order, Xs: xs, Cs: cs, Prog: prog, C: c, Slot: sl.name, Obs: obs, Tol: tol}
		g.coq = fmt.Sprintf("Goal certR %d %s %s %s %d %s %s %s. Proof. cert. Qed.", order, RList(xs), RList(cs), List(ps), c, sl.coq, RQ(obs), RQ(tol))
		*out = append(*out, g)
		st.goals++
		st.hist[name+":"+sl.name[:1]]++
	}
}
func flat(h [][]float64) []float64 {
	var r []float64
	for _, row := range h {
		r = append(r, row...)
	}
	return r
}

type domain struct {
	lo, hi float64 // log-spaced over |x| in [lo,hi], both signs if neg
	neg    bool
	extra  []float64
}

var certMon = map[string]domain{
	"Neg":   {1e-6, 1e6, true, nil},
	"Sin":   {1e-4, 30, true, nil},
	"Cos":   {1e-4, 30, true, nil},
	"Sinh":  {1e-3, 20, true, nil},
	"Cosh":  {1e-3, 20, true, nil},
	"Tan":   {1e-3, 1.5, true, []float64{3, 4.5, 6}},
	"Tanh":  {1e-3, 8, true, nil},
	"Exp":   {1e-3, 100, true, nil},
	"Log":   {1e-6, 1e6, false, nil},
	"Log1p": {1e-6, 1e4, false, []float64{-0.5, -0.9, -1e-3}},
	"Erf":   {1e-3, 4, true, nil},
	"Erfc":  {1e-3, 4, true, nil},
	"Sqrt":  {1e-4, 1e4, false, nil},
}

func points(r *Rng, d domain, n int) []float64 {
	var xs []float64
	for i := 0; i < n; i++ {
		t := (float64(i) + r.Float()) / float64(n)
		x := d.lo * math.Pow(d.hi/d.lo, t)
		if d.neg && r.Bool() {
			x = -x
		}
		xs = append(xs, x)
	}
	return append(xs, d.extra...)
}

func certMode(o Opts) {
	r := NewRng(o.Seed + 1000)
	st := &certStats{hist: map[string]int{}}
	var goals []CertGoal
	per := o.N // points per operation
	names := []string{"Neg", "Sin", "Cos", "Sinh", "Cosh", "Tan", "Tanh", "Exp", "Log", "Log1p", "Erf", "Erfc", "Sqrt"}
	for _, op := range names {
		skip := map[string]bool{}
		if op == "Erf" || op == "Erfc" {
			skip["v"] = true // the value needs an integral; the derivative slots are elementary
		}
		scale := 0.0
		if op == "Tanh" {
			scale = 1 // 1 - tanh^2 cancels
		}
		for _, x := range points(r, certMon[op], per) {
			addGoals(&goals, st, op, 2, []float64{x}, nil, []Instr{{Op: op, C: 1, A: 0}}, 1, skip, scale, 40)
		}
	}
	// Pow with a constant exponent (monadic branch) and with a variable exponent (dyadic branch)
	for _, y := range []float64{0.5, 2, 3, -1, 1.5, -2.5} {
		for _, x := range points(r, domain{1e-3, 1e3, false, nil}, (per+1)/2) {
			addGoals(&goals, st, "PowC", 2, []float64{x}, []float64{y}, []Instr{{Op: "Pow", C: 2, A: 0, B: 1}}, 2, nil, 0, 40)
		}
	}
	for i := 0; i < per; i++ {
		x := math.Exp((r.Float()*2 - 1) * 3)
		y := (r.Float()*2 - 1) * 4
		sc := math.Pow(x, y-1) * (1 + math.Abs(y*math.Log(x)))
		addGoals(&goals, st, "PowV", 2, []float64{x, y}, nil, []Instr{{Op: "Pow", C: 2, A: 0, B: 1}}, 2, nil, sc, 40)
	}
	for _, op := range []string{"Add", "Sub", "Mul", "Div"} {
		for i := 0; i < (per+1)/2; i++ {
			x := math.Ldexp(r.Float()+0.5, r.Range(-8, 8)) * float64(1-2*r.Intn(2))
			y := math.Ldexp(r.Float()+0.5, r.Range(-8, 8)) * float64(1-2*r.Intn(2))
			addGoals(&goals, st, op, 2, []float64{x, y}, nil, []Instr{{Op: op, C: 2, A: 0, B: 1}}, 2, nil, 0, 40)
			// mixed: second operand a plain constant, receiver = first operand
			if i%2 == 0 {
				addGoals(&goals, st, op+"(const,c=a)", 2, []float64{x}, []float64{y}, []Instr{{Op: op, C: 0, A: 0, B: 1}}, 0, nil, 0, 40)
			}
		}
	}
	// small expression DAGs (depth <= 3, <= 3 variables, constants mixed in, temporaries reused)
	ndag := per
	if o.Tier == "thorough" {
		ndag = per * 3
	}
	for i := 0; i < ndag; i++ {
		genDag(r.Split(), &goals, st)
	}
	// shards
	const perShard = 24
	nsh := 0
	for s := 0; s < len(goals); s += perShard {
		e := s + perShard
		if e > len(goals) {
			e = len(goals)
		}
		var sb strings.Builder
		sb.WriteString("From Coq Require Import Reals ZArith QArith List. Import ListNotations.\nFrom Interval Require Import Tactic.\nFrom ADV Require Import Base.Fl C01.Model C01.ModelR C01.CorrR.\nOpen Scope R_scope.\n")
		for k := s; k < e; k++ {
			sb.WriteString(goals[k].coq + "\n")
		}
		os.WriteFile(filepath.Join(o.Out, fmt.Sprintf("cert_%d.v", nsh)), []byte(sb.String()), 0644)
		nsh++
	}
	f, _ := os.Create(filepath.Join(o.Out, "cert.jsonl"))
	enc := json.NewEncoder(f)
	for _, g := range goals {
		enc.Encode(g)
	}
	f.Close()
	meta := map[string]interface{}{"name": "cert", "evaluations": len(goals), "distinct_nontrivial": len(goals), "shards": nsh,
		"per_shard": perShard, "header_lines": 4, "histogram": st.hist,
		"rule":    "certified goals |model_R - observed| <= 2^-40 (|observed| + cancellation scale) closed by Coq-Interval at 80 bits; every goal is a distinct (program, point, slot) and non-trivial",
		"samples": []interface{}{}, "extra": map[string]int{"skipped_nonfinite": st.skippedNonFinite, "skipped_ill_conditioned": st.skippedIll}}
	b, _ := json.MarshalIndent(meta, "", " ")
	os.WriteFile(filepath.Join(o.Out, "cert.meta.json"), b, 0644)
}

// genDag: a random program of primitive operations whose operands stay inside the
// real domains (checked on Go's own current values), certified slot by slot.
func genDag(r *Rng, goals *[]CertGoal, st *certStats) {
	nv := r.Range(1, 3)
	order := 1 + r.Intn(2)
	xs := make([]float64, nv)
	for i := range xs {
		xs[i] = math.Round((0.25+r.Float()*2.5)*64) / 64 * float64(1-2*r.Intn(2))
	}
	cs := []float64{[]float64{2, 0.5, -1.5, 3}[r.Intn(4)]}
	temps := []int{nv + 1, nv + 2, nv + 3}
	var prog []Instr
	depth := map[int]int{}
	nsteps := r.Range(2, 5)
	last := temps[0]
	for s := 0; s < nsteps; s++ {
		c := temps[r.Intn(len(temps))]
		if s == nsteps-1 {
			c = last
		}
		pick := func() int {
			k := r.Intn(nv + 1 + len(temps))
			if k <= nv {
				return k
			}
			return temps[k-nv-1]
		}
		var in Instr
		for try := 0; try < 20; try++ {
			a, b := pick(), pick()
			if s > 0 && r.Intn(2) == 0 {
				a = last
			}
			regs, ok := runProg(order, xs, cs, prog, K64)
			if !ok {
				return
			}
			va, vb := regs[a].GetFloat64(), regs[b].GetFloat64()
			ops := []string{"Add", "Sub", "Mul", "Div", "Neg", "Sin", "Cos", "Exp", "Tanh", "Log", "Pow", "Log1p", "Sinh", "Sqrt", "Tan"}
			op := ops[r.Intn(len(ops))]
			okd := true
			switch op {
			case "Div":
				okd = math.Abs(vb) > 0.05
			case "Log", "Sqrt":
				okd = va > 0.05
			case "Pow":
				okd = va > 0.05 && math.Abs(vb) < 4
			case "Log1p":
				okd = va > -0.9
			case "Exp", "Sinh":
				okd = math.Abs(va) < 20
			case "Tan":
				okd = math.Abs(va) < 1.3 // Coq-Interval encloses tan of a non-point interval only on the principal branch
			}
			d := depth[a]
			if op == "Add" || op == "Sub" || op == "Mul" || op == "Div" || op == "Pow" {
				if depth[b] > d {
					d = depth[b]
				}
			}
			if !okd || d+1 > 3 {
				continue
			}
			in = Instr{Op: op, C: c, A: a, B: b}
			depth[c] = d + 1
			break
		}
		if in.Op == "" {
			continue
		}
		prog = append(prog, in)
		last = in.C
	}
	if len(prog) == 0 {
		return
	}
	addGoals(goals, st, fmt.Sprintf("dag%d", len(prog)), order, xs, cs, prog, last, nil, -1, 36)
}
