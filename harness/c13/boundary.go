package main

// Round 2: anchors ON the method-selection boundaries (argument exactly at the
// boundary and +-1 ulp wherever a closed form exists), large-order half-integer
// Bessel anchors in the LOG domain (rescale / overflow-guard paths), zeta at
// integers, non-normalised a >= 170, Temme with a > 200.  All boundary anchors are
// evaluated in the quick tier.  Every anchor is tagged (predsOf) with the
// comparisons of the Go source it sits on, see astpass.go.

import (
	"fmt"
	"math"
	"math/big"

	sp "github.com/pbenner/autodiff/special"
)

func up(x float64) float64       { return math.Nextafter(x, math.Inf(1)) }
func down(x float64) float64     { return math.Nextafter(x, math.Inf(-1)) }
func around(x float64) []float64 { return []float64{down(x), x, up(x)} }

// ---------------------------------------------------------------- predicates evaluated on the path (tags)

type predEv struct {
	Key      string
	Lhs, Rhs float64
	Unit     float64 // > 0: "adjacent" means |lhs-rhs| <= Unit (parameter only available on a grid); 0: 4 ulp
	True     bool
}

func (p predEv) adjacent() bool {
	d := math.Abs(p.Lhs - p.Rhs)
	if p.Unit > 0 {
		return d <= p.Unit
	}
	return d <= 4*ulp*math.Max(math.Abs(p.Lhs), math.Abs(p.Rhs))
}

// replica of the control flow of gamma_incomplete_imp, emitting every float comparison evaluated on the path
func igammaPreds(a, x float64, normalised, invert bool) []predEv {
	var ev []predEv
	cmp := func(key string, l, r, unit float64, t bool) bool {
		ev = append(ev, predEv{"gamma_incomplete_imp|" + key, l, r, unit, t})
		return t
	}
	if !normalised {
		if cmp("int(a)>=MaxFactorial", math.Floor(a), 170, 1, int(a) >= 170) {
			if invert && cmp("a*4.0<x", a*4, x, 0, a*4 < x) {
				return ev
			}
			if !invert && cmp("a>4.0*x", a, 4*x, 0, a > 4*x) {
				return ev
			}
			return append(ev, igammaPreds(a, x, true, invert)...)
		}
	}
	isInt, isHalf := false, false
	if cmp("a<30", a, 30, 1, a < 30) && cmp("a<=x+1.0", a, x+1, 0, a <= x+1) && cmp("x<MaxLogFloat64", x, maxLog, 0, x < maxLog) {
		fa := math.Floor(a)
		if cmp("fa==a", fa, a, 0.5, fa == a) {
			isInt = true
		} else if cmp("math.Abs(fa-a)==0.5", math.Abs(fa-a), 0.5, 0.5, math.Abs(fa-a) == 0.5) {
			isHalf = true
		}
	}
	switch {
	case isInt && cmp("x>0.6", x, 0.6, 0, x > 0.6):
		return ev
	case isHalf && cmp("x>0.2", x, 0.2, 0, x > 0.2):
		return ev
	case cmp("x<EpsilonFloat64", x, epsF, 0, x < epsF) && cmp("a>1", a, 1, 1, a > 1):
		return ev
	case cmp("x<0.5", x, 0.5, 0, x < 0.5):
		cmp("-0.4/math.Log(x)<a", -0.4/math.Log(x), a, 0, -0.4/math.Log(x) < a)
		return ev
	case cmp("x<1.1", x, 1.1, 0, x < 1.1):
		cmp("x*0.75<a", x*0.75, a, 0, x*0.75 < a)
		return ev
	}
	useTemme := false
	if normalised && cmp("a>20", a, 20, 1, a > 20) {
		sigma := math.Abs((x - a) / a)
		if cmp("a>200", a, 200, 1, a > 200) {
			useTemme = cmp("20/a>sigma*sigma", 20/a, sigma*sigma, 0, 20/a > sigma*sigma)
		} else {
			useTemme = cmp("sigma<0.4", sigma, 0.4, 0, sigma < 0.4)
		}
	}
	if useTemme {
		cmp("x>=a", x, a, 0, x >= a)
		ev = append(ev, predEv{"igamma_temme_large|x<a", x, a, 0, x < a})
		return ev
	}
	cmp("x-1.0/(3.0*x)<a", x-1/(3*x), a, 0, x-1/(3*x) < a)
	return ev
}

func besselPreds(v, x float64, logv bool) []predEv {
	var ev []predEv
	top, ik := "bessel_i_imp|", "bessel_ik|"
	if logv {
		top, ik = "bessel_i_log|", "bessel_ik_log|"
	}
	cmp := func(pre, key string, l, r, unit float64, t bool) bool {
		ev = append(ev, predEv{pre + key, l, r, unit, t})
		return t
	}
	if cmp(top, "x<0", x, 0, 0, x < 0) {
		if !cmp(top, "math.Floor(v)==v", math.Floor(v), v, 0.5, math.Floor(v) == v) {
			return ev
		}
		odd := iroundH(v)&1 != 0
		cmp(top, "iround(v)&1!=0", float64(iroundH(v)&1), 0, 1, odd)
		if logv && odd {
			return ev
		}
		return append(ev, besselPreds(v, -x, logv)...)
	}
	if cmp(top, "x==0.0", x, 0, 0, x == 0) {
		return ev
	}
	if cmp(top, "v==0.5", v, 0.5, 1, v == 0.5) {
		cmp(top, "x>=MaxLogFloat64", x, maxLog, 0, x >= maxLog)
		return ev
	}
	if cmp(top, "v==0", v, 0, 0.5, v == 0) || cmp(top, "v==1", v, 1, 0.5, v == 1) {
		return ev
	}
	if cmp(top, "v>0", v, 0, 0.5, v > 0) && cmp(top, "x/v<0.25", x/v, 0.25, 0, x/v < 0.25) {
		return ev
	}
	av := math.Abs(v)
	if cmp(ik, "v<0", v, 0, 0.5, v < 0) {
		// reflection: z := u + float64(n % 2)
		n := iroundH(av)
		cmp(ik, "n%2", float64(n%2), 0, 1, n%2 != 0)
		if logv {
			t := sp.SinPi(av - float64(n) + float64(n%2))
			if t != 0 {
				cmp(ik, "t<0.0", t, 0, 0, t < 0)
			}
		}
	}
	cmp(ik, "x<=2", x, 2, 0, x <= 2)
	lim := (4*av*av + 10) / (8 * x)
	lim *= lim
	lim *= lim
	lim /= 24
	if cmp(ik, "lim<EpsilonFloat64*10.0", lim, epsF*10, 0, lim < epsF*10) && cmp(ik, "x>100.0", x, 100, 0, x > 100) {
		return ev
	}
	if cmp(ik, "v>0.0", av, 0, 0.5, av > 0) {
		cmp(ik, "x/v<0.25", x/av, 0.25, 0, x/av < 0.25)
	}
	return ev
}

func iroundH(x float64) int {
	if x < 0 {
		return int(x - 0.5)
	}
	return int(x + 0.5)
}

func predsOf(a *Anchor) []predEv {
	switch a.Fam {
	case "polygamma5":
		if a.Fn == "PolygammaRecur" {
			return append(polyPreds5(a.K, a.x), polyPreds5(a.K, a.x+1)...)
		}
		return polyPreds5(a.K, a.x)
	case "zeta5":
		return zetaPreds5(a.x)
	case "factorial5":
		return []predEv{{"Factorial|x<factorialMax", float64(a.K), factMax5, 1, a.K < factMax5}}
	case "sincospi":
		return sinCosPreds(a.Fn, a.x)
	case "igamma":
		isQ := a.Fn == "GammaQ" || a.Fn == "GammaQFar7" || a.Fn == "GammaQLow7"
		isP := a.Fn == "GammaP" || a.Fn == "GammaPFar7"
		return igammaPreds(float64(a.H)/2, a.x, isP || isQ, isQ || a.Fn == "GammaUpper")
	case "bessel", "logbessel":
		return besselPreds(float64(a.H)/2, a.x, a.Fam == "logbessel")
	case "igamma-deriv":
		a0, x := float64(a.H)/2, a.x
		return []predEv{{"gamma_p_derivative_imp|x==0.0", x, 0, 0, x == 0}, {"gamma_p_derivative_imp|a>1.0", a0, 1, 0.5, a0 > 1},
			{"gamma_p_derivative_imp|a==1.0", a0, 1, 0.5, a0 == 1}, {"gamma_p_derivative_imp|x<1.0", x, 1, 0, x < 1},
			{"gamma_p_derivative_imp|a<=0", a0, 0, 0.5, a0 <= 0}, {"gamma_p_derivative_imp|x<0", x, 0, 0, x < 0}}
	case "digamma":
		x := a.x
		ev := []predEv{{"digamma_imp|x<=-1.0", x, -1, 0.5, x <= -1}, {"digamma_imp|x==0", x, 0, 0.5, x == 0}}
		if x <= -1 {
			x = 1 - x
			r := x - math.Floor(x)
			ev = append(ev, predEv{"digamma_imp|remainder>0.5", r, 0.5, 0.5, r > 0.5}, predEv{"digamma_imp|remainder==0", r, 0, 0.5, r == 0})
		}
		ev = append(ev, predEv{"digamma_imp|x>=digamma_large_lim", x, 10, 0, x >= 10})
		if x < 10 {
			ev = append(ev, predEv{"digamma_imp|x>2.0", x, 2, 0, x > 2}, predEv{"digamma_imp|x<1.0", x, 1, 0, x < 1})
		}
		return ev
	case "trigamma":
		if a.Fn != "Trigamma" {
			// Polygamma(1, x) routes to Trigamma
			return []predEv{{"Polygamma|n==0", 1, 0, 1, false}, {"Polygamma|n==1", 1, 1, 1, true}}
		}
		x := a.x
		ev := []predEv{{"trigamma_imp|x<=0.0", x, 0, 0.5, x <= 0}}
		if x <= 0 {
			z := 1 - x
			ev = append(ev, predEv{"trigamma_imp|math.Floor(x)==x", math.Floor(x), x, 0.5, math.Floor(x) == x},
				predEv{"trigamma_imp|math.Abs(x)<math.Abs(z)", math.Abs(x), math.Abs(z), 1, math.Abs(x) < math.Abs(z)})
			x = z
		}
		ev = append(ev, predEv{"trigamma_imp|x<1.0", x, 1, 0, x < 1})
		if x < 1 {
			x++
		}
		ev = append(ev, predEv{"trigamma_prec|x<=2.0", x, 2, 0, x <= 2})
		if x > 2 {
			ev = append(ev, predEv{"trigamma_prec|x<=4.0", x, 4, 0, x <= 4})
		}
		return ev
	case "polygamma":
		return polyPreds5(a.K, a.x)
	case "logerfc":
		x := a.x
		return []predEv{{"LogErfc|x*x<2.4607833005759251e-02", x * x, 2.4607833005759251e-02, 0, x*x < 2.4607833005759251e-02}, {"LogErfc|x>8.0", x, 8, 0, x > 8}}
	case "zeta":
		return zetaPreds5(a.x)
	}
	return nil
}

// ---------------------------------------------------------------- incomplete gamma at integer a (nested closed form)

func (b *builder) igInt(fn string, n int, x float64, why string) {
	h := 2 * n
	a := float64(n)
	norm := fn == "GammaP" || fn == "GammaQ"
	invt := fn == "GammaQ" || fn == "GammaUpper"
	var obs float64
	switch fn {
	case "GammaP":
		obs = sp.GammaP(a, x)
	case "GammaQ":
		obs = sp.GammaQ(a, x)
	case "GammaLower":
		obs = sp.GammaLower(a, x)
	case "GammaUpper":
		obs = sp.GammaUpper(a, x)
	}
	pq := pqRef(h, x, invt)
	ref := pq
	closed := fmt.Sprintf("P_int_nest %s %s", nat(n), R(x))
	if invt {
		closed = fmt.Sprintf("Q_int_nest %s %s", nat(n), R(x))
	}
	if !norm {
		ref = pq * gammaH(h)
		closed = fmt.Sprintf("gamma_int %s * %s", nat(n), closed)
	}
	an := &Anchor{Fam: "igamma", Label: "bnd:" + why + ":" + gammaMethod(a, x, norm, invt), Fn: fn, H: h, x: x, obs: obs, ref: ref,
		Desc: fmt.Sprintf("%s(%v, %v) [%s]", fn, a, x, why), Bnd: true}
	an.tol = 128 * ulp * (1 + (a+x)/16) * math.Abs(ref)
	switch {
	case !finite(ref) || math.Abs(ref) > 1.7e308:
		an.Skip = "closed form overflows binary64 (overflow is the specified outcome; checked by the sweep)"
	case an.tol < 1e-320:
		an.Skip = "tolerance underflows"
	case !invt && pq < 1e-280:
		an.Skip = "tiny value: closed form 1 - Q needs > 900 bits of cancellation"
	}
	an.tac = fmt.Sprintf("unf2; interval with (i_prec %d)", minI(100+extraBits(1, pq)+n/8, 1100))
	an.goal = stdGoal(closed, obs, an.tol)
	b.add(an)
}

func minI(a, b int) int {
	if a < b {
		return a
	}
	return b
}

func (b *builder) igHalf(fn string, h int, x float64, why string) {
	a := float64(h) / 2
	invt := fn == "GammaQ"
	obs := sp.GammaP(a, x)
	closed := fmt.Sprintf("P_h %s %s", nat(h), R(x))
	if invt {
		obs = sp.GammaQ(a, x)
		closed = fmt.Sprintf("Q_h %s %s", nat(h), R(x))
	}
	pq := pqRef(h, x, invt)
	an := &Anchor{Fam: "igamma", Label: "bnd:" + why + ":" + gammaMethod(a, x, true, invt), Fn: fn, H: h, x: x, obs: obs, ref: pq,
		Desc: fmt.Sprintf("%s(%v, %v) [%s]", fn, a, x, why), Bnd: true}
	an.tol = 128 * ulp * (1 + (a+x)/16) * math.Abs(pq)
	if pq < 1e-4 {
		an.Skip = "half-integer a with P or Q below 1e-4: the erf integral cannot be certified to the needed relative accuracy in bounded time"
	}
	an.tac = intTac(90 + extraBits(1, pq) + h/8)
	an.goal = stdGoal(closed, obs, an.tol)
	b.add(an)
}

// smallest float x with !(x - 1/(3x) < a)
func m24Boundary(a float64) float64 {
	lo, hi := a, a+1
	for up(lo) < hi {
		m := lo + (hi-lo)/2
		if m-1/(3*m) < a {
			lo = m
		} else {
			hi = m
		}
	}
	return hi
}

func (b *builder) igammaBoundaries() {
	norm := []string{"GammaP", "GammaQ"}
	all := []string{"GammaP", "GammaQ", "GammaLower", "GammaUpper"}
	full := []string{"GammaLower", "GammaUpper"}
	pts := func(fns []string, n int, xs []float64, why string) {
		for _, x := range xs {
			for _, fn := range fns {
				b.igInt(fn, n, x, why)
			}
		}
	}
	// (A) the diagonal x == a inside Temme's method (`x >= a` in case 5, `x < a` in igamma_temme_large)
	diag := []int{21, 30, 31, 50, 100, 200}
	if !b.quick {
		diag = append(diag, 150, 201, 250, 300, 400, 500)
	}
	for _, n := range diag {
		pts(norm, n, around(float64(n)), "x==a")
	}
	pts(full, 40, around(40), "x==a")
	// is_int eligibility: a < 30, a <= x + 1, x < MaxLogFloat64
	pts(norm, 29, []float64{28, 32.5}, "a<30")
	pts(norm, 30, []float64{29, 33.5}, "a<30")
	for _, n := range []int{3, 12, 29} {
		pts(norm, n, around(float64(n-1)), "a<=x+1")
	}
	pts(all, 5, around(maxLog), "x<MaxLog")
	pts(all, 1, around(0.6), "x>0.6")
	pts(norm, 2, around(0.6), "x>0.6:not-eligible")
	for _, x := range around(0.2) {
		for _, fn := range norm {
			b.igHalf(fn, 1, x, "x>0.2")
		}
	}
	// x < eps && a > 1
	pts(all, 2, around(epsF), "x<eps")
	pts([]string{"GammaP", "GammaLower"}, 5, around(epsF), "x<eps")
	pts([]string{"GammaP", "GammaLower"}, 1, []float64{down(epsF), epsF / 8}, "x<eps:a>1-false")
	// x < 0.5, x < 1.1 on the generic path (a > x + 1)
	pts(all, 2, around(0.5), "x<0.5")
	pts(norm, 3, around(0.5), "x<0.5")
	pts(all, 3, around(1.1), "x<1.1")
	pts(norm, 4, around(1.1), "x<1.1")
	// Temme thresholds: a > 20, a > 200, sigma < 0.4, 20/a > sigma^2
	for _, n := range []int{20, 21} {
		pts(norm, n, []float64{float64(n) - 4, float64(n) + 3}, "a>20")
	}
	for _, fn := range norm {
		b.igHalf(fn, 41, 17.5, "a>20")
		b.igHalf(fn, 41, 20.5, "a>20:x==a")
	}
	pts(norm, 200, []float64{205, 261}, "a>200")
	pts(norm, 201, []float64{206, 261}, "a>200")
	pts(norm, 30, append(around(42), around(18)...), "sigma<0.4")
	pts([]string{"GammaP"}, 320, []float64{down(400), 400}, "20/a>sigma^2")
	if !b.quick {
		pts(norm, 320, append(around(400), around(240)...), "20/a>sigma^2")
		pts(norm, 500, []float64{down(600), 600, 480, 505}, "20/a>sigma^2")
	}
	// series / continued fraction change-over x - 1/(3x) < a (reached near x ~ a only when not normalised)
	for _, n := range []int{35, 60} {
		x0 := m24Boundary(float64(n))
		pts(full, n, []float64{down(x0), x0}, "x-1/(3x)<a")
	}
	// (C) non-normalised with int(a) >= MaxFactorial = 170: log-domain continued fraction / series, via-regularised
	pts(full, 169, []float64{100, 169, 700}, "int(a)>=170")
	pts(full, 170, []float64{100, 170, 250}, "int(a)>=170")
	pts([]string{"GammaUpper"}, 170, around(680), "a*4<x")
	pts([]string{"GammaLower"}, 170, around(42.5), "a>4x")
	pts(full, 171, []float64{30, 171, 690}, "int(a)>=170")
	if !b.quick {
		pts(full, 171, []float64{20, 42, 43, 100, 150, 200, 400, 684, 685, 720}, "int(a)>=170")
		pts(full, 170, []float64{10, 20, 42, 43, 150, 200, 400, 681, 700, 720}, "int(a)>=170")
		// Temme with a > 200 away from the boundary
		for _, n := range []int{201, 250, 300, 400, 500} {
			a := float64(n)
			pts(norm, n, []float64{math.Round(a * 0.9), a + 1, math.Round(a * 1.05), math.Round(a * 1.15)}, "temme:a>200")
		}
	}
	// (C) gamma_p_derivative: special values, the underflow path f1 == 0 (logs) and gradual underflow
	for _, c := range []struct {
		h   int
		x   float64
		why string
	}{{32, 1e-20, "f1==0"}, {34, 1e-19, "f1==0"}, {40, 1e-15, "f1==0"}, {2, 0.999, "x<1"}, {2, 1, "x<1"}, {1, down(1), "x<1"}, {1, 1, "x<1"}} {
		a := float64(c.h) / 2
		d1 := dPH(c.h, c.x)
		o1 := sp.GammaPfirstDerivative(a, c.x)
		an := &Anchor{Fam: "igamma-deriv", Label: "bnd:dP:" + c.why, Fn: "GammaPfirstDerivative", H: c.h, x: c.x, obs: o1, ref: d1,
			Desc: fmt.Sprintf("GammaPfirstDerivative(%v, %v) [%s]", a, c.x, c.why), Bnd: true}
		an.tol = 128*ulp*(1+(a+c.x)/16)*d1 + 0x1p-1073
		an.tac = ivTac(120)
		an.goal = stdGoal(fmt.Sprintf("dP_h %s %s", nat(c.h), R(c.x)), o1, an.tol)
		b.add(an)
	}
	for _, c := range []struct {
		a, want float64
	}{{2, 0}, {1.5, 0}, {1, 1}, {0.5, math.Inf(1)}} {
		o := sp.GammaPfirstDerivative(c.a, 0)
		an := &Anchor{Fam: "igamma-deriv", Label: "bnd:dP:x==0", Fn: "GammaPfirstDerivative", H: int(2 * c.a), x: 0, obs: o, ref: c.want,
			Desc: fmt.Sprintf("GammaPfirstDerivative(%v, 0) = %v exactly", c.a, c.want), Bnd: true}
		if o == c.want {
			an.Skip = "exact special value specified and observed"
			an.obs = 0
			b.add(an)
		} else {
			b.add(an)
			an.NonFin = true
		}
	}
}

// ---------------------------------------------------------------- half-integer Bessel, large order, log domain

func logSumExp(ls []float64) float64 {
	m := math.Inf(-1)
	for _, l := range ls {
		m = math.Max(m, l)
	}
	s := 0.0
	for _, l := range ls {
		s += math.Exp(l - m)
	}
	return m + math.Log(s)
}

// ln K_{n+1/2}(x) and ln I_{n+1/2}(x) in float64 (diagnostics, precision selection, hunt)
func lnKHalf(n int, x float64) float64 {
	ls := make([]float64, n+1)
	for k := 0; k <= n; k++ {
		a, _ := math.Lgamma(float64(n + k + 1))
		c, _ := math.Lgamma(float64(k + 1))
		d, _ := math.Lgamma(float64(n - k + 1))
		ls[k] = a - c - d - float64(k)*math.Log(2*x)
	}
	return 0.5*math.Log(math.Pi/(2*x)) - x + logSumExp(ls)
}

// ln I_{+-(n+1/2)}(x) for large x: recurrence on the (sinh, cosh) coefficients in big.Float, e^(-2x) neglected
func lnIHalfBig(n int, x float64, neg bool) float64 {
	const prec = 4000
	nf := func(v float64) *big.Float { return new(big.Float).SetPrec(prec).SetFloat64(v) }
	ps, pc, qs, qc := nf(1), nf(0), nf(0), nf(1) // cur = (ps, pc), prev = (qs, qc)
	if neg {
		ps, pc, qs, qc = nf(0), nf(1), nf(1), nf(0)
	}
	xi := new(big.Float).SetPrec(prec).Quo(nf(1), nf(x))
	for k := 0; k < n; k++ {
		w := new(big.Float).SetPrec(prec).Mul(nf(float64(2*k+1)), xi)
		ns := new(big.Float).SetPrec(prec).Sub(qs, new(big.Float).SetPrec(prec).Mul(w, ps))
		nc := new(big.Float).SetPrec(prec).Sub(qc, new(big.Float).SetPrec(prec).Mul(w, pc))
		ps, pc, qs, qc = ns, nc, ps, pc
	}
	sum, _ := new(big.Float).SetPrec(prec).Add(ps, pc).Float64()
	return 0.5*math.Log(2/(math.Pi*x)) - math.Ln2 + x + math.Log(sum)
}

func lnIPos(v, x float64) float64 {
	if x > 500 {
		return lnIHalfBig(int(v), x, false)
	}
	lg, _ := math.Lgamma(v + 1)
	s, t := 0.0, 1.0
	for k := 1; k < 2000; k++ {
		s += t
		t *= x * x / 4 / float64(k) / (float64(k) + v)
		if t < s*1e-18 {
			break
		}
	}
	return v*math.Log(x/2) - lg + math.Log(s)
}

// ln |I_{+-(n+1/2)}(x)| and the sign
func lnIHalfRef(n int, x float64, neg bool) (float64, float64) {
	v := float64(n) + 0.5
	li := lnIPos(v, x)
	if !neg {
		return li, 1
	}
	lk := math.Log(2/math.Pi) + lnKHalf(n, x)
	if n%2 == 0 {
		return math.Max(li, lk) + math.Log1p(math.Exp(-math.Abs(li-lk))), 1
	}
	if li > lk {
		return li + math.Log1p(-math.Exp(lk-li)), 1
	}
	return lk + math.Log1p(-math.Exp(li-lk)), -1
}

func zRat(x float64) (string, string) {
	fr, e := math.Frexp(x)
	m := new(big.Int).SetInt64(int64(fr * (1 << 53)))
	e -= 53
	den := big.NewInt(1)
	if e >= 0 {
		m.Lsh(m, uint(e))
	} else {
		den.Lsh(den, uint(-e))
	}
	g := new(big.Int).GCD(nil, nil, m, den)
	m.Div(m, g)
	den.Div(den, g)
	return "(" + m.String() + ")%Z", "(" + den.String() + ")%Z"
}

func (b *builder) besselHalf(n int, neg bool, x float64, logv bool, why string) {
	v := float64(n) + 0.5
	name := "i_half_rat"
	if neg {
		v, name = -v, "i_mhalf_rat"
	}
	lref, sgn := lnIHalfRef(n, x, neg)
	za, zb := zRat(x)
	closed := fmt.Sprintf("%s %s %s %s", name, nat(n), za, zb)
	// cancellation between the sinh and cosh parts: both are of the size of (2/pi) K
	canc := 0
	if d := (lnKHalf(n, x) + 2*x + 1 - lref) / math.Ln2; d > 0 {
		canc = int(d) + 8
	}
	prec := 110 + canc
	fam, fnName := "bessel", "BesselI"
	if logv {
		fam, fnName = "logbessel", "LogBesselI"
	}
	an := &Anchor{Fam: fam, Label: "bnd:" + why + ":" + besselLabel(v, x), Fn: fnName, H: int(2 * v), K: n, x: x,
		Desc: fmt.Sprintf("%s(%v, %v) [%s]", fnName, v, x, why), Bnd: true}
	an.tac = fmt.Sprintf("unf2; interval with (i_prec %d)", prec)
	var obs float64
	var p bool
	if logv {
		obs, p = safe(func() float64 { return sp.LogBesselI(v, x) })
	} else {
		obs, p = safe(func() float64 { return sp.BesselI(v, x) })
	}
	an.obs = obs
	switch {
	case prec > 6000:
		an.Skip = "closed form needs > 6000 bits"
		an.obs = 0
	case logv && sgn < 0:
		// I_v(x) < 0: NaN specified; certified: the closed form is negative
		an.ref = math.NaN()
		if !p && math.IsNaN(obs) {
			an.obs, an.tol = 0, 0
			an.goal = fmt.Sprintf("%s < 0", closed)
		} else {
			an.NonFin = true
		}
	case logv:
		an.ref = lref
		an.tol = 64 * ulp * (1 + math.Abs(lref) + x/8 + float64(n)/4)
		an.goal = stdGoal("ln ("+closed+")", obs, an.tol)
	case lref > 709.78:
		// the plain variant overflows: +-Inf of the right sign specified; certified: ln |closed form| > ln MaxFloat64
		an.ref = sgn * math.Inf(1)
		if !p && math.IsInf(obs, int(sgn)) {
			an.obs = 0
			an.goal = fmt.Sprintf("%s < ln (%s * %s)", R(709.7827128933841), R(sgn), closed)
		} else {
			an.NonFin = true
		}
	default:
		an.ref = sgn * math.Exp(lref)
		an.tol = 64 * ulp * (1 + x/8 + float64(n)/4) * math.Abs(an.ref)
		if an.tol < 1e-320 {
			an.Skip = "tolerance underflows"
		}
		an.goal = stdGoal(closed, obs, an.tol)
	}
	if p {
		an.NonFin = true
	}
	b.add(an)
}

func (b *builder) besselBoundaries() {
	// (B) large |v|: forward-recurrence rescale (`scale`) active, reflection for v < 0, small-z series for v > 0
	ns := []int{100, 150, 200}
	xs := []float64{0.5, 1, 10}
	if !b.quick {
		ns = []int{60, 100, 101, 150, 200, 201, 250, 300}
		xs = []float64{0.5, 1, 3, 10, 40}
	}
	for _, n := range ns {
		for _, x := range xs {
			b.besselHalf(n, true, x, true, "large-order")
			if n <= 100 || !b.quick {
				b.besselHalf(n, false, x, true, "large-order")
			}
			if n <= 200 && x <= 1 || !b.quick {
				b.besselHalf(n, true, x, false, "large-order") // plain variant: overflow guard of the reflection
			}
		}
	}
	b.besselHalf(101, true, 1, true, "large-order:negative-value")
	// large x with large order (CF2 + CF1 + rescale in the log variant)
	for _, c := range []struct {
		n int
		x float64
	}{{100, 26}, {100, 300}, {100, 700}, {60, 1000}, {100, 5000}} {
		b.besselHalf(c.n, true, c.x, true, "large-x")
		b.besselHalf(c.n, false, c.x, true, "large-x")
	}
	// boundaries of bessel_i_imp / bessel_ik (both variants)
	for _, logv := range []bool{false, true} {
		for _, x := range around(0.625) { // x/v < 0.25 at v = 2.5
			b.besselHalf(2, false, x, logv, "x/v<0.25")
		}
		for _, x := range around(25.125) { // v = 100.5
			b.besselHalf(100, false, x, logv, "x/v<0.25")
		}
		for _, x := range around(2) {
			b.besselHalf(1, false, x, logv, "x<=2")
			b.besselHalf(2, true, x, logv, "x<=2")
		}
		for _, x := range around(maxLog) {
			b.besselHalf(0, false, x, logv, "v==0.5:x>=MaxLog")
		}
		b.besselHalf(0, true, 1, logv, "v==-0.5")
		b.besselHalf(1, false, 1, logv, "v==1.5")
	}
	// asymptotic expansion of the log variant: lim < 10 eps && x > 100
	lim := func(v, x float64) float64 {
		l := (4*v*v + 10) / (8 * x)
		l *= l
		l *= l
		return l / 24
	}
	lo, hi := 1000.0, 10000.0
	for up(lo) < hi {
		m := lo + (hi-lo)/2
		if lim(1.5, m) < epsF*10 {
			hi = m
		} else {
			lo = m
		}
	}
	b.besselHalf(1, false, lo, true, "lim<10eps")
	b.besselHalf(1, false, hi, true, "lim<10eps")
}

// ---------------------------------------------------------------- zeta / polygamma at integers

func bernF(n int) float64 { return sp.BernoulliNumber(n) }

func (b *builder) zetaAnchors() {
	for k := 1; k <= 30; k++ {
		s := float64(2 * k)
		obs := sp.Zeta(s)
		ref := math.Abs(bernF(2*k)) * math.Pow(2*math.Pi, s) / (2 * math.Gamma(s+1))
		an := &Anchor{Fam: "zeta", Label: "even", Fn: "Zeta", K: k, x: s, obs: obs, ref: ref, Desc: fmt.Sprintf("Zeta(%v)", s), Bnd: true}
		an.tol = (16 + 2*s) * ulp * ref
		an.tac = "unf2; interval with (i_prec 120)"
		an.goal = stdGoal(fmt.Sprintf("zeta_even %s", nat(k)), obs, an.tol)
		b.add(an)
	}
	for n := 0; n <= 62; n++ {
		if b.quick && n > 12 && n%2 == 0 && n%10 != 0 {
			continue
		}
		s := -float64(n)
		obs := sp.Zeta(s)
		ref := -bernF(n+1) / float64(n+1)
		if n == 0 {
			ref = -0.5
		}
		an := &Anchor{Fam: "zeta", Label: "non-positive", Fn: "Zeta", K: n, x: s, obs: obs, ref: ref, Desc: fmt.Sprintf("Zeta(%v)", s), Bnd: true}
		an.tol = 16 * ulp * math.Abs(ref)
		an.tac = "unf2; interval with (i_prec 120)"
		an.goal = stdGoal(fmt.Sprintf("zeta_neg %s", nat(n)), obs, an.tol)
		b.add(an)
	}
	// Polygamma(n, 1) = (-1)^(n+1) n! zeta(n+1), Polygamma(n, 1/2) = (2^(n+1) - 1) * that, odd n
	for _, n := range []int{3, 5, 7, 9} {
		k := (n + 1) / 2
		z := math.Abs(bernF(2*k)) * math.Pow(2*math.Pi, float64(2*k)) / (2 * math.Gamma(float64(2*k)+1))
		for _, half := range []bool{false, true} {
			x, mult := 1.0, 1.0
			if half {
				x, mult = 0.5, math.Pow(2, float64(n+1))-1
			}
			obs := sp.Polygamma(n, x)
			ref := mult * fact(n) * z
			an := &Anchor{Fam: "polygamma", Label: "zeta-value", Fn: "Polygamma", H: int(2 * x), K: n, x: x, obs: obs, ref: ref,
				Desc: fmt.Sprintf("Polygamma(%d, %v)", n, x), Bnd: true}
			an.tol = 64 * ulp * ref
			an.tac = "unf2; interval with (i_prec 120)"
			an.goal = stdGoal(fmt.Sprintf("%s * IZR (zfact %s) * zeta_even %s", R(mult), nat(n), nat(k)), obs, an.tol)
			b.add(an)
		}
	}
}

// trigamma / digamma: arguments on the reduction thresholds that the round-1 grids skip in the quick tier
func (b *builder) reductionBoundaries() {
	psi1 := sp.Digamma(1)
	for _, n := range []int{3, 9} { // x = 4 (trigamma_prec x <= 4), x = 10 (digamma_large_lim)
		x := float64(n + 1)
		obs := sp.Trigamma(x)
		ref := psi1Int(n)
		an := &Anchor{Fam: "trigamma", Label: "bnd", Fn: "Trigamma", H: int(2 * x), K: n, x: x, obs: obs, ref: ref, Desc: fmt.Sprintf("Trigamma(%v)", x), Bnd: true}
		an.tol = 16 * ulp * ref
		an.tac = ivTac(90 + extraBits(math.Pi*math.Pi/2, ref))
		an.goal = stdGoal(fmt.Sprintf("psi1_int %s", nat(n)), obs, an.tol)
		b.add(an)
	}
	for _, n := range []int{1, 2, 3, 4} { // 1.5 2.5 3.5 4.5
		x := float64(n) + 0.5
		obs := sp.Trigamma(x)
		ref := psi1Half(n, false)
		an := &Anchor{Fam: "trigamma", Label: "bnd", Fn: "Trigamma", H: int(2 * x), K: n, x: x, obs: obs, ref: ref, Desc: fmt.Sprintf("Trigamma(%v)", x), Bnd: true}
		an.tol = 16 * ulp * ref
		an.tac = ivTac(90 + extraBits(math.Pi*math.Pi/2, ref))
		an.goal = stdGoal(fmt.Sprintf("psi1_half %s", nat(n)), obs, an.tol)
		b.add(an)
	}
	for _, c := range []struct {
		x      float64
		n      int
		closed string
		ref    float64
	}{{9.5, 9, "psi_half_diff 9%nat", psiDiffHalf(9)}, {10.5, 10, "psi_half_diff 10%nat", psiDiffHalf(10)}, {2.5, 2, "psi_half_diff 2%nat", psiDiffHalf(2)},
		{1.5, 1, "psi_half_diff 1%nat", psiDiffHalf(1)}, {-0.5, 1, "psi_half_diff 1%nat", psiDiffHalf(1)}, {-1.5, 2, "psi_half_diff 2%nat", psiDiffHalf(2)},
		{3, 2, "psi_int_diff 2%nat", psiDiffInt(2)}} {
		obs := sp.Digamma(c.x)
		an := &Anchor{Fam: "digamma", Label: "bnd", Fn: "Digamma", H: int(2 * c.x), K: c.n, x: c.x, obs: obs, ref: c.ref,
			Desc: fmt.Sprintf("Digamma(%v) - Digamma(1)", c.x), X2: fhex(psi1), Bnd: true}
		an.tol = 16 * ulp * (math.Abs(obs) + math.Abs(psi1) + 1)
		an.tac = ivTac(90)
		an.goal = fmt.Sprintf("Rabs (%s - (%s - %s)) <= %s", c.closed, R(obs), R(psi1), R(an.tol))
		b.add(an)
	}
}

// Digamma at 1/4 - m: the reflection term pi*cot(pi*x) is +-pi there (it vanishes at the half-integers of round 1)
func (b *builder) digammaQuarter() {
	psi1 := sp.Digamma(1)
	for _, m := range []int{0, 1, 2, 3, 7, 20} {
		x := 0.25 - float64(m)
		ref := -math.Pi/2 - 3*math.Ln2
		for k := 1; k <= m; k++ {
			ref += 1 / (float64(k) - 0.25)
		}
		obs := sp.Digamma(x)
		an := &Anchor{Fam: "digamma", Label: "bnd:quarter", Fn: "DigammaQuarter", H: int(2 * x), K: m, x: x, obs: obs, ref: ref,
			Desc: fmt.Sprintf("Digamma(%v) - Digamma(1)", x), X2: fhex(psi1), Bnd: true}
		an.tol = 64 * ulp * (math.Abs(obs) + math.Abs(psi1) + 1 + float64(m))
		an.tac = ivTac(90)
		an.goal = fmt.Sprintf("Rabs (psi_mquarter_diff %s - (%s - %s)) <= %s", nat(m), R(obs), R(psi1), R(an.tol))
		b.add(an)
	}
}

// LogErfc at the infinities: ln erfc(+Inf) = -Inf, ln erfc(-Inf) = ln 2
func (b *builder) logErfcInfinities() {
	o := sp.LogErfc(math.Inf(1))
	an := &Anchor{Fam: "logerfc", Label: "bnd:x=+Inf", Fn: "LogErfc", x: math.Inf(1), obs: o, ref: math.Inf(-1), Desc: "LogErfc(+Inf) = -Inf exactly", Bnd: true}
	if math.IsInf(o, -1) {
		an.Skip, an.obs = "exact special value specified and observed", 0
		b.add(an)
	} else {
		b.add(an)
		an.NonFin = true
	}
	o2 := sp.LogErfc(math.Inf(-1))
	an2 := &Anchor{Fam: "logerfc", Label: "bnd:x=-Inf", Fn: "LogErfc", x: math.Inf(-1), obs: o2, ref: math.Ln2, Desc: "LogErfc(-Inf) = ln 2", Bnd: true}
	an2.tol = 2 * ulp
	an2.tac = ivTac(90)
	an2.goal = stdGoal("ln 2", o2, an2.tol)
	b.add(an2)
}

func (b *builder) round2() {
	b.logErfcInfinities()
	b.digammaQuarter()
	b.igammaBoundaries()
	b.besselBoundaries()
	b.zetaAnchors()
	b.reductionBoundaries()
}
