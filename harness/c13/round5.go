package main

// Round 5: anchors aimed at the two classes of algorithm-selection boundary the earlier anchor sets never reached:
//
//	(A) branches guarded by a TINY-ARGUMENT test (zeta_imp: |s| < rootEpsilon): several non-zero arguments strictly
//	    inside the window, both signs, at the threshold and just outside; reference = the certified Taylor polynomial
//	    zeta_T3 (coq/C13/Spec4.v), tolerance 4 units of 2^-53;
//	(B) branches selected by a threshold on the ORDER parameter (polygamma: n <= 26 / n >= 27 linear / log-domain
//	    initialisation, n = 114 / 115 overflow test of the forward recursion, n < factorialMax in the huge-x form;
//	    zeta: reflected s <= 21 / > 21), each in every x-regime (small-x series, both special points, transition,
//	    asymptotic, huge x).  Reference = Coq-Interval enclosure of the Hurwitz series sum_k (x+k)^-(n+1) with the
//	    integral tail bound (Props.Polygamma_series_enclosure) and the exact recurrence psi_n(x+1) - psi_n(x)
//	    (Props.Polygamma_recurrence) across the transition point.
//
// plus zeta_imp_prec at non-integer s >= 7 and at the odd integers (same Hurwitz enclosure, x = 1).
// predsOf gets full replicas of the control flow of Polygamma / polygamma_* / zeta_imp / zeta_imp_prec (integer
// comparisons included), so the go/ast boundary list (astpass.go, round 5: integer comparisons too) is matched.

import (
	"fmt"
	"math"
	"math/big"

	sp "github.com/pbenner/autodiff/special"
)

const factMax5 = 21 // len(factorialList) of special/factorial.go
const rootEps5 = 1.49012e-08

// ---------------------------------------------------------------- float references (diagnostics, hunt oracle)

// (-1)^(n+1) n! sum_{k>=0} (x+k)^-(n+1)
func polyRefBig(n int, x float64) float64 {
	sign := 1.0
	if n%2 == 0 {
		sign = -1
	}
	const prec = 400
	nb := func(v float64) *big.Float { return new(big.Float).SetPrec(prec).SetFloat64(v) }
	pw := func(y *big.Float, e int) *big.Float {
		p := nb(1)
		for i := 0; i < e; i++ {
			p.Mul(p, y)
		}
		return p.Quo(nb(1), p)
	}
	toF := func(s *big.Float) float64 {
		m := new(big.Float)
		e := s.MantExp(m)
		mf, _ := m.Float64()
		return math.Ldexp(mf, e)
	}
	if x > 4000 {
		// x >> n: (n-1)!/x^n (1 + n/(2x) + n(n+1)/(12 x^2))
		nf := float64(n)
		s := pw(nb(x), n)
		for i := 2; i < n; i++ {
			s.Mul(s, nb(float64(i)))
		}
		c := nb(1)
		c.Add(c, new(big.Float).SetPrec(prec).Quo(nb(nf), nb(2*x)))
		c.Add(c, new(big.Float).SetPrec(prec).Quo(nb(nf*(nf+1)), new(big.Float).SetPrec(prec).Mul(nb(12*x), nb(x))))
		return sign * toF(s.Mul(s, c))
	}
	K := int(x*(math.Pow(2, 70/float64(n+1))-1)) + 8
	if K > 200000 {
		K = 200000
	}
	s := nb(0)
	for k := K - 1; k >= 0; k-- {
		s.Add(s, pw(nb(x+float64(k)), n+1))
	}
	y := nb(x + float64(K))
	t := pw(y, n)
	t.Quo(t, nb(float64(n)))
	s.Add(s, t)
	h := pw(y, n+1)
	s.Add(s, h.Quo(h, nb(2)))
	for i := 2; i <= n; i++ {
		s.Mul(s, nb(float64(i)))
	}
	return sign * toF(s)
}

func zetaT3(s float64) float64 {
	return -0.5 - 0.9189385332046727*s - 1.0031782279543*s*s - 1.000785194477*s*s*s
}

// zeta(s), s >= 4, by direct summation + integral tail
func zetaRefSeries(s float64) float64 {
	K := int(math.Pow(2, 60/s)) + 4
	sum := 0.0
	for k := K - 1; k >= 2; k-- {
		sum += math.Pow(float64(k), -s)
	}
	kf := float64(K)
	sum += math.Pow(kf, 1-s)/(s-1) + math.Pow(kf, -s)/2
	return 1 + sum
}

// float64 oracle of the round-5 anchor kinds (hunt / replay)
func round5Oracle(fn string, k int, x float64) (bool, float64, float64, string) {
	switch fn {
	case "ZetaTiny":
		obs, ref := sp.Zeta(x), zetaT3(x)
		return finite(obs) && math.Abs(obs-ref) <= 6*0x1p-53+4*x*x*x*x, obs, ref, "zeta:" + zetaLabel5(x)
	case "ZetaSeries":
		obs, ref := sp.Zeta(x), zetaRefSeries(x)
		return finite(obs) && math.Abs(obs-ref) <= 16*ulp*ref, obs, ref, "zeta:" + zetaLabel5(x)
	case "PolygammaSeries":
		obs, p := safe(func() float64 { return sp.Polygamma(k, x) })
		ref := polyRefBig(k, x)
		tol := 16 * float64(k+2) * ulp * math.Abs(ref)
		if x > 4000 {
			tol += math.Abs(ref) * math.Pow(float64(k)/x, 3)
		}
		return !p && finite(obs) && math.Abs(obs-ref) <= tol+0x1p-1070, obs, ref, "polygamma:" + polyLabel5(k, x)
	case "PolygammaRecur":
		p0, q0 := safe(func() float64 { return sp.Polygamma(k, x) })
		p1, q1 := safe(func() float64 { return sp.Polygamma(k, x+1) })
		st := fact(k) / math.Pow(x, float64(k+1))
		if k%2 == 1 {
			st = -st
		}
		return !q0 && !q1 && math.Abs(p1-p0-st) <= 32*float64(k+2)*ulp*(math.Abs(p0)+math.Abs(p1)), p1 - p0, st, "polygamma:" + polyLabel5(k, x) + "|" + polyLabel5(k, x+1)
	}
	return true, 0, 0, ""
}

// ---------------------------------------------------------------- branch labels

func zetaLabel5(s float64) string {
	switch {
	case s > 53:
		return "one"
	case math.Floor(s) == s:
		return "integer"
	case math.Abs(s) < rootEps5:
		return "tiny"
	case s < 0 && 1-s > factMax5:
		return "reflect:log"
	case s < 0:
		return "reflect"
	case s < 1:
		return "prec<1"
	case s <= 2:
		return "prec<=2"
	case s <= 4:
		return "prec<=4"
	case s <= 7:
		return "prec<=7"
	case s < 15:
		return "prec<15"
	case s < 36:
		return "prec<36"
	case s < 56:
		return "prec<56"
	}
	return "one"
}

func polyInfLabel5(n int, x float64) string {
	nf := float64(n)
	if nf+x == x {
		if nf*math.Log(x) < maxLog && n < factMax5 {
			return "huge:lin"
		}
		return "huge:log"
	}
	if n > factMax5 && nf*nf > maxLog {
		return "asym:log(order)"
	}
	if sp.Factorial(n-1)*math.Pow(x, float64(-n-1)) == 0 {
		return "asym:log(underflow)"
	}
	return "asym:lin"
}

func polyLabel5(n int, x float64) string {
	nf := float64(n)
	switch {
	case x < 0:
		return "reflect"
	case x < math.Min(5/nf, 0.25):
		if 1/math.Pow(x, nf+1) > 2/epsF {
			return "nearzero:prefix-only"
		}
		return "nearzero:series"
	case x > 0.4*15+4*nf:
		return polyInfLabel5(n, x)
	case x == 1:
		return "x==1"
	case x == 0.5:
		return "x==0.5"
	}
	N := 6 + 4*n
	iter := N - int(math.Trunc(x))
	z := x + float64(iter)
	if math.Log(z)*float64(-n-1) > -maxLog {
		return "transition:lin+" + polyInfLabel5(n, z)
	}
	return "transition:log+" + polyInfLabel5(n, z)
}

// ---------------------------------------------------------------- replicas of the control flow (comparison tags)

func polyPreds5(n int, x0 float64) []predEv {
	var ev []predEv
	cmp := func(fn, key string, l, r, unit float64, t bool) bool {
		ev = append(ev, predEv{fn + "|" + key, l, r, unit, t})
		return t
	}
	nf := float64(n)
	if cmp("Polygamma", "n==0", nf, 0, 1, n == 0) || cmp("Polygamma", "n==1", nf, 1, 1, n == 1) {
		return ev
	}
	atinf := func(x float64) {
		A := "polygamma_atinfinityplus"
		if cmp(A, "float64(n)+x==x", nf+x, x, 0, nf+x == x) {
			cmp(A, "n==1", nf, 1, 1, false)
			if cmp(A, "nlx<MaxLogFloat64", nf*math.Log(x), maxLog, 0, nf*math.Log(x) < maxLog) {
				cmp(A, "n<factorialMax", nf, factMax5, 1, n < factMax5)
			}
			cmp(A, "n&1==1", float64(n&1), 1, 1, n&1 == 1)
			return
		}
		pt := 0.0
		if cmp(A, "n>factorialMax", nf, factMax5, 1, n > factMax5) && cmp(A, "float64(n)*float64(n)>MaxLogFloat64", nf*nf, maxLog, 2*nf, nf*nf > maxLog) {
		} else {
			pt = sp.Factorial(n-1) * math.Pow(x, float64(-n-1))
		}
		// part_term == 0: "adjacent" when the power is within a factor 2^64 of the underflow threshold
		lp := float64(-n-1) * math.Log2(x)
		cmp(A, "part_term==0", lp, -1074, 64, pt == 0)
		o, _ := safe(func() float64 { return sp.Polygamma(n, x) })
		cmp(A, "sum==0.0", o, 0, 0x1p-1000, o == 0)
		cmp(A, "(n-1)&1==1", float64((n-1)&1), 1, 1, (n-1)&1 == 1)
	}
	var imp func(x float64)
	imp = func(x float64) {
		P := "polygamma_imp"
		if cmp(P, "n<0", nf, 0, 2, n < 0) {
			return
		}
		if cmp(P, "x<0.0", x, 0, 0.5, x < 0) {
			isInt := math.Floor(x) == x
			cmp(P, "math.Floor(x)==x", math.Floor(x), x, 0.5, isInt)
			cmp(P, "n&1==1", float64(n&1), 1, 1, n&1 == 1)
			if isInt {
				return
			}
			imp(1 - x)
			C := "poly_cot_pi"
			cmp(C, "math.Abs(x)<math.Abs(xc)", math.Abs(1-x), math.Abs(x), 1, math.Abs(1-x) < math.Abs(x))
			cmp(C, "index&1==1", float64((n-1)&1), 1, 1, (n-1)&1 == 1)
			if n > 20 {
				cmp(C, "offset==0", 0, 0, 1, true)
				cmp(C, "offset==0", 1, 0, 1, false)
				cmp(C, "cos_order!=0", 0, 0, 1, false)
				cmp(C, "cos_order!=0", 1, 0, 1, true)
				s := sp.SinPi(x)
				if math.Abs(1-x) < math.Abs(x) {
					s = sp.SinPi(1 - x)
				}
				cmp(C, "s==0", s, 0, 0, s == 0)
				if cmp(C, "s<0", s, 0, 0.5, s < 0) {
					cmp(C, "(n+1)&1==1", float64((n+1)&1), 1, 1, (n+1)&1 == 1)
				}
			}
			return
		}
		lim := math.Min(5/nf, 0.25)
		if cmp(P, "x<small_x_limit", x, lim, 0, x < lim) {
			Z := "polygamma_nearzero"
			prefix := 1 / math.Pow(x, nf+1)
			scale := sp.Factorial(n)
			if cmp(Z, "prefix>2.0/EpsilonFloat64", prefix, 2/epsF, 2/epsF*1e-3*(nf+1), prefix > 2/epsF) {
				if cmp(Z, "math.MaxFloat64/prefix<scale", math.MaxFloat64/prefix, scale, 0, math.MaxFloat64/prefix < scale) {
					cmp(Z, "n&1==1", float64(n&1), 1, 1, n&1 == 1)
					return
				}
			}
			cmp(Z, "n&1==1", float64(n&1), 1, 1, n&1 == 1)
			return
		}
		if cmp(P, "x>0.4*digitsBase10+4.0*float64(n)", x, 6+4*nf, 0, x > 6+4*nf) {
			atinf(x)
			return
		}
		if cmp(P, "x==1", x, 1, 0, x == 1) {
			cmp(P, "n&1==1", float64(n&1), 1, 1, n&1 == 1)
			return
		}
		if cmp(P, "x==0.5", x, 0.5, 0, x == 0.5) {
			cmp(P, "n&1==0", float64(n&1), 0, 1, n&1 == 0)
			r := sp.Factorial(n) * sp.Zeta(nf+1)
			cmp(P, "math.Abs(result)>=math.MaxFloat64*math.Pow(2.0,float64(-n-1))", r, math.MaxFloat64*math.Pow(2, float64(-n-1)), 0, r >= math.MaxFloat64*math.Pow(2, float64(-n-1)))
			return
		}
		T := "polygamma_attransitionplus"
		iter := 6 + 4*n - int(math.Trunc(x))
		cmp(T, "iter>SeriesIterationsMax", float64(iter), 1e6, 1, false)
		z := x + float64(iter)
		l := math.Log(z) * float64(-n-1)
		cmp(T, "math.Log(z+float64(iter))*float64(minus_m_minus_one)>-MaxLogFloat64", l, -maxLog, 8, l > -maxLog)
		cmp(T, "(n-1)&1==1", float64((n-1)&1), 1, 1, (n-1)&1 == 1)
		atinf(z)
	}
	imp(x0)
	return ev
}

func zetaPreds5(s0 float64) []predEv {
	var ev []predEv
	cmp := func(fn, key string, l, r, unit float64, t bool) bool {
		ev = append(ev, predEv{fn + "|" + key, l, r, unit, t})
		return t
	}
	prec := func(s float64) {
		Q := "zeta_imp_prec"
		_ = cmp(Q, "s<1.0", s, 1, 0, s < 1) || cmp(Q, "s<=2.0", s, 2, 0, s <= 2) || cmp(Q, "s<=4.0", s, 4, 0, s <= 4) || cmp(Q, "s<=7.0", s, 7, 0, s <= 7) ||
			cmp(Q, "s<15.0", s, 15, 0, s < 15) || cmp(Q, "s<36.0", s, 36, 0, s < 36) || cmp(Q, "s<56.0", s, 56, 0, s < 56)
	}
	var imp func(s, sc float64, depth int)
	imp = func(s, sc float64, depth int) {
		Z := "zeta_imp"
		if cmp(Z, "sc==0", sc, 0, 0x1p-50, sc == 0) || cmp(Z, "s>float64(PrecisionFloat64)", s, 53, 0, s > 53) {
			return
		}
		if cmp(Z, "math.Floor(s)==s", math.Floor(s), s, 0, math.Floor(s) == s) {
			v := int(math.Trunc(s))
			cmp(Z, "float64(v)==s", float64(v), s, 0, true)
			if cmp(Z, "v<0", s, 0, 1, v < 0) {
				cmp(Z, "(-v&1)==1", float64(-v&1), 1, 1, (-v&1) == 1)
			} else if cmp(Z, "(v&1)==0", float64(v&1), 0, 1, (v&1) == 0) {
				cmp(Z, "((v/2-1)&1)==1", float64((v/2-1)&1), 1, 1, ((v/2-1)&1) == 1)
			} else {
				cmp("zeta_imp_odd_integer", "index>=len(results)", float64((v-3)/2), 50, 1, (v-3)/2 >= 50)
			}
			return
		}
		if cmp(Z, "math.Abs(s)<rootEpsilon", math.Abs(s), rootEps5, 0, math.Abs(s) < rootEps5) {
			return
		}
		if cmp(Z, "s<0", s, 0, 1e-7, s < 0) {
			s, sc = sc, s
			cmp(Z, "math.Floor(sc/2.0)==sc/2.0", math.Floor(sc/2), sc/2, 0.5, false)
			if cmp(Z, "s>float64(factorialMax)", s, factMax5, 1, s > factMax5) {
				lg, _ := math.Lgamma(s)
				r := lg - s*math.Log(2*math.Pi)
				cmp(Z, "result>MaxLogFloat64", r, maxLog, 8, r > maxLog)
			}
			if depth < 2 {
				imp(s, sc, depth+1)
			}
			return
		}
		prec(s)
	}
	imp(s0, 1-s0, 0)
	return ev
}

// ---------------------------------------------------------------- anchors

func (b *builder) zetaTiny() {
	re := rootEps5
	mags := []float64{0x1p-1074, 1e-300, 1e-100, 1e-30, 1e-20, 1e-17, 1e-12, 1e-10, 1e-9, 3e-9, 6e-9, 1e-8, 1.2e-8, 1.4e-8, 1.49e-8, down(re),
		re, up(re), 1.4902e-8, 1.5e-8, 2e-8, 5e-8, 1e-7, 1e-6, 1e-5}
	for _, m := range mags {
		for _, s := range []float64{m, -m} {
			obs := sp.Zeta(s)
			ref := zetaT3(s)
			lab := "r5:tiny:inside"
			if math.Abs(s) >= re {
				lab = "r5:tiny:outside:" + zetaLabel5(s)
			}
			an := &Anchor{Fam: "zeta5", Label: lab, Fn: "ZetaTiny", x: s, obs: obs, ref: ref,
				Desc: fmt.Sprintf("Zeta(%v) vs the Taylor polynomial of degree 3 at 0 [|s| < rootEpsilon window]", s), Bnd: true}
			an.tol = 4*0x1p-53 + 4*s*s*s*s
			an.tac = "unf4; interval with (i_prec 90)"
			an.goal = stdGoal("zeta_T3 "+R(s), obs, an.tol)
			b.add(an)
		}
	}
}

func (b *builder) zetaSeries() {
	ss := []float64{down(7), up(7), 7.5, 10.5, down(15), up(15), 20.5, down(36), up(36), 40.5, down(53), down(56), up(56) - 3, 7, 9, 11, 15, 21, 35, 37, 51, 53}
	if !b.quick {
		ss = append(ss, 6.5, 8.25, 12.75, 14.5, 15.5, 30.5, 35.5, 36.5, 45.5, 52.5, 13, 17, 19, 25, 33, 45)
	}
	for _, s := range ss {
		obs := sp.Zeta(s)
		ref := zetaRefSeries(s)
		K := int(math.Ceil(math.Pow(2, 58/s))) + 2
		an := &Anchor{Fam: "zeta5", Label: "r5:series:" + zetaLabel5(s), Fn: "ZetaSeries", K: K, x: s, obs: obs, ref: ref,
			Desc: fmt.Sprintf("Zeta(%v) vs the series with integral tail bound (%d terms)", s, K), Bnd: true}
		an.tol = 8 * ulp * ref
		an.tac = "unf4; interval with (i_prec 90)"
		an.goal = fmt.Sprintf("Rabs (hz_mid %s 1 %s - %s) + hz_rad %s 1 %s <= %s", R(s), nat(K), R(obs), R(s), nat(K), R(an.tol))
		b.add(an)
	}
	// trivial branch s > PrecisionFloat64: exactly 1
	for _, s := range []float64{up(53), 53.5, 55, 56.5, 1e3, 1e300} {
		o := sp.Zeta(s)
		an := &Anchor{Fam: "zeta5", Label: "r5:one", Fn: "ZetaOne", x: s, obs: o, ref: 1, Desc: fmt.Sprintf("Zeta(%v) = 1 exactly (zeta - 1 < 2^-53)", s), Bnd: true}
		b.exactAnchor(an, o == 1)
	}
	// reflected argument on both sides of factorialMax = 21, and the overflow of the log-domain product
	for _, m := range []int{19, 21, 259, 270, 271, 300} {
		s := -(float64(m) + 0.5)
		o := sp.Zeta(s)
		if m < 100 {
			zpos := sp.Zeta(1 - s)
			an := &Anchor{Fam: "zeta", Label: "r5:reflect:" + zetaLabel5(s), Fn: "ZetaReflect", K: m, x: s, obs: o, ref: o, X2: fhex(zpos),
				Desc: fmt.Sprintf("Zeta(%v) vs the functional equation applied to Zeta(%v)", s, 1-s), Bnd: true}
			an.tol = 64 * ulp * (2 + float64(m)/4) * math.Abs(o)
			an.tac = "unfold zeta_reflect_mhalf; " + ivTac(140)
			an.goal = fmt.Sprintf("Rabs (zeta_reflect_mhalf %s %s - %s) <= %s", nat(m), R(zpos), R(o), R(an.tol))
			b.add(an)
			continue
		}
		lg, _ := math.Lgamma(1 - s)
		lr := math.Log(2) + (s-1)*math.Log(2*math.Pi) + lg + math.Log(math.Abs(math.Sin(math.Pi*s/2)))
		an := &Anchor{Fam: "zeta", Label: "r5:reflect:overflow", Fn: "ZetaOverflow", K: m, x: s, obs: o, ref: math.Inf(1),
			Desc: fmt.Sprintf("Zeta(%v): ln|zeta| = %.1f, overflow to +-Inf of the sign of sin(pi s/2) iff > 709.78", s, lr), Bnd: true}
		sg := 1
		if math.Sin(math.Pi*s/2) < 0 {
			sg = -1
		}
		if lr > 711 {
			b.exactAnchor(an, math.IsInf(o, sg))
		} else if lr < 708 {
			b.exactAnchor(an, finite(o) && math.Abs(math.Log(math.Abs(o))-lr) < 1e-9*lr && (o > 0) == (sg > 0))
		}
	}
}

// number of terms such that the tail radius is below 2^-bits relative
func hzTerms(n int, x float64, bits float64) int {
	K := int(math.Ceil(x*(math.Pow(2, bits/float64(n+1))-1))) + 2
	if K < 4 {
		K = 4
	}
	return K
}

func (b *builder) polySeries(n int, x float64, why string, maxK int) {
	K := hzTerms(n, x, 54)
	if float64(n)/x < 0x1p-56 {
		K = 0 // huge x: the integral alone is within n/(2x) relative
	}
	wide := 0.0
	if K > maxK {
		if x < 50*float64(n) {
			return
		}
		// mid-large x: too many terms for the tight enclosure; the integral alone encloses to n/(2x) relative (coarser anchor)
		K, wide = 0, 2.2*float64(n)/(2*x)
		why += ":wide"
	}
	obs, p := safe(func() float64 { return sp.Polygamma(n, x) })
	ref := polyRefBig(n, x)
	an := &Anchor{Fam: "polygamma5", Label: "r5:" + why + ":" + polyLabel5(n, x), Fn: "PolygammaSeries", H: int(2 * x), K: n, x: x, obs: obs, ref: ref,
		Desc: fmt.Sprintf("Polygamma(%d, %v) vs the series with integral tail bound (%d terms) [%s]", n, x, K, why), Bnd: true}
	an.tol = (8*float64(n+2)*ulp + wide) * math.Abs(ref)
	if p {
		an.NonFin = true
	}
	switch {
	case !finite(ref) || math.Abs(ref) > 1e300:
		an.Skip = "closed form overflows binary64"
	case math.Abs(ref) < 1e-290:
		an.Skip = "value below 1e-290 (gradual underflow)"
	}
	an.tac = "unf4; interval with (i_prec 80)"
	an.goal = fmt.Sprintf("Rabs (polyg_mid %s %s %s - %s) + polyg_rad %s %s %s <= %s", nat(n), R(x), nat(K), R(obs), nat(n), R(x), nat(K), R(an.tol))
	b.add(an)
	if an.Skip == "" && !an.NonFin && finite(obs) && math.Abs(obs-ref) > 1e-9*math.Abs(ref) && polyInfLabel5(n, x) == "asym:lin" &&
		float64(-n-1)*math.Log2(x) < -1022 {
		an.KF = "C13-polygamma-subnormal-power"
		an.Skip = "known finding: Pow(x, -n-1) is a subnormal (not 0, so the log-domain initialisation is not selected) and the result inherits its few bits"
	}
}

func (b *builder) polyRecur(n int, x float64, why string) {
	p0, q0 := safe(func() float64 { return sp.Polygamma(n, x) })
	p1, q1 := safe(func() float64 { return sp.Polygamma(n, x+1) })
	st := fact(n) / math.Pow(x, float64(n+1))
	if n%2 == 1 {
		st = -st
	}
	an := &Anchor{Fam: "polygamma5", Label: "r5:recur:" + why + ":" + polyLabel5(n, x) + "|" + polyLabel5(n, x+1), Fn: "PolygammaRecur", H: int(2 * x), K: n, x: x,
		obs: p1 - p0, ref: st, X2: fhex(p1), Desc: fmt.Sprintf("Polygamma(%d, %v + 1) - Polygamma(%d, %v) vs (-1)^n n!/x^(n+1) [%s]", n, x, n, x, why), Bnd: true}
	an.tol = 16 * float64(n+2) * ulp * (math.Abs(p0) + math.Abs(p1))
	if q0 || q1 || !finite(p0) || !finite(p1) {
		an.NonFin = true
	}
	if math.Abs(p1) < 1e-290 {
		an.Skip = "value below 1e-290 (gradual underflow)"
	}
	an.tac = "unf4; interval with (i_prec 80)"
	an.goal = fmt.Sprintf("Rabs (polyg_step %s %s - (%s - %s)) <= %s", nat(n), R(x), R(p1), R(p0), R(an.tol))
	b.add(an)
}

func (b *builder) polygammaOrders() {
	ns := []int{21, 22, 26, 27, 28, 100}
	maxK := 900
	if !b.quick {
		ns = []int{2, 3, 8, 16, 20, 21, 22, 25, 26, 27, 28, 29, 33, 40, 60, 100, 172}
		maxK = 4000
	}
	for _, n := range ns {
		nf := float64(n)
		T := 6 + 4*nf
		lim := math.Min(5/nf, 0.25)
		// small-x series: inside, both sides of `prefix > 2/eps`, both sides of small_x_limit
		thr := math.Pow(2/epsF, -1/(nf+1))
		xs := []struct {
			x   float64
			why string
		}{{lim / 4, "small-x"}, {down(lim), "small_x_limit"}, {lim, "small_x_limit"}, {0.5, "x==0.5"}, {down(0.5), "x==0.5"}, {up(0.5), "x==0.5"},
			{1, "x==1"}, {down(1), "x==1"}, {up(1), "x==1"}, {2.5, "transition"}, {math.Round(T / 2), "transition"}, {T - 0.5, "transition-point"}, {T, "transition-point"},
			{up(T), "transition-point"}, {2 * T, "asymptotic"}}
		if !b.quick {
			xs = append(xs, struct {
				x   float64
				why string
			}{T + 1, "asymptotic"}, struct {
				x   float64
				why string
			}{math.Round(1.5 * T), "asymptotic"})
		}
		if thr < lim {
			xs = append(xs, struct {
				x   float64
				why string
			}{thr * (1 - 0x1p-12), "prefix>2/eps"}, struct {
				x   float64
				why string
			}{thr * (1 + 0x1p-12), "prefix>2/eps"})
		}
		type xw = struct {
			x   float64
			why string
		}
		xs = append(xs, xw{100 * T, "far-asymptotic"}, xw{0x1p20 * T, "far-asymptotic"})
		if !b.quick {
			xs = append(xs, xw{4 * T, "asymptotic"}, xw{10 * T, "asymptotic"}, xw{1000 * T, "far-asymptotic"}, xw{0x1p30 * T, "far-asymptotic"})
		}
		for _, c := range xs {
			if n < 16 && c.x > 3 {
				continue // small orders: the integral test needs > 1e4 terms beyond x ~ 3 (covered by the difference anchors of round 1)
			}
			b.polySeries(n, c.x, c.why, maxK)
		}
		// exact cross-branch relation across the transition point and across the special points
		rx := []float64{T - 0.5, T, up(T), 0.5, 1, down(lim)}
		if !b.quick {
			rx = append(rx, T-1.5, T+0.5, lim, 2*T)
		}
		for _, x := range rx {
			b.polyRecur(n, x, "x->x+1")
		}
	}
	// overflow test of the forward recursion: (n+1) ln(6+4n) > MaxLog from n = 115 on
	for _, n := range []int{114, 115} {
		for _, x := range []float64{100.5, 300, float64(6+4*n) - 0.5} {
			b.polySeries(n, x, "transition:overflow-test", maxK)
			b.polyRecur(n, x, "transition:overflow-test")
		}
	}
	// huge x: `float64(n) + x == x` on both sides, linear / log form (nlx < MaxLog && n < factorialMax)
	for _, c := range []struct {
		n int
		x float64
	}{{2, 0x1p60}, {3, 0x1p60}, {3, 0x1p53}, {17, 0x1p58}, {18, 0x1p58}, {17, 0x1p56}, {18, 0x1p56}, {12, 0x1p70}, {5, 0x1p200}} {
		b.polySeries(c.n, c.x, "huge-x", maxK)
	}
	// Pow(x, -n-1) underflow for n <= 26 (`part_term == 0` selects the log-domain initialisation): exact powers of two
	// on both sides, and a non-power-of-two argument whose power is SUBNORMAL (known finding)
	for _, c := range []struct {
		n int
		x float64
	}{{26, 0x1p39}, {26, 0x1p40}, {26, 0x1.8p39}, {20, 0x1p51}, {20, 0x1p52}, {16, 0x1p63}, {16, 0x1p64}} {
		b.polySeries(c.n, c.x, "power-underflow", maxK)
	}
	// the leading term underflows: 0 specified (|psi_100(1e10)| = 99!/1e1000)
	for _, c := range []struct {
		n int
		x float64
	}{{100, 1e10}, {101, 1e10}} {
		o, p := safe(func() float64 { return sp.Polygamma(c.n, c.x) })
		an := &Anchor{Fam: "polygamma5", Label: "r5:underflow", Fn: "PolygammaUnderflow", K: c.n, x: c.x, ref: 0, obs: o,
			Desc: fmt.Sprintf("Polygamma(%d, %v) = 0 (the value underflows)", c.n, c.x), Bnd: true}
		b.exactAnchor(an, !p && o == 0)
	}
	// Factorial on both sides of the table length (factorialMax = 21)
	for _, k := range []int{19, 20, 21, 22, 25} {
		o := sp.Factorial(k)
		an := &Anchor{Fam: "factorial5", Label: "r5:factorial", Fn: "Factorial", K: k, x: float64(k), obs: o, ref: fact(k), Desc: fmt.Sprintf("Factorial(%d)", k), Bnd: true}
		an.tol = 0
		if k > 22 {
			an.tol = 2 * ulp * o
		}
		an.tac = "unf4; interval with (i_prec 120)"
		an.goal = fmt.Sprintf("Rabs (IZR (zfact %s) - %s) <= %s", nat(k), R(o), R(an.tol))
		b.add(an)
	}
	// order < 0: panic specified
	_, p := safe(func() float64 { return sp.Polygamma(-1, 1.5) })
	an := &Anchor{Fam: "polygamma5", Label: "r5:n<0", Fn: "PolygammaNegOrder", K: -1, x: 1.5, ref: math.NaN(), Desc: "Polygamma(-1, 1.5): panic specified", Bnd: true}
	b.exactAnchor(an, p)
	// reflection with a computed cotangent table (n > 20)
	for _, n := range []int{21, 22} {
		p1 := sp.Polygamma(n, 1)
		mult := math.Pow(2, float64(n+1)) - 1
		for _, m := range []int{1, 2} {
			x := 0.5 - float64(m)
			obs := sp.Polygamma(n, x)
			ref := polygNegHalfRef(n, m)
			an := &Anchor{Fam: "polygamma", Label: "r5:reflect:table", Fn: "PolygammaNegHalf", H: int(2 * x), K: n, x: x, obs: obs, ref: ref, X2: fhex(p1),
				Desc: fmt.Sprintf("Polygamma(%d, %v) - %v*Polygamma(%d, 1)", n, x, mult, n), Bnd: true}
			an.tol = 256 * ulp * (math.Abs(obs) + mult*math.Abs(p1) + math.Abs(ref))
			an.tac = "unfold polyg_mhalf_diff; " + ivTac(120)
			an.goal = fmt.Sprintf("Rabs (polyg_mhalf_diff %s %s - (%s - %s * %s)) <= %s", nat(n), nat(m), R(obs), R(mult), R(p1), R(an.tol))
			b.add(an)
		}
	}
}

func (b *builder) round5() {
	b.zetaTiny()
	b.zetaSeries()
	b.polygammaOrders()
}
