package main

// Round 6: accuracy RELATIVE TO THE RESULT in the regime where the result is near zero / crosses zero, and
// sign-symmetric arguments far below every negative threshold.
//
//	LogAdd / LogSub   arguments far apart with the larger one 0 or tiny (LogAdd(-40, 0) = 4.2e-18), results that cross
//	                  zero by cancellation (b = -log1p(e^(a-b))), equal arguments, both argument orders; the tolerance is
//	                  the standard-model bound of Props.LogAdd/LogSub_rounding_error_relative_to_result with u = 2^-51
//	                  (Spec6.la_bound / ls_bound at u = 2^-51, evaluated by Coq-Interval in the goal itself), i.e. u |result| +
//	                  u (3 + |a-b|) e^(a-b): NOT an absolute bound.
//	integer-order I_n references certified by the power series with a geometric tail bound (Spec6 / Props
//	                  BesselI_integer_order_series_enclosure): BesselI(n, x), LogBesselI(n, x), and ln I_0(x) = x^2/4 - ...
//	                  for tiny x (a result near zero that the code obtains through LogAdd(.., 0)).
//	LogErfc           tiny |x| (result -2x/sqrt(pi) near zero, relative), x < -8 down to -MaxFloat64 (ln 2).
//	reflection symmetric arguments far below the negative thresholds of Digamma / Trigamma.

import (
	"fmt"
	"math"

	. "adharness/common"

	la "github.com/pbenner/autodiff/logarithmetic"
	sp "github.com/pbenner/autodiff/special"
)

// unit roundoff used in the anchor goals: 2^-51 = twice the <1 ulp error that Go documents for math.Exp / math.Log1p
const u52 = 0x1p-51

// float64 evaluation of Spec6.la_bound / ls_bound (diagnostics, hunt and replay; the decision is the Coq goal)
func laPert(u, d float64) float64 { return math.Expm1(math.Abs(d)*u) + u*math.Exp(math.Abs(d)*u) }
func laBound(u, lo, hi float64) float64 {
	d := lo - hi
	ex := hi + math.Log1p(math.Exp(d))
	return u*math.Abs(ex) + (1+u)*(u+(1+u)*laPert(u, d))*math.Exp(d)
}
func lsBound(u, a, b float64) float64 {
	d := b - a
	e := math.Exp(d)
	p := laPert(u, d)
	ex := a + math.Log1p(-e)
	return u*math.Abs(ex) + (1+u)*(u*-math.Log1p(-e)+(1+u)*e*p/(1-e*(1+p)))
}

// independent float64 references (cancellation-free forms)
func logAddRef(a, b float64) float64 {
	lo, hi := math.Min(a, b), math.Max(a, b)
	return hi + math.Log1p(math.Exp(lo-hi))
}
func logSubRef(a, b float64) float64 { return a + math.Log1p(-math.Exp(b-a)) }

func logPairLabel(a, b float64, ref float64) string {
	d := math.Abs(a - b)
	s := "near"
	switch {
	case d > 36:
		s = "far(>36)"
	case d > 18:
		s = "far(>18)"
	}
	hi := math.Max(a, b)
	switch {
	case hi == 0:
		s += ":larger=0"
	case math.Abs(hi) < 1e-6:
		s += ":larger-tiny"
	}
	if math.Abs(ref) < 1e-6*(1+math.Abs(hi)) || math.Abs(ref) < 1e-9 {
		s += ":result~0"
	}
	return s
}

// oracle6: float64 property oracle of the round-6 anchor kinds with one or two float arguments
func oracle6(fn string, h, k int, args []float64) (ok bool, obs, ref float64, label string) {
	if isRound7(fn) {
		return oracle7(fn, h, args[0])
	}
	switch fn {
	case "LogAdd6":
		if len(args) < 2 {
			return true, 0, 0, ""
		}
		a, b := args[0], args[1]
		obs, ref = la.LogAdd(a, b), logAddRef(a, b)
		label = "logadd:" + logPairLabel(a, b, ref)
		if !finite(ref) {
			return obs == ref || (math.IsNaN(obs) && math.IsNaN(ref)), obs, ref, label
		}
		return finite(obs) && math.Abs(obs-ref) <= 4*laBound(u52, math.Min(a, b), math.Max(a, b))+0x1p-1070, obs, ref, label
	case "LogSub6":
		if len(args) < 2 {
			return true, 0, 0, ""
		}
		a, b := args[0], args[1]
		obs, ref = la.LogSub(a, b), logSubRef(a, b)
		label = "logsub:" + logPairLabel(a, b, ref)
		if !finite(ref) {
			return obs == ref || (math.IsNaN(obs) && math.IsNaN(ref)), obs, ref, label
		}
		return finite(obs) && math.Abs(obs-ref) <= 4*lsBound(u52, a, b)+0x1p-1070, obs, ref, label
	case "BesselInt6", "LogBesselInt6":
		n, x := h/2, args[0]
		label = besselLabel(float64(n), x) + ":integer-order"
		var p bool
		if fn == "BesselInt6" {
			obs, p = safe(func() float64 { return sp.BesselI(float64(n), x) })
			ref = besselSeriesInt(n, x)
			if math.IsInf(ref, 1) { // I_n(x) overflows binary64 (x > ~713.98): +Inf is the specified outcome
				return !p && math.IsInf(obs, 1), obs, ref, label
			}
			return !p && finite(obs) && math.Abs(obs-ref) <= 64*ulp*(1+x/8)*math.Abs(ref), obs, ref, label
		}
		obs, p = safe(func() float64 { return sp.LogBesselI(float64(n), x) })
		ref = lnBesselInt(n, x)
		if !finite(ref) { // the float64 reference series overflowed: this oracle cannot decide
			return !p && !math.IsNaN(obs), obs, ref, label
		}
		return !p && finite(obs) && math.Abs(obs-ref) <= logBesselTol6(n, x, ref), obs, ref, label
	case "LogErfcTiny6":
		x := args[0]
		obs, ref = sp.LogErfc(x), logErfcTinyRef(x)
		return finite(obs) && math.Abs(obs-ref) <= 16*ulp*math.Abs(ref), obs, ref, "logerfc:series:tiny"
	case "LogErfcNeg6":
		x := args[0]
		obs, ref = sp.LogErfc(x), math.Ln2
		return math.Abs(obs-ref) <= 2*ulp, obs, ref, "logerfc:negative:ln2"
	case "DigammaReflect6":
		x := args[0] // x = 1/2 - m: psi(1/2 - m) = psi(1/2 + m) (pi cot(pi x) vanishes)
		obs, ref = sp.Digamma(x), sp.Digamma(1-x)
		return finite(obs) && math.Abs(obs-ref) <= 16*ulp*math.Abs(ref), obs, ref, "digamma:reflect:far"
	case "TrigammaReflect6":
		x := args[0] // psi_1(1/2 - m) + psi_1(1/2 + m) = pi^2
		obs, ref = sp.Trigamma(x), math.Pi*math.Pi-sp.Trigamma(1-x)
		return finite(obs) && math.Abs(obs-ref) <= 16*ulp*math.Abs(ref), obs, ref, "trigamma:reflect:far"
	}
	return true, 0, 0, ""
}

func isRound6(fn string) bool {
	if isRound7(fn) {
		return true
	}
	switch fn {
	case "LogAdd6", "LogSub6", "BesselInt6", "LogBesselInt6", "LogErfcTiny6", "LogErfcNeg6", "DigammaReflect6", "TrigammaReflect6":
		return true
	}
	return false
}

// ln I_n(x), integer n, x > 0, in float64 without cancellation: for n = 0 through log1p of the series without its leading 1
func lnBesselInt(n int, x float64) float64 {
	if n == 0 {
		y := x * x / 4
		s, t := 0.0, 1.0
		for k := 1; k < 3000; k++ {
			t *= y / float64(k) / float64(k)
			s += t
			if t < s*1e-19 {
				break
			}
		}
		if !finite(s) {
			return math.Inf(1)
		}
		return math.Log1p(s)
	}
	return math.Log(besselSeriesInt(n, x))
}

// tolerance of LogBesselI at integer order.  Order 0: the code evaluates LogAdd(a + P(a), 0) with a = 2 ln x - ln 4; the rounding of a
// (relative 2^-53, absolute |a| 2^-53) is a RELATIVE error of exp(a), so the attainable accuracy relative to the result is ~ (3 + |a|) u
// (the standard-model bound la_bound at (a, 0)), not a fixed number of ulps.
func logBesselTol6(n int, x, ref float64) float64 {
	if n == 0 && x < 1 {
		a := 2*math.Log(x) - math.Log(4)
		return 4 * ulp * (4 + math.Abs(a)) * math.Abs(ref)
	}
	return 64 * ulp * (1 + math.Abs(ref) + x/8)
}

// ln erfc(x) for tiny |x|: -2x/sqrt(pi) - 2x^2/pi - ...
func logErfcTinyRef(x float64) float64 {
	y := x / math.SqrtPi
	return -2 * y * (1 + y*(1+y*(4-math.Pi)/3))
}

// number of series terms such that the geometric tail bound is below 2^-bits of the scale `target`
func besselTerms6(n int, x float64, target float64, bits float64) int {
	y := x * x / 4
	t := math.Pow(x/2, float64(n)) / fact(n) // t_0
	for K := 0; K < 4000; K++ {
		q := y / (float64(K+1) * float64(n+K+1))
		if q <= 0.5 && 2*t <= target*math.Pow(2, -bits) {
			return K
		}
		t *= q
	}
	return 4000
}

func (b *builder) logarith6(rng *Rng) {
	type pair struct {
		a, b float64
		why  string
	}
	var ps []pair
	add := func(a, bb float64, why string) { ps = append(ps, pair{a, bb, why}) }
	// larger argument 0: the result is log1p(e^a) itself
	for _, a := range []float64{-40, -38, -37, -36.5, up(-36), -36, down(-36), -35.5, -30, -20, -18.5, -18, -50, -100, -300, -700} {
		add(a, 0, "larger=0")
	}
	// larger argument tiny of either sign
	for _, t := range []float64{1e-12, -1e-12, 1e-17, -1e-17, 4e-18, 1e-25, -1e-30, 1e-300} {
		for _, a := range []float64{-38, -40, -60} {
			add(a, t, "larger tiny")
		}
	}
	// the result crosses zero: b = -log1p(e^d), a = b + d
	for _, d := range []float64{-0.5, -1, -5, -20, -36.5, -37, -40, -100} {
		bb := -math.Log1p(math.Exp(d))
		for _, c := range []float64{bb, up(bb), down(bb), bb * (1 + 1e-9)} {
			add(c+d, c, "result crosses zero")
		}
	}
	// equal arguments, and -ln 2 (result ~ 0)
	for _, x := range []float64{0, -1e-17, 1e-300, -math.Ln2, up(-math.Ln2), 700, -700} {
		add(x, x, "equal arguments")
	}
	// seed-dependent: distance log-uniform in [1e-3, 700], larger argument 0 / tiny / moderate
	n := 8
	if !b.quick {
		n = 120
	}
	for i := 0; i < n; i++ {
		d := -math.Exp(rng.Float()*math.Log(700e3)) / 1e3
		d = math.Round(d*1024) / 1024
		hi := 0.0
		switch i % 4 {
		case 1:
			hi = math.Exp(-rng.Float()*80) * (1 - 2*float64(i%8/4))
		case 2:
			hi = math.Round((rng.Float()*4-2)*1024) / 1024
		case 3:
			hi = -math.Log1p(math.Exp(d)) // result ~ 0
		}
		add(hi+d, hi, "random")
	}
	for i, p := range ps {
		lo, hi := math.Min(p.a, p.b), math.Max(p.a, p.b)
		// both argument orders
		x, y := p.a, p.b
		if i%2 == 1 {
			x, y = p.b, p.a
		}
		obs := la.LogAdd(x, y)
		ref := logAddRef(x, y)
		tol := laBound(u52, lo, hi)
		an := &Anchor{Fam: "logadd6", Label: logPairLabel(x, y, ref) + ":" + p.why, Fn: "LogAdd6", x: x, X2: fhex(y), obs: obs, ref: ref, tol: tol, Bnd: true,
			Desc: fmt.Sprintf("LogAdd(%v, %v) relative to the result (%s)", x, y, p.why)}
		if tol < 0x1p-1000 {
			an.Skip = "tolerance underflows"
		}
		prec := 140 + int(math.Max(0, -math.Log2(math.Max(tol, 0x1p-1060)/math.Max(math.Abs(hi), 1))))
		an.tac = fmt.Sprintf("unf6; interval with (i_prec %d)", prec)
		an.goal = fmt.Sprintf("Rabs (la_exact %s %s - %s) <= la_bound (/ 2 ^ 51) %s %s", R(lo), R(hi), R(obs), R(lo), R(hi))
		b.add(an)
		// LogSub(hi, lo): ln(e^hi - e^lo), needs lo < hi separated beyond the roundings
		if d := lo - hi; d < -1e-6 {
			obs2 := la.LogSub(hi, lo)
			ref2 := logSubRef(hi, lo)
			tol2 := lsBound(u52, hi, lo)
			an2 := &Anchor{Fam: "logsub6", Label: logPairLabel(hi, lo, ref2) + ":" + p.why, Fn: "LogSub6", x: hi, X2: fhex(lo), obs: obs2, ref: ref2, tol: tol2, Bnd: true,
				Desc: fmt.Sprintf("LogSub(%v, %v) relative to the result (%s)", hi, lo, p.why)}
			if tol2 < 0x1p-1000 {
				an2.Skip = "tolerance underflows"
			}
			prec2 := 140 + int(math.Max(0, -math.Log2(math.Max(tol2, 0x1p-1060)/math.Max(math.Abs(hi), 1))))
			an2.tac = fmt.Sprintf("unf6; interval with (i_prec %d)", prec2)
			an2.goal = fmt.Sprintf("Rabs (ls_exact %s %s - %s) <= ls_bound (/ 2 ^ 51) %s %s", R(hi), R(lo), R(obs2), R(hi), R(lo))
			b.add(an2)
		}
	}
	// LogSub results that cross zero: e^a - e^b = 1, a = log1p(e^b)
	for _, bb := range []float64{0, -1, -5, -40, 1, 3} {
		a0 := logAddRef(bb, 0)
		for _, a := range []float64{a0, up(a0), down(a0)} {
			obs := la.LogSub(a, bb)
			ref := logSubRef(a, bb)
			tol := lsBound(u52, a, bb)
			an := &Anchor{Fam: "logsub6", Label: logPairLabel(a, bb, ref) + ":result crosses zero", Fn: "LogSub6", x: a, X2: fhex(bb), obs: obs, ref: ref, tol: tol, Bnd: true,
				Desc: fmt.Sprintf("LogSub(%v, %v) relative to the result (e^a - e^b ~ 1)", a, bb)}
			an.tac = "unf6; interval with (i_prec 200)"
			an.goal = fmt.Sprintf("Rabs (ls_exact %s %s - %s) <= ls_bound (/ 2 ^ 51) %s %s", R(a), R(bb), R(obs), R(a), R(bb))
			b.add(an)
		}
	}
}

func (b *builder) besselInt6() {
	one := func(n int, x float64, logv bool, why string) {
		if logv {
			obs, p := safe(func() float64 { return sp.LogBesselI(float64(n), x) })
			ref := lnBesselInt(n, x)
			tol := logBesselTol6(n, x, ref)
			an := &Anchor{Fam: "logbessel", Label: besselLabel(float64(n), x) + ":integer-order:" + why, Fn: "LogBesselInt6", H: 2 * n, K: n, x: x, obs: obs, ref: ref, tol: tol, Bnd: true,
				Desc: fmt.Sprintf("LogBesselI(%d, %v) vs ln of the certified power series (%s)", n, x, why)}
			if p {
				an.NonFin = true
			}
			target := math.Pow(x/2, float64(n)) / fact(n)
			if n == 0 {
				target = math.Min(1, x*x/4)
			}
			K := besselTerms6(n, x, target*math.Min(1, tol/math.Max(math.Abs(ref), 1e-300)), 30)
			prec := 120 + int(math.Max(0, -math.Log2(math.Max(tol, 0x1p-1060))))
			an.tac = fmt.Sprintf("unf6; repeat split; interval with (i_prec %d)", prec)
			an.goal = fmt.Sprintf("bessel_q %s %s %s < 1 /\\ 0 < bessel_partial_nest %s %s %s /\\ Rabs (ln (bessel_partial_nest %s %s %s) - %s) + bessel_rad %s %s %s / bessel_partial_nest %s %s %s <= %s",
				nat(n), R(x), nat(K), nat(n), R(x), nat(K), nat(n), R(x), nat(K), R(obs), nat(n), R(x), nat(K), nat(n), R(x), nat(K), R(tol))
			if tol < 0x1p-1000 {
				an.Skip = "tolerance underflows"
			}
			b.add(an)
			return
		}
		obs, p := safe(func() float64 { return sp.BesselI(float64(n), x) })
		ref := besselSeriesInt(n, x)
		tol := 64 * ulp * (1 + x/8) * math.Abs(ref)
		an := &Anchor{Fam: "bessel", Label: besselLabel(float64(n), x) + ":integer-order:" + why, Fn: "BesselInt6", H: 2 * n, K: n, x: x, obs: obs, ref: ref, tol: tol, Bnd: true,
			Desc: fmt.Sprintf("BesselI(%d, %v) vs the certified power series (%s)", n, x, why)}
		if p {
			an.NonFin = true
		}
		switch {
		case !finite(ref) || math.Abs(ref) > 1e300:
			an.Skip = "closed form overflows binary64"
		case tol < 0x1p-1000:
			an.Skip = "tolerance underflows"
		}
		K := besselTerms6(n, x, tol, 20)
		prec := 120 + int(math.Max(0, math.Log2(math.Max(math.Abs(ref), 1)/math.Max(tol, 0x1p-1060))))
		an.tac = fmt.Sprintf("unf6; repeat split; interval with (i_prec %d)", prec)
		an.goal = fmt.Sprintf("bessel_q %s %s %s < 1 /\\ Rabs (bessel_partial_nest %s %s %s - %s) + bessel_rad %s %s %s <= %s",
			nat(n), R(x), nat(K), nat(n), R(x), nat(K), R(obs), nat(n), R(x), nat(K), R(tol))
		b.add(an)
	}
	// ln I_0(x) = x^2/4 - x^4/64 + ... for tiny x: the result itself is tiny
	tiny := []float64{0.5, 0.1, 1e-2, 1e-3, 1e-5, 1e-7, 9e-8, 2e-8, 1e-8, 5e-9, 1e-9, 1e-10, 1e-12, 1e-20, 1e-50, 1e-100, 1e-150}
	if b.quick {
		tiny = []float64{0.1, 1e-3, 1e-7, 9e-8, 1e-8, 5e-9, 1e-9, 1e-12, 1e-50, 1e-150}
	}
	for _, x := range tiny {
		one(0, x, true, "result ~ x^2/4")
	}
	// tiny x at orders >= 1: I_n(x) = (x/2)^n / n! itself tiny (relative tolerance), ln I_n large negative
	for _, n := range []int{1, 2, 5} {
		for _, x := range []float64{1e-8, 1e-30} {
			one(n, x, false, "tiny x")
			one(n, x, true, "tiny x")
		}
	}
	// moderate arguments on both sides of the thresholds 7.75 / 500 of bessel_i0 / bessel_i1 and of x/v < 0.25
	ns := []int{0, 1, 2, 3, 7}
	xs := []float64{0.5, 2, down(7.75), 7.75, 20, 100}
	if b.quick {
		ns = []int{0, 1, 2, 7}
		xs = []float64{0.5, down(7.75), 7.75, 30}
	}
	for _, n := range ns {
		for _, x := range xs {
			one(n, x, false, "moderate x")
			one(n, x, true, "moderate x")
		}
	}
	if !b.quick {
		for _, n := range []int{0, 1} {
			for _, x := range []float64{down(500), 500, 650} {
				one(n, x, false, "large x")
				one(n, x, true, "large x")
			}
		}
	}
	// LogBesselI(n, x) = 0 is crossed where I_n(x) = 1 (n = 1: x ~ 1.8, n = 2: x ~ 2.87): absolute accuracy ~ ulp there
	for _, c := range []struct {
		n int
		x float64
	}{{1, 1.8}, {1, 1.85}, {2, 2.85}, {2, 2.9}} {
		one(c.n, c.x, true, "ln I crosses zero")
	}
}

// LogBesselI(0, x), tiny x: the log-domain formulation LogAdd(2 ln x - ln 4 + ..., 0) loses |2 ln x| ulps relative to the result x^2/4
// (conditioning of ln I_0 at tiny x is 2): proposed finding, matched narrowly (this function, x = 1e-100, error between 32 and 400 ulp)
func (b *builder) logBesselI0Loss6() {
	x := 1e-100
	y := x * x / 4
	ref := y * (1 - y/4)
	obs := sp.LogBesselI(0, x)
	re := math.Abs(obs-ref) / ref / ulp
	an := &Anchor{Fam: "domain-other", Label: "logbessel-i0:tiny-x:log-domain-loss", Fn: "LogBesselI0Tiny6", H: 0, x: x, obs: obs, ref: ref,
		Desc: fmt.Sprintf("LogBesselI(0, %v) relative error %.0f ulp (conditioning 2)", x, re), Bnd: true}
	switch {
	case re > 32 && re < 400:
		an.KF = "C13-LogBesselI0-tiny-x-log-domain-loss"
		an.Skip = fmt.Sprintf("proposed finding C13-LogBesselI0-tiny-x-log-domain-loss: relative error %.0f ulp", re)
		an.obs = 0
		b.add(an)
	default:
		b.exactAnchor(an, re <= 32)
	}
}

func (b *builder) logErfc6() {
	// tiny |x|: ln erfc(x) = -2x/sqrt(pi) - ..., result near zero, RELATIVE tolerance against the series model over R
	xs := []float64{1e-5, -1e-5, 1e-10, -1e-10, 1e-17, -1e-17, 1e-100, -1e-100, 1e-300, -1e-300}
	for _, x := range xs {
		obs := sp.LogErfc(x)
		ref := logErfcTinyRef(x)
		an := &Anchor{Fam: "logerfc", Label: "series:tiny:vs-model", Fn: "LogErfcTiny6", x: x, obs: obs, ref: ref, Bnd: true,
			Desc: fmt.Sprintf("LogErfc(%v) vs series model over R, relative to the (tiny) result", x)}
		an.tol = 16 * ulp * math.Abs(ref)
		prec := 120 + int(-math.Log2(an.tol))
		an.tac = ivTac(90)
		if prec > 90 {
			an.tac = fmt.Sprintf("unf; interval with (i_prec %d)", prec)
		}
		an.goal = stdGoal("logErfc0 "+R(x), obs, an.tol)
		b.add(an)
		if math.Abs(x) >= 1e-100 {
			an2 := &Anchor{Fam: "logerfc", Label: "series:tiny:vs-erfc", Fn: "LogErfcTiny6", x: x, obs: obs, ref: ref, Bnd: true,
				Desc: fmt.Sprintf("LogErfc(%v) vs ln erfc (integral), relative to the (tiny) result", x)}
			an2.tol = 64 * ulp * math.Abs(ref)
			an2.tac = fmt.Sprintf("unf; integral with (i_prec %d, i_relwidth %d)", prec+20, 80)
			an2.goal = stdGoal("ln (erfcR "+R(x)+")", obs, an2.tol)
			b.add(an2)
		}
	}
	// x far below the negative thresholds (-8 of the rational branch mirrored, -1e50 of its overflow guard mirrored, x*x overflow)
	neg := []float64{-8.5, -10, -12.5, -1e3, -1e10, -1e25, down(-1e50), -1e50, up(-1e50), -1.0000001e50, -1e51, -1e100,
		-1.3e154, -1.4e154, -1e155, -1e300, -math.MaxFloat64}
	for _, x := range neg {
		obs := sp.LogErfc(x)
		an := &Anchor{Fam: "logerfc", Label: "dom:negative:ln2:far", Fn: "LogErfcNeg6", x: x, obs: obs, ref: math.Ln2, Desc: fmt.Sprintf("LogErfc(%v) = ln 2 within 2 ulp", x)}
		b.exactAnchor(an, math.Abs(obs-math.Ln2) <= 2*ulp)
	}
}

func (b *builder) reflectFar6() {
	for _, m := range []float64{12, 1e3, 1e6, 1e9, 1e12, 1 << 50} {
		x := 0.5 - m
		if 1-x != 0.5+m {
			continue
		}
		ok, obs, ref, _ := oracle6("DigammaReflect6", 0, 0, []float64{x})
		an := &Anchor{Fam: "digamma", Label: "dom:reflect:far", Fn: "DigammaReflect6", H: 0, x: x, obs: obs, ref: ref,
			Desc: fmt.Sprintf("Digamma(%v) = Digamma(%v) (reflection, cotangent term vanishes)", x, 1-x)}
		b.exactAnchor(an, ok)
		ok2, obs2, ref2, _ := oracle6("TrigammaReflect6", 0, 0, []float64{x})
		an2 := &Anchor{Fam: "trigamma", Label: "dom:reflect:far", Fn: "TrigammaReflect6", H: 0, x: x, obs: obs2, ref: ref2,
			Desc: fmt.Sprintf("Trigamma(%v) = pi^2 - Trigamma(%v)", x, 1-x)}
		b.exactAnchor(an2, ok2)
	}
}

func (b *builder) round6(rng *Rng) {
	b.logarith6(rng)
	b.besselInt6()
	b.logBesselI0Loss6()
	b.logErfc6()
	b.reflectFar6()
}

// hunt for a round-6 anchor: the anchored arguments are already minimal (two-argument families) or shrunk in x
func hunt6(a Anchor) HuntEntry {
	args := []float64{parseF(a.X)}
	if a.Fn == "LogAdd6" || a.Fn == "LogSub6" {
		args = append(args, parseF(a.X2))
	}
	e := HuntEntry{Source: "anchor", Kind: a.Fam, Fn: a.Fn, H: a.H, K: a.K}
	bad := func(v []float64) bool { ok, _, _, _ := oracle6(a.Fn, a.H, a.K, v); return !ok }
	if bad(args) {
		e.Fails = true
		for i := range args {
			i := i
			if args[i] == 0 {
				continue
			}
			args[i] = shrinkFloat(args[i], func(c float64) bool {
				v := append([]float64{}, args...)
				v[i] = c
				return bad(v)
			})
		}
	}
	_, obs, ref, label := oracle6(a.Fn, a.H, a.K, args)
	e.Label = label
	e.Args, e.ArgsDec = hexArgs(args), decs(args)
	e.Failure = fmt.Sprintf("%s(order %d; %v) = %v, reference %v (relative to the result)", a.Fn[:len(a.Fn)-1], a.H/2, args, obs, ref)
	return e
}
