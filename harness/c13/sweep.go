package main

// Dense sweep of the functional relations of the property on the implementation
// (supporting differential testing of the code against itself — NOT the decision;
// it feeds the hunt and the evidence), the hunt (shrinking of a failing argument)
// and the replay of one reported input.

import (
	"encoding/json"
	"fmt"
	"math"
	"os"
	"path/filepath"

	. "adharness/common"

	la "github.com/pbenner/autodiff/logarithmetic"
	sp "github.com/pbenner/autodiff/special"
)

func jsonMarshal(v interface{}) ([]byte, error) { return json.Marshal(v) }

type Finding struct {
	Kind   string   `json:"kind"`
	Args   []string `json:"args"` // hex floats
	Label  string   `json:"label"`
	Detail string   `json:"detail"`
	Pred   string   `json:"pred,omitempty"` // which known wrong value the observation reproduces
	args   []float64
}

type relation struct {
	kind  string
	check func(a []float64) (ok bool, detail, label string)
	fixed func() [][]float64 // deterministic arguments evaluated on every run (boundary grids), before the random ones
}

func relErr(a, b, scale float64) float64 {
	if a == b {
		return 0
	}
	if !finite(a) || !finite(b) {
		return math.Inf(1)
	}
	return math.Abs(a-b) / scale
}

func fact(n int) float64 { return math.Gamma(float64(n) + 1) }

var relations = []relation{
	{"P+Q=1", func(v []float64) (bool, string, string) {
		a, x := v[0], v[1]
		p, q := sp.GammaP(a, x), sp.GammaQ(a, x)
		lab := gammaMethod(a, x, true, false) + "|" + gammaMethod(a, x, true, true)
		ok := finite(p) && finite(q) && math.Abs(p+q-1) <= 1e-12 && p >= -1e-15 && q >= -1e-15 && p <= 1+1e-15 && q <= 1+1e-15
		return ok, fmt.Sprintf("GammaP=%v GammaQ=%v sum=%v", p, q, p+q), lab
	}, nil},
	{"Lower+Upper=Gamma", func(v []float64) (bool, string, string) {
		a, x := v[0], v[1]
		l, u, g := sp.GammaLower(a, x), sp.GammaUpper(a, x), math.Gamma(a)
		lab := gammaMethod(a, x, false, false) + "|" + gammaMethod(a, x, false, true)
		if !finite(g) || g > 1e300 {
			return true, "", lab
		}
		ok := finite(l) && finite(u) && math.Abs(l+u-g) <= 1e-11*g && l >= -1e-15*g && u >= -1e-15*g
		return ok, fmt.Sprintf("GammaLower=%v GammaUpper=%v Gamma(a)=%v", l, u, g), lab
	}, nil},
	{"P(a,x)-P(a+1,x)=x^a e^-x/Gamma(a+1)", func(v []float64) (bool, string, string) {
		a, x := v[0], v[1]
		p0, p1 := sp.GammaP(a, x), sp.GammaP(a+1, x)
		lg, _ := math.Lgamma(a + 1)
		t := math.Exp(a*math.Log(x) - x - lg)
		lab := gammaMethod(a, x, true, false) + "|" + gammaMethod(a+1, x, true, false)
		scale := math.Abs(p0) + math.Abs(p1) + t
		ok := finite(p0) && finite(p1) && math.Abs(p0-p1-t) <= 1e-11*(1+(a+x)/16)*scale+1e-300
		return ok, fmt.Sprintf("P(a)=%v P(a+1)=%v term=%v", p0, p1, t), lab
	}, nil},
	{"dP/dx=x^(a-1)e^-x/Gamma(a)", func(v []float64) (bool, string, string) {
		a, x := v[0], v[1]
		d := sp.GammaPfirstDerivative(a, x)
		lg, _ := math.Lgamma(a)
		t := math.Exp((a-1)*math.Log(x) - x - lg)
		if t < 1e-290 || t > 1e290 {
			return true, "", "dP"
		}
		d2 := sp.GammaPsecondDerivative(a, x)
		t2 := ((a-1)/x - 1) * t
		ok := relErr(d, t, t) <= 1e-10*(1+(a+x)/16) && math.Abs(d2-t2) <= 1e-10*(1+(a+x)/16)*t*(math.Abs((a-1)/x)+1)
		return ok, fmt.Sprintf("dP=%v expected=%v d2P=%v expected=%v", d, t, d2, t2), "dP"
	}, nil},
	{"psi(x+1)=psi(x)+1/x", func(v []float64) (bool, string, string) {
		x := v[0]
		if math.IsInf(condPole(x), 1) {
			return true, "", "digamma" // pole: NaN is the specified outcome
		}
		p0, p1 := sp.Digamma(x), sp.Digamma(x+1)
		scale := math.Abs(p0) + math.Abs(p1) + 1/math.Abs(x)
		ok := finite(p0) && finite(p1) && math.Abs(p1-p0-1/x) <= 1e-12*scale*(1+condPole(x))
		return ok, fmt.Sprintf("psi(x)=%v psi(x+1)=%v 1/x=%v", p0, p1, 1/x), "digamma"
	}, nil},
	{"psi_n(x+1)=psi_n(x)+(-1)^n n!/x^(n+1)", func(v []float64) (bool, string, string) {
		n, x := int(v[0]), v[1]
		if math.IsInf(condPole(x), 1) {
			return true, "", "polygamma" // pole: NaN / Inf is the specified outcome
		}
		p0, pp0 := safe(func() float64 { return sp.Polygamma(n, x) })
		p1, pp1 := safe(func() float64 { return sp.Polygamma(n, x+1) })
		t := fact(n) / math.Pow(x, float64(n+1))
		if n%2 == 1 {
			t = -t
		}
		scale := math.Abs(p0) + math.Abs(p1) + math.Abs(t)
		if scale > 1e300 {
			return true, "", "polygamma"
		}
		ok := !pp0 && !pp1 && finite(p0) && finite(p1) && math.Abs(p1-p0-t) <= 1e-11*scale*(1+condPole(x))
		return ok, fmt.Sprintf("psi_n(x)=%v psi_n(x+1)=%v term=%v", p0, p1, t), fmt.Sprintf("polygamma n=%d", n)
	}, nil},
	{"I(v-1,x)-I(v+1,x)=(2v/x)I(v,x)", func(v []float64) (bool, string, string) {
		nu, x := v[0], v[1]
		im, pm := safe(func() float64 { return sp.BesselI(nu-1, x) })
		i0, p0 := safe(func() float64 { return sp.BesselI(nu, x) })
		ip, pp := safe(func() float64 { return sp.BesselI(nu+1, x) })
		lab := besselLabel(nu-1, x) + "|" + besselLabel(nu, x) + "|" + besselLabel(nu+1, x)
		scale := math.Abs(im) + math.Abs(ip) + math.Abs(2*nu/x*i0)
		if finite(scale) && (scale > 1e300 || math.Abs(i0) < 1e-290 || math.Abs(ip) < 1e-290) {
			return true, "", lab // overflow / gradual underflow of one of the three values
		}
		ok := !pm && !p0 && !pp && finite(scale) && math.Abs(im-ip-2*nu/x*i0) <= 1e-11*(1+math.Abs(x)/8+math.Abs(nu)/4)*scale
		return ok, fmt.Sprintf("I(v-1)=%v I(v)=%v I(v+1)=%v", im, i0, ip), lab
	}, besselSignedGrid},
	// round 3: integer orders on the whole real axis: I_n(-x) = (-1)^n I_n(x), I_{-n} = I_n, log variant NaN exactly where the value is negative
	{"I(n,-x)=(-1)^n I(n,x), I(-n,x)=I(n,x)", func(v []float64) (bool, string, string) {
		n, x := math.Round(v[0]), v[1]
		for _, fn := range []string{"BesselIDomain", "LogBesselIDomain"} {
			for _, w := range [][2]float64{{n, x}, {-n, x}, {n, -x}, {-n, -x}} {
				if ok, obs, ref, label := domainOracle(fn, int(2*w[0]), w[1]); !ok {
					return false, fmt.Sprintf("%s(%v, %v) = %v, specified %v", fn[:len(fn)-6], w[0], w[1], obs, ref), label
				}
			}
		}
		return true, "", "integer-order"
	}, besselSignedGrid},
	{"LogBesselI=log(BesselI)", func(v []float64) (bool, string, string) {
		nu, x := v[0], v[1]
		i0, p0 := safe(func() float64 { return sp.BesselI(nu, x) })
		l0, p1 := safe(func() float64 { return sp.LogBesselI(nu, x) })
		lab := besselLabel(nu, x)
		if p0 || !finite(i0) || i0 <= 1e-300 {
			// plain variant overflows / underflows / is negative: the log variant must still be a number
			if !p0 && i0 < -1e-290 {
				return !p1 && math.IsNaN(l0), fmt.Sprintf("BesselI=%v < 0 but LogBesselI=%v (NaN specified)", i0, l0), lab + ":negative"
			}
			return !p1 && (!math.IsNaN(l0) || i0 < 0 || math.IsNaN(i0)), fmt.Sprintf("BesselI=%v LogBesselI=%v", i0, l0), lab
		}
		ok := !p1 && math.Abs(l0-math.Log(i0)) <= 1e-11*(1+math.Abs(math.Log(i0))+x/8+math.Abs(nu)/4)
		return ok, fmt.Sprintf("log(BesselI)=%v LogBesselI=%v", math.Log(i0), l0), lab
	}, besselSignedGrid},
	{"LogErfc=log(erfc)", func(v []float64) (bool, string, string) {
		x := v[0]
		l := sp.LogErfc(x)
		e := math.Erfc(x)
		if e < 1e-300 {
			// beyond the range of erfc: compare with the asymptotic expansion
			z := 1 / (2 * x * x)
			as := -x*x - math.Log(x*math.Sqrt(math.Pi)) + math.Log1p(-z+3*z*z-15*z*z*z)
			return finite(l) && math.Abs(l-as) <= 1e-9*math.Abs(as), fmt.Sprintf("LogErfc=%v asymptotic=%v", l, as), "rational"
		}
		r := math.Log(e)
		ok := finite(l) && math.Abs(l-r) <= 4e-13*(math.Abs(r)+1e-3)*(1+x*x)
		return ok, fmt.Sprintf("LogErfc=%v log(erfc)=%v", l, r), "logerfc"
	}, nil},
	{"LogAdd/LogSub", func(v []float64) (bool, string, string) {
		a, b := v[0], v[1]
		s := la.LogAdd(a, b)
		hi, lo := math.Max(a, b), math.Min(a, b)
		r := hi + math.Log1p(math.Exp(lo-hi))
		ok := math.Abs(s-r) <= 1e-14*(1+math.Abs(r))
		d := la.LogSub(hi, lo)
		if hi > lo {
			r2 := hi + math.Log(-math.Expm1(lo-hi))
			ok = ok && math.Abs(d-r2) <= 1e-13*(1+math.Abs(hi)+1/(hi-lo))
			// round trip: LogAdd(LogSub(hi,lo), lo) = hi
			ok = ok && math.Abs(la.LogAdd(d, lo)-hi) <= 1e-13*(1+math.Abs(hi)+1/(hi-lo))
		}
		return ok, fmt.Sprintf("LogAdd=%v expected=%v LogSub=%v", s, r, d), "logarithmetic"
	}, nil},
	// round 2: continuity / monotonicity of the incomplete gamma functions across every method-selection boundary.
	// Needs no closed form: the three values at x-ulp, x, x+ulp (and a-ulp, a, a+ulp) may differ only by the
	// rounding noise of the kernels plus density * ulp; a swap of P and Q on a measure-zero set is a jump.
	{"igamma continuous across method boundaries", func(v []float64) (bool, string, string) {
		a, x := v[0], v[1]
		lg, _ := math.Lgamma(a)
		dens := math.Exp((a-1)*math.Log(x) - x - lg)
		g := math.Gamma(a)
		cond := 1 + (a+x)/16
		type fdef struct {
			name  string
			f     func(a, x float64) float64
			scale float64
		}
		fs := []fdef{{"GammaP", sp.GammaP, 1}, {"GammaQ", sp.GammaQ, 1}}
		if finite(g) && g < 1e300 && dens*g < 1e300 {
			fs = append(fs, fdef{"GammaLower", sp.GammaLower, g}, fdef{"GammaUpper", sp.GammaUpper, g})
		}
		lab := gammaMethod(a, math.Nextafter(x, 0), true, false) + "|" + gammaMethod(a, x, true, false) + "|" + gammaMethod(a, math.Nextafter(x, math.Inf(1)), true, false)
		for _, fd := range fs {
			f0, fm, fp := fd.f(a, x), fd.f(a, math.Nextafter(x, 0)), fd.f(a, math.Nextafter(x, math.Inf(1)))
			m := math.Max(math.Abs(f0), math.Max(math.Abs(fm), math.Abs(fp)))
			ux := math.Nextafter(x, math.Inf(1)) - x
			slack := 256*ulp*cond*m + 4*dens*fd.scale*ux + 1e-300
			if !(finite(f0) && finite(fm) && finite(fp)) || math.Abs(fp-f0) > slack || math.Abs(f0-fm) > slack {
				return false, fmt.Sprintf("%s(%v, x-ulp | x | x+ulp) = %v | %v | %v, allowed jump %v", fd.name, a, fm, f0, fp, slack), lab
			}
			am, ap := fd.f(math.Nextafter(a, 0), x), fd.f(math.Nextafter(a, math.Inf(1)), x)
			ua := math.Nextafter(a, math.Inf(1)) - a
			slackA := 256*ulp*cond*m + 16*ua*(1+math.Abs(math.Log(x))+math.Abs(math.Log(a)))*math.Max(m, fd.scale*math.Min(1, dens*x*8)) + 1e-300
			if !(finite(am) && finite(ap)) || math.Abs(ap-f0) > slackA || math.Abs(f0-am) > slackA {
				return false, fmt.Sprintf("%s(a-ulp | a | a+ulp, %v) = %v | %v | %v at a = %v, allowed jump %v", fd.name, x, am, f0, ap, a, slackA), lab
			}
		}
		return true, "", lab
	}, igammaBoundaryGrid},
	// round 2: three-term recurrence of I_v in the LOG domain (orders v-2, v, v+2 have the same sign), valid where
	// the plain variant overflows / underflows:  I(v-2)/I(v) = 1 + (2(v-1)/x) (2v/x + (x/(2(v+1))) (1 - I(v+2)/I(v)))
	{"LogBesselI three-term recurrence (log domain)", func(v []float64) (bool, string, string) {
		nu, x := v[0], v[1]
		lm, pm := safe(func() float64 { return sp.LogBesselI(nu-2, x) })
		l0, p0 := safe(func() float64 { return sp.LogBesselI(nu, x) })
		lp, pp := safe(func() float64 { return sp.LogBesselI(nu+2, x) })
		lab := besselLabel(nu-2, x) + "|" + besselLabel(nu, x) + "|" + besselLabel(nu+2, x)
		if pm || p0 || pp {
			return false, "panic", lab
		}
		if math.IsNaN(lm) || math.IsNaN(l0) || math.IsNaN(lp) || math.IsInf(l0, 0) {
			return true, "", lab // negative values: the logarithm is undefined
		}
		rp := math.Exp(lp - l0)
		rhs := 1 + (2*(nu-1)/x)*(2*nu/x+(x/(2*(nu+1)))*(1-rp))
		if !(rhs > 0) || !finite(rhs) || !finite(rp) {
			return true, "", lab
		}
		d := lm - l0 - math.Log(rhs)
		ok := math.Abs(d) <= 1e-10*(1+math.Abs(nu)/4+x/8+math.Abs(lm)+math.Abs(l0))
		return ok, fmt.Sprintf("LogBesselI(v-2 | v | v+2) = %v | %v | %v, residual %v", lm, l0, lp, d), lab
	}, func() [][]float64 {
		var out [][]float64
		for _, x := range []float64{0.5, 1, 3, 10, 40, 200} {
			for n := 20; n <= 400; n += 10 {
				out = append(out, []float64{float64(n) + 0.5, x}, []float64{-(float64(n) + 0.5), x})
			}
			for _, w := range []float64{150.3, 200.3, 250.7, 400.25, 33.3, 80.3} {
				out = append(out, []float64{w, x}, []float64{-w, x})
			}
		}
		return out
	}},
	{"zeta", func(v []float64) (bool, string, string) {
		s := v[0]
		z, p := safe(func() float64 { return sp.Zeta(s) })
		if s == 1 {
			return true, "", "zeta"
		}
		ok := !p && finite(z)
		// Dirichlet eta cross-check for s >= 2: zeta(s) = sum k^-s (direct summation + Euler-Maclaurin tail)
		if ok && s >= 2 {
			N := 40.0
			sum := 0.0
			for k := 1.0; k < N; k++ {
				sum += math.Pow(k, -s)
			}
			sum += math.Pow(N, 1-s)/(s-1) + 0.5*math.Pow(N, -s) + s/12*math.Pow(N, -s-1) - s*(s+1)*(s+2)/720*math.Pow(N, -s-3)
			ok = math.Abs(z-sum) <= 1e-12*sum
			return ok, fmt.Sprintf("Zeta=%v direct=%v", z, sum), "zeta:s>=2"
		}
		return ok, fmt.Sprintf("Zeta=%v", z), "zeta"
	}, nil},
}

// distance-to-pole conditioning for the psi relations on the negative axis
func condPole(x float64) float64 {
	if x > 0.5 {
		return 0
	}
	d := math.Abs(x - math.Round(x))
	d1 := math.Abs(x + 1 - math.Round(x+1))
	d = math.Min(d, d1)
	if d == 0 {
		return math.Inf(1)
	}
	return 1 / d
}

func findRel(kind string) *relation {
	for i := range relations {
		if relations[i].kind == kind {
			return &relations[i]
		}
	}
	return nil
}

func logUniform(r *Rng, lo, hi float64) float64 {
	return math.Exp(math.Log(lo) + r.Float()*(math.Log(hi)-math.Log(lo)))
}

// thresholds of gamma_incomplete_imp / bessel_ik at which the evaluation method changes
var xThresholds = []float64{0x1p-52, 0.2, 0.5, 0.6, 1.1, 2, 7.75, 100, 500, 709}
var aThresholds = []float64{1, 10, 20, 30, 170, 200}

func nearThreshold(r *Rng, ts []float64) float64 {
	t := ts[r.Intn(len(ts))]
	switch r.Intn(4) {
	case 0:
		return t
	case 1:
		return math.Nextafter(t, 0)
	case 2:
		return math.Nextafter(t, math.Inf(1))
	}
	return t * (1 + (r.Float()*2-1)*1e-3)
}

func genArgs(kind string, r *Rng) []float64 {
	if g, ok := genArgs5[kind]; ok {
		return g(r)
	}
	ax := func() []float64 {
		var a, x float64
		switch r.Intn(6) {
		case 0:
			a = float64(r.Range(1, 80)) / 2
		case 1:
			a = nearThreshold(r, aThresholds)
		default:
			a = logUniform(r, 1e-3, 400)
		}
		switch r.Intn(6) {
		case 0:
			x = nearThreshold(r, xThresholds)
		case 1, 2:
			x = a * math.Exp((r.Float()*2-1)*0.7)
		default:
			x = logUniform(r, 1e-6, 800)
		}
		return []float64{a, x}
	}
	switch kind {
	case "P+Q=1", "P(a,x)-P(a+1,x)=x^a e^-x/Gamma(a+1)", "dP/dx=x^(a-1)e^-x/Gamma(a)":
		return ax()
	case "Lower+Upper=Gamma":
		v := ax()
		if v[0] > 160 {
			v[0] = logUniform(r, 1e-2, 160)
		}
		return v
	case "psi(x+1)=psi(x)+1/x":
		switch r.Intn(4) {
		case 0:
			return []float64{-r.Float() * 30}
		case 1:
			return []float64{nearThreshold(r, []float64{1, 2, 10, 9})}
		}
		return []float64{logUniform(r, 1e-4, 1e4)}
	case "psi_n(x+1)=psi_n(x)+(-1)^n n!/x^(n+1)":
		n := r.Range(1, 8)
		if r.Intn(4) == 0 {
			return []float64{float64(n), -r.Float() * 12}
		}
		return []float64{float64(n), logUniform(r, 1e-2, 300)}
	case "I(v-1,x)-I(v+1,x)=(2v/x)I(v,x)", "LogBesselI=log(BesselI)":
		var v, x float64
		switch r.Intn(5) {
		case 0:
			v = float64(r.Range(-20, 60)) / 2
		case 1:
			v = float64(r.Range(0, 30))
		default:
			v = r.Float()*70 - 10
		}
		if r.Intn(5) == 0 {
			x = nearThreshold(r, xThresholds)
		} else {
			x = logUniform(r, 1e-3, 700)
		}
		if kind[0] == 'L' && r.Intn(4) == 0 {
			x = logUniform(r, 700, 1e6)
		}
		return []float64{v, x}
	case "I(n,-x)=(-1)^n I(n,x), I(-n,x)=I(n,x)":
		return []float64{float64(r.Range(0, 40)), logUniform(r, 1e-3, 600)}
	case "igamma continuous across method boundaries":
		// the diagonal x == a (Temme: `x >= a`) at arbitrary non-integer a, and the sigma / 20/a boundaries
		a := logUniform(r, 20, 1200)
		if r.Intn(3) == 0 {
			a = math.Round(a*2) / 2
		}
		switch r.Intn(4) {
		case 0:
			return []float64{a, a * (1 + 0.4*(float64(r.Intn(2))*2-1))}
		case 1:
			return []float64{a, a * (1 + math.Sqrt(20/a)*(float64(r.Intn(2))*2-1))}
		}
		return []float64{a, a}
	case "LogBesselI three-term recurrence (log domain)":
		v := logUniform(r, 3, 600)
		if r.Intn(2) == 0 {
			v = -v
		}
		return []float64{v, logUniform(r, 0.05, 2000)}
	case "LogErfc=log(erfc)":
		switch r.Intn(4) {
		case 0:
			return []float64{nearThreshold(r, []float64{0.15686884013646695, 8, -0.15686884013646695})}
		case 1:
			return []float64{-logUniform(r, 1e-6, 6)}
		}
		return []float64{logUniform(r, 1e-6, 1e4)}
	case "LogAdd/LogSub":
		a := r.Float()*1400 - 700
		return []float64{a, a - logUniform(r, 1e-9, 800)}
	case "zeta":
		switch r.Intn(4) {
		case 0:
			return []float64{float64(r.Range(-60, 60))}
		case 1:
			return []float64{1 + (r.Float()*2-1)*logUniform(r, 1e-8, 1)}
		}
		return []float64{r.Float()*120 - 60}
	}
	return nil
}

func hexArgs(v []float64) []string { return hexList(v) }

func runSweep(o Opts) {
	rng := NewRng(o.Seed ^ 0x5EE9)
	per := 400 * (1 + o.N/100)
	if o.Tier != "quick" {
		per *= 25
	}
	var fails []Finding
	counts := map[string]int{}
	nfail := map[string]int{}
	for _, rel := range relations {
		r := rng.Split()
		var fixed [][]float64
		if rel.fixed != nil {
			fixed = rel.fixed()
		}
		for i := 0; i < per+len(fixed); i++ {
			var args []float64
			if i < len(fixed) {
				args = fixed[i]
			} else {
				args = genArgs(rel.kind, r)
			}
			ok, detail, label := rel.check(args)
			counts[rel.kind]++
			if !ok {
				nfail[rel.kind+" @ "+label]++
				if nfail[rel.kind+" @ "+label] <= 5 {
					fails = append(fails, Finding{Kind: rel.kind, Args: hexArgs(args), Label: label, Detail: detail + fmt.Sprintf(" at %v", args)})
				}
			}
		}
	}
	writeJSON(filepath.Join(o.Out, "sweep.json"), map[string]interface{}{
		"points": counts, "failures": fails, "failure_counts": nfail,
		"note": "supporting differential testing of the code against itself; not the decision",
	})
}

// ---------------------------------------------------------------- anchors: float64 oracle used by hunt / replay

// anchorOracle re-evaluates an anchor-type input (fn, h, k, x) against the float64 closed form
// with a loose tolerance (1e-9 relative): a search aid only.
func anchorOracle(fn string, h, k int, x float64) (ok bool, obs, ref float64, label string) {
	a := float64(h) / 2
	tol := 1e-9
	switch fn {
	case "GammaP":
		obs, ref, label = sp.GammaP(a, x), pqRef(h, x, false), gammaMethod(a, x, true, false)
	case "GammaQ":
		obs, ref, label = sp.GammaQ(a, x), pqRef(h, x, true), gammaMethod(a, x, true, true)
	case "GammaLower":
		obs, ref, label = sp.GammaLower(a, x), pqRef(h, x, false)*gammaH(h), gammaMethod(a, x, false, false)
	case "GammaUpper":
		obs, ref, label = sp.GammaUpper(a, x), pqRef(h, x, true)*gammaH(h), gammaMethod(a, x, false, true)
	case "GammaPfirstDerivative":
		obs, ref, label = sp.GammaPfirstDerivative(a, x), dPH(h, x), "dP"
		if finite(ref) {
			return finite(obs) && math.Abs(obs-ref) <= tol*math.Abs(ref)+0x1p-1070, obs, ref, label
		}
	case "GammaPsecondDerivative":
		obs, ref, label = sp.GammaPsecondDerivative(a, x), ((a-1)/x-1)*dPH(h, x), "d2P"
		if math.Abs(obs-ref) <= tol*dPH(h, x)*(math.Abs((a-1)/x)+1) {
			return true, obs, ref, label
		}
	case "Digamma":
		obs = sp.Digamma(x) - sp.Digamma(1)
		if x == math.Floor(x) {
			ref = psiDiffInt(int(x) - 1)
		} else {
			ref = psiDiffHalf(int(math.Abs(x - 0.5)))
		}
		return math.Abs(obs-ref) <= tol*(1+math.Abs(ref)), obs, ref, "digamma"
	case "DigammaQuarter":
		obs = sp.Digamma(x) - sp.Digamma(1)
		ref = -math.Pi/2 - 3*math.Ln2
		for j := 1; j <= k; j++ {
			ref += 1 / (float64(j) - 0.25)
		}
		return math.Abs(obs-ref) <= tol*(1+math.Abs(ref)), obs, ref, "digamma"
	case "Trigamma", "Polygamma1":
		if fn == "Trigamma" {
			obs = sp.Trigamma(x)
		} else {
			obs = sp.Polygamma(1, x)
		}
		switch {
		case x == math.Floor(x):
			ref = psi1Int(int(x) - 1)
		case x > 0:
			ref = psi1Half(int(x-0.5), false)
		default:
			ref = psi1Half(int(0.5-x), true)
		}
		label = "trigamma"
	case "BesselI", "LogBesselI":
		v := float64(h) / 2
		n := int(math.Abs(v) - 0.5)
		ref = iHalf(n, x, v < 0)
		label = besselLabel(v, x)
		var p bool
		if n >= 20 {
			// large order: log-domain reference (the float64 recurrence is unstable there)
			lr, sg := lnIHalfRef(n, x, v < 0)
			if fn == "BesselI" {
				obs, p = safe(func() float64 { return sp.BesselI(v, x) })
				if lr > 709.78 {
					return !p && math.IsInf(obs, int(sg)), obs, sg * math.Inf(1), label
				}
				ref = sg * math.Exp(lr)
				return !p && math.Abs(obs-ref) <= 1e-7*math.Abs(ref)+1e-300, obs, ref, label
			}
			obs, p = safe(func() float64 { return sp.LogBesselI(v, x) })
			if sg < 0 {
				return !p && math.IsNaN(obs), obs, math.NaN(), label
			}
			return !p && math.Abs(obs-lr) <= 1e-7*(1+math.Abs(lr)), obs, lr, label
		}
		if fn == "BesselI" {
			obs, p = safe(func() float64 { return sp.BesselI(v, x) })
		} else {
			obs, p = safe(func() float64 { return sp.LogBesselI(v, x) })
			if x > 300 {
				ref = iHalfLog(n, x, v < 0)
			} else {
				ref = math.Log(ref)
			}
			if math.IsNaN(ref) {
				return !p && math.IsNaN(obs), obs, ref, label // log of a negative value
			}
			return !p && math.Abs(obs-ref) <= 1e-7*(1+math.Abs(ref)), obs, ref, label
		}
		if p {
			return false, obs, ref, label
		}
		tol = 1e-7 // the float64 recurrence loses digits for small x
	case "Zeta":
		obs, label = sp.Zeta(x), "zeta"
		if x > 0 {
			ref = math.Abs(bernF(int(x))) * math.Pow(2*math.Pi, x) / (2 * math.Gamma(x+1))
		} else if x == 0 {
			ref = -0.5
		} else {
			ref = -bernF(int(1-x)) / (1 - x)
		}
		return finite(obs) && math.Abs(obs-ref) <= tol*math.Abs(ref), obs, ref, label
	case "LogErfc":
		obs, ref, label = sp.LogErfc(x), math.Log(math.Erfc(x)), "logerfc"
		if math.IsInf(x, 0) {
			return obs == ref || math.Abs(obs-ref) <= 1e-15, obs, ref, label
		}
		if x > 8 {
			return true, obs, ref, label
		}
	case "Mlgamma", "Mgamma":
		ref = float64(k*(k-1)) / 4 * math.Log(math.Pi)
		for j := 0; j < k; j++ {
			v, _ := math.Lgamma(float64(h-j) / 2)
			ref += v
		}
		label = fmt.Sprintf("k=%d", k)
		if fn == "Mlgamma" {
			obs = sp.Mlgamma(a, k)
			return math.Abs(obs-ref) <= tol*(1+math.Abs(ref)), obs, ref, label
		}
		obs = sp.Mgamma(a, k)
		ref = math.Exp(ref)
	case "BesselIDomain", "LogBesselIDomain":
		return domainOracle(fn, h, x)
	case "ZetaTiny", "ZetaSeries", "PolygammaSeries", "PolygammaRecur":
		return round5Oracle(fn, k, x)
	case "SinPi":
		obs, ref, label = sp.SinPi(x), math.Sin(math.Pi*x), "sinpi"
		return math.Abs(obs-ref) <= 1e-12, obs, ref, label
	case "CosPi":
		obs, ref, label = sp.CosPi(x), math.Cos(math.Pi*x), "cospi"
		return math.Abs(obs-ref) <= 1e-12, obs, ref, label
	case "Digamma3Quarter":
		obs = sp.Digamma(x) - sp.Digamma(1)
		ref = math.Pi/2 - 3*math.Ln2
		for j := 1; j <= k; j++ {
			ref += 1 / (float64(j) - 0.75)
		}
		return math.Abs(obs-ref) <= tol*(1+math.Abs(ref)), obs, ref, "digamma"
	case "PolygammaNegHalf":
		mult := math.Pow(2, float64(k+1)) - 1
		obs = sp.Polygamma(k, x) - mult*sp.Polygamma(k, 1)
		ref = polygNegHalfRef(k, int(0.5-x))
		return math.Abs(obs-ref) <= tol*(math.Abs(ref)+mult*math.Abs(sp.Polygamma(k, 1))), obs, ref, "polygamma:reflect"
	case "ZetaReflect":
		s1 := 1 - x
		lg, sg := math.Lgamma(s1)
		obs = sp.Zeta(x)
		lr := math.Log(2) + (x-1)*math.Log(2*math.Pi) + lg + math.Log(math.Abs(math.Sin(math.Pi*x/2))) + math.Log(sp.Zeta(s1))
		ref = float64(sg) * math.Exp(lr)
		if math.Sin(math.Pi*x/2) < 0 {
			ref = -ref
		}
		if !finite(ref) {
			return true, obs, ref, "zeta:reflect"
		}
		return finite(obs) && math.Abs(obs-ref) <= 1e-9*math.Abs(ref), obs, ref, "zeta:reflect"
	default:
		return true, 0, 0, ""
	}
	if !finite(ref) {
		return true, obs, ref, label
	}
	return finite(obs) && math.Abs(obs-ref) <= tol*math.Abs(ref)+1e-300, obs, ref, label
}

// which known wrong value (if any) does an incomplete-gamma observation reproduce?
func igammaPred(fn string, h int, x, obs float64) string {
	a := float64(h) / 2
	upper := fn == "GammaQ" || fn == "GammaUpper"
	norm := fn == "GammaP" || fn == "GammaQ"
	truth := pqRef(h, x, upper)
	gam := 1.0
	if !norm {
		gam = gammaH(h)
		truth *= gam
	}
	if !finite(obs) {
		return ""
	}
	lg, _ := math.Lgamma(a + 1)
	xa := math.Exp(a*math.Log(x) - lg) // x^a / Γ(a+1)
	if !norm {
		xa *= gam
	}
	near := func(u, v float64) bool { return math.Abs(u-v) <= 1e-9*(math.Abs(gam)+math.Abs(v)) }
	switch {
	case upper && near(obs, truth-gam):
		return "series-init-dropped:upper=-lower"
	case upper && near(obs, truth-gam+xa):
		return "series-init-dropped:small-a-upper"
	case !upper && near(obs, truth-xa):
		return "series-init-dropped:small-a-lower"
	}
	return ""
}

// which known inaccuracy of the P-derivative helpers does an observation reproduce?
// "prefix-subnormal": regularised_gamma_prefix = obs*x is a subnormal (non-zero, so the `f1 == 0` log path
// is not taken) and the result inherits its few significant bits (relative error between 1e-13 and 1e-2).
func derivPred(fn string, h int, x, obs, ref float64) string {
	if fn != "GammaPfirstDerivative" || !finite(obs) || ref == 0 {
		return ""
	}
	re := math.Abs(obs-ref) / math.Abs(ref)
	if x < 1 && math.Abs(ref)*x < 0x1p-1022 && math.Abs(ref)*x > 0 && re > 1e-13 && re < 1e-2 {
		return "prefix-subnormal"
	}
	return ""
}

// ---------------------------------------------------------------- hunt

type huntIn struct {
	Anchors  []Anchor  `json:"anchors"`
	Findings []Finding `json:"findings"`
}

type HuntOut struct {
	Found   bool        `json:"found"`
	Results []HuntEntry `json:"results"`
}
type HuntEntry struct {
	Source  string   `json:"source"` // "anchor" | "relation"
	Kind    string   `json:"kind"`
	Fn      string   `json:"fn,omitempty"`
	H       int      `json:"h,omitempty"`
	K       int      `json:"k,omitempty"`
	Args    []string `json:"args"`
	ArgsDec []string `json:"args_dec"`
	Label   string   `json:"label"`
	Failure string   `json:"failure"`
	Pred    string   `json:"pred,omitempty"`
	Fails   bool     `json:"fails"` // the float64 property oracle fails on the implementation at the minimised input
}

// simplify x: fewest mantissa bits such that `bad` still holds
func shrinkFloat(x float64, bad func(float64) bool) float64 {
	best := x
	for bits := 1; bits <= 52; bits++ {
		fr, e := math.Frexp(x)
		sc := math.Pow(2, float64(bits))
		c := math.Ldexp(math.Round(fr*sc)/sc, e)
		if c != 0 && finite(c) && bad(c) {
			return c
		}
	}
	return best
}

func decs(v []float64) []string {
	s := make([]string, len(v))
	for i, x := range v {
		s[i] = fs(x)
	}
	return s
}

func huntAnchor(a Anchor) HuntEntry {
	if isRound6(a.Fn) {
		return hunt6(a)
	}
	x := parseF(a.X)
	h, k := a.H, a.K
	bad := func(hh int, xx float64) bool {
		ok, _, _, _ := anchorOracle(a.Fn, hh, k, xx)
		return !ok
	}
	e := HuntEntry{Source: "anchor", Kind: a.Fam, Fn: a.Fn, H: h, K: k}
	if bad(h, x) {
		// bisect the order towards small values of the same parity, then simplify x
		if a.Fam == "igamma" || a.Fam == "igamma-deriv" {
			for hh := 2 - h%2; hh < h; hh += 2 {
				if hh >= 1 && bad(hh, x) {
					h = hh
					break
				}
			}
			// move x towards the order while it keeps failing (bisect the grid)
			for i := 0; i < 40; i++ {
				c := (x + float64(h)/2) / 2
				if c == x || !bad(h, c) {
					break
				}
				x = c
			}
		}
		if a.Fam == "igamma" || a.Fam == "igamma-deriv" || a.Fam == "logerfc" || a.Fam == "polygamma5" || a.Fam == "zeta5" {
			// other families: the closed form exists only at the anchored argument itself
			x = shrinkFloat(x, func(c float64) bool { return bad(h, c) })
		}
		e.Fails = true
	}
	_, obs, ref, label := anchorOracle(a.Fn, h, k, x)
	e.H, e.Label = h, label
	e.Args, e.ArgsDec = hexArgs([]float64{x}), decs([]float64{x})
	e.Failure = fmt.Sprintf("%s(h/2=%v, x=%v) = %v, closed form %v", a.Fn, float64(h)/2, x, obs, ref)
	if a.Fam == "igamma" {
		e.Pred = igammaPred(a.Fn, h, x, obs)
	}
	if a.Fam == "igamma-deriv" {
		e.Pred = derivPred(a.Fn, h, x, obs, ref)
	}
	if a.Fn == "LogErfc" && math.IsInf(x, 1) {
		e.Pred = "x=+Inf"
	}
	return e
}

func huntRelation(f Finding) HuntEntry {
	rel := findRel(f.Kind)
	args := make([]float64, len(f.Args))
	for i, s := range f.Args {
		args[i] = parseHex(s)
	}
	e := HuntEntry{Source: "relation", Kind: f.Kind}
	if rel == nil {
		return e
	}
	bad := func(v []float64) bool { ok, _, _ := rel.check(v); return !ok }
	if bad(args) {
		e.Fails = true
		for i := range args {
			if f.Kind == "psi_n(x+1)=psi_n(x)+(-1)^n n!/x^(n+1)" && i == 0 {
				continue
			}
			i := i
			args[i] = shrinkFloat(args[i], func(c float64) bool {
				v := append([]float64{}, args...)
				v[i] = c
				return bad(v)
			})
		}
	}
	_, detail, label := rel.check(args)
	e.Args, e.ArgsDec, e.Label, e.Failure = hexArgs(args), decs(args), label, f.Kind+" violated: "+detail
	return e
}

func parseHex(s string) float64 {
	var x float64
	if _, err := fmt.Sscanf(s, "%v", &x); err == nil {
		return x
	}
	return parseF(s)
}

func runHunt(o Opts) {
	var in huntIn
	b, err := os.ReadFile(o.Replay)
	if err != nil {
		Die("hunt input: %v", err)
	}
	if err := json.Unmarshal(b, &in); err != nil {
		Die("hunt input: %v", err)
	}
	out := HuntOut{}
	for _, a := range in.Anchors {
		e := huntAnchor(a)
		out.Results = append(out.Results, e)
		out.Found = out.Found || e.Fails
	}
	for _, f := range in.Findings {
		e := huntRelation(f)
		out.Results = append(out.Results, e)
		out.Found = out.Found || e.Fails
	}
	writeJSON(filepath.Join(o.Out, "hunt.json"), out)
}

// ---------------------------------------------------------------- replay

func runReplay(o Opts) {
	b, err := os.ReadFile(o.Replay)
	if err != nil {
		Die("replay: %v", err)
	}
	var rp struct {
		Input HuntEntry `json:"input"`
	}
	if err := json.Unmarshal(b, &rp); err != nil {
		Die("replay: %v", err)
	}
	e := rp.Input
	res := map[string]interface{}{"input": e}
	args := make([]float64, len(e.Args))
	for i, s := range e.Args {
		args[i] = parseHex(s)
	}
	if e.Source == "relation" {
		rel := findRel(e.Kind)
		if rel == nil {
			Die("unknown relation %q", e.Kind)
		}
		ok, detail, label := rel.check(args)
		res["holds"], res["detail"], res["label"] = ok, detail, label
	} else if isRound6(e.Fn) {
		ok, obs, ref, label := oracle6(e.Fn, e.H, e.K, args)
		res["holds"], res["detail"], res["label"] = ok, fmt.Sprintf("observed %v, reference %v", obs, ref), label
	} else {
		ok, obs, ref, label := anchorOracle(e.Fn, e.H, e.K, args[0])
		res["holds"], res["detail"], res["label"] = ok, fmt.Sprintf("observed %v, closed form %v", obs, ref), label
	}
	writeJSON(filepath.Join(o.Out, "replay.json"), res)
}

// ---------------------------------------------------------------- corpus (witnesses of past failures; runs first)

func runCorpus(o Opts, path string) {
	b, err := os.ReadFile(path)
	if err != nil {
		writeJSON(filepath.Join(o.Out, "corpus.json"), map[string]interface{}{"entries": 0, "failures": []HuntEntry{}})
		return
	}
	var fails []HuntEntry
	n := 0
	for _, line := range splitLines(string(b)) {
		var e HuntEntry
		if json.Unmarshal([]byte(line), &e) != nil {
			continue
		}
		n++
		args := make([]float64, len(e.Args))
		for i, s := range e.Args {
			args[i] = parseHex(s)
		}
		if e.Source == "relation" {
			rel := findRel(e.Kind)
			if rel == nil {
				continue
			}
			ok, detail, label := rel.check(args)
			if !ok {
				e.Fails, e.Failure, e.Label, e.ArgsDec = true, e.Kind+" violated: "+detail, label, decs(args)
				fails = append(fails, e)
			}
		} else {
			ok, obs, ref, label := anchorOracle(e.Fn, e.H, e.K, args[0])
			if isRound6(e.Fn) {
				ok, obs, ref, label = oracle6(e.Fn, e.H, e.K, args)
			}
			if !ok {
				e.Fails, e.Label, e.ArgsDec = true, label, decs(args)
				e.Failure = fmt.Sprintf("%s(h/2=%v, x=%v) = %v, closed form %v", e.Fn, float64(e.H)/2, args[0], obs, ref)
				if e.Kind == "igamma-deriv" {
					e.Pred = derivPred(e.Fn, e.H, args[0], obs, ref)
				}
				fails = append(fails, e)
			}
		}
	}
	writeJSON(filepath.Join(o.Out, "corpus.json"), map[string]interface{}{"entries": n, "failures": fails})
}

func splitLines(s string) []string {
	var out []string
	cur := ""
	for _, c := range s {
		if c == '\n' {
			if cur != "" {
				out = append(out, cur)
			}
			cur = ""
		} else {
			cur += string(c)
		}
	}
	if cur != "" {
		out = append(out, cur)
	}
	return out
}

// arguments on / next to every comparison constant of gamma_incomplete_imp (see astpass.go)
func igammaBoundaryGrid() [][]float64 {
	as := []float64{0.25, 0.5, 0.75, 1, 1.5, 2, 5, 9.5, 10, 19.5, 20, math.Nextafter(20, 21), 20.5, 21, 29, 29.5, math.Nextafter(30, 0), 30, 30.5, 31, 50, 100,
		169, 169.5, 170, 171, 199.5, 200, math.Nextafter(200, 201), 200.5, 201, 300, 320, 500, 1000}
	var out [][]float64
	for _, a := range as {
		xs := []float64{epsF, 0.2, 0.5, 0.6, 1.1, a - 1, a, a * 0.6, a * 1.4, a * (1 - math.Sqrt(20/a)), a * (1 + math.Sqrt(20/a)), m24Boundary(a), 4 * a, a / 4, maxLog}
		if a > 1 {
			xs = append(xs, -0.4/math.Log(0.3), a/0.75)
		} else {
			xs = append(xs, math.Exp(-0.4/a), a/0.75)
		}
		for _, x := range xs {
			if x > 0 && finite(x) {
				out = append(out, []float64{a, x})
			}
		}
	}
	return out
}

// integer orders of both signs at arguments of both signs (the recurrence, the log variant and the parity relations)
func besselSignedGrid() [][]float64 {
	var out [][]float64
	for n := -12; n <= 12; n++ {
		for _, x := range []float64{0.5, 2, 2.5, 20, 150, -0.5, -2, -2.5, -20, -150} {
			out = append(out, []float64{float64(n), x})
		}
	}
	return out
}
