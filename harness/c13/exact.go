package main

// Exact part of the correspondence: inputs + what the Go code returned, compared
// bit-for-bit inside Coq with the binary64 instance of the models (C13/Corr.v).

import (
	"fmt"
	"math"
	"path/filepath"
	"strings"

	. "adharness/common"

	la "github.com/pbenner/autodiff/logarithmetic"
	sp "github.com/pbenner/autodiff/special"
)

// list-backed Series / ContinuedFraction objects
type listSeries struct {
	terms []float64
	d     float64
	i     int
	calls int
}

func (s *listSeries) Eval() float64 {
	s.calls++
	if s.i < len(s.terms) {
		v := s.terms[s.i]
		s.i++
		return v
	}
	return s.d
}

type listFrac struct {
	a, b   []float64
	da, db float64
	i      int
	calls  int
}

func (s *listFrac) Eval() (float64, float64) {
	s.calls++
	if s.i < len(s.a) {
		x, y := s.a[s.i], s.b[s.i]
		s.i++
		return x, y
	}
	return s.da, s.db
}

func pairList(a, b []float64) string {
	p := make([]string, len(a))
	for i := range a {
		p[i] = "(" + F(a[i]) + ", " + F(b[i]) + ")"
	}
	return List(p)
}

func randFloat(r *Rng, kind int) float64 {
	switch kind {
	case 0: // moderate
		return (r.Float()*2 - 1) * math.Pow(2, float64(r.Range(-8, 8)))
	case 1: // small integer
		return float64(r.Range(-5, 5))
	case 2: // wide
		return (r.Float()*2 - 1) * math.Pow(2, float64(r.Range(-300, 300)))
	default:
		specials := []float64{0, math.Copysign(0, -1), 1, -1, math.Inf(1), math.Inf(-1), math.NaN(), math.SmallestNonzeroFloat64, math.MaxFloat64, 0.5}
		return specials[r.Intn(len(specials))]
	}
}

func exactCases(o Opts) {
	header := "From Coq Require Import ZArith List Floats.\nFrom ADV Require Import C13.Corr.\nImport ListNotations.\nOpen Scope Z_scope.\n"
	w := NewCaseWriter(o.Out, "cases", header, "mism", 120)
	w.Type = "case"
	w.Rule = "exact case is non-trivial iff the loop ran at least twice (polynomial degree >= 2, series/fraction consumed >= 2 terms) or a table entry other than 0!/1! was read"
	rng := NewRng(o.Seed)
	n := o.N
	type raw map[string]interface{}

	// ---- Polynomial.Eval / EvenPolynomial.Eval
	for i := 0; i < n; i++ {
		r := rng.Split()
		deg := r.Range(1, 16)
		if r.Intn(8) == 0 {
			deg = 1
		}
		kind := r.Pick([]int{6, 2, 1, 1})
		cs := make([]float64, deg)
		for j := range cs {
			cs[j] = randFloat(r, kind)
		}
		z := randFloat(r, r.Pick([]int{6, 2, 1, 1}))
		even := r.Intn(4) == 0
		var out float64
		tag := "CPoly"
		if even {
			out = sp.NewEvenPolynomial(cs).Eval(z)
			tag = "CEvenPoly"
		} else {
			out = sp.NewPolynomial(cs).Eval(z)
		}
		w.Count(tag)
		w.Add(fmt.Sprintf("%s %s %s %s", tag, FList(cs), F(z), F(out)),
			raw{"kind": tag, "cs": hexList(cs), "z": fhex(z), "out": fhex(out)},
			fmt.Sprintf("%s/%d/%x", tag, deg, z), deg >= 3)
	}

	// ---- SumSeries on list-backed series
	factors := []float64{2.22045e-16, 2.22045e-16, 2.22045e-16, 1e-3, 0.5, 0, 1, 2}
	for i := 0; i < n; i++ {
		r := rng.Split()
		ln := r.Range(0, 40)
		terms := make([]float64, ln)
		t := randFloat(r, 0)
		ratio := r.Float() * 1.2
		alt := r.Intn(3) == 0
		withSpecials := r.Intn(6) == 0
		for j := range terms {
			terms[j] = t
			t *= ratio
			if alt {
				t = -t
			}
			if withSpecials && r.Intn(10) == 0 {
				terms[j] = randFloat(r, 3)
			}
		}
		d := randFloat(r, r.Pick([]int{3, 1, 0, 1}))
		if r.Intn(2) == 0 {
			d = 0
		}
		factor := factors[r.Intn(len(factors))]
		max := r.Range(-1, ln+6)
		if r.Intn(4) == 0 && !withSpecials {
			// the coded limit of the callers; the loop must end by the stopping test
			max, d, factor = 1000000, 1e-300, 2.22045e-16
			if ln == 0 || terms[0] == 0 {
				terms = append([]float64{1}, terms...)
			}
		}
		init := randFloat(r, 1)
		s := &listSeries{terms: append([]float64{}, terms...), d: d}
		out := sp.SumSeries(s, init, factor, max)
		w.Count("CSeries")
		if s.calls == max {
			w.Count("CSeries:limit-hit")
		}
		if init != 0 {
			w.Count("CSeries:init!=0")
		}
		w.Add(fmt.Sprintf("CSeries %s %s %s %s %s %s %d", FList(terms), F(d), F(init), F(factor), ZI(max), F(out), s.calls),
			raw{"kind": "CSeries", "terms": hexList(terms), "d": fhex(d), "init": fhex(init), "factor": fhex(factor), "max": max, "out": fhex(out), "calls": s.calls},
			fmt.Sprintf("S/%d/%d/%x", ln, s.calls, out), s.calls >= 2)
	}

	// ---- EvalContinuedFraction on list-backed fractions
	for i := 0; i < n; i++ {
		r := rng.Split()
		ln := r.Range(1, 30)
		a := make([]float64, ln)
		b := make([]float64, ln)
		kind := r.Pick([]int{6, 3, 0, 1})
		for j := range a {
			a[j] = randFloat(r, kind)
			b[j] = randFloat(r, kind)
		}
		da, db := randFloat(r, 0), randFloat(r, 0)
		if r.Intn(2) == 0 { // convergent tail: a/(b+...) with |b| large
			da, db = r.Float(), 2+r.Float()*4
		}
		factor := factors[r.Intn(len(factors))]
		max := r.Range(-1, ln+8)
		if r.Intn(3) == 0 {
			max = 5000
		}
		s := &listFrac{a: a, b: b, da: da, db: db}
		out := sp.EvalContinuedFraction(s, factor, max)
		w.Count("CFrac")
		if s.calls == max+1 {
			w.Count("CFrac:limit-hit")
		}
		w.Add(fmt.Sprintf("CFrac %s (%s, %s) %s %s %s %d", pairList(a, b), F(da), F(db), F(factor), ZI(max), F(out), s.calls),
			raw{"kind": "CFrac", "a": hexList(a), "b": hexList(b), "da": fhex(da), "db": fhex(db), "factor": fhex(factor), "max": max, "out": fhex(out), "calls": s.calls},
			fmt.Sprintf("F/%d/%d/%x", ln, s.calls, out), s.calls >= 3)
	}

	// ---- the exported kernel series of gamma.go through the drivers
	for i := 0; i < n; i++ {
		r := rng.Split()
		a := float64(r.Range(1, 120)) / 2
		if r.Intn(3) == 0 {
			a = r.Float() * 60
		}
		z := math.Exp((r.Float()*2-1)*4) * math.Max(a, 0.5)
		if r.Intn(3) == 0 {
			z = r.Float() * 3
		}
		eps := 2.22045e-16
		switch r.Intn(3) {
		case 0:
			out := sp.SumSeries(sp.NewLowerIncompleteGammaSeries(a, z), 0, eps, 1000000)
			w.Count("CLowerSeries")
			w.Add(fmt.Sprintf("CLowerSeries %s %s %s 1000000 %s", F(a), F(z), F(eps), F(out)),
				raw{"kind": "CLowerSeries", "a": fhex(a), "z": fhex(z), "out": fhex(out)}, fmt.Sprintf("L/%x/%x", a, z), true)
		case 1:
			x := r.Float() * 1.1
			aa := r.Float() * 1.2
			out := sp.SumSeries(sp.NewSmallGamma2Series(aa, x), 0, eps, 1000000)
			w.Count("CSmallGamma2")
			w.Add(fmt.Sprintf("CSmallGamma2 %s %s %s 1000000 %s", F(aa), F(x), F(eps), F(out)),
				raw{"kind": "CSmallGamma2", "a": fhex(aa), "x": fhex(x), "out": fhex(out)}, fmt.Sprintf("G/%x/%x", aa, x), true)
		default:
			zz := a + 1 + r.Float()*3*a
			out := sp.EvalContinuedFraction(sp.NewUpperIncompleteGammaFraction(a, zz), eps, 1000000)
			w.Count("CUpperFrac")
			w.Add(fmt.Sprintf("CUpperFrac %s %s %s 1000000 %s", F(a), F(zz), F(eps), F(out)),
				raw{"kind": "CUpperFrac", "a": fhex(a), "z": fhex(zz), "out": fhex(out)}, fmt.Sprintf("U/%x/%x", a, zz), true)
		}
	}

	// ---- Factorial: whole table, the guard, and the Gamma branch up to 170
	for x := -2; x <= 20; x++ {
		xx := x
		v, p := safe(func() float64 { return sp.Factorial(xx) })
		iv := int64(0)
		if !p {
			iv = int64(v)
			if float64(iv) != v {
				iv = -1
			}
		}
		w.Count("CFactTab")
		w.Add(fmt.Sprintf("CFactTab %s %s %s", ZI(x), B(p), Z(iv)), raw{"kind": "CFactTab", "x": x, "panicked": p, "v": iv},
			fmt.Sprintf("FT/%d", x), x >= 2)
	}
	for x := 21; x <= 170; x++ {
		if o.Tier == "quick" && x > 30 && x%7 != 0 && x != 170 {
			continue
		}
		v := sp.Factorial(x)
		w.Count("CFactBig")
		w.Add(fmt.Sprintf("CFactBig %d %s", x, F(v)), raw{"kind": "CFactBig", "x": x, "v": fhex(v)}, fmt.Sprintf("FB/%d", x), true)
	}
	// ---- Bernoulli numbers
	nb := 40
	if o.Tier != "quick" {
		nb = 100
	}
	for k := 0; k <= nb; k++ {
		v := sp.BernoulliNumber(k)
		w.Count("CBern")
		w.Add(fmt.Sprintf("CBern %d %s", k, F(v)), raw{"kind": "CBern", "n": k, "v": fhex(v)}, fmt.Sprintf("B/%d", k), k >= 2)
	}
	// ---- LogAdd / LogSub with -Inf operands
	ninf := math.Inf(-1)
	for _, c := range [][2]float64{{ninf, 1.5}, {1.5, ninf}, {ninf, ninf}, {ninf, -700}, {300, ninf}, {0, ninf}} {
		out := la.LogAdd(c[0], c[1])
		w.Count("CLogInf")
		w.Add(fmt.Sprintf("CLogInf false %s %s %s", F(c[0]), F(c[1]), F(out)), raw{"kind": "CLogInf", "sub": false, "a": fhex(c[0]), "b": fhex(c[1]), "out": fhex(out)},
			fmt.Sprintf("LI/a/%v/%v", c[0], c[1]), true)
		if math.IsInf(c[1], -1) {
			out = la.LogSub(c[0], c[1])
			w.Add(fmt.Sprintf("CLogInf true %s %s %s", F(c[0]), F(c[1]), F(out)), raw{"kind": "CLogInf", "sub": true, "a": fhex(c[0]), "b": fhex(c[1]), "out": fhex(out)},
				fmt.Sprintf("LI/s/%v/%v", c[0], c[1]), true)
		}
	}
	if err := w.Flush(); err != nil {
		Die("flush: %v", err)
	}
	_ = filepath.Join
}

func hexList(xs []float64) []string {
	s := make([]string, len(xs))
	for i, x := range xs {
		s[i] = fhex(x)
	}
	return s
}

var _ = strings.Join
