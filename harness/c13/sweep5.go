package main

// Round 5 sweep relations (supporting; feed the hunt): smoothness of Zeta across every threshold of zeta_imp /
// zeta_imp_prec (the tiny-argument window included), the x -> x+1 recurrence of Polygamma at large ORDER across
// the transition point, and continuity of BesselI / LogBesselI in the order at |v| < EpsilonFloat64 (temme_ik).

import (
	"fmt"
	"math"

	. "adharness/common"

	sp "github.com/pbenner/autodiff/special"
)

var zetaThresholds5 = []float64{rootEps5, -rootEps5, 2, 4, 7, 15, 36}

var genArgs5 = map[string]func(r *Rng) []float64{
	"zeta smooth across branch thresholds": func(r *Rng) []float64 {
		t := zetaThresholds5[r.Intn(len(zetaThresholds5))]
		return []float64{t, float64(r.Range(16, 46)), r.Float()*4 - 2}
	},
	"psi_n recurrence at large order": func(r *Rng) []float64 {
		n := r.Range(2, 130)
		T := 6 + 4*float64(n)
		switch r.Intn(4) {
		case 0:
			return []float64{float64(n), T + float64(r.Range(-3, 2)) + float64(r.Intn(4))/4}
		case 1:
			return []float64{float64(n), logUniform(r, 0.05, 4*T)}
		case 2:
			return []float64{float64(n), logUniform(r, T, 1e6*T)}
		}
		return []float64{float64(n), math.Min(5/float64(n), 0.25) * (0.5 + r.Float())}
	},
	"BesselI continuous in the order at |v| < eps": func(r *Rng) []float64 {
		return []float64{logUniform(r, 1e-300, 1e-9), logUniform(r, 0.02, 300)}
	},
}

func init() {
	relations = append(relations,
		relation{"zeta smooth across branch thresholds", func(v []float64) (bool, string, string) {
			// second differences of four equally spaced points straddling the threshold t: the rational / Taylor /
			// reflected formulae on the two sides must join to within a few ulp (zeta'' h^2 is far below an ulp)
			t, k, off := v[0], v[1], v[2]
			h := math.Abs(t) * math.Pow(2, -k)
			a := t + (off-1.5)*h
			pts := []float64{a, a + h, a + 2*h, a + 3*h}
			var z [4]float64
			lab, last := "", ""
			for i, s := range pts {
				z[i] = sp.Zeta(s)
				if !finite(z[i]) {
					return false, fmt.Sprintf("Zeta(%v) = %v", s, z[i]), zetaLabel5(s)
				}
				if l := zetaLabel5(s); i == 0 || l != last {
					if i > 0 {
						lab += "|"
					}
					lab += l
					last = l
				}
			}
			m := math.Max(math.Abs(z[1]), math.Abs(z[2]))
			curv := 64 * m * (h / math.Max(math.Abs(t), 1e-3)) * (h / math.Max(math.Abs(t), 1e-3)) * (1 + t*t)
			if math.Abs(t) < 1e-6 {
				curv = 4 * h * h
			}
			slack := 16*ulp*m*(1+math.Abs(t)/4) + curv
			d1, d2 := z[0]-2*z[1]+z[2], z[1]-2*z[2]+z[3]
			ok := math.Abs(d1) <= slack && math.Abs(d2) <= slack
			return ok, fmt.Sprintf("Zeta at %v + {0,1,2,3}*%v = %v: second differences %v %v, allowed %v", a, h, z, d1, d2, slack), lab
		}, func() [][]float64 {
			var g [][]float64
			for _, t := range zetaThresholds5 {
				for _, k := range []float64{12, 20, 30, 40, 46} {
					for _, off := range []float64{-1, -0.5, 0, 0.5, 1} {
						g = append(g, []float64{t, k, off})
					}
				}
			}
			return g
		}},
		relation{"psi_n recurrence at large order", func(v []float64) (bool, string, string) {
			n, x := int(v[0]), v[1]
			ok, obs, ref, lab := round5Oracle("PolygammaRecur", n, x)
			if !finite(ref) || math.Abs(ref) < 1e-290 || math.Abs(ref) > 1e290 {
				return true, "", lab
			}
			return ok, fmt.Sprintf("Polygamma(%d, x+1) - Polygamma(%d, x) = %v, (-1)^n n!/x^(n+1) = %v", n, n, obs, ref), lab
		}, func() [][]float64 {
			var g [][]float64
			for _, n := range []int{20, 21, 22, 26, 27, 28, 29, 40, 60, 100, 114, 115, 130} {
				T := 6 + 4*float64(n)
				for _, x := range []float64{0.5, 1, 2.25, T / 3, T - 1.5, T - 1, T - 0.5, T, up(T), T + 0.25, T + 1, 2 * T, 7 * T, 100 * T, 1e4 * T} {
					g = append(g, []float64{float64(n), x})
				}
			}
			return g
		}},
		relation{"BesselI continuous in the order at |v| < eps", func(v []float64) (bool, string, string) {
			// I_v + I_{-v} = 2 I_0 + O(v^2): the |v| < eps and |sigma| < eps branches of temme_ik against bessel_i0
			nu, x := v[0], v[1]
			ip, p1 := safe(func() float64 { return sp.BesselI(nu, x) })
			im, p2 := safe(func() float64 { return sp.BesselI(-nu, x) })
			i0 := sp.BesselI(0, x)
			lab := besselLabel(nu, x) + "|" + besselLabel(-nu, x)
			if !finite(i0) || i0 > 1e300 {
				return true, "", lab
			}
			lx := 1 + math.Abs(math.Log(x))
			slack := 64*ulp*(1+x/8)*i0 + 8*nu*nu*lx*lx*(i0+1/math.Sqrt(x))
			// the reflection term (2/pi) sin(pi v) K_v ~ 2 v K_0 cancels in the sum only to first order: compare the mean
			ok := !p1 && !p2 && math.Abs((ip+im)/2-i0) <= slack+4*nu*lx*ulp
			if ok {
				lp, q1 := safe(func() float64 { return sp.LogBesselI(nu, x) })
				l0 := sp.LogBesselI(0, x)
				ok = !q1 && math.Abs(lp-l0) <= 64*ulp*(1+math.Abs(l0)+x/8)+4*nu*lx*(1+1/math.Sqrt(x))/math.Min(i0, 1e300)*math.Max(1, i0)
				if !ok {
					return false, fmt.Sprintf("LogBesselI(%v, %v) = %v, LogBesselI(0, .) = %v", nu, x, lp, l0), lab
				}
			}
			return ok, fmt.Sprintf("BesselI(+-%v, %v) = %v, %v; BesselI(0, .) = %v", nu, x, ip, im, i0), lab
		}, func() [][]float64 {
			var g [][]float64
			for _, nu := range []float64{0x1p-1074, 1e-300, 1e-100, 1e-20, 1e-17, down(epsF), epsF, up(epsF), 1e-15, 1e-13, 1e-11} {
				for _, x := range []float64{0.05, 0.5, 1, 1.9, 2, 2.1, 5, 20, 150} {
					g = append(g, []float64{nu, x})
				}
			}
			return g
		}},
	)
}
