// C13 harness: special functions of /repo/special and /repo/logarithmetic.
//
//	(default)        exact cases (cases_*.v, vm_compute, bit-exact) +
//	                 anchors (anchors_*.v, one Coq-Interval goal per anchor) +
//	                 sweep of the functional relations (sweep.json; supporting
//	                 differential testing, feeds the hunt)
//	--extra hunt     bisect/shrink around failing anchors or relations (hunt.json)
//	--replay f.json  re-evaluate one reported input (replay.json)
package main

import (
	"encoding/json"
	"fmt"
	"math"
	"os"
	"path/filepath"
	"sort"
	"strings"

	. "adharness/common"
)

func main() {
	o := ParseFlags()
	if err := os.MkdirAll(o.Out, 0755); err != nil {
		Die("mkdir: %v", err)
	}
	switch {
	case o.Extra == "hunt":
		runHunt(o)
	case o.Replay != "":
		runReplay(o)
	case strings.HasPrefix(o.Extra, "boundaries="):
		// go/ast pass: method-selection boundaries of the anchored functions (+ which anchors carry their tag)
		bs := listBoundaries(strings.TrimPrefix(o.Extra, "boundaries="))
		writeJSON(filepath.Join(o.Out, "boundaries.json"), bs)
		fmt.Println(len(bs), "boundaries")
	case o.Extra == "anchors-only":
		// evaluate the Go functions at the anchors and nothing else (branch-coverage measurement)
		as := buildAnchors(o)
		fmt.Println(len(as), "anchors evaluated")
	default:
		if strings.HasPrefix(o.Extra, "corpus=") {
			runCorpus(o, strings.TrimPrefix(o.Extra, "corpus="))
		}
		exactCases(o)
		anchors := buildAnchors(o)
		writeAnchors(o, anchors)
		writeJSON(filepath.Join(o.Out, "domain.json"), domainTable)
		runSweep(o)
	}
}

// ---------------------------------------------------------------- helpers

// R prints a finite float64 as an exact real Coq term (dyadic rational).
func R(x float64) string {
	if x == 0 {
		return "0"
	}
	fr, e := math.Frexp(x)
	m := int64(fr * (1 << 53))
	e -= 53
	for m%2 == 0 {
		m /= 2
		e++
	}
	ms := fmt.Sprintf("%d", m)
	if m < 0 {
		ms = fmt.Sprintf("(%d)", m)
	}
	switch {
	case e == 0:
		return fmt.Sprintf("(IZR %s)", ms)
	case e > 0:
		return fmt.Sprintf("(IZR (%s * 2^%d))", ms, e)
	default:
		return fmt.Sprintf("(IZR %s / IZR (2^%d))", ms, -e)
	}
}

func finite(x float64) bool { return !math.IsNaN(x) && !math.IsInf(x, 0) }

// call f, recovering from panics
func safe(f func() float64) (v float64, panicked bool) {
	defer func() {
		if r := recover(); r != nil {
			v, panicked = math.NaN(), true
		}
	}()
	return f(), false
}

func writeJSON(path string, v interface{}) {
	b, _ := json.MarshalIndent(v, "", " ")
	if err := os.WriteFile(path, b, 0644); err != nil {
		Die("write %s: %v", path, err)
	}
}

func sortedKeys(m map[string]int) []string {
	ks := make([]string, 0, len(m))
	for k := range m {
		ks = append(ks, k)
	}
	sort.Strings(ks)
	return ks
}

// JSON cannot carry NaN/Inf: floats travel as strings in %v / hex form
func fs(x float64) string { return fmt.Sprintf("%v", x) }
func fhex(x float64) string {
	if !finite(x) {
		return fmt.Sprintf("%v", x)
	}
	return fmt.Sprintf("%x", x)
}
func parseF(s string) float64 {
	var x float64
	switch s {
	case "NaN":
		return math.NaN()
	case "+Inf":
		return math.Inf(1)
	case "-Inf":
		return math.Inf(-1)
	}
	if _, err := fmt.Sscanf(s, "%v", &x); err != nil {
		Die("bad float %q", s)
	}
	return x
}

var _ = strings.Join
var _ = filepath.Join
