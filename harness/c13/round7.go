package main

// Round 7: results at the EDGE OF THE binary64 RANGE that are still representable.
//
//	(a) far tails of the incomplete gamma functions, where regularised_gamma_prefix must take its guarded branch
//	    (a - z <= MinLogFloat64, a - z >= MaxLogFloat64, a ln(z/a) beyond either): Q(a, x) at integer a with x - a from ~690 to
//	    ~900 (Q between 1e-84 and 1e-300: tiny, normal, representable), P(a, x) = 1 - Q there, d/dx P(a, x) there; certified
//	    against the closed forms Q_h / P_h / dP_h of Spec.v (e^-x sum_{k<a} x^k/k! has no cancellation).  Points where the
//	    true value underflows (a ln(x/a) > 709 with x - a > 745; a - x > 709 with a ln(x/a) < -745) are exact-outcome
//	    anchors decided in float64: Q = 0 / P = 1 / dP = 0, resp. P against the cancellation-free series, never NaN.
//	(b) the branch x >= 500 of bessel_i0 / bessel_i1 up to the overflow threshold of I_0 / I_1 (x ~ 713.98), in particular
//	    x in [709.79, 713.98] where e^x overflows and I_v(x) does not: BesselI / LogBesselI at orders 0, 1, 2 certified against the
//	    power series with geometric tail bound (Spec6, Props.BesselI_integer_order_series_enclosure); log-variant = log of the
//	    plain variant and I_0 - I_2 = (2/x) I_1 follow from the three certified values.

import (
	"fmt"
	"math"

	sp "github.com/pbenner/autodiff/special"
)

// ln Q(n, x), integer n >= 1, x > n: -x + (n-1) ln x - ln (n-1)! + ln(1 + (n-1)/x + (n-1)(n-2)/x^2 + ...)
func lnQFar(n int, x float64) float64 {
	s, t := 0.0, 1.0
	for k := n - 1; k >= 0; k-- {
		s += t
		t *= float64(k) / x
	}
	lg, _ := math.Lgamma(float64(n))
	return -x + float64(n-1)*math.Log(x) - lg + math.Log(s)
}

func lnDPFar(h int, x float64) float64 {
	a := float64(h) / 2
	lg, _ := math.Lgamma(a)
	return (a-1)*math.Log(x) - x - lg
}

// float64 property oracle of the round-7 kinds (hunt / replay; the decision is the Coq goal or the exact outcome)
func oracle7(fn string, h int, x float64) (ok bool, obs, ref float64, label string) {
	a := float64(h) / 2
	var p bool
	rel := func(tol float64) bool {
		return !p && finite(obs) && math.Abs(obs-ref) <= tol*math.Abs(ref)+0x1p-1070
	}
	switch fn {
	case "GammaQFar7":
		obs, p = safe(func() float64 { return sp.GammaQ(a, x) })
		ref, label = math.Exp(lnQFar(h/2, x)), "igamma:far-upper-tail:"+gammaMethod(a, x, true, true)
		return rel(1e-9), obs, ref, label
	case "GammaPFar7":
		obs, p = safe(func() float64 { return sp.GammaP(a, x) })
		label = "igamma:far-tail:" + gammaMethod(a, x, true, false)
		if x > a {
			ref = 1 - math.Exp(lnQFar(h/2, x))
		} else {
			ref = pH(h, x)
		}
		return rel(1e-9), obs, ref, label
	case "GammaQLow7":
		obs, p = safe(func() float64 { return sp.GammaQ(a, x) })
		ref, label = 1-pH(h, x), "igamma:far-lower-tail:"+gammaMethod(a, x, true, true)
		return rel(1e-9), obs, ref, label
	case "Constants7":
		// the two thresholds of the guards of regularised_gamma_prefix as Model7.v has them (MaxLog7, MinLog7)
		return sp.MaxLogFloat64 == 709 && sp.MinLogFloat64 == -709, sp.MinLogFloat64, -709, "constants:MaxLog=709:MinLog=-709"
	case "GammaDPFar7":
		obs, p = safe(func() float64 { return sp.GammaPfirstDerivative(a, x) })
		ref, label = math.Exp(lnDPFar(h, x)), "dP:far-tail"
		return rel(1e-9), obs, ref, label
	}
	return true, 0, 0, ""
}

func isRound7(fn string) bool {
	switch fn {
	case "GammaQFar7", "GammaPFar7", "GammaQLow7", "GammaDPFar7", "Constants7":
		return true
	}
	return false
}

func (b *builder) gammaFar7() {
	// ---- certified: integer a, x - a beyond the thresholds 708.4 (min normal), 709 / 709.78 (MaxLog), 744 / 745.13 (MinLog)
	type pt struct {
		h int
		d float64
	}
	var pts []pt
	hs := []int{20, 24, 70, 100, 200, 400}
	ds := []float64{690, 708.5, 709.5, 712, 743.5, 744.5, 746, 760, 800, 900}
	if b.quick {
		hs = []int{20, 70, 200, 400}
		ds = []float64{708.5, 709.5, 744.5, 746, 800}
	}
	for _, h := range hs {
		for _, d := range ds {
			pts = append(pts, pt{h, d})
		}
	}
	// a ln(x/a) > 709.78 AND x - a > 745.13 with ln Q = their sum (minus ln sqrt(2 pi a)) moderate: pow(x/a, a) = +Inf, e^(a-x) = 0
	nanw := []pt{{1300, 1300}}
	if !b.quick {
		nanw = append(nanw, pt{2000, 1117}, pt{1600, 1200}, pt{1240, 1400})
	}
	pts = append(pts, nanw...)
	for _, c := range pts {
		a := float64(c.h) / 2
		x := a + c.d
		lq := lnQFar(c.h/2, x)
		if lq < -690 || lq > -190 { // 1e-300 .. 1e-84
			continue
		}
		cond := 1 + (a+x)/16
		prec := 100 + c.h/8
		// Q
		ok, obs, ref, label := oracle7("GammaQFar7", c.h, x)
		_ = ok
		an := &Anchor{Fam: "igamma", Label: label, Fn: "GammaQFar7", H: c.h, x: x, obs: obs, ref: ref, Bnd: true,
			Desc: fmt.Sprintf("GammaQ(%v, %v) far upper tail (x - a = %v, tiny but representable)", a, x, c.d)}
		an.tol = 128 * ulp * cond * math.Abs(ref)
		an.tac = fmt.Sprintf("unf2; interval with (i_prec %d)", prec)
		an.goal = stdGoal(fmt.Sprintf("Q_int_nest %s %s", nat(c.h/2), R(x)), obs, an.tol)
		b.add(an)
		// P = 1 - Q
		_, obs, ref, label = oracle7("GammaPFar7", c.h, x)
		an = &Anchor{Fam: "igamma", Label: label, Fn: "GammaPFar7", H: c.h, x: x, obs: obs, ref: ref, Bnd: true,
			Desc: fmt.Sprintf("GammaP(%v, %v) far upper tail (x - a = %v)", a, x, c.d)}
		an.tol = 4 * ulp
		an.tac = fmt.Sprintf("unf2; interval with (i_prec %d)", prec)
		an.goal = stdGoal(fmt.Sprintf("P_int_nest %s %s", nat(c.h/2), R(x)), obs, an.tol)
		b.add(an)
		// dP/dx
		if ld := lnDPFar(c.h, x); ld > -690 {
			_, obs, ref, label = oracle7("GammaDPFar7", c.h, x)
			an = &Anchor{Fam: "igamma-deriv", Label: label, Fn: "GammaDPFar7", H: c.h, x: x, obs: obs, ref: ref, Bnd: true,
				Desc: fmt.Sprintf("GammaPfirstDerivative(%v, %v) far upper tail (x - a = %v)", a, x, c.d)}
			an.tol = 128 * ulp * cond * math.Abs(ref)
			an.tac = ivTac(prec)
			an.goal = stdGoal(fmt.Sprintf("dP_h %s %s", nat(c.h), R(x)), obs, an.tol)
			b.add(an)
		}
	}
	// ---- exact outcomes (float64): the value underflows / is 1, and the guards of the prefix must not produce Inf * 0
	exact := func(fn string, h int, x float64, want string, ok bool, obs float64, label string) {
		an := &Anchor{Fam: "igamma", Label: label, Fn: fn, H: h, x: x, obs: obs, ref: math.NaN(),
			Desc: fmt.Sprintf("%s(%v, %v) %s", fn[:len(fn)-4], float64(h)/2, x, want)}
		if fn == "GammaDPFar7" {
			an.Fam = "igamma-deriv"
		}
		b.exactAnchor(an, ok)
	}
	for _, c := range []struct{ a, x float64 }{{200, 200 * math.Exp(3.6)}, {100, 100 * math.Exp(7.2)}, {1000, 1000 * math.Exp(1.2)},
		{35.5, 35.5 * math.Exp(20.5)}, {1e4, 1e4 * math.Exp(0.39)}, {12.25, 12.25 * math.Exp(60)}} {
		h := int(2 * c.a)
		a := float64(h) / 2
		if a*math.Log(c.x/a) <= 709.8 || c.x-a <= 745.2 || a*math.Log(c.x/a)+a-c.x > -800 {
			continue // the value must underflow: ln Q ~ a ln(x/a) + a - x
		}
		q, p1 := safe(func() float64 { return sp.GammaQ(a, c.x) })
		exact("GammaQFar7", h, c.x, "= 0 (underflow; a ln(x/a) > 709)", !p1 && q == 0, q, "igamma:upper-tail:underflow")
		pp, p2 := safe(func() float64 { return sp.GammaP(a, c.x) })
		exact("GammaPFar7", h, c.x, "= 1 (a ln(x/a) > 709)", !p2 && pp == 1, pp, "igamma:upper-tail:underflow")
		d, p3 := safe(func() float64 { return sp.GammaPfirstDerivative(a, c.x) })
		exact("GammaDPFar7", h, c.x, "= 0 (underflow; a ln(x/a) > 709)", !p3 && d == 0, d, "dP:upper-tail:underflow")
	}
	// one factor of pow(z/a, a) * exp(a - z) overflows while the other is still a non-zero denormal (between 709.78 and 744; with the observed
	// MinLogFloat64 = -709 both guard sides fire here, so dropping one side is an equivalent change on this platform):
	// only GammaPfirstDerivative reaches the prefix there (P / Q use Temme's expansion); the value itself is moderate.  Reference: float64
	// lgamma form (differential, 1e-9 relative), NOT certified (the closed form at a ~ 2e4 costs Coq-Interval > 10 s per goal)
	for _, c := range []struct{ a, d float64 }{{20000, 740}, {20000, -720}, {50000, 735}, {50000, -715}, {12000, 742}, {12000, -712}} {
		h := int(2 * c.a)
		x := c.a + c.d
		alzoa, amz := c.a*math.Log(x/c.a), c.a-x
		if !(math.Max(alzoa, amz) > 709.8 && math.Min(alzoa, amz) > -744) {
			continue
		}
		ok, obs, ref, label := oracle7("GammaDPFar7", h, x)
		exact("GammaDPFar7", h, x, fmt.Sprintf("~ %.6g (one factor of the prefix overflows, the other is a non-zero denormal; float64 lgamma form, differential)", ref), ok, obs, label+":one-factor-overflows")
	}
	// far lower tail: a - x >= 709.78 (e^(a-x) overflows), P tiny but representable, cancellation-free float64 series as reference
	for _, c := range []struct{ a, x float64 }{{1500, 780}, {1500, 790.5}, {3000, 2285}, {1600.5, 880}, {2000.25, 1100}} {
		h := int(2 * c.a)
		a := float64(h) / 2
		ref := pH(h, c.x)
		if !(ref > 1e-290 && ref < 1e-30) || a-c.x < 709.8 {
			continue
		}
		ok, obs, _, label := oracle7("GammaPFar7", h, c.x)
		exact("GammaPFar7", h, c.x, fmt.Sprintf("~ %.6g (a - x >= 709.78; float64 series, differential)", ref), ok, obs, label)
		ok, obs, _, label = oracle7("GammaQLow7", h, c.x)
		exact("GammaQLow7", h, c.x, "= 1 (a - x >= 709.78)", ok, obs, label)
	}
}

// BesselI / LogBesselI at integer orders 0, 1, 2 on the branch x >= 500 of bessel_i0 / bessel_i1 up to the overflow threshold
func (b *builder) besselLarge7() {
	one := func(n int, x float64, logv bool, why string) {
		ref := besselSeriesInt(n, x)
		if !finite(ref) {
			return
		}
		if logv {
			obs, p := safe(func() float64 { return sp.LogBesselI(float64(n), x) })
			lref := math.Log(ref)
			tol := logBesselTol6(n, x, lref)
			an := &Anchor{Fam: "logbessel", Label: besselLabel(float64(n), x) + ":integer-order:" + why, Fn: "LogBesselInt6", H: 2 * n, K: n, x: x, obs: obs, ref: lref, tol: tol, Bnd: true,
				Desc: fmt.Sprintf("LogBesselI(%d, %v) vs ln of the certified power series (%s)", n, x, why)}
			if p {
				an.NonFin = true
			}
			K := besselTerms6(n, x, ref*tol/lref, 30)
			an.tac = "unf6; repeat split; interval with (i_prec 140)"
			an.goal = fmt.Sprintf("bessel_q %s %s %s < 1 /\\ 0 < bessel_partial_nest %s %s %s /\\ Rabs (ln (bessel_partial_nest %s %s %s) - %s) + bessel_rad %s %s %s / bessel_partial_nest %s %s %s <= %s",
				nat(n), R(x), nat(K), nat(n), R(x), nat(K), nat(n), R(x), nat(K), R(obs), nat(n), R(x), nat(K), nat(n), R(x), nat(K), R(tol))
			b.add(an)
			return
		}
		obs, p := safe(func() float64 { return sp.BesselI(float64(n), x) })
		tol := 64 * ulp * (1 + x/8) * math.Abs(ref)
		an := &Anchor{Fam: "bessel", Label: besselLabel(float64(n), x) + ":integer-order:" + why, Fn: "BesselInt6", H: 2 * n, K: n, x: x, obs: obs, ref: ref, tol: tol, Bnd: true,
			Desc: fmt.Sprintf("BesselI(%d, %v) vs the certified power series (%s)", n, x, why)}
		if p {
			an.NonFin = true
		}
		K := besselTerms6(n, x, tol, 20)
		an.tac = "unf6; repeat split; interval with (i_prec 140)"
		an.goal = fmt.Sprintf("bessel_q %s %s %s < 1 /\\ Rabs (bessel_partial_nest %s %s %s - %s) + bessel_rad %s %s %s <= %s",
			nat(n), R(x), nat(K), nat(n), R(x), nat(K), R(obs), nat(n), R(x), nat(K), R(tol))
		b.add(an)
	}
	type nx struct {
		n    int
		x    float64
		logv bool
	}
	// quick: I_0, I_1, I_2 at x = 712 (recurrence I_0 - I_2 = (2/x) I_1 from three certified values), both ends of the window, ln I_0
	cs := []nx{{0, 709.8, false}, {0, 712, false}, {0, 713.9, false}, {1, 712, false}, {1, 713.9, false}, {2, 712, false}, {0, 712, true}}
	if !b.quick {
		for _, n := range []int{0, 1} {
			for _, x := range []float64{600, 700, 709.5, 709.75, 710, 711, 713, 713.5, 713.98} {
				cs = append(cs, nx{n, x, false})
			}
			cs = append(cs, nx{n, 710, true}, nx{n, 713.9, true})
		}
		cs = append(cs, nx{1, 709.8, false}, nx{1, 712, true}, nx{2, 710, false}, nx{2, 712, true}, nx{2, 713.9, false})
	}
	for _, c := range cs {
		one(c.n, c.x, c.logv, "x >= 500 up to the overflow threshold of I_v, e^x overflows above 709.78")
	}
}

// tie of Model7.bessel_i0_large / bessel_i1_large (R-model of the branch x >= 500: split exponential, degree-4 polynomial in 1/x with the
// coefficient text of the source) to the code: the Go value is within 16 ulp of the model value (2 x Exp, Horner, Sqrt, 3 products)
func (b *builder) besselLargeModel7() {
	xs := []float64{500, 600, 700, 709.8, 712, 713.9}
	if !b.quick {
		xs = []float64{500, up(500), 550, 600, 650, 700, 709, 709.75, 709.8, 710, 711, 712, 713, 713.9, 713.98}
	}
	for n := 0; n <= 1; n++ {
		for _, x := range xs {
			obs, p := safe(func() float64 { return sp.BesselI(float64(n), x) })
			ref := besselSeriesInt(n, x)
			an := &Anchor{Fam: "bessel", Label: besselLabel(float64(n), x) + ":integer-order:large-x-model", Fn: "BesselInt6", H: 2 * n, K: n, x: x, obs: obs, ref: ref, Bnd: true,
				Desc: fmt.Sprintf("BesselI(%d, %v) vs the R-model of the branch x >= 500 (Model7.bessel_i%d_large)", n, x, n)}
			if p {
				an.NonFin = true
			}
			an.tol = 16 * ulp * math.Abs(ref)
			an.tac = "unf7; interval with (i_prec 100)"
			an.goal = stdGoal(fmt.Sprintf("bessel_i%d_large %s", n, R(x)), obs, an.tol)
			b.add(an)
		}
	}
}

func (b *builder) round7() {
	okc, obsc, _, labc := oracle7("Constants7", 0, 1)
	b.exactAnchor(&Anchor{Fam: "domain-other", Label: labc, Fn: "Constants7", x: 1, obs: obsc, ref: -709,
		Desc: fmt.Sprintf("special.MaxLogFloat64 = %v, MinLogFloat64 = %v as in Model7.v (709, -709)", sp.MaxLogFloat64, sp.MinLogFloat64)}, okc)
	b.gammaFar7()
	b.besselLarge7()
	b.besselLargeModel7()
}
