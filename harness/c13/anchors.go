package main

// Certified anchors: the Go functions are evaluated at arguments where a closed
// form exists (C13/Spec.v); for every anchor one Coq goal
//     Rabs (closed_form(args as exact dyadics) - observed) <= tol
// is written, to be closed by Coq-Interval (`interval` / `integral`).

import (
	"fmt"
	"math"
	"os"
	"path/filepath"
	"strings"

	. "adharness/common"

	la "github.com/pbenner/autodiff/logarithmetic"
	sp "github.com/pbenner/autodiff/special"
)

// PredTag: a comparison of the Go source evaluated on the path of this anchor's arguments
type PredTag struct {
	Key  string `json:"k"`
	Adj  bool   `json:"adj"` // the arguments sit on the boundary (both operands within 4 ulp / one grid step)
	True bool   `json:"t"`
}

type Anchor struct {
	ID     int       `json:"id"`
	Fam    string    `json:"fam"`
	Label  string    `json:"label"` // algorithm branch the arguments select (by reading the code)
	Fn     string    `json:"fn"`
	H      int       `json:"h"` // 2a / 2v / 2x (half-integer parameter), family specific
	K      int       `json:"k"`
	X      string    `json:"x"` // hex
	X2     string    `json:"x2"`
	Obs    string    `json:"obs"`
	Ref    string    `json:"ref"` // float64 evaluation of the closed form (diagnostic / hunt only)
	Tol    string    `json:"tol"`
	Desc   string    `json:"desc"`
	Skip   string    `json:"skip,omitempty"`
	NonFin bool      `json:"nonfinite,omitempty"`
	KF     string    `json:"kf,omitempty"`  // known finding reproduced by this anchor (printed by the plugin)
	Bnd    bool      `json:"bnd,omitempty"` // round-2 boundary / large-order anchor (always in the quick tier)
	Preds  []PredTag `json:"preds,omitempty"`
	goal   string
	tac    string
	x      float64
	obs    float64
	ref    float64
	tol    float64
}

const ulp = 0x1p-52

// ---------------------------------------------------------------- float64 closed forms (diagnostics / hunt)

func gammaH(h int) float64 { return math.Gamma(float64(h) / 2) }

func qH(h int, x float64) float64 {
	n := h / 2
	if h%2 == 0 {
		sum, t := 0.0, 1.0
		for k := 0; k < n; k++ {
			if k > 0 {
				t *= x / float64(k)
			}
			sum += t
		}
		return math.Exp(-x) * sum
	}
	sum := 0.0
	t := math.Sqrt(x) / gammaH(3) // x^(1/2)/Γ(3/2)
	for k := 0; k < n; k++ {
		if k > 0 {
			t *= x / (float64(k) + 0.5)
		}
		sum += t
	}
	return math.Erfc(math.Sqrt(x)) + math.Exp(-x)*sum
}

// P(h/2, x) without cancellation: e^-x sum_{k>=0} x^(a+k)/Γ(a+k+1)
func pH(h int, x float64) float64 {
	a := float64(h) / 2
	lg, _ := math.Lgamma(a + 1)
	t := math.Exp(a*math.Log(x) - x - lg)
	sum := t
	for k := 1; k < 100000; k++ {
		t *= x / (a + float64(k))
		sum += t
		if t < sum*1e-18 {
			break
		}
	}
	return sum
}
func pqRef(h int, x float64, upper bool) float64 {
	q := qH(h, x)
	if upper {
		if q < 0.5 {
			return q
		}
		return 1 - pH(h, x)
	}
	if q > 0.5 {
		return pH(h, x)
	}
	return 1 - q
}
func dPH(h int, x float64) float64 {
	a := float64(h) / 2
	lg, _ := math.Lgamma(a)
	return math.Exp((a-1)*math.Log(x) - x - lg)
}

func psiDiffInt(n int) float64 {
	s := 0.0
	for k := 1; k <= n; k++ {
		s += 1 / float64(k)
	}
	return s
}
func psiDiffHalf(n int) float64 {
	s := 0.0
	for k := 0; k < n; k++ {
		s += 2 / float64(2*k+1)
	}
	return s - 2*math.Ln2
}
func psi1Int(n int) float64 {
	s := 0.0
	for k := n; k >= 1; k-- {
		s += 1 / float64(k*k)
	}
	return math.Pi*math.Pi/6 - s
}
func psi1Half(n int, neg bool) float64 {
	s := 0.0
	for k := n - 1; k >= 0; k-- {
		s += 4 / float64((2*k+1)*(2*k+1))
	}
	if neg {
		return math.Pi*math.Pi/2 + s
	}
	return math.Pi*math.Pi/2 - s
}
func iHalf(n int, x float64, neg bool) float64 {
	c := math.Sqrt(2 / (math.Pi * x))
	p, q := c*math.Sinh(x), c*math.Cosh(x)
	if neg {
		p, q = q, p
	}
	for k := 0; k < n; k++ {
		p, q = q-float64(2*k+1)/x*p, p
	}
	return p
}

// ln I_{+-(n+1/2)}(x) for large x (recurrence scaled by e^-x)
func iHalfLog(n int, x float64, neg bool) float64 {
	c := math.Sqrt(2 / (math.Pi * x))
	em := math.Exp(-2 * x)
	p, q := c*(1-em)/2, c*(1+em)/2
	if neg {
		p, q = q, p
	}
	for k := 0; k < n; k++ {
		p, q = q-float64(2*k+1)/x*p, p
	}
	return x + math.Log(p)
}

// ---------------------------------------------------------------- branch labels (from reading gamma.go / bessel.go)

const epsF = 0x1p-52

var maxLog = math.Floor(math.Log(math.MaxFloat64))

// gammaMethod replicates the selection of gamma_incomplete_imp for LABELLING only
// (histogram, known-finding regions); measured coverage comes from go -cover.
func gammaMethod(a, x float64, normalised, invert bool) string {
	if int(a) >= 170 && !normalised {
		switch {
		case invert && a*4 < x:
			return "big:log-cf"
		case !invert && a > 4*x:
			return "big:log-series"
		default:
			return "big:via-regularised+" + gammaMethod(a, x, true, invert)
		}
	}
	isInt, isHalf := false, false
	if a < 30 && a <= x+1 && x < maxLog {
		fa := math.Floor(a)
		if fa == a {
			isInt = true
		} else if math.Abs(fa-a) == 0.5 {
			isHalf = true
		}
	}
	inv := func(s string, flip bool) string {
		i := invert
		if flip {
			i = !i
		}
		if i {
			return s + ":inv"
		}
		return s
	}
	switch {
	case isInt && x > 0.6:
		return inv("m0", true)
	case isHalf && x > 0.2:
		return inv("m1", true)
	case x < epsF && a > 1:
		return inv("m6", false)
	case x < 0.5:
		if -0.4/math.Log(x) < a {
			return inv("m2", false)
		}
		return inv("m3", false)
	case x < 1.1:
		if x*0.75 < a {
			return inv("m2", false)
		}
		return inv("m3", false)
	}
	useTemme := false
	if normalised && a > 20 {
		sigma := math.Abs((x - a) / a)
		if a > 200 {
			if 20/a > sigma*sigma {
				useTemme = true
			}
		} else if sigma < 0.4 {
			useTemme = true
		}
	}
	if useTemme {
		if a > 200 {
			return "m5:a>200"
		}
		return "m5"
	}
	if x-1/(3*x) < a {
		return inv("m2", false)
	}
	return inv("m4", true)
}

func besselLabel(v, x float64) string {
	if x == 0 {
		return "x=0"
	}
	if v == 0.5 {
		if x >= maxLog {
			return "v=1/2:large"
		}
		return "v=1/2"
	}
	if v > 0 && x/v < 0.25 {
		return "small-z-series"
	}
	s := "ik"
	av := v
	if v < 0 {
		s += ":reflect"
		av = -v
	}
	if x <= 2 {
		s += ":temme"
	} else {
		s += ":cf2"
	}
	lim := (4*av*av + 10) / (8 * x)
	lim *= lim
	lim *= lim
	lim /= 24
	switch {
	case lim < epsF*10 && x > 100:
		s += ":asymptotic"
	case av > 0 && x/av < 0.25:
		s += ":small-z"
	default:
		s += ":cf1"
	}
	return s
}

// ---------------------------------------------------------------- building

type builder struct {
	as    []*Anchor
	quick bool
}

func (b *builder) add(a *Anchor) {
	a.ID = len(b.as)
	a.X, a.Obs, a.Ref, a.Tol = fhex(a.x), fhex(a.obs), fs(a.ref), fs(a.tol)
	if !finite(a.obs) {
		a.NonFin = true
	}
	for _, p := range predsOf(a) {
		a.Preds = append(a.Preds, PredTag{p.Key, p.adjacent(), p.True})
	}
	b.as = append(b.as, a)
}

func ivTac(prec int) string {
	if prec > 900 {
		prec = 900
	}
	return fmt.Sprintf("unf; interval with (i_prec %d)", prec)
}
func intTac(prec int) string {
	if prec > 400 {
		prec = 400
	}
	return fmt.Sprintf("unf; integral with (i_prec %d, i_relwidth %d)", prec, prec-28)
}

// extra precision for a result `ref` obtained by cancellation from terms of size `big`
func extraBits(big, ref float64) int {
	if ref == 0 || !finite(ref) || !finite(big) || big <= math.Abs(ref) {
		return 0
	}
	return int(math.Ceil(math.Log2(big/math.Abs(ref)))) + 4
}

func stdGoal(closed string, obs, tol float64) string {
	return fmt.Sprintf("Rabs (%s - %s) <= %s", closed, R(obs), R(tol))
}

func nat(n int) string { return fmt.Sprintf("%d%%nat", n) }

// incomplete gamma family
func (b *builder) igamma(rng *Rng) {
	// a = h/2 up to 60.5: beyond that the closed forms (sums of a terms) cost Coq-Interval minutes per
	// anchor; the branches that need larger a (non-normalised a >= 170, Temme with a > 200) are NOT
	// reached by certified anchors and are reported as uncovered (the sweep exercises them).
	hs := []int{1, 2, 3, 4, 5, 6, 7, 10, 11, 20, 21, 39, 42, 45, 58, 59, 60, 61, 80, 100, 121}
	if b.quick {
		hs = []int{1, 2, 3, 4, 5, 6, 7, 10, 11, 20, 21, 42, 45, 58, 60, 61, 80, 100}
	}
	base := []float64{1e-17, 0.01, 0.1, 0.19, 0.21, 0.3, 0.45, 0.55, 0.59, 0.61, 0.75, 1.0, 1.09, 1.11, 1.5, 2.3, 5, 7.5, 12, 20, 29, 31, 50, 100, 300, 700, 720}
	rel := []float64{0.2, 0.5, 0.7, 0.9, 0.97, 1.0, 1.03, 1.1, 1.3, 1.5, 2, 4.5}
	type cand struct {
		h          int
		x          float64
		fn         string
		norm, invt bool
		label      string
	}
	var cands []cand
	for _, h := range hs {
		a := float64(h) / 2
		xs := append([]float64{}, base...)
		for _, r := range rel {
			xs = append(xs, math.Round(a*r*64)/64)
		}
		// seed-dependent extra arguments
		for i := 0; i < 3; i++ {
			xs = append(xs, math.Round(a*math.Exp((rng.Float()*2-1)*1.5)*256)/256)
		}
		for _, x := range xs {
			if x <= 0 {
				continue
			}
			for _, f := range []struct {
				fn         string
				norm, invt bool
			}{{"GammaP", true, false}, {"GammaQ", true, true}, {"GammaLower", false, false}, {"GammaUpper", false, true}} {
				cands = append(cands, cand{h, x, f.fn, f.norm, f.invt, gammaMethod(a, x, f.norm, f.invt)})
			}
		}
	}
	// quick tier: at most `per` anchors per (function, branch label), spread by stride
	per := 5
	if !b.quick {
		per = 60
	}
	groups := map[string][]cand{}
	var order []string
	for _, c := range cands {
		k := c.fn + "/" + c.label
		if _, ok := groups[k]; !ok {
			order = append(order, k)
		}
		groups[k] = append(groups[k], c)
	}
	// witnesses of repaired defects are always anchored (corpus/C13)
	for _, pc := range []struct {
		fn         string
		h          int
		x          float64
		norm, invt bool
	}{{"GammaQ", 10, 2.3, true, true}, {"GammaUpper", 10, 2.3, false, true}, {"GammaP", 80, 35, true, false},
		{"GammaP", 10, 1e-17, true, false}, {"GammaLower", 10, 1e-17, false, false}, {"GammaQ", 1, 0.1, true, true}} {
		groups["pinned"] = append(groups["pinned"], cand{pc.h, pc.x, pc.fn, pc.norm, pc.invt, gammaMethod(float64(pc.h)/2, pc.x, pc.norm, pc.invt)})
	}
	order = append(order, "pinned")
	for _, k := range order {
		g := groups[k]
		if k == "pinned" {
			per = len(g)
		}
		stride := 1
		if len(g) > per {
			stride = len(g) / per
		}
		cnt := 0
		for i := 0; i < len(g) && cnt < per; i += stride {
			c := g[i]
			cnt++
			a := float64(c.h) / 2
			var obs float64
			switch c.fn {
			case "GammaP":
				obs = sp.GammaP(a, c.x)
			case "GammaQ":
				obs = sp.GammaQ(a, c.x)
			case "GammaLower":
				obs = sp.GammaLower(a, c.x)
			case "GammaUpper":
				obs = sp.GammaUpper(a, c.x)
			}
			pq := pqRef(c.h, c.x, c.invt)
			ref := pq
			closed := fmt.Sprintf("P_h %s %s", nat(c.h), R(c.x))
			if c.invt {
				closed = fmt.Sprintf("Q_h %s %s", nat(c.h), R(c.x))
			}
			if !c.norm {
				ref = pq * gammaH(c.h)
				closed = fmt.Sprintf("gamma_h %s * %s", nat(c.h), closed)
			}
			an := &Anchor{Fam: "igamma", Label: c.label, Fn: c.fn, H: c.h, x: c.x, obs: obs, ref: ref,
				Desc: fmt.Sprintf("%s(%v, %v)", c.fn, a, c.x)}
			cond := 1 + (a+c.x)/16
			an.tol = 128 * ulp * cond * math.Abs(ref)
			switch {
			case !finite(ref) || math.Abs(ref) > 1e300:
				an.Skip = "closed form overflows binary64 (overflow is the specified outcome; checked by the sweep)"
			case an.tol < 1e-320:
				an.Skip = "tolerance underflows"
			case c.h%2 == 1 && (pq < 1e-6 || (b.quick && pq < 1e-4)):
				an.Skip = "half-integer a with P or Q below 1e-6: the erf integral cannot be certified to the needed relative accuracy in bounded time"
			case c.h%2 == 0 && (pq < 1e-100 || (pq < 1e-60 && c.h > 24)):
				an.Skip = "tiny value: closed form 1 - Q needs several hundred bits of cancellation"
			}
			prec := 90 + extraBits(1, pq) + c.h/8
			if c.h%2 == 0 {
				an.tac = ivTac(prec)
			} else {
				an.tac = intTac(prec)
			}
			an.goal = stdGoal(closed, obs, an.tol)
			b.add(an)
		}
	}
	// derivatives of P
	for _, h := range []int{1, 2, 3, 5, 8, 20, 21, 60, 61, 120} {
		a := float64(h) / 2
		for _, x := range []float64{0.01, 0.5, 1, 3, math.Round(a*32) / 32, 2 * a, 50, 700} {
			d1 := dPH(h, x)
			if d1 < 1e-280 || d1 > 1e280 {
				continue
			}
			if b.quick && (h == 3 || h == 8 || h == 60) {
				continue
			}
			o1 := sp.GammaPfirstDerivative(a, x)
			an := &Anchor{Fam: "igamma-deriv", Label: "dP", Fn: "GammaPfirstDerivative", H: h, x: x, obs: o1, ref: d1,
				Desc: fmt.Sprintf("GammaPfirstDerivative(%v, %v)", a, x)}
			an.tol = 128 * ulp * (1 + (a+x)/16) * d1
			an.tac = ivTac(100)
			an.goal = stdGoal(fmt.Sprintf("dP_h %s %s", nat(h), R(x)), o1, an.tol)
			b.add(an)
			o2 := sp.GammaPsecondDerivative(a, x)
			d2 := ((a-1)/x - 1) * d1
			an2 := &Anchor{Fam: "igamma-deriv", Label: "d2P", Fn: "GammaPsecondDerivative", H: h, x: x, obs: o2, ref: d2,
				Desc: fmt.Sprintf("GammaPsecondDerivative(%v, %v)", a, x)}
			an2.tol = 128 * ulp * (1 + (a+x)/16) * d1 * (math.Abs((a-1)/x) + 1)
			an2.tac = ivTac(100)
			an2.goal = stdGoal(fmt.Sprintf("d2P_h %s %s", nat(h), R(x)), o2, an2.tol)
			b.add(an2)
		}
	}
}

func (b *builder) polygammas() {
	psi1 := sp.Digamma(1)
	ints := []int{1, 2, 3, 4, 5, 8, 9, 10, 11, 15, 30, 100}
	halves := []int{0, 1, 2, 3, 5, 9, 10, 11, 20, 50}
	negs := []int{1, 2, 3, 5, 10, 20}
	if b.quick {
		ints = []int{1, 2, 4, 8, 9, 10, 30}
		halves = []int{0, 1, 3, 9, 10, 20}
		negs = []int{1, 2, 5, 20}
	}
	lab := func(x float64) string {
		switch {
		case x <= -1:
			return "reflect"
		case x >= 10:
			return "asymptotic"
		case x > 2:
			return "recur-down"
		case x < 1:
			return "recur-up"
		}
		return "[1,2]"
	}
	dig := func(x float64, n int, closed string, ref float64) {
		obs := sp.Digamma(x)
		an := &Anchor{Fam: "digamma", Label: lab(x), Fn: "Digamma", H: int(2 * x), K: n, x: x, obs: obs, ref: ref,
			Desc: fmt.Sprintf("Digamma(%v) - Digamma(1)", x), X2: fhex(psi1)}
		an.tol = 16 * ulp * (math.Abs(obs) + math.Abs(psi1) + 1)
		an.tac = ivTac(90)
		an.goal = fmt.Sprintf("Rabs (%s - (%s - %s)) <= %s", closed, R(obs), R(psi1), R(an.tol))
		b.add(an)
	}
	for _, n := range ints {
		dig(float64(n+1), n, fmt.Sprintf("psi_int_diff %s", nat(n)), psiDiffInt(n))
	}
	for _, n := range halves {
		dig(float64(n)+0.5, n, fmt.Sprintf("psi_half_diff %s", nat(n)), psiDiffHalf(n))
	}
	for _, n := range negs {
		dig(0.5-float64(n), n, fmt.Sprintf("psi_half_diff %s", nat(n)), psiDiffHalf(n))
	}
	tlab := func(x float64) string {
		switch {
		case x <= 0:
			return "reflect"
		case x < 1:
			return "shift"
		case x <= 2:
			return "[1,2]"
		case x <= 4:
			return "(2,4]"
		}
		return "(4,inf)"
	}
	tri := func(x float64, n int, closed string, ref float64) {
		obs := sp.Trigamma(x)
		an := &Anchor{Fam: "trigamma", Label: tlab(x), Fn: "Trigamma", H: int(2 * x), K: n, x: x, obs: obs, ref: ref,
			Desc: fmt.Sprintf("Trigamma(%v)", x)}
		an.tol = 16 * ulp * math.Abs(ref)
		if x < 0 {
			an.tol *= 4
		}
		an.tac = ivTac(90 + extraBits(math.Pi*math.Pi/2, ref))
		an.goal = stdGoal(closed, obs, an.tol)
		b.add(an)
		if n <= 6 || !b.quick {
			o2 := sp.Polygamma(1, x)
			an2 := &Anchor{Fam: "trigamma", Label: "Polygamma(1,.):" + tlab(x), Fn: "Polygamma1", H: int(2 * x), K: n, x: x, obs: o2, ref: ref,
				Desc: fmt.Sprintf("Polygamma(1, %v)", x), tol: an.tol, tac: an.tac}
			an2.goal = stdGoal(closed, o2, an.tol)
			b.add(an2)
		}
	}
	for _, n := range ints {
		tri(float64(n+1), n, fmt.Sprintf("psi1_int %s", nat(n)), psi1Int(n))
	}
	tri(1, 0, "psi1_int 0%nat", psi1Int(0))
	for _, n := range halves {
		tri(float64(n)+0.5, n, fmt.Sprintf("psi1_half %s", nat(n)), psi1Half(n, false))
	}
	for _, n := range negs {
		tri(0.5-float64(n), n, fmt.Sprintf("psi1_mhalf %s", nat(n)), psi1Half(n, true))
	}
}

// Polygamma(n, x), n >= 2: differences that need no zeta value:
//
//	psi_n(m+1)   -               psi_n(1) = (-1)^n n! sum_{k=1..m} 1/k^(n+1)
//	psi_n(m+1/2) - (2^(n+1)-1) * psi_n(1) = (-1)^n n! sum_{k<m} 2^(n+1)/(2k+1)^(n+1)
func (b *builder) polygammaN() {
	ns := []int{2, 3, 4, 6}
	ms := []int{1, 2, 5, 12, 17, 29, 60, 150}
	if b.quick {
		ns = []int{2, 3, 5}
		ms = []int{1, 5, 17, 29, 150}
	}
	for _, n := range ns {
		p1 := sp.Polygamma(n, 1)
		sgn := 1.0
		if n%2 == 1 {
			sgn = -1
		}
		for _, m := range ms {
			for _, half := range []bool{false, true} {
				x := float64(m + 1)
				ref, mult := 0.0, 1.0
				closed := fmt.Sprintf("polyg_int_diff %s %s", nat(n), nat(m))
				if half {
					x = float64(m) + 0.5
					mult = math.Pow(2, float64(n+1)) - 1
					closed = fmt.Sprintf("polyg_half_diff %s %s", nat(n), nat(m))
					for k := m - 1; k >= 0; k-- {
						ref += math.Pow(2/float64(2*k+1), float64(n+1))
					}
				} else {
					for k := m; k >= 1; k-- {
						ref += math.Pow(float64(k), -float64(n+1))
					}
				}
				ref *= sgn * fact(n)
				obs := sp.Polygamma(n, x)
				lab := "transition"
				if x > 0.4*15+4*float64(n) {
					lab = "asymptotic"
				}
				an := &Anchor{Fam: "polygamma", Label: lab, Fn: "Polygamma", H: int(2 * x), K: n, x: x, obs: obs, ref: ref, X2: fhex(p1),
					Desc: fmt.Sprintf("Polygamma(%d, %v) - %v*Polygamma(%d, 1)", n, x, mult, n)}
				an.tol = 64 * ulp * mult * math.Abs(p1)
				an.tac = ivTac(100)
				an.goal = fmt.Sprintf("Rabs (%s - (%s - %s * %s)) <= %s", closed, R(obs), R(mult), R(p1), R(an.tol))
				b.add(an)
			}
		}
	}
}

func (b *builder) bessel() {
	ns := []int{0, 1, 2, 3, 5, 8, 12}
	xs := []float64{0.01, 0.1, 0.3, 1, 1.9, 2, 2.1, 5, 20, 50, 99, 101, 300, 600, 700}
	if b.quick {
		ns = []int{0, 1, 2, 5}
		xs = []float64{0.01, 0.3, 1.9, 2, 2.1, 20, 101, 600}
	}
	one := func(v float64, n int, neg bool, x float64, logv bool) {
		ref := iHalf(n, x, neg)
		name := "i_half"
		if neg {
			name = "i_mhalf"
		}
		closed := fmt.Sprintf("%s %s %s", name, nat(n), R(x))
		// size of the largest term of the recurrence (cancellation for small x, positive order)
		big := math.Sqrt(2/(math.Pi*x)) * math.Cosh(x)
		for k := 0; k < n; k++ {
			if f := float64(2*k+1) / x; f > 1 {
				big *= f
			}
		}
		if !neg && x < 30 {
			// power series: no cancellation
			ref = 0
			t := math.Pow(x/2, v) / math.Gamma(v+1)
			for k := 1; k < 500; k++ {
				ref += t
				t *= x * x / 4 / float64(k) / (float64(k) + v)
			}
		}
		prec := 90 + extraBits(big, ref)
		if prec > 170 {
			return // closed form by recurrence loses > 170 bits here (small x, large order)
		}
		lref := math.Log(ref)
		if x > 300 {
			lref = iHalfLog(n, x, neg)
		}
		if logv && ref < 0 {
			// I_v(x) < 0: the logarithm is undefined, NaN is the specified outcome
			obs, p := safe(func() float64 { return sp.LogBesselI(v, x) })
			an := &Anchor{Fam: "logbessel", Label: besselLabel(v, x) + ":negative", Fn: "LogBesselI", H: int(2 * v), K: n, x: x, obs: obs, ref: math.NaN(),
				Desc: fmt.Sprintf("LogBesselI(%v, %v) of a negative value", v, x)}
			if !p && math.IsNaN(obs) {
				an.Skip = "log of a negative value: NaN specified and observed"
				an.obs = 0
				b.add(an)
			} else {
				b.add(an)
				an.NonFin = true // a number where NaN is specified: reported as a failing anchor
			}
			return
		}
		if logv {
			obs, p := safe(func() float64 { return sp.LogBesselI(v, x) })
			an := &Anchor{Fam: "logbessel", Label: besselLabel(v, x), Fn: "LogBesselI", H: int(2 * v), K: n, x: x, obs: obs, ref: lref,
				Desc: fmt.Sprintf("LogBesselI(%v, %v)", v, x)}
			if p {
				an.NonFin = true
			}
			an.tol = 64 * ulp * (1 + math.Abs(lref) + x/8)
			an.tac = ivTac(prec)
			an.goal = stdGoal("ln ("+closed+")", obs, an.tol)
			b.add(an)
			return
		}
		obs, p := safe(func() float64 { return sp.BesselI(v, x) })
		an := &Anchor{Fam: "bessel", Label: besselLabel(v, x), Fn: "BesselI", H: int(2 * v), K: n, x: x, obs: obs, ref: ref,
			Desc: fmt.Sprintf("BesselI(%v, %v)", v, x)}
		if p {
			an.NonFin = true
		}
		an.tol = 64 * ulp * (1 + x/8) * math.Abs(ref)
		if !finite(ref) || math.Abs(ref) > 1e300 {
			an.Skip = "closed form overflows binary64"
		}
		an.tac = ivTac(prec)
		an.goal = stdGoal(closed, obs, an.tol)
		b.add(an)
	}
	for _, n := range ns {
		for _, x := range xs {
			v := float64(n) + 0.5
			one(v, n, false, x, false)
			one(v, n, false, x, true)
			if n <= 5 {
				one(-v, n, true, x, false)
				one(-v, n, true, x, true)
			}
		}
	}
	// log variant far beyond the overflow threshold of the plain one (asymptotic branch)
	for _, n := range []int{0, 1, 2} {
		for _, x := range []float64{800, 5000, 40000, 1e6} {
			one(float64(n)+0.5, n, false, x, true)
		}
	}
}

func (b *builder) logerfc() {
	c0 := 2.4607833005759251e-02
	x0 := math.Sqrt(c0)
	for x0*x0 >= c0 {
		x0 = math.Nextafter(x0, 0)
	}
	for math.Nextafter(x0, 1)*math.Nextafter(x0, 1) < c0 {
		x0 = math.Nextafter(x0, 1)
	}
	x0p := math.Nextafter(x0, 1) // first argument of the log(erfc) branch
	series := []float64{0.001, 0.01, 0.05, 0.1, 0.15, x0, -0.001, -0.05, -0.15, -x0}
	for i := 1; i <= 19 && !b.quick; i++ {
		series = append(series, float64(i)/128, -float64(i)/128)
	}
	for _, x := range series {
		obs := sp.LogErfc(x)
		ref := math.Log(math.Erfc(x))
		lab := "series"
		if x == x0 || x == -x0 {
			lab = "series:switch"
		}
		an := &Anchor{Fam: "logerfc", Label: lab + ":vs-model", Fn: "LogErfc", x: x, obs: obs, ref: ref, Desc: fmt.Sprintf("LogErfc(%v) vs series model over R", x)}
		an.tol = 16 * ulp * math.Abs(ref)
		an.tac = ivTac(90)
		an.goal = stdGoal("logErfc0 "+R(x), obs, an.tol)
		b.add(an)
		an2 := &Anchor{Fam: "logerfc", Label: lab + ":vs-erfc", Fn: "LogErfc", x: x, obs: obs, ref: ref, Desc: fmt.Sprintf("LogErfc(%v) vs ln erfc (integral)", x)}
		an2.tol = 64 * ulp * math.Abs(ref)
		an2.tac = intTac(84)
		an2.goal = stdGoal("ln (erfcR "+R(x)+")", obs, an2.tol)
		b.add(an2)
	}
	mid := []float64{x0p, -x0p, 0.16, 0.5, 1, 2, 3, -0.5, -1, -3, 4}
	for _, x := range mid {
		obs := sp.LogErfc(x)
		ref := math.Log(math.Erfc(x))
		lab := "log(erfc)"
		if x == x0p || x == -x0p {
			lab = "log(erfc):switch"
		}
		an := &Anchor{Fam: "logerfc", Label: lab, Fn: "LogErfc", x: x, obs: obs, ref: ref, Desc: fmt.Sprintf("LogErfc(%v) vs ln erfc (integral)", x)}
		an.tol = 64 * ulp * math.Max(math.Abs(ref), 1e-3) * (1 + x*x)
		an.tac = intTac(84 + extraBits(1, math.Erfc(x)))
		an.goal = stdGoal("ln (erfcR "+R(x)+")", obs, an.tol)
		b.add(an)
	}
	// rational branch x > 8, and continuity at the switch point 8
	rat := []float64{math.Nextafter(8, 9), 8.5, 10, 26, 100, 1e4}
	for _, x := range rat {
		obs := sp.LogErfc(x)
		an := &Anchor{Fam: "logerfc", Label: "rational:vs-model", Fn: "LogErfc", x: x, obs: obs, ref: obs, Desc: fmt.Sprintf("LogErfc(%v) vs rational model over R", x)}
		an.tol = 16 * ulp * math.Abs(obs)
		an.tac = ivTac(100)
		an.goal = stdGoal("logErfc8 "+R(x), obs, an.tol)
		b.add(an)
	}
	obs8 := sp.LogErfc(8)
	an := &Anchor{Fam: "logerfc", Label: "rational:switch-continuity", Fn: "LogErfc", x: 8, obs: obs8, ref: obs8,
		Desc: "LogErfc(8) (log(erfc) branch) vs the rational branch model at 8"}
	an.tol = 1e-9 * math.Abs(obs8)
	an.tac = ivTac(100)
	an.goal = stdGoal("logErfc8 "+R(8), obs8, an.tol)
	b.add(an)
}

func (b *builder) logarith(rng *Rng) {
	n := 24
	if !b.quick {
		n = 200
	}
	for i := 0; i < n; i++ {
		a := math.Round((rng.Float()*80-40)*1024) / 1024
		d := math.Exp(rng.Float()*18 - 14) // 8e-7 .. 55
		d = math.Round(d*(1<<30)) / (1 << 30)
		if d == 0 {
			d = 1.0 / (1 << 30)
		}
		bb := a - d
		if a-bb != d {
			continue
		}
		// LogAdd (both argument orders)
		x, y := a, bb
		if i%2 == 0 {
			x, y = bb, a
		}
		obs := la.LogAdd(x, y)
		ref := a + math.Log1p(math.Exp(-d))
		an := &Anchor{Fam: "logadd", Label: "finite", Fn: "LogAdd", x: x, X2: fhex(y), obs: obs, ref: ref, Desc: fmt.Sprintf("LogAdd(%v, %v)", x, y)}
		an.tol = 8 * ulp * (1 + math.Abs(ref))
		an.tac = ivTac(90)
		an.goal = stdGoal(fmt.Sprintf("ln (exp %s + exp %s)", R(x), R(y)), obs, an.tol)
		b.add(an)
		obs2 := la.LogSub(a, bb)
		ref2 := a + math.Log1p(-math.Exp(-d))
		an2 := &Anchor{Fam: "logsub", Label: "finite", Fn: "LogSub", x: a, X2: fhex(bb), obs: obs2, ref: ref2, Desc: fmt.Sprintf("LogSub(%v, %v)", a, bb)}
		an2.tol = 8 * ulp * (1 + math.Abs(a) + 1/d)
		an2.tac = ivTac(140)
		// ln(e^a - e^b) = a + ln(1 - e^(b-a)): stated in the cancellation-free form
		an2.goal = stdGoal(fmt.Sprintf("(%s + ln (1 - exp (%s - %s)))", R(a), R(bb), R(a)), obs2, an2.tol)
		b.add(an2)
	}
}

func (b *builder) mgamma() {
	ks := []int{1, 2, 3, 4}
	for _, k := range ks {
		for _, h := range []int{k, k + 1, k + 2, k + 5, k + 12, 60, 201} {
			if b.quick && (h == k+2 || h == 60) {
				continue
			}
			x := float64(h) / 2
			ref := float64(k*(k-1)) / 4 * math.Log(math.Pi)
			for j := 0; j < k; j++ {
				v, _ := math.Lgamma(float64(h-j) / 2)
				ref += v
			}
			obs := sp.Mlgamma(x, k)
			an := &Anchor{Fam: "mlgamma", Label: fmt.Sprintf("k=%d", k), Fn: "Mlgamma", H: h, K: k, x: x, obs: obs, ref: ref, Desc: fmt.Sprintf("Mlgamma(%v, %d)", x, k)}
			an.tol = 16 * ulp * (1 + math.Abs(ref)) * float64(k)
			an.tac = ivTac(100)
			an.goal = stdGoal(fmt.Sprintf("mlgamma_h %s %s", nat(h), nat(k)), obs, an.tol)
			b.add(an)
			if ref < 600 {
				o2 := sp.Mgamma(x, k)
				an2 := &Anchor{Fam: "mgamma", Label: fmt.Sprintf("k=%d", k), Fn: "Mgamma", H: h, K: k, x: x, obs: o2, ref: math.Exp(ref), Desc: fmt.Sprintf("Mgamma(%v, %d)", x, k)}
				an2.tol = 16 * ulp * (1 + math.Abs(ref)) * float64(k) * math.Exp(ref)
				an2.tac = ivTac(100)
				an2.goal = stdGoal(fmt.Sprintf("exp (mlgamma_h %s %s)", nat(h), nat(k)), o2, an2.tol)
				b.add(an2)
			}
		}
	}
}

func buildAnchors(o Opts) []*Anchor {
	b := &builder{quick: o.Tier == "quick"}
	rng := NewRng(o.Seed ^ 0xC13)
	b.igamma(rng)
	b.polygammas()
	b.polygammaN()
	b.bessel()
	b.logerfc()
	b.logarith(rng)
	b.mgamma()
	b.round2()
	b.round3()
	b.round5()
	b.round6(rng)
	b.round7()
	return b.as
}

const anchorHeader = `From Coq Require Import Reals ZArith QArith List.
From Coquelicot Require Import Coquelicot.
From Interval Require Import Tactic.
From ADV Require Import Base.Num C13.Model C13.Spec C13.Spec2 C13.Spec3 C13.Spec4 C13.Spec6 C13.Model7 C13.Anchors C13.Anchors2 C13.Anchors4 C13.Anchors6 C13.Anchors7.
Open Scope R_scope.
`

func writeAnchors(o Opts, as []*Anchor) {
	hist := map[string]int{}
	var goals []*Anchor
	for _, a := range as {
		hist[a.Fam+"/"+a.Fn+"/"+a.Label]++
		switch {
		case a.Skip != "":
			hist["skipped:"+a.Skip]++
		case a.NonFin:
			hist["nonfinite-observed"]++
		default:
			goals = append(goals, a)
		}
	}
	per := (len(goals) + 15) / 16
	if per < 8 {
		per = 8
	}
	if per > 40 {
		per = 40
	}
	nsh := (len(goals) + per - 1) / per
	// round-robin: expensive anchors of one family are spread over the shards
	for k := 0; k < nsh; k++ {
		var sb strings.Builder
		sb.WriteString(anchorHeader)
		for j := k; j < len(goals); j += nsh {
			a := goals[j]
			tac := a.tac
			if t := os.Getenv("C13_TAC_TIMEOUT"); t != "" {
				tac = "timeout " + t + " (" + tac + ")"
			}
			fmt.Fprintf(&sb, "(* %s  [%s]  ref %v *)\nGoal True. Time tryif (assert (H : %s) by (%s)) then idtac \"ANCHOR-OK %d\" else idtac \"ANCHOR-FAIL %d\". exact I. Qed.\n",
				a.Desc, a.Label, a.ref, a.goal, tac, a.ID, a.ID)
		}
		if err := os.WriteFile(filepath.Join(o.Out, fmt.Sprintf("anchors_%d.v", k)), []byte(sb.String()), 0644); err != nil {
			Die("write: %v", err)
		}
	}
	f, err := os.Create(filepath.Join(o.Out, "anchors.jsonl"))
	if err != nil {
		Die("create: %v", err)
	}
	for _, a := range as {
		bs, _ := jsonMarshal(a)
		f.Write(bs)
		f.Write([]byte("\n"))
	}
	f.Close()
	writeJSON(filepath.Join(o.Out, "anchors.meta.json"), map[string]interface{}{
		"anchors": len(as), "certified_goals": len(goals), "shards": nsh, "histogram": hist,
	})
}
