package main

// go/ast pass over <repo>/special: every comparison of a float64 parameter (or a
// local derived from one) against a literal / constant / another parameter inside
// the anchored functions, i.e. the method-selection boundaries.  The list is written
// to boundaries.json; the plugin matches it with the boundary tags carried by the
// anchors (an unanchored boundary is reported as uncovered, not as held).

import (
	"bytes"
	"go/ast"
	"go/parser"
	"go/printer"
	"go/token"
	"path/filepath"
	"sort"
	"strings"

	. "adharness/common"
)

type Boundary struct {
	Kind string `json:"kind,omitempty"` // "" method selection | "sign" | "parity" | "integer": the last three need an anchor on EACH side
	Role string `json:"role,omitempty"` // round 5: "select" (chooses between two formulae / outcomes) | "convergence" (stopping test, iteration limit)
	Int  bool   `json:"int,omitempty"`  // round 5: comparison on an integer order / iteration parameter
	File string `json:"file"`
	Line int    `json:"line"`
	Func string `json:"func"`
	Expr string `json:"expr"`
	Key  string `json:"key"` // func|expr (whitespace-free) — stable under line shifts, changes when the predicate changes
}

var boundaryFuncs = map[string][]string{
	"gamma.go": {"gamma_incomplete_imp", "igamma_temme_large", "tgamma_small_upper_part", "regularised_gamma_prefix",
		"full_igamma_prefix", "finite_gamma_q", "finite_half_gamma_q", "gamma_p_derivative_imp", "tgammap1m1_imp"},
	"bessel.go":    {"bessel_ik", "bessel_i_imp", "temme_ik", "CF1_ik", "CF2_ik", "bessel_i_small_z_series", "asymptotic_bessel_i_large_x"},
	"besselLog.go": {"bessel_ik_log", "bessel_i_log", "CF1_ik_log", "CF2_ik_log", "asymptotic_bessel_i_large_x_log", "bessel_i_small_z_series_log"},
	"erfc.go":      {"LogErfc"},
	"digamma.go":   {"digamma_imp"},
	"trigamma.go":  {"trigamma_imp", "trigamma_prec"},
	"polygamma.go": {"polygamma_imp"},
	"zeta.go":      {"zeta_imp", "zeta_imp_prec"},
	"sinPi.go":     {"SinPi"},
	"cosPi.go":     {"CosPi"},
}

// functions whose parity tests (`& 1`, `% 2`) are listed in addition (round 3)
var parityFuncs = map[string][]string{}

// round 5: functions in which comparisons on INTEGER parameters (order n, derived counters) are listed too
// (for-loop conditions excepted): the order-selected branches of polygamma / zeta / factorial
var orderFuncs = map[string][]string{
	"polygamma.go": {"polygamma_imp", "polygamma_atinfinityplus", "polygamma_attransitionplus", "polygamma_nearzero", "poly_cot_pi", "Polygamma"},
	"zeta.go":      {"zeta_imp", "zeta_imp_prec", "zeta_imp_odd_integer"},
	"factorial.go": {"Factorial"},
}

func roleOf(s string) string {
	for _, w := range []string{"SeriesIterationsMax", "tolerance", "math.Abs(term", "delta", "len("} {
		if strings.Contains(s, w) {
			return "convergence"
		}
	}
	return "select"
}

func isLit(e ast.Expr, v string) bool {
	bl, ok := e.(*ast.BasicLit)
	return ok && bl.Value == v
}

// contains `e & 1` or `e % 2`
func hasParity(e ast.Expr) bool {
	found := false
	ast.Inspect(e, func(n ast.Node) bool {
		if be, ok := n.(*ast.BinaryExpr); ok {
			if (be.Op == token.AND && isLit(be.Y, "1")) || (be.Op == token.REM && isLit(be.Y, "2")) {
				found = true
			}
		}
		return !found
	})
	return found
}

func isZeroLit(e ast.Expr) bool { return isLit(e, "0") || isLit(e, "0.0") }

func classify(be *ast.BinaryExpr, s string) string {
	switch {
	case hasParity(be):
		return "parity"
	case strings.Contains(s, "math.Floor(") && (be.Op == token.EQL || be.Op == token.NEQ):
		return "integer"
	case (isZeroLit(be.X) || isZeroLit(be.Y)) && (be.Op == token.LSS || be.Op == token.LEQ || be.Op == token.GTR || be.Op == token.GEQ):
		return "sign"
	}
	return ""
}

func exprString(fset *token.FileSet, e ast.Expr) string {
	var buf bytes.Buffer
	printer.Fprint(&buf, fset, e)
	return strings.Join(strings.Fields(buf.String()), " ")
}

func mentions(e ast.Expr, set map[string]bool) bool {
	found := false
	ast.Inspect(e, func(n ast.Node) bool {
		if id, ok := n.(*ast.Ident); ok && set[id.Name] {
			found = true
		}
		return !found
	})
	return found
}

func isIntType(t ast.Expr) bool {
	id, ok := t.(*ast.Ident)
	return ok && (id.Name == "int" || id.Name == "bool" || id.Name == "int64")
}

func listBoundaries(repo string) []Boundary {
	var out []Boundary
	var files []string
	seenFile := map[string]bool{}
	for f := range boundaryFuncs {
		files = append(files, f)
		seenFile[f] = true
	}
	for f := range orderFuncs {
		if !seenFile[f] {
			files = append(files, f)
		}
	}
	sort.Strings(files)
	for _, fn := range files {
		fset := token.NewFileSet()
		af, err := parser.ParseFile(fset, filepath.Join(repo, "special", fn), nil, 0)
		if err != nil {
			Die("parse %s: %v", fn, err)
		}
		want := map[string]bool{}
		for _, n := range boundaryFuncs[fn] {
			want[n] = true
		}
		ponly := map[string]bool{}
		for _, n := range parityFuncs[fn] {
			want[n], ponly[n] = true, true
		}
		ordf := map[string]bool{}
		for _, n := range orderFuncs[fn] {
			want[n], ordf[n] = true, true
		}
		for _, d := range af.Decls {
			fd, ok := d.(*ast.FuncDecl)
			if !ok || fd.Body == nil || !want[fd.Name.Name] || fd.Recv != nil {
				continue
			}
			floats, ints := map[string]bool{}, map[string]bool{}
			for _, p := range fd.Type.Params.List {
				for _, nm := range p.Names {
					if isIntType(p.Type) {
						ints[nm.Name] = true
					} else {
						floats[nm.Name] = true
					}
				}
			}
			// integer locals: `var n, k int`, loop counters
			ast.Inspect(fd.Body, func(n ast.Node) bool {
				switch s := n.(type) {
				case *ast.ValueSpec:
					if s.Type != nil && isIntType(s.Type) {
						for _, nm := range s.Names {
							ints[nm.Name] = true
						}
					}
				case *ast.ForStmt:
					if as, ok := s.Init.(*ast.AssignStmt); ok {
						for _, l := range as.Lhs {
							if id, ok := l.(*ast.Ident); ok {
								ints[id.Name] = true
							}
						}
					}
				}
				return true
			})
			// taint: locals assigned from expressions that mention a float parameter (to a fixpoint)
			for changed := true; changed; {
				changed = false
				ast.Inspect(fd.Body, func(n ast.Node) bool {
					as, ok := n.(*ast.AssignStmt)
					if !ok {
						return true
					}
					t := false
					for _, r := range as.Rhs {
						if mentions(r, floats) {
							t = true
						}
					}
					if t {
						for _, l := range as.Lhs {
							if id, ok := l.(*ast.Ident); ok && !floats[id.Name] && !ints[id.Name] && id.Name != "_" {
								floats[id.Name] = true
								changed = true
							}
						}
					}
					return true
				})
			}
			// round 5: integer locals derived from integer parameters (index := n - 1, N := d4d + 4*n)
			for changed := ordf[fd.Name.Name]; changed; {
				changed = false
				ast.Inspect(fd.Body, func(n ast.Node) bool {
					as, ok := n.(*ast.AssignStmt)
					if !ok {
						return true
					}
					t := false
					for _, r := range as.Rhs {
						if mentions(r, ints) && !mentions(r, floats) {
							t = true
						}
					}
					if t {
						for _, l := range as.Lhs {
							if id, ok := l.(*ast.Ident); ok && !floats[id.Name] && !ints[id.Name] && id.Name != "_" {
								ints[id.Name] = true
								changed = true
							}
						}
					}
					return true
				})
			}
			inCmp := map[ast.Node]bool{}
			loopCond := map[ast.Node]bool{}
			ast.Inspect(fd.Body, func(n ast.Node) bool {
				if fs, ok := n.(*ast.ForStmt); ok && fs.Cond != nil && ordf[fd.Name.Name] {
					loopCond[fs.Cond] = true
				}
				return true
			})
			ast.Inspect(fd.Body, func(n ast.Node) bool {
				be, ok := n.(*ast.BinaryExpr)
				if !ok {
					return true
				}
				if loopCond[be] {
					return true
				}
				switch be.Op {
				case token.LSS, token.LEQ, token.GTR, token.GEQ, token.EQL, token.NEQ:
				case token.REM:
					// bare `n % 2` outside a comparison (e.g. z := u + float64(n % 2))
					if isLit(be.Y, "2") && !inCmp[be] {
						s := exprString(fset, be)
						out = append(out, Boundary{Kind: "parity", File: fn, Line: fset.Position(be.Pos()).Line, Func: fd.Name.Name, Expr: s,
							Key: fd.Name.Name + "|" + strings.ReplaceAll(s, " ", "")})
					}
					return true
				default:
					return true
				}
				if hasParity(be) {
					ast.Inspect(be, func(m ast.Node) bool {
						if m != nil {
							inCmp[m] = true
						}
						return true
					})
					s := exprString(fset, be)
					out = append(out, Boundary{Kind: "parity", File: fn, Line: fset.Position(be.Pos()).Line, Func: fd.Name.Name, Expr: s,
						Key: fd.Name.Name + "|" + strings.ReplaceAll(s, " ", ""), Role: "select"})
					return true
				}
				if ponly[fd.Name.Name] {
					return true
				}
				if ordf[fd.Name.Name] {
					// round 5: integer comparisons are listed as well
					s := exprString(fset, be)
					isInt := !mentions(be.X, floats) && !mentions(be.Y, floats)
					if isInt && !mentions(be.X, ints) && !mentions(be.Y, ints) {
						return true // constants only
					}
					out = append(out, Boundary{Kind: classify(be, s), File: fn, Line: fset.Position(be.Pos()).Line, Func: fd.Name.Name, Expr: s,
						Key: fd.Name.Name + "|" + strings.ReplaceAll(s, " ", ""), Role: roleOf(s), Int: isInt})
					return true
				}
				bare := func(e ast.Expr) bool {
					id, ok := e.(*ast.Ident)
					return ok && ints[id.Name]
				}
				s := exprString(fset, be)
				if bare(be.X) || bare(be.Y) || strings.Contains(s, "&") {
					return true
				}
				if !mentions(be.X, floats) && !mentions(be.Y, floats) {
					return true
				}
				out = append(out, Boundary{Kind: classify(be, s), File: fn, Line: fset.Position(be.Pos()).Line, Func: fd.Name.Name, Expr: s,
					Key: fd.Name.Name + "|" + strings.ReplaceAll(s, " ", ""), Role: roleOf(s)})
				return true
			})
		}
	}
	return out
}
