package main

// Round 3: the "whole domain" half of the property.  Anchors in every sign /
// parity / reflection branch of the exported functions (negative x, negative and
// integer orders, poles, undefined arguments) and the domain table itself.
//
// Certified by Coq-Interval where a closed form exists (Spec3.v: psi(3/4-m),
// psi_n(1/2-m), zeta(-(m+1/2)) through the functional equation, sin/cos(pi x),
// ln erfc at negative x); integer-order Bessel functions have no elementary closed
// form: their sign / parity branches are anchored by EXACT outcome anchors decided
// in float64 (the identities I_n(-x) = (-1)^n I_n(x), I_{-n} = I_n are theorems of
// Props.v; the positive-argument value is compared with the power series summed
// in float64, all terms positive).

import (
	"fmt"
	"math"

	sp "github.com/pbenner/autodiff/special"
)

// domainTable: full argument domain of every exported function of /repo/special, from the code
var domainTable = []map[string]string{
	{"fn": "BesselI(v,x)", "domain": "x >= 0 any real v; x < 0 only integer v (parity (-1)^v); x < 0 non-integer v: panic; x = 0: 1 (v = 0) else 0 (also for v < 0 non-integer where the limit is +Inf: finding C13-BesselI-x0-negative-order)",
		"branches": "x<0 & Floor(v)==v & iround(v)&1; x==0; v==0.5 (x>=MaxLog); v==0; v==1; v>0 & x/v<0.25; bessel_ik: v<0 reflect (n%2, SinPi), x<=2 temme / CF2, asymptotic, small-z, CF1"},
	{"fn": "LogBesselI(v,x)", "domain": "as BesselI; NaN where I_v(x) < 0 (odd integer v with x < 0; v < 0 non-integer with negative value); -Inf at x = 0, v != 0", "branches": "as BesselI in the log domain"},
	{"fn": "GammaP/GammaQ/GammaLower/GammaUpper(a,x)", "domain": "a > 0, x >= 0; NO argument check in gamma_incomplete_imp: a <= 0 or x < 0 return unspecified numbers or NaN (outside the documented domain, not anchored)", "branches": "see round 2 boundary list"},
	{"fn": "GammaPfirstDerivative/GammaPsecondDerivative(a,x)", "domain": "a > 0, x >= 0; a <= 0 or x < 0: NaN; x = 0: 0 (a > 1), 1 (a = 1), +Inf (a < 1)", "branches": "a<=0; x<0; x==0; f1==0 log path"},
	{"fn": "Digamma(x)", "domain": "all real x except poles 0, -1, -2, ... (NaN); x <= -1: reflection pi/tan(pi r); -1 < x < 1: upward recurrence", "branches": "x<=-1; remainder>0.5; remainder==0; x==0; x>=10; x>2; x<1"},
	{"fn": "Trigamma(x)", "domain": "all real x except poles (NaN); x <= 0: reflection pi^2/sin^2", "branches": "x<=0; Floor(x)==x; |x|<|z|; x<1; x<=2; x<=4"},
	{"fn": "Polygamma(n,x)", "domain": "n >= 0 (n < 0 panics); n = 0, 1 delegate; x < 0: reflection with poly_cot_pi, poles: +Inf (n odd) / NaN (n even)", "branches": "x<0; Floor(x)==x; n&1; small x; large x; x==1; x==0.5"},
	{"fn": "Zeta(s)", "domain": "all real s except s = 1 (NaN); s < 0: reflection (log domain for 1-s > 170), trivial zeros; integers: closed forms", "branches": "sc==0; s>53; Floor(s)==s; v<0; -v&1; v&1; (v/2-1)&1; |s|<rootEps; s<0; Floor(sc/2)==sc/2; s>factorialMax"},
	{"fn": "LogErfc(x)", "domain": "all real x incl. +-Inf: ln 2 at -Inf, -Inf at +Inf", "branches": "x*x<c0; x>8; x>1e50"},
	{"fn": "Mgamma/Mlgamma(x,k)", "domain": "2x > k - 1; Mlgamma drops the sign returned by math.Lgamma (log |Gamma_k| outside the domain)", "branches": "none"},
	{"fn": "Factorial(n)", "domain": "0 <= n; n < 0 panics (index); n > 170: +Inf", "branches": "table / Gamma"},
	{"fn": "BernoulliNumber(n)", "domain": "n >= 0 (n < 0 panics); odd n > 1: 0; overflow to -+Inf for n >= 260", "branches": "table"},
	{"fn": "SinPi/CosPi(x)", "domain": "all real x; odd / even symmetry; exact zeros and +-1 at (half-)integers", "branches": "x<0; x<0.5; x<1; int(rem)&1; rem>0.5; rem==0.5; rem>0.25"},
	{"fn": "Powm1(a,z)", "domain": "a > 0, or a < 0 with integer z (sign by parity through math.Pow); a < 0 non-integer z: NaN", "branches": "|a|<1 or |z|<1; |p|<2"},
	{"fn": "SumSeries/SumLogSeries/EvalContinuedFraction/Polynomial.Eval", "domain": "generic drivers: exact replay (round 1)", "branches": "-"},
}

// power series of I_n(x), x > 0, integer n >= 0 (all terms positive: no cancellation)
func besselSeriesInt(n int, x float64) float64 {
	t := math.Pow(x/2, float64(n)) / math.Gamma(float64(n)+1)
	s := 0.0
	for k := 1; k < 2000; k++ {
		s += t
		t *= x * x / 4 / float64(k) / float64(k+n)
		if t < s*1e-19 {
			break
		}
	}
	return s + t
}

// what the mathematical function specifies at (v, x), v = h/2: kind "undefined" | "value" (with sign) | "zero"
func besselSpec(v, x float64) (kind string, val float64) {
	isInt := math.Floor(v) == v
	if x < 0 && !isInt {
		return "undefined", math.NaN()
	}
	if !isInt {
		return "other", 0
	}
	n := int(math.Abs(v))
	if x == 0 {
		if n == 0 {
			return "value", 1
		}
		return "value", 0
	}
	r := besselSeriesInt(n, math.Abs(x))
	if x < 0 && n%2 == 1 {
		r = -r
	}
	return "value", r
}

// property oracle for the domain anchors (used by anchors, hunt, replay)
func domainOracle(fn string, h int, x float64) (ok bool, obs, ref float64, label string) {
	v := float64(h) / 2
	kind, val := besselSpec(v, x)
	label = besselLabel(math.Abs(v), math.Abs(x))
	if x < 0 {
		label = "x<0:" + label
	}
	if v < 0 {
		label = "v<0:" + label
	}
	var p bool
	switch fn {
	case "BesselIDomain":
		obs, p = safe(func() float64 { return sp.BesselI(v, x) })
		if kind == "undefined" {
			return p || math.IsNaN(obs), obs, math.NaN(), label + ":undefined"
		}
		ref = val
		if p {
			return false, obs, ref, label
		}
		// parity is exact in the code: I(v,-x) is +-I(v,|x|) bit for bit
		if x < 0 {
			pos := sp.BesselI(v, -x)
			if math.Abs(obs) != math.Abs(pos) {
				return false, obs, ref, label + ":parity"
			}
		}
		return math.Abs(obs-ref) <= 1e-13*(1+math.Abs(x)/8+math.Abs(v)/4)*math.Abs(ref), obs, ref, label
	case "LogBesselIDomain":
		obs, p = safe(func() float64 { return sp.LogBesselI(v, x) })
		if kind == "undefined" {
			return p || math.IsNaN(obs), obs, math.NaN(), label + ":undefined"
		}
		if p {
			return false, obs, val, label
		}
		if val < 0 {
			return math.IsNaN(obs), obs, math.NaN(), label + ":negative"
		}
		ref = math.Log(val)
		if val == 0 {
			return math.IsInf(obs, -1), obs, ref, label
		}
		return math.Abs(obs-ref) <= 1e-13*(1+math.Abs(ref)+math.Abs(x)/8+math.Abs(v)/4), obs, ref, label
	}
	return true, 0, 0, ""
}

func (b *builder) exactAnchor(an *Anchor, ok bool) {
	an.Bnd = true
	if ok {
		an.Skip = "exact outcome specified and observed (decided in float64, see domain.go)"
		an.obs = 0
		b.add(an)
	} else {
		b.add(an)
		an.NonFin = true // reported as a failing anchor
	}
}

func (b *builder) besselDomain() {
	orders := []float64{0, 1, 2, 3, 4, 7, 10, -1, -2, -3, -4, -7, -10}
	xs := []float64{0.5, 2, 2.5, 20, 150, -0.5, -2, -2.5, -20, -150, 0}
	for _, v := range orders {
		for _, x := range xs {
			for _, fn := range []string{"BesselIDomain", "LogBesselIDomain"} {
				ok, obs, ref, label := domainOracle(fn, int(2*v), x)
				fam := "bessel"
				if fn[0] == 'L' {
					fam = "logbessel"
				}
				an := &Anchor{Fam: fam, Label: "dom:" + label, Fn: fn, H: int(2 * v), x: x, obs: obs, ref: ref,
					Desc: fmt.Sprintf("%s(%v, %v) integer order: parity / I_{-n} = I_n / series value", fn[:len(fn)-6], v, x)}
				b.exactAnchor(an, ok)
			}
		}
	}
	// undefined: non-integer order with negative argument (panic or NaN)
	for _, v := range []float64{0.5, -0.5, 2.5, -2.5, 2.25, -3.75, 100.5} {
		for _, x := range []float64{-2, -0.25, -30} {
			for _, fn := range []string{"BesselIDomain", "LogBesselIDomain"} {
				ok, obs, _, label := domainOracle(fn, int(2*v), x)
				if math.Floor(2*v) != 2*v {
					// quarter orders do not fit H = 2v: evaluate directly
					var p bool
					if fn[0] == 'L' {
						obs, p = safe(func() float64 { return sp.LogBesselI(v, x) })
					} else {
						obs, p = safe(func() float64 { return sp.BesselI(v, x) })
					}
					ok, label = p || math.IsNaN(obs), "x<0:non-integer:undefined"
				}
				fam := "bessel"
				if fn[0] == 'L' {
					fam = "logbessel"
				}
				an := &Anchor{Fam: fam, Label: "dom:" + label, Fn: fn, H: int(math.Floor(2 * v)), x: x, obs: obs, ref: math.NaN(),
					Desc: fmt.Sprintf("%s(%v, %v): undefined (complex value), panic or NaN specified", fn[:len(fn)-6], v, x)}
				if math.Floor(2*v) != 2*v {
					an.Fam = "domain-other" // no tag replica for orders off the half-integer grid
				}
				b.exactAnchor(an, ok)
			}
		}
	}
	// x = 0 with negative non-integer order: I_v(0+) = +Inf; the code returns 0 / -Inf (known finding, reported by the plugin)
	o1 := sp.BesselI(-0.5, 0)
	an := &Anchor{Fam: "domain-other", Label: "dom:x==0:v<0:non-integer", Fn: "BesselIZeroNegOrder", H: -1, x: 0, obs: o1, ref: math.Inf(1),
		Desc: "BesselI(-0.5, 0): the limit is +Inf", Bnd: true}
	if o1 == 0 {
		an.KF = "C13-BesselI-x0-negative-order"
		an.Skip = "known finding C13-BesselI-x0-negative-order: 0 returned where I_v(0+) = +Inf"
		an.obs = 0
		b.add(an)
	} else {
		b.exactAnchor(an, math.IsInf(o1, 1))
	}
}

func (b *builder) digamma3Quarter() {
	psi1 := sp.Digamma(1)
	for _, m := range []int{0, 1, 2, 3, 7, 20} {
		x := 0.75 - float64(m)
		ref := math.Pi/2 - 3*math.Ln2
		for k := 1; k <= m; k++ {
			ref += 1 / (float64(k) - 0.75)
		}
		obs := sp.Digamma(x)
		an := &Anchor{Fam: "digamma", Label: "dom:three-quarter", Fn: "Digamma3Quarter", H: int(math.Floor(2 * x)), K: m, x: x, obs: obs, ref: ref,
			Desc: fmt.Sprintf("Digamma(%v) - Digamma(1)", x), X2: fhex(psi1), Bnd: true}
		an.tol = 64 * ulp * (math.Abs(obs) + math.Abs(psi1) + 1 + float64(m))
		an.tac = "unfold psi_m3quarter_diff; " + ivTac(90)
		an.goal = fmt.Sprintf("Rabs (psi_m3quarter_diff %s - (%s - %s)) <= %s", nat(m), R(obs), R(psi1), R(an.tol))
		b.add(an)
	}
	// poles: NaN specified
	for _, x := range []float64{0, -1, -2, -17} {
		o := sp.Digamma(x)
		an := &Anchor{Fam: "digamma", Label: "dom:pole", Fn: "DigammaPole", H: int(2 * x), x: x, obs: o, ref: math.NaN(), Desc: fmt.Sprintf("Digamma(%v): pole, NaN specified", x)}
		b.exactAnchor(an, math.IsNaN(o))
		o2 := sp.Trigamma(x)
		an2 := &Anchor{Fam: "trigamma", Label: "dom:pole", Fn: "Trigamma", H: int(2 * x), x: x, obs: o2, ref: math.NaN(), Desc: fmt.Sprintf("Trigamma(%v): pole, NaN or +Inf specified", x)}
		b.exactAnchor(an2, math.IsNaN(o2) || math.IsInf(o2, 1))
		for _, n := range []int{2, 3} {
			o3, p := safe(func() float64 { return sp.Polygamma(n, x) })
			an3 := &Anchor{Fam: "polygamma", Label: "dom:pole", Fn: "PolygammaPole", H: int(2 * x), K: n, x: x, obs: o3, ref: math.NaN(),
				Desc: fmt.Sprintf("Polygamma(%d, %v): pole, +Inf (n odd) / NaN (n even) specified", n, x)}
			b.exactAnchor(an3, !p && ((n%2 == 1 && math.IsInf(o3, 1)) || (n%2 == 0 && (math.IsNaN(o3) || math.IsInf(o3, 0)))))
		}
	}
}

func polygNegHalfRef(n, m int) float64 {
	s := 0.0
	for k := m - 1; k >= 0; k-- {
		s += math.Pow(2/float64(2*k+1), float64(n+1))
	}
	return fact(n) * s
}

func (b *builder) polygammaNegHalf() {
	for _, n := range []int{2, 3, 4} {
		p1 := sp.Polygamma(n, 1)
		mult := math.Pow(2, float64(n+1)) - 1
		for _, m := range []int{1, 2, 5} {
			x := 0.5 - float64(m)
			obs := sp.Polygamma(n, x)
			ref := polygNegHalfRef(n, m)
			an := &Anchor{Fam: "polygamma", Label: "dom:reflect", Fn: "PolygammaNegHalf", H: int(2 * x), K: n, x: x, obs: obs, ref: ref, X2: fhex(p1),
				Desc: fmt.Sprintf("Polygamma(%d, %v) - %v*Polygamma(%d, 1)", n, x, mult, n), Bnd: true}
			an.tol = 256 * ulp * (math.Abs(obs) + mult*math.Abs(p1) + math.Abs(ref))
			an.tac = "unfold polyg_mhalf_diff; " + ivTac(100)
			an.goal = fmt.Sprintf("Rabs (polyg_mhalf_diff %s %s - (%s - %s * %s)) <= %s", nat(n), nat(m), R(obs), R(mult), R(p1), R(an.tol))
			b.add(an)
		}
	}
}

func (b *builder) zetaReflect() {
	for _, m := range []int{0, 1, 2, 3, 6, 11, 20, 41, 100, 168, 169, 170, 172} {
		s := -(float64(m) + 0.5)
		obs := sp.Zeta(s)
		zpos := sp.Zeta(1 - s)
		an := &Anchor{Fam: "zeta", Label: "dom:reflect", Fn: "ZetaReflect", K: m, x: s, obs: obs, ref: obs, X2: fhex(zpos),
			Desc: fmt.Sprintf("Zeta(%v) vs the functional equation applied to Zeta(%v)", s, 1-s), Bnd: true}
		if 1-s > 170 {
			an.Label = "dom:reflect:log-domain"
		}
		an.tol = 64 * ulp * (2 + float64(m)/4) * math.Abs(obs)
		an.tac = "unfold zeta_reflect_mhalf; " + ivTac(140)
		an.goal = fmt.Sprintf("Rabs (zeta_reflect_mhalf %s %s - %s) <= %s", nat(m), R(zpos), R(obs), R(an.tol))
		if !finite(obs) || an.tol < 1e-300 {
			an.Skip = "overflow"
		}
		b.add(an)
	}
}

func (b *builder) logErfcNegative() {
	// certified: ln erfc(x) by the integral at moderately negative x
	for _, x := range []float64{-4, -5.5} {
		obs := sp.LogErfc(x)
		ref := math.Log(math.Erfc(x))
		an := &Anchor{Fam: "logerfc", Label: "dom:negative", Fn: "LogErfc", x: x, obs: obs, ref: ref, Desc: fmt.Sprintf("LogErfc(%v) vs ln erfc (integral)", x), Bnd: true}
		an.tol = 64 * ulp * math.Abs(ref)
		an.tac = intTac(84)
		an.goal = stdGoal("ln (erfcR "+R(x)+")", obs, an.tol)
		b.add(an)
	}
	// exact: for x <= -6 erfc(-x) < 2^-55, so ln erfc(x) = ln 2 to 1 ulp (the bound on erfc(6) is not certified in Coq)
	for _, x := range []float64{-6, -8, down(-8), up(-8), -9, -26, -100, -1e4, -1e200} {
		obs := sp.LogErfc(x)
		an := &Anchor{Fam: "logerfc", Label: "dom:negative:ln2", Fn: "LogErfc", x: x, obs: obs, ref: math.Ln2, Desc: fmt.Sprintf("LogErfc(%v) = ln 2 within 2 ulp", x)}
		b.exactAnchor(an, math.Abs(obs-math.Ln2) <= 2*ulp)
	}
}

func (b *builder) sinCosPi() {
	for _, x := range []float64{0.3, -0.3, 0.75, -0.75, 1.25, -1.25, 2.25, -2.25, 2.8125, 3.75, -3.75, 0.2, -0.2, 1.125, -4.125, 101.75} {
		for _, fn := range []string{"SinPi", "CosPi"} {
			var obs, ref float64
			closed := ""
			if fn == "SinPi" {
				obs, ref, closed = sp.SinPi(x), math.Sin(math.Pi*x), "sin (PI * "+R(x)+")"
			} else {
				obs, ref, closed = sp.CosPi(x), math.Cos(math.Pi*x), "cos (PI * "+R(x)+")"
			}
			an := &Anchor{Fam: "sincospi", Label: "dom", Fn: fn, x: x, obs: obs, ref: ref, Desc: fmt.Sprintf("%s(%v)", fn, x), Bnd: true}
			an.tol = 4 * ulp
			an.tac = ivTac(100)
			an.goal = stdGoal(closed, obs, an.tol)
			b.add(an)
		}
	}
	// exact values at integers and half-integers (both parities, both signs)
	for _, x := range []float64{0.5, -0.5, 1.5, -1.5, 2.5, -2.5, 1, -1, 2, -2, 3, 7, -7} {
		s, c := sp.SinPi(x), sp.CosPi(x)
		es, ec := math.Round(math.Sin(math.Pi*x)), math.Round(math.Cos(math.Pi*x))
		an := &Anchor{Fam: "sincospi", Label: "dom:exact", Fn: "SinPi", x: x, obs: s, ref: es, Desc: fmt.Sprintf("SinPi(%v) = %v exactly", x, es)}
		b.exactAnchor(an, s == es)
		an2 := &Anchor{Fam: "sincospi", Label: "dom:exact", Fn: "CosPi", x: x, obs: c, ref: ec, Desc: fmt.Sprintf("CosPi(%v) = %v exactly", x, ec)}
		b.exactAnchor(an2, c == ec)
	}
}

func (b *builder) derivDomain() {
	for _, c := range [][2]float64{{-1, 2}, {0, 2}, {2, -1}, {0.5, -0.25}} {
		o := sp.GammaPfirstDerivative(c[0], c[1])
		an := &Anchor{Fam: "igamma-deriv", Label: "dom:outside", Fn: "GammaPDerivDomain", H: int(2 * c[0]), x: c[1], obs: o, ref: math.NaN(),
			Desc: fmt.Sprintf("GammaPfirstDerivative(%v, %v): outside the domain, NaN specified", c[0], c[1])}
		b.exactAnchor(an, math.IsNaN(o))
	}
}

func (b *builder) round3() {
	b.derivDomain()
	b.besselDomain()
	b.digamma3Quarter()
	b.polygammaNegHalf()
	b.zetaReflect()
	b.logErfcNegative()
	b.sinCosPi()
}

// parity / sign tags of the round-3 families (see predsOf)
func sinCosPreds(fn string, x float64) []predEv {
	var ev []predEv
	ax := math.Abs(x)
	if fn == "SinPi" {
		ev = append(ev, predEv{"SinPi|x<0", x, 0, 0, x < 0}, predEv{"SinPi|x<0.5", ax, 0.5, 0, ax < 0.5})
		if ax < 0.5 {
			return ev
		}
		ev = append(ev, predEv{"SinPi|x<1", ax, 1, 0, ax < 1})
		y := ax
		if ax < 1 {
			y = -ax
		}
		rem := math.Floor(y)
		odd := int(rem)&1 != 0
		ev = append(ev, predEv{"SinPi|int(rem)&1!=0", float64(int(rem) & 1), 0, 1, odd})
		r := y - rem
		ev = append(ev, predEv{"SinPi|rem>0.5", r, 0.5, 0, r > 0.5})
		if r > 0.5 {
			r = 1 - r
		}
		ev = append(ev, predEv{"SinPi|rem==0.5", r, 0.5, 0, r == 0.5})
		return ev
	}
	ev = append(ev, predEv{"CosPi|math.Abs(x)<0.25", ax, 0.25, 0, ax < 0.25})
	if ax < 0.25 {
		return ev
	}
	ev = append(ev, predEv{"CosPi|x<0", x, 0, 0, x < 0})
	rem := math.Floor(ax)
	ev = append(ev, predEv{"CosPi|int(rem)&1!=0", float64(int(rem) & 1), 0, 1, int(rem)&1 != 0})
	r := ax - rem
	ev = append(ev, predEv{"CosPi|rem>0.5", r, 0.5, 0, r > 0.5})
	if r > 0.5 {
		r = 1 - r
	}
	ev = append(ev, predEv{"CosPi|rem==0.5", r, 0.5, 0, r == 0.5}, predEv{"CosPi|rem>0.25", r, 0.25, 0, r > 0.25})
	return ev
}
